---------------------------- MODULE GenLifecycle ----------------------------
(* Scenario generator for C14.  It explores the Lifecycle model up to the
   cancellation (full Next, no reduction) and, in the state right after Cancel,
   emits where every concurrent call and every library goroutine stood at that
   instant - provided the harness can put the real code into that position
   without hooks (Realizable): calls sit at their hand-off only while the event
   loop is parked inside the handling of one request (a RawTracer callback or an
   application callback running on the loop goroutine blocks on a harness channel),
   at most one call is being handled, validators block on a harness channel,
   buffered queues are full only while the loop is parked.

   Emitted: calls = <<[pat, phase]>> with phase in
        before     returned before the cancellation
        handling   its request is being handled by the (parked) loop
        handoff    sitting at select{req<-, ctx.Done} (loop parked)
        validator  Publish blocked in a validator
        sendq      Publish blocked in sendMsgBlocking (queue full, loop parked)
        barefull   PublishBatch blocked in its send (buffer full, loop parked)
        after      not started before the cancellation
   parker = index in calls of the call being handled, 0 = the loop is not parked,
   -1 = parked while handling an incoming RPC;  tick = a timer goroutine sits at
   its eval hand-off;  wval = a validation worker is blocked in a validator.
   Router, discovery, and the calls made after the cancellation are crossed in by
   the orchestrator (the exhaustive configurations cover them in the model).    *)
EXTENDS Lifecycle, Json

VARIABLES snap, fresh
gvars == <<vars, snap, fresh>>

Parkable(p) == p \in {"SelSend_Recv", "SubscribeDisc", "SelSend_SelRecv", "SelSend"}
Parked == /\ loop.st = "handling"
          /\ \/ loop.kind = "incoming"
             \/ loop.kind = "call" /\ Parkable(pat[loop.who])

Realizable ==
    /\ loop.st = "handling" => Parked
    /\ \A i \in Conc :
         /\ pc[i] \in {"send", "sendmsg", "bare"} => Parked
         /\ pc[i] = "recv" => (loop.st = "handling" /\ loop.kind = "call" /\ loop.who = i /\ ~reply[i])
         /\ pc[i] = "sendmsg" => sendQ = SendCap
         /\ pc[i] = "bare" => (pat[i] = "PublishBatch" /\ batchQ = BatchCap)
    /\ (batchQ > 0 \/ sendQ > 0 \/ timer = "hand") => Parked
    /\ discQ = 0 /\ valQ = 0 /\ incQ = 0
    /\ reader = "read" /\ worker \in {"idle", "val"}

Phase(i) == CASE pc[i] = "idle"    -> "after"
              [] pc[i] = "ret"     -> "before"
              [] pc[i] = "send"    -> "handoff"
              [] pc[i] = "recv"    -> "handling"
              [] pc[i] = "val"     -> "validator"
              [] pc[i] = "sendmsg" -> "sendq"
              [] pc[i] = "bare"    -> "barefull"

ActiveConc == {i \in Conc : pat[i] # "none"}
\* position of slot i among the active concurrent slots
Pos(i) == Cardinality({j \in ActiveConc : j <= i})
SeqOfActive == [k \in 1..Cardinality(ActiveConc) |->
                  LET i == CHOOSE j \in ActiveConc : Pos(j) = k IN [pat |-> pat[i], phase |-> Phase(i)]]

Scenario == [calls  |-> SeqOfActive,
             parker |-> IF ~Parked THEN 0 ELSE IF loop.kind = "incoming" THEN 0 - 1 + 0 ELSE Pos(loop.who),
             tick   |-> timer = "hand",
             wval   |-> worker = "val",
             batchq |-> batchQ, sendq |-> sendQ]

GenInit == Init /\ snap = "" /\ fresh = FALSE
GenNext == \/ /\ ~cancelled /\ NonCancel /\ fresh' = FALSE /\ UNCHANGED snap
           \/ /\ Cancel /\ Realizable /\ fresh' = TRUE /\ snap' = ToJson(Scenario)
GenSpec == GenInit /\ [][GenNext]_gvars

\* stop right after the cancellation
StopAtCancel == ~cancelled \/ fresh
Emit == fresh => PrintT(<<"SCN", snap>>)
=============================================================================
