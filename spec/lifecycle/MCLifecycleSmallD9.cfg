SPECIFICATION FairSpec
CONSTANTS
  NConc = 0
  NPost = 2
  BareSendPublishBatch = TRUE
  BareSendDiscover = FALSE
  UnbufferedSelRecvReply = FALSE
  BareSendMsg = FALSE
  BareRetry = FALSE
  CheckThenActIncoming = FALSE
  BareSendConnect = FALSE
  MaxRetry = 0
  MaxDirect = 0
  ConnCap = 1
  FirstMsgBuffered = TRUE
  MaxNewPeer = 0
  BootArmEval = TRUE
  BootArmQ = TRUE
  BootArmDone = TRUE
  BootArmTimer = TRUE
  RoundAlwaysSignals = TRUE
  MaxBoot = 0
  BatchCap = 1
  DiscCap = 1
  SendCap = 1
  MaxTicks = 0
  MaxRemote = 0
INVARIANTS TypeOK
PROPERTIES LiveReturns LiveExit
CHECK_DEADLOCK FALSE
