SPECIFICATION FairSpec
CONSTANTS
  NConc = 0
  NPost = 2
  BareSendPublishBatch = TRUE
  BareSendDiscover = FALSE
  UnbufferedSelRecvReply = FALSE
  BareSendMsg = FALSE
  BatchCap = 1
  DiscCap = 1
  SendCap = 1
  MaxTicks = 0
  MaxRemote = 0
INVARIANTS TypeOK
PROPERTIES LiveReturns LiveExit
CHECK_DEADLOCK FALSE
