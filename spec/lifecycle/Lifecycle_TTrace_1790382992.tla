---- MODULE Lifecycle_TTrace_1790382992 ----
EXTENDS Sequences, TLCExt, Toolbox, Lifecycle, Naturals, TLC

_expression ==
    LET Lifecycle_TEExpression == INSTANCE Lifecycle_TEExpression
    IN Lifecycle_TEExpression!expression
----

_trace ==
    LET Lifecycle_TETrace == INSTANCE Lifecycle_TETrace
    IN Lifecycle_TETrace!trace
----

_inv ==
    ~(
        TLCGet("level") = Len(_TETrace)
        /\
        res = (<<"", "", "ctx", "">>)
        /\
        pat = (<<"none", "none", "SubscribeDisc", "SubscribeDisc">>)
        /\
        incQ = (0)
        /\
        sweeper = ("done")
        /\
        ticks = (0)
        /\
        qOpen = (FALSE)
        /\
        reader = ("done")
        /\
        valQ = (0)
        /\
        remote = (0)
        /\
        sendQ = (0)
        /\
        discQ = (1)
        /\
        panic = ({})
        /\
        timer = ("done")
        /\
        pc = (<<"idle", "idle", "ret", "bare">>)
        /\
        loop = ([st |-> "exited", kind |-> "", who |-> 0])
        /\
        inPeers = (FALSE)
        /\
        cancelled = (TRUE)
        /\
        disc = ("done")
        /\
        writer = ("done")
        /\
        reply = (<<FALSE, FALSE, FALSE, FALSE>>)
        /\
        worker = ("done")
        /\
        streamsClosed = (TRUE)
        /\
        batchQ = (0)
    )
----

_init ==
    /\ batchQ = _TETrace[1].batchQ
    /\ sweeper = _TETrace[1].sweeper
    /\ cancelled = _TETrace[1].cancelled
    /\ pat = _TETrace[1].pat
    /\ discQ = _TETrace[1].discQ
    /\ qOpen = _TETrace[1].qOpen
    /\ writer = _TETrace[1].writer
    /\ ticks = _TETrace[1].ticks
    /\ pc = _TETrace[1].pc
    /\ panic = _TETrace[1].panic
    /\ reply = _TETrace[1].reply
    /\ disc = _TETrace[1].disc
    /\ loop = _TETrace[1].loop
    /\ streamsClosed = _TETrace[1].streamsClosed
    /\ reader = _TETrace[1].reader
    /\ incQ = _TETrace[1].incQ
    /\ res = _TETrace[1].res
    /\ inPeers = _TETrace[1].inPeers
    /\ remote = _TETrace[1].remote
    /\ valQ = _TETrace[1].valQ
    /\ sendQ = _TETrace[1].sendQ
    /\ worker = _TETrace[1].worker
    /\ timer = _TETrace[1].timer
----

_next ==
    /\ \E i,j \in DOMAIN _TETrace:
        /\ \/ /\ j = i + 1
              /\ i = TLCGet("level")
        /\ batchQ  = _TETrace[i].batchQ
        /\ batchQ' = _TETrace[j].batchQ
        /\ sweeper  = _TETrace[i].sweeper
        /\ sweeper' = _TETrace[j].sweeper
        /\ cancelled  = _TETrace[i].cancelled
        /\ cancelled' = _TETrace[j].cancelled
        /\ pat  = _TETrace[i].pat
        /\ pat' = _TETrace[j].pat
        /\ discQ  = _TETrace[i].discQ
        /\ discQ' = _TETrace[j].discQ
        /\ qOpen  = _TETrace[i].qOpen
        /\ qOpen' = _TETrace[j].qOpen
        /\ writer  = _TETrace[i].writer
        /\ writer' = _TETrace[j].writer
        /\ ticks  = _TETrace[i].ticks
        /\ ticks' = _TETrace[j].ticks
        /\ pc  = _TETrace[i].pc
        /\ pc' = _TETrace[j].pc
        /\ panic  = _TETrace[i].panic
        /\ panic' = _TETrace[j].panic
        /\ reply  = _TETrace[i].reply
        /\ reply' = _TETrace[j].reply
        /\ disc  = _TETrace[i].disc
        /\ disc' = _TETrace[j].disc
        /\ loop  = _TETrace[i].loop
        /\ loop' = _TETrace[j].loop
        /\ streamsClosed  = _TETrace[i].streamsClosed
        /\ streamsClosed' = _TETrace[j].streamsClosed
        /\ reader  = _TETrace[i].reader
        /\ reader' = _TETrace[j].reader
        /\ incQ  = _TETrace[i].incQ
        /\ incQ' = _TETrace[j].incQ
        /\ res  = _TETrace[i].res
        /\ res' = _TETrace[j].res
        /\ inPeers  = _TETrace[i].inPeers
        /\ inPeers' = _TETrace[j].inPeers
        /\ remote  = _TETrace[i].remote
        /\ remote' = _TETrace[j].remote
        /\ valQ  = _TETrace[i].valQ
        /\ valQ' = _TETrace[j].valQ
        /\ sendQ  = _TETrace[i].sendQ
        /\ sendQ' = _TETrace[j].sendQ
        /\ worker  = _TETrace[i].worker
        /\ worker' = _TETrace[j].worker
        /\ timer  = _TETrace[i].timer
        /\ timer' = _TETrace[j].timer

\* Uncomment the ASSUME below to write the states of the error trace
\* to the given file in Json format. Note that you can pass any tuple
\* to `JsonSerialize`. For example, a sub-sequence of _TETrace.
    \* ASSUME
    \*     LET J == INSTANCE Json
    \*         IN J!JsonSerialize("Lifecycle_TTrace_1790382992.json", _TETrace)

=============================================================================

 Note that you can extract this module `Lifecycle_TEExpression`
  to a dedicated file to reuse `expression` (the module in the 
  dedicated `Lifecycle_TEExpression.tla` file takes precedence 
  over the module `Lifecycle_TEExpression` below).

---- MODULE Lifecycle_TEExpression ----
EXTENDS Sequences, TLCExt, Toolbox, Lifecycle, Naturals, TLC

expression == 
    [
        \* To hide variables of the `Lifecycle` spec from the error trace,
        \* remove the variables below.  The trace will be written in the order
        \* of the fields of this record.
        batchQ |-> batchQ
        ,sweeper |-> sweeper
        ,cancelled |-> cancelled
        ,pat |-> pat
        ,discQ |-> discQ
        ,qOpen |-> qOpen
        ,writer |-> writer
        ,ticks |-> ticks
        ,pc |-> pc
        ,panic |-> panic
        ,reply |-> reply
        ,disc |-> disc
        ,loop |-> loop
        ,streamsClosed |-> streamsClosed
        ,reader |-> reader
        ,incQ |-> incQ
        ,res |-> res
        ,inPeers |-> inPeers
        ,remote |-> remote
        ,valQ |-> valQ
        ,sendQ |-> sendQ
        ,worker |-> worker
        ,timer |-> timer
        
        \* Put additional constant-, state-, and action-level expressions here:
        \* ,_stateNumber |-> _TEPosition
        \* ,_batchQUnchanged |-> batchQ = batchQ'
        
        \* Format the `batchQ` variable as Json value.
        \* ,_batchQJson |->
        \*     LET J == INSTANCE Json
        \*     IN J!ToJson(batchQ)
        
        \* Lastly, you may build expressions over arbitrary sets of states by
        \* leveraging the _TETrace operator.  For example, this is how to
        \* count the number of times a spec variable changed up to the current
        \* state in the trace.
        \* ,_batchQModCount |->
        \*     LET F[s \in DOMAIN _TETrace] ==
        \*         IF s = 1 THEN 0
        \*         ELSE IF _TETrace[s].batchQ # _TETrace[s-1].batchQ
        \*             THEN 1 + F[s-1] ELSE F[s-1]
        \*     IN F[_TEPosition - 1]
    ]

=============================================================================



Parsing and semantic processing can take forever if the trace below is long.
 In this case, it is advised to uncomment the module below to deserialize the
 trace from a generated binary file.

\*
\*---- MODULE Lifecycle_TETrace ----
\*EXTENDS IOUtils, Lifecycle, TLC
\*
\*trace == IODeserialize("Lifecycle_TTrace_1790382992.bin", TRUE)
\*
\*=============================================================================
\*

---- MODULE Lifecycle_TETrace ----
EXTENDS Lifecycle, TLC

trace == 
    <<
    ([res |-> <<"", "", "", "">>,pat |-> <<"none", "none", "SubscribeDisc", "SubscribeDisc">>,incQ |-> 0,sweeper |-> "run",ticks |-> 0,qOpen |-> TRUE,reader |-> "read",valQ |-> 0,remote |-> 0,sendQ |-> 0,discQ |-> 0,panic |-> {},timer |-> "wait",pc |-> <<"idle", "idle", "idle", "idle">>,loop |-> [st |-> "idle", kind |-> "", who |-> 0],inPeers |-> TRUE,cancelled |-> FALSE,disc |-> "run",writer |-> "pop",reply |-> <<FALSE, FALSE, FALSE, FALSE>>,worker |-> "idle",streamsClosed |-> FALSE,batchQ |-> 0]),
    ([res |-> <<"", "", "", "">>,pat |-> <<"none", "none", "SubscribeDisc", "SubscribeDisc">>,incQ |-> 0,sweeper |-> "run",ticks |-> 0,qOpen |-> TRUE,reader |-> "read",valQ |-> 0,remote |-> 0,sendQ |-> 0,discQ |-> 0,panic |-> {},timer |-> "wait",pc |-> <<"idle", "idle", "idle", "idle">>,loop |-> [st |-> "idle", kind |-> "", who |-> 0],inPeers |-> TRUE,cancelled |-> TRUE,disc |-> "run",writer |-> "pop",reply |-> <<FALSE, FALSE, FALSE, FALSE>>,worker |-> "idle",streamsClosed |-> FALSE,batchQ |-> 0]),
    ([res |-> <<"", "", "", "">>,pat |-> <<"none", "none", "SubscribeDisc", "SubscribeDisc">>,incQ |-> 0,sweeper |-> "run",ticks |-> 0,qOpen |-> TRUE,reader |-> "read",valQ |-> 0,remote |-> 0,sendQ |-> 0,discQ |-> 0,panic |-> {},timer |-> "wait",pc |-> <<"idle", "idle", "bare", "idle">>,loop |-> [st |-> "idle", kind |-> "", who |-> 0],inPeers |-> TRUE,cancelled |-> TRUE,disc |-> "run",writer |-> "pop",reply |-> <<FALSE, FALSE, FALSE, FALSE>>,worker |-> "idle",streamsClosed |-> FALSE,batchQ |-> 0]),
    ([res |-> <<"", "", "", "">>,pat |-> <<"none", "none", "SubscribeDisc", "SubscribeDisc">>,incQ |-> 0,sweeper |-> "run",ticks |-> 0,qOpen |-> TRUE,reader |-> "read",valQ |-> 0,remote |-> 0,sendQ |-> 0,discQ |-> 0,panic |-> {},timer |-> "wait",pc |-> <<"idle", "idle", "bare", "bare">>,loop |-> [st |-> "idle", kind |-> "", who |-> 0],inPeers |-> TRUE,cancelled |-> TRUE,disc |-> "run",writer |-> "pop",reply |-> <<FALSE, FALSE, FALSE, FALSE>>,worker |-> "idle",streamsClosed |-> FALSE,batchQ |-> 0]),
    ([res |-> <<"", "", "", "">>,pat |-> <<"none", "none", "SubscribeDisc", "SubscribeDisc">>,incQ |-> 0,sweeper |-> "run",ticks |-> 0,qOpen |-> TRUE,reader |-> "read",valQ |-> 0,remote |-> 0,sendQ |-> 0,discQ |-> 0,panic |-> {},timer |-> "wait",pc |-> <<"idle", "idle", "bare", "bare">>,loop |-> [st |-> "idle", kind |-> "", who |-> 0],inPeers |-> TRUE,cancelled |-> TRUE,disc |-> "run",writer |-> "done",reply |-> <<FALSE, FALSE, FALSE, FALSE>>,worker |-> "idle",streamsClosed |-> FALSE,batchQ |-> 0]),
    ([res |-> <<"", "", "", "">>,pat |-> <<"none", "none", "SubscribeDisc", "SubscribeDisc">>,incQ |-> 0,sweeper |-> "run",ticks |-> 0,qOpen |-> TRUE,reader |-> "read",valQ |-> 0,remote |-> 0,sendQ |-> 0,discQ |-> 0,panic |-> {},timer |-> "done",pc |-> <<"idle", "idle", "bare", "bare">>,loop |-> [st |-> "idle", kind |-> "", who |-> 0],inPeers |-> TRUE,cancelled |-> TRUE,disc |-> "run",writer |-> "done",reply |-> <<FALSE, FALSE, FALSE, FALSE>>,worker |-> "idle",streamsClosed |-> FALSE,batchQ |-> 0]),
    ([res |-> <<"", "", "", "">>,pat |-> <<"none", "none", "SubscribeDisc", "SubscribeDisc">>,incQ |-> 0,sweeper |-> "run",ticks |-> 0,qOpen |-> TRUE,reader |-> "read",valQ |-> 0,remote |-> 0,sendQ |-> 0,discQ |-> 0,panic |-> {},timer |-> "done",pc |-> <<"idle", "idle", "bare", "bare">>,loop |-> [st |-> "idle", kind |-> "", who |-> 0],inPeers |-> TRUE,cancelled |-> TRUE,disc |-> "run",writer |-> "done",reply |-> <<FALSE, FALSE, FALSE, FALSE>>,worker |-> "done",streamsClosed |-> FALSE,batchQ |-> 0]),
    ([res |-> <<"", "", "", "">>,pat |-> <<"none", "none", "SubscribeDisc", "SubscribeDisc">>,incQ |-> 0,sweeper |-> "run",ticks |-> 0,qOpen |-> TRUE,reader |-> "read",valQ |-> 0,remote |-> 0,sendQ |-> 0,discQ |-> 0,panic |-> {},timer |-> "done",pc |-> <<"idle", "idle", "bare", "bare">>,loop |-> [st |-> "idle", kind |-> "", who |-> 0],inPeers |-> TRUE,cancelled |-> TRUE,disc |-> "run",writer |-> "done",reply |-> <<FALSE, FALSE, FALSE, FALSE>>,worker |-> "done",streamsClosed |-> TRUE,batchQ |-> 0]),
    ([res |-> <<"", "", "", "">>,pat |-> <<"none", "none", "SubscribeDisc", "SubscribeDisc">>,incQ |-> 0,sweeper |-> "run",ticks |-> 0,qOpen |-> TRUE,reader |-> "done",valQ |-> 0,remote |-> 0,sendQ |-> 0,discQ |-> 0,panic |-> {},timer |-> "done",pc |-> <<"idle", "idle", "bare", "bare">>,loop |-> [st |-> "idle", kind |-> "", who |-> 0],inPeers |-> TRUE,cancelled |-> TRUE,disc |-> "run",writer |-> "done",reply |-> <<FALSE, FALSE, FALSE, FALSE>>,worker |-> "done",streamsClosed |-> TRUE,batchQ |-> 0]),
    ([res |-> <<"", "", "", "">>,pat |-> <<"none", "none", "SubscribeDisc", "SubscribeDisc">>,incQ |-> 0,sweeper |-> "run",ticks |-> 0,qOpen |-> TRUE,reader |-> "done",valQ |-> 0,remote |-> 0,sendQ |-> 0,discQ |-> 1,panic |-> {},timer |-> "done",pc |-> <<"idle", "idle", "send", "bare">>,loop |-> [st |-> "idle", kind |-> "", who |-> 0],inPeers |-> TRUE,cancelled |-> TRUE,disc |-> "run",writer |-> "done",reply |-> <<FALSE, FALSE, FALSE, FALSE>>,worker |-> "done",streamsClosed |-> TRUE,batchQ |-> 0]),
    ([res |-> <<"", "", "ctx", "">>,pat |-> <<"none", "none", "SubscribeDisc", "SubscribeDisc">>,incQ |-> 0,sweeper |-> "run",ticks |-> 0,qOpen |-> TRUE,reader |-> "done",valQ |-> 0,remote |-> 0,sendQ |-> 0,discQ |-> 1,panic |-> {},timer |-> "done",pc |-> <<"idle", "idle", "ret", "bare">>,loop |-> [st |-> "idle", kind |-> "", who |-> 0],inPeers |-> TRUE,cancelled |-> TRUE,disc |-> "run",writer |-> "done",reply |-> <<FALSE, FALSE, FALSE, FALSE>>,worker |-> "done",streamsClosed |-> TRUE,batchQ |-> 0]),
    ([res |-> <<"", "", "ctx", "">>,pat |-> <<"none", "none", "SubscribeDisc", "SubscribeDisc">>,incQ |-> 0,sweeper |-> "done",ticks |-> 0,qOpen |-> FALSE,reader |-> "done",valQ |-> 0,remote |-> 0,sendQ |-> 0,discQ |-> 1,panic |-> {},timer |-> "done",pc |-> <<"idle", "idle", "ret", "bare">>,loop |-> [st |-> "exited", kind |-> "", who |-> 0],inPeers |-> FALSE,cancelled |-> TRUE,disc |-> "run",writer |-> "done",reply |-> <<FALSE, FALSE, FALSE, FALSE>>,worker |-> "done",streamsClosed |-> TRUE,batchQ |-> 0]),
    ([res |-> <<"", "", "ctx", "">>,pat |-> <<"none", "none", "SubscribeDisc", "SubscribeDisc">>,incQ |-> 0,sweeper |-> "done",ticks |-> 0,qOpen |-> FALSE,reader |-> "done",valQ |-> 0,remote |-> 0,sendQ |-> 0,discQ |-> 1,panic |-> {},timer |-> "done",pc |-> <<"idle", "idle", "ret", "bare">>,loop |-> [st |-> "exited", kind |-> "", who |-> 0],inPeers |-> FALSE,cancelled |-> TRUE,disc |-> "done",writer |-> "done",reply |-> <<FALSE, FALSE, FALSE, FALSE>>,worker |-> "done",streamsClosed |-> TRUE,batchQ |-> 0])
    >>
----


=============================================================================

---- CONFIG Lifecycle_TTrace_1790382992 ----
CONSTANTS
    NConc = 2
    NPost = 2
    BareSendPublishBatch = FALSE
    BareSendDiscover = TRUE
    UnbufferedSelRecvReply = FALSE
    BatchCap = 1
    DiscCap = 1
    SendCap = 1
    MaxTicks = 0
    MaxRemote = 0

INVARIANT
    _inv

CHECK_DEADLOCK
    \* CHECK_DEADLOCK off because of PROPERTY or INVARIANT above.
    FALSE

INIT
    _init

NEXT
    _next

CONSTANT
    _TETrace <- _trace

ALIAS
    _expression
=============================================================================
\* Generated on Sat Sep 26 00:36:46 UTC 2026