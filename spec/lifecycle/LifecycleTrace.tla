--------------------------- MODULE LifecycleTrace ---------------------------
(* Trace specification for C14.  The driver (harness/drivers/c14) replays scenarios
   into a real PubSub instance and writes, per scenario,

     {"e":"reset","scn",router,disc,tcbl,parker,...}
     {"e":"call","scn","id","api","apik","pat","phase","when","ord","qord","ret","res","dt"}   one per API call
     {"e":"exit","scn","left":"f1,f2,..","n"}      library goroutines alive after cancel + host close
     {"e":"end","scn"}

   The replays are deterministic line by line, so the predicates are evaluated per
   line and every failure is printed (<<"VIOL", json>>); the orchestrator turns them
   into verdicts.  Checked on the observations:

     P_C14_Returns   every call returned within the watchdog (30 s of virtual time;
                     Next / NextPeerEvent: by their caller's deadline) - unless the model
                     says the call may block (MayBlock; empty for the repaired model,
                     which is the configuration used for the verdict)
     P_C14_Exit      no library goroutine is left
     Structure       reset, >= 1 call, exit, end - in this order, same scenario id
   Conformance (reported as <<"DRIFT", json>>, never a verdict):
     the driver's api -> pattern table is the model's;
     a call made before the cancellation was served, a call made after the shutdown
     was not (result classes);
     with the as-found constants: a call the model says MUST block (loop never parked,
     ordinal beyond the capacity) did block.                                         *)
EXTENDS Naturals, Sequences, FiniteSets, TLC, Json, LifecyclePatterns

CONSTANTS BareSendPublishBatch, BareSendDiscover, BatchCap, DiscCap

Trace == ndJsonDeserialize("trace.ndjson")

VARIABLES l,       \* cursor
          scn,     \* current scenario id (0 = none)
          cfg,     \* its reset line
          stage,   \* "none" | "calls" | "exited"
          ncalls,
          nviol

tvars == <<l, scn, cfg, stage, ncalls, nviol>>
E == Trace[l]
More == l <= Len(Trace)

Viol(pred, what) == PrintT(<<"VIOL", ToJson([pred |-> pred, scn |-> scn, what |-> what, line |-> E])>>)
Drift(what) == PrintT(<<"DRIFT", ToJson([scn |-> scn, what |-> what, line |-> E])>>)

NoCfg == [scn |-> 0, router |-> "", disc |-> FALSE, tcbl |-> FALSE, parker |-> 0]

TInit == /\ TLCSet(1, 0) /\ l = 1 /\ scn = 0 /\ cfg = NoCfg /\ stage = "none" /\ ncalls = 0 /\ nviol = 0

TReset ==
    /\ More /\ E.e = "reset"
    /\ IF stage # "none" THEN Viol("Structure", "reset inside a scenario") ELSE TRUE
    /\ scn' = E.scn /\ cfg' = E /\ stage' = "calls" /\ ncalls' = 0
    /\ nviol' = nviol + (IF stage # "none" THEN 1 ELSE 0)
    /\ l' = l + 1

MayBlockLine == MayBlock(E.pat, E.qord, BareSendPublishBatch, BareSendDiscover, BatchCap, DiscCap)

ReturnsOK == E.ret \/ MayBlockLine
Served == {"ok", "nil", "void", "err"}
NotServed == {"ctx", "nil", "void"}

TCall ==
    /\ More /\ E.e = "call"
    /\ LET structOK == stage = "calls" /\ E.scn = scn
           patOK == /\ E.apik \in DOMAIN PatternOf
                    /\ E.pat = PatternWith(E.apik, cfg.disc)
           resOK == \/ ~E.ret
                    \/ E.pat = "CallerCtx"
                    \/ E.phase = "notrun"
                    \/ /\ E.phase = "before" => E.res \in Served
                       /\ (E.phase = "after" /\ E.pat # "PublishBatch") => E.res \in NotServed
           mustOK == (E.phase = "after" /\ cfg.parker = 0 /\ MayBlockLine) => ~E.ret
       IN /\ IF ~structOK THEN Viol("Structure", "call line outside its scenario") ELSE TRUE
          /\ IF ~ReturnsOK THEN Viol("P_C14_Returns", "call did not return") ELSE TRUE
          /\ IF structOK /\ ~patOK THEN Drift("api/pattern table differs from the model") ELSE TRUE
          /\ IF ~resOK THEN Drift("result class not predicted by the model") ELSE TRUE
          /\ IF ~mustOK THEN Drift("the as-found model says this call blocks; it returned") ELSE TRUE
          /\ nviol' = nviol + (IF ~structOK THEN 1 ELSE 0) + (IF ~ReturnsOK THEN 1 ELSE 0)
    /\ ncalls' = ncalls + 1
    /\ l' = l + 1 /\ UNCHANGED <<scn, cfg, stage>>

TExit ==
    /\ More /\ E.e = "exit"
    /\ LET structOK == stage = "calls" /\ E.scn = scn /\ ncalls > 0 IN
       /\ IF ~structOK THEN Viol("Structure", "exit line out of place") ELSE TRUE
       /\ IF E.n # 0 THEN Viol("P_C14_Exit", "library goroutines left") ELSE TRUE
       /\ nviol' = nviol + (IF ~structOK THEN 1 ELSE 0) + (IF E.n # 0 THEN 1 ELSE 0)
    /\ stage' = "exited"
    /\ l' = l + 1 /\ UNCHANGED <<scn, cfg, ncalls>>

TEnd ==
    /\ More /\ E.e = "end"
    /\ IF stage # "exited" \/ E.scn # scn THEN Viol("Structure", "scenario ended without its exit line") ELSE TRUE
    /\ nviol' = nviol + (IF stage # "exited" \/ E.scn # scn THEN 1 ELSE 0)
    /\ stage' = "none" /\ scn' = 0 /\ cfg' = NoCfg /\ ncalls' = 0
    /\ l' = l + 1

TNext == TReset \/ TCall \/ TExit \/ TEnd
TraceSpec == TInit /\ [][TNext]_tvars

HW == IF TLCGet(1) < l THEN TLCSet(1, l) ELSE TRUE
Accepted == PrintT(<<"HW", TLCGet(1), Len(Trace) + 1>>)
=============================================================================
