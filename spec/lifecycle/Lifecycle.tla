------------------------------ MODULE Lifecycle ------------------------------
(* C14 - after shutdown every API call returns and every library goroutine exits.

   Implementation-shaped model of the life cycle of one PubSub instance:

     Loop        processLoop: idle -> handling(req) -> idle; once it observes the
                 cancellation in its select it runs the deferred cleanup (closes the
                 peer queues still in p.peers, stops the seen cache) and is exited.
                 Go's select picks any ready case: after cancellation the loop may
                 still serve pending requests before it picks ctx.Done.
     Call(i)     one API call, with the HAND-OFF PATTERN of the code:
                   SelSend_Recv    select{req<-, ctx.Done}; then <-reply (buffered 1)
                                   Join, Subscribe, Relay, GetTopics, Register/Unregister
                                   TopicValidator, Close, SetScoreParams, EventHandler
                   SelSend_SelRecv select{eval<-, ctx.Done}; then select{<-reply, ctx.Done}
                                   syncEval (AddDirectPeer, RemoveDirectPeer, PeerFeedback),
                                   PublishPartial
                   SelSend         select{req<-, ctx.Done}; no reply
                                   Subscription.Cancel, BlacklistPeer, RelayCancelFunc
                   SelSend_Unbuf   select{req<-, ctx.Done}; then <-reply (UNBUFFERED; the
                                   loop sends while handling): ListPeers
                   Publish         select{eval<- Preprocess, ctx.Done}; validators bound to
                                   the instance context; sendMsgBlocking select{sendMsg<-, ctx.Done}
                   PublishBatch    send on sendMessageBatch (capacity BatchCap); BARE in the
                                   code as found (D9), select{.., ctx.Done} once repaired
                   SubscribeDisc   Subscribe/Relay with discovery configured: first
                                   discover.Discover = send on discoverQ (capacity DiscCap,
                                   32 in the code); BARE as found (D10); then SelSend_Recv
     DiscLoop    discover.discoverLoop: select{<-discoverQ, ctx.Done}
     Worker      validation.validateWorker: select{<-validateQ, ctx.Done}; validator bound
                 to the instance context; sendMsgBlocking
     Timer       heartbeatTimer / pollTimer / announceRetry: select{tick, ctx.Done}; then
                 select{eval<-, ctx.Done}
     Writer      handleSendingMessages: Pop(ctx) on a queue that gets closed
     Reader      handleNewStream / handlePeerDead: blocked in Read until the host closes
                 the stream; then select{incoming<-, ctx.Done}
     Sweeper     seen-cache background goroutine, stopped by the loop's cleanup
     Retry       announceRetry: time.Sleep, then select{eval<-, ctx.Done} (BareRetry = seeded fault)
     Direct,     the goroutines queueing direct peers: time.Sleep, then sends on gs.connect - BARE in the
     Connector   code as found (D29, BareSendConnect); the connector select{<-gs.connect, ctx.Done}
                 (Reader with CheckThenActIncoming = seeded fault: ctx.Err() check, then a bare send)
     NewPeer,    adoption of a new outbound stream: handleNewPeer's hand-off, the loop's hello
     Writer2     s.FirstMessage <- helloPacket (FirstMsgBuffered = FALSE is a seeded fault: the loop blocks
                 for ever when the writer has left through ctx.Done)
     Boot, Round discover.Bootstrap's four selects (each p.ctx arm a switch) and the discovery round goroutine
                 (RoundAlwaysSignals = FALSE + BootArmDone = FALSE is a seeded pair of faults)
     Cancel      the constructor's context is cancelled, at any point
     CloseStreams the host closes the streams, some time after the cancellation

   Every behaviour is finite (each call moves forward, ticks and remote frames are
   bounded), so "eventually" is "in every terminal state":

     P_C14_Returns   no terminal state with an unreturned call
     P_C14_Exit      no terminal state with a library process that is not done
     P_C14_NoPanic   no push on a closed queue, no double close

   The same facts are stated in temporal form (LiveReturns, LiveExit) under weak
   fairness of Next and checked on the small configuration.

   BareSendPublishBatch / BareSendDiscover = TRUE is the code as found: the model then
   FAILS P_C14_Returns (non-vacuity; D9, D10). FALSE = the repaired behaviour = the
   property.  UnbufferedSelRecvReply = TRUE is a seeded fault (the reply channel of
   PublishPartial made unbuffered): the loop can then block for ever on the reply of a
   caller that left through ctx.Done and P_C14_Exit FAILS (non-vacuity of Exit).
   BareSendMsg = TRUE is another seeded fault (sendMsgBlocking without its ctx.Done arm):
   more validations than sendMsg has room for finishing after the loop's exit block for
   ever - Publish callers (P_C14_Returns) and the validation worker (P_C14_Exit).          *)
EXTENDS Naturals, Sequences, FiniteSets, TLC, LifecyclePatterns

CONSTANTS NConc,                  \* call slots that may start at any time
          NPost,                  \* call slots that start only after the cancellation (all of one kind)
          BareSendPublishBatch,   \* TRUE = as found (D9)
          BareSendDiscover,       \* TRUE = as found (D10)
          UnbufferedSelRecvReply, \* FALSE in the code
          BareSendMsg,            \* FALSE in the code; TRUE = sendMsgBlocking without its ctx.Done arm (seeded fault)
          BareRetry,              \* FALSE in the code; TRUE = announceRetry's `p.eval <- retry` without its ctx.Done arm (seeded fault)
          CheckThenActIncoming,   \* FALSE in the code; TRUE = handleNewStream checks ctx.Err() and then does a bare send on incoming (seeded fault)
          BareSendConnect,        \* TRUE = as found (D29): the direct-peer goroutines send on gs.connect without a ctx.Done arm
          MaxRetry, MaxDirect, ConnCap,
          FirstMsgBuffered,       \* TRUE in the code: firstMessage has capacity 1 (FALSE = seeded fault: rendezvous with the writer)
          MaxNewPeer,             \* 1 = a peer's outbound stream is being adopted (handleNewPeer + its writer)
          BootArmEval, BootArmQ, BootArmDone, BootArmTimer,  \* TRUE in the code: the p.ctx.Done arm of each select of discover.Bootstrap
          RoundAlwaysSignals,     \* TRUE in the code: a discovery round signals discover.done even when it leaves through ctx.Done
          MaxBoot,                \* > 0: one Publish(WithReadiness) with discovery configured polls that many times before the router is ready
          BatchCap, DiscCap, SendCap,
          MaxTicks, MaxRemote

Idx(p) == CHOOSE k \in 1..Len(PatSeq) : PatSeq[k] = p

Slots == 1..(NConc + NPost)
Conc == 1..NConc
Post == (NConc + 1)..(NConc + NPost)

VARIABLES pat,        \* slot -> pattern (chosen initially, then constant)
          pc,         \* slot -> "idle" | "bare" | "send" | "recv" | "val" | "sendmsg" | "ret"
          res,        \* slot -> "" | "served" | "ctx" | "queued"
          reply,      \* slot -> a buffered reply is waiting
          cancelled, streamsClosed,
          loop,       \* [st, kind, who]
          batchQ, discQ, sendQ, valQ, incQ,   \* channel occupancies
          disc, worker, timer, ticks, writer, reader, remote, sweeper,
          inPeers, qOpen,   \* the one peer: still in p.peers / its queue is open
          panic,
          retry, nretry,    \* announceRetry goroutine: "none" | "sleep" | "hand" | "done"; how many were started
          direct, dleft,    \* goroutine queueing direct peers (Attach / directConnect): "none" | "sleep" | "send" | "done"
          connQ, connector, \* gs.connect occupancy; one connector: "idle" | "connecting" | "done"
          np, w2, fm,       \* handleNewPeer "none"|"hand"|"done"; its writer "none"|"first"|"pop"|"done"; hello buffered
          boot, nboot,      \* the Bootstrap call: "none"|"eval"|"wait_ready"|"dq"|"wait_done"|"timer"|"ret"; rounds so far
          bready, bdone, bq,\* buffered reply of the ready check; discover.done signalled; its request queued on discoverQ
          round             \* the discovery round goroutine: "none" | "running" | "report" | "done"

cvarsNoLoop == <<pat, pc, res, reply, cancelled, streamsClosed, batchQ, discQ, sendQ, valQ, incQ,
                 disc, worker, timer, ticks, writer, reader, remote, sweeper, inPeers, qOpen, panic>>
cvars == <<cvarsNoLoop, loop>>
aux2 == <<retry, nretry, direct, dleft, connQ, connector>>
aux3 == <<np, w2, fm, boot, nboot, bready, bdone, bq, round>>
vars == <<cvars, aux2, aux3>>

Idle == [st |-> "idle", kind |-> "", who |-> 0]

\* ---------------------------------------------------------------- initial states
\* all multisets of <= NConc concurrent calls (slots ordered by pattern index, "none" first)
\* x (kind, number <= NPost) of the calls made after the cancellation
GoodPat(f) ==
    /\ \A i, j \in Conc : i < j => Idx(f[i]) <= Idx(f[j])
    /\ \A i, j \in Post : i < j => (f[j] = "none" \/ f[j] = f[i])

Init ==
    /\ pat \in {f \in [Slots -> Patterns \cup {"none"}] : GoodPat(f)}
    /\ pc = [i \in Slots |-> "idle"]
    /\ res = [i \in Slots |-> ""]
    /\ reply = [i \in Slots |-> FALSE]
    /\ cancelled = FALSE /\ streamsClosed = FALSE
    /\ loop = Idle
    /\ batchQ = 0 /\ discQ = 0 /\ sendQ = 0 /\ valQ = 0 /\ incQ = 0
    /\ disc = "run" /\ worker = "idle" /\ timer = "wait" /\ ticks = 0
    /\ writer = "pop" /\ reader = "read" /\ remote = 0 /\ sweeper = "run"
    /\ inPeers = TRUE /\ qOpen = TRUE
    /\ panic = {}
    /\ retry = "none" /\ nretry = 0
    /\ direct = (IF MaxDirect > 0 THEN "sleep" ELSE "none") /\ dleft = MaxDirect
    /\ connQ = 0 /\ connector = (IF MaxDirect > 0 THEN "idle" ELSE "done")
    /\ np = (IF MaxNewPeer > 0 THEN "hand" ELSE "none") /\ w2 = (IF MaxNewPeer > 0 THEN "first" ELSE "none") /\ fm = FALSE
    /\ boot = (IF MaxBoot > 0 THEN "eval" ELSE "none") /\ nboot = 0
    /\ bready = FALSE /\ bdone = FALSE /\ bq = 0 /\ round = "none"

\* ---------------------------------------------------------------- helpers
Ret(i, r) == /\ pc' = [pc EXCEPT ![i] = "ret"] /\ res' = [res EXCEPT ![i] = r]
Goto(i, s) == /\ pc' = [pc EXCEPT ![i] = s] /\ UNCHANGED res

\* the loop pushes an RPC on the queue of every peer in p.peers (announce, publish, heartbeat)
PushEffect == panic' = IF inPeers /\ ~qOpen THEN panic \cup {"push-on-closed"} ELSE panic

UNCH_CALLS == UNCHANGED <<pat, pc, res, reply>>
UNCH_ENV == UNCHANGED <<cancelled, streamsClosed>>
UNCH_Q == UNCHANGED <<batchQ, discQ, sendQ, valQ, incQ>>
UNCH_PROCS == UNCHANGED <<disc, worker, timer, ticks, writer, reader, remote, sweeper>>
UNCH_PEER == UNCHANGED <<inPeers, qOpen, panic>>

\* ---------------------------------------------------------------- API calls
Start(i) ==
    /\ pc[i] = "idle" /\ pat[i] # "none"
    /\ i \in Post => cancelled
    /\ Goto(i, IF pat[i] \in {"PublishBatch", "SubscribeDisc"} THEN "bare" ELSE "send")
    /\ UNCHANGED <<pat, reply, loop>> /\ UNCH_ENV /\ UNCH_Q /\ UNCH_PROCS /\ UNCH_PEER

\* PublishBatch: p.sendMessageBatch <- ... ; Subscribe with discovery: d.discoverQ <- ...
Bare(i) ==
    /\ pc[i] = "bare"
    /\ IF pat[i] = "PublishBatch"
         THEN /\ \/ (batchQ < BatchCap /\ batchQ' = batchQ + 1 /\ Ret(i, "queued"))
                 \/ (~BareSendPublishBatch /\ cancelled /\ UNCHANGED batchQ /\ Ret(i, "ctx"))
              /\ UNCHANGED discQ
         ELSE /\ \/ (discQ < DiscCap /\ discQ' = discQ + 1 /\ Goto(i, "send"))
                 \/ (~BareSendDiscover /\ cancelled /\ UNCHANGED discQ /\ Goto(i, "send"))
              /\ UNCHANGED batchQ
    /\ UNCHANGED <<pat, reply, loop, sendQ, valQ, incQ>> /\ UNCH_ENV /\ UNCH_PROCS /\ UNCH_PEER

\* select { case reqCh <- req: ; case <-ctx.Done(): }   (request channels are unbuffered: rendezvous)
SendServed(i) ==
    /\ pc[i] = "send" /\ loop.st = "idle"
    /\ loop' = [st |-> "handling", kind |-> "call", who |-> i]
    /\ CASE pat[i] = "SelSend" -> Ret(i, "served")
         [] pat[i] = "Publish" -> Goto(i, "val")
         [] OTHER              -> Goto(i, "recv")
    /\ UNCHANGED <<pat, reply>> /\ UNCH_ENV /\ UNCH_Q /\ UNCH_PROCS /\ UNCH_PEER

SendCtx(i) ==
    /\ pc[i] = "send" /\ cancelled
    /\ Ret(i, "ctx")
    /\ UNCHANGED <<pat, reply, loop>> /\ UNCH_ENV /\ UNCH_Q /\ UNCH_PROCS /\ UNCH_PEER

\* <-reply (blocking) / select { <-reply ; <-ctx.Done() }
Recv(i) ==
    /\ pc[i] = "recv"
    /\ \/ /\ reply[i] /\ reply' = [reply EXCEPT ![i] = FALSE] /\ Ret(i, "served")
       \/ /\ pat[i] = "SelSend_SelRecv" /\ cancelled /\ UNCHANGED reply /\ Ret(i, "ctx")
    /\ UNCHANGED <<pat, loop>> /\ UNCH_ENV /\ UNCH_Q /\ UNCH_PROCS /\ UNCH_PEER

\* local validators run on the caller's goroutine with the INSTANCE context: they return when
\* they are done or when that context is cancelled (the harness's validators honour it)
ValDone(i) ==
    /\ pc[i] = "val" /\ Goto(i, "sendmsg")
    /\ UNCHANGED <<pat, reply, loop>> /\ UNCH_ENV /\ UNCH_Q /\ UNCH_PROCS /\ UNCH_PEER

\* sendMsgBlocking: select { case p.sendMsg <- msg: ; case <-p.ctx.Done(): }
SendMsg(i) ==
    /\ pc[i] = "sendmsg"
    /\ \/ /\ sendQ < SendCap /\ sendQ' = sendQ + 1 /\ Ret(i, "served")
       \/ /\ ~BareSendMsg /\ cancelled /\ UNCHANGED sendQ /\ Ret(i, "ctx")
    /\ UNCHANGED <<pat, reply, loop, batchQ, discQ, valQ, incQ>> /\ UNCH_ENV /\ UNCH_PROCS /\ UNCH_PEER

\* ---------------------------------------------------------------- the event loop
\* finishing the request in hand (the loop never looks at the context while handling)
LoopFinishCall ==
    /\ loop.st = "handling" /\ loop.kind = "call"
    /\ LET i == loop.who IN
       CASE pat[i] \in {"SelSend_Recv", "SubscribeDisc"} ->
              \* handleAddSubscription etc.: announce to the peers, reply on the buffered channel
              /\ PushEffect /\ reply' = [reply EXCEPT ![i] = TRUE]
              /\ UNCHANGED <<pc, res, inPeers, qOpen>>
         [] pat[i] = "SelSend_SelRecv" ->
              IF UnbufferedSelRecvReply
                THEN /\ pc[i] = "recv" /\ Ret(i, "served")      \* rendezvous: the caller may be gone
                     /\ UNCHANGED <<reply, inPeers, qOpen, panic>>
                ELSE /\ reply' = [reply EXCEPT ![i] = TRUE]
                     /\ UNCHANGED <<pc, res, inPeers, qOpen, panic>>
         [] pat[i] = "SelSend_Unbuf" ->
              \* preq.resp <- peers on the unbuffered channel: the caller went straight to <-out
              /\ pc[i] = "recv" /\ Ret(i, "served")
              /\ UNCHANGED <<reply, inPeers, qOpen, panic>>
         [] pat[i] = "SelSend" ->
              \* either BlacklistPeer (close the queue, forget the peer) or Cancel (announce)
              \/ /\ inPeers
                 /\ panic' = IF qOpen THEN panic ELSE panic \cup {"double-close"}
                 /\ qOpen' = FALSE /\ inPeers' = FALSE
                 /\ UNCHANGED <<pc, res, reply>>
              \/ /\ PushEffect /\ UNCHANGED <<pc, res, reply, inPeers, qOpen>>
         [] pat[i] = "Publish" ->
              \* the Preprocess thunk
              UNCHANGED <<pc, res, reply, inPeers, qOpen, panic>>
    /\ loop' = Idle
    /\ UNCHANGED pat /\ UNCH_ENV /\ UNCH_Q /\ UNCH_PROCS

LoopFinishOther ==
    /\ loop.st = "handling" /\ loop.kind \notin {"call", "adopt", "boot"}
    /\ CASE loop.kind = "incoming" -> /\ valQ' = IF valQ < 1 THEN valQ + 1 ELSE valQ   \* val.Push never blocks
                                      /\ UNCHANGED panic
         [] OTHER -> PushEffect /\ UNCHANGED valQ                 \* batch, msg, timer (heartbeat)
    /\ loop' = Idle
    /\ UNCHANGED <<batchQ, discQ, sendQ, incQ, inPeers, qOpen>> /\ UNCH_CALLS /\ UNCH_ENV /\ UNCH_PROCS

LoopTakeBatch ==
    /\ loop.st = "idle" /\ batchQ > 0 /\ batchQ' = batchQ - 1
    /\ loop' = [st |-> "handling", kind |-> "batch", who |-> 0]
    /\ UNCHANGED <<discQ, sendQ, valQ, incQ>> /\ UNCH_CALLS /\ UNCH_ENV /\ UNCH_PROCS /\ UNCH_PEER

LoopTakeMsg ==
    /\ loop.st = "idle" /\ sendQ > 0 /\ sendQ' = sendQ - 1
    /\ loop' = [st |-> "handling", kind |-> "msg", who |-> 0]
    /\ UNCHANGED <<batchQ, discQ, valQ, incQ>> /\ UNCH_CALLS /\ UNCH_ENV /\ UNCH_PROCS /\ UNCH_PEER

LoopTakeIncoming ==
    /\ loop.st = "idle" /\ incQ > 0 /\ incQ' = incQ - 1
    /\ loop' = [st |-> "handling", kind |-> "incoming", who |-> 0]
    /\ UNCHANGED <<batchQ, discQ, sendQ, valQ>> /\ UNCH_CALLS /\ UNCH_ENV /\ UNCH_PROCS /\ UNCH_PEER

\* the timer goroutine's hand-off select{eval<-, ctx.Done} served by the loop
LoopTakeTimer ==
    /\ loop.st = "idle" /\ timer = "hand" /\ timer' = "wait"
    /\ loop' = [st |-> "handling", kind |-> "timer", who |-> 0]
    /\ UNCHANGED <<disc, worker, ticks, writer, reader, remote, sweeper>>
    /\ UNCH_CALLS /\ UNCH_ENV /\ UNCH_Q /\ UNCH_PEER

\* case <-ctx.Done(): return  + the deferred cleanup
LoopExit ==
    /\ loop.st = "idle" /\ cancelled
    /\ loop' = [st |-> "exited", kind |-> "", who |-> 0]
    /\ panic' = IF inPeers /\ ~qOpen THEN panic \cup {"double-close"} ELSE panic
    /\ qOpen' = IF inPeers THEN FALSE ELSE qOpen
    /\ inPeers' = FALSE
    /\ sweeper' = "done"                                   \* p.seenMessages.Done()
    /\ UNCHANGED <<disc, worker, timer, ticks, writer, reader, remote>>
    /\ UNCH_CALLS /\ UNCH_ENV /\ UNCH_Q

\* ---------------------------------------------------------------- other library goroutines
DiscStep ==
    /\ disc = "run"
    /\ \/ /\ discQ > 0 /\ discQ' = discQ - 1 /\ UNCHANGED disc
       \/ /\ cancelled /\ disc' = "done" /\ UNCHANGED discQ
    /\ UNCHANGED <<batchQ, sendQ, valQ, incQ, worker, timer, ticks, writer, reader, remote, sweeper, loop>>
    /\ UNCH_CALLS /\ UNCH_ENV /\ UNCH_PEER

WorkerStep ==
    /\ \/ /\ worker = "idle" /\ valQ > 0 /\ valQ' = valQ - 1 /\ worker' = "val" /\ UNCHANGED sendQ
       \/ /\ worker = "idle" /\ cancelled /\ worker' = "done" /\ UNCHANGED <<valQ, sendQ>>
       \/ /\ worker = "val" /\ worker' = "sendmsg" /\ UNCHANGED <<valQ, sendQ>>
       \/ /\ worker = "sendmsg" /\ sendQ < SendCap /\ sendQ' = sendQ + 1 /\ worker' = "idle" /\ UNCHANGED valQ
       \/ /\ worker = "sendmsg" /\ ~BareSendMsg /\ cancelled /\ worker' = "idle" /\ UNCHANGED <<valQ, sendQ>>
    /\ UNCHANGED <<batchQ, discQ, incQ, disc, timer, ticks, writer, reader, remote, sweeper, loop>>
    /\ UNCH_CALLS /\ UNCH_ENV /\ UNCH_PEER

TimerStep ==
    /\ \/ /\ timer = "wait" /\ ticks < MaxTicks /\ timer' = "hand" /\ ticks' = ticks + 1
       \/ /\ timer \in {"wait", "hand"} /\ cancelled /\ timer' = "done" /\ UNCHANGED ticks
    /\ UNCHANGED <<disc, worker, writer, reader, remote, sweeper, loop>>
    /\ UNCH_CALLS /\ UNCH_ENV /\ UNCH_Q /\ UNCH_PEER

\* Pop(ctx): ErrQueueClosed once the queue is closed, ErrQueueCancelled once the context is
WriterStep ==
    /\ writer = "pop" /\ (~qOpen \/ cancelled) /\ writer' = "done"
    /\ UNCHANGED <<disc, worker, timer, ticks, reader, remote, sweeper, loop>>
    /\ UNCH_CALLS /\ UNCH_ENV /\ UNCH_Q /\ UNCH_PEER

ReaderStep ==
    /\ \/ /\ reader = "read" /\ ~streamsClosed /\ remote < MaxRemote      \* a frame arrives
          /\ remote' = remote + 1 /\ reader' = "hand" /\ UNCHANGED incQ
       \/ /\ reader = "read" /\ streamsClosed /\ reader' = "done" /\ UNCHANGED <<remote, incQ>>  \* Read fails; the
          \* ClosedStream notification select{incoming<-, ctx.Done} always has its ctx arm ready by then
       \/ /\ reader = "hand" /\ ~CheckThenActIncoming /\ incQ < 1 /\ incQ' = incQ + 1 /\ reader' = "read" /\ UNCHANGED remote
       \/ /\ reader = "hand" /\ ~CheckThenActIncoming /\ cancelled /\ reader' = "done" /\ UNCHANGED <<remote, incQ>>
       \* seeded fault: if p.ctx.Err() != nil { return }; p.incoming <- rpc  (a check, then a bare send)
       \/ /\ reader = "hand" /\ CheckThenActIncoming /\ cancelled /\ reader' = "done" /\ UNCHANGED <<remote, incQ>>
       \/ /\ reader = "hand" /\ CheckThenActIncoming /\ ~cancelled /\ reader' = "bsend" /\ UNCHANGED <<remote, incQ>>
       \/ /\ reader = "bsend" /\ incQ < 1 /\ incQ' = incQ + 1 /\ reader' = "read" /\ UNCHANGED remote
    /\ UNCHANGED <<batchQ, discQ, sendQ, valQ, disc, worker, timer, ticks, writer, sweeper, loop>>
    /\ UNCH_CALLS /\ UNCH_ENV /\ UNCH_PEER

\* ---------------------------------------------------------------- environment
CancelCore ==
    /\ ~cancelled /\ cancelled' = TRUE
    /\ UNCHANGED <<streamsClosed, loop>> /\ UNCH_CALLS /\ UNCH_Q /\ UNCH_PROCS /\ UNCH_PEER

CloseStreams ==
    /\ cancelled /\ ~streamsClosed /\ streamsClosed' = TRUE
    /\ UNCHANGED <<cancelled, loop>> /\ UNCH_CALLS /\ UNCH_Q /\ UNCH_PROCS /\ UNCH_PEER

CallStep(i) == Start(i) \/ Bare(i) \/ SendServed(i) \/ SendCtx(i) \/ Recv(i) \/ ValDone(i) \/ SendMsg(i)
LoopStep == LoopFinishCall \/ LoopFinishOther \/ LoopTakeBatch \/ LoopTakeMsg \/ LoopTakeIncoming
            \/ LoopTakeTimer \/ LoopExit
LibStep == LoopStep \/ DiscStep \/ WorkerStep \/ TimerStep \/ WriterStep \/ ReaderStep
CoreNonCancel == (\E i \in Slots : CallStep(i)) \/ LibStep \/ CloseStreams

\* ---------------------------------------------------------------- more library goroutines
\* announceRetry: started by the loop when an announcement meets a full peer queue; time.Sleep(1..1000 ms)
\* (not interruptible), then select { case p.eval <- retry: ; case <-p.ctx.Done(): }
AnnouncePats == {"SelSend_Recv", "SubscribeDisc", "SelSend"}
SpawnRetry ==
    /\ loop.st = "handling" /\ loop.kind = "call" /\ pat[loop.who] \in AnnouncePats
    /\ retry = "none" /\ nretry < MaxRetry
    /\ retry' = "sleep" /\ nretry' = nretry + 1
    /\ UNCHANGED <<cvars, direct, dleft, connQ, connector>>
RetryWake == /\ retry = "sleep" /\ retry' = "hand"
             /\ UNCHANGED <<cvars, nretry, direct, dleft, connQ, connector>>
RetryCtx == /\ retry = "hand" /\ ~BareRetry /\ cancelled /\ retry' = "done"
            /\ UNCHANGED <<cvars, nretry, direct, dleft, connQ, connector>>
LoopTakeRetry ==
    /\ loop.st = "idle" /\ retry = "hand" /\ retry' = "done"
    /\ loop' = [st |-> "handling", kind |-> "timer", who |-> 0]
    /\ UNCHANGED <<cvarsNoLoop, nretry, direct, dleft, connQ, connector>>

\* the goroutines that queue the direct peers for connection (Attach after DirectConnectInitialDelay,
\* directConnect at heartbeats): time.Sleep, then one send on gs.connect (capacity ConnCap) per peer - BARE in
\* the code as found (D29); the connector: select { case ci := <-gs.connect: host.Connect(..) ; case <-ctx.Done(): return }
DirectWake == /\ direct = "sleep" /\ direct' = "send"
              /\ UNCHANGED <<cvars, retry, nretry, dleft, connQ, connector>>
DirectSend == /\ direct = "send" /\ dleft > 0 /\ connQ < ConnCap
              /\ connQ' = connQ + 1 /\ dleft' = dleft - 1 /\ direct' = (IF dleft = 1 THEN "done" ELSE "send")
              /\ UNCHANGED <<cvars, retry, nretry, connector>>
DirectCtx == /\ direct = "send" /\ ~BareSendConnect /\ cancelled /\ direct' = "done"
             /\ UNCHANGED <<cvars, retry, nretry, dleft, connQ, connector>>
ConnTake == /\ connector = "idle" /\ connQ > 0 /\ connQ' = connQ - 1 /\ connector' = "connecting"
            /\ UNCHANGED <<cvars, retry, nretry, direct, dleft>>
ConnDone == /\ connector = "connecting" /\ connector' = "idle"      \* Connect returns: result, timeout or cancellation
            /\ UNCHANGED <<cvars, retry, nretry, direct, dleft, connQ>>
ConnExit == /\ connector = "idle" /\ cancelled /\ connector' = "done"
            /\ UNCHANGED <<cvars, retry, nretry, direct, dleft, connQ>>
Aux2Step == SpawnRetry \/ RetryWake \/ RetryCtx \/ LoopTakeRetry
            \/ DirectWake \/ DirectSend \/ DirectCtx \/ ConnTake \/ ConnDone \/ ConnExit

\* ---------------------------------------------------------------- adoption of a new outbound stream
\* handleNewPeer: NewStream done, writer started (select{<-firstMessage, ctx.Done}), then
\* select{p.newPeerStream <- .., ctx.Done}; the loop, in its newPeerStream case, runs the router's and tracers'
\* OnNewOutboundStream and then sends the hello: s.FirstMessage <- helloPacket (capacity 1 in the code)
U3(t) == UNCHANGED <<cvars, aux2>> /\ UNCHANGED t
NpCtx == /\ np = "hand" /\ cancelled /\ np' = "done"
         /\ U3(<<w2, fm, boot, nboot, bready, bdone, bq, round>>)
LoopTakeNewPeer ==
    /\ loop.st = "idle" /\ np = "hand" /\ np' = "done"
    /\ loop' = [st |-> "handling", kind |-> "adopt", who |-> 0]
    /\ UNCHANGED <<cvarsNoLoop, aux2, w2, fm, boot, nboot, bready, bdone, bq, round>>
LoopFinishAdopt ==
    /\ loop.st = "handling" /\ loop.kind = "adopt"
    /\ IF FirstMsgBuffered THEN fm' = TRUE /\ UNCHANGED w2
                           ELSE w2 = "first" /\ w2' = "pop" /\ UNCHANGED fm      \* rendezvous: the writer may be gone
    /\ loop' = Idle
    /\ UNCHANGED <<cvarsNoLoop, aux2, np, boot, nboot, bready, bdone, bq, round>>
W2First == /\ w2 = "first" /\ fm /\ fm' = FALSE /\ w2' = "pop"
           /\ U3(<<np, boot, nboot, bready, bdone, bq, round>>)
W2Ctx == /\ w2 \in {"first", "pop"} /\ cancelled /\ w2' = "done"
         /\ U3(<<np, fm, boot, nboot, bready, bdone, bq, round>>)

\* ---------------------------------------------------------------- discover.Bootstrap (Publish WithReadiness + discovery)
\* for { select{eval <- readyCheck, p.ctx, ctx}; <-bootstrapped; select{discoverQ <- req, p.ctx, ctx};
\*       select{<-req.done, p.ctx, ctx}; select{<-100ms, p.ctx, ctx} }     (the caller's ctx has no deadline)
\* discoverLoop takes the request and starts a round goroutine: handleDiscovery; select{d.done <- topic, p.ctx};
\* req.done <- {} (buffered)
BootEvalServed ==
    /\ boot = "eval" /\ loop.st = "idle" /\ boot' = "wait_ready"
    /\ loop' = [st |-> "handling", kind |-> "boot", who |-> 0]
    /\ UNCHANGED <<cvarsNoLoop, aux2, np, w2, fm, nboot, bready, bdone, bq, round>>
BootEvalCtx == /\ boot = "eval" /\ BootArmEval /\ cancelled /\ boot' = "ret"
               /\ U3(<<np, w2, fm, nboot, bready, bdone, bq, round>>)
LoopFinishBoot ==
    /\ loop.st = "handling" /\ loop.kind = "boot" /\ bready' = TRUE /\ loop' = Idle
    /\ UNCHANGED <<cvarsNoLoop, aux2, np, w2, fm, boot, nboot, bdone, bq, round>>
BootReady == /\ boot = "wait_ready" /\ bready /\ bready' = FALSE
             /\ boot' = (IF nboot >= MaxBoot THEN "ret" ELSE "dq")
             /\ U3(<<np, w2, fm, nboot, bdone, bq, round>>)
BootQ == /\ boot = "dq"
         /\ \/ (bq = 0 /\ bq' = 1 /\ boot' = "wait_done")
            \/ (BootArmQ /\ cancelled /\ UNCHANGED bq /\ boot' = "ret")
         /\ U3(<<np, w2, fm, nboot, bready, bdone, round>>)
DiscTakeBoot == /\ disc = "run" /\ bq = 1 /\ round \in {"none", "done"} /\ bq' = 0 /\ round' = "running"
                /\ U3(<<np, w2, fm, boot, nboot, bready, bdone>>)
RoundFinish == /\ round = "running" /\ round' = "report"      \* FindPeers / Connect return (done, or their context ended)
               /\ U3(<<np, w2, fm, boot, nboot, bready, bdone, bq>>)
RoundReport == /\ round = "report"
               /\ \/ (disc = "run" /\ bdone' = TRUE)                                          \* d.done <- topic accepted
                  \/ (cancelled /\ bdone' = (IF RoundAlwaysSignals THEN TRUE ELSE bdone))       \* left through ctx.Done
               /\ round' = "done"
               /\ U3(<<np, w2, fm, boot, nboot, bready, bq>>)
BootDone == /\ boot = "wait_done"
            /\ \/ (bdone /\ bdone' = FALSE /\ boot' = "timer")
               \/ (BootArmDone /\ cancelled /\ UNCHANGED bdone /\ boot' = "ret")
            /\ U3(<<np, w2, fm, nboot, bready, bq, round>>)
BootTimer == /\ boot = "timer"
             /\ \/ (nboot' = nboot + 1 /\ boot' = "eval")
                \/ (BootArmTimer /\ cancelled /\ UNCHANGED nboot /\ boot' = "ret")
             /\ U3(<<np, w2, fm, bready, bdone, bq, round>>)
Aux3Step == NpCtx \/ LoopTakeNewPeer \/ LoopFinishAdopt \/ W2First \/ W2Ctx
            \/ BootEvalServed \/ BootEvalCtx \/ LoopFinishBoot \/ BootReady \/ BootQ \/ DiscTakeBoot
            \/ RoundFinish \/ RoundReport \/ BootDone \/ BootTimer

NonCancel == (((CoreNonCancel /\ UNCHANGED aux2) \/ Aux2Step) /\ UNCHANGED aux3) \/ Aux3Step
Cancel == CancelCore /\ UNCHANGED <<aux2, aux3>>
Next == NonCancel \/ Cancel

Spec == Init /\ [][Next]_vars
FairSpec == Spec /\ WF_vars(Next)

\* ---------------------------------------------------------------- partial-order reduction
(* The exhaustive configurations use NextPOR: when a step is enabled that (a) only changes the
   local state of its own process, (b) is not read by the guard or effect of any step of another
   process, now or later, and (c) cannot be disabled, then ONLY that step is taken (a singleton
   ample set).  The state graph is acyclic, the reduced steps are invisible to P_C14_NoPanic, and
   the other two properties are about terminal states, which an ample-set reduction with
   conditions C0/C1 preserves.  MCLifecycleSmall checks the same properties with the full Next. *)
Min(S) == CHOOSE x \in S : \A y \in S : x <= y
StartEn(i) == pc[i] = "idle" /\ pat[i] # "none" /\ (i \in Post => cancelled)
NoMoreDisc == \A i \in Slots : pat[i] = "SubscribeDisc" => pc[i] \notin {"idle", "bare"}
NoMoreVal == /\ valQ = 0 /\ incQ = 0 /\ reader \notin {"hand", "bsend"} /\ ~(loop.st = "handling" /\ loop.kind = "incoming")
             /\ (remote = MaxRemote \/ streamsClosed \/ reader = "done")

U_Start    == {i \in Slots : StartEn(i)} # {}
U_Val      == {i \in Slots : pc[i] = "val"} # {}
U_Writer   == writer = "pop" /\ (~qOpen \/ cancelled)
U_Reader   == reader = "read" /\ streamsClosed
U_Timer    == timer = "wait" /\ cancelled /\ ticks = MaxTicks
U_Worker   == worker = "idle" /\ cancelled /\ NoMoreVal
U_Disc     == disc = "run" /\ cancelled /\ NoMoreDisc
U_Streams  == cancelled /\ ~streamsClosed /\ (remote = MaxRemote \/ reader = "done")

DiscExit == /\ disc = "run" /\ cancelled /\ disc' = "done"
            /\ UNCHANGED <<batchQ, discQ, sendQ, valQ, incQ, worker, timer, ticks, writer, reader, remote, sweeper, loop>>
            /\ UNCH_CALLS /\ UNCH_ENV /\ UNCH_PEER
WorkerExit == /\ worker = "idle" /\ cancelled /\ worker' = "done"
              /\ UNCHANGED <<disc, timer, ticks, writer, reader, remote, sweeper, loop>>
              /\ UNCH_CALLS /\ UNCH_ENV /\ UNCH_PEER /\ UNCH_Q
TimerExit == /\ timer = "wait" /\ cancelled /\ timer' = "done"
             /\ UNCHANGED <<disc, worker, ticks, writer, reader, remote, sweeper, loop>>
             /\ UNCH_CALLS /\ UNCH_ENV /\ UNCH_Q /\ UNCH_PEER
ReaderClose == /\ reader = "read" /\ streamsClosed /\ reader' = "done"
               /\ UNCHANGED <<disc, worker, timer, ticks, writer, remote, sweeper, loop>>
               /\ UNCH_CALLS /\ UNCH_ENV /\ UNCH_Q /\ UNCH_PEER

UrgentStep ==
    IF U_Start THEN Start(Min({i \in Slots : StartEn(i)}))
    ELSE IF U_Val THEN ValDone(Min({i \in Slots : pc[i] = "val"}))
    ELSE IF U_Writer THEN WriterStep
    ELSE IF U_Reader THEN ReaderClose
    ELSE IF U_Timer THEN TimerExit
    ELSE IF U_Worker THEN WorkerExit
    ELSE IF U_Disc THEN DiscExit
    ELSE IF U_Streams THEN CloseStreams
    ELSE FALSE

AnyUrgent == U_Start \/ U_Val \/ U_Writer \/ U_Reader \/ U_Timer \/ U_Worker \/ U_Disc \/ U_Streams
NextPOR == IF AnyUrgent THEN UrgentStep /\ UNCHANGED <<aux2, aux3>> ELSE Next

SpecPOR == Init /\ [][NextPOR]_vars
TerminalPOR == ~ENABLED NextPOR
\* the calls and the queues, without the result classes (VIEW of the exhaustive configurations)
NoRes == <<pat, pc, reply, cancelled, streamsClosed, loop, batchQ, discQ, sendQ, valQ, incQ,
           disc, worker, timer, ticks, writer, reader, remote, sweeper, inPeers, qOpen, panic, aux2, aux3>>

\* ---------------------------------------------------------------- properties
TypeOK ==
    /\ pat \in [Slots -> Patterns \cup {"none"}]
    /\ pc \in [Slots -> {"idle", "bare", "send", "recv", "val", "sendmsg", "ret"}]
    /\ res \in [Slots -> {"", "served", "ctx", "queued"}]
    /\ loop.st \in {"idle", "handling", "exited"}
    /\ batchQ \in 0..BatchCap /\ discQ \in 0..DiscCap /\ sendQ \in 0..SendCap /\ valQ \in 0..1 /\ incQ \in 0..1

Active == {i \in Slots : pat[i] # "none"}
AllReturned == (\A i \in Active : pc[i] = "ret") /\ boot \in {"none", "ret"}
AllDone == /\ loop.st = "exited" /\ disc = "done" /\ worker = "done" /\ timer = "done"
           /\ writer = "done" /\ reader = "done" /\ sweeper = "done"
           /\ retry \in {"none", "done"} /\ direct \in {"none", "done"} /\ connector = "done"
           /\ np \in {"none", "done"} /\ w2 \in {"none", "done"} /\ round \in {"none", "done"}
Terminal == ~ENABLED Next

P_C14_Returns == Terminal => AllReturned
P_C14_Exit    == Terminal => (cancelled /\ streamsClosed /\ AllDone)
\* a state is terminal for NextPOR iff it is terminal for Next (an urgent step is a step of Next)
P_C14_Returns_POR == TerminalPOR => AllReturned
P_C14_Exit_POR    == TerminalPOR => (cancelled /\ streamsClosed /\ AllDone)
P_C14_NoPanic == panic = {}

LiveReturns == [](cancelled => <>AllReturned)
LiveExit    == []((cancelled /\ streamsClosed) => <>AllDone)

=============================================================================
