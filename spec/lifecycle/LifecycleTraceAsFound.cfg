SPECIFICATION TraceSpec
CONSTANTS
  BareSendPublishBatch = TRUE
  BareSendDiscover = TRUE
  BatchCap = 1
  DiscCap = 32
CONSTRAINT HW
POSTCONDITION Accepted
CHECK_DEADLOCK FALSE
