-------------------------- MODULE LifecyclePatterns --------------------------
(* Constant tables shared by the C14 model (Lifecycle), its scenario generator and
   the trace specification: the hand-off pattern of every exported blocking API
   (read off the code, see the comment of Lifecycle.tla) and the model's answer to
   "which call can block for ever".                                            *)
EXTENDS Naturals, Sequences

PatSeq == <<"none", "SelSend_Recv", "SelSend_SelRecv", "SelSend", "SelSend_Unbuf",
            "Publish", "PublishBatch", "SubscribeDisc">>
Patterns == {PatSeq[k] : k \in 2..Len(PatSeq)}

\* api |-> pattern without discovery configured
PatternOf == [
    PubSubJoin                      |-> "SelSend_Recv",
    PubSubSubscribe                 |-> "SelSend_Recv",
    TopicSubscribe                  |-> "SelSend_Recv",
    TopicRelay                      |-> "SelSend_Recv",
    PubSubGetTopics                 |-> "SelSend_Recv",
    PubSubRegisterTopicValidator    |-> "SelSend_Recv",
    PubSubUnregisterTopicValidator  |-> "SelSend_Recv",
    TopicClose                      |-> "SelSend_Recv",
    TopicSetScoreParams             |-> "SelSend_Recv",
    TopicEventHandler               |-> "SelSend_Recv",
    PubSubAddDirectPeer             |-> "SelSend_SelRecv",
    PubSubRemoveDirectPeer          |-> "SelSend_SelRecv",
    PubSubPeerFeedback              |-> "SelSend_SelRecv",
    PublishPartial                  |-> "SelSend_SelRecv",
    SubscriptionCancel              |-> "SelSend",
    PubSubBlacklistPeer             |-> "SelSend",
    RelayCancelFunc                 |-> "SelSend",
    PubSubListPeers                 |-> "SelSend_Unbuf",
    TopicListPeers                  |-> "SelSend_Unbuf",
    TopicPublish                    |-> "Publish",
    PubSubPublish                   |-> "Publish",
    TopicPublishReady               |-> "Publish",
    TopicPublishNotReady            |-> "Publish",
    TopicAddToBatch                 |-> "Publish",
    PubSubPublishBatch              |-> "PublishBatch",
    SubscriptionNext                |-> "CallerCtx",
    TopicEventHandlerNextPeerEvent  |-> "CallerCtx" ]

\* the APIs whose first blocking step is discover.Discover (a send on discoverQ);
\* PubSub.Subscribe starts with tryJoin's hand-off and only then behaves like Topic.Subscribe
UsesDiscoverQ == {"TopicSubscribe", "TopicRelay"}

PatternWith(api, disc) == IF disc /\ api \in UsesDiscoverQ THEN "SubscribeDisc" ELSE PatternOf[api]

\* Which call can block for ever: a bare send blocks once its consumer has stopped and the
\* buffer is full, i.e. from the (capacity+1)-th send made after the consumer stopped.
\* bareBatch / bareDisc = TRUE is the code as found (D9 / D10); FALSE (the property) gives
\* the empty set.
MayBlock(pattern, ordinalAfterConsumerStopped, bareBatch, bareDisc, batchCap, discCap) ==
    \/ pattern = "PublishBatch" /\ bareBatch /\ ordinalAfterConsumerStopped > batchCap
    \/ pattern = "SubscribeDisc" /\ bareDisc /\ ordinalAfterConsumerStopped > discCap
=============================================================================
