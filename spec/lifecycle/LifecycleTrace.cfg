SPECIFICATION TraceSpec
CONSTANTS
  BareSendPublishBatch = FALSE
  BareSendDiscover = FALSE
  BatchCap = 1
  DiscCap = 32
CONSTRAINT HW
POSTCONDITION Accepted
CHECK_DEADLOCK FALSE
