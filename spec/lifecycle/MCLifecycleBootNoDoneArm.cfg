SPECIFICATION SpecPOR
CONSTANTS
  NConc = 0
  NPost = 0
  BareSendPublishBatch = FALSE
  BareSendDiscover = FALSE
  UnbufferedSelRecvReply = FALSE
  BareSendMsg = FALSE
  BareRetry = FALSE
  CheckThenActIncoming = FALSE
  BareSendConnect = FALSE
  MaxRetry = 0
  MaxDirect = 0
  ConnCap = 1
  FirstMsgBuffered = TRUE
  MaxNewPeer = 0
  BootArmEval = TRUE
  BootArmQ = TRUE
  BootArmDone = FALSE
  BootArmTimer = TRUE
  RoundAlwaysSignals = TRUE
  MaxBoot = 2
  BatchCap = 1
  DiscCap = 1
  SendCap = 1
  MaxTicks = 0
  MaxRemote = 0
INVARIANTS TypeOK P_C14_Returns_POR P_C14_Exit_POR P_C14_NoPanic
VIEW NoRes
CHECK_DEADLOCK FALSE
