SPECIFICATION Spec
CONSTANTS
  CheckKeyMatchesFrom = TRUE
  VerifyWhenLax = TRUE
  CheckSelfOrigin = TRUE
  CheckAnonKey = TRUE
  RejectMissingSig = TRUE
INVARIANTS TypeOK P_C03_Recv P_C03_Send StrictKey AuthGap
CHECK_DEADLOCK FALSE
