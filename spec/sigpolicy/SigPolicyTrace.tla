---------------------------- MODULE SigPolicyTrace ----------------------------
(* Trace specification for C03.  harness/drivers/c03 logs one line per stimulus
   on a REAL node (gossipsub or floodsub) built with one policy and author mode:

     {e:"ctor", policy, mode, valid, err}                 the constructor accepted / refused the configuration
     {e:"msg",  policy, mode, cls:{from,seqno,key,sig,extra,via}, verdict, auth, sauth,
                obs:{from,seqno,key,sig}, authentic, authStrict, deliv, fwd, ev:[..]}
                                                          one concretised class injected by a fake peer
     {e:"fuzz", policy, mode, obs, authentic, authStrict, deliv, fwd, ev}
                                                          one random byte-level mutation (no class)
     {e:"send", policy, mode, ak, pub, exp, ok, err, recv, obs, authentic, authStrict}
                                                          one local publish as it arrived at the observer

   `obs`, `authentic`, `authStrict` come from the harness's independent oracle
   (go-libp2p crypto over the bytes on the wire); `deliv` = Subscription.Next
   returned it, `fwd` = the observer peer received it from the node.

   The monitor is deterministic: one state per line, every line is consumed.
     VIOL   a predicate of C03 fails on what the real node DID (with the oracle's
            verdict, on the OBSERVED field presence)            -> VIOLATION
     BAD    the harness's concretisation or oracle disagrees with the class it
            was asked to build (machinery, not the code)        -> inconclusive
     DRIFT  the real node's outcome differs from the transcription of the code
            in SigPolicy.tla while the property holds            -> note only    *)
EXTENDS Naturals, Sequences, FiniteSets, TLC, Json

Trace == ndJsonDeserialize("trace.ndjson")

VARIABLE l
S == INSTANCE SigPolicy WITH CheckKeyMatchesFrom <- TRUE, VerifyWhenLax <- TRUE, CheckSelfOrigin <- TRUE,
                             CheckAnonKey <- TRUE, RejectMissingSig <- TRUE

E == Trace[l]
Cfg(e) == [policy |-> e.policy, mode |-> e.mode]
Say(tag, e, name, why) ==
    PrintT(<<tag, ToJson([p |-> name, why |-> why, l |-> l, w |-> e.w, n |-> (IF "n" \in DOMAIN e THEN e.n ELSE 0)])>>)
Report(bad, tag, e, name, why) == IF bad THEN Say(tag, e, name, why) ELSE TRUE

\* the observed message in the vocabulary of SigPolicy!PropAllows (key classes matches/other/garbage all "carry")
ObsMsg(e, via) == [from |-> e.obs.from, seqno |-> e.obs.seqno, key |-> e.obs.key, sig |-> e.obs.sig, via |-> via]
\* what the oracle must see for a class
ObsOfSig(s) == IF s \in {"absent", "empty"} THEN s ELSE "present"
ObsMatchesClass(e) ==
    /\ e.obs.from = e.cls.from /\ e.obs.seqno = e.cls.seqno
    /\ e.obs.key = e.cls.key /\ e.obs.sig = ObsOfSig(e.cls.sig)

Accepted(e) == e.deliv \/ e.fwd
Reasons(e) == {e.ev[i] : i \in DOMAIN e.ev}
ExpectedEv(v) == IF v = "accept" THEN "Deliver" ELSE "Reject:" \o v

CheckRecv(e, hasClass) ==
    LET c == Cfg(e)
        m == ObsMsg(e, "third")       \* every injected message arrives from another peer
        fails == S!PropFails(c, m, e.authentic)
    IN
    \* --- the property, on the observed outcome with the oracle's verdict
    /\ Report(Accepted(e) /\ ~S!PropAllows(c, m, e.authentic), "VIOL", e, "P_C03_" \o fails,
              IF hasClass THEN "accepted class " \o ToJson(e.cls) ELSE "accepted fuzzed message")
    \* --- machinery
    /\ hasClass =>
         /\ Report(~S!Realisable(e.cls), "BAD", e, "class-not-realisable", ToJson(e.cls))
         /\ Report(~ObsMatchesClass(e), "BAD", e, "oracle-sees-other-fields", ToJson(e.cls) \o " vs " \o ToJson(e.obs))
         /\ Report(e.authentic # S!Authentic(e.cls), "BAD", e, "oracle-authentic-differs", ToJson(e.cls))
         /\ Report(e.authStrict # S!StrictAuthentic(e.cls), "BAD", e, "oracle-strict-differs", ToJson(e.cls))
         /\ Report(e.auth # S!Authentic(e.cls) \/ e.verdict # S!CodeVerdict(c, e.cls), "BAD", e, "generator-row-differs", ToJson(e.cls))
    \* --- conformance with the transcription of the code (drift only)
    /\ hasClass =>
         /\ Report(Accepted(e) # S!CodeAccept(c, e.cls), "DRIFT", e, "outcome",
                   "model " \o S!CodeVerdict(c, e.cls) \o " for " \o ToJson(e.cls))
         /\ Report(Accepted(e) = S!CodeAccept(c, e.cls) /\ ExpectedEv(S!CodeVerdict(c, e.cls)) \notin Reasons(e), "DRIFT", e, "reason",
                   "model " \o S!CodeVerdict(c, e.cls) \o " for " \o ToJson(e.cls))
    /\ Report(e.deliv # e.fwd, "DRIFT", e, "deliver-forward-differ", "")
    /\ Report(Accepted(e) /\ S!Carries(e.obs.sig) /\ ~e.authStrict /\ e.authentic, "DRIFT", e, "attached-key-not-matching-accepted", "")

CheckSend(e) ==
    LET c == Cfg(e)
        m == ObsMsg(e, "self")
        ak == IF e.ak = "hashed" THEN "hashed" ELSE "inline"
        exp == S!Produced(c, ak, e.pub)
        fails == S!SendFails(c, e.pub, m, e.authentic)
    IN
    /\ Report(e.recv /\ ~S!SendAllows(c, e.pub, m, e.authentic), "VIOL", e, "P_C03_Send_" \o fails,
              "published (" \o e.pub \o ") and received as " \o ToJson(e.obs))
    /\ Report(e.recv /\ ~e.dataOK, "BAD", e, "observer-got-another-message", "")
    /\ Report(e.ok # S!SendOK(c, ak, e.pub), "BAD", e, "generator-row-differs", "")
    /\ Report(e.recv # S!SendOK(c, ak, e.pub) \/ e.err = S!SendOK(c, ak, e.pub), "DRIFT", e, "send-outcome", "")
    /\ Report(e.recv /\ (e.obs.from # exp.from \/ e.obs.seqno # exp.seqno \/ e.obs.key # exp.key
                         \/ e.obs.sig # ObsOfSig(exp.sig)), "DRIFT", e, "send-shape",
              "model " \o ToJson(exp) \o " got " \o ToJson(e.obs))

CheckCtor(e) ==
    /\ Report(e.valid # S!ValidCfg(Cfg(e)), "BAD", e, "generator-row-differs", "")
    /\ Report(e.err = S!ValidCfg(Cfg(e)), "DRIFT", e, "constructor", "")

Check(e) == CASE e.e = "msg"  -> CheckRecv(e, TRUE)
              [] e.e = "fuzz" -> CheckRecv(e, FALSE)
              [] e.e = "send" -> CheckSend(e)
              [] e.e = "ctor" -> CheckCtor(e)
              [] OTHER -> Say("BAD", e, "unknown-line", e.e)

TInit == l = 1
TNext == l <= Len(Trace) /\ Check(E) /\ l' = l + 1
TraceSpec == TInit /\ [][TNext]_l

Done == PrintT(<<"HW", l, Len(Trace) + 1>>)
AtEnd == l = Len(Trace) + 1 => Done
=============================================================================
