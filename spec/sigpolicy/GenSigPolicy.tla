----------------------------- MODULE GenSigPolicy -----------------------------
(* Scenario generator for C03: emits every row of the decision table (message
   class x configuration, and author mode x publish mode for the sending
   direction) together with what the transcription of the code predicts.  The
   orchestrator takes the full table (thorough) or a seeded covering subset
   (quick); the Go driver concretises each class with real keys.            *)
EXTENDS SigPolicy, Json

VARIABLES dir, cfg, m, ak, pub
vars == <<dir, cfg, m, ak, pub>>

Dummy == [from |-> "absent", seqno |-> "absent", key |-> "absent", sig |-> "absent", extra |-> "none", via |-> "third"]

Init == \/ /\ dir = "recv" /\ cfg \in Cfgs /\ ValidCfg(cfg)
           /\ m \in Msgs /\ Realisable(m) /\ ak = "inline" /\ pub = "plain"
        \/ /\ dir = "send" /\ cfg \in Cfgs /\ ValidCfg(cfg)
           /\ ak \in AuthorKinds /\ pub \in Pubs /\ m = Dummy
        \/ /\ dir = "ctor" /\ cfg \in Cfgs /\ m = Dummy /\ ak = "inline" /\ pub = "plain"
Next == UNCHANGED vars
Spec == Init /\ [][Next]_vars

Emit ==
    CASE dir = "recv" ->
           PrintT(<<"SCN", ToJson([d |-> "recv", policy |-> cfg.policy, mode |-> cfg.mode, cls |-> m,
                                   verdict |-> CodeVerdict(cfg, m), auth |-> Authentic(m),
                                   sauth |-> StrictAuthentic(m)])>>)
      [] dir = "send" ->
           PrintT(<<"SCN", ToJson([d |-> "send", policy |-> cfg.policy, mode |-> cfg.mode, ak |-> ak, pub |-> pub,
                                   exp |-> Produced(cfg, ak, pub), ok |-> SendOK(cfg, ak, pub)])>>)
      [] dir = "ctor" ->
           PrintT(<<"SCN", ToJson([d |-> "ctor", policy |-> cfg.policy, mode |-> cfg.mode, valid |-> ValidCfg(cfg)])>>)
=============================================================================
