SPECIFICATION Spec
CONSTANTS
  CheckKeyMatchesFrom = TRUE
  VerifyWhenLax = FALSE
  CheckSelfOrigin = TRUE
  CheckAnonKey = TRUE
  RejectMissingSig = TRUE
INVARIANTS TypeOK P_C03_Recv P_C03_Send 
CHECK_DEADLOCK FALSE
