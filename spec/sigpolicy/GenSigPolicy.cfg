SPECIFICATION Spec
CONSTANTS
  CheckKeyMatchesFrom = TRUE
  VerifyWhenLax = TRUE
  CheckSelfOrigin = TRUE
  CheckAnonKey = TRUE
  RejectMissingSig = TRUE
INVARIANT Emit
CHECK_DEADLOCK FALSE
