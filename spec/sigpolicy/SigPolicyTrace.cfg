SPECIFICATION TraceSpec
INVARIANT AtEnd
CHECK_DEADLOCK FALSE
