SPECIFICATION Spec
CONSTANTS
  CheckKeyMatchesFrom = TRUE
  VerifyWhenLax = TRUE
  CheckSelfOrigin = FALSE
  CheckAnonKey = TRUE
  RejectMissingSig = TRUE
INVARIANTS TypeOK P_C03_Recv P_C03_Send 
CHECK_DEADLOCK FALSE
