SPECIFICATION Spec
CONSTANTS
  CheckKeyMatchesFrom = TRUE
  VerifyWhenLax = TRUE
  CheckSelfOrigin = TRUE
  CheckAnonKey = FALSE
  RejectMissingSig = TRUE
INVARIANTS TypeOK P_C03_Recv P_C03_Send 
CHECK_DEADLOCK FALSE
