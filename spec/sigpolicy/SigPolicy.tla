------------------------------ MODULE SigPolicy ------------------------------
(* C03 - only authentic messages are accepted under the configured signature
   policy.

   TLA+ does not model cryptography.  What is modelled here is the DECISION RULE
   around it (DESIGN 4/C03 and section 6): a message is a record of CLASSES that
   say, for each authentication-relevant field, how it relates to the claimed
   author and to what was signed; the one cryptographic assumption is

       a signature verifies under key K over bytes B  iff  it was produced with
       the private key of K over exactly B                       (Unforgeable)

   Two notions are kept strictly apart:

     Authentic(m) / PropAllows(..)   the PROPERTY's notion (properties.jsonl C03)
     CodeVerdict(cfg, m)             a transcription of the code: checkSigningPolicy,
                                     the self-origin test of shouldPush, validation.
                                     validate's "verify whenever a signature is
                                     present", messagePubKey / verifyMessageSignature

   P_C03 relates them.  The flags below switch single checks of the transcription
   off; with all of them TRUE it is the code as found, each FALSE is a regression
   configuration that MUST violate P_C03 (non-vacuity).                        *)
EXTENDS Naturals, FiniteSets, TLC

CONSTANTS CheckKeyMatchesFrom,   \* messagePubKey: pid.MatchesPublicKey(attached key)
          VerifyWhenLax,         \* validate(): verify a present signature under every policy
          CheckSelfOrigin,       \* shouldPush: from = self arriving from another peer is dropped
          CheckAnonKey,          \* checkSigningPolicy: msg.Key counts as auth info in anonymous mode
          RejectMissingSig       \* checkSigningPolicy: StrictSign rejects a message without signature

-----------------------------------------------------------------------------
(* Configurations *)
Policies == {"StrictSign", "StrictNoSign", "LaxSign", "LaxNoSign"}
Modes    == {"default", "custom", "noAuthor"}
Cfgs     == [policy : Policies, mode : Modes]

MustVerify(p) == p \in {"StrictSign", "StrictNoSign"}     \* msgVerification bit
MustSign(p)   == p \in {"StrictSign", "LaxSign"}          \* msgSigning bit
\* NewPubSub: a signing policy needs an author (and its private key)
ValidCfg(c)   == MustSign(c.policy) => c.mode # "noAuthor"

-----------------------------------------------------------------------------
(* Abstract messages *)
Froms  == {"absent", "empty", "self", "inline", "hashed", "garbage"}
   \* inline = id that embeds its public key (Ed25519), hashed = id that is the hash of the key (RSA-2048)
   \* self   = the host id of the node under test (an inline id in every run of the harness)
Seqnos == {"absent", "present"}
Keys   == {"absent", "empty", "matches", "other", "garbage"}
   \* matches = marshalled public key whose id is `from`; other = valid key of another identity
OverFields == {"Data", "Topic", "From", "Seqno", "Unknown"}
SigsOverOther == {"fromOverData", "fromOverTopic", "fromOverFrom", "fromOverSeqno", "fromOverUnknown"}
Sigs   == {"absent", "empty", "garbage",
           "fromThis",        \* by the key of `from` over the contents (modulo the `extra` dimension)
           "attThis",         \* by the attached (other) key over the contents
           "swapped"}         \* a valid signature by `from` over ANOTHER message
          \cup SigsOverOther  \* by the key of `from` over a message that differs in one field
Extras == {"none", "signedOver", "addedAfter"}   \* unknown protobuf fields: none / present when signed / added later
Vias   == {"author", "third"}                    \* the peer that delivers it is the claimed author / somebody else
Msgs   == [from : Froms, seqno : Seqnos, key : Keys, sig : Sigs, extra : Extras, via : Vias]

ValidId(f)     == f \in {"self", "inline", "hashed"}   \* peer.IDFromBytes succeeds
Extractable(f) == f \in {"self", "inline"}             \* pid.ExtractPublicKey yields a key
ByFrom(s)      == s \in {"fromThis", "swapped"} \cup SigsOverOther
Unsigned(s)    == s \in {"absent", "empty", "garbage"}

(* Combinations that denote a message (the others are contradictory or duplicates). *)
Realisable(m) ==
    /\ m.key = "matches" => ValidId(m.from)                      \* there must be an author key to match
    /\ ByFrom(m.sig) => ValidId(m.from)                          \* ... and an author key to sign with
    /\ m.sig = "attThis" => m.key = "other"                      \* with key = matches it IS fromThis
    /\ m.sig = "fromOverUnknown" => m.extra # "addedAfter"       \* none: stripped after signing; signedOver: value changed
    /\ Unsigned(m.sig) => m.extra # "signedOver"                 \* nothing was signed
    /\ m.via = "author" => m.from \in {"inline", "hashed"}       \* the node itself is never a remote sender

\* a field "carries" something when it is present with content (a present, zero-length
\* field is the class "empty": the property makes no demand on it either way)
Carries(x) == x \notin {"absent", "empty"}

-----------------------------------------------------------------------------
(* The property's notion of authenticity.
   The signature verifies over exactly the received contents under a key that is
   BOUND to the claimed author: the key embedded in the id, or an attached key
   that matches the id.                                                       *)
Signer(s) == IF ByFrom(s) THEN "from" ELSE IF s = "attThis" THEN "att" ELSE "nobody"
OverReceived(m) == m.sig \in {"fromThis", "attThis"} /\ m.extra # "addedAfter"
BoundKeyKnown(m) == Extractable(m.from) \/ (ValidId(m.from) /\ m.key = "matches")

Authentic(m) == /\ Carries(m.sig) /\ ValidId(m.from) /\ BoundKeyKnown(m)
                /\ Signer(m.sig) = "from" /\ OverReceived(m)
\* DESIGN's stricter reading: additionally any attached key must match the author
StrictAuthentic(m) == Authentic(m) /\ m.key \in {"absent", "matches"}

(* What the property allows to be delivered or forwarded.  m needs the fields
   from, seqno, key, sig, via only (so it can be evaluated on OBSERVED field
   presence as well as on classes); `auth` is Authentic(m) or the oracle's verdict. *)
PropAllows(c, m, auth) ==
    /\ Carries(m.sig) => auth
    /\ c.policy = "StrictSign" => Carries(m.sig) /\ auth
    /\ c.policy = "StrictNoSign" =>
          /\ ~Carries(m.sig)
          /\ c.mode = "noAuthor" => ~Carries(m.from) /\ ~Carries(m.seqno) /\ ~Carries(m.key)
    /\ ~(m.from = "self" /\ m.via # "self")

\* the first conjunct of PropAllows that fails (signature of a violation)
PropFails(c, m, auth) ==
    IF m.from = "self" /\ m.via # "self" THEN "SelfOrigin"
    ELSE IF c.policy = "StrictNoSign" /\ Carries(m.sig) THEN "StrictNoSignSig"
    ELSE IF c.policy = "StrictNoSign" /\ c.mode = "noAuthor"
            /\ (Carries(m.from) \/ Carries(m.seqno) \/ Carries(m.key)) THEN "AnonymousAuthInfo"
    ELSE IF c.policy = "StrictSign" /\ ~Carries(m.sig) THEN "StrictSignMissing"
    ELSE IF Carries(m.sig) /\ ~auth THEN "NotAuthentic"
    ELSE "none"

-----------------------------------------------------------------------------
(* Transcription of the code (receiving direction). *)

\* pubsub.go checkSigningPolicy (nil tests: an empty field is NOT nil)
PresenceVerdict(c, m) ==
    IF MustVerify(c.policy)
      THEN IF MustSign(c.policy)
             THEN IF RejectMissingSig /\ m.sig = "absent" THEN "missing signature" ELSE "ok"
             ELSE IF m.sig # "absent" THEN "unexpected signature"
                  ELSE IF /\ c.mode = "noAuthor"
                          /\ \/ m.seqno # "absent" \/ m.from # "absent"
                             \/ (CheckAnonKey /\ m.key # "absent")
                         THEN "unexpected auth info" ELSE "ok"
      ELSE "ok"

\* pubsub.go shouldPush: peer.ID(msg.GetFrom()) == self && src != self
SelfVerdict(m) == IF CheckSelfOrigin /\ m.from = "self" /\ m.via # "self"
                    THEN "self originated message" ELSE "ok"

\* sign.go messagePubKey: the key the code verifies under ("from" = the author's, "att" = the attached other key)
CodeKey(m) ==
    IF ~ValidId(m.from) THEN "none"
    ELSE IF m.key = "absent" THEN (IF Extractable(m.from) THEN "from" ELSE "none")
    ELSE IF m.key \notin {"matches", "other"} THEN "none"           \* UnmarshalPublicKey fails
    ELSE IF m.key = "matches" THEN "from"
    ELSE IF CheckKeyMatchesFrom THEN "none" ELSE "att"
\* sign.go verifyMessageSignature + (Unforgeable)
Verifies(m) == CodeKey(m) # "none" /\ Signer(m.sig) = CodeKey(m) /\ OverReceived(m)

\* validation.go validate: any present signature is verified before markSeen
SigVerdict(c, m) ==
    IF m.sig # "absent" /\ (VerifyWhenLax \/ MustVerify(c.policy)) /\ ~Verifies(m)
      THEN "invalid signature" ELSE "ok"

CodeVerdict(c, m) ==
    IF PresenceVerdict(c, m) # "ok" THEN PresenceVerdict(c, m)
    ELSE IF SelfVerdict(m) # "ok" THEN SelfVerdict(m)
    ELSE IF SigVerdict(c, m) # "ok" THEN SigVerdict(c, m)
    ELSE "accept"
CodeAccept(c, m) == CodeVerdict(c, m) = "accept"

(* C03, receiving direction *)
P_C03(c, m, accepted, auth) == accepted => PropAllows(c, m, auth)
P_C03_Model(c, m) == P_C03(c, m, CodeAccept(c, m), Authentic(m))
\* the code as found is even strict about attached keys (not demanded by the property)
StrictKeyModel(c, m) == CodeAccept(c, m) /\ Carries(m.sig) => StrictAuthentic(m)

-----------------------------------------------------------------------------
(* Sending direction: topic.go validate + sign.go signMessage.
   ak  = kind of the configured author id ("inline" / "hashed"; default author = the host = "self")
   pub = "plain" | "perKeyInline" | "perKeyHashed"  (WithSecretKeyAndPeerId)                     *)
AuthorKinds == {"inline", "hashed"}
Pubs == {"plain", "perKeyInline", "perKeyHashed"}

Signing(c, pub) == MustSign(c.policy) \/ pub # "plain"
Produced(c, ak, pub) ==
    LET hasId == c.mode # "noAuthor" \/ pub # "plain"
        id    == IF pub = "perKeyInline" THEN "inline"
                 ELSE IF pub = "perKeyHashed" THEN "hashed"
                 ELSE IF c.mode = "default" THEN "self" ELSE ak
    IN [from  |-> IF hasId THEN id ELSE "absent",
        seqno |-> IF hasId THEN "present" ELSE "absent",
        key   |-> IF Signing(c, pub) /\ ~Extractable(id) THEN "matches" ELSE "absent",
        sig   |-> IF Signing(c, pub) THEN "fromThis" ELSE "absent",
        extra |-> "none", via |-> "self"]
\* ValidateLocal applies checkSigningPolicy to the node's own message
SendOK(c, ak, pub) == PresenceVerdict(c, Produced(c, ak, pub)) = "ok"

(* "Messages the node publishes itself verify under the same rule at every correct
   receiver": what leaves the node is allowed by the rule, and is signed whenever
   the node signs. *)
SendAllows(c, pub, m, auth) ==
    /\ PropAllows(c, m, auth)
    /\ Signing(c, pub) => Carries(m.sig) /\ auth
SendFails(c, pub, m, auth) ==
    IF PropFails(c, m, auth) # "none" THEN PropFails(c, m, auth)
    ELSE IF Signing(c, pub) /\ ~Carries(m.sig) THEN "NotSigned"
    ELSE IF Signing(c, pub) /\ ~auth THEN "NotAuthentic"
    ELSE "none"
P_C03_Send_Model(c, ak, pub) ==
    SendOK(c, ak, pub) => SendAllows(c, pub, Produced(c, ak, pub), Authentic(Produced(c, ak, pub)))
=============================================================================
