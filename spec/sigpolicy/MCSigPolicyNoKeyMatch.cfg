SPECIFICATION Spec
CONSTANTS
  CheckKeyMatchesFrom = FALSE
  VerifyWhenLax = TRUE
  CheckSelfOrigin = TRUE
  CheckAnonKey = TRUE
  RejectMissingSig = TRUE
INVARIANTS TypeOK P_C03_Recv P_C03_Send 
CHECK_DEADLOCK FALSE
