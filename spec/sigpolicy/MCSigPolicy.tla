----------------------------- MODULE MCSigPolicy -----------------------------
(* Exhaustive evaluation of the C03 decision table: every realisable message
   class under every configuration (receiving direction) and every author mode
   x publish mode (sending direction).  There are no transitions: the state
   space IS the table and the invariants are evaluated on every row.        *)
EXTENDS SigPolicy

VARIABLES dir, cfg, m, ak, pub
vars == <<dir, cfg, m, ak, pub>>

Dummy == [from |-> "absent", seqno |-> "absent", key |-> "absent", sig |-> "absent", extra |-> "none", via |-> "third"]

Init == \/ /\ dir = "recv" /\ cfg \in Cfgs /\ ValidCfg(cfg)
           /\ m \in Msgs /\ Realisable(m) /\ ak = "inline" /\ pub = "plain"
        \/ /\ dir = "send" /\ cfg \in Cfgs /\ ValidCfg(cfg)
           /\ ak \in AuthorKinds /\ pub \in Pubs /\ m = Dummy
Next == UNCHANGED vars
Spec == Init /\ [][Next]_vars

TypeOK == dir \in {"recv", "send"} /\ cfg \in Cfgs /\ m \in Msgs

P_C03_Recv == dir = "recv" => P_C03_Model(cfg, m)
P_C03_Send == dir = "send" => P_C03_Send_Model(cfg, ak, pub)
\* not demanded by the property, true of the code as found
StrictKey  == dir = "recv" => StrictKeyModel(cfg, m)
\* the two notions of authenticity differ only on attached keys that do not match an inline id
AuthGap    == dir = "recv" /\ Authentic(m) /\ ~StrictAuthentic(m) => m.from \in {"self", "inline"} /\ m.key \in {"empty", "other", "garbage"}
\* sanity of the table: the rule is not vacuous (some class is accepted, some rejected, per configuration) - checked by the generator counts
=============================================================================
