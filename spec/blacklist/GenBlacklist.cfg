SPECIFICATION GSpec
CONSTANTS
  Peers <- GPeers
  Life <- GLife
  Msgs <- GMsgs
  Fwd <- GFwd
  Author <- GAuthor
  Victim = "v"
  MaxQ = 1
  CanExpire = FALSE
  Churn = TRUE
  RecheckAtPublish = TRUE
  CheckFwd = TRUE
  CheckAuthor = TRUE
  CheckNewStream = TRUE
  CheckPending = TRUE
  ApiCloses = TRUE
  ApiClears = TRUE
  ApiNotifies = TRUE
  GraftNeedsStream = FALSE
  ApiSkipsIfPresent = FALSE
  DrainAfterClose = FALSE
  PurgeNeedsRtPeer = FALSE
CONSTRAINT OneFlying
VIEW GView
INVARIANT Emit
CHECK_DEADLOCK FALSE
