SPECIFICATION Spec
CONSTANTS
  Peers <- MCPeers
  Life <- MCLifePeers
  Msgs <- MCMsgs
  Fwd <- MCFwd
  Author <- MCAuthor
  MaxQ = 1
  CanExpire = TRUE
  Churn = TRUE
  RecheckAtPublish = FALSE
  CheckFwd = TRUE
  CheckAuthor = TRUE
  CheckNewStream = TRUE
  CheckPending = TRUE
  ApiCloses = TRUE
  ApiClears = TRUE
  ApiNotifies = TRUE
  GraftNeedsStream = TRUE
  ApiSkipsIfPresent = FALSE
  DrainAfterClose = FALSE
  PurgeNeedsRtPeer = FALSE
INVARIANT TypeOK
INVARIANT P_C16_NoInject
INVARIANT P_C16_Refuse
INVARIANT P_C16_Api
INVARIANT P_C16_ApiQueue
INVARIANT P_C16_ApiHadQueue
VIEW MCView
CHECK_DEADLOCK FALSE
