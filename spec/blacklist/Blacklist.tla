----------------------------- MODULE Blacklist -----------------------------
(* C16 - a blacklisted peer can neither inject messages nor receive traffic.

   Implementation-shaped model of the parts of pubsub.go / validation.go /
   comm.go that decide the property:

     * the peer lifecycle as the event loop sees it: connection notification
       pending (newPeersPend), handlePendingPeers (creates the outbound queue
       and starts NewStream), newPeerStream (stream established: hello),
       newPeerError, dead peer handling (with the "still connected: respawn
       the writer" branch), the writer goroutine (Pop / Write);
     * topic state learnt from the peer's INBOUND stream (SUB, GRAFT): this
       stream is independent of the outbound one and survives BlacklistPeer;
     * the inbound message pipeline
         idle -> arrived -> (shouldPush: blacklist by forwarder, then by author)
              -> valQ -> worker (signature, markSeen) -> [async validator] -> sendQ
              -> loop publishMessage (deliver + forward);
     * Blacklist(p, how): how = "direct" is Add on the configured Blacklist
       object and nothing else; how = "api" is the loop's blacklistPeer case
       (Add, close queue, forget peer, clear topic state, notify router).
       It is enabled in EVERY state.
     * Expire(p): a time-cached blacklist stops containing p.

   The model is of the REPAIRED code: RecheckAtPublish = TRUE re-checks the
   blacklist in the loop before publishMessage.  RecheckAtPublish = FALSE is the
   code as found (DESIGN D13) and must violate P_C16_NoInject (non-vacuity).
   The remaining switches remove one mechanism each (the mutations the check
   has to detect); each must violate the predicate named next to it.        *)
EXTENDS Naturals, FiniteSets, Sequences, TLC

CONSTANTS Peers,            \* remote peers
          Life,             \* the peers whose lifecycle is explored (the others stay connected, never blacklisted)
          Churn,            \* disconnects / stream resets / outbound traffic are explored
          Msgs,             \* message names
          Fwd, Author,      \* Fwd[m], Author[m] \in Peers
          MaxQ,             \* bound on queued RPCs per peer
          CanExpire,        \* time-cached implementation: entries may expire
          RecheckAtPublish, \* repaired behaviour (FALSE = as found: P_C16_NoInject fails)
          CheckFwd,         \* shouldPush tests the forwarder      (FALSE: P_C16_NoInject fails)
          CheckAuthor,      \* shouldPush tests the author         (FALSE: P_C16_NoInject fails)
          CheckNewStream,   \* newPeerStream refuses               (FALSE: P_C16_Refuse fails)
          CheckPending,     \* handlePendingPeers skips            (FALSE: P_C16_ApiQueue fails)
          ApiCloses,        \* blacklistPeer case closes the queue (FALSE: P_C16_Api fails)
          ApiClears,        \* ... clears the topic state          (FALSE: P_C16_Api fails)
          ApiNotifies,      \* ... notifies the router             (FALSE: P_C16_Api fails)
          GraftNeedsStream, \* handleGraft requires gs.peers[p]    (FALSE = as found, DESIGN D6: P_C16_Api fails)
          DrainAfterClose,  \* rpcQueue.Pop keeps handing out the backlog of a CLOSED queue until it is empty
                            \* (FALSE = the code: Pop on a closed queue fails even when items remain; TRUE: P_C16_Api fails)
          PurgeNeedsRtPeer, \* the router's OnClosedOutboundStream purges mesh / fanout only for peers it knows (gs.peers)
                            \* (FALSE = the code: it purges unconditionally; TRUE: a peer that is in the mesh by D6's path
                            \*  while its stream is still being opened survives BlacklistPeer: P_C16_ApiHadQueue fails)
          ApiSkipsIfPresent \* blacklistPeer case does nothing when Add reports the peer as already present
                            \* (FALSE = the code; TRUE: P_C16_Api fails for direct Add followed by BlacklistPeer)

VARIABLES
    net,      \* net[p]   : a libp2p connection to p exists (p can send on its inbound stream)
    pend,     \* pend[p]  : connection notification not yet handled by the loop
    dead,     \* dead[p]  : dead-peer notification not yet handled
    q,        \* q[p]     : "none" | "open"  -- p.peers[p]
    qlen,     \* qlen[p]  : RPCs waiting in p's queue object (the backlog; it stays in the object when the queue is
              \*            closed and forgotten by the loop: only the writer still holds the object then)
    strm,     \* strm[p]  : "none" | "opening" | "up"  -- outbound stream (writer goroutine)
    wq,       \* wq[p]    : "none" | "open" | "closed" -- state of the queue object the writer holds
    popped,   \* popped[p]: the writer holds one RPC it has popped but not yet written
    topic,    \* topic[p] : p \in p.topics[T]
    mesh, fan,\* router sets
    rtpeer,   \* rtpeer[p]: p \in gs.peers
    bl,       \* bl[p]    : Contains(p)
    blapi,    \* blapi[p] : p was blacklisted through BlacklistPeer (and the entry has not expired)
    stage,    \* stage[m]
    ever,     \* ever[p]  : the outbound stream to p has been up at least once (history)
    \* monitors
    inj,      \* messages delivered / forwarded while forwarder or author was blacklisted
    exempt,   \* exempt[p]: the writer had popped one RPC when BlacklistPeer(p) was processed
    wrote,    \* wrote[p] : RPCs written to p since BlacklistPeer(p)
    apiBad,   \* <<p, tag>>: the state right after the blacklistPeer case for p was wrong; tag "hadq" when p had a
              \*           registered queue (the clean-up ran), tag "any" always
    refuseBad \* peers whose stream completed while blacklisted and was not refused

vars == <<net, pend, dead, q, qlen, strm, wq, popped, topic, mesh, fan, rtpeer, bl, blapi, stage, ever,
          inj, exempt, wrote, apiBad, refuseBad>>

Stages == {"idle", "arrived", "valQ", "worker", "async", "sendQ", "done", "rejected"}
InFlight == {"arrived", "valQ", "worker", "async", "sendQ"}

TypeOK ==
    /\ net \in [Peers -> BOOLEAN] /\ pend \in [Peers -> BOOLEAN] /\ dead \in [Peers -> BOOLEAN]
    /\ q \in [Peers -> {"none", "open"}] /\ qlen \in [Peers -> 0..MaxQ]
    /\ strm \in [Peers -> {"none", "opening", "up"}] /\ wq \in [Peers -> {"none", "open", "closed"}]
    /\ popped \in [Peers -> BOOLEAN] /\ topic \in [Peers -> BOOLEAN]
    /\ mesh \in [Peers -> BOOLEAN] /\ fan \in [Peers -> BOOLEAN] /\ rtpeer \in [Peers -> BOOLEAN]
    /\ bl \in [Peers -> BOOLEAN] /\ blapi \in [Peers -> BOOLEAN]
    /\ stage \in [Msgs -> Stages] /\ ever \in [Peers -> BOOLEAN]
    /\ inj \subseteq Msgs /\ exempt \in [Peers -> BOOLEAN] /\ wrote \in [Peers -> 0..(MaxQ + 1)]
    /\ apiBad \subseteq (Peers \X {"any", "hadq"}) /\ refuseBad \subseteq Peers

F(v) == [p \in Peers |-> v]

Init ==
    /\ net = [p \in Peers |-> p \notin Life] /\ pend = F(FALSE) /\ dead = F(FALSE) /\ q = F("none") /\ qlen = F(0)
    /\ strm = F("none") /\ wq = F("none") /\ popped = F(FALSE) /\ topic = F(FALSE)
    /\ mesh = F(FALSE) /\ fan = F(FALSE) /\ rtpeer = F(FALSE) /\ bl = F(FALSE) /\ blapi = F(FALSE)
    /\ stage = [m \in Msgs |-> "idle"] /\ ever = F(FALSE)
    /\ inj = {} /\ exempt = F(FALSE) /\ wrote = F(0) /\ apiBad = {} /\ refuseBad = {}

Mon == <<inj, exempt, wrote, apiBad, refuseBad>>

-----------------------------------------------------------------------------
(* peer lifecycle *)

Connect(p) ==
    /\ ~net[p]
    /\ net' = [net EXCEPT ![p] = TRUE] /\ pend' = [pend EXCEPT ![p] = TRUE]
    /\ UNCHANGED <<dead, q, qlen, strm, wq, popped, topic, mesh, fan, rtpeer, bl, blapi, stage, ever, Mon>>

\* handlePendingPeers: skip when not connected, already known, or blacklisted
HandlePending(p) ==
    /\ pend[p]
    /\ pend' = [pend EXCEPT ![p] = FALSE]
    /\ IF net[p] /\ q[p] = "none" /\ strm[p] = "none" /\ ~(CheckPending /\ bl[p])
         THEN /\ q' = [q EXCEPT ![p] = "open"] /\ qlen' = [qlen EXCEPT ![p] = 0]
              /\ strm' = [strm EXCEPT ![p] = "opening"] /\ wq' = [wq EXCEPT ![p] = "open"]
         ELSE UNCHANGED <<q, qlen, strm, wq>>
    /\ UNCHANGED <<net, dead, popped, topic, mesh, fan, rtpeer, bl, blapi, stage, ever, Mon>>

\* NewStream completed: the loop's newPeerStream case
StreamUp(p) ==
    /\ strm[p] = "opening" /\ net[p]
    /\ IF q[p] = "none"
         THEN \* unknown peer: reset
              /\ strm' = [strm EXCEPT ![p] = "none"] /\ wq' = [wq EXCEPT ![p] = "none"]
              /\ UNCHANGED <<q, qlen, rtpeer, ever, refuseBad>>
         ELSE IF CheckNewStream /\ bl[p]
         THEN \* blacklisted: close the queue, forget the peer, reset
              /\ strm' = [strm EXCEPT ![p] = "none"] /\ wq' = [wq EXCEPT ![p] = "none"]
              /\ q' = [q EXCEPT ![p] = "none"] /\ qlen' = [qlen EXCEPT ![p] = 0]
              /\ UNCHANGED <<rtpeer, ever, refuseBad>>
         ELSE /\ strm' = [strm EXCEPT ![p] = "up"] /\ rtpeer' = [rtpeer EXCEPT ![p] = TRUE]
              /\ ever' = [ever EXCEPT ![p] = TRUE]
              /\ refuseBad' = IF bl[p] THEN refuseBad \cup {p} ELSE refuseBad
              /\ UNCHANGED <<q, qlen, wq>>
    /\ UNCHANGED <<net, pend, dead, popped, topic, mesh, fan, bl, blapi, stage, inj, exempt, wrote, apiBad>>

\* NewStream failed (connection gone, or the peer speaks none of our protocols): newPeerError forgets the
\* queue (without closing it: no writer was started); the connection and the peer's own stream may live on
StreamFail(p) ==
    /\ strm[p] = "opening"
    /\ strm' = [strm EXCEPT ![p] = "none"] /\ wq' = [wq EXCEPT ![p] = "none"]
    /\ q' = [q EXCEPT ![p] = "none"] /\ qlen' = [qlen EXCEPT ![p] = 0]
    /\ UNCHANGED <<net, pend, dead, popped, topic, mesh, fan, rtpeer, bl, blapi, stage, ever, Mon>>

\* the connection goes away; an established outbound stream reports the peer dead
Disconnect(p) ==
    /\ Churn /\ net[p]
    /\ net' = [net EXCEPT ![p] = FALSE]
    /\ dead' = [dead EXCEPT ![p] = (strm[p] = "up") \/ dead[p]]
    /\ strm' = [strm EXCEPT ![p] = IF @ = "up" THEN "none" ELSE @]
    /\ wq' = [wq EXCEPT ![p] = IF strm[p] = "up" THEN "none" ELSE @]
    /\ popped' = [popped EXCEPT ![p] = FALSE]
    /\ topic' = [topic EXCEPT ![p] = FALSE]      \* the inbound stream ends: onClosedIncomingStream
    /\ qlen' = [qlen EXCEPT ![p] = IF q[p] = "none" THEN 0 ELSE @]   \* a forgotten queue dies with its writer
    /\ UNCHANGED <<pend, q, mesh, fan, rtpeer, bl, blapi, stage, ever, Mon>>

\* the remote resets only our outbound stream (connection stays)
ResetOutbound(p) ==
    /\ Churn /\ strm[p] = "up" /\ net[p]
    /\ strm' = [strm EXCEPT ![p] = "none"] /\ wq' = [wq EXCEPT ![p] = "none"]
    /\ popped' = [popped EXCEPT ![p] = FALSE]
    /\ dead' = [dead EXCEPT ![p] = TRUE]
    /\ qlen' = [qlen EXCEPT ![p] = IF q[p] = "none" THEN 0 ELSE @]
    /\ UNCHANGED <<net, pend, q, topic, mesh, fan, rtpeer, bl, blapi, stage, ever, Mon>>

\* rt.OnClosedOutboundStream(p) removes p from every mesh and fanout set, whether or not the router ever saw
\* an outbound stream to p (a peer can be in the mesh by its own GRAFT before that, D6)
Purges(p) == PurgeNeedsRtPeer => rtpeer[p]

\* handleDeadPeers
HandleDead(p) ==
    /\ dead[p]
    /\ dead' = [dead EXCEPT ![p] = FALSE]
    /\ IF q[p] = "none" THEN UNCHANGED <<q, qlen, strm, wq, topic, mesh, fan, rtpeer>>
       ELSE /\ topic' = [topic EXCEPT ![p] = FALSE]
            /\ mesh' = [mesh EXCEPT ![p] = IF Purges(p) THEN FALSE ELSE @]
            /\ fan' = [fan EXCEPT ![p] = IF Purges(p) THEN FALSE ELSE @]
            /\ rtpeer' = [rtpeer EXCEPT ![p] = FALSE]
            /\ IF net[p] /\ strm[p] = "none"
                 THEN \* still connected: respawn the writer with a fresh queue
                      /\ q' = q /\ qlen' = [qlen EXCEPT ![p] = 0]
                      /\ strm' = [strm EXCEPT ![p] = "opening"] /\ wq' = [wq EXCEPT ![p] = "open"]
                 ELSE /\ q' = [q EXCEPT ![p] = "none"] /\ qlen' = [qlen EXCEPT ![p] = 0]
                      /\ wq' = [wq EXCEPT ![p] = IF @ = "open" THEN "closed" ELSE @]
                      /\ UNCHANGED strm
    /\ UNCHANGED <<net, pend, popped, bl, blapi, stage, ever, Mon>>

\* inbound control traffic of p (possible whenever the connection exists, blacklisted or not)
Sub(p) ==
    /\ net[p] /\ ~topic[p]
    /\ topic' = [topic EXCEPT ![p] = TRUE]
    /\ UNCHANGED <<net, pend, dead, q, qlen, strm, wq, popped, mesh, fan, rtpeer, bl, blapi, stage, ever, Mon>>

\* GRAFT from p. As found, handleGraft does not look at the outbound stream (DESIGN D6): a peer
\* that only has an inbound stream enters the mesh, and BlacklistPeer (which only cleans up peers
\* that have a queue) then leaves it there.
Graft(p) ==
    /\ net[p] /\ ~mesh[p] /\ (GraftNeedsStream => rtpeer[p])
    /\ mesh' = [mesh EXCEPT ![p] = TRUE]
    /\ UNCHANGED <<net, pend, dead, q, qlen, strm, wq, popped, topic, fan, rtpeer, bl, blapi, stage, ever, Mon>>

\* the router selects p for the mesh / for a fanout set (needs gs.peers and topic state)
Select(p) ==
    /\ rtpeer[p] /\ topic[p]
    /\ \/ ~mesh[p] /\ mesh' = [mesh EXCEPT ![p] = TRUE] /\ UNCHANGED fan
       \/ ~fan[p] /\ fan' = [fan EXCEPT ![p] = TRUE] /\ UNCHANGED mesh
    /\ UNCHANGED <<net, pend, dead, q, qlen, strm, wq, popped, topic, rtpeer, bl, blapi, stage, ever, Mon>>

\* the node sends something to p (own publish, gossip, control): needs a registered queue
Enqueue(p) ==
    /\ Churn /\ q[p] = "open" /\ qlen[p] < MaxQ /\ (mesh[p] \/ fan[p] \/ topic[p])
    /\ qlen' = [qlen EXCEPT ![p] = @ + 1]
    /\ UNCHANGED <<net, pend, dead, q, strm, wq, popped, topic, mesh, fan, rtpeer, bl, blapi, stage, ever, Mon>>

\* Pop: an item, unless the queue is closed (the code tests `closed` first, whatever the queue holds)
WriterPop(p) ==
    /\ strm[p] = "up" /\ ~popped[p] /\ qlen[p] > 0
    /\ wq[p] = "open" \/ (DrainAfterClose /\ wq[p] = "closed")
    /\ popped' = [popped EXCEPT ![p] = TRUE] /\ qlen' = [qlen EXCEPT ![p] = @ - 1]
    /\ UNCHANGED <<net, pend, dead, q, strm, wq, topic, mesh, fan, rtpeer, bl, blapi, stage, ever, Mon>>

WriterWrite(p) ==
    /\ strm[p] = "up" /\ popped[p]
    /\ popped' = [popped EXCEPT ![p] = FALSE]
    /\ wrote' = [wrote EXCEPT ![p] = IF blapi[p] /\ @ <= MaxQ THEN @ + 1 ELSE @]
    /\ UNCHANGED <<net, pend, dead, q, qlen, strm, wq, topic, mesh, fan, rtpeer, bl, blapi, stage, ever,
                   inj, exempt, apiBad, refuseBad>>

\* Pop on a closed queue returns an error: the writer closes the stream and exits
WriterExit(p) ==
    /\ strm[p] = "up" /\ wq[p] = "closed" /\ ~popped[p]
    /\ DrainAfterClose => qlen[p] = 0
    /\ strm' = [strm EXCEPT ![p] = "none"] /\ wq' = [wq EXCEPT ![p] = "none"]
    /\ qlen' = [qlen EXCEPT ![p] = IF q[p] = "none" THEN 0 ELSE @]      \* the backlog is dropped with the object
    /\ UNCHANGED <<net, pend, dead, q, popped, topic, mesh, fan, rtpeer, bl, blapi, stage, ever, Mon>>

-----------------------------------------------------------------------------
(* blacklisting *)

Blacklist(p, how) ==
    /\ bl' = [bl EXCEPT ![p] = TRUE]
    /\ IF how = "direct"
         THEN UNCHANGED <<blapi, q, qlen, wq, topic, mesh, fan, rtpeer, exempt, wrote, apiBad>>
         ELSE /\ blapi' = [blapi EXCEPT ![p] = TRUE]
              /\ exempt' = [exempt EXCEPT ![p] = popped[p]]
              /\ wrote' = [wrote EXCEPT ![p] = 0]
              \* the clean-up does not depend on what Add returns: BlacklistPeer of a peer that is already in
              \* the blacklist (added directly before) must still close its queue and forget it
              /\ IF q[p] = "open" /\ ~(ApiSkipsIfPresent /\ bl[p])
                   THEN /\ q' = [q EXCEPT ![p] = "none"]
                        \* Close only sets the flag: the backlog stays in the object. With no writer attached
                        \* (stream not established) nobody holds the object any more.
                        /\ qlen' = [qlen EXCEPT ![p] = IF strm[p] = "up" THEN @ ELSE 0]
                        /\ wq' = [wq EXCEPT ![p] = IF ApiCloses /\ @ = "open" THEN "closed" ELSE @]
                        /\ topic' = [topic EXCEPT ![p] = IF ApiClears THEN FALSE ELSE @]
                        /\ mesh' = [mesh EXCEPT ![p] = IF ApiNotifies /\ Purges(p) THEN FALSE ELSE @]
                        /\ fan' = [fan EXCEPT ![p] = IF ApiNotifies /\ Purges(p) THEN FALSE ELSE @]
                        /\ rtpeer' = [rtpeer EXCEPT ![p] = IF ApiNotifies THEN FALSE ELSE @]
                   ELSE UNCHANGED <<q, qlen, wq, topic, mesh, fan, rtpeer>>
              \* the "additionally" clauses, evaluated on the state right after the case
              \* ("peer lists" = ListPeers = p.peers /\ p.topics[t]; topic state learnt from the inbound stream
              \*  of a peer that has no queue is never listed)
              /\ LET bad == \/ q'[p] # "none" \/ wq'[p] = "open"
                             \/ (q[p] = "open" /\ topic'[p])
                             \/ mesh'[p] \/ fan'[p]
                 IN apiBad' = apiBad \cup (IF bad THEN {<<p, "any">>} ELSE {})
                                     \cup (IF bad /\ q[p] = "open" THEN {<<p, "hadq">>} ELSE {})
    /\ UNCHANGED <<net, pend, dead, strm, popped, stage, ever, inj, refuseBad>>

Expire(p) ==
    /\ CanExpire /\ bl[p]
    /\ bl' = [bl EXCEPT ![p] = FALSE] /\ blapi' = [blapi EXCEPT ![p] = FALSE]
    /\ UNCHANGED <<net, pend, dead, q, qlen, strm, wq, popped, topic, mesh, fan, rtpeer, stage, ever, Mon>>

-----------------------------------------------------------------------------
(* inbound message pipeline *)

Banned(m) == bl[Fwd[m]] \/ bl[Author[m]]
SetStage(m, s) == stage' = [stage EXCEPT ![m] = s]
PipeUnch == UNCHANGED <<net, pend, dead, q, strm, wq, popped, topic, mesh, fan, rtpeer, bl, blapi, ever,
                        exempt, wrote, apiBad, refuseBad>>

\* the RPC carrying m is read off the forwarder's inbound stream
Arrive(m) ==
    /\ stage[m] = "idle" /\ net[Fwd[m]]
    /\ SetStage(m, "arrived") /\ PipeUnch /\ UNCHANGED <<qlen, inj>>

\* publishMessage: deliver to the subscribers and forward (monitor: was the message banned at this instant?)
Publish(m) ==
    /\ SetStage(m, "done")
    /\ inj' = IF Banned(m) THEN inj \cup {m} ELSE inj
    /\ qlen' = [p \in Peers |-> IF Churn /\ q[p] = "open" /\ mesh[p] /\ p # Fwd[m] /\ p # Author[m] /\ qlen[p] < MaxQ
                                  THEN qlen[p] + 1 ELSE qlen[p]]

\* handleIncomingRPC: shouldPush, then pushMsg: validation.Push queues the message when it is signed or
\* a validator applies; otherwise (unsigned, no validator) pushMsg publishes it at once, in the same loop
\* iteration -- on this path shouldPush is the only blacklist test
ShouldPush(m) ==
    /\ stage[m] = "arrived"
    /\ IF (CheckFwd /\ bl[Fwd[m]]) \/ (CheckAuthor /\ bl[Author[m]])
         THEN SetStage(m, "rejected") /\ UNCHANGED <<qlen, inj>>
         ELSE \/ SetStage(m, "valQ") /\ UNCHANGED <<qlen, inj>>
              \/ Publish(m)
    /\ PipeUnch

WorkerTake(m) == stage[m] = "valQ" /\ SetStage(m, "worker") /\ PipeUnch /\ UNCHANGED <<qlen, inj>>

\* signature verified, marked seen: either an asynchronous validator runs or the message is handed to the loop
WorkerDone(m) ==
    /\ stage[m] = "worker"
    /\ \/ SetStage(m, "async") \/ SetStage(m, "sendQ")
    /\ PipeUnch /\ UNCHANGED <<qlen, inj>>

AsyncDone(m) == stage[m] = "async" /\ SetStage(m, "sendQ") /\ PipeUnch /\ UNCHANGED <<qlen, inj>>

\* the loop receives m from sendMsg; the repaired code re-checks the blacklist here
LoopPublish(m) ==
    /\ stage[m] = "sendQ"
    /\ IF RecheckAtPublish /\ Banned(m)
         THEN SetStage(m, "rejected") /\ UNCHANGED <<qlen, inj>>
         ELSE Publish(m)
    /\ PipeUnch

-----------------------------------------------------------------------------
NextOther ==
    \/ \E p \in Life : \/ Connect(p) \/ HandlePending(p) \/ StreamUp(p) \/ StreamFail(p)
                       \/ Disconnect(p) \/ ResetOutbound(p) \/ HandleDead(p)
                       \/ Sub(p) \/ Graft(p) \/ Select(p) \/ Enqueue(p)
                       \/ WriterPop(p) \/ WriterWrite(p) \/ WriterExit(p)
                       \/ Expire(p)
    \/ \E m \in Msgs : \/ Arrive(m) \/ ShouldPush(m) \/ WorkerTake(m) \/ WorkerDone(m)
                       \/ AsyncDone(m) \/ LoopPublish(m)

\* the blacklisting is enabled in every state
NextBl == \E p \in Life, how \in {"api", "direct"} : Blacklist(p, how)

Next == NextOther \/ NextBl

Spec == Init /\ [][Next]_vars

-----------------------------------------------------------------------------
(* properties *)

\* no message whose forwarder or author is blacklisted AT THAT INSTANT is delivered or forwarded
P_C16_NoInject == inj = {}

\* a stream to p that completes while p is blacklisted is reset and leaves no queue
P_C16_Refuse == refuseBad = {}

\* BlacklistPeer(p): right after the case the queue is closed and p is in no topic list, mesh or fanout
\* set; afterwards nothing is written to p except at most the one RPC the writer had popped
P_C16_Api ==
    /\ apiBad = {}
    /\ \A p \in Peers : blapi[p] => wrote[p] <= (IF exempt[p] THEN 1 ELSE 0)

\* the part of P_C16_Api that D6 (GRAFT accepted from a peer without outbound queue) does not break: when the
\* blacklisted peer HAD a registered queue, the clean-up ran and must have removed it from mesh and fanout as well
P_C16_ApiHadQueue == \A x \in apiBad : x[2] # "hadq"

\* fanout sets only ever hold peers the router has an outbound stream for (getPeers filters on gs.peers): the
\* situation "in a fanout set while the stream is still being opened" does not exist
FanoutNeedsStream == \A p \in Peers : fan[p] => rtpeer[p]

\* while the API blacklisting is in force there is no open outbound queue for p
P_C16_ApiQueue == \A p \in Peers : blapi[p] => q[p] = "none"

\* positions the blacklisting can find the peer in (used by the generator and as reachability witnesses)
Pos(p) ==
    CASE strm[p] = "up" /\ popped[p] /\ qlen[p] > 0 /\ mesh[p] -> "gated-mesh"    \* writer inside Write, backlog queued
      [] strm[p] = "up" /\ popped[p] /\ qlen[p] > 0 /\ fan[p]  -> "gated-fanout"
      [] strm[p] = "up" /\ popped[p] /\ qlen[p] > 0            -> "gated-topic"   \* plain topic / floodsub / direct peer
      [] strm[p] = "up" /\ mesh[p]                       -> "mesh"
      [] strm[p] = "up" /\ fan[p]                        -> "fanout"
      [] strm[p] = "up"                                  -> "conn"
      [] strm[p] = "opening" /\ q[p] = "open" /\ net[p] /\ ~ever[p] /\ mesh[p] -> "pending-mesh"    \* only with D6
      [] strm[p] = "opening" /\ q[p] = "open" /\ net[p] /\ ever[p] /\ mesh[p]  -> "repending-mesh"  \* only with D6
      [] strm[p] = "opening" /\ q[p] = "open" /\ net[p] /\ ~ever[p] -> "pending"
      [] strm[p] = "opening" /\ q[p] = "open" /\ net[p] /\ ever[p]  -> "repending"
      [] net[p] /\ q[p] = "none" /\ strm[p] = "none" /\ ~pend[p] /\ mesh[p] /\ ~ever[p] -> "nostream"  \* only with D6
      [] ~net[p] /\ q[p] = "none" /\ ~ever[p] /\ ~pend[p] /\ strm[p] = "none" -> "never"
      [] ~net[p] /\ q[p] = "none" /\ ever[p] /\ ~dead[p] /\ strm[p] = "none"  -> "down"
      [] OTHER                                           -> "other"
=============================================================================
