---------------------------- MODULE MCBlacklist ----------------------------
(* Exhaustive configurations for C16: the victim v, one third party b (always connected, never
   blacklisted); m1 is forwarded by the victim (authored by b), m2 is authored by the victim and
   forwarded by b.
     MCPipe : the blacklisting (api / direct / expiry) at every point of the inbound pipeline of both
              messages, peer connects once (Churn = FALSE)
     MCLife : the blacklisting at every point of the full peer lifecycle (connect, queue, stream,
              mesh / fanout, traffic, writer, stream reset, disconnect, dead-peer handling with
              respawn, reconnect), no messages                                                   *)
EXTENDS Blacklist
MCPeers == {"v", "b"}
MCLifePeers == {"v"}
MCMsgs == {"m1", "m2"}
MCFwd == [m1 |-> "v", m2 |-> "b"]
MCAuthor == [m1 |-> "b", m2 |-> "v"]
NoMsgs == {}
NoFn == [m \in {} |-> "v"]
\* `ever` is history only (it names the position for the generator)
MCView == <<net, pend, dead, q, qlen, strm, wq, popped, topic, mesh, fan, rtpeer, bl, blapi, stage,
            inj, exempt, wrote, apiBad, refuseBad>>
=============================================================================
