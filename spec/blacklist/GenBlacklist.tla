---------------------------- MODULE GenBlacklist ----------------------------
(* Scenario generator for C16.  It explores the model of Blacklist.tla and, at every step that
   blacklists the victim, records the SITUATION the blacklisting found:

       pos   : lifecycle position of the victim at that instant (Pos)
       how   : api | direct | both (direct Add first, then BlacklistPeer of the same peer)
       by    : the message in the pipeline names the victim as forwarder (origin) or as author
       stage : pipeline stage of that message at that instant (none if nothing is in flight)

   Every distinct reachable situation is printed once per state that exhibits it (the orchestrator
   de-duplicates); the Go driver (harness/drivers/c16) reconstructs each situation on the real node:
   it builds the position, parks the message at the stage, blacklists, lets everything run on and
   then probes.  Situations are reachable by construction; nothing is invented by the orchestrator. *)
EXTENDS Blacklist, Json

CONSTANT Victim
GPeers == {"v", "b"}
GLife == {"v"}
GMsgs == {"m1", "m2"}
GFwd == [m1 |-> "v", m2 |-> "b"]
GAuthor == [m1 |-> "b", m2 |-> "v"]
VARIABLE sit        \* situations of the blacklisting step that led to this state ({} otherwise)

gvars == <<vars, sit>>

By(m) == IF Fwd[m] = Victim THEN "origin" ELSE "author"
Flying == {m \in Msgs : stage[m] \in InFlight /\ (Fwd[m] = Victim \/ Author[m] = Victim)}

Situations(how) ==
    LET pos == Pos(Victim) IN
    IF pos = "other" THEN {}
    ELSE IF bl[Victim]
      THEN \* BlacklistPeer of a peer that was added directly before ("both"); emitted with nothing in flight
           IF how = "api" /\ ~blapi[Victim] /\ Flying = {}
             THEN {[pos |-> pos, how |-> "both", by |-> b, stage |-> "none"] : b \in {"origin", "author"}}
             ELSE {}
    ELSE IF Flying = {}
      THEN {[pos |-> pos, how |-> how, by |-> b, stage |-> "none"] : b \in {"origin", "author"}}
      ELSE {[pos |-> pos, how |-> how, by |-> By(m), stage |-> stage[m]] : m \in Flying}

GInit == Init /\ sit = {}
GNext == \/ NextOther /\ sit' = {}
         \/ \E how \in {"api", "direct"} : Blacklist(Victim, how) /\ sit' = Situations(how)
GSpec == GInit /\ [][GNext]_gvars

\* at most one message in the pipeline at a time (one situation = one in-flight message)
OneFlying == Cardinality({m \in Msgs : stage[m] \in InFlight}) <= 1

Emit == \A s \in sit : PrintT(<<"SCN", ToJson(s)>>)
\* hide the monitors and `sit` itself is part of the view so that every situation is printed
GView == <<net, pend, dead, q, qlen, strm, wq, popped, topic, mesh, fan, rtpeer, bl, blapi, stage, ever, sit>>
=============================================================================
