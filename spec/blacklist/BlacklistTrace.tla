--------------------------- MODULE BlacklistTrace ---------------------------
(* Trace specification for C16 over the common step-line format of harness/world, plus the
   fields the C16 driver adds to every line:

     c16.bl      : every Add on the configured blacklist so far:
                   [p, how (api|direct), n (recorder sequence number at the instant of the Add),
                    t (virtual ms), exp (ms, 0 = never expires)]
     c16.blc     : Contains(p) as answered by the real implementation at the end of the step
     c16.alive   : streams opened by the node to the fake peer that are still alive
     c16.capq    : state of the victim's outbound queue OBJECT captured right before the
                   blacklisting: none | open | closed
     c16.lp      : PubSub.ListPeers(t) for the topics in use
     c16.writes  : Write calls on streams to the peer that the node's host handed to the transport so far
                   (bl[i].wr is that counter at the instant of the Add)

   The replay is deterministic, so the spec has exactly one behaviour: one step per line.
   Monitors are built from OBSERVED events (Recv / Deliver / Send events, frames on the wire)
   and from the driver's log of its own stimuli (c16.bl); the blacklist status at the time of
   an event is  "some Add(p) has a smaller sequence number and has not expired".
   Every failed predicate instance is printed as  <<"VIOL", json>>; the orchestrator turns
   them into verdicts.                                                                      *)
EXTENDS Naturals, Sequences, FiniteSets, TLC, Json

Trace == ndJsonDeserialize("trace.ndjson")

VARIABLES l,        \* cursor
          recvd,    \* [m, p, from, n] : message m arrived in an RPC from p (authored by from) at sequence number n
          dlv,      \* [m, via, from, n] : Deliver events of remote messages
          sent,     \* [p, m, n] : Send events carrying m to p
          seenBl,   \* <<p, n>> of the blacklist entries seen on earlier lines
          wr,       \* wr[p] : frames written to p since it was blacklisted through the API
          regraft,  \* peers for which the tracer reported a GRAFT (mesh entry) after they were blacklisted through the API
          pwr,      \* c16.writes of the previous line (Write calls handed to the transport, per peer)
          upset,    \* peers whose outbound stream is established according to the tracer (Up without a later Down)
          info      \* the scenario's reset arguments

tvars == <<l, recvd, dlv, sent, seenBl, wr, regraft, pwr, upset, info>>

L == Trace[l]
More == l <= Len(Trace)
Range(s) == {s[i] : i \in DOMAIN s}
IsReset == L.act.a = "reset"
NoInfo == [pos |-> "", how |-> "", by |-> "", stage |-> "", impl |-> "", path |-> ""]

-----------------------------------------------------------------------------
(* blacklist status *)
BL == L.c16.bl
Entries(p) == {i \in DOMAIN BL : BL[i].p = p}
Alive(e, t) == e.exp = 0 \/ t < e.t + e.exp
\* entries that bind an event with sequence number n at time t
BindN(p, n, t) == {i \in Entries(p) : BL[i].n < n /\ Alive(BL[i], t)}
\* entries that bind something observed (without a sequence number) at time t on a LATER line
BindT(p, t) == {i \in Entries(p) : BL[i].t <= t /\ Alive(BL[i], t)}

\* events of this line
Ev == L.ev
EvIdx(k) == {i \in DOMAIN Ev : Ev[i].k = k}
RecvHere == UNION {{[m |-> Ev[i].rpc.msgs[j].m, p |-> Ev[i].p, from |-> Ev[i].rpc.msgs[j].from, n |-> Ev[i].n]
                     : j \in DOMAIN Ev[i].rpc.msgs} : i \in EvIdx("Recv")}
DlvHere == {[m |-> Ev[i].m, via |-> Ev[i].via, from |-> Ev[i].from, n |-> Ev[i].n]
              : i \in {x \in EvIdx("Deliver") : ~Ev[x].self}}
SentHere == UNION {{[p |-> Ev[i].p, m |-> Ev[i].rpc.msgs[j].m, n |-> Ev[i].n]
                     : j \in DOMAIN Ev[i].rpc.msgs} : i \in EvIdx("Send")}
RecvAll == recvd \cup RecvHere
DlvAll == dlv \cup DlvHere
SentAll == sent \cup SentHere

\* m had arrived from via before the Add of entry i
ArrivedBefore(m, via, i) == \E r \in RecvAll : r.m = m /\ r.p = via /\ r.n <= BL[i].n

V(pred, kind, m, p, inflight, clause) ==
    [pred |-> pred, kind |-> kind, scn |-> L.scn, line |-> L.i, pos |-> info.pos, how |-> info.how,
     by |-> info.by, impl |-> info.impl, path |-> info.path,
     stage |-> IF inflight THEN info.stage ELSE "none",
     m |-> m, p |-> p, inflight |-> inflight, clause |-> clause,
     \* did the victim have a registered outbound queue right before the blacklisting? (the api clean-up runs only then)
     hadq |-> L.c16.capq # "none"]

-----------------------------------------------------------------------------
(* P_C16_NoInject: no delivery / forward of a message whose forwarder or author is blacklisted
   at that instant *)

\* Deliver events
VDeliver ==
    UNION {LET e == Ev[i]
               bf == BindN(e.via, e.n, e.t)
               ba == BindN(e.from, e.n, e.t)
           IN IF bf \cup ba = {} THEN {}
              ELSE {V("P_C16_NoInject", "deliver", e.m, IF bf # {} THEN e.via ELSE e.from,
                      \E b \in bf \cup ba : ArrivedBefore(e.m, e.via, b),
                      IF bf # {} /\ ba # {} THEN "both" ELSE IF bf # {} THEN "forwarder" ELSE "author")}
           : i \in {x \in EvIdx("Deliver") : ~Ev[x].self}}

\* Send events carrying a message that was received from somebody
VForward ==
    UNION {UNION {LET e == Ev[i]
                      mm == e.rpc.msgs[j]
                      ds == {d \in DlvAll : d.m = mm.m /\ d.n <= e.n}
                  IN UNION {LET bf == BindN(d.via, e.n, e.t)
                                ba == BindN(d.from, e.n, e.t)
                            IN IF bf \cup ba = {} THEN {}
                               ELSE {V("P_C16_NoInject", "forward", mm.m, IF bf # {} THEN d.via ELSE d.from,
                                       \E b \in bf \cup ba : ArrivedBefore(mm.m, d.via, b),
                                       IF bf # {} /\ ba # {} THEN "both" ELSE IF bf # {} THEN "forwarder" ELSE "author")}
                            : d \in ds}
                  : j \in DOMAIN Ev[i].rpc.msgs}
           : i \in EvIdx("Send")}

\* deliveries to subscribers (Subscription.Next) that no Deliver event from before the Add accounts for
VSubscriber ==
    UNION {LET x == L.deliv[k]
               ds == {d \in DlvAll : d.m = x.m}
           IN UNION {LET bs == BindT(d.via, L.t) \cup BindT(d.from, L.t)
                         late == {b \in bs : ~\E d2 \in ds : d2.n <= BL[b].n}
                     IN IF late = {} THEN {}
                        ELSE {V("P_C16_NoInject", "subscriber", x.m, IF BindT(d.via, L.t) # {} THEN d.via ELSE d.from,
                                \E b \in late : ArrivedBefore(x.m, d.via, b),
                                IF BindT(d.via, L.t) # {} THEN "forwarder" ELSE "author")}
                     : d \in ds}
           : k \in DOMAIN L.deliv}

\* frames on the wire towards third parties that no Send event from before the Add accounts for
VWire ==
    UNION {UNION {UNION {LET f == L.out[q][k]
                             mm == f.msgs[j]
                             ds == {d \in DlvAll : d.m = mm.m}
                         IN UNION {LET bs == BindT(d.via, f.t) \cup BindT(d.from, f.t)
                                       late == {b \in bs : ~\E s \in SentAll : s.p = q /\ s.m = mm.m /\ s.n <= BL[b].n}
                                   IN IF late = {} THEN {}
                                      ELSE {V("P_C16_NoInject", "wire", mm.m, IF BindT(d.via, f.t) # {} THEN d.via ELSE d.from,
                                              \E b \in late : ArrivedBefore(mm.m, d.via, b),
                                              IF BindT(d.via, f.t) # {} THEN "forwarder" ELSE "author")}
                                   : d \in ds}
                         : j \in DOMAIN L.out[q][k].msgs}
                  : k \in DOMAIN L.out[q]}
           : q \in DOMAIN L.out}

-----------------------------------------------------------------------------
(* P_C16_Refuse: a stream to p completing while p is blacklisted is reset and leaves no queue *)

VUp == UNION {IF BindN(Ev[i].p, Ev[i].n, Ev[i].t) = {} THEN {}
              ELSE {V("P_C16_Refuse", "stream-accepted", "", Ev[i].p, FALSE, "up")}
              : i \in EvIdx("Up")}

\* The driver let a held NewStream go (releaseOpen) or waited for the respawned writer's NewStream (respawn).
\* If, according to the tracer, no outbound stream to p was established before this step, whatever stream
\* completes in it completes while p is blacklisted: it must have been reset (nothing written on it, not
\* alive at the peer) and p must have no queue afterwards.  (A stream that was established BEFORE a direct
\* blacklisting is not touched by the statement.)
IsRelease == L.act.a = "adv" /\ "x" \in DOMAIN L.act /\ L.act.x \in {"releaseOpen", "respawn"}
VRelease ==
    IF ~IsRelease \/ BindT(L.act.p, L.t) = {} \/ L.act.p \in upset THEN {}
    ELSE LET p == L.act.p IN
         (IF p \in DOMAIN L.st.peers THEN {V("P_C16_Refuse", "queue-left", "", p, FALSE, L.act.x)} ELSE {})
         \cup (IF Len(L.out[p]) > 0 THEN {V("P_C16_Refuse", "frame", "", p, FALSE, L.act.x)} ELSE {})
         \cup (IF L.c16.alive[p] > 0 THEN {V("P_C16_Refuse", "stream-alive", "", p, FALSE, L.act.x)} ELSE {})

UpDownIdx(p) == {i \in DOMAIN Ev : Ev[i].k \in {"Up", "Down"} /\ Ev[i].p = p}
UpAfter == {p \in upset \cup {Ev[i].p : i \in EvIdx("Up")} :
              IF UpDownIdx(p) = {} THEN TRUE
              ELSE Ev[CHOOSE i \in UpDownIdx(p) : \A j \in UpDownIdx(p) : j <= i].k = "Up"}

-----------------------------------------------------------------------------
(* P_C16_Api: after BlacklistPeer(p) *)

ApiNow == {i \in DOMAIN BL : BL[i].how = "api" /\ Alive(BL[i], L.t)}
Fresh(i) == <<BL[i].p, BL[i].n>> \notin seenBl
InAny(p, f) == {t \in DOMAIN f : p \in Range(f[t])}
FramesAfter(i) ==
    LET p == BL[i].p IN
    IF p \notin DOMAIN L.out THEN 0
    ELSE IF Fresh(i) THEN Cardinality({k \in DOMAIN L.out[p] : L.out[p][k].t >= BL[i].t})
    ELSE Len(L.out[p])
WrOf(p) == IF p \in DOMAIN wr THEN wr[p] ELSE 0
PrevWrites(p) == IF p \in DOMAIN pwr THEN pwr[p] ELSE 0
\* tracer Graft events (the peer entered a mesh: its GRAFT was accepted, or the node grafted it) after an api entry for that peer
RegraftAll == regraft \cup {Ev[j].p : j \in {x \in EvIdx("Graft") : \E i \in DOMAIN BL : BL[i].how = "api" /\ BL[i].p = Ev[x].p /\ BL[i].n < Ev[x].n}}

\* at that moment
VApiMoment ==
    UNION {LET p == BL[i].p IN
           IF ~Fresh(i) THEN {} ELSE
           (IF p \in DOMAIN L.st.peers \/ L.c16.capq = "open" THEN {V("P_C16_Api", "moment", "", p, FALSE, "queue")} ELSE {})
           \cup (IF InAny(p, L.c16.lp) # {} THEN {V("P_C16_Api", "moment", "", p, FALSE, "listpeers")} ELSE {})
           \cup (IF L.c16.capq # "none" /\ InAny(p, L.st.topics) # {} THEN {V("P_C16_Api", "moment", "", p, FALSE, "topics")} ELSE {})
           \cup (IF InAny(p, L.st.mesh) # {} THEN {V("P_C16_Api", "moment", "", p, FALSE, "mesh")} ELSE {})
           \cup (IF InAny(p, L.st.fanout) # {} THEN {V("P_C16_Api", "moment", "", p, FALSE, "fanout")} ELSE {})
           : i \in ApiNow}

\* from then on: no open outbound queue, nothing written except at most the one popped RPC
VApiAfter ==
    UNION {LET p == BL[i].p IN
           (IF ~Fresh(i) /\ p \in DOMAIN L.st.peers /\ ~L.st.peers[p].closed
              THEN {V("P_C16_Api", "after", "", p, FALSE, "open-queue")} ELSE {})
           \cup (IF WrOf(p) <= 1 /\ WrOf(p) + FramesAfter(i) > 1
                   THEN {V("P_C16_Api", "after", "", p, FALSE, "sent")} ELSE {})
           \* "no longer appears in the mesh at that moment": if p is in a mesh on a later line although the tracer has not
           \* reported a GRAFT for p since the blacklisting, it never left (a later GRAFT of p on its surviving inbound
           \* stream re-enters it, D6, and is not held against the statement)
           \cup (IF ~Fresh(i) /\ InAny(p, L.st.mesh) # {} /\ p \notin RegraftAll
                   THEN {V("P_C16_Api", "after", "", p, FALSE, "mesh-stale")} ELSE {})
           \cup (IF ~Fresh(i) /\ InAny(p, L.st.fanout) # {} /\ p \notin RegraftAll
                   THEN {V("P_C16_Api", "after", "", p, FALSE, "fanout-stale")} ELSE {})
           \* the same at the node's own network interface: Write calls after the instant of the Add (at most the one
           \* Write that was in progress: the writer sits inside it with the RPC it had popped; its next Pop fails)
           \cup (IF L.c16.writes[p] > BL[i].wr + 1 /\ (Fresh(i) \/ PrevWrites(p) <= BL[i].wr + 1)
                   THEN {V("P_C16_Api", "after", "", p, FALSE, "written")} ELSE {})
           : i \in ApiNow}

\* the configured implementation answers Contains(p) = TRUE while the entry is alive
VContains ==
    UNION {IF Alive(BL[i], L.t) /\ ~L.c16.blc[BL[i].p] THEN {V("P_C16_Contains", "contains", "", BL[i].p, FALSE, BL[i].how)} ELSE {}
           : i \in DOMAIN BL}

Viols == VDeliver \cup VForward \cup VSubscriber \cup VWire \cup VUp \cup VRelease \cup VApiMoment \cup VApiAfter \cup VContains

\* number of predicate instances evaluated on this line against a non-empty blacklist
Evals ==
    IF Len(BL) = 0 THEN 0
    ELSE Cardinality(EvIdx("Deliver")) + Cardinality(EvIdx("Send")) + Cardinality(EvIdx("Up")) + Len(L.deliv)
         + Cardinality(ApiNow) * 2 + (IF IsRelease THEN 3 ELSE 0) + Len(BL)

-----------------------------------------------------------------------------
TInit == /\ TLCSet(1, 0) /\ TLCSet(2, 0) /\ TLCSet(3, 0)
         /\ l = 1 /\ recvd = {} /\ dlv = {} /\ sent = {} /\ seenBl = {} /\ wr = <<>> /\ regraft = {} /\ pwr = <<>> /\ upset = {} /\ info = NoInfo

TReset ==
    /\ More /\ IsReset
    /\ recvd' = {} /\ dlv' = {} /\ sent' = {} /\ seenBl' = {} /\ wr' = <<>> /\ regraft' = {} /\ pwr' = <<>> /\ upset' = {}
    /\ info' = [pos |-> L.act.cfg.pos, how |-> L.act.cfg.how, by |-> L.act.cfg.by, stage |-> L.act.cfg.stage,
                impl |-> L.act.cfg.impl, path |-> L.act.cfg.path]
    /\ l' = l + 1

TStep ==
    /\ More /\ ~IsReset
    /\ \A v \in Viols : PrintT(<<"VIOL", ToJson(v)>>)
    /\ TLCSet(2, TLCGet(2) + Evals)
    /\ TLCSet(3, TLCGet(3) + Cardinality(Viols))
    /\ recvd' = RecvAll /\ dlv' = DlvAll /\ sent' = SentAll
    /\ seenBl' = seenBl \cup {<<BL[i].p, BL[i].n>> : i \in DOMAIN BL}
    /\ wr' = [p \in {BL[i].p : i \in ApiNow} |->
                LET i == CHOOSE x \in ApiNow : BL[x].p = p IN WrOf(p) + FramesAfter(i)]
    /\ regraft' = RegraftAll
    /\ pwr' = L.c16.writes
    /\ upset' = UpAfter
    /\ info' = info
    /\ l' = l + 1

TNext == TReset \/ TStep
TraceSpec == TInit /\ [][TNext]_tvars

HW == IF TLCGet(1) < l THEN TLCSet(1, l) ELSE TRUE
Accepted == /\ PrintT(<<"EVALS", TLCGet(2), TLCGet(3)>>)
            /\ PrintT(<<"HW", TLCGet(1), Len(Trace) + 1>>)
=============================================================================
