---------------------------- MODULE Thresholds ----------------------------
(* C09 - score thresholds gate what a peer may send and receive.

   One gossipsub node, one topic, three peers.  The score of a peer is an INPUT
   (the application-specific score, set by SetScore); the five thresholds are
   constants.  Every step of the node is described by a pure function
       Outcomes(a)  =  set of possible results of performing action a in the
                       current state
   (a set because the code has free choices: the gater's random early drop,
   which peers are shuffled to the front).  A result carries the post-state and
   everything the step emitted (replies, forwarded copies, PRUNEs with/without
   peer exchange, dials, ...).  The next-state relation picks any result; the
   properties P_C09_* are predicates over (pre-state, action, result) that use
   the thresholds literally as the property statement does, and are checked
   for every action and every result in every reachable state.

   The machine (not the properties) consults the constant Bug at each
   comparison site; Bug = "none" is the code as written, every other value is
   one seeded defect used by a configuration that MUST fail (non-vacuity).

   Code map (gossipsub.go unless said otherwise):
     RPC from p:  handleIncomingRPC (pubsub.go) records subscriptions, THEN
                  AcceptFrom: direct => all; score < graylist => none;
                  gater => all | control (peer_gater.go); messages only under
                  "all"; HandleRPC: handleIHave, handleIWant (gossip threshold),
                  handleGraft (score < 0 => PRUNE, doPX = false), handlePrune
                  (acceptPX threshold, pxConnect record checks), handleIDontWant.
     Heartbeat:   negative-score prune with noPX; mesh fill (score >= 0);
                  opportunistic graft (score > median >= 0); emitGossip
                  (score >= gossip); fanout maintenance (score >= publish).
     Publish:     rpcs(): flood publish / floodsub peers (score >= publish),
                  getFanoutPeersForPublishing (score >= publish).
     Join:        fanout promotion drops score < 0, selection needs score >= 0. *)
EXTENDS Integers, FiniteSets, Sequences, TLC

CONSTANTS Peers,            \* e.g. {"p1","p2","p3"}; all subscribed to the topic
          Direct,           \* direct peers
          FloodProto,       \* peers speaking /floodsub/1.0.0
          NegGossip, NegPublish, NegGraylist,   \* magnitudes: gossip threshold = -NegGossip ...
          AcceptPX, OppGraft,
          FloodPublish, DoPX,
          Gater,            \* "off" | "quiet" | "throttling"
          MixMode,          \* "move" | "basic" | "all": which RPC mixes are explored
          ScoreFree,        \* peers whose score is set by SetScore (the others stay at 0)
          Bug,              \* "none" or the name of a seeded defect
          D, Dlo, Dhi, Dscore  \* mesh degrees: (4, 2, 5, 2) = world.SmallParams, never full with 3 inbound peers;
                               \* (2, 1, 2, 1) makes the mesh-full refusal of handleGraft and the over-subscription prune reachable

\* gossipsub parameters of the harness (world.SmallParams)
ASSUME Dlo <= D /\ D <= Dhi /\ Dscore <= D
Dlazy == 2
PrunePeers == 2
OppPeers == 1

thr == [gossip |-> 0 - NegGossip, publish |-> 0 - NegPublish, graylist |-> 0 - NegGraylist,
        acceptPX |-> AcceptPX, oppGraft |-> OppGraft]

\* threshold validation (score_params.go PeerScoreThresholds.validate)
ValidThresholds(g, p, y, a, o, skip) ==
    /\ (~skip \/ p # 0 \/ g # 0 \/ y # 0) => (g <= 0 /\ p <= 0 /\ p <= g /\ y <= 0 /\ y <= p)
    /\ (~skip \/ a # 0) => a >= 0
    /\ (~skip \/ o # 0) => o >= 0
ASSUME ValidThresholds(thr.gossip, thr.publish, thr.graylist, thr.acceptPX, thr.oppGraft, FALSE)

Nbh(x) == {x - 1, x, x + 1}
\* the scores worth trying: one below, at, one above every threshold (and zero)
ScoreValsOf(t) == Nbh(t.gossip) \cup Nbh(t.publish) \cup Nbh(t.graylist) \cup Nbh(0)
                  \cup Nbh(t.acceptPX) \cup Nbh(t.oppGraft)
ScoreVals == ScoreValsOf(thr)

Kinds == {"sub", "msg", "ihave", "iwant", "graft", "prune", "idontwant"}
Mixes == IF MixMode = "all" THEN (SUBSET Kinds) \ {{}}
         ELSE IF MixMode = "move" THEN {{"graft"}, {"prune"}}      \* just enough to reach every mesh/backoff state
         ELSE {{k} : k \in Kinds} \cup {{"sub", "graft"}, {"sub", "msg"}, {"msg", "graft"}, {"msg", "prune"},
                                         {"graft", "prune"}, {"ihave", "iwant"}, {"msg", "idontwant", "prune"}, Kinds}

\* peer-exchange entries of a PRUNE: each names a fresh, unconnected third host except "connected"
PXClasses == {"none", "valid", "wrongid", "baddomain", "garbage", "notrecord", "connected"}
PXLists == {<<>>} \cup {<<c>> : c \in PXClasses} \cup {<<"valid", "none", "valid">>, <<"wrongid", "valid">>}
PXGood == {"none", "valid"}           \* no record, or a valid record for the advertised id

VARIABLES score,     \* score[p]: input
          joined,    \* the node is subscribed (mesh exists)
          fanOn,     \* a fanout entry exists (only when ~joined)
          sel,       \* mesh if joined, fanout if fanOn, else {}
          backoff    \* peers under PRUNE backoff
vars == <<score, joined, fanOn, sel, backoff>>

Gsub == Peers \ FloodProto            \* mesh-capable peers
Min(a, b) == IF a < b THEN a ELSE b
SubsetsOfSize(S, n) == {X \in SUBSET S : Cardinality(X) = n}
UpTo(S, n) == IF Cardinality(S) <= n THEN {S} ELSE SubsetsOfSize(S, n)   \* getPeers(count = n)

---------------------------------------------------------------------------
(* comparison sites of the code; each can be broken by one Bug *)
BelowGraylist(s)  == IF Bug = "graylistLE" THEN s <= thr.graylist ELSE s < thr.graylist
IHaveIgnored(s)   == IF Bug = "ihaveLE" THEN s <= thr.gossip ELSE s < thr.gossip
IWantIgnored(s)   == IF Bug = "iwantLE" THEN s <= thr.gossip ELSE s < thr.gossip
GossipOK(s)       == IF Bug = "emitGT" THEN s > thr.gossip ELSE s >= thr.gossip
FloodPubOK(s)     == IF Bug = "floodPubGT" THEN s > thr.publish ELSE s >= thr.publish
FloodsubOK(s)     == IF Bug = "floodsubGT" THEN s > thr.publish ELSE s >= thr.publish
FanoutSelOK(s)    == IF Bug = "fanoutSelGT" THEN s > thr.publish ELSE s >= thr.publish
FanoutDrop(s)     == IF Bug = "fanoutKeepLE" THEN s <= thr.publish
                     ELSE IF Bug = "fanoutNoDrop" THEN FALSE ELSE s < thr.publish
FanoutFillOK(s)   == IF Bug = "fanoutFillGT" THEN s > thr.publish ELSE s >= thr.publish
GraftRefused(s)   == IF Bug = "graftLE0" THEN s <= 0 ELSE s < 0
HbNegative(s)     == IF Bug = "hbNoNegPrune" THEN FALSE ELSE s < 0
MeshCandOK(s)     == IF Bug = "fillNegative" THEN TRUE ELSE s >= 0
JoinCandOK(s)     == IF Bug = "joinNegative" THEN TRUE ELSE s >= 0
PXAccepted(s)     == IF Bug = "acceptPXinv" THEN s < thr.acceptPX
                     ELSE IF Bug = "acceptPXGT" THEN s > thr.acceptPX ELSE s >= thr.acceptPX
PXDialable(c)     == c \in PXGood \/ (Bug = "pxNoIdCheck" /\ c = "wrongid")
                                  \/ (Bug = "pxNoEnvelopeCheck" /\ c \in {"baddomain", "garbage"})
DirectExempt(p)   == p \in Direct /\ Bug # "noDirectExempt"
GaterVerdicts(p)  == IF Gater = "throttling"
                       THEN (IF Bug = "gaterNone" THEN {"all", "control", "none"} ELSE {"all", "control"})
                       ELSE {"all"}

\* would a PRUNE to p that keeps doPX carry a non-empty peer list? (makePrune: peers in the topic, score >= 0)
PXKind(p, keep) == IF DoPX /\ keep /\ p \notin FloodProto /\ \E x \in Gsub \ {p} : score[x] >= 0 THEN "px" ELSE "nopx"

---------------------------------------------------------------------------
(* results *)
Post(sc, j, f, s, b) == [score |-> sc, joined |-> j, fanOn |-> f, sel |-> s, backoff |-> b]
Same == Post(score, joined, fanOn, sel, backoff)
Blank == [post |-> Same, accept |-> "n/a", subRec |-> FALSE, validated |-> FALSE, recips |-> {},
          rIwant |-> FALSE, promise |-> FALSE, rMsg |-> FALSE, prunes |-> {}, grafted |-> {}, pruned |-> {},
          unwantedRec |-> FALSE, dials |-> {}, ihaveTo |-> {}, newFanout |-> {}]

Act(k, p, v, mix, pxl, opp) == [kind |-> k, p |-> p, v |-> v, mix |-> mix, pxl |-> pxl, opp |-> opp]
NoP == "-"

\* recipients of a forwarded (not locally published) or non-flood published message: rpcs() else-branch
RouteRecips(from, gmap) == ((Direct \cup {q \in FloodProto : FloodsubOK(score[q])} \cup gmap) \ {from})

\* which sets of PX entries get dialled
DialSets(pxl) ==
    LET idx == DOMAIN pxl
        chosen == IF Len(pxl) > PrunePeers THEN SubsetsOfSize(idx, PrunePeers) ELSE {idx}
    IN {{i \in c : PXDialable(pxl[i])} : c \in chosen}

RpcWith(p, mix, pxl, v) ==
    LET s      == score[p]
        ctlOn  == v # "none" \/ Bug = "ctlUnderNone"
        msgOn  == v = "all" /\ "msg" \in mix /\ joined
        ihaveOn == ctlOn /\ "ihave" \in mix /\ joined /\ ~IHaveIgnored(s)
        iwantOn == ctlOn /\ "iwant" \in mix /\ ~IWantIgnored(s)
        graftOn == ctlOn /\ "graft" \in mix /\ joined /\ p \notin sel
        gCase  == IF ~graftOn THEN "skip"
                  ELSE IF p \in Direct THEN "direct"
                  ELSE IF p \in backoff THEN "backoff"
                  ELSE IF Bug = "fullBeforeNegative" /\ Cardinality(sel) >= Dhi THEN "full"
                  ELSE IF GraftRefused(s) THEN "negative"
                  ELSE IF Cardinality(sel) >= Dhi THEN "full"      \* every peer is inbound: no outbound exemption
                  ELSE "accept"
        mesh1  == IF gCase = "accept" THEN sel \cup {p} ELSE sel
        bo1    == IF gCase \in {"backoff", "negative", "full"} THEN backoff \cup {p} ELSE backoff
        gPrune == IF gCase \in {"direct", "backoff"} THEN {[to |-> p, px |-> "nopx"]}
                  ELSE IF gCase = "negative"
                         THEN {[to |-> p, px |-> PXKind(p, Bug = "pxOnNegRefusal")]}
                  ELSE IF gCase = "full" THEN {[to |-> p, px |-> PXKind(p, TRUE)]}   \* the only refusal that keeps doPX
                  ELSE {}
        pruneOn == ctlOn /\ "prune" \in mix /\ joined
        mesh2  == IF pruneOn THEN mesh1 \ {p} ELSE mesh1
        bo2    == IF pruneOn THEN bo1 \cup {p} ELSE bo1
        dsets  == IF pruneOn /\ pxl # <<>> /\ PXAccepted(s) THEN DialSets(pxl) ELSE {{}}
    IN {[Blank EXCEPT
           !.post = Post(score, joined, fanOn, mesh2, bo2),
           !.accept = v,
           !.subRec = "sub" \in mix,
           !.validated = msgOn,
           !.recips = IF msgOn THEN RouteRecips(p, sel) ELSE {},
           !.rIwant = ihaveOn, !.promise = ihaveOn,
           !.rMsg = iwantOn,
           !.prunes = gPrune,
           !.grafted = IF gCase = "accept" THEN {p} ELSE {},
           !.pruned = IF pruneOn THEN {p} ELSE {},
           !.unwantedRec = ctlOn /\ "idontwant" \in mix,
           !.dials = d] : d \in dsets}

RpcOutcomes(p, mix, pxl) ==
    LET verdicts == IF DirectExempt(p) THEN {"all"}
                    ELSE IF BelowGraylist(score[p]) THEN {"none"}
                    ELSE IF p \in Direct /\ Bug = "noDirectExempt" THEN GaterVerdicts(p)
                    ELSE GaterVerdicts(p)
    IN UNION {RpcWith(p, mix, pxl, v) : v \in verdicts}

\* gossip emission for the (post-maintenance) member set `members`
GossipSets(members) ==
    LET elig == {q \in Gsub \ (members \cup Direct) : GossipOK(score[q])}
    IN UpTo(elig, Dlazy)       \* GossipFactor * 3 < Dlazy

HbOutcomes(opp) ==
    IF joined THEN
       LET neg   == {q \in sel : HbNegative(score[q])}
           m1    == sel \ neg
           bo1   == backoff \cup neg
           cand  == {q \in Gsub \ (m1 \cup bo1 \cup Direct) : MeshCandOK(score[q])}
           fills == IF Cardinality(m1) < Dlo THEN UpTo(cand, D - Cardinality(m1)) ELSE {{}}
           \* over-subscription: keep D peers, among them a best-scoring one (Dscore >= 1); the rest are pruned WITH PX
           Keeps(m) == IF Cardinality(m) >= Dhi
                         THEN {K \in SubsetsOfSize(m, D) : Dscore = 0 \/ \E b \in K : \A q \in m : score[b] >= score[q]}
                         ELSE {m}
       IN UNION { UNION {
            LET m2 == K
                over == (m1 \cup f) \ K
                \* opportunistic graft: median of the mesh below the threshold, candidates above the median
                med == IF m2 = {} THEN 0
                       ELSE CHOOSE x \in {score[q] : q \in m2} :
                              /\ Cardinality({q \in m2 : score[q] < x}) <= Cardinality(m2) \div 2
                              /\ Cardinality({q \in m2 : score[q] <= x}) > Cardinality(m2) \div 2
                ocand == {q \in Gsub \ (m2 \cup bo1 \cup over \cup Direct) : score[q] > med}
                osets == IF opp /\ Cardinality(m2) > 1 /\ med < thr.oppGraft THEN UpTo(ocand, OppPeers) ELSE {{}}
            IN UNION {
                 LET m3 == m2 \cup og IN
                 {[Blank EXCEPT
                     !.post = Post(score, joined, fanOn, m3, bo1 \cup over),
                     !.grafted = f \cup og,
                     !.pruned = neg \cup over,
                     !.prunes = {[to |-> q, px |-> PXKind(q, Bug = "hbNoPXunset")] : q \in neg}
                                \cup {[to |-> q, px |-> PXKind(q, TRUE)] : q \in over},
                     !.ihaveTo = g] : g \in GossipSets(m3)}
                 : og \in osets}
            : K \in Keeps(m1 \cup f)}
            : f \in fills}
    ELSE IF fanOn THEN
       LET keep == {q \in sel : ~FanoutDrop(score[q])}
           cand == {q \in Gsub \ (keep \cup Direct) : FanoutFillOK(score[q])}
           fills == IF Cardinality(keep) < D THEN UpTo(cand, D - Cardinality(keep)) ELSE {{}}
       IN UNION {
            {[Blank EXCEPT
                !.post = Post(score, joined, fanOn, keep \cup f, backoff),
                !.ihaveTo = g] : g \in GossipSets(keep \cup f)}
            : f \in fills}
    ELSE {Blank}

PublishOutcomes ==
    IF FloodPublish THEN
       {[Blank EXCEPT !.validated = TRUE,
                      !.recips = {q \in Peers : q \in Direct \/ FloodPubOK(score[q])}
                                 \* (the flood branch of rpcs() does not look at the mesh at all)
                                 \cup (IF Bug = "floodPubMesh" /\ joined THEN sel ELSE {})]}
    ELSE IF joined THEN
       {[Blank EXCEPT !.validated = TRUE, !.recips = RouteRecips(NoP, sel)]}
    ELSE
       LET fresh == sel = {}
           cand  == {q \in Gsub \ Direct : FanoutSelOK(score[q])}
           fsets == IF fresh THEN UpTo(cand, D) ELSE {sel}
       IN {[Blank EXCEPT
              !.post = Post(score, joined, IF f # {} THEN TRUE ELSE fanOn, f, backoff),
              !.validated = TRUE,
              !.newFanout = IF fresh THEN f ELSE {},
              !.recips = RouteRecips(NoP, f)] : f \in fsets}

JoinOutcomes ==
    IF joined THEN {Blank}
    ELSE LET base == IF fanOn THEN {q \in sel : ~(score[q] < 0 /\ Bug # "joinNegative") /\ q \notin backoff} ELSE {}
             cand == {q \in Gsub \ (base \cup Direct \cup backoff) : JoinCandOK(score[q])}
             adds == IF Cardinality(base) < D THEN UpTo(cand, D - Cardinality(base)) ELSE {{}}
         IN {[Blank EXCEPT !.post = Post(score, TRUE, FALSE, base \cup f, backoff),
                           !.grafted = base \cup f] : f \in adds}

LeaveOutcomes ==
    IF ~joined THEN {Blank}
    ELSE {[Blank EXCEPT !.post = Post(score, FALSE, FALSE, {}, backoff \cup sel), !.pruned = sel,
                        !.prunes = {[to |-> q, px |-> "leave"] : q \in sel}]}

Outcomes(a) ==
    CASE a.kind = "score"     -> {[Blank EXCEPT !.post = Post([score EXCEPT ![a.p] = a.v], joined, fanOn, sel, backoff)]}
      [] a.kind = "rpc"       -> RpcOutcomes(a.p, a.mix, a.pxl)
      [] a.kind = "hb"        -> HbOutcomes(a.opp)
      [] a.kind = "publish"   -> PublishOutcomes
      [] a.kind = "join"      -> JoinOutcomes
      [] a.kind = "leave"     -> LeaveOutcomes
      [] a.kind = "expire"    -> {[Blank EXCEPT !.post = Post(score, joined, fanOn, sel, {})]}
      [] a.kind = "fanexpire" -> {[Blank EXCEPT !.post = Post(score, joined, FALSE, IF joined THEN sel ELSE {}, backoff)]}

RpcActions == {Act("rpc", p, 0, mix, pxl, FALSE) :
                 p \in Peers, mix \in Mixes, pxl \in PXLists}
\* peer-exchange lists are explored with the bare PRUNE and with the full mix (their handling depends on nothing else)
RpcActs == {a \in RpcActions : a.pxl = <<>> \/ (MixMode # "move" /\ (a.mix = {"prune"} \/ a.mix = Kinds))}
Actions == {Act("score", p, v, {}, <<>>, FALSE) : p \in ScoreFree, v \in ScoreVals}
           \cup RpcActs
           \cup {Act("hb", NoP, 0, {}, <<>>, o) : o \in BOOLEAN}
           \cup {Act(k, NoP, 0, {}, <<>>, FALSE) : k \in {"publish", "join", "leave", "expire", "fanexpire"}}

Init == /\ score = [p \in Peers |-> 0]
        /\ joined = FALSE /\ fanOn = FALSE /\ sel = {} /\ backoff = {}

Apply(o) == /\ score' = o.post.score /\ joined' = o.post.joined /\ fanOn' = o.post.fanOn
            /\ sel' = o.post.sel /\ backoff' = o.post.backoff

Next == \E a \in Actions : \E o \in Outcomes(a) : Apply(o)
Spec == Init /\ [][Next]_vars

TypeOK == /\ score \in [Peers -> ScoreVals] /\ joined \in BOOLEAN /\ fanOn \in BOOLEAN
          /\ sel \subseteq Peers /\ backoff \subseteq Peers
          /\ (~joined /\ ~fanOn) => sel = {}
          /\ ~(joined /\ fanOn)

---------------------------------------------------------------------------
(* The properties: predicates over the pre-state (the variables), the action a
   and one result o.  They use the thresholds exactly as the statement does;
   the equality cases are covered because every predicate has both directions
   ("below => suppressed" and "not below => takes effect"): a score EQUAL to a
   threshold is not below it.                                                *)
IsRpc(a)     == a.kind = "rpc"
S(a)         == score[a.p]
Graylisted(a) == IsRpc(a) /\ a.p \notin Direct /\ S(a) < thr.graylist
Accepted(a)  == IsRpc(a) /\ ~Graylisted(a)

\* the control part of an accepted RPC has its full effect (score-specific parts are in the other predicates)
ControlEffect(a, o) ==
    /\ ("sub" \in a.mix => o.subRec)
    /\ ("prune" \in a.mix /\ joined => a.p \in o.pruned /\ a.p \notin o.post.sel /\ a.p \in o.post.backoff)
    /\ ("idontwant" \in a.mix => o.unwantedRec)
    /\ ("graft" \in a.mix /\ joined /\ a.p \notin sel /\ "prune" \notin a.mix
          => a.p \in o.grafted \/ \E pr \in o.prunes : pr.to = a.p)

P_C09_Graylist(a, o) ==
    /\ Graylisted(a) =>
         /\ ~o.validated /\ o.recips = {}
         /\ ~o.rIwant /\ ~o.promise /\ ~o.rMsg /\ o.prunes = {} /\ o.grafted = {} /\ o.pruned = {}
         /\ ~o.unwantedRec /\ o.dials = {}
         /\ o.post.sel = sel /\ o.post.backoff = backoff
    \* equality side: a non-direct peer AT the graylist threshold (or above) is not ignored
    /\ (Accepted(a) /\ a.p \notin Direct) =>
         /\ o.accept # "none"
         /\ ControlEffect(a, o)
         /\ (o.accept = "all" /\ "msg" \in a.mix /\ joined => o.validated)

P_C09_Gossip(a, o) ==
    /\ (IsRpc(a) /\ a.p \notin Direct /\ S(a) < thr.gossip) => ~o.rIwant /\ ~o.promise /\ ~o.rMsg
    /\ \A q \in o.ihaveTo : q \in Direct \/ score[q] >= thr.gossip
    /\ (Accepted(a) /\ S(a) >= thr.gossip) =>
         /\ ("ihave" \in a.mix /\ joined => o.rIwant /\ o.promise)
         /\ ("iwant" \in a.mix => o.rMsg)
    /\ (a.kind = "hb" /\ (joined \/ fanOn)) =>
         LET elig == {q \in Gsub \ (o.post.sel \cup Direct) : score[q] >= thr.gossip}
         IN Cardinality(elig) <= Dlazy => elig \subseteq o.ihaveTo

P_C09_Publish(a, o) ==
    \* a peer below the publish threshold gets a copy only as a mesh member or a fanout peer chosen earlier -
    \* and not even then when the node flood-publishes its OWN message: flood publishing chooses by score alone
    /\ \A q \in o.recips : q \in Direct \/ score[q] >= thr.publish
                             \/ (q \in sel /\ ~(a.kind = "publish" /\ FloodPublish))
    /\ \A q \in o.newFanout : score[q] >= thr.publish /\ q \notin Direct
    /\ (a.kind = "hb" /\ ~joined) => \A q \in o.post.sel : score[q] >= thr.publish
    \* equality side
    /\ (a.kind = "publish" /\ FloodPublish) =>
         {q \in Peers : q \in Direct \/ score[q] >= thr.publish} \subseteq o.recips
    /\ (a.kind = "publish" /\ ~FloodPublish) =>
         /\ {q \in FloodProto : score[q] >= thr.publish} \subseteq o.recips
         /\ (~joined /\ sel = {} /\ Cardinality({q \in Gsub \ Direct : score[q] >= thr.publish}) <= D)
               => o.newFanout = {q \in Gsub \ Direct : score[q] >= thr.publish}
    /\ (IsRpc(a) /\ o.validated) => {q \in FloodProto \ {a.p} : score[q] >= thr.publish} \subseteq o.recips
    /\ (a.kind = "hb" /\ ~joined /\ fanOn) =>
         LET want == {q \in sel : score[q] >= thr.publish} \cup {q \in Gsub \ Direct : score[q] >= thr.publish}
         IN Cardinality(want) <= D => o.post.sel = want

P_C09_Negative(a, o) ==
    /\ \A q \in o.grafted : score[q] >= 0
    /\ \A q \in o.post.sel \ sel : o.post.joined => score[q] >= 0
    \* whatever else would refuse the GRAFT (mesh full, backoff, direct sender): no PX for a negative score
    /\ (IsRpc(a) /\ S(a) < 0) => \A pr \in o.prunes : pr.to = a.p => pr.px = "nopx"
    /\ (Accepted(a) /\ a.p \notin Direct /\ S(a) < 0 /\ "graft" \in a.mix /\ joined /\ a.p \notin sel) =>
         /\ a.p \notin o.post.sel
         /\ \E pr \in o.prunes : pr.to = a.p
    /\ (a.kind = "hb" /\ joined) =>
         \A q \in sel : score[q] < 0 =>
            /\ q \in o.pruned /\ q \notin o.post.sel
            /\ [to |-> q, px |-> "nopx"] \in o.prunes /\ [to |-> q, px |-> "px"] \notin o.prunes
    \* equality side: a score of exactly zero is not negative
    /\ (Accepted(a) /\ a.p \notin Direct /\ S(a) >= 0 /\ "graft" \in a.mix /\ joined /\ a.p \notin sel
          /\ a.p \notin backoff /\ "prune" \notin a.mix /\ Cardinality(sel) < Dhi) => a.p \in o.grafted /\ a.p \in o.post.sel

P_C09_PX(a, o) ==
    /\ o.dials # {} => /\ IsRpc(a) /\ "prune" \in a.mix /\ joined /\ Accepted(a)
                       /\ S(a) >= thr.acceptPX
                       /\ \A i \in o.dials : a.pxl[i] \in PXGood
                       /\ Cardinality(o.dials) <= PrunePeers
    /\ (Accepted(a) /\ "prune" \in a.mix /\ joined /\ S(a) >= thr.acceptPX /\ Len(a.pxl) <= PrunePeers) =>
         {i \in DOMAIN a.pxl : a.pxl[i] \in PXGood} \subseteq o.dials

P_C09_DirectAlwaysAccepted(a, o) ==
    (IsRpc(a) /\ a.p \in Direct) =>
        /\ o.accept = "all"
        /\ ControlEffect(a, o)
        /\ ("msg" \in a.mix /\ joined => o.validated)

P_C09_GaterControlOnly(a, o) ==
    (Accepted(a) /\ a.p \notin Direct) =>
        /\ o.accept \in {"all", "control"}
        /\ ControlEffect(a, o)

ForAll(P(_, _)) == \A a \in Actions : \A o \in Outcomes(a) : P(a, o)
Inv_Graylist == ForAll(P_C09_Graylist)
Inv_Gossip   == ForAll(P_C09_Gossip)
Inv_Publish  == ForAll(P_C09_Publish)
Inv_Negative == ForAll(P_C09_Negative)
Inv_PX       == ForAll(P_C09_PX)
Inv_Direct   == ForAll(P_C09_DirectAlwaysAccepted)
Inv_Gater    == ForAll(P_C09_GaterControlOnly)
Inv_All      == \A a \in Actions : \A o \in Outcomes(a) :
                   /\ P_C09_Graylist(a, o) /\ P_C09_Gossip(a, o) /\ P_C09_Publish(a, o) /\ P_C09_Negative(a, o)
                   /\ P_C09_PX(a, o) /\ P_C09_DirectAlwaysAccepted(a, o) /\ P_C09_GaterControlOnly(a, o)
=============================================================================
