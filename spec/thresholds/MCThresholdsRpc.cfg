\* rpc: every RPC mix (all 127 subsets) and PX list from p1 at every score; gater throttling (superset of quiet/off)
SPECIFICATION Spec
CONSTANTS
  p1 = p1
  p2 = p2
  p3 = p3
  Peers = {p1, p2, p3}
  Direct = {}
  FloodProto = {}
  NegGossip = 1
  NegPublish = 2
  NegGraylist = 3
  AcceptPX = 2
  OppGraft = 1
  FloodPublish = FALSE
  DoPX = TRUE
  Gater = "throttling"
  MixMode = "all"
  ScoreFree = {p1}
  Bug = "none"
INVARIANT TypeOK
INVARIANT Inv_All
CHECK_DEADLOCK FALSE
