\* small degrees (D=2, Dlo=1, Dhi=2, Dscore=1): the mesh fills up, so the mesh-full refusal of handleGraft (the only one that keeps PX) and the over-subscription prune are reachable
SPECIFICATION Spec
CONSTANTS
  p1 = p1
  p2 = p2
  p3 = p3
  Peers = {p1, p2, p3}
  Direct = {}
  FloodProto = {}
  NegGossip = 1
  NegPublish = 2
  NegGraylist = 3
  AcceptPX = 2
  OppGraft = 1
  FloodPublish = FALSE
  DoPX = TRUE
  Gater = "throttling"
  MixMode = "move"
  ScoreFree = {p1, p2, p3}
  D = 2
  Dlo = 1
  Dhi = 2
  Dscore = 1
  Bug = "none"
INVARIANT TypeOK
INVARIANT Inv_All
CHECK_DEADLOCK FALSE
