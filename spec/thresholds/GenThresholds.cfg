\* example: all families for the three threshold sets; bin/lib/props/c09.py writes the configuration per tier
SPECIFICATION GSpec
CONSTANTS
  Peers = {"p1", "p2", "p3"}
  Direct = {}
  FloodProto = {}
  NegGossip = 1
  NegPublish = 2
  NegGraylist = 3
  AcceptPX = 2
  OppGraft = 1
  FloodPublish = FALSE
  DoPX = TRUE
  Gater = "off"
  MixMode = "basic"
  ScoreFree = {"p1", "p2", "p3"}
  D = 4
  Dlo = 2
  Dhi = 5
  Dscore = 2
  Bug = "none"
  Families = {"rpc1", "mix", "px", "gater", "meshA", "meshB", "fanA", "fanB", "joinfan", "graftfull", "graftbo", "floodmesh", "floodplain"}
  ThrSets <- StdThrSets
  AllVec <- NoAllVec
INVARIANT Emit
CHECK_DEADLOCK FALSE
