-------------------------- MODULE ThresholdsTrace --------------------------
(* Trace specification for C09 over the common step-line format of the world
   interpreter (one line per stimulus: act, tracer events ev, frames out, dials
   conn, post-snapshot st; the first line of a scenario has act.a = "reset" and
   act.cfg = parameters and thresholds).

   The replays are deterministic, so the file is read in ONE pass: for every
   line the property predicates are evaluated on (previous snapshot, stimulus,
   events, new snapshot) and the names of the failing clauses are printed as
       <<"VIOL", json>>.
   The score of a peer at the instant of a step is prev.st.scores[p]: scores
   change only through "score" actions (application score; behaviour penalty
   weight 0; decay interval 24 h) and peer (dis)connection.  A peer is direct
   iff it is in prev.st.direct.  Monitors: `known` = message names that ever
   appeared in a stimulus (an IHAVE id outside it cannot have been seen).

   Every predicate has both directions, so that score == threshold ("not
   below") is checked to TAKE effect, with preconditions read off the previous
   snapshot (counters, cache contents, backoff, queue presence) - never from the
   bookkeeping the clause is about.  Free choices of the code (which peers are
   shuffled to the front, the gater's random early drop, which IHAVE ids are
   asked for) are never constrained: positive clauses on selections only fire
   when the candidate set fits entirely.

   `cov` collects coverage tags (which side of which threshold was exercised by
   a step that could tell the difference); it is printed with the last line. *)
EXTENDS Integers, Sequences, FiniteSets, TLC, Json

Trace == ndJsonDeserialize("trace.ndjson")

VARIABLES l,       \* cursor
          cfg,     \* act.cfg of the current scenario
          known,   \* message names used so far in this scenario: [pub: by publish actions, msg: by fake peers' messages]
          cov      \* coverage tags
tvars == <<l, cfg, known, cov>>

Get(r, key, d) == IF key \in DOMAIN r THEN r[key] ELSE d
SetOf(s) == {s[i] : i \in DOMAIN s}
Min(a, b) == IF a < b THEN a ELSE b

L    == Trace[l]
Pre  == Trace[l - 1].st
Post == L.st
Act  == L.act
Ev   == L.ev
thr  == cfg.thr

MeshProtos == {"/meshsub/1.0.0", "/meshsub/1.1.0", "/meshsub/1.2.0", "/meshsub/1.3.0"}
PXProtos   == {"/meshsub/1.1.0", "/meshsub/1.2.0", "/meshsub/1.3.0"}

\* ---- snapshot views
PeersIn(m, t)   == IF t \in DOMAIN m THEN SetOf(m[t]) ELSE {}
MeshOf(st, t)   == PeersIn(st.mesh, t)
FanoutOf(st, t) == PeersIn(st.fanout, t)
TopicPeers(st, t) == PeersIn(st.topics, t)
Joined(st, t)   == t \in DOMAIN st.mesh
MeshProto(st, q) == q \in DOMAIN st.gsPeers /\ st.gsPeers[q] \in MeshProtos
Score(q)     == IF q \in DOMAIN Pre.scores THEN Pre.scores[q] ELSE 0
IsDirect(q)  == q \in SetOf(Pre.direct)
HasQ(q)      == q \in DOMAIN Pre.peers /\ q \in DOMAIN Post.peers
Cnt(m, q)    == IF q \in DOMAIN m THEN m[q] ELSE 0
NoBackoff(t, q) == ~(t \in DOMAIN Pre.backoff /\ q \in DOMAIN Pre.backoff[t])
Unwanted(st, q) == IF q \in DOMAIN st.unwanted THEN DOMAIN st.unwanted[q] ELSE {}
Promised(st, q) == {m \in DOMAIN st.promises : q \in DOMAIN st.promises[m]}
Tx(m, q)     == IF m \in DOMAIN Pre.peertx /\ q \in DOMAIN Pre.peertx[m] THEN Pre.peertx[m][q] ELSE 0
View(st, q)  == [mesh |-> {t \in DOMAIN st.mesh : q \in SetOf(st.mesh[t])},
                 backoff |-> {<<t, st.backoff[t][q]>> : t \in {u \in DOMAIN st.backoff : q \in DOMAIN st.backoff[u]}},
                 unwanted |-> Unwanted(st, q), promises |-> Promised(st, q),
                 peerhave |-> Cnt(st.peerhave, q), iasked |-> Cnt(st.iasked, q), peerdontwant |-> Cnt(st.peerdontwant, q)]
WeServe(t)   == t \in DOMAIN Pre.subs \/ t \in DOMAIN Pre.relays
GossipIds(t) == \E i \in 1..Min(cfg.G, Len(Pre.mcache)) : \E j \in DOMAIN Pre.mcache[i] : Pre.mcache[i][j].topic = t

\* the score of q did not change in this step and is known
Affected(q)  == (Act.a \in {"score", "peer", "down", "blacklist"} /\ Get(Act, "p", "") = q) \/ q \notin DOMAIN Pre.scores

\* ---- the stimulus, normalised to the parts of one RPC
IsStim == Act.a \in {"sub", "graft", "prune", "ihave", "iwant", "idontwant", "msg", "rpc"}
SP     == Act.p
Subs   == CASE Act.a = "sub" -> {[t |-> Act.t, v |-> Act.v]}
            [] Act.a = "rpc" -> SetOf(Act.subs)
            [] OTHER -> {}
\* payload: read off the Recv event (re-using a message name re-sends the ORIGINAL bytes, whose topic may differ from act.t)
Msgs   == IF ~IsStim THEN {}
          ELSE {[m |-> x.m, t |-> x.topic, plain |-> x.signed] :
                  x \in UNION {SetOf(Ev[i].rpc.msgs) : i \in {j \in DOMAIN Ev : Ev[j].k = "Recv" /\ Ev[j].p = Act.p}}}
MsgNames == CASE Act.a = "msg" -> {Act.m}
              [] Act.a = "rpc" -> {x.m : x \in SetOf(Act.msgs)}
              [] OTHER -> {}
PubNames == IF Act.a = "publish" THEN {Act.m} ELSE {}
\* a name used both for a message of a fake peer and for one the node published denotes two different ids
\* (the random walks do that): nothing is demanded about such a name
Ambiguous(m) == m \in (known.pub \cup PubNames) \cap (known.msg \cup MsgNames)
Fresh(m) == m \notin known.pub /\ m \notin known.msg
Grafts == CASE Act.a = "graft" -> {Act.t}
            [] Act.a = "rpc" -> SetOf(Act.graft)
            [] OTHER -> {}
NativePx == LET px == Get(Act, "px", <<>>) IN [i \in DOMAIN px |-> [x |-> px[i], rec |-> "none"]]
Prunes == CASE Act.a = "prune" -> {[t |-> Act.t, px |-> NativePx]}
            [] Act.a = "rpc" -> {[t |-> x.t, px |-> x.px] : x \in SetOf(Act.prune)}
            [] OTHER -> {}
IHaves == CASE Act.a = "ihave" -> {[t |-> Act.t, ids |-> Act.ids]}
            [] Act.a = "rpc" -> {[t |-> x.t, ids |-> x.ids] : x \in SetOf(Act.ihave)}
            [] OTHER -> {}
IWants == CASE Act.a = "iwant" -> SetOf(Act.ids)
            [] Act.a = "rpc" -> SetOf(Act.iwant)
            [] OTHER -> {}
IDWs   == CASE Act.a = "idontwant" -> SetOf(Act.ids)
            [] Act.a = "rpc" -> SetOf(Act.idontwant)
            [] OTHER -> {}

\* ---- events
EvIdx == DOMAIN Ev
IsMsgEv(e) == e.k \in {"Validate", "Deliver", "Duplicate", "Reject", "Undeliverable"}
Sent(e)    == e.k \in {"Send", "Drop"}
SentTo(q)  == {i \in EvIdx : Sent(Ev[i]) /\ Ev[i].p = q}
RecvSeen(q) == \E i \in EvIdx : Ev[i].k = "Recv" /\ Ev[i].p = q
Throttled(q) == \E i \in EvIdx : Ev[i].k = "Throttle" /\ Ev[i].p = q
TrEv(kind, q, t) == \E i \in EvIdx : Ev[i].k = kind /\ Ev[i].p = q /\ Ev[i].topic = t
GotMsg(q, m) == \E i \in SentTo(q) : \E j \in DOMAIN Ev[i].rpc.msgs : Ev[i].rpc.msgs[j].m = m
GotPrune(q, t) == \E i \in SentTo(q) : \E j \in DOMAIN Ev[i].rpc.prune : Ev[i].rpc.prune[j].topic = t
GotIHave(q, t) == \E i \in SentTo(q) : \E j \in DOMAIN Ev[i].rpc.ihave : Ev[i].rpc.ihave[j].topic = t
SelfDelivered(m) == \E i \in EvIdx : Ev[i].k = "Deliver" /\ Ev[i].m = m /\ Ev[i].self
OutFrames(q) == Get(L.out, q, <<>>)

Applies == /\ l > 1 /\ Act.a # "reset"
           /\ cfg.router = "gossipsub" /\ cfg.score
           /\ ~Pre.dead /\ ~Post.dead /\ Pre.scoresExact

\* ---- facts about the stimulus
S      == Score(SP)
Dir    == IsDirect(SP)
Gl     == ~Dir /\ S < thr.graylist                 \* graylisted
StimOK == IsStim /\ L.hb = 0 /\ SP \in DOMAIN Pre.scores /\ SP \notin SetOf(Pre.blacklisted)
Acc    == StimOK /\ ~Gl /\ RecvSeen(SP)            \* the RPC arrived and must be processed
HbOnly == Act.a \in {"hb", "adv", "elapse"} /\ L.hb >= 1
OneHb  == Act.a = "hb" /\ L.hb = 1

Bad(pred, clause, who) == {[pred |-> pred, clause |-> clause, who |-> who]}
Chk(ok, pred, clause, who) == IF ok THEN {} ELSE Bad(pred, clause, who)

\* label of a failed "is processed" clause: with the gater on, not processing control is the gater's fault
GaterCtx == Throttled(SP) \/ Get(cfg, "gater", FALSE)
ProcPred == IF Dir THEN "P_C09_DirectAlwaysAccepted"
            ELSE IF GaterCtx THEN "P_C09_GaterControlOnly"
            ELSE "P_C09_Graylist"

---------------------------------------------------------------------------
(* P_C09_Graylist: below the graylist threshold everything but subscriptions is ignored *)
V_Graylist ==
    IF ~(StimOK /\ Gl) THEN {} ELSE
      Chk(\A i \in EvIdx : IsMsgEv(Ev[i]) => Ev[i].via # SP, "P_C09_Graylist", "message-processed", SP)
      \cup Chk(\A i \in EvIdx : Ev[i].k \in {"Graft", "Prune"} => Ev[i].p # SP, "P_C09_Graylist", "graft-prune-traced", SP)
      \cup Chk(SentTo(SP) = {} /\ OutFrames(SP) = <<>>, "P_C09_Graylist", "reply-sent", SP)
      \cup Chk(View(Pre, SP) = View(Post, SP), "P_C09_Graylist", "router-state-changed", SP)
      \cup Chk(L.conn = <<>>, "P_C09_Graylist", "px-dial", SP)

(* an accepted RPC (direct, or at/above the graylist threshold, gater or not) is processed *)
V_Processed ==
    IF ~Acc THEN {} ELSE
      Chk(\A s \in Subs : (s.v => SP \in TopicPeers(Post, s.t)) /\ (~s.v => SP \notin TopicPeers(Post, s.t)),
          ProcPred, "subscription-not-recorded", SP)
      \cup Chk(\A pr \in Prunes : Joined(Pre, pr.t) =>
                  /\ TrEv("Prune", SP, pr.t) /\ SP \notin MeshOf(Post, pr.t)
                  /\ pr.t \in DOMAIN Post.backoff /\ SP \in DOMAIN Post.backoff[pr.t],
               ProcPred, "prune-not-handled", SP)
      \cup Chk((IDWs # {} /\ Cnt(Pre.peerdontwant, SP) < cfg.maxIDWMsgs) =>
                  /\ Cnt(Post.peerdontwant, SP) = Cnt(Pre.peerdontwant, SP) + 1
                  /\ Unwanted(Post, SP) # {},
               ProcPred, "idontwant-not-handled", SP)
      \cup Chk(\A t \in Grafts : (Joined(Pre, t) /\ SP \notin MeshOf(Pre, t) /\ HasQ(SP) /\ ~\E pr \in Prunes : pr.t = t) =>
                  \/ SP \in MeshOf(Post, t) /\ TrEv("Graft", SP, t)
                  \/ GotPrune(SP, t),
               ProcPred, "graft-not-handled", SP)
      \* payload: only when the verdict was not "control" and the validator is not parked by the driver
      \cup Chk((~Throttled(SP) /\ ~Get(L, "vblocked", FALSE)) =>
                  \A m \in Msgs : (m.plain /\ WeServe(m.t)) =>
                     \E i \in EvIdx : Ev[i].k \in {"Validate", "Duplicate", "Reject"} /\ Ev[i].m = m.m /\ Ev[i].via = SP,
               IF Dir THEN "P_C09_DirectAlwaysAccepted" ELSE "P_C09_Graylist", "message-not-processed", SP)
      \* a direct peer is never handed to the gater
      \cup Chk(Dir => ~Throttled(SP), "P_C09_DirectAlwaysAccepted", "direct-peer-throttled", SP)

(* P_C09_Gossip *)
AllIHaveIds == UNION {SetOf(ih.ids) : ih \in IHaves}
IHaveCanAsk == /\ HasQ(SP) /\ Cnt(Pre.peerhave, SP) < cfg.maxIHaveMsgs /\ Cnt(Pre.iasked, SP) < cfg.maxIHaveLen
               /\ \E ih \in IHaves : Joined(Pre, ih.t) /\ \E i \in 1..Min(Len(ih.ids), cfg.maxIHaveLen) : Fresh(ih.ids[i])
IWantServable == {m \in IWants : ~Ambiguous(m) /\ m \in SetOf(Pre.cacheMsgs) /\ m \notin Unwanted(Pre, SP) /\ Tx(m, SP) < cfg.retx}
V_GossipStim ==
    IF ~StimOK THEN {} ELSE
      (IF ~Dir /\ S < thr.gossip /\ IHaves # {} THEN
          Chk(\A i \in SentTo(SP) : Ev[i].rpc.iwant = <<>>, "P_C09_Gossip", "ihave-answered-below-threshold", SP)
          \cup Chk(Promised(Post, SP) \subseteq Promised(Pre, SP), "P_C09_Gossip", "promise-below-threshold", SP)
       ELSE {})
      \cup (IF ~Dir /\ S < thr.gossip /\ IWants # {} THEN
               Chk(\A i \in SentTo(SP) : Ev[i].rpc.msgs = <<>>, "P_C09_Gossip", "iwant-answered-below-threshold", SP)
            ELSE {})
      \cup (IF Acc /\ S >= thr.gossip /\ IHaves # {} /\ IHaveCanAsk THEN
               Chk(/\ \E i \in SentTo(SP) : \E j \in DOMAIN Ev[i].rpc.iwant :
                         Ev[i].rpc.iwant[j] # <<>> /\ SetOf(Ev[i].rpc.iwant[j]) \subseteq AllIHaveIds
                   /\ \E m \in Promised(Post, SP) : m \in AllIHaveIds,
                   IF Dir THEN "P_C09_DirectAlwaysAccepted" ELSE IF GaterCtx THEN "P_C09_GaterControlOnly" ELSE "P_C09_Gossip",
                   "ihave-ignored-at-or-above-threshold", SP)
            ELSE {})
      \cup (IF Acc /\ S >= thr.gossip /\ HasQ(SP) /\ IWantServable # {} THEN
               Chk(\A m \in IWantServable : GotMsg(SP, m),
                   IF Dir THEN "P_C09_DirectAlwaysAccepted" ELSE IF GaterCtx THEN "P_C09_GaterControlOnly" ELSE "P_C09_Gossip",
                   "iwant-ignored-at-or-above-threshold", SP)
            ELSE {})

GossipTopics == (DOMAIN Pre.mesh \cap DOMAIN Post.mesh) \cup (DOMAIN Pre.fanout \cap DOMAIN Post.fanout)
GossipCands(t) == {q \in TopicPeers(Pre, t) \ (MeshOf(Post, t) \cup FanoutOf(Post, t)) :
                      ~IsDirect(q) /\ MeshProto(Pre, q) /\ Score(q) >= thr.gossip}
V_GossipEmit ==
    \* no IHAVE to a peer below the gossip threshold, in any step
    UNION {Chk(\/ Ev[i].rpc.ihave = <<>> \/ Affected(Ev[i].p) \/ IsDirect(Ev[i].p) \/ Score(Ev[i].p) >= thr.gossip,
               "P_C09_Gossip", "ihave-sent-below-threshold", Ev[i].p) : i \in {j \in EvIdx : Sent(Ev[j])}}
    \cup UNION {Chk(\A k \in DOMAIN L.out[q] : \/ L.out[q][k].ihave = <<>> \/ Affected(q) \/ IsDirect(q) \/ Score(q) >= thr.gossip,
                    "P_C09_Gossip", "ihave-frame-below-threshold", q) : q \in DOMAIN L.out}
    \* every eligible peer is gossiped to when all of them fit
    \cup (IF ~OneHb THEN {} ELSE
            UNION {IF GossipIds(t) /\ Cardinality(GossipCands(t)) <= cfg.Dlazy
                     THEN UNION {Chk(HasQ(q) => GotIHave(q, t), "P_C09_Gossip", "no-ihave-at-or-above-threshold", q) : q \in GossipCands(t)}
                     ELSE {} : t \in GossipTopics})

(* P_C09_Publish *)
\* the node's own publication under flood publishing: recipients are chosen by score alone (direct peers aside)
FloodOwn(m) == cfg.flood /\ Act.a = "publish" /\ m = Act.m
\* mesh / earlier fanout membership justifies a copy below the publish threshold - but not for FloodOwn messages
MemberOK(q, x) == ~FloodOwn(x.m) /\ q \in MeshOf(Pre, x.topic) \cup FanoutOf(Pre, x.topic)
V_Publish ==
    \* a copy to a peer below the publish threshold is justified only by mesh / earlier fanout membership (or an IWANT);
    \* read from the SendRPC / DropRPC traces ...
    UNION {LET q == Ev[i].p IN
           Chk(\/ Affected(q) \/ IsDirect(q) \/ Score(q) >= thr.publish
               \/ (IsStim /\ SP = q /\ IWants # {})
               \/ \A j \in DOMAIN Ev[i].rpc.msgs : MemberOK(q, Ev[i].rpc.msgs[j]),
               "P_C09_Publish",
               IF \E j \in DOMAIN Ev[i].rpc.msgs : FloodOwn(Ev[i].rpc.msgs[j].m)
                 THEN "flood-published-below-threshold" ELSE "copy-sent-below-threshold", q)
           : i \in {j \in EvIdx : Sent(Ev[j]) /\ Ev[j].rpc.msgs # <<>>}}
    \* ... and from the frames the fake peers received on the wire
    \cup UNION {Chk(\/ Affected(q) \/ IsDirect(q) \/ Score(q) >= thr.publish
                    \/ (IsStim /\ SP = q /\ IWants # {})
                    \/ \A k \in DOMAIN L.out[q] : \A j \in DOMAIN L.out[q][k].msgs : MemberOK(q, L.out[q][k].msgs[j]),
                    "P_C09_Publish", "copy-on-the-wire-below-threshold", q) : q \in DOMAIN L.out}
    \cup UNION {UNION {Chk(Affected(q) \/ (Score(q) >= thr.publish /\ ~IsDirect(q)),
                           "P_C09_Publish", "fanout-selected-below-threshold", q) : q \in FanoutOf(Post, t) \ FanoutOf(Pre, t)}
                : t \in DOMAIN Post.fanout}
    \cup (IF ~HbOnly THEN {} ELSE
            UNION {UNION {Chk(Score(q) >= thr.publish, "P_C09_Publish", "in-fanout-after-heartbeat", q) : q \in FanoutOf(Post, t)}
                   : t \in DOMAIN Post.fanout})
    \* equality side
    \cup (IF ~(Act.a = "publish" /\ ~Get(Act, "localOnly", FALSE) /\ SelfDelivered(Act.m)) THEN {} ELSE
            LET t == Act.t
                fcand == {q \in TopicPeers(Pre, t) : MeshProto(Pre, q) /\ ~IsDirect(q) /\ Score(q) >= thr.publish} IN
            (IF cfg.flood
               THEN UNION {Chk(((IsDirect(q) \/ Score(q) >= thr.publish) /\ HasQ(q)) => GotMsg(q, Act.m),
                               "P_C09_Publish", "flood-publish-skipped-at-or-above-threshold", q) : q \in TopicPeers(Pre, t)}
               ELSE UNION {Chk((~MeshProto(Pre, q) /\ Score(q) >= thr.publish /\ HasQ(q)) => GotMsg(q, Act.m),
                               "P_C09_Publish", "floodsub-peer-skipped-at-or-above-threshold", q) : q \in TopicPeers(Pre, t)}
                    \cup (IF ~Joined(Pre, t) /\ FanoutOf(Pre, t) = {} /\ Cardinality(fcand) <= cfg.D
                            THEN Chk(FanoutOf(Post, t) = fcand, "P_C09_Publish", "fanout-selection-wrong", t)
                            ELSE {})))
    \cup (IF ~(StimOK /\ Msgs # {}) THEN {} ELSE
            UNION {IF \E i \in EvIdx : Ev[i].k = "Deliver" /\ Ev[i].m = m.m /\ Ev[i].via = SP
                     THEN LET from == (CHOOSE i \in EvIdx : Ev[i].k = "Deliver" /\ Ev[i].m = m.m /\ Ev[i].via = SP) IN
                          UNION {Chk((~MeshProto(Pre, q) /\ Score(q) >= thr.publish /\ HasQ(q)) => GotMsg(q, m.m),
                                     "P_C09_Publish", "floodsub-peer-not-forwarded-at-or-above-threshold", q)
                                 : q \in TopicPeers(Pre, m.t) \ {SP, Ev[from].from}}
                     ELSE {} : m \in Msgs})
    \cup (IF ~OneHb THEN {} ELSE
            UNION {LET keep == {q \in FanoutOf(Pre, t) : q \in TopicPeers(Pre, t) /\ Score(q) >= thr.publish}
                       add  == {q \in TopicPeers(Pre, t) \ FanoutOf(Pre, t) : MeshProto(Pre, q) /\ ~IsDirect(q) /\ Score(q) >= thr.publish} IN
                   IF Cardinality(keep \cup add) <= cfg.D
                     THEN Chk(FanoutOf(Post, t) = keep \cup add, "P_C09_Publish", "fanout-maintenance-wrong", t)
                     ELSE {} : t \in DOMAIN Pre.fanout \cap DOMAIN Post.fanout})

(* P_C09_Negative *)
NegTopics == DOMAIN Pre.mesh \cap DOMAIN Post.mesh
V_Negative ==
    \* never grafted with a negative score (GRAFT accepted, Join, heartbeat)
    UNION {UNION {Chk(Affected(q) \/ IsDirect(q) \/ Score(q) >= 0, "P_C09_Negative", "negative-peer-in-mesh", q)
                  : q \in MeshOf(Post, t) \ MeshOf(Pre, t)} : t \in DOMAIN Post.mesh}
    \cup UNION {Chk(Affected(Ev[i].p) \/ IsDirect(Ev[i].p) \/ Score(Ev[i].p) >= 0, "P_C09_Negative", "negative-peer-grafted", Ev[i].p)
                : i \in {j \in EvIdx : Ev[j].k = "Graft"}}
    \* GRAFT refused with a PRUNE
    \cup (IF ~(Acc /\ ~Dir /\ S < 0) THEN {} ELSE
            UNION {IF Joined(Pre, t) /\ SP \notin MeshOf(Pre, t)
                     THEN Chk(SP \notin MeshOf(Post, t) /\ (HasQ(SP) => GotPrune(SP, t)), "P_C09_Negative", "graft-not-refused-with-prune", SP)
                     ELSE {} : t \in Grafts})
    \* ... that carries no peer exchange; same for the heartbeat's PRUNE
    \cup (IF ~(Act.a \in {"graft", "rpc", "hb"}) THEN {} ELSE
            UNION {LET q == Ev[i].p IN
                   Chk(\/ Affected(q) \/ IsDirect(q) \/ Score(q) >= 0
                       \/ \A j \in DOMAIN Ev[i].rpc.prune : Ev[i].rpc.prune[j].px = <<>>,
                       "P_C09_Negative", "px-in-prune-to-negative-peer", q) : i \in {j \in EvIdx : Sent(Ev[j])}})
    \* whatever else would refuse the GRAFT (mesh at Dhi with an inbound sender, backoff, direct sender):
    \* the answer to a sender with a negative score never carries PX
    \cup (IF ~(Acc /\ S < 0 /\ Grafts # {}) THEN {} ELSE
            Chk(\A i \in SentTo(SP) : \A j \in DOMAIN Ev[i].rpc.prune : Ev[i].rpc.prune[j].px = <<>>,
                "P_C09_Negative", "px-in-refusal-to-negative-sender", SP))
    \* pruned at the next heartbeat
    \cup (IF ~HbOnly THEN {} ELSE
            UNION {UNION {IF Score(q) < 0 /\ ~IsDirect(q) /\ ~Affected(q)
                            THEN Chk(/\ q \notin MeshOf(Post, t) /\ TrEv("Prune", q, t)
                                     /\ (HasQ(q) => GotPrune(q, t)),
                                     "P_C09_Negative", "negative-peer-not-pruned-at-heartbeat", q)
                            ELSE {} : q \in MeshOf(Pre, t)} : t \in NegTopics})
    \* equality side: zero is not negative
    \cup (IF ~(Acc /\ ~Dir /\ S >= 0) THEN {} ELSE
            UNION {IF /\ Joined(Pre, t) /\ SP \notin MeshOf(Pre, t) /\ NoBackoff(t, SP) /\ ~\E pr \in Prunes : pr.t = t
                      /\ Cardinality(MeshOf(Pre, t)) < cfg.Dhi
                     THEN Chk(SP \in MeshOf(Post, t) /\ TrEv("Graft", SP, t),
                              IF GaterCtx THEN "P_C09_GaterControlOnly" ELSE "P_C09_Negative", "graft-refused-at-or-above-zero", SP)
                     ELSE {} : t \in Grafts})

(* P_C09_PX *)
PXGood == {"none", "valid"}
LivePrunes == {pr \in Prunes : Joined(Pre, pr.t)}
HostConnPrev == IF "hostconn" \in DOMAIN Trace[l - 1] THEN SetOf(Trace[l - 1].hostconn) ELSE {}
V_PX ==
    UNION {Chk(/\ Acc /\ S >= thr.acceptPX
               /\ \E pr \in LivePrunes : \E i \in DOMAIN pr.px :
                     pr.px[i].x = L.conn[k] /\ pr.px[i].rec \in PXGood /\ L.conn[k] \notin DOMAIN Pre.gsPeers,
               "P_C09_PX", "unjustified-dial", L.conn[k]) : k \in DOMAIN L.conn}
    \cup Chk(Len(L.conn) <= cfg.prunePeers * Cardinality(LivePrunes) \/ ~IsStim, "P_C09_PX", "too-many-dials", "")
    \cup (IF ~(Acc /\ S >= thr.acceptPX /\ "hostconn" \in DOMAIN Trace[l - 1]) THEN {} ELSE
            UNION {IF Len(pr.px) <= cfg.prunePeers
                     THEN UNION {Chk((pr.px[i].rec \in PXGood /\ pr.px[i].x \notin DOMAIN Pre.gsPeers /\ pr.px[i].x \notin HostConnPrev)
                                       => pr.px[i].x \in SetOf(L.conn),
                                     IF Dir THEN "P_C09_DirectAlwaysAccepted" ELSE IF GaterCtx THEN "P_C09_GaterControlOnly" ELSE "P_C09_PX",
                                     "px-not-followed-at-or-above-threshold", pr.px[i].x) : i \in DOMAIN pr.px}
                     ELSE {} : pr \in LivePrunes})

Viol == IF ~Applies THEN {}
        ELSE V_Graylist \cup V_Processed \cup V_GossipStim \cup V_GossipEmit \cup V_Publish \cup V_Negative \cup V_PX

---------------------------------------------------------------------------
(* coverage tags *)
Rel(s, t) == IF s < t - 1 THEN "lt" ELSE IF s = t - 1 THEN "m1" ELSE IF s = t THEN "eq"
             ELSE IF s = t + 1 THEN "p1" ELSE "gt"
Tag(a, b) == {a \o "/" \o b}
\* a stimulus part whose handling is observable
Checkable == \/ \E pr \in Prunes : Joined(Pre, pr.t)
             \/ IDWs # {} /\ Cnt(Pre.peerdontwant, SP) < cfg.maxIDWMsgs
             \/ \E m \in Msgs : m.plain /\ WeServe(m.t)
             \/ \E t \in Grafts : Joined(Pre, t) /\ SP \notin MeshOf(Pre, t) /\ HasQ(SP)
PXAvail(q, t) == /\ cfg.px /\ q \in DOMAIN Pre.gsPeers /\ Pre.gsPeers[q] \in PXProtos
                 /\ \E x \in TopicPeers(Pre, t) \ {q} : MeshProto(Pre, x) /\ Score(x) >= 0
CovStim ==
    IF ~(StimOK /\ RecvSeen(SP)) THEN {} ELSE
      (IF Checkable /\ ~Dir THEN Tag("graylist", Rel(S, thr.graylist)) ELSE {})
      \cup (IF Checkable /\ Dir /\ S < thr.graylist THEN {"direct/below-graylist"} ELSE {})
      \cup (IF Checkable /\ Dir THEN {"direct/any"} ELSE {})
      \cup (IF ~Gl /\ IHaves # {} /\ IHaveCanAsk /\ ~Dir THEN Tag("gossip-ihave", Rel(S, thr.gossip)) ELSE {})
      \cup (IF ~Gl /\ HasQ(SP) /\ IWantServable # {} /\ ~Dir THEN Tag("gossip-iwant", Rel(S, thr.gossip)) ELSE {})
      \cup (IF ~Gl /\ ~Dir /\ S < thr.gossip /\ ((IHaves # {} /\ IHaveCanAsk) \/ IWantServable # {}) /\ Checkable
              THEN {"combined/below-gossip-above-graylist"} ELSE {})
      \cup (IF ~Gl /\ ~Dir /\ \E t \in Grafts : Joined(Pre, t) /\ SP \notin MeshOf(Pre, t) /\ NoBackoff(t, SP) /\ HasQ(SP)
              THEN Tag("neg-graft", Rel(S, 0))
                   \cup (IF \E t \in Grafts : Joined(Pre, t) /\ PXAvail(SP, t) THEN Tag("neg-graft-pxavail", Rel(S, 0)) ELSE {})
              ELSE {})
      \* a negative sender whose GRAFT meets ANOTHER refusal reason while PX has something to list
      \cup (IF ~Gl /\ S < 0 /\ HasQ(SP) THEN
               UNION {IF ~(Joined(Pre, t) /\ SP \notin MeshOf(Pre, t) /\ PXAvail(SP, t)) THEN {}
                      ELSE (IF Dir THEN {"neg-graft-direct-pxavail"} ELSE {})
                           \cup (IF ~Dir /\ ~NoBackoff(t, SP) /\ Pre.backoff[t][SP] > L.t THEN {"neg-graft-backoff-pxavail"} ELSE {})
                           \cup (IF ~Dir /\ NoBackoff(t, SP) /\ Cardinality(MeshOf(Pre, t)) >= cfg.Dhi
                                    /\ ~(SP \in DOMAIN Pre.outbound /\ Pre.outbound[SP])
                                   THEN {"neg-graft-meshfull-pxavail"} ELSE {})
                      : t \in Grafts}
            ELSE {})
      \cup (IF ~Gl THEN UNION {UNION {Tag("px", Rel(S, thr.acceptPX) \o "/" \o pr.px[i].rec) : i \in DOMAIN pr.px} : pr \in LivePrunes} ELSE {})
      \cup (IF ~Gl /\ \E pr \in LivePrunes : Len(pr.px) > cfg.prunePeers THEN {"px/over-limit"} ELSE {})
      \cup (IF ~Gl /\ L.conn # <<>> THEN {"px/dialled"} ELSE {})
      \cup (IF Gl /\ \E pr \in LivePrunes : pr.px # <<>> THEN {"px/graylisted"} ELSE {})
      \cup (IF ~Gl /\ ~Dir /\ Throttled(SP) /\ Checkable /\ (Prunes # {} \/ Grafts # {} \/ IDWs # {} \/ IHaves # {} \/ IWants # {})
              THEN {"gater/throttled-with-control"} ELSE {})
      \cup (IF ~Gl /\ ~Dir /\ Throttled(SP) THEN Tag("gater-throttled", Rel(S, thr.graylist)) ELSE {})
      \cup (IF Dir /\ Get(cfg, "gater", FALSE) /\ Get(L, "vblocked", FALSE) /\ Msgs # {} THEN {"direct/gater-overloaded"} ELSE {})
      \cup (IF Gl /\ Subs # {} THEN {"graylist/subscription-seen"} ELSE {})
CovHb ==
    IF ~OneHb THEN {} ELSE
      UNION {UNION {Tag("neg-hb", Rel(Score(q), 0)) \cup (IF PXAvail(q, t) THEN Tag("neg-hb-pxavail", Rel(Score(q), 0)) ELSE {})
                    : q \in {x \in MeshOf(Pre, t) : ~IsDirect(x)}} : t \in NegTopics}
      \cup UNION {IF GossipIds(t)
                    THEN UNION {Tag("gossip-emit", Rel(Score(q), thr.gossip))
                                : q \in {x \in TopicPeers(Pre, t) \ (MeshOf(Post, t) \cup FanoutOf(Post, t)) :
                                            ~IsDirect(x) /\ MeshProto(Pre, x) /\ HasQ(x) /\ Cardinality(GossipCands(t) \cup {x}) <= cfg.Dlazy}}
                    ELSE {} : t \in GossipTopics}
      \cup UNION {UNION {Tag("publish-fanout-hb", Rel(Score(q), thr.publish)) : q \in FanoutOf(Pre, t)}
                  \cup UNION {Tag("publish-fanout-fill", Rel(Score(q), thr.publish))
                              : q \in {x \in TopicPeers(Pre, t) \ FanoutOf(Pre, t) : MeshProto(Pre, x) /\ ~IsDirect(x)}}
                  : t \in DOMAIN Pre.fanout \cap DOMAIN Post.fanout}
\* recipient classes and score bands of a publication
Band(s) == IF s >= 0 THEN "nonneg" ELSE IF s >= thr.publish THEN "below0"
           ELSE IF s >= thr.graylist THEN "belowpub" ELSE "belowgray"
Class(q, t) == IF IsDirect(q) THEN "direct" ELSE IF ~MeshProto(Pre, q) THEN "floodsub"
               ELSE IF q \in MeshOf(Pre, t) THEN "mesh" ELSE IF q \in FanoutOf(Pre, t) THEN "fanout" ELSE "plain"
Audience(t) == {x \in TopicPeers(Pre, t) \cup MeshOf(Pre, t) : HasQ(x) /\ ~Affected(x)}
CovFwd ==
    IF ~(StimOK /\ cfg.flood) THEN {} ELSE
      UNION {IF \E i \in EvIdx : Ev[i].k = "Deliver" /\ Ev[i].m = m.m /\ Ev[i].via = SP
               THEN UNION {{"forward-under-flood/" \o Class(q, m.t) \o "/" \o Band(Score(q))} : q \in Audience(m.t) \ {SP}}
               ELSE {} : m \in Msgs}
CovPub ==
    IF ~(Act.a = "publish" /\ SelfDelivered(Act.m)) THEN {} ELSE
      LET t == Act.t IN
      (IF cfg.flood THEN UNION {Tag("publish-flood", Rel(Score(q), thr.publish)) : q \in {x \in TopicPeers(Pre, t) : ~IsDirect(x) /\ HasQ(x)}}
                         \* "own publication under flood publish while a mesh member scored below the publish threshold" = flood-own/mesh/belowpub
                         \cup UNION {{"flood-own/" \o Class(q, t) \o "/" \o Band(Score(q))} : q \in Audience(t)}
       ELSE UNION {Tag("publish-floodsub", Rel(Score(q), thr.publish)) : q \in {x \in TopicPeers(Pre, t) : ~MeshProto(Pre, x) /\ HasQ(x)}}
            \cup (IF ~Joined(Pre, t) /\ FanoutOf(Pre, t) = {}
                    THEN UNION {Tag("publish-fanout-sel", Rel(Score(q), thr.publish)) : q \in {x \in TopicPeers(Pre, t) : MeshProto(Pre, x) /\ ~IsDirect(x)}}
                    ELSE {})
            \cup UNION {IF Score(q) < thr.publish /\ Score(q) >= thr.graylist THEN {"combined/below-publish-above-graylist"} ELSE {}
                        : q \in TopicPeers(Pre, t)})
CovJoin ==
    IF Act.a \notin {"subscribe", "relay"} THEN {} ELSE
      UNION {IF ~Joined(Pre, t)
               THEN UNION {Tag("neg-join", Rel(Score(q), 0)) : q \in {x \in TopicPeers(Pre, t) : MeshProto(Pre, x) /\ ~IsDirect(x) /\ NoBackoff(t, x)}}
               ELSE {} : t \in DOMAIN Post.mesh}
CovOf == IF ~Applies THEN {} ELSE CovStim \cup CovHb \cup CovPub \cup CovFwd \cup CovJoin

---------------------------------------------------------------------------
TInit == TLCSet(1, 0) /\ l = 1 /\ cfg = [router |-> "none"] /\ known = [pub |-> {}, msg |-> {}] /\ cov = {}

TNext ==
    /\ l <= Len(Trace)
    /\ LET v == Viol
           c == cov \cup CovOf IN
       /\ (v # {} => PrintT(<<"VIOL", ToJson([scn |-> L.scn, i |-> L.i, line |-> l, a |-> Act.a, v |-> v])>>))
       /\ cov' = c
       /\ (l = Len(Trace) => PrintT(<<"COV", ToJson(c)>>))
    /\ cfg' = IF Act.a = "reset" THEN Act.cfg ELSE cfg
    /\ known' = IF Act.a = "reset" THEN [pub |-> {}, msg |-> {}]
                ELSE [pub |-> known.pub \cup PubNames, msg |-> known.msg \cup MsgNames]
    /\ l' = l + 1

TraceSpec == TInit /\ [][TNext]_tvars
\* high-water mark of the cursor (needs -workers 1); the file was read completely iff it reaches Len(Trace) + 1
HW == IF TLCGet(1) < l THEN TLCSet(1, l) ELSE TRUE
Accepted == PrintT(<<"HW", TLCGet(1), Len(Trace) + 1>>)
=============================================================================
