\* global: all score vectors over the 3-point neighbourhoods of thresholds (-1,-2,-3,2,1); RPCs only move peers in/out of mesh and backoff
SPECIFICATION Spec
CONSTANTS
  p1 = p1
  p2 = p2
  p3 = p3
  Peers = {p1, p2, p3}
  Direct = {}
  FloodProto = {}
  NegGossip = 1
  NegPublish = 2
  NegGraylist = 3
  AcceptPX = 2
  OppGraft = 1
  FloodPublish = FALSE
  DoPX = TRUE
  Gater = "throttling"
  MixMode = "move"
  ScoreFree = {p1, p2, p3}
  D = 4
  Dlo = 2
  Dhi = 5
  Dscore = 2
  Bug = "none"
INVARIANT TypeOK
INVARIANT Inv_All
CHECK_DEADLOCK FALSE
