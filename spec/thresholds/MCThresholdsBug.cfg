\* must fail (non-vacuity): graylist comparison <= instead of <
SPECIFICATION Spec
CONSTANTS
  p1 = p1
  p2 = p2
  p3 = p3
  Peers = {p1, p2, p3}
  Direct = {}
  FloodProto = {}
  NegGossip = 1
  NegPublish = 2
  NegGraylist = 3
  AcceptPX = 2
  OppGraft = 1
  FloodPublish = FALSE
  DoPX = TRUE
  Gater = "throttling"
  MixMode = "all"
  ScoreFree = {p1}
  D = 4
  Dlo = 2
  Dhi = 5
  Dscore = 2
  Bug = "graylistLE"
INVARIANT TypeOK
INVARIANT Inv_Graylist
CHECK_DEADLOCK FALSE
