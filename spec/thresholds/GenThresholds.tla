--------------------------- MODULE GenThresholds ---------------------------
(* Scenario generator for C09.  A scenario is a "program": a sequence of slots,
   each slot a set of alternative inputs taken from the definitions of
   Thresholds (ScoreVals = the 3-point neighbourhoods of every threshold, Mixes,
   PXLists); TLC enumerates one choice per slot, i.e. every combination.  Only
   INPUTS are emitted (actions of the world interpreter / the c09 driver); what
   the real node does with them is judged by ThresholdsTrace.

   One run emits every family of the constant set Families in each of its
   variants (which peers are direct / speak floodsub, flood publishing, joined
   or not) for every threshold set of the constant ThrSets (tuples of
   <<-gossip, -publish, -graylist, acceptPX, oppGraft>>); the threshold and
   topology constants of Thresholds are not used here.

   Families:
     "rpc1"   score(p1,v); one single-kind RPC from p1; heartbeat
     "rpc2"   score(p1,v); two single-kind RPCs from p1; heartbeat
     "mix"    score(p1,v); one multi-kind RPC from p1 (c09 driver: action "rpc"); heartbeat
     "px"     score(p1,v); PRUNE from p1 with a peer-exchange list (c09 driver)
     "gater"  gater made to throttle; score(p1,v); RPCs with payload + control (c09 driver)
     "meshA"  join; scores; publish; hb; hb         (negative prune without PX, gossip targets)
     "meshB"  scores; join; publish; hb             (Join selection)
     "fanA"   publish; scores; publish; hb; publish (fanout maintenance: drop below publish)
     "fanB"   scores; publish; hb; publish          (fanout selection, flood publish)
     "joinfan" publish; scores; join; hb            (fanout promotion drops negative scores)
     "floodmesh" join; scores; publish; msg from p3; hb; publish   (flood publishing ON: the score of a MESH member
               (p1) and of p2 - mesh member / floodsub peer / direct peer by variant - drops between two
               heartbeats and the node publishes at once; the forwarded message is the contrast: it does go to the mesh)
     "floodplain" as floodmesh, but p2 PRUNEs first and is a plain topic peer outside the mesh
     "graftfull" small degrees (D=2,Dlo=1,Dhi=3,Dscore=1,Dout=0), five inbound peers: the node joins, p2..p5
               GRAFT until the mesh is at Dhi; score(p1,v); GRAFT from p1; hb  (negative score AND mesh full:
               the mesh-full refusal is the only one that keeps PX, so the order of the checks matters)
     "graftbo" PRUNE from p1 (backoff); score(p1,v); GRAFT from p1; hb         (negative score AND backoff)
               (negative score AND direct sender is family rpc1 in its direct variant)
   Preamble: p1..p3 connect (p1 subscribes late when Late, so that it is known in
   the topic but outside the mesh), direct peers are declared, the node joins
   when StartJoined.                                                         *)
EXTENDS Thresholds, Json

CONSTANTS Families,
          ThrSets,     \* threshold sets to generate for
          AllVec       \* the threshold sets for which all three scores vary (for the others p3 stays 0)

\* the threshold sets of DESIGN C09 (configuration files cannot spell tuples: use ThrSets <- StdThrSets)
SetA == <<1, 2, 3, 2, 1>>      \* (-1, -2, -3, 2, 1)
SetB == <<2, 4, 6, 2, 1>>      \* (-2, -4, -6, 2, 1)
SetZ == <<0, 0, 0, 0, 0>>      \* all zero
StdThrSets == {SetA, SetB, SetZ}
NoAllVec == {}
AZAllVec == {SetA, SetZ}

VARIABLES hist, pc, nn,
          ts,       \* threshold set of this scenario
          fam,      \* family of this scenario
          var       \* variant: [direct, fproto: sets of peers; fpub, joined, late: BOOLEAN]
gvars == <<hist, pc, nn, ts, fam, var>>
gthr == [gossip |-> 0 - ts[1], publish |-> 0 - ts[2], graylist |-> 0 - ts[3], acceptPX |-> ts[4], oppGraft |-> ts[5]]
GV == ScoreValsOf(gthr)
Family == fam
StartJoined == var.joined
Late == var.late

Variant(d, f, fp, j, l) == [direct |-> d, fproto |-> f, fpub |-> fp, joined |-> j, late |-> l]
Variants(f) ==
    CASE f = "rpc1"  -> {Variant({}, {}, FALSE, TRUE, TRUE), Variant({}, {}, FALSE, FALSE, FALSE), Variant({"p1"}, {}, FALSE, TRUE, TRUE)}
      [] f = "rpc2"  -> {Variant({}, {}, FALSE, TRUE, TRUE)}
      [] f = "mix"   -> {Variant({}, {}, FALSE, TRUE, TRUE), Variant({"p1"}, {}, FALSE, TRUE, TRUE)}
      [] f = "floodmesh" -> {Variant({}, {}, TRUE, FALSE, FALSE), Variant({}, {"p2"}, TRUE, FALSE, FALSE),
                            Variant({"p2"}, {}, TRUE, FALSE, FALSE)}
      [] f = "floodplain" -> {Variant({}, {}, TRUE, FALSE, FALSE)}
      [] f \in {"graftfull", "graftbo"} -> {Variant({}, {}, FALSE, TRUE, TRUE)}
      [] f = "px"    -> {Variant({}, {}, FALSE, TRUE, TRUE), Variant({}, {}, FALSE, FALSE, FALSE)}
      [] f = "gater" -> {Variant({}, {}, FALSE, TRUE, TRUE), Variant({"p1"}, {}, FALSE, TRUE, TRUE)}
      \* the floodsub / direct peer is p2 so that its score varies even when VecMode = "pairs"
      [] f \in {"meshA", "meshB", "joinfan"} -> {Variant({}, {}, FALSE, FALSE, FALSE), Variant({}, {"p2"}, FALSE, FALSE, FALSE)}
      [] f \in {"fanA", "fanB"} -> {Variant({}, {}, FALSE, FALSE, FALSE), Variant({}, {}, TRUE, FALSE, FALSE),
                                    Variant({}, {"p2"}, FALSE, FALSE, FALSE), Variant({"p2"}, {}, TRUE, FALSE, FALSE)}

Probe == "p1"
T == "T1"
PeerSeq == IF fam = "graftfull" THEN <<"p1", "p2", "p3", "p4", "p5">> ELSE <<"p1", "p2", "p3">>
Num(i) == ToString(i)

Proto(p) == IF p \in var.fproto THEN "flood" ELSE IF p = "p3" THEN "v12" ELSE "v11"
Preamble ==
    LET conn == [i \in DOMAIN PeerSeq |-> [a |-> "peer", p |-> PeerSeq[i], proto |-> Proto(PeerSeq[i]), dir |-> "in",
                                 subs |-> IF Late /\ PeerSeq[i] = Probe THEN <<>> ELSE <<T>>]]
        dirs == [i \in DOMAIN PeerSeq |-> [a |-> "direct", p |-> PeerSeq[i], on |-> TRUE]]
        dsel == SelectSeq(dirs, LAMBDA d : d.p \in var.direct)
        \* graftfull: a heartbeat first, so that everything up to the probe happens between two heartbeats
        join == IF StartJoined THEN (IF fam = "graftfull" THEN <<[a |-> "hb"]>> ELSE <<>>) \o <<[a |-> "subscribe", t |-> T]>> ELSE <<>>
        late == IF Late THEN <<[a |-> "sub", p |-> Probe, t |-> T, v |-> TRUE]>> ELSE <<>>
    IN conn \o dsel \o join \o late

\* ---- slots: sets of abstract inputs
In(kind, p, v, mix, pxl) == [kind |-> kind, p |-> p, v |-> v, mix |-> mix, pxl |-> pxl]
Plain(kind) == {In(kind, "-", 0, {}, <<>>)}
ScoreSlot(p, vals) == {In("score", p, v, {}, <<>>) : v \in vals}
Singles(p) == {In("rpc", p, 0, {kd}, <<>>) : kd \in Kinds}
Multi(p) == {In("rpc", p, 0, m, <<>>) : m \in {m \in Mixes : Cardinality(m) > 1}}
PXSlot(p) == {In("rpc", p, 0, {"prune"}, l) : l \in PXLists \ {<<>>}}
PXScores == Nbh(gthr.acceptPX) \cup {gthr.graylist - 1, gthr.graylist, 0}
GaterScores == Nbh(gthr.graylist) \cup {0}
GaterMixes == {{"msg", "graft"}, {"msg", "prune"}, {"msg", "ihave", "iwant", "idontwant", "sub"}, {"msg"}}
S3 == IF ts \in AllVec THEN GV ELSE {0}
Vec == <<ScoreSlot("p1", GV), ScoreSlot("p2", GV), ScoreSlot("p3", S3)>>

Prog ==
    CASE Family = "rpc1"    -> <<ScoreSlot(Probe, GV), Singles(Probe), Plain("hb")>>
      [] Family = "rpc2"    -> <<ScoreSlot(Probe, GV), Singles(Probe), Singles(Probe), Plain("hb")>>
      [] Family = "mix"     -> <<ScoreSlot(Probe, GV), Multi(Probe), Plain("hb")>>
      [] Family = "px"      -> <<ScoreSlot(Probe, PXScores), PXSlot(Probe)>>
      [] Family = "gater"   -> <<Plain("gaterprep"), ScoreSlot(Probe, GaterScores),
                                 {In("rpc", Probe, 0, m, <<>>) : m \in GaterMixes},
                                 {In("rpc", Probe, 0, m, <<>>) : m \in GaterMixes}, Plain("gaterrelease")>>
      [] Family = "graftfull" -> <<{In("rpc", "p2", 0, {"graft"}, <<>>)}, {In("rpc", "p3", 0, {"graft"}, <<>>)},
                                   {In("rpc", "p4", 0, {"graft"}, <<>>)}, {In("rpc", "p5", 0, {"graft"}, <<>>)},
                                   ScoreSlot(Probe, GV), {In("rpc", Probe, 0, {"graft"}, <<>>)}, Plain("hb")>>
      [] Family = "graftbo" -> <<{In("rpc", Probe, 0, {"prune"}, <<>>)}, ScoreSlot(Probe, GV),
                                 {In("rpc", Probe, 0, {"graft"}, <<>>)}, Plain("hb")>>
      [] Family = "floodmesh" -> <<Plain("join")>> \o Vec \o
                                 <<Plain("publish"), {In("rpc", "p3", 0, {"msg"}, <<>>)}, Plain("hb"), Plain("publish")>>
      [] Family = "floodplain" -> <<Plain("join"), {In("rpc", "p2", 0, {"prune"}, <<>>)}>> \o Vec \o
                                  <<Plain("publish"), {In("rpc", "p3", 0, {"msg"}, <<>>)}, Plain("hb"), Plain("publish")>>
      [] Family = "meshA"   -> <<Plain("join")>> \o Vec \o <<Plain("publish"), {In("rpc", "p2", 0, {"msg"}, <<>>)}, Plain("hb"), Plain("hb")>>
      [] Family = "meshB"   -> Vec \o <<Plain("join"), Plain("publish"), Plain("hb")>>
      [] Family = "fanA"    -> <<Plain("publish")>> \o Vec \o <<Plain("publish"), Plain("hb"), Plain("publish")>>
      [] Family = "fanB"    -> Vec \o <<Plain("publish"), Plain("hb"), Plain("publish")>>
      [] Family = "joinfan" -> <<Plain("publish")>> \o Vec \o <<Plain("join"), Plain("hb")>>

\* ---- translation into interpreter actions; n = number of names used so far
Native == Family \notin {"mix", "px", "gater"}
MsgName(n) == "m" \o Num(n)
IdName(n) == "x" \o Num(n)
HostName(n) == "h" \o Num(n)

\* one single-kind RPC as native world actions (iwant is preceded by a publish so that the id is cached)
NativeRpc(p, kd, n) ==
    CASE kd = "sub"       -> <<[a |-> "sub", p |-> p, t |-> "T2", v |-> TRUE]>>
      [] kd = "msg"       -> <<[a |-> "msg", p |-> p, t |-> T, m |-> MsgName(n)]>>
      [] kd = "ihave"     -> <<[a |-> "ihave", p |-> p, t |-> T, ids |-> <<IdName(n)>>]>>
      [] kd = "iwant"     -> <<[a |-> "publish", t |-> T, m |-> MsgName(n)], [a |-> "iwant", p |-> p, ids |-> <<MsgName(n)>>]>>
      [] kd = "graft"     -> <<[a |-> "graft", p |-> p, t |-> T]>>
      [] kd = "prune"     -> <<[a |-> "prune", p |-> p, t |-> T]>>
      [] kd = "idontwant" -> <<[a |-> "idontwant", p |-> p, ids |-> <<IdName(n)>>]>>

PXEntries(pxl, n) == [i \in DOMAIN pxl |->
                        [x |-> IF pxl[i] = "connected" THEN "p2" ELSE HostName(n + i), rec |-> IF pxl[i] = "connected" THEN "none" ELSE pxl[i]]]

\* a (possibly multi-kind) RPC for the c09 driver; every field always present
FullRpc(p, mix, pxl, n) ==
    LET pre == IF "iwant" \in mix THEN <<[a |-> "publish", t |-> T, m |-> MsgName(n)]>> ELSE <<>> IN
    pre \o <<[a |-> "rpc", p |-> p,
              subs |-> IF "sub" \in mix THEN <<[t |-> "T2", v |-> TRUE]>> ELSE <<>>,
              msgs |-> IF "msg" \in mix THEN <<[m |-> MsgName(n + 1), t |-> T]>> ELSE <<>>,
              graft |-> IF "graft" \in mix THEN <<T>> ELSE <<>>,
              prune |-> IF "prune" \in mix THEN <<[t |-> T, px |-> PXEntries(pxl, n)]>> ELSE <<>>,
              ihave |-> IF "ihave" \in mix THEN <<[t |-> T, ids |-> <<IdName(n)>>]>> ELSE <<>>,
              iwant |-> IF "iwant" \in mix THEN <<MsgName(n)>> ELSE <<>>,
              idontwant |-> IF "idontwant" \in mix THEN <<IdName(n + 1)>> ELSE <<>>]>>

Tr(i, n) ==
    CASE i.kind = "score"        -> <<[a |-> "score", p |-> i.p, v |-> i.v]>>
      [] i.kind = "hb"           -> <<[a |-> "hb"]>>
      [] i.kind = "publish"      -> <<[a |-> "publish", t |-> T, m |-> MsgName(n)]>>
      [] i.kind = "join"         -> <<[a |-> "subscribe", t |-> T]>>
      [] i.kind = "gaterprep"    -> <<[a |-> "gaterprep", p |-> Probe, t |-> T]>>
      [] i.kind = "gaterrelease" -> <<[a |-> "gaterrelease"]>>
      [] i.kind = "rpc"          -> IF Native THEN NativeRpc(i.p, CHOOSE kd \in i.mix : TRUE, n)
                                    ELSE FullRpc(i.p, i.mix, i.pxl, n)

GInit == Init /\ hist = <<>> /\ pc = 1 /\ nn = 0 /\ ts \in ThrSets /\ fam \in Families /\ var \in Variants(fam)
GNext == /\ pc <= Len(Prog)
         /\ \E i \in Prog[pc] :
              \* a score of 0 is the initial value: no action needed
              /\ hist' = IF i.kind = "score" /\ i.v = 0 THEN hist ELSE hist \o Tr(i, nn)
              /\ nn' = nn + 4
         /\ pc' = pc + 1
         /\ UNCHANGED <<vars, ts, fam, var>>
GSpec == GInit /\ [][GNext]_<<gvars, vars>>

BaseCfg == [score |-> TRUE, px |-> TRUE, flood |-> var.fpub, gater |-> fam = "gater", hosts |-> 12,
            thr |-> gthr]
Cfg == IF fam = "graftfull" THEN [D |-> 2, Dlo |-> 1, Dhi |-> 3, Dscore |-> 1, Dout |-> 0] @@ BaseCfg ELSE BaseCfg

Emit == pc = Len(Prog) + 1 =>
          PrintT(<<"SCN", ToJson([cfg |-> Cfg, fam |-> Family, native |-> Native, thrset |-> ts, acts |-> Preamble \o hist])>>)
=============================================================================
