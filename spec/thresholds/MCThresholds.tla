--------------------------- MODULE MCThresholds ---------------------------
(* Exhaustive model checking of Thresholds (configurations MCThresholds*.cfg;
   bin/lib/props/c09.py writes the same shape per threshold set and topology).
   Peers are model values; Perms (the permutations that respect Direct and
   FloodProto) can be given as SYMMETRY: 5x fewer states, but measured slower
   than plain BFS here, so the shipped configurations do not use it.        *)
EXTENDS Thresholds
Perms == {f \in Permutations(Peers) :
            \A p \in Peers : (p \in Direct <=> f[p] \in Direct) /\ (p \in FloodProto <=> f[p] \in FloodProto)}
=============================================================================
