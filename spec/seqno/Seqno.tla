------------------------------- MODULE Seqno -------------------------------
(* validation_builtin.go (BasicSeqnoValidator.validate) at the grain of its
   RW-lock and store accesses.  Property C20.

     v.mx.RLock()                                  rlock   (rblocked while a writer is announced)
     nonceBytes, err := v.meta.Get(ctx, p)         get1
     v.mx.RUnlock()                                runlock
     decode nonce, decode seqno                    decode
     if seqno <= nonce { return Ignore }           cmp1
     v.mx.Lock(); defer v.mx.Unlock()              wlock   (wqueued on rw.w, wwait for the readers to drain)
     nonceBytes, err = v.meta.Get(ctx, p)          get2
     if seqno <= nonce { return Ignore }           cmp2    (the re-check; RecheckUnderWriteLock)
     v.meta.Put(ctx, p, seqno)                     put
     (deferred) v.mx.Unlock(); return v            wunlock -> done

   One process per validation call; a call is (author, seqno).  Sequence
   numbers are small naturals ("ranks"); the largest element of Seqnos stands
   for 2^64-1 (only the order matters to the code).  nonce[a] = 0 stands for
   "no entry" as well as for a stored 0 (the code decodes both to 0).

   The lock comes in two flavours.  GoLock = FALSE is the textbook RW lock
   (readers set / one writer).  GoLock = TRUE is sync.RWMutex as implemented
   (and documented): Lock() first takes the writer mutex rw.w (FIFO queue wq),
   announces itself (from then on new RLock() calls park: "rblocked"), waits
   for the active readers to drain; Unlock() admits ALL parked readers and
   only then releases rw.w.  The behaviours with GoLock = TRUE are a subset of
   those with GoLock = FALSE as far as the store is concerned; the properties
   are checked for both, the scenario generator uses GoLock = TRUE so that
   every emitted schedule is feasible on the real mutex.

   Store errors are not modelled (assumption: Get/Put of the metadata store
   succeed).                                                               *)
EXTENDS Naturals, Sequences, FiniteSets, TLC

CONSTANTS Authors,                \* set of authors (naturals, so that call configurations can be ordered)
          NCalls,                 \* number of validation calls
          Seqnos,                 \* set of sequence-number ranks, contains 0
          InitNonces,             \* possible initial contents of the store, per author
          RecheckUnderWriteLock,  \* TRUE = the code; FALSE = re-check removed (must violate C20: non-vacuity)
          GoLock                  \* see above

VARIABLES call,      \* call[c] = [a |-> author, s |-> seqno]
          pc,        \* control point of each call
          loc,       \* loc[c] = the call's local variable `nonce` (last value read from the store)
          nonce,     \* the PeerMetadataStore
          readers,   \* calls holding the read lock
          writer,    \* call that holds rw.w and has announced itself (0 = none); exclusive once readers = {}
          wq,        \* calls parked on rw.w (GoLock only)
          ret,       \* ret[c] = verdict ("none" until decided)
          accepted,  \* MONITOR accepted[a] = sequence numbers in the order of put
          didput,    \* MONITOR calls that performed put
          dec        \* MONITOR dec[c] = at the call's latest Get, its seqno was <= the stored nonce

vars == <<call, pc, loc, nonce, readers, writer, wq, ret, accepted, didput, dec>>
Calls == 1..NCalls
Range(f) == {f[i] : i \in DOMAIN f}
MaxOf(S) == IF S = {} THEN 0 ELSE CHOOSE x \in S : \A y \in S : y <= x

PCs == {"idle", "rlock", "rblocked", "get1", "runlock", "decode", "cmp1", "wlock", "wqueued", "wwait",
        "get2", "cmp2", "put", "wunlock", "done"}

MinAuthor == CHOOSE a \in Authors : \A b \in Authors : a <= b
\* call configurations up to renaming of calls (ids are interchangeable) and of authors
Key(k) == k.a * 100 + k.s
CallConfigs == {f \in [Calls -> [a : Authors, s : Seqnos]] :
                  /\ \A c, d \in Calls : c < d => Key(f[c]) <= Key(f[d])
                  /\ f[1].a = MinAuthor}

InitWith(cs, n0) ==
    /\ call = cs
    /\ pc = [c \in Calls |-> "idle"]
    /\ loc = [c \in Calls |-> 0]
    /\ nonce = n0
    /\ readers = {} /\ writer = 0 /\ wq = <<>>
    /\ ret = [c \in Calls |-> "none"]
    /\ accepted = [a \in Authors |-> <<>>]
    /\ didput = {}
    /\ dec = [c \in Calls |-> FALSE]

Init == \E cs \in CallConfigs, n0 \in [Authors -> InitNonces] : InitWith(cs, n0)

Goto(c, l) == pc' = [pc EXCEPT ![c] = l]
A(c) == call[c].a
S(c) == call[c].s

--------------------------------------------------------------------------
Start(c) ==      \* a validation worker enters validate()
    /\ pc[c] = "idle" /\ Goto(c, "rlock")
    /\ UNCHANGED <<call, loc, nonce, readers, writer, wq, ret, accepted, didput, dec>>

RLock(c) ==      \* v.mx.RLock()
    /\ pc[c] = "rlock"
    /\ IF writer = 0
         THEN readers' = readers \cup {c} /\ Goto(c, "get1")
         ELSE GoLock /\ Goto(c, "rblocked") /\ UNCHANGED readers     \* parks until the writer unlocks
    /\ UNCHANGED <<call, loc, nonce, writer, wq, ret, accepted, didput, dec>>

Get1(c) ==       \* v.meta.Get under the read lock
    /\ pc[c] = "get1"
    /\ loc' = [loc EXCEPT ![c] = nonce[A(c)]]
    /\ dec' = [dec EXCEPT ![c] = S(c) <= nonce[A(c)]]
    /\ Goto(c, "runlock")
    /\ UNCHANGED <<call, nonce, readers, writer, wq, ret, accepted, didput>>

RUnlock(c) ==    \* v.mx.RUnlock()
    /\ pc[c] = "runlock"
    /\ readers' = readers \ {c} /\ Goto(c, "decode")
    /\ UNCHANGED <<call, loc, nonce, writer, wq, ret, accepted, didput, dec>>

Decode(c) ==     \* binary.BigEndian.Uint64 of nonce and seqno (8-byte encodings; other lengths: P_C20_Total)
    /\ pc[c] = "decode" /\ Goto(c, "cmp1")
    /\ UNCHANGED <<call, loc, nonce, readers, writer, wq, ret, accepted, didput, dec>>

Cmp1(c) ==       \* if seqno <= nonce { return ValidationIgnore }
    /\ pc[c] = "cmp1"
    /\ IF S(c) <= loc[c]
         THEN ret' = [ret EXCEPT ![c] = "ignore"] /\ Goto(c, "done")
         ELSE Goto(c, "wlock") /\ UNCHANGED ret
    /\ UNCHANGED <<call, loc, nonce, readers, writer, wq, accepted, didput, dec>>

WLock(c) ==      \* v.mx.Lock(): take rw.w and announce
    /\ pc[c] = "wlock"
    /\ IF GoLock
         THEN IF writer = 0
                THEN writer' = c /\ Goto(c, "wwait") /\ UNCHANGED wq
                ELSE wq' = Append(wq, c) /\ Goto(c, "wqueued") /\ UNCHANGED writer
         ELSE writer = 0 /\ readers = {} /\ writer' = c /\ Goto(c, "get2") /\ UNCHANGED wq
    /\ UNCHANGED <<call, loc, nonce, readers, ret, accepted, didput, dec>>

WDequeue(c) ==   \* a parked writer obtains rw.w (first come first served) and announces
    /\ pc[c] = "wqueued" /\ writer = 0 /\ wq # <<>> /\ Head(wq) = c
    /\ writer' = c /\ wq' = Tail(wq) /\ Goto(c, "wwait")
    /\ UNCHANGED <<call, loc, nonce, readers, ret, accepted, didput, dec>>

WWait(c) ==      \* the announced writer proceeds when the active readers have drained
    /\ pc[c] = "wwait" /\ writer = c /\ readers = {}
    /\ Goto(c, "get2")
    /\ UNCHANGED <<call, loc, nonce, readers, writer, wq, ret, accepted, didput, dec>>

Get2(c) ==       \* v.meta.Get under the write lock
    /\ pc[c] = "get2"
    /\ loc' = [loc EXCEPT ![c] = nonce[A(c)]]
    /\ dec' = [dec EXCEPT ![c] = S(c) <= nonce[A(c)]]
    /\ Goto(c, "cmp2")
    /\ UNCHANGED <<call, nonce, readers, writer, wq, ret, accepted, didput>>

Cmp2(c) ==       \* the re-check: if seqno <= nonce { return ValidationIgnore }
    /\ pc[c] = "cmp2"
    /\ IF RecheckUnderWriteLock /\ S(c) <= loc[c]
         THEN ret' = [ret EXCEPT ![c] = "ignore"] /\ Goto(c, "wunlock")
         ELSE Goto(c, "put") /\ UNCHANGED ret
    /\ UNCHANGED <<call, loc, nonce, readers, writer, wq, accepted, didput, dec>>

Put(c) ==        \* v.meta.Put(ctx, p, seqno); return ValidationAccept
    /\ pc[c] = "put"
    /\ nonce' = [nonce EXCEPT ![A(c)] = S(c)]
    /\ accepted' = [accepted EXCEPT ![A(c)] = Append(@, S(c))]
    /\ didput' = didput \cup {c}
    /\ ret' = [ret EXCEPT ![c] = "accept"]
    /\ Goto(c, "wunlock")
    /\ UNCHANGED <<call, loc, readers, writer, wq, dec>>

WUnlock(c) ==    \* deferred v.mx.Unlock(): admit every parked reader, then release rw.w
    /\ pc[c] = "wunlock" /\ writer = c
    /\ LET parked == {d \in Calls : pc[d] = "rblocked"} IN
         /\ readers' = readers \cup parked
         /\ pc' = [d \in Calls |-> IF d = c THEN "done" ELSE IF d \in parked THEN "get1" ELSE pc[d]]
    /\ writer' = 0
    /\ UNCHANGED <<call, loc, nonce, wq, ret, accepted, didput, dec>>

\* steps the harness can neither see nor control (everything except entering and the store accesses)
Hidden(c) == RLock(c) \/ RUnlock(c) \/ Decode(c) \/ Cmp1(c) \/ WLock(c) \/ WDequeue(c) \/ WWait(c) \/ Cmp2(c) \/ WUnlock(c)
Visible(c) == Start(c) \/ Get1(c) \/ Get2(c) \/ Put(c)

\* Hidden(c) is enabled (written out; MC checks it against ENABLED)
HiddenEnabled(c) ==
    \/ pc[c] \in {"runlock", "decode", "cmp1", "cmp2"}
    \/ pc[c] = "rlock" /\ (writer = 0 \/ GoLock)
    \/ pc[c] = "wlock" /\ (GoLock \/ (writer = 0 /\ readers = {}))
    \/ pc[c] = "wqueued" /\ writer = 0 /\ wq # <<>> /\ Head(wq) = c
    \/ pc[c] = "wwait" /\ writer = c /\ readers = {}
    \/ pc[c] = "wunlock" /\ writer = c
Quiescent == \A c \in Calls : ~HiddenEnabled(c)

Step(c) == Hidden(c) \/ Visible(c)
AllDone == \A c \in Calls : pc[c] = "done"
Next == (\E c \in Calls : Step(c)) \/ (AllDone /\ UNCHANGED vars)
Spec == Init /\ [][Next]_vars /\ \A c \in Calls : WF_vars(Step(c))

--------------------------------------------------------------------------
(* Invariants of the mechanism *)
TypeOK ==
    /\ pc \in [Calls -> PCs] /\ loc \in [Calls -> Seqnos \cup InitNonces]
    /\ nonce \in [Authors -> Seqnos \cup InitNonces]
    /\ readers \subseteq Calls /\ writer \in Calls \cup {0}
    /\ ret \in [Calls -> {"none", "accept", "ignore"}]
    /\ didput \subseteq Calls

LockOK ==
    /\ \A c \in Calls : pc[c] \in {"get1", "runlock"} <=> c \in readers
    /\ \A c \in Calls : pc[c] \in {"wwait", "get2", "cmp2", "put", "wunlock"} <=> writer = c
    /\ \A c \in Calls : pc[c] \in {"get2", "cmp2", "put", "wunlock"} => readers = {}
    /\ Range(wq) = {c \in Calls : pc[c] = "wqueued"}
    /\ ~GoLock => wq = <<>> /\ \A c \in Calls : pc[c] \notin {"rblocked", "wqueued", "wwait"}

HiddenEnabledOK == \A c \in Calls : HiddenEnabled(c) <=> ENABLED Hidden(c)

--------------------------------------------------------------------------
(* Property C20 *)
StrictlyIncreasing(s) == \A i, j \in DOMAIN s : i < j => s[i] < s[j]

P_C20_Increasing == \A a \in Authors : StrictlyIncreasing(accepted[a])

\* the stored nonce equals the highest accepted sequence number (or the initial content while nothing
\* was accepted) ...
P_C20_Nonce ==
    \A a \in Authors : accepted[a] # <<>> => nonce[a] = MaxOf(Range(accepted[a]))
\* ... and never decreases
P_C20_NonceMonotone == [][\A a \in Authors : nonce'[a] >= nonce[a]]_vars

\* Accept iff this call stored its number; a call whose number was not above the stored nonce at its
\* decisive (latest) Get is ignored; nothing else is ever returned
P_C20_Verdict ==
    \A c \in Calls : pc[c] = "done" =>
        /\ ret[c] \in {"accept", "ignore"}
        /\ ret[c] = "accept" <=> c \in didput
        /\ dec[c] => ret[c] = "ignore"

\* every call returns (the lock protocol cannot wedge)
P_C20_Returns == <>[]AllDone
=============================================================================
