SPECIFICATION NodeSpec
POSTCONDITION Done
CHECK_DEADLOCK FALSE
