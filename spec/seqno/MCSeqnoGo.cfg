SPECIFICATION Spec
CONSTANTS
  Authors = {1, 2}
  NCalls = 3
  Seqnos = {0, 1, 2, 3}
  InitNonces = {0, 1}
  RecheckUnderWriteLock = TRUE
  GoLock = TRUE
INVARIANTS TypeOK LockOK HiddenEnabledOK P_C20_Increasing P_C20_Nonce P_C20_Verdict
PROPERTIES P_C20_NonceMonotone P_C20_Returns
CHECK_DEADLOCK TRUE
