SPECIFICATION GenSpec
CONSTANTS
  Authors = {1, 2}
  NCalls = 3
  Seqnos = {0, 1, 2, 3}
  InitNonces = {0}
  RecheckUnderWriteLock = TRUE
  GoLock = TRUE
INVARIANT Emit
CHECK_DEADLOCK FALSE
