SPECIFICATION TraceSpec
CONSTANTS
  NCalls = 3
CONSTRAINT HW
INVARIANT ModelProps
POSTCONDITION Accepted
CHECK_DEADLOCK FALSE
