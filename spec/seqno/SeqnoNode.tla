------------------------------ MODULE SeqnoNode ------------------------------
(* C20 inside a node (composition with the seen cache): the validator is a
   default validator of the validation pipeline, which first drops messages
   whose id is in the seen cache (duplicates, never validated) and runs the
   validators only for the others.  The seen cache forgets (Expire); the nonce
   store does not.  A message is (author, seqno) -- the default message id.

   Outcome of a message entering the node:
     "dup"        id in the seen cache: dropped before validation
     "ignored"    validated, seqno <= nonce[author]: not delivered, not forwarded, nobody penalised
     "delivered"  validated, accepted: delivered to the subscription and forwarded, nonce updated

   Burst(a, s1, s2): two different messages of one author entering at the same
   instant through two validation workers; either may reach the store first.

   The module doubles as scenario generator (hist, Emit).                   *)
EXTENDS Naturals, Sequences, FiniteSets, TLC, Json

CONSTANTS Authors, Seqnos, L, Bursts

VARIABLES nonce, seen, dcount, hist
vars == <<nonce, seen, dcount, hist>>

Msgs == Authors \X Seqnos
Init == /\ nonce = [a \in Authors |-> 0] /\ seen = {}
        /\ dcount = [m \in Msgs |-> 0] /\ hist = <<>>

Outcome(a, s, sn, nn) == IF <<a, s>> \in sn THEN "dup" ELSE IF s <= nn[a] THEN "ignored" ELSE "delivered"

\* effect of one message on (seen, nonce, dcount)
Seen1(a, s, sn) == sn \cup {<<a, s>>}
Nonce1(a, s, sn, nn) == IF Outcome(a, s, sn, nn) = "delivered" THEN [nn EXCEPT ![a] = s] ELSE nn
DC1(a, s, sn, nn, dc) == IF Outcome(a, s, sn, nn) = "delivered" THEN [dc EXCEPT ![<<a, s>>] = @ + 1] ELSE dc

Inject(f, a, s) ==
    /\ hist' = Append(hist, [op |-> "inj", f |-> f, a |-> a, s |-> s, s2 |-> 0, exp |-> Outcome(a, s, seen, nonce)])
    /\ seen' = Seen1(a, s, seen) /\ nonce' = Nonce1(a, s, seen, nonce) /\ dcount' = DC1(a, s, seen, nonce, dcount)

Burst(a, s1, s2) ==    \* s1 first, then s2 -- or the other way round
    /\ s1 < s2
    /\ \E first \in {s1, s2} :
         LET second == IF first = s1 THEN s2 ELSE s1
             sn1 == Seen1(a, first, seen)
             nn1 == Nonce1(a, first, seen, nonce)
             dc1 == DC1(a, first, seen, nonce, dcount) IN
           /\ seen' = Seen1(a, second, sn1) /\ nonce' = Nonce1(a, second, sn1, nn1) /\ dcount' = DC1(a, second, sn1, nn1, dc1)
    /\ hist' = Append(hist, [op |-> "burst", f |-> 0, a |-> a, s |-> s1, s2 |-> s2, exp |-> "either"])

Expire ==
    /\ seen # {} /\ seen' = {}
    /\ hist' = Append(hist, [op |-> "expire", f |-> 0, a |-> 0, s |-> 0, s2 |-> 0, exp |-> "-"])
    /\ UNCHANGED <<nonce, dcount>>

Next == /\ Len(hist) < L
        /\ \/ \E a \in Authors, s \in Seqnos, f \in {1, 2} : Inject(f, a, s)
           \/ Bursts /\ \E s1, s2 \in Seqnos : Burst(1, s1, s2)
           \/ Expire
Spec == Init /\ [][Next]_vars

\* no message is ever delivered twice, whatever the seen cache forgot; the nonce only grows
P_C20_NoReplayDelivery == \A m \in Msgs : dcount[m] <= 1
P_C20_NodeNonceMonotone == [][\A a \in Authors : nonce'[a] >= nonce[a]]_vars

Emit == Len(hist) = L => PrintT(<<"SCN", ToJson([steps |-> hist])>>)
=============================================================================
