--------------------------- MODULE SeqnoNodeTrace ---------------------------
(* Trace specification for the in-node part of C20 (driver TestC20Node).  One
   line per stimulus with what the REAL node did:

     {e:"reset", sc, router, topicval}
     {e:"inj", f, a, s, deliv, fwd, val, del, dup, rej:[reasons], puts:[{a,v}..]}
     {e:"burst", a, s, s2, o1:{deliv,fwd,val,del,dup,rej}, o2:{..}, puts:[..]}     s < s2, same instant
     {e:"expire"}

   deliv = deliveries to the application (Subscription.Next), fwd = copies on
   the wire to an observing peer, val/del/dup/rej = the node's own trace calls
   for that message, puts = Puts of the metadata store during the step.

   Deterministic monitor, one state per line.  It evaluates
   P_C20_NoReplayDelivery (and the nonce growing) on the real observations
   only -- hi[a] is the highest sequence number the application REALLY got --
   and prints <<"VIOL", ..>>; next to that it compares the outcome with
   SeqnoNode.tla (seen cache + nonce) and prints <<"DRIFT", ..>> when the real
   node took another branch than the model (conformance, not a verdict).    *)
EXTENDS Naturals, Sequences, FiniteSets, TLC, Json

Trace == ndJsonDeserialize("trace.ndjson")
Authors == {1, 2}
AuthorsT == {0, 1, 2}

VARIABLES nonce, seen,          \* SeqnoNode's state
          hi, dset, sto,        \* real observations: highest delivered, delivered set, store content
          msc, l
vars == <<nonce, seen, hi, dset, sto, msc, l>>

E == Trace[l]
Range(f) == {f[i] : i \in DOMAIN f}
MaxN(x, y) == IF x >= y THEN x ELSE y

Outcome(a, s, sn, nn) == IF <<a, s>> \in sn THEN "dup" ELSE IF s <= nn[a] THEN "ignored" ELSE "delivered"

\* reasons that carry no score penalty
Harmless == {"validation ignored", "validation throttled", "validation queue full"}

Class(o) ==
    IF o.dup >= 1 /\ o.val = 0 /\ o.del = 0 /\ o.deliv = 0 /\ o.fwd = 0 /\ o.rej = <<>> THEN "dup"
    ELSE IF o.val = 1 /\ o.dup = 0 /\ o.del = 0 /\ o.deliv = 0 /\ o.fwd = 0 /\ o.rej = <<"validation ignored">> THEN "ignored"
    ELSE IF o.val = 1 /\ o.dup = 0 /\ o.del = 1 /\ o.deliv = 1 /\ o.fwd = 1 /\ o.rej = <<>> THEN "delivered"
    ELSE "other"

Report(tag, bad, name, why) ==
    IF bad THEN PrintT(<<tag, ToJson([p |-> name, why |-> why, l |-> l, sc |-> msc])>>) ELSE TRUE

\* (a, s) is not above something the application really got from author a before
Replay(a, s) == \E m \in dset : m[1] = a /\ s <= m[2]

\* the predicates on one message's observation o, given the real history
Judge(a, s, o) ==
    /\ Report("VIOL", Replay(a, s) /\ (o.deliv > 0 \/ o.del > 0), "P_C20_NoReplayDelivery", "replay-delivered")
    /\ Report("VIOL", Replay(a, s) /\ o.fwd > 0, "P_C20_NoReplayDelivery", "replay-forwarded")
    /\ Report("VIOL", Replay(a, s) /\ Range(o.rej) \ Harmless # {}, "P_C20_NoReplayDelivery", "replay-penalised")
    /\ Report("VIOL", o.deliv > 1 \/ (<<a, s>> \in dset /\ o.deliv > 0), "P_C20_NoReplayDelivery", "delivered-twice")
    /\ Report("VIOL", o.fwd > 1, "P_C20_NoReplayDelivery", "forwarded-twice")

\* Puts of one step, in order: every stored value must exceed what the store held for that author
RECURSIVE PutsOK(_, _)
PutsOK(ps, st) == IF ps = <<>> THEN TRUE
                  ELSE /\ Head(ps).a \in Authors /\ Head(ps).v > st[Head(ps).a]
                       /\ PutsOK(Tail(ps), [st EXCEPT ![Head(ps).a] = Head(ps).v])
RECURSIVE StoreAfter(_, _)
StoreAfter(ps, st) == IF ps = <<>> THEN st
                      ELSE StoreAfter(Tail(ps), IF Head(ps).a \in AuthorsT THEN [st EXCEPT ![Head(ps).a] = Head(ps).v] ELSE st)

Init == /\ nonce = [a \in Authors |-> 0] /\ seen = {} /\ hi = [a \in Authors |-> 0] /\ dset = {}
        /\ sto = [a \in AuthorsT |-> 0] /\ msc = 0 /\ l = 1

Reset ==
    /\ E.e = "reset"
    /\ nonce' = [a \in Authors |-> 0] /\ seen' = {} /\ hi' = [a \in Authors |-> 0] /\ dset' = {}
    /\ sto' = [a \in AuthorsT |-> 0] /\ msc' = E.sc

Inj ==
    /\ E.e = "inj"
    /\ LET a == E.a
           s == E.s
           exp == Outcome(a, s, seen, nonce) IN
         /\ Judge(a, s, E)
         /\ Report("VIOL", ~PutsOK(E.puts, sto), "P_C20_Nonce", "stored-nonce-did-not-grow")
         /\ Report("DRIFT", Class(E) # exp, "outcome", exp \o "-expected-got-" \o Class(E))
         /\ seen' = seen \cup {<<a, s>>}
         /\ nonce' = IF exp = "delivered" THEN [nonce EXCEPT ![a] = s] ELSE nonce
         /\ hi' = IF E.deliv > 0 THEN [hi EXCEPT ![a] = MaxN(@, s)] ELSE hi
         /\ dset' = IF E.deliv > 0 THEN dset \cup {<<a, s>>} ELSE dset
         /\ sto' = StoreAfter(E.puts, sto)
    /\ UNCHANGED msc

Burst ==     \* s < s2 at the same instant: s2's outcome does not depend on the order, s may lose against s2
    /\ E.e = "burst"
    /\ LET a == E.a
           s == E.s
           s2 == E.s2
           e1 == Outcome(a, s, seen, nonce)
           e2 == Outcome(a, s2, seen, nonce)
           ok1 == {e1} \cup (IF e2 = "delivered" /\ e1 = "delivered" THEN {"ignored"} ELSE {})
           n1 == IF e1 = "delivered" THEN [nonce EXCEPT ![a] = s] ELSE nonce IN
         /\ Judge(a, s, E.o1) /\ Judge(a, s2, E.o2)
         /\ Report("VIOL", ~PutsOK(E.puts, sto), "P_C20_Nonce", "stored-nonce-did-not-grow")
         /\ Report("DRIFT", Class(E.o1) \notin ok1 \/ Class(E.o2) # e2, "outcome", "burst-" \o Class(E.o1) \o "-" \o Class(E.o2))
         /\ seen' = seen \cup {<<a, s>>, <<a, s2>>}
         /\ nonce' = IF e2 = "delivered" THEN [nonce EXCEPT ![a] = s2] ELSE n1
         /\ hi' = [hi EXCEPT ![a] = MaxN(MaxN(@, IF E.o1.deliv > 0 THEN s ELSE 0), IF E.o2.deliv > 0 THEN s2 ELSE 0)]
         /\ dset' = dset \cup (IF E.o1.deliv > 0 THEN {<<a, s>>} ELSE {}) \cup (IF E.o2.deliv > 0 THEN {<<a, s2>>} ELSE {})
         /\ sto' = StoreAfter(E.puts, sto)
    /\ UNCHANGED msc

Expire == E.e = "expire" /\ seen' = {} /\ UNCHANGED <<nonce, hi, dset, sto, msc>>

Next == l <= Len(Trace) /\ (Reset \/ Inj \/ Burst \/ Expire) /\ l' = l + 1
NodeSpec == Init /\ [][Next]_vars
Done == PrintT(<<"HW", IF TLCGet("distinct") >= 0 THEN TLCGet("distinct") ELSE 0, Len(Trace) + 1>>)
=============================================================================
