----------------------------- MODULE SeqnoTrace -----------------------------
(* Trace specification for C20.  The Go driver (harness/drivers/c20) logs, for
   every replayed schedule, what the REAL BasicSeqnoValidator did: the order of
   the store accesses with their values, each call's verdict, and the parking
   positions of all calls at every quiescent point.  Lines:

     {e:"reset", sc, n, calls:[{a,s}..], init:[..]}      new scenario (fresh validator, fresh store)
     {e:"start", c}                                      call c enters validate()
     {e:"get", c, k, a, v}                               k-th Get of call c: key a, value v returned
     {e:"put", c, a, v}                                  Put of call c: key a, value v stored
     {e:"ret", c, r}                                     call c returned r (accept/ignore/reject/panic/..)
     {e:"q", pos:[..]}                                   quiescent point: idle/g1/g2/p/rb/wb/lk/done per call
     {e:"len", n, cls, r, ..}                            one call with an n-byte sequence number (P_C20_Total)

   Two specifications over the same file:

   MonSpec    evaluates the predicates of C20 on the real sequence of Put and
              verdicts (deterministic monitor, one state per line; it accepts
              ANY sequence of lines and prints <<"VIOL", ..>> for each failure).
   TraceSpec  conformance: the file is accepted iff every scenario is a
              behaviour of Seqno.tla (GoLock = TRUE, RecheckUnderWriteLock = TRUE)
              with the hidden steps (lock operations, decode, comparisons)
              filled in: Get results equal the model store at that instant, Put
              values, verdicts and parking positions agree.  Cursor l,
              high-water mark in TLCGet(1), POSTCONDITION prints <<"HW", ..>>.  *)
EXTENDS Naturals, Sequences, FiniteSets, TLC, Json

CONSTANT NCalls        \* largest number of calls in a scenario of the file

Trace == ndJsonDeserialize("trace.ndjson")

Authors == {1, 2}
AuthorsT == {0, 1, 2, 9}     \* keys the store may be asked for: 0 = unknown, 9 = the forwarding peer

VARIABLES call, pc, loc, nonce, readers, writer, wq, ret, accepted, didput, dec,   \* Seqno
          returned,                                                                 \* calls whose ret line was consumed
          n,                                                                        \* calls of the current scenario
          msc, mcall, mstore, minit, macc, mput, mlast, mseen, mhad,                 \* monitor
          l                                                                         \* cursor

M == INSTANCE Seqno WITH Seqnos <- 0..99, InitNonces <- 0..99, RecheckUnderWriteLock <- TRUE, GoLock <- TRUE

mvars == <<call, pc, loc, nonce, readers, writer, wq, ret, accepted, didput, dec>>
monvars == <<msc, mcall, mstore, minit, macc, mput, mlast, mseen, mhad>>
tvars == <<mvars, returned, n, monvars, l>>
Calls == 1..NCalls
E == Trace[l]
More == l <= Len(Trace)
Adv == l' = l + 1
MaxOf(S) == IF S = {} THEN 0 ELSE CHOOSE x \in S : \A y \in S : y <= x
Range(f) == {f[i] : i \in DOMAIN f}

Dummy == [a |-> 1, s |-> 0]
ModelInit(cs, n0) ==
    /\ call = cs /\ pc = [c \in Calls |-> "idle"] /\ loc = [c \in Calls |-> 0] /\ nonce = n0
    /\ readers = {} /\ writer = 0 /\ wq = <<>> /\ ret = [c \in Calls |-> "none"]
    /\ accepted = [a \in Authors |-> <<>>] /\ didput = {} /\ dec = [c \in Calls |-> FALSE]
MonInit ==
    /\ msc = 0 /\ mcall = <<>> /\ mstore = [a \in AuthorsT |-> 0] /\ minit = [a \in AuthorsT |-> 0]
    /\ macc = [a \in AuthorsT |-> <<>>] /\ mput = {} /\ mlast = <<>> /\ mseen = {} /\ mhad = {}

TInit == /\ TLCSet(1, 0)
         /\ ModelInit([c \in Calls |-> Dummy], [a \in Authors |-> 0])
         /\ returned = {} /\ n = 0 /\ MonInit /\ l = 1

---------------------------------------------------------------------------
(* Conformance with Seqno.tla *)
TReset ==
    /\ More /\ E.e = "reset"
    /\ call' = [c \in Calls |-> IF c <= E.n THEN [a |-> E.calls[c].a, s |-> E.calls[c].s] ELSE Dummy]
    /\ pc' = [c \in Calls |-> "idle"] /\ loc' = [c \in Calls |-> 0]
    /\ nonce' = [a \in Authors |-> E.init[a]]
    /\ readers' = {} /\ writer' = 0 /\ wq' = <<>> /\ ret' = [c \in Calls |-> "none"]
    /\ accepted' = [a \in Authors |-> <<>>] /\ didput' = {} /\ dec' = [c \in Calls |-> FALSE]
    /\ returned' = {} /\ n' = E.n /\ Adv /\ UNCHANGED monvars

TStart ==
    /\ More /\ E.e = "start" /\ E.c \in 1..n
    /\ M!Start(E.c) /\ Adv /\ UNCHANGED <<returned, n, monvars>>

TGet ==
    /\ More /\ E.e = "get" /\ E.c \in 1..n
    /\ E.a = call[E.c].a /\ E.v = nonce[E.a]           \* the harness store and the model store agree
    /\ \/ E.k = 1 /\ M!Get1(E.c)
       \/ E.k = 2 /\ M!Get2(E.c)
    /\ Adv /\ UNCHANGED <<returned, n, monvars>>

TPut ==
    /\ More /\ E.e = "put" /\ E.c \in 1..n
    /\ E.a = call[E.c].a /\ E.v = call[E.c].s
    /\ M!Put(E.c) /\ Adv /\ UNCHANGED <<returned, n, monvars>>

TRet ==
    /\ More /\ E.e = "ret" /\ E.c \in 1..n /\ E.c \notin returned
    /\ pc[E.c] = "done" /\ ret[E.c] = E.r
    /\ returned' = returned \cup {E.c}
    /\ Adv /\ UNCHANGED <<mvars, n, monvars>>

PosMatch(p, c) ==
    CASE p = "idle" -> pc[c] = "idle"
      [] p = "g1"   -> pc[c] = "get1"
      [] p = "g2"   -> pc[c] = "get2"
      [] p = "p"    -> pc[c] = "put"
      [] p = "rb"   -> pc[c] = "rblocked"
      [] p = "wb"   -> pc[c] \in {"wqueued", "wwait"}
      [] p = "lk"   -> pc[c] \in {"rblocked", "wqueued", "wwait"}
      [] p = "done" -> pc[c] = "done" /\ c \in returned
      [] OTHER -> FALSE

TQuiet ==      \* nothing can move without the scheduler, and every call is parked where the model says
    /\ More /\ E.e = "q"
    /\ M!Quiescent
    /\ Len(E.pos) = n /\ \A c \in 1..n : PosMatch(E.pos[c], c)
    /\ Adv /\ UNCHANGED <<mvars, returned, n, monvars>>

THidden == /\ \E c \in 1..n : M!Hidden(c)
           /\ UNCHANGED <<returned, n, monvars, l>>

TNext == TReset \/ TStart \/ TGet \/ TPut \/ TRet \/ TQuiet \/ THidden
TraceSpec == TInit /\ [][TNext]_tvars

HW == IF TLCGet(1) < l THEN TLCSet(1, l) ELSE TRUE
Accepted == PrintT(<<"HW", TLCGet(1), Len(Trace) + 1>>)
\* the model's own properties on the way (never expected to fail when the trace conforms)
ModelProps == M!P_C20_Increasing /\ M!P_C20_Nonce /\ M!P_C20_Verdict /\ M!LockOK

---------------------------------------------------------------------------
(* The predicates of C20 on the real sequence of Put and verdicts *)
Report(bad, name, why) ==
    IF bad THEN PrintT(<<"VIOL", ToJson([p |-> name, why |-> why, l |-> l, sc |-> msc])>>) ELSE TRUE

MReset ==
    /\ E.e = "reset"
    /\ msc' = E.sc /\ mcall' = E.calls
    /\ mstore' = [a \in AuthorsT |-> IF a \in 1..Len(E.init) THEN E.init[a] ELSE 0]
    /\ minit' = [a \in AuthorsT |-> IF a \in 1..Len(E.init) THEN E.init[a] ELSE 0]
    /\ macc' = [a \in AuthorsT |-> <<>>] /\ mput' = {}
    /\ mlast' = [c \in 1..E.n |-> 0] /\ mseen' = {} /\ mhad' = {}

\* something was accepted for author a before (what the store held initially counts as accepted)
Had(a) == macc[a] # <<>> \/ minit[a] > 0
\* highest sequence number accepted so far for author a
High(a) == MaxOf(Range(macc[a]) \cup {minit[a]})

MGet ==
    /\ E.e = "get"
    /\ mlast' = [mlast EXCEPT ![E.c] = E.v] /\ mseen' = mseen \cup {E.c}
    \* mhad: at its latest Get the call read a nonce somebody had stored (not "no entry")
    /\ mhad' = IF E.a \in AuthorsT /\ Had(E.a) THEN mhad \cup {E.c} ELSE mhad \ {E.c}
    /\ UNCHANGED <<msc, mcall, mstore, minit, macc, mput>>

MPut ==
    /\ E.e = "put"
    /\ LET c == E.c
           a == E.a
           s == mcall[c].s
           acc1 == Append(macc[a], s) IN
         \* accepted sequence numbers strictly increase in the order of put
         /\ Report(Had(a) /\ s <= High(a), "P_C20_Increasing", "put-not-above-highest-accepted")
         \* the stored nonce is the highest accepted number of the message's author and never decreases
         /\ Report(a # mcall[c].a, "P_C20_Nonce", "stored-under-another-key")
         /\ Report(a = mcall[c].a /\ E.v < mstore[a], "P_C20_Nonce", "nonce-decreased")
         /\ Report(a = mcall[c].a /\ E.v >= mstore[a] /\ E.v # MaxOf(Range(acc1) \cup {minit[a]}), "P_C20_Nonce", "nonce-not-highest-accepted")
         /\ macc' = [macc EXCEPT ![a] = acc1]
         /\ mstore' = [mstore EXCEPT ![a] = E.v]
         /\ mput' = mput \cup {c}
    /\ UNCHANGED <<msc, mcall, minit, mlast, mseen, mhad>>

MRet ==
    /\ E.e = "ret"
    /\ LET c == E.c
           s == mcall[c].s IN
         /\ Report(E.r = "panic", "P_C20_Total", "panic-8-byte-seqno")
         /\ Report(E.r = "accept" /\ c \notin mput, "P_C20_Verdict", "accept-without-put")
         /\ Report(E.r \notin {"accept", "panic"} /\ c \in mput, "P_C20_Verdict", "put-without-accept")
         \* decisive instant = the call's latest Get: not above the nonce read there => Ignore
         /\ Report(c \in mhad /\ s <= mlast[c] /\ E.r \notin {"ignore", "panic"} /\ ~(E.r = "accept" /\ c \notin mput),
                   "P_C20_Verdict", "replay-not-ignored-" \o E.r)
    /\ UNCHANGED monvars

MLen ==
    /\ E.e = "len"
    /\ Report(E.r = "panic", "P_C20_Total", "panic")
    /\ UNCHANGED monvars

MSkip == E.e \in {"q", "start"} /\ UNCHANGED monvars

MNext == More /\ (MReset \/ MGet \/ MPut \/ MRet \/ MLen \/ MSkip) /\ Adv /\ UNCHANGED <<mvars, returned, n>>
MonSpec == TInit /\ [][MNext]_tvars
MonDone == PrintT(<<"HW", TLCGet(1), Len(Trace) + 1>>)
=============================================================================
