SPECIFICATION Spec
CONSTANTS
  Authors = {1, 2}
  Seqnos = {0, 1, 2, 3}
  L = 3
  Bursts = TRUE
INVARIANTS P_C20_NoReplayDelivery Emit
PROPERTY P_C20_NodeNonceMonotone
CHECK_DEADLOCK FALSE
