------------------------------ MODULE GenSeqno ------------------------------
(* Scenario generator for C20: every interleaving of the harness-controllable
   steps of Seqno (a call entering validate, its first Get, its second Get, its
   Put) for every call configuration, with the hidden steps (lock operations,
   decoding, comparisons) run to quiescence after each controllable step --
   which is exactly what the Go driver does: it releases one store access,
   then waits until every call is parked (in the store or on the mutex).
   GoLock = TRUE, so each schedule is feasible on sync.RWMutex.

   A scenario is the call configuration, the initial store and the sequence
   of controllable steps, each with the positions of all calls in the
   quiescent state in which it is taken (the driver compares them with what
   it sees and stops following the schedule when they differ).  Results are
   whatever the real validator does; SeqnoTrace judges them.               *)
EXTENDS Seqno, Json

VARIABLES hist, n0
gvars == <<vars, hist, n0>>

PosOf(p) == CASE p = "idle" -> "idle"
              [] p = "rblocked" -> "rb"
              [] p = "get1" -> "g1"
              [] p \in {"wqueued", "wwait"} -> "wb"
              [] p = "get2" -> "g2"
              [] p = "put" -> "p"
              [] p = "done" -> "done"
              [] OTHER -> "run"
Pos == [c \in Calls |-> PosOf(pc[c])]
OpOf(c) == CASE pc[c] = "idle" -> "start" [] pc[c] = "get1" -> "get1" [] pc[c] = "get2" -> "get2" [] pc[c] = "put" -> "put" [] OTHER -> "?"

GInit == Init /\ hist = <<>> /\ n0 = nonce

GNext ==
    IF ~Quiescent
      THEN (\E c \in Calls : Hidden(c)) /\ UNCHANGED <<hist, n0>>
      ELSE \E c \in Calls : /\ Visible(c)
                            /\ hist' = Append(hist, [c |-> c, op |-> OpOf(c), pos |-> Pos])
                            /\ UNCHANGED n0

GenSpec == GInit /\ [][GNext]_gvars

\* which situations the schedule drives the model through (planning information only)
Emit == AllDone =>
    PrintT(<<"SCN", ToJson([calls |-> call, init |-> n0, steps |-> hist,
                            exp |-> [ret |-> ret, nonce |-> nonce, acc |-> accepted]])>>)
=============================================================================
