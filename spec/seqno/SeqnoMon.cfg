SPECIFICATION MonSpec
CONSTANTS
  NCalls = 3
CONSTRAINT HW
POSTCONDITION MonDone
CHECK_DEADLOCK FALSE
