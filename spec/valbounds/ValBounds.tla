------------------------------ MODULE ValBounds ------------------------------
(* Extension family X10: RESOURCE BOUNDS AND TIMING OF THE VALIDATION PIPELINE of go-libp2p-pubsub
   (validation.go; call sites pubsub.go: pushMsg / processLoop case sendMsg, addVal, rmVal; topic.go: Publish).

   (* PROPERTIES X10.a .. X10.g *)

   X10.a  BOUNDS.  At every instant, for every arrival pattern (bursts, several topics, slow validators):
          requests waiting in the validation queue <= WithValidateQueueSize;  synchronous validations in progress
          (signature check + inline validators, one per worker) <= WithValidateWorkers, and exactly that many worker
          goroutines exist;  messages under asynchronous validation (goroutines in doValidateTopic) <= WithValidateThrottle;
          concurrent invocations of ONE asynchronous validator <= its WithValidatorConcurrency.  (Validator goroutines left
          running after a sibling rejected are bounded by their own validator's throttle only; validations of LOCAL
          publishes run on the caller's goroutine and count against nothing.)
   X10.b  EXACTNESS.  A copy is dropped as "validation queue full" only if the queue holds WithValidateQueueSize requests
          at that moment, and a message as "validation throttled" only if WithValidateThrottle messages hold a token of
          the global throttle or an asynchronous validator that applies to it has WithValidatorConcurrency invocations in
          flight: the k-th concurrent message is served, the (k+1)-th is dropped, never earlier.
   X10.c  CONSERVATION.  Every token taken is returned exactly once on every path (accept, reject, ignore, out-of-range
          verdict, throttled by a validator, deadline, cancellation by a rejecting sibling, validator unregistered meanwhile):
          whenever the node is quiescent the tokens in use equal the validations in flight, and once every validator has
          returned the whole capacity is available again.  A token is returned when the validator RETURNS, never at its deadline.
   X10.d  ACCOUNTING.  Every copy that reaches pushMsg gets exactly one disposition: duplicate, queue full, or it enters
          validation (once per id) and then ends in exactly one of delivered / rejected / ignored / throttled, the reason
          matching the cause (reject > throttled > ignore > accept).  A queue-full drop leaves no mark in the seen cache (a later
          copy is validated); a throttled message HAS been marked seen (later copies are duplicates, it is not validated again).
          Neither carries an invalid-message (P4) penalty.
   X10.e  TIMEOUT.  A validator registered with WithValidatorTimeout(T) - asynchronous, inline or run for a local publish -
          gets a context whose deadline is exactly call + T: it ends at that instant and not before; without the option the
          context has no deadline; while the node runs a context is cancelled only when a sibling validator of the same
          message rejected (validateTopic gives up on the rest), and then at once.
          The pipeline never abandons a running validator: no outcome is traced before every invoked validator returned
          (except the siblings of a rejecting one), the verdict it returns - however late - is the one that counts, and its
          worker / tokens stay occupied until then.
   X10.f  NON-INTERFERENCE.  Workers are released before asynchronous validators run: at quiescence no request waits in the
          queue unless every worker is inside an inline validator, and whatever a worker took is decided or inside a validator
          (so a slow validator of topic A delays topic B only through the shared bounds: all workers inside A's INLINE
          validator, or the global throttle exhausted by A's asynchronous one).  The event loop is never blocked by the
          pipeline (Push never blocks); it only waits for nothing.  A backlog towards the event loop (sendMsg full) blocks
          the finished validation, which keeps its token until the hand-off, and loses nothing.
   X10.g  REGISTRATION AND OPTIONS.  RegisterTopicValidator / UnregisterTopicValidator take effect for copies pushed after
          they return; a request already pushed keeps the validators captured at Push (a removed validator still runs and
          returns its token); a second registration for a topic and a removal of nothing are errors.  Non-positive queue size,
          worker count and global throttle are refused (AS FOUND: WithValidateThrottle is not checked - finding X10-F1);
          non-positive validator concurrency / timeout mean the default (1024) / none.

   THE MODEL.  One action per channel operation / critical section of validation.go:

     LoopArrive(b)      handleIncomingRPC: shouldPush over the whole Publish list (seen -> duplicate)
     LoopPush           pushMsg -> validation.Push: getValidators (captured NOW), non-blocking send on validateQ or queue-full
     WorkerTake(w)      validateWorker receives from validateQ     (a blocker = message with a bad signature: the worker is
                        parked by the harness inside the tracer callback that reports it)
     WorkerMark(w)      validate(): markSeen (duplicate here, too), split into inline / asynchronous, call the first inline one
     InlineRet(w, vd)   an inline validator returns; Reject breaks, Ignore sticks; call the next one
     WorkerFinish(w)    Reject -> traced;  asynchronous validators -> non-blocking send on validateThrottle, `go` or throttled;
                        none -> Ignore traced or sendMsgBlocking
     JobTry(j)          validateTopic / validateSingleTopic: non-blocking send on the next validator's own throttle; call or throttled
     AsyncRet(i, vd)    an asynchronous validator returns (Reject in the multi-validator path ends the job, cancelling the others)
     VRelease(i)        <-val.validateThrottle
     JobCollect(j)      all results in: combine with the inline result, trace the outcome or sendMsgBlocking
     GRelease(j)        <-v.validateThrottle
     LoopPublish        processLoop case sendMsg
     LoopReg / LoopUnreg  AddValidator / RemoveValidator inside the event loop
     Tick / Fire(i)     virtual time / the deadline of an invocation's context passes
     LocalStart / LocalRet   Topic.Publish -> ValidateLocal: every validator inline on the caller's goroutine, no token

   Monitors (never read by the machine): arr, dup, qf, val, fin, drops, entered, exits, appl, aband, badctx.

   Bug = "none" is the code as it is; the other values seed one defect each for the configurations that MUST fail:
     leakOnIgnore (global token kept when the result is Ignore), vBeforeG (validator tokens taken before the global one and
     not given back when that fails), qHigh/gHigh/vHigh/qLow/gLow/vLow (off by one on a capacity), noCancel (deadline never
     cancels), blockingPush (Push waits for room), syncAsync (the worker runs the asynchronous validators itself),
     seenOnQfull (id marked seen before the queue is tried), releaseAtTimeout (validator token returned at the deadline),
     abandonAtTimeout (the job gives up at the deadline while the validator still runs).                                  *)
EXTENDS Integers, Sequences, FiniteSets, TLC

CONSTANTS
    Ids,        \* message ids
    T2Ids,      \* ids on topic T2 (the others on T1)
    Blockers,   \* ids with an invalid signature (park a worker)
    LocalIds,   \* payloads that may be published locally (their ids are never received)
    NV,         \* validators are numbered 1..NV, in registration order (defaults first)
    MaxW,       \* worker slots; cfg.nw of them exist
    MaxCopies,  \* copies of one id that may arrive
    MaxBurst,   \* messages in one RPC
    Verdicts,   \* subset of {"A", "R", "I"}
    MaxTick,
    SendCap,    \* capacity of sendMsg
    CfgSpace,   \* the configurations explored
    Bug

VARIABLES
    cfg,        \* [qcap, nw, gthr, top, inl, thr, tmo, deaf, tv]  fixed per behaviour
    regd,       \* regd[t] = validator registered for topic t now (0 = none)
    used,       \* validators registered so far
    seen, sent, inbox, loopBlocked, valQ, worker, jobs, gUsed, vUsed, invs, sendQ, now, local,
    arr, dup, qf, val, fin, drops, entered, exits, appl, aband, badctx

pipe == <<regd, used, seen, sent, inbox, loopBlocked, valQ, worker, jobs, gUsed, vUsed, invs, sendQ, now, local>>
mons == <<arr, dup, qf, val, fin, drops, entered, exits, appl, aband, badctx>>
vars == <<cfg, pipe, mons>>

-----------------------------------------------------------------------------
Topics == {"T1", "T2"}
TopicOf(id) == IF id \in T2Ids THEN "T2" ELSE "T1"
AllIds == Ids \cup Blockers
Cap3(n) == IF n > 3 THEN 3 ELSE n

RECURSIVE SortedSeq(_)
SortedSeq(S) == IF S = {} THEN <<>>
                ELSE LET m == CHOOSE x \in S : \A y \in S : x <= y IN <<m>> \o SortedSeq(S \ {m})

Defaults   == {v \in 1..NV : cfg.top[v] = "D"}
ValsNow(id) == IF id \in Blockers THEN {} ELSE Defaults \cup ({regd[TopicOf(id)]} \ {0})
InlineOf(vs) == SortedSeq(vs \cap cfg.inl)
AsyncOf(vs)  == vs \ cfg.inl

QCapEff == cfg.qcap + (IF Bug = "qHigh" THEN 1 ELSE IF Bug = "qLow" THEN -1 ELSE 0)
GCapEff == cfg.gthr + (IF Bug = "gHigh" THEN 1 ELSE IF Bug = "gLow" THEN -1 ELSE 0)
VCapEff(v) == cfg.thr[v] + (IF Bug = "vHigh" THEN 1 ELSE IF Bug = "vLow" THEN -1 ELSE 0)

Idle == [st |-> "idle", id |-> "-", vals |-> {}, k |-> 0, res |-> "A"]
LIdle == [st |-> "idle", id |-> "-", k |-> 0]
Active == 1..cfg.nw

Inv(v, id, own) == [v |-> v, id |-> id, own |-> own, ctx |-> "live", dl |-> IF v \in cfg.tmo THEN now + 2 ELSE 0, st |-> "run", early |-> FALSE]
Running(own) == {i \in invs : i.own = own /\ i.st = "run"}
LiveJob(id) == \E j \in jobs : j.id = id /\ j.st \in {"start", "wait"}

Init ==
    /\ cfg \in CfgSpace
    /\ regd = [t \in Topics |-> LET S == {v \in 1..NV : cfg.top[v] = t} IN IF S = {} THEN 0 ELSE CHOOSE v \in S : TRUE]
    /\ used = {v \in 1..NV : cfg.top[v] \in Topics}
    /\ seen = {} /\ sent = [i \in AllIds |-> 0] /\ inbox = <<>> /\ loopBlocked = FALSE /\ valQ = <<>>
    /\ worker = [w \in 1..MaxW |-> Idle] /\ jobs = {} /\ gUsed = 0 /\ vUsed = [v \in 1..NV |-> 0] /\ invs = {}
    /\ sendQ = <<>> /\ now = 0 /\ local = LIdle
    /\ arr = [i \in Ids |-> 0] /\ dup = [i \in Ids |-> 0] /\ qf = [i \in Ids |-> 0] /\ val = [i \in Ids |-> 0]
    /\ fin = [i \in Ids |-> <<>>] /\ drops = {} /\ entered = [i \in Ids |-> {}] /\ exits = [i \in Ids |-> {}]
    /\ appl = [i \in Ids |-> {}] /\ aband = FALSE /\ badctx = FALSE

Final(id, f) == fin' = [fin EXCEPT ![id] = IF Len(@) < 3 THEN Append(@, f) ELSE @]

-----------------------------------------------------------------------------
\* event loop

Occ(b, id) == Cardinality({i \in DOMAIN b : b[i] = id})
LoopFree == inbox = <<>> /\ ~loopBlocked

LoopArrive(b) ==
    /\ LoopFree
    /\ \A id \in AllIds : sent[id] + Occ(b, id) <= MaxCopies
    /\ \A i \in DOMAIN b : b[i] \in Blockers => Len(b) = 1
    /\ sent' = [id \in AllIds |-> sent[id] + Occ(b, id)]
    /\ arr' = [id \in Ids |-> Cap3(arr[id] + Occ(b, id))]
    /\ dup' = [id \in Ids |-> IF id \in seen THEN Cap3(dup[id] + Occ(b, id)) ELSE dup[id]]
    /\ inbox' = SelectSeq(b, LAMBDA x : x \notin seen)
    /\ UNCHANGED <<cfg, regd, used, seen, loopBlocked, valQ, worker, jobs, gUsed, vUsed, invs, sendQ, now, local,
                   qf, val, fin, drops, entered, exits, appl, aband, badctx>>

Enqueue(id) == valQ' = Append(valQ, [id |-> id, vals |-> ValsNow(id)])

LoopPush ==
    /\ inbox # <<>> /\ ~loopBlocked
    /\ LET id == Head(inbox) IN
       /\ seen' = IF Bug = "seenOnQfull" /\ id \in Ids THEN seen \cup {id} ELSE seen
       /\ IF Len(valQ) < QCapEff
            THEN /\ Enqueue(id) /\ inbox' = Tail(inbox)
                 /\ UNCHANGED <<loopBlocked, qf, drops>>
          ELSE IF Bug = "blockingPush"
            THEN /\ loopBlocked' = TRUE /\ UNCHANGED <<valQ, inbox, qf, drops>>
            ELSE /\ inbox' = Tail(inbox)
                 /\ qf' = IF id \in Ids THEN [qf EXCEPT ![id] = Cap3(@ + 1)] ELSE qf
                 /\ drops' = drops \cup {[id |-> id, why |-> "Q", ok |-> Len(valQ) >= cfg.qcap]}
                 /\ UNCHANGED <<valQ, loopBlocked>>
    /\ UNCHANGED <<cfg, regd, used, sent, worker, jobs, gUsed, vUsed, invs, sendQ, now, local,
                   arr, dup, val, fin, entered, exits, appl, aband, badctx>>

\* (seeded blockingPush only) the blocked send completes when a worker made room
LoopUnblock ==
    /\ loopBlocked /\ Len(valQ) < QCapEff
    /\ Enqueue(Head(inbox)) /\ inbox' = Tail(inbox) /\ loopBlocked' = FALSE
    /\ UNCHANGED <<cfg, regd, used, seen, sent, worker, jobs, gUsed, vUsed, invs, sendQ, now, local, mons>>

LoopPublish ==
    /\ LoopFree /\ sendQ # <<>>
    /\ sendQ' = Tail(sendQ)
    /\ IF Head(sendQ) \in Ids THEN Final(Head(sendQ), "A") ELSE UNCHANGED fin
    /\ UNCHANGED <<cfg, regd, used, seen, sent, inbox, loopBlocked, valQ, worker, jobs, gUsed, vUsed, invs, now, local,
                   arr, dup, qf, val, drops, entered, exits, appl, aband, badctx>>

LoopUnreg(t) ==
    /\ LoopFree /\ regd[t] # 0 /\ local.st # "inline"
    /\ regd' = [regd EXCEPT ![t] = 0]
    /\ UNCHANGED <<cfg, used, seen, sent, inbox, loopBlocked, valQ, worker, jobs, gUsed, vUsed, invs, sendQ, now, local, mons>>

LoopReg(t, v) ==
    /\ LoopFree /\ regd[t] = 0 /\ v \in 1..NV /\ v \notin used /\ cfg.top[v] = "-" /\ local.st # "inline"
    /\ regd' = [regd EXCEPT ![t] = v] /\ used' = used \cup {v}
    /\ UNCHANGED <<cfg, seen, sent, inbox, loopBlocked, valQ, worker, jobs, gUsed, vUsed, invs, sendQ, now, local, mons>>

-----------------------------------------------------------------------------
\* workers

WorkerTake(w) ==
    /\ w \in Active /\ worker[w].st = "idle" /\ valQ # <<>>
    /\ LET r == Head(valQ) IN
       worker' = [worker EXCEPT ![w] = [st |-> IF r.id \in Blockers THEN "parked" ELSE "mark", id |-> r.id, vals |-> r.vals, k |-> 0, res |-> "A"]]
    /\ valQ' = Tail(valQ)
    /\ UNCHANGED <<cfg, regd, used, seen, sent, inbox, loopBlocked, jobs, gUsed, vUsed, invs, sendQ, now, local, mons>>

Unblock(w) ==
    /\ worker[w].st = "parked"
    /\ worker' = [worker EXCEPT ![w] = Idle]
    /\ UNCHANGED <<cfg, regd, used, seen, sent, inbox, loopBlocked, valQ, jobs, gUsed, vUsed, invs, sendQ, now, local, mons>>

Entered(id, v) == entered' = [entered EXCEPT ![id] = @ \cup {v}]

WorkerMark(w) ==
    /\ worker[w].st = "mark"
    /\ LET x == worker[w] IN
       IF x.id \in seen /\ Bug # "seenOnQfull"
         THEN /\ dup' = [dup EXCEPT ![x.id] = Cap3(@ + 1)]
              /\ worker' = [worker EXCEPT ![w] = Idle]
              /\ UNCHANGED <<seen, val, invs, entered, appl>>
         ELSE /\ seen' = seen \cup {x.id}
              /\ val' = [val EXCEPT ![x.id] = Cap3(@ + 1)]
              /\ appl' = [appl EXCEPT ![x.id] = x.vals]       \* the validators captured for the copy that IS validated
              /\ dup' = dup
              /\ IF InlineOf(x.vals) = <<>>
                   THEN /\ worker' = [worker EXCEPT ![w].st = "fin"] /\ UNCHANGED <<invs, entered>>
                   ELSE /\ worker' = [worker EXCEPT ![w].st = "inline", ![w].k = 1]
                        /\ invs' = invs \cup {Inv(InlineOf(x.vals)[1], x.id, "w")}
                        /\ Entered(x.id, InlineOf(x.vals)[1])
    /\ UNCHANGED <<cfg, regd, used, sent, inbox, loopBlocked, valQ, jobs, gUsed, vUsed, sendQ, now, local,
                   arr, qf, fin, drops, exits, aband, badctx>>

Exited(id, vd) == exits' = [exits EXCEPT ![id] = @ \cup {vd}]

InlineRet(w, vd) ==
    /\ worker[w].st = "inline"
    /\ LET x == worker[w]
           sq == InlineOf(x.vals)
           i  == CHOOSE y \in invs : y.own = "w" /\ y.id = x.id /\ y.v = sq[x.k]
           res == IF vd = "R" THEN "R" ELSE IF vd = "I" THEN "I" ELSE x.res IN
       /\ Exited(x.id, vd)
       /\ IF vd = "R" \/ x.k = Len(sq)
            THEN /\ worker' = [worker EXCEPT ![w].st = "fin", ![w].res = res]
                 /\ invs' = invs \ {i} /\ UNCHANGED entered
            ELSE /\ worker' = [worker EXCEPT ![w].k = x.k + 1, ![w].res = res]
                 /\ invs' = (invs \ {i}) \cup {Inv(sq[x.k + 1], x.id, "w")}
                 /\ Entered(x.id, sq[x.k + 1])
    /\ UNCHANGED <<cfg, regd, used, seen, sent, inbox, loopBlocked, valQ, jobs, gUsed, vUsed, sendQ, now, local,
                   arr, dup, qf, val, fin, drops, appl, aband, badctx>>

GHolders == Cardinality(jobs)
VHolders(v) == Cardinality({i \in invs : i.v = v /\ i.own = "j"})

WorkerFinish(w) ==
    /\ worker[w].st = "fin"
    /\ LET x == worker[w]
           av == AsyncOf(x.vals) IN
       IF x.res = "R"
         THEN /\ Final(x.id, "R") /\ worker' = [worker EXCEPT ![w] = Idle]
              /\ UNCHANGED <<jobs, gUsed, vUsed, sendQ, drops>>
       ELSE IF av # {}
         THEN LET pre  == IF Bug = "vBeforeG" THEN {v \in av : vUsed[v] < VCapEff(v)} ELSE {}
                  vU   == [v \in 1..NV |-> IF v \in pre THEN vUsed[v] + 1 ELSE vUsed[v]] IN
              IF gUsed < GCapEff
                THEN /\ gUsed' = gUsed + 1 /\ vUsed' = vU
                     /\ jobs' = jobs \cup {[id |-> x.id, inl |-> x.res, todo |-> SortedSeq(av), run |-> {}, acc |-> "A", st |-> "start",
                                            n |-> Cardinality(av), pre |-> pre, w |-> IF Bug = "syncAsync" THEN w ELSE 0]}
                     /\ worker' = [worker EXCEPT ![w] = IF Bug = "syncAsync" THEN [x EXCEPT !.st = "asyncwait"] ELSE Idle]
                     /\ UNCHANGED <<sendQ, fin, drops>>
                ELSE /\ Final(x.id, "T") /\ vUsed' = vU
                     /\ drops' = drops \cup {[id |-> x.id, why |-> "T", ok |-> GHolders >= cfg.gthr]}
                     /\ worker' = [worker EXCEPT ![w] = Idle]
                     /\ UNCHANGED <<jobs, gUsed, sendQ>>
       ELSE IF x.res = "I"
         THEN /\ Final(x.id, "I") /\ worker' = [worker EXCEPT ![w] = Idle]
              /\ UNCHANGED <<jobs, gUsed, vUsed, sendQ, drops>>
       ELSE /\ Len(sendQ) < SendCap                            \* sendMsgBlocking
            /\ sendQ' = Append(sendQ, x.id) /\ worker' = [worker EXCEPT ![w] = Idle]
            /\ UNCHANGED <<jobs, gUsed, vUsed, fin, drops>>
    /\ UNCHANGED <<cfg, regd, used, seen, sent, inbox, loopBlocked, valQ, invs, now, local,
                   arr, dup, qf, val, entered, exits, appl, aband, badctx>>

-----------------------------------------------------------------------------
\* asynchronous validation

JobTry(j) ==
    /\ j \in jobs /\ j.st = "start"
    /\ LET v == Head(j.todo)
           rest == Tail(j.todo)
           st2 == IF rest = <<>> THEN "wait" ELSE "start"
           got == v \in j.pre \/ vUsed[v] < VCapEff(v) IN
       IF got
         THEN /\ vUsed' = IF v \in j.pre THEN vUsed ELSE [vUsed EXCEPT ![v] = @ + 1]
              /\ invs' = invs \cup {Inv(v, j.id, "j")}
              /\ Entered(j.id, v)
              /\ jobs' = (jobs \ {j}) \cup {[j EXCEPT !.todo = rest, !.run = @ \cup {v}, !.st = st2]}
              /\ UNCHANGED drops
         ELSE /\ jobs' = (jobs \ {j}) \cup {[j EXCEPT !.todo = rest, !.acc = "T", !.st = st2]}
              /\ drops' = drops \cup {[id |-> j.id, why |-> "T", ok |-> VHolders(v) >= cfg.thr[v]]}
              /\ UNCHANGED <<vUsed, invs, entered>>
    /\ UNCHANGED <<cfg, regd, used, seen, sent, inbox, loopBlocked, valQ, worker, gUsed, sendQ, now, local,
                   arr, dup, qf, val, fin, exits, appl, aband, badctx>>

Comb(acc, r) == IF r = "R" THEN "R" ELSE IF acc = "R" THEN "R"
                ELSE IF r = "I" THEN (IF acc = "T" THEN "T" ELSE "I") ELSE acc

\* the outcome of job j is `result`: traced, or handed to the event loop
Outcome(j, result) ==
    LET r2 == IF result = "A" /\ j.inl # "A" THEN j.inl ELSE result IN
    IF r2 = "A" THEN sendQ' = Append(sendQ, j.id) /\ UNCHANGED fin
    ELSE Final(j.id, r2) /\ UNCHANGED sendQ
OutcomeReady(j, result) == (result = "A" /\ j.inl = "A") => Len(sendQ) < SendCap

AsyncRet(i, vd) ==
    /\ i \in invs /\ i.own = "j" /\ i.st = "run"
    /\ \E j \in jobs :
         /\ j.id = i.id /\ j.st = "wait" /\ i.v \in j.run       \* (results are read after every validator was tried)
         /\ IF i.ctx = "cancel" THEN UNCHANGED exits ELSE Exited(i.id, vd)
         /\ IF vd = "R" /\ j.n > 1
              THEN \* validateTopic breaks out of its loop: the job ends now; deferred cancel() ends the siblings' context
                   /\ OutcomeReady(j, "R") /\ Outcome(j, "R")
                   /\ jobs' = (jobs \ {j}) \cup {[j EXCEPT !.st = "done", !.run = {}, !.acc = "R"]}
                   /\ invs' = {IF y = i THEN [y EXCEPT !.st = "rel"]
                               ELSE IF y.own = "j" /\ y.id = i.id /\ y.st = "run" /\ y.ctx = "live" THEN [y EXCEPT !.ctx = "cancel"] ELSE y : y \in invs}
              ELSE /\ jobs' = (jobs \ {j}) \cup {[j EXCEPT !.run = @ \ {i.v}, !.acc = Comb(@, vd)]}
                   /\ invs' = (invs \ {i}) \cup {[i EXCEPT !.st = "rel"]}
                   /\ UNCHANGED <<sendQ, fin>>
    /\ UNCHANGED <<cfg, regd, used, seen, sent, inbox, loopBlocked, valQ, worker, gUsed, vUsed, now, local,
                   arr, dup, qf, val, drops, entered, appl, aband, badctx>>

\* a validator left running after its job ended (a sibling rejected) returns: nobody reads the verdict
OrphanRet(i) ==
    /\ i \in invs /\ i.own = "j" /\ i.st = "run" /\ ~LiveJob(i.id)
    /\ invs' = (invs \ {i}) \cup {[i EXCEPT !.st = "rel"]}
    /\ UNCHANGED <<cfg, regd, used, seen, sent, inbox, loopBlocked, valQ, worker, jobs, gUsed, vUsed, sendQ, now, local, mons>>

VRelease(i) ==
    /\ i \in invs /\ i.own = "j" /\ i.st = "rel"
    /\ vUsed' = IF i.early THEN vUsed ELSE [vUsed EXCEPT ![i.v] = @ - 1]
    /\ invs' = invs \ {i}
    /\ UNCHANGED <<cfg, regd, used, seen, sent, inbox, loopBlocked, valQ, worker, jobs, gUsed, sendQ, now, local, mons>>

\* single-validator path: the validator's token is released before the result is looked at
Released(j) == j.n > 1 \/ ~\E i \in invs : i.own = "j" /\ i.id = j.id

JobCollect(j) ==
    /\ j \in jobs /\ j.st = "wait" /\ j.run = {} /\ Released(j)
    /\ OutcomeReady(j, j.acc) /\ Outcome(j, j.acc)
    /\ jobs' = (jobs \ {j}) \cup {[j EXCEPT !.st = "done"]}
    /\ UNCHANGED <<cfg, regd, used, seen, sent, inbox, loopBlocked, valQ, worker, gUsed, vUsed, invs, now, local,
                   arr, dup, qf, val, drops, entered, exits, appl, aband, badctx>>

\* (seeded abandonAtTimeout only) the job stops waiting when the deadline of one of its validators passed
JobAbandon(j) ==
    /\ Bug = "abandonAtTimeout" /\ j \in jobs /\ j.st = "wait"
    /\ \E i \in invs : i.own = "j" /\ i.id = j.id /\ i.st = "run" /\ i.ctx = "deadline"
    /\ Final(j.id, "I") /\ aband' = TRUE
    /\ jobs' = (jobs \ {j}) \cup {[j EXCEPT !.st = "done", !.run = {}]}
    /\ UNCHANGED <<cfg, regd, used, seen, sent, inbox, loopBlocked, valQ, worker, gUsed, vUsed, invs, sendQ, now, local,
                   arr, dup, qf, val, drops, entered, exits, appl, badctx>>

GRelease(j) ==
    /\ j \in jobs /\ j.st = "done"
    /\ jobs' = jobs \ {j}
    /\ gUsed' = IF Bug = "leakOnIgnore" /\ fin[j.id] # <<>> /\ fin[j.id][Len(fin[j.id])] = "I" THEN gUsed ELSE gUsed - 1
    /\ worker' = IF j.w # 0 THEN [worker EXCEPT ![j.w] = Idle] ELSE worker
    /\ UNCHANGED <<cfg, regd, used, seen, sent, inbox, loopBlocked, valQ, vUsed, invs, sendQ, now, local, mons>>

-----------------------------------------------------------------------------
\* time

Due(i) == i.st = "run" /\ i.dl # 0 /\ i.ctx = "live" /\ i.dl <= now /\ Bug # "noCancel"

Tick ==
    /\ now < MaxTick /\ ~\E i \in invs : Due(i)       \* a timer fires at its instant
    /\ now' = now + 1
    /\ UNCHANGED <<cfg, regd, used, seen, sent, inbox, loopBlocked, valQ, worker, jobs, gUsed, vUsed, invs, sendQ, local, mons>>

Fire(i) ==
    /\ i \in invs /\ Due(i)
    /\ invs' = (invs \ {i}) \cup {[i EXCEPT !.ctx = "deadline", !.early = (Bug = "releaseAtTimeout" /\ i.own = "j")]}
    /\ vUsed' = IF Bug = "releaseAtTimeout" /\ i.own = "j" THEN [vUsed EXCEPT ![i.v] = @ - 1] ELSE vUsed
    /\ badctx' = (badctx \/ i.dl # now)
    /\ UNCHANGED <<cfg, regd, used, seen, sent, inbox, loopBlocked, valQ, worker, jobs, gUsed, sendQ, now, local,
                   arr, dup, qf, val, fin, drops, entered, exits, appl, aband>>

-----------------------------------------------------------------------------
\* local publish (ValidateLocal): every applicable validator inline on the caller's goroutine, no queue, no token

LocalVals(id) == SortedSeq(Defaults \cup ({regd["T1"]} \ {0}))

LocalStart(id) ==
    /\ local.st = "idle" /\ id \in LocalIds /\ id \notin seen
    /\ seen' = seen \cup {id}
    /\ IF LocalVals(id) = <<>> THEN local' = [st |-> "done", id |-> id, k |-> 0] /\ UNCHANGED invs
       ELSE local' = [st |-> "inline", id |-> id, k |-> 1] /\ invs' = invs \cup {Inv(LocalVals(id)[1], id, "l")}
    /\ UNCHANGED <<cfg, regd, used, sent, inbox, loopBlocked, valQ, worker, jobs, gUsed, vUsed, sendQ, now, mons>>

LocalRet(vd) ==
    /\ local.st = "inline"
    /\ LET i == CHOOSE y \in invs : y.own = "l" IN
       \* (the list is the one captured at the start; registrations do not change while a local publish runs in this model)
       IF vd = "R" \/ local.k = Len(LocalVals(local.id))
         THEN local' = [local EXCEPT !.st = "done"] /\ invs' = invs \ {i}
         ELSE local' = [local EXCEPT !.k = @ + 1] /\ invs' = (invs \ {i}) \cup {Inv(LocalVals(local.id)[local.k + 1], local.id, "l")}
    /\ UNCHANGED <<cfg, regd, used, seen, sent, inbox, loopBlocked, valQ, worker, jobs, gUsed, vUsed, sendQ, now, mons>>

-----------------------------------------------------------------------------
Bursts == UNION {[1..n -> AllIds] : n \in 1..MaxBurst}

Internal ==
    \/ LoopPush \/ LoopUnblock \/ LoopPublish
    \/ \E w \in 1..MaxW : WorkerTake(w) \/ WorkerMark(w) \/ WorkerFinish(w)
    \/ \E j \in jobs : JobTry(j) \/ JobCollect(j) \/ GRelease(j) \/ JobAbandon(j)
    \/ \E i \in invs : VRelease(i) \/ Fire(i)

\* a validator that honours its context returns cfg.tv when the context ends
Honour ==
    \/ \E i \in invs : i.ctx # "live" /\ i.v \notin cfg.deaf /\ (AsyncRet(i, cfg.tv) \/ OrphanRet(i))
    \/ \E w \in 1..MaxW : /\ worker[w].st = "inline"
                          /\ \E i \in invs : i.own = "w" /\ i.id = worker[w].id /\ i.ctx # "live" /\ i.v \notin cfg.deaf
                          /\ InlineRet(w, cfg.tv)
    \/ /\ local.st = "inline" /\ \E i \in invs : i.own = "l" /\ i.ctx # "live" /\ i.v \notin cfg.deaf
       /\ LocalRet(cfg.tv)

HonourEnabled ==
    \E i \in invs : /\ i.st = "run" /\ i.ctx # "live" /\ i.v \notin cfg.deaf
                     /\ (i.own = "j" => ~LiveJob(i.id) \/ \E j \in jobs : j.id = i.id /\ j.st = "wait" /\ i.v \in j.run)

Environment ==
    \/ \E b \in Bursts : LoopArrive(b)
    \/ \E w \in 1..MaxW : Unblock(w)
    \/ \E w \in 1..MaxW, vd \in Verdicts : InlineRet(w, vd)
    \/ \E i \in invs, vd \in Verdicts : AsyncRet(i, vd)
    \/ \E i \in invs : OrphanRet(i)
    \/ \E t \in Topics : LoopUnreg(t)
    \/ \E t \in Topics, v \in 1..NV : LoopReg(t, v)
    \/ \E id \in LocalIds : LocalStart(id)
    \/ \E vd \in Verdicts : LocalRet(vd)
    \/ Tick

Next == Internal \/ Environment
Spec == Init /\ [][Next]_vars
\* for the liveness configuration: the node's own steps, the clock and validators that honour their context are fair
FairSpec == Spec /\ WF_vars(Internal) /\ WF_vars(Tick) /\ WF_vars(Honour)

-----------------------------------------------------------------------------
\* what is enabled without the environment (the node is quiescent when none of this is)
EagerEnabled ==
    \/ (inbox # <<>> /\ ~loopBlocked) \/ (loopBlocked /\ Len(valQ) < QCapEff)
    \/ (LoopFree /\ sendQ # <<>>)
    \/ \E w \in Active : \/ (worker[w].st = "idle" /\ valQ # <<>>) \/ worker[w].st = "mark"
                         \/ (worker[w].st = "fin" /\ (worker[w].res # "A" \/ AsyncOf(worker[w].vals) # {} \/ Len(sendQ) < SendCap))
    \/ \E j \in jobs : \/ j.st \in {"start", "done"}
                       \/ (j.st = "wait" /\ j.run = {} /\ Released(j) /\ OutcomeReady(j, j.acc))
                       \/ (Bug = "abandonAtTimeout" /\ j.st = "wait" /\ \E i \in invs : i.own = "j" /\ i.id = j.id /\ i.st = "run" /\ i.ctx = "deadline")
    \/ \E i \in invs : (i.own = "j" /\ i.st = "rel") \/ Due(i)

-----------------------------------------------------------------------------
\* PROPERTIES (invariants unless stated)

TypeOK ==
    /\ gUsed \in 0..(cfg.gthr + 1) /\ \A v \in 1..NV : vUsed[v] \in -1..(cfg.thr[v] + 1)
    /\ seen \subseteq (AllIds \cup LocalIds) /\ Len(valQ) <= cfg.qcap + 1

\* X10.a -----------------------------------------------------------------------
P_X10a_Bounds ==
    /\ Len(valQ) <= cfg.qcap
    /\ Cardinality({w \in 1..MaxW : worker[w].st # "idle"}) <= cfg.nw
    /\ Cardinality({j \in jobs : j.st # "done"}) <= cfg.gthr
    /\ \A v \in 1..NV : Cardinality({i \in Running("j") : i.v = v}) <= cfg.thr[v]

\* X10.b -----------------------------------------------------------------------
P_X10b_Exact == \A d \in drops : d.ok

\* X10.c -----------------------------------------------------------------------
P_X10c_Conserve ==
    /\ gUsed = Cardinality(jobs)
    /\ \A v \in 1..NV : vUsed[v] = VHolders(v)
P_X10c_Idle == (~EagerEnabled /\ invs = {}) => gUsed = 0 /\ \A v \in 1..NV : vUsed[v] = 0

\* X10.d -----------------------------------------------------------------------
Pending(id) == \/ \E k \in DOMAIN inbox : inbox[k] = id
               \/ \E k \in DOMAIN valQ : valQ[k].id = id
               \/ \E w \in 1..MaxW : worker[w].id = id /\ worker[w].st = "mark"
InPipe(id) == \/ \E w \in 1..MaxW : worker[w].id = id /\ worker[w].st \in {"inline", "fin", "asyncwait"}
              \/ \E j \in jobs : j.id = id /\ j.st # "done"
              \/ \E k \in DOMAIN sendQ : sendQ[k] = id
NPend(id) == Cardinality({k \in DOMAIN inbox : inbox[k] = id}) + Cardinality({k \in DOMAIN valQ : valQ[k].id = id})
             + Cardinality({w \in 1..MaxW : worker[w].id = id /\ worker[w].st = "mark"})
Prescribed(id) == IF "R" \in exits[id] THEN "R"
                  ELSE IF appl[id] \ entered[id] # {} THEN "T"
                  ELSE IF exits[id] \subseteq {"A"} THEN "A" ELSE "I"
P_X10d_Account ==
    \A id \in Ids :
       /\ arr[id] < 3 => arr[id] = dup[id] + qf[id] + val[id] + NPend(id)
       /\ val[id] <= 1
       /\ Len(fin[id]) <= val[id]
       /\ (val[id] = 1 /\ ~InPipe(id)) => Len(fin[id]) = 1
       /\ (Len(fin[id]) = 1 /\ Bug # "abandonAtTimeout") => fin[id][1] = Prescribed(id)
       \* a duplicate only of something that entered validation
       /\ dup[id] > 0 => val[id] > 0
P_X10d_SeenRule == \A id \in Ids : (id \in seen) = (val[id] > 0)

\* X10.e -----------------------------------------------------------------------
P_X10e_Ctx ==
    /\ ~badctx /\ ~aband
    /\ \A i \in invs : /\ i.ctx = "deadline" => i.v \in cfg.tmo /\ i.dl <= now
                       /\ i.ctx = "cancel" => i.own = "j" /\ "R" \in exits[i.id]
                       /\ (i.dl # 0 /\ i.dl < now /\ i.st = "run") => i.ctx # "live"
\* no outcome while a validator of the message still runs, except after a Reject
P_X10e_NoAbandon ==
    \A id \in Ids : (fin[id] # <<>> /\ \E i \in invs : i.id = id /\ i.own # "l" /\ i.st = "run") => fin[id][1] = "R" /\ "R" \in exits[id]
\* (temporal, FairSpec) a validator with a timeout that honours its context returns
P_X10e_Live ==
    \A v \in 1..NV, id \in Ids :
       (\E i \in invs : i.v = v /\ i.id = id /\ i.st = "run" /\ i.dl # 0 /\ i.dl <= MaxTick /\ v \notin cfg.deaf)
          ~> ~(\E i \in invs : i.v = v /\ i.id = id /\ i.st = "run")

\* X10.f -----------------------------------------------------------------------
P_X10f_LoopLive == ~loopBlocked
P_X10f_WorkConserving ==
    ~EagerEnabled =>
       /\ \A w \in 1..MaxW : worker[w].st \in {"idle", "inline", "parked", "fin"}
       /\ valQ # <<>> => \A w \in Active : worker[w].st \in {"inline", "parked", "fin"}
       \* (st = "fin" at quiescence: blocked in sendMsgBlocking, only while the event loop is busy elsewhere - never when LoopFree)
       /\ LoopFree => \A w \in 1..MaxW : worker[w].st # "fin"

\* X10.g -----------------------------------------------------------------------
P_X10g_Applicable == \A id \in Ids : entered[id] \subseteq appl[id]

=============================================================================
