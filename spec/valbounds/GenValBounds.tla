---------------------------- MODULE GenValBounds ----------------------------
(* Scenario generator of the family X10.

   The real node is driven by a harness whose validators BLOCK on gates, so after every stimulus the node runs until
   all of its goroutines are parked.  This module is ValBounds under exactly that discipline: the node's own steps
   (Internal) and the return of validators that honour an ended context (Honour) are EAGER - they have priority over
   stimuli - and the stimuli are what harness/drivers/x10 can do:

     msg{p,m}      a forwarder writes a copy of m                      (LoopArrive of one message)
     burst{p,ms}   ONE RPC with several messages                       (LoopArrive; inside the step the loop races with the workers)
     rel{v,m,r}    open the gate of a running validator with verdict r (InlineRet / AsyncRet / OrphanRet / LocalRet)
     adv           one tick of virtual time (validator timeouts are two ticks)
     block{m} / unblock{m}   park / release a worker with a message whose signature is invalid
     unreg{t} / reg{t,v}     UnregisterTopicValidator / RegisterTopicValidator
     pub{m}        Topic.Publish of a local payload

   The stimulus sequence `hist` is the scenario; it is printed with what the model predicts (`exp`), which the
   orchestrator compares with what the real node did (disagreement = MODEL-DRIFT note, never a verdict).         *)
EXTENDS ValBounds, Json

CONSTANTS L, MinEmit

VARIABLES hist, racy, stale

gvars == <<vars, hist, racy, stale>>

Rec(o) == hist' = Append(hist, o)
Keep   == UNCHANGED <<racy, stale>>
Peer(id) == IF sent[id] = 0 THEN "p1" ELSE "p2"
VNum(vd) == IF vd = "A" THEN 0 ELSE IF vd = "R" THEN 1 ELSE 2

GInit == Init /\ hist = <<>> /\ racy = FALSE /\ stale = {}

Busy == EagerEnabled \/ HonourEnabled

Eager == (Internal \/ Honour) /\ UNCHANGED <<hist, stale>>
         \* two workers / two jobs moving at once race for tokens in the real node: no exact prediction then
         \* (a job goroutine just spawned also races with whatever the worker takes from the queue next)
         /\ racy' = (racy \/ Cardinality({w \in 1..MaxW : worker[w].st \in {"mark", "fin"}}) + Cardinality({j \in jobs : j.st = "start"})
                               + (IF valQ # <<>> /\ \E w \in Active : worker[w].st = "idle" THEN 1 ELSE 0) > 1)

Send(id) == /\ id \in Ids /\ id \notin stale
            /\ Rec([a |-> "msg", p |-> Peer(id), m |-> id]) /\ LoopArrive(<<id>>) /\ Keep
Blk(b)   == /\ b \in Blockers /\ sent[b] = 0 /\ Rec([a |-> "block", m |-> b]) /\ LoopArrive(<<b>>) /\ Keep
SendBurst(b) == /\ Len(b) > 1 /\ \A i \in DOMAIN b : b[i] \in Ids \ stale
                /\ Rec([a |-> "burst", p |-> Peer(b[1]), ms |-> b]) /\ LoopArrive(b)
                /\ racy' = TRUE /\ UNCHANGED stale

Rel ==
    \/ \E w \in 1..MaxW, vd \in Verdicts :
         /\ worker[w].st = "inline"
         /\ Rec([a |-> "rel", v |-> InlineOf(worker[w].vals)[worker[w].k], m |-> worker[w].id, r |-> VNum(vd), loc |-> FALSE])
         /\ InlineRet(w, vd) /\ Keep
    \/ \E i \in invs, vd \in Verdicts :
         /\ Rec([a |-> "rel", v |-> i.v, m |-> i.id, r |-> VNum(vd), loc |-> FALSE]) /\ AsyncRet(i, vd) /\ Keep
    \/ \E i \in invs :
         /\ Rec([a |-> "rel", v |-> i.v, m |-> i.id, r |-> 0, loc |-> FALSE]) /\ OrphanRet(i) /\ Keep
    \/ \E vd \in Verdicts :
         /\ local.st = "inline"
         /\ Rec([a |-> "rel", v |-> LocalVals(local.id)[local.k], m |-> local.id, r |-> VNum(vd), loc |-> TRUE]) /\ LocalRet(vd) /\ Keep

Unb == \E w \in 1..MaxW : worker[w].st = "parked" /\ Rec([a |-> "unblock", m |-> worker[w].id]) /\ Unblock(w) /\ Keep

Stale(t) == stale' = stale \cup {id \in Ids : TopicOf(id) = t /\ sent[id] > 0}
Unreg(t) == Rec([a |-> "unreg", t |-> t, v |-> 0]) /\ LoopUnreg(t) /\ Stale(t) /\ UNCHANGED racy
Reg(t, v) == Rec([a |-> "reg", t |-> t, v |-> v]) /\ LoopReg(t, v) /\ Stale(t) /\ UNCHANGED racy

Adv == Rec([a |-> "adv"]) /\ Tick /\ Keep
Pub(id) == Rec([a |-> "pub", m |-> id]) /\ LocalStart(id) /\ Keep

Stimulus ==
    /\ Len(hist) < L
    /\ \/ \E id \in Ids : Send(id)
       \/ \E b \in Blockers : Blk(b)
       \/ \E b \in Bursts : SendBurst(b)
       \/ Rel \/ Unb \/ Adv
       \/ \E t \in Topics : Unreg(t)
       \/ \E t \in Topics, v \in 1..NV : Reg(t, v)
       \/ \E id \in LocalIds : Pub(id)

GNext == IF Busy THEN Eager ELSE Stimulus
GSpec == GInit /\ [][GNext]_gvars

Drained == /\ invs = {} /\ valQ = <<>> /\ \A w \in 1..MaxW : worker[w].st = "idle" /\ local.st # "inline" /\ jobs = {}

KindsOf == {d.why : d \in drops}
Exp == [ fin |-> [i \in Ids |-> fin[i]], dup |-> dup, qf |-> qf, val |-> val,
         drops |-> SortedSeq({IF d.why = "Q" THEN 1 ELSE 2 : d \in drops}),
         racy |-> racy, drained |-> Drained, now |-> now ]

CfgJson == [ qcap |-> cfg.qcap, nw |-> cfg.nw, gthr |-> cfg.gthr, tv |-> VNum(cfg.tv),
             vals |-> [v \in 1..NV |-> [v |-> v, top |-> cfg.top[v], inl |-> v \in cfg.inl, thr |-> cfg.thr[v],
                                        tmo |-> v \in cfg.tmo, deaf |-> v \in cfg.deaf]] ]

Emit == (~Busy /\ Len(hist) >= MinEmit /\ (Drained \/ Len(hist) = L)) =>
            PrintT(<<"SCN", ToJson([cfg |-> CfgJson, acts |-> hist, exp |-> Exp])>>)

\* the model's own properties hold on everything it generates (a failure here is a machinery problem)
GenOK == P_X10a_Bounds /\ P_X10b_Exact /\ P_X10c_Conserve /\ P_X10d_Account /\ P_X10e_Ctx /\ P_X10e_NoAbandon
         /\ P_X10f_LoopLive /\ P_X10f_WorkConserving /\ P_X10g_Applicable
=============================================================================
