--------------------------- MODULE ValBoundsTrace ---------------------------
(* Trace specification of the extension family X10 (resource bounds and timing of the
   validation pipeline, validation.go).  See ValBounds.tla for the properties X10.a .. X10.g
   and the lock-/channel-grain model; this module judges what the REAL node did.

   The file is a concatenation of scenarios recorded by harness/drivers/x10 (one line per
   stimulus, taken at quiescence; first a reset line).  A line carries

     ev   the ordered list of everything that happened in the step (one global counter g):
            Arr    a copy of m from peer p reached the event loop
            Val    tracer ValidateMessage  (a worker took the copy; the id is now in the seen cache)
            Dup    tracer DuplicateMessage
            Rej    tracer RejectMessage, why = Q queue full / T throttled / R failed / I ignored / S bad signature (blockers)
            Dlv    tracer DeliverMessage      Dl   a Subscription.Next result
            Enter  validator v invoked for m (dl = ms to the deadline of its context, -1 none; loc = local publish)
            Ctx    the context of that invocation ended while it ran (how = deadline | cancel)
            Exit   the invocation returned r (0 accept, 1 reject, 2 ignore)
     x    the state of the real pipeline at quiescence: q / g / vt[v] = len() of validateQ, of the global
          throttle and of validator v's own throttle; wk / jobs = goroutines in validateWorker / doValidateTopic;
          ping = the event loop answered an evaluation; pen = invalid-message counters of the score

   In-flight counts are RECOMPUTED from Enter/Exit, queue occupancy from Arr/Val/Dup/Rej; the predicates compare them
   with the configured capacities and with x.  Steps are separated by quiescence: whatever is concurrent INSIDE a
   step (two workers, a burst) is tolerated by over-approximating who MAY hold a token ("May" sets below); between
   steps the counts are exact, which is what makes the boundary cases (k-th accepted, (k+1)-th dropped) sharp.

   The walk is deterministic (one cursor); a failing predicate prints <<"VIOL", json>> and the walk goes on.      *)
EXTENDS Integers, Sequences, FiniteSets, TLC, Json

Trace == ndJsonDeserialize("trace.ndjson")

VARIABLES l,      \* cursor (next line to read)
          scn, cfg,
          E,      \* every event of the current scenario so far (each carries its step s)
          cur,    \* number of the step just read
          regs,   \* successful changes of topic validators: sequence of [s, top, v]  (v = 0: unregistered)
          q0,     \* queue occupancy (recomputed from events) BEFORE the step just read
          qocc,   \* ... and after it
          unb,    \* blockers released so far (including by the step just read)
          pen0,   \* invalid-message counters before the step just read
          dead    \* the scenario was aborted by the driver (event loop did not answer): only LoopLive is judged afterwards

tvars == <<l, scn, cfg, E, cur, regs, q0, qocc, unb, pen0, dead>>

More  == l <= Len(Trace)
Ln    == Trace[l - 1]         \* the line just read (used in the state AFTER a step)
Range(s) == {s[i] : i \in DOMAIN s}
Card(S) == Cardinality(S)

Report(pred, m, what, info) ==
    PrintT(<<"VIOL", ToJson([scn |-> scn, line |-> l - 1, step |-> cur, pred |-> pred, m |-> m, what |-> what, info |-> info])>>)

-----------------------------------------------------------------------------
\* configuration

VC(v)     == CHOOSE x \in Range(cfg.vals) : x.v = v
Known(v)  == \E x \in Range(cfg.vals) : x.v = v
Async(v)  == ~VC(v).inl
Defaults  == {x.v : x \in {y \in Range(cfg.vals) : y.top = "D"}}
InitTV(tp) == LET S == {x.v : x \in {y \in Range(cfg.vals) : y.top = tp}} IN IF S = {} THEN 0 ELSE CHOOSE v \in S : TRUE
\* the validator of topic tp as seen by a copy pushed in step s (registrations change in steps of their own)
TopicVal(tp, s) ==
    LET C == {i \in DOMAIN regs : regs[i].top = tp /\ regs[i].s < s} IN
    IF C = {} THEN InitTV(tp) ELSE regs[CHOOSE i \in C : \A j \in C : j <= i].v
CurTV(tp) == TopicVal(tp, cur + 1)

-----------------------------------------------------------------------------
\* events

N == Len(E)
Idx(P(_)) == {i \in 1..N : P(E[i])}
NewIdx == {i \in 1..N : E[i].s = cur}
Remote(e) == ~e.loc /\ e.tp # "B"
IsFinal(e) == ~e.loc /\ (e.k = "Dlv" \/ (e.k = "Rej" /\ e.why \in {"R", "I", "T"}))
Msgs == {E[i].m : i \in {j \in 1..N : E[j].tp # "B" /\ ~E[j].loc /\ E[j].k \in {"Arr", "Val", "Dup", "Rej", "Dlv", "Enter"}}}

FirstArrStep(m) == LET S == {i \in 1..N : E[i].k = "Arr" /\ E[i].m = m} IN
                   IF S = {} THEN cur ELSE E[CHOOSE i \in S : \A j \in S : i <= j].s
TopicOfMsg(m) == LET S == {i \in 1..N : E[i].m = m /\ E[i].tp # "B"} IN IF S = {} THEN "T1" ELSE E[CHOOSE i \in S : TRUE].tp
\* the validators captured by getValidators when the (first) copy of m was pushed
Appl(m) == Defaults \cup ({TopicVal(TopicOfMsg(m), FirstArrStep(m))} \ {0})
HasAsync(m) == \E v \in Appl(m) : Async(v)

SameInv(a, b) == a.v = b.v /\ a.m = b.m /\ a.loc = b.loc
\* invocations entered at or before index i and not returned by index i
Open(i) == {j \in 1..i : E[j].k = "Enter" /\ ~\E x \in (j + 1)..i : E[x].k = "Exit" /\ SameInv(E[x], E[j])}
ValIdx(m) == {i \in 1..N : E[i].k = "Val" /\ E[i].m = m}
FinalIdx(m) == {i \in 1..N : IsFinal(E[i]) /\ E[i].m = m}
FinalBy(m, i) == \E j \in FinalIdx(m) : j <= i                 \* an outcome of m was traced at or before index i
FinalBeforeStep(m, s) == \E j \in FinalIdx(m) : E[j].s < s
\* blockers that certainly occupy a worker at index i of step s: reported (Rej S) and not released up to and including step s
Parked(i) == {E[j].m : j \in {x \in 1..i : E[x].k = "Rej" /\ E[x].why = "S"}} \ unb

OpenRemote(i)  == {j \in Open(i) : ~E[j].loc}
OpenAsyncOf(v, i) == {j \in OpenRemote(i) : E[j].v = v}
OpenInline(i)  == {j \in OpenRemote(i) : ~Async(E[j].v)}
\* messages that certainly hold a token of the global throttle at index i: an asynchronous validator is running and no outcome yet
Holders(i) == {E[j].m : j \in {x \in OpenRemote(i) : Async(E[x].v) /\ ~FinalBy(E[x].m, i)}}

-----------------------------------------------------------------------------
\* X10.a  bounds, at every instant (in-flight counts only grow at an Enter)

BoundsAt(i) ==
    LET e == E[i] IN
    IF e.k # "Enter" \/ e.loc THEN TRUE
    ELSE IF Async(e.v)
      THEN /\ IF Card(OpenAsyncOf(e.v, i)) <= VC(e.v).thr THEN TRUE
              ELSE Report("P_X10a_ValidatorBound", e.m, "more concurrent invocations of an asynchronous validator than its WithValidatorConcurrency",
                          [v |-> e.v, inflight |-> Card(OpenAsyncOf(e.v, i)), cap |-> VC(e.v).thr])
           /\ IF Card(Holders(i)) <= cfg.gthr THEN TRUE
              ELSE Report("P_X10a_GlobalBound", e.m, "more messages under asynchronous validation than WithValidateThrottle",
                          [v |-> e.v, inflight |-> Card(Holders(i)), cap |-> cfg.gthr])
      ELSE IF Card(OpenInline(i)) + Card(Parked(i)) <= cfg.nw THEN TRUE
           ELSE Report("P_X10a_WorkerBound", e.m, "more concurrent synchronous validations than WithValidateWorkers",
                       [v |-> e.v, inflight |-> Card(OpenInline(i)) + Card(Parked(i)), cap |-> cfg.nw])

-----------------------------------------------------------------------------
\* X10.b  exactness: nothing is dropped for lack of capacity while capacity is free

CountIn(s, P(_)) == Card({i \in 1..N : E[i].s = s /\ P(E[i])})
\* queue-full at index i of step cur: copies that may sit in the queue at the decision
QMay(i) == q0 + Card({j \in 1..(i - 1) : E[j].s = cur /\ E[j].k = "Arr"}) - 1
              - Card({j \in 1..(i - 1) : E[j].s = cur /\ E[j].k = "Rej" /\ E[j].why = "Q"})

\* The decision to throttle m is taken when its job starts, i.e. (when some of its asynchronous validators were invoked) at the
\* last such Enter; the outcome is traced only after those validators returned.  d = index of the decision, sd = its step.
AsyncEnters(m, i) == {j \in 1..(i - 1) : E[j].k = "Enter" /\ E[j].m = m /\ ~E[j].loc /\ Async(E[j].v)}
DecisionIdx(m, i) == IF AsyncEnters(m, i) = {} THEN i ELSE CHOOSE j \in AsyncEnters(m, i) : \A x \in AsyncEnters(m, i) : x <= j
FinalBeforeS(mm, sd) == \E j \in FinalIdx(mm) : E[j].s < sd
\* Everything below compares STEPS only: whatever moved in the step of the decision may have held a token at the decision
\* (two jobs started in one step race for the tokens and their events may be stamped in either order); states that did not
\* change in that step are exact.
\* mm sits inside an inline validator since before step sd and is still there when step sd ends: it holds no token in step sd
SureInline(mm, sd) == \E j \in 1..N : /\ E[j].k = "Enter" /\ E[j].m = mm /\ ~E[j].loc /\ ~Async(E[j].v) /\ E[j].s < sd
                                       /\ ~\E x \in (j + 1)..N : E[x].k = "Exit" /\ SameInv(E[x], E[j]) /\ E[x].s <= sd
ValByS(mm, sd) == \E j \in ValIdx(mm) : E[j].s <= sd
GlobalMay(m, sd) == {mm \in Msgs \ {m} : ValByS(mm, sd) /\ HasAsync(mm) /\ ~FinalBeforeS(mm, sd) /\ ~SureInline(mm, sd)}
EnteredByS(v, mm, sd) == \E j \in 1..N : E[j].k = "Enter" /\ E[j].v = v /\ E[j].m = mm /\ ~E[j].loc /\ E[j].s <= sd
ExitedBeforeS(v, mm, sd) == \E j \in 1..N : E[j].k = "Exit" /\ E[j].v = v /\ E[j].m = mm /\ ~E[j].loc /\ E[j].s < sd
VMay(v, m, sd) == {mm \in Msgs \ {m} : /\ v \in Appl(mm) /\ ValByS(mm, sd) /\ ~SureInline(mm, sd)
                                       /\ IF EnteredByS(v, mm, sd) THEN ~ExitedBeforeS(v, mm, sd) ELSE ~FinalBeforeS(mm, sd)}
ThrottleJustified(m, i) ==
    LET d  == DecisionIdx(m, i)
        sd == E[d].s
        tried == {v \in Appl(m) : Async(v) /\ ~\E j \in AsyncEnters(m, i) : E[j].v = v} IN     \* asynchronous validators that were not invoked
    \/ AsyncEnters(m, i) = {} /\ Card(GlobalMay(m, sd)) >= cfg.gthr
    \/ \E v \in tried : Card(VMay(v, m, sd)) >= VC(v).thr

ExactAt(i) ==
    LET e == E[i] IN
    IF e.k # "Rej" \/ e.loc THEN TRUE
    ELSE IF e.why = "Q"
      THEN IF QMay(i) >= cfg.qcap THEN TRUE
           ELSE Report("P_X10b_QueueFullExact", e.m, "dropped as 'validation queue full' although the queue held fewer requests than its size",
                       [mayhold |-> QMay(i), cap |-> cfg.qcap, v |-> 0])
    ELSE IF e.why = "T"
      THEN IF ThrottleJustified(e.m, i) THEN TRUE
           ELSE Report("P_X10b_ThrottleExact", e.m, "dropped as 'validation throttled' although neither the global nor an applicable validator's throttle was exhausted",
                       [mayhold |-> Card(GlobalMay(e.m, E[DecisionIdx(e.m, i)].s)), cap |-> cfg.gthr,
                        v |-> {<<v, Card(VMay(v, e.m, E[DecisionIdx(e.m, i)].s)), VC(v).thr>> : v \in {u \in Appl(e.m) : Async(u)}}])
    ELSE TRUE

-----------------------------------------------------------------------------
\* X10.e  timeouts and contexts

EnterOf(i) == LET S == {j \in 1..(i - 1) : E[j].k = "Enter" /\ SameInv(E[j], E[i])} IN
              IF S = {} THEN 0 ELSE CHOOSE j \in S : \A x \in S : x <= j
TimeoutAt(i) ==
    LET e == E[i] IN
    IF e.k = "Enter" /\ Known(e.v)
      THEN IF e.dl = (IF VC(e.v).tmo > 0 THEN VC(e.v).tmo ELSE -1) THEN TRUE
           ELSE Report("P_X10e_Deadline", e.m, "the context handed to the validator does not carry exactly the configured timeout",
                       [v |-> e.v, got |-> e.dl, want |-> VC(e.v).tmo, how |-> "enter"])
    ELSE IF e.k = "Ctx" /\ Known(e.v)
      THEN LET j == EnterOf(i) IN
           IF j = 0 THEN TRUE
           ELSE IF e.how = "deadline"
             THEN IF VC(e.v).tmo > 0 /\ e.t = E[j].t + VC(e.v).tmo THEN TRUE
                  ELSE Report("P_X10e_Deadline", e.m, "the validator's context ended by deadline at another instant than call + timeout",
                              [v |-> e.v, got |-> e.t - E[j].t, want |-> VC(e.v).tmo, how |-> "deadline"])
             ELSE \* cancelled: only because a sibling validator of the same message rejected (validateTopic gives up on the rest)
                  IF \E x \in 1..(i - 1) : E[x].k = "Exit" /\ E[x].m = e.m /\ E[x].r = 1 /\ E[x].v # e.v /\ E[x].loc = e.loc THEN TRUE
                  ELSE Report("P_X10e_Deadline", e.m, "the validator's context was cancelled while the node runs and no sibling validator had rejected",
                              [v |-> e.v, got |-> e.t - E[j].t, want |-> VC(e.v).tmo, how |-> "cancel"])
    ELSE IF IsFinal(e)
      THEN \* the pipeline never abandons a running validator: an outcome is traced only after every invoked validator returned
           \* (except the siblings of a validator that rejected)
           LET run == {j \in OpenRemote(i) : E[j].m = e.m}
               rej == \E x \in 1..(i - 1) : E[x].k = "Exit" /\ E[x].m = e.m /\ E[x].r = 1 /\ ~E[x].loc IN
           IF run = {} \/ (e.k = "Rej" /\ e.why = "R" /\ rej) THEN TRUE
           ELSE Report("P_X10e_NoAbandon", e.m, "an outcome was traced while a validator of the message was still running",
                       [v |-> {E[j].v : j \in run}, got |-> 0, want |-> 0, how |-> e.k \o e.why])
    ELSE TRUE

\* a context with a deadline that has passed has ended (the validator saw it, or had returned before)
FiresAtEnd ==
    \A j \in Open(N) :
       IF Known(E[j].v) /\ VC(E[j].v).tmo > 0 /\ E[j].t + VC(E[j].v).tmo < Ln.t
            => \E x \in (j + 1)..N : E[x].k = "Ctx" /\ SameInv(E[x], E[j]) THEN TRUE     \* (by its deadline, or earlier by a rejecting sibling)
       ELSE Report("P_X10e_Fires", E[j].m, "the timeout of a running validator passed and its context was not cancelled",
                   [v |-> E[j].v, got |-> Ln.t - E[j].t, want |-> VC(E[j].v).tmo, how |-> "missing"])

-----------------------------------------------------------------------------
\* X10.c / X10.d / X10.f  at quiescence (end of every step)

X == Ln.x
Pending == {m \in Msgs : ValIdx(m) # {} /\ FinalIdx(m) = {}}          \* taken by a worker, no outcome yet
VTok(v) == IF v <= Len(X.vt) THEN X.vt[v] ELSE -1

Quiescent ==
    \* ---- X10.f the event loop is never blocked by the pipeline
    /\ IF X.parked \/ X.ping THEN TRUE
       ELSE Report("P_X10f_LoopLive", "*", "the event loop did not answer an evaluation after the pipeline settled", [kind |-> "ping", a |-> 0, b |-> 0])
    /\ X.ping =>
        \* ---- X10.a / X10.d queue: bound, and no copy lost or invented (what the events say sits in the queue = what the real queue holds)
        /\ IF qocc <= cfg.qcap /\ X.q <= cfg.qcap THEN TRUE
           ELSE Report("P_X10a_QueueBound", "*", "more requests queued than WithValidateQueueSize", [kind |-> "queue", a |-> qocc, b |-> X.q])
        /\ IF qocc = X.q THEN TRUE
           ELSE Report("P_X10d_NoSilentLoss", "*", "copies that arrived and got no disposition differ from what the validation queue holds",
                       [kind |-> "queue", a |-> qocc, b |-> X.q])
        \* ---- X10.c tokens in use = validations in flight
        /\ IF X.g = Card(Holders(N)) THEN TRUE
           ELSE Report("P_X10c_Conserve", "*", "tokens of the global throttle in use differ from the messages under asynchronous validation",
                       [kind |-> "global", a |-> X.g, b |-> Card(Holders(N))])
        /\ \A v \in 1..cfg.nv :
             IF ~Known(v) \/ VTok(v) < 0 \/ VTok(v) = (IF Async(v) THEN Card(OpenAsyncOf(v, N)) ELSE 0) THEN TRUE
             ELSE Report("P_X10c_Conserve", "*", "tokens of a validator's throttle in use differ from its invocations in flight",
                         [kind |-> "validator", a |-> VTok(v), b |-> IF Async(v) THEN Card(OpenAsyncOf(v, N)) ELSE 0])
        /\ IF X.jobs = X.g THEN TRUE
           ELSE Report("P_X10c_Conserve", "*", "asynchronous validation goroutines alive differ from the tokens of the global throttle in use",
                       [kind |-> "goroutines", a |-> X.jobs, b |-> X.g])
        /\ IF X.wk = cfg.nw THEN TRUE
           ELSE Report("P_X10a_WorkerBound", "*", "the number of validation worker goroutines is not WithValidateWorkers", [kind |-> "workers", a |-> X.wk, b |-> cfg.nw])
        \* ---- X10.f work conserving: nothing waits in the queue while a worker is idle; what a worker took is decided or inside a validator
        /\ IF qocc > 0 => Card(OpenInline(N)) + Card(Parked(N)) >= cfg.nw THEN TRUE
           ELSE Report("P_X10f_WorkConserving", "*", "requests wait in the validation queue although a worker is neither inside an inline validator nor parked",
                       [kind |-> "idle", a |-> qocc, b |-> Card(OpenInline(N)) + Card(Parked(N))])
        /\ \A m \in Pending :
             IF \E j \in OpenRemote(N) : E[j].m = m THEN TRUE
             ELSE Report("P_X10f_WorkConserving", m, "a message taken by a worker has no outcome and is inside no validator", [kind |-> "stuck", a |-> 0, b |-> 0])
        /\ FiresAtEnd
        \* validateTopic gives up on the siblings of a validator that rejected: their context has ended by now
        /\ \A j \in OpenRemote(N) :
             IF (Async(E[j].v) /\ \E f \in FinalIdx(E[j].m) : f > j /\ E[f].k = "Rej" /\ E[f].why = "R")
                  => \E x \in (j + 1)..N : E[x].k = "Ctx" /\ SameInv(E[x], E[j]) THEN TRUE
             ELSE Report("P_X10e_CancelOnReject", E[j].m, "a sibling validator rejected the message and the context of a validator still running was not cancelled",
                         [kind |-> "orphan", a |-> E[j].v, b |-> 0])
    /\ X.parked =>
        \* (event loop parked by the scenario: accepted messages back up in sendMsg; only the two-sided bound holds)
        \* messages whose validators have all returned wait for the hand-off: sendMsg buffers cfg.sendCap of them, the others
        \* are goroutines blocked in sendMsgBlocking that still hold their token
        /\ LET waiting == {m \in Pending : HasAsync(m) /\ ~\E j \in OpenRemote(N) : E[j].m = m} IN
           IF /\ Card(Holders(N)) + (IF Card(waiting) > cfg.sendCap THEN Card(waiting) - cfg.sendCap ELSE 0) <= X.g
              /\ X.g <= Card(Pending) /\ X.g <= cfg.gthr /\ X.jobs = X.g THEN TRUE
           ELSE Report("P_X10c_Conserve", "*", "tokens of the global throttle in use / validation goroutines alive outside what the pending messages allow (event loop parked)",
                       [kind |-> "global-parked", a |-> <<X.g, X.jobs>>, b |-> <<Card(Holders(N)), Card(waiting), Card(Pending)>>])

\* a penalty counter may move only in a step in which a rejection ('validation failed') or a duplicate was traced
PenOf(P, p) == LET S == {x \in Range(P) : x.p = p} IN IF S = {} THEN 0 ELSE (CHOOSE x \in S : TRUE).n
PenStep ==
    LET moved == {x.p : x \in {y \in Range(X.pen) : y.n # PenOf(pen0, y.p)}}
        cause == \E i \in NewIdx : E[i].k = "Dup" \/ (E[i].k = "Rej" /\ E[i].why = "R") IN
    IF moved = {} \/ cause THEN TRUE
    ELSE Report("P_X10d_NoPenalty", "*", "an invalid-message counter moved in a step with neither a failed validation nor a duplicate (throttled / queue-full copies carry no penalty)",
                [kind |-> "pen", a |-> moved, b |-> 0])

\* registration calls
RegStep ==
    IF Ln.a \notin {"reg", "unreg"} THEN TRUE
    ELSE LET had == TopicVal(Ln.act.top, cur) # 0
             wantErr == IF Ln.a = "reg" THEN had ELSE ~had IN
         /\ IF Ln.act.ret THEN TRUE
            ELSE Report("P_X10f_LoopLive", "*", "RegisterTopicValidator / UnregisterTopicValidator did not return", [kind |-> Ln.a, a |-> 0, b |-> 0])
         /\ IF Ln.act.ret => ((Ln.act.err # "") = wantErr) THEN TRUE
            ELSE Report("P_X10g_Registration", "*", "wrong result of a (un)registration (duplicate registrations and removals of nothing are errors, the rest succeeds)",
                        [kind |-> Ln.a, a |-> Ln.act.err, b |-> wantErr])

\* a local publish is validated on the caller's goroutine whatever the state of the queue and of the throttles
PubStep ==
    IF Ln.a # "pub" THEN TRUE
    ELSE IF (Defaults \cup ({CurTV("T1")} \ {0})) = {} \/ \E i \in NewIdx : E[i].loc /\ E[i].k \in {"Enter", "PubRet"} /\ E[i].m = Ln.act.m THEN TRUE
         ELSE Report("P_X10f_LocalUnaffected", Ln.act.m, "a local publish was not validated at once (local validation takes neither queue slot nor token)", [kind |-> "pub", a |-> 0, b |-> 0])

-----------------------------------------------------------------------------
\* X10.d  accounting, per message, once everything has returned (`end` line)

Cnt(m, P(_)) == Card({i \in 1..N : E[i].m = m /\ ~E[i].loc /\ P(E[i])})
ExitsOf(m) == {E[i].r : i \in {j \in 1..N : E[j].k = "Exit" /\ E[j].m = m /\ ~E[j].loc /\ E[j].how # "cancel"}}
EnteredSet(m) == {E[i].v : i \in {j \in 1..N : E[j].k = "Enter" /\ E[j].m = m /\ ~E[j].loc}}
Prescribed(m) == IF 1 \in ExitsOf(m) THEN "R"
                 ELSE IF Appl(m) \ EnteredSet(m) # {} THEN "T"
                 ELSE IF ExitsOf(m) \subseteq {0} THEN "A" ELSE "I"
ObsFinals(m) == {IF E[i].k = "Dlv" THEN "A" ELSE E[i].why : i \in FinalIdx(m)}

Account(m) ==
    LET nArr == Cnt(m, LAMBDA e : e.k = "Arr")
        nDup == Cnt(m, LAMBDA e : e.k = "Dup")
        nQ   == Cnt(m, LAMBDA e : e.k = "Rej" /\ e.why = "Q")
        nVal == Cnt(m, LAMBDA e : e.k = "Val")
        nFin == Card(FinalIdx(m))
        nDlv == Cnt(m, LAMBDA e : e.k = "Dlv")
        nDl  == Cnt(m, LAMBDA e : e.k = "Dl")
        odd  == Cnt(m, LAMBDA e : e.k = "Rej" /\ e.why \notin {"Q", "T", "R", "I"}) IN
    /\ IF nArr = nDup + nQ + nVal /\ odd = 0 THEN TRUE
       ELSE Report("P_X10d_Account", m, "copies that arrived are not each accounted for by exactly one of duplicate / queue full / entered validation",
                   [arr |-> nArr, dup |-> nDup, qfull |-> nQ, val |-> nVal, fin |-> nFin, odd |-> odd])
    \* (a Subscription whose 32-slot buffer is full loses deliveries by design - "subscriber too slow" -: nDl <= nDlv only)
    /\ IF nVal <= 1 /\ nFin = nVal /\ nDl <= nDlv THEN TRUE
       ELSE Report("P_X10d_Account", m, "a message that entered validation does not end in exactly one outcome (or entered twice, or Deliver without delivery)",
                   [arr |-> nArr, dup |-> nDup, qfull |-> nQ, val |-> nVal, fin |-> nFin, odd |-> nDl - nDlv])
    \* queue-full copies leave no mark in the seen cache; throttled ones do (the id was marked before the throttle was tried)
    /\ \A i \in {j \in 1..N : E[j].k = "Dup" /\ E[j].m = m} :
         \* (two workers may trace Duplicate / Validate of two copies in either order inside one step)
         IF \E j \in ValIdx(m) : j < i \/ E[j].s = E[i].s THEN TRUE
         ELSE Report("P_X10d_Seen", m, "a copy was dropped as duplicate although the message had never entered validation (a queue-full drop must not mark the id seen)",
                     [arr |-> nArr, dup |-> nDup, qfull |-> nQ, val |-> nVal, fin |-> nFin, odd |-> 0])
    /\ IF nVal = 1 /\ nFin = 1 => ObsFinals(m) = {Prescribed(m)} THEN TRUE
       ELSE Report("P_X10d_Cause", m, "the traced outcome is not the one the cause prescribes (reject > throttled > ignore > accept)",
                   [arr |-> Prescribed(m), dup |-> ObsFinals(m), qfull |-> ExitsOf(m), val |-> Appl(m), fin |-> EnteredSet(m), odd |-> 0])
    /\ IF EnteredSet(m) \subseteq Appl(m) THEN TRUE
       ELSE Report("P_X10g_Applicable", m, "judged by a validator that was not registered for it when it was pushed",
                   [arr |-> 0, dup |-> 0, qfull |-> 0, val |-> Appl(m), fin |-> EnteredSet(m), odd |-> 0])

AtEnd ==
    /\ \A m \in Msgs : Account(m)
    /\ IF Open(N) = {} /\ X.g = 0 /\ X.q = 0 /\ X.jobs = 0 /\ \A v \in 1..Len(X.vt) : X.vt[v] <= 0 THEN TRUE
       ELSE Report("P_X10c_Conserve", "*", "after every validator returned the pipeline is not empty again (token or request left behind)",
                   [kind |-> "final", a |-> <<X.g, X.q, X.jobs>>, b |-> X.vt])

-----------------------------------------------------------------------------
\* option lines (TestX10Options)
OptLine(o) ==
    LET refused == o.err # "" IN
    IF o.opt \in {"queue", "workers", "throttle"}
      THEN IF o.panic = "" /\ (IF o.n <= 0 THEN refused ELSE ~refused /\ o.got = o.n) THEN TRUE
           ELSE PrintT(<<"VIOL", ToJson([scn |-> o.scn, line |-> l - 1, step |-> 0, pred |-> "P_X10g_Options", m |-> o.opt,
                                         what |-> "a non-positive size must be refused with an error, a positive one must be what is allocated",
                                         info |-> [opt |-> o.opt, n |-> o.n, err |-> o.err, panic |-> o.panic, got |-> o.got]])>>)
    ELSE IF o.opt = "vconc"
      THEN IF o.panic = "" /\ ~refused /\ o.got = (IF o.n > 0 THEN o.n ELSE 1024) THEN TRUE
           ELSE PrintT(<<"VIOL", ToJson([scn |-> o.scn, line |-> l - 1, step |-> 0, pred |-> "P_X10g_Options", m |-> o.opt,
                                         what |-> "WithValidatorConcurrency: a positive value is the capacity, anything else means the default 1024",
                                         info |-> [opt |-> o.opt, n |-> o.n, err |-> o.err, panic |-> o.panic, got |-> o.got]])>>)
    ELSE IF o.panic = "" /\ ~refused /\ o.got = (IF o.n > 0 THEN o.n ELSE 0) THEN TRUE
         ELSE PrintT(<<"VIOL", ToJson([scn |-> o.scn, line |-> l - 1, step |-> 0, pred |-> "P_X10g_Options", m |-> o.opt,
                                       what |-> "WithValidatorTimeout: a positive value is the timeout, anything else means none",
                                       info |-> [opt |-> o.opt, n |-> o.n, err |-> o.err, panic |-> o.panic, got |-> o.got]])>>)

-----------------------------------------------------------------------------
TInit == /\ TLCSet(1, 0) /\ l = 1 /\ scn = -1
         /\ cfg = [qcap |-> 1, nw |-> 1, gthr |-> 1, nv |-> 0, sendCap |-> 32, vals |-> <<>>]
         /\ E = <<>> /\ cur = 0 /\ regs = <<>> /\ q0 = 0 /\ qocc = 0 /\ unb = {} /\ pen0 = <<>> /\ dead = FALSE

TReset ==
    /\ More /\ Trace[l].a = "reset"
    /\ scn' = Trace[l].scn /\ cfg' = Trace[l].cfg
    /\ E' = <<>> /\ cur' = 0 /\ regs' = <<>> /\ q0' = 0 /\ qocc' = 0 /\ unb' = {} /\ pen0' = <<>> /\ dead' = FALSE
    /\ l' = l + 1
    \* what the node allocated is what was configured
    /\ LET c == Trace[l].cfg IN
       IF c.qcapReal = c.qcap /\ c.gthrReal = c.gthr /\ c.nwReal = c.nw /\ c.wk = c.nw /\ \A x \in Range(c.vals) : x.cap < 0 \/ x.cap = x.thr THEN TRUE
       ELSE PrintT(<<"VIOL", ToJson([scn |-> Trace[l].scn, line |-> l, step |-> 0, pred |-> "P_X10g_Options", m |-> "*",
                                     what |-> "the capacities the node allocated differ from the configured ones",
                                     info |-> [opt |-> "alloc", n |-> 0, err |-> "", panic |-> "", got |-> <<c.qcapReal, c.gthrReal, c.nwReal, c.wk>>]])>>)

TOpt ==
    /\ More /\ Trace[l].a = "opt"
    /\ l' = l + 1 /\ UNCHANGED <<scn, cfg, E, cur, regs, q0, qocc, unb, pen0, dead>>
    /\ OptLine(Ln)'

Delta(evs) == Card({i \in DOMAIN evs : evs[i].k = "Arr"})
              - Card({i \in DOMAIN evs : ~evs[i].loc /\ (evs[i].k \in {"Dup", "Val"} \/ (evs[i].k = "Rej" /\ evs[i].why \in {"Q", "S"}))})

TStep ==
    /\ More /\ Trace[l].a \notin {"reset", "opt"}
    /\ LET ln == Trace[l] IN
       /\ l' = l + 1 /\ UNCHANGED <<scn, cfg>>
       /\ cur' = ln.i
       /\ E' = E \o ln.ev
       /\ q0' = qocc /\ qocc' = qocc + Delta(ln.ev)
       /\ pen0' = IF l > 1 /\ Trace[l - 1].a \notin {"reset", "opt"} THEN Trace[l - 1].x.pen ELSE ln.x.pen
       /\ unb' = IF ln.a = "unblock" THEN unb \cup {ln.act.m}
                 ELSE IF ln.a \in {"drain", "end", "abort"} THEN unb \cup {e.m : e \in {x \in Range(E \o ln.ev) : x.tp = "B"}} ELSE unb
       /\ regs' = IF ln.a \in {"reg", "unreg"} /\ ln.act.ret /\ ln.act.err = ""
                    THEN Append(regs, [s |-> ln.i, top |-> ln.act.top, v |-> ln.act.v]) ELSE regs
       /\ dead' = (dead \/ ln.a = "abort" \/ (~ln.x.parked /\ ~ln.x.ping))
    /\ IF dead THEN TRUE
       ELSE /\ (\A i \in NewIdx : BoundsAt(i) /\ ExactAt(i) /\ TimeoutAt(i))'
            /\ RegStep'
            /\ Quiescent'
            /\ (X.ping => PenStep /\ PubStep)'
            /\ (Ln.a = "end" => AtEnd)'

TNext == TReset \/ TOpt \/ TStep
TraceSpec == TInit /\ [][TNext]_tvars

HW == IF TLCGet(1) < l THEN TLCSet(1, l) ELSE TRUE
Accepted == PrintT(<<"HW", TLCGet(1), Len(Trace) + 1>>)
=============================================================================
