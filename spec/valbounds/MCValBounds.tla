---------------------------- MODULE MCValBounds ----------------------------
(* Exhaustive model checking of ValBounds for small constants.  The configuration spaces below are picked by the
   .cfg text that bin/lib/props/x10.py writes (CfgSpace <- CfgXxx); each is a set of cfg records
   [qcap, nw, gthr, top, inl, thr, tmo, deaf, tv].                                                                *)
EXTENDS ValBounds

C(q, w, g, top, inl, thr, tmo, deaf) ==
    [qcap |-> q, nw |-> w, gthr |-> g, top |-> top, inl |-> inl, thr |-> thr, tmo |-> tmo, deaf |-> deaf, tv |-> "I"]

\* NV = 2: one validator per topic
CfgAsync2  == { C(1, 1, 2, <<"T1", "T2">>, {}, <<1, 2>>, {}, {}),        \* per-validator throttle below the global one
                C(2, 1, 1, <<"T1", "T2">>, {}, <<2, 2>>, {}, {}) }       \* global throttle below the per-validator ones
CfgInline2 == { C(1, 1, 1, <<"T1", "T2">>, {1}, <<1, 1>>, {}, {}),       \* T1 inline (occupies the worker), T2 asynchronous
                C(1, 2, 1, <<"T1", "T2">>, {1}, <<1, 1>>, {}, {}) }
CfgTime2   == { C(1, 1, 1, <<"T1", "T2">>, {}, <<1, 1>>, {1, 2}, {2}),   \* timeouts; validator 2 ignores its context
                C(1, 1, 1, <<"T1", "T2">>, {1}, <<1, 1>>, {1}, {}) }     \* an inline validator with a timeout
\* NV = 3: a default validator next to the topic validators (validateTopic's multi-validator path)
CfgMulti3  == { C(1, 1, 2, <<"D", "T1", "T2">>, {}, <<1, 1, 1>>, {}, {}),
                C(1, 2, 1, <<"D", "T1", "T2">>, {3}, <<2, 1, 1>>, {}, {}) }
CfgMultiT3 == { C(1, 1, 2, <<"D", "T1", "T2">>, {}, <<2, 1, 1>>, {1, 2}, {1}) }
\* NV = 3: validator 3 can be registered for T1 after validator 1 was removed
CfgReg3    == { C(1, 1, 2, <<"T1", "T2", "-">>, {}, <<1, 1, 2>>, {}, {}),
                C(1, 1, 1, <<"T1", "T2", "-">>, {1}, <<1, 1, 1>>, {}, {}) }
\* the seeded defects need little
CfgBug     == { C(1, 1, 1, <<"T1", "T2">>, {}, <<1, 1>>, {1}, {}),
                C(1, 1, 2, <<"T1", "T2">>, {2}, <<1, 1>>, {}, {}) }
CfgBugV    == { C(1, 1, 2, <<"T1", "T2">>, {}, <<1, 1>>, {}, {}) }
=============================================================================
