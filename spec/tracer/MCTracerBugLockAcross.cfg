SPECIFICATION SpecStuck
CONSTANTS
  Producers <- MCProducers
  NTrace <- MCNTrace
  Closers <- MCClosers
  Lossy = FALSE
  Bound = 1
  ChanCap = 1
  GuardTrace = TRUE
  GuardClose = TRUE
  FlushOnClose = TRUE
  CloseFile = TRUE
  AtomicSwap = TRUE
  LockAcrossWrite = TRUE
  DropCheck = "lossy"
INVARIANTS TypeOK P_X08_Conservation
PROPERTIES P_X08_CallersFinish
CHECK_DEADLOCK FALSE
