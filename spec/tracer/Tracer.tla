------------------------------- MODULE Tracer -------------------------------
(* tracer.go (basicTracer + the writer goroutine of JSONTracer / PBTracer) at the
   grain of its critical sections and channel operations.  Extension family X08.

   PROPERTIES X08 (file tracers; the remote tracer is in RemoteTracer.tla)

   X08.a  Lossless, ordered, exactly once.  At every instant the sequence of events
          the writer goroutine has handed to the underlying writer is a prefix of the
          sequence of events accepted by Trace (in the order their critical sections
          ran); once the writer goroutine has exited it is exactly that sequence.
          Holds for EVERY interleaving of producers, writer and Close.
          NOTE Close() does not wait for the writer goroutine: the file is complete
          when the writer has closed it, not when Close returns (finding X08-F1).
   X08.b  Nothing is accepted after Close: a Trace call that begins after a Close call
          returned leaves no event anywhere; a Trace call (non-lossy) that returned
          before any Close call began is accepted.
   X08.c  Trace and Close never wait for the writer: they only take the mutex, and the
          writer goroutine never holds the mutex while it writes.  Every Trace / Close
          call returns even if the writer is stuck in Write forever.  (On real traces
          this is demanded of Trace; a Close that has taken effect may wait for the
          writer's exit - the repair of finding X08-F1 - TracerTrace!TQuiet.)
   X08.d  No lost wake-up: whenever the writer is parked on the wake-up channel, the
          channel is empty and open and no producer is between its append and its
          wake-up send, the shared buffer is empty (everything accepted is written
          without needing a further event).
   X08.e  Close terminates the writer: after Close the writer flushes what was
          accepted, closes the underlying writer exactly once, writes nothing after
          that, and exits (weak fairness of the writer).
   X08.f  Close is idempotent and Trace after Close is harmless: no interleaving of
          any number of Close and Trace calls closes a closed channel or sends on a
          closed channel (no panic).
   X08.g  (lossy flag) the shared buffer never holds more than TraceBufferSize + 1
          events; an event is dropped only when it already holds more than
          TraceBufferSize.  Without the lossy flag nothing is ever dropped.

   The constants after Bound switch on seeded model defects (each one of the code's
   guards removed); the code as found is ChanCap = 1 and all of them TRUE except
   LockAcrossWrite = FALSE.                                                      *)
EXTENDS Naturals, Sequences, FiniteSets, TLC

CONSTANTS Producers,        \* producer process ids
          NTrace,           \* NTrace[p] = number of Trace calls producer p makes
          Closers,          \* closer process ids; each calls Close() once
          Lossy, Bound,     \* basicTracer.lossy, TraceBufferSize
          ChanCap,          \* capacity of the wake-up channel t.ch (1 in the code)
          GuardTrace,       \* Trace returns early when t.closed
          GuardClose,       \* Close only closes t.ch when !t.closed
          FlushOnClose,     \* the writer swaps and writes once more after it saw !ok (FALSE is NOT a defect:
                            \* TLC shows the buffer is always empty at that point, see MCTracerNoFlushEquiv.cfg)
          CloseFile,        \* the writer closes the underlying writer before it exits
          AtomicSwap,       \* the writer reads and resets t.buf in ONE critical section
          LockAcrossWrite,  \* seeded defect: the writer keeps the mutex while writing
          DropCheck         \* "lossy" (the code: t.lossy && len > bound), "always" (flag ignored), "never" (no bound check)

VARIABLES buf,        \* t.buf
          closed,     \* t.closed
          ch,         \* number of tokens in t.ch
          chClosed,   \* close(t.ch) happened
          mu,         \* owner of t.mx or "none"
          pc, k,      \* control point / number of finished calls of producers and closers
          wpc,        \* writer control point
          wok,        \* the `ok` of the writer's last receive
          wbuf,       \* the writer's private buffer (what it swapped out and has not written yet)
          file,       \* events handed to the underlying writer so far
          fileClosed, \* t.w.Close() happened
          accepted,   \* history: events appended to t.buf, in order
          started,    \* history: events whose Trace call began after some Close call had returned
          early,      \* history: events whose Trace call returned before any Close call began
          dropped,    \* history: events dropped by the lossy bound check
          closeBegun, closeReturned,  \* history
          panicked    \* a panic happened: "" or its reason

vars == <<buf, closed, ch, chClosed, mu, pc, k, wpc, wok, wbuf, file, fileClosed,
          accepted, started, early, dropped, closeBegun, closeReturned, panicked>>

Procs == Producers \cup Closers
Ev(p) == <<p, k[p]>>          \* the event of producer p's current call
Range(s) == {s[i] : i \in DOMAIN s}

Init ==
    /\ buf = <<>> /\ closed = FALSE /\ ch = 0 /\ chClosed = FALSE /\ mu = "none"
    /\ pc = [p \in Procs |-> "idle"] /\ k = [p \in Procs |-> 1]
    /\ wpc = "w_wait" /\ wok = TRUE /\ wbuf = <<>> /\ file = <<>> /\ fileClosed = FALSE
    /\ accepted = <<>> /\ started = {} /\ early = {} /\ dropped = {}
    /\ closeBegun = FALSE /\ closeReturned = FALSE /\ panicked = ""

Goto(p, l) == pc' = [pc EXCEPT ![p] = l]
MayDrop == (DropCheck = "lossy" /\ Lossy) \/ DropCheck = "always"

---------------------------------------------------------------------------
(* Trace(evt) *)
T_Lock(p) ==     \* t.mx.Lock()
    /\ p \in Producers /\ pc[p] = "idle" /\ k[p] <= NTrace[p] /\ mu = "none" /\ panicked = ""
    /\ mu' = p /\ Goto(p, "t_app")
    /\ started' = IF closeReturned THEN started \cup {Ev(p)} ELSE started
    /\ UNCHANGED <<buf, closed, ch, chClosed, k, wpc, wok, wbuf, file, fileClosed, accepted, early, dropped, closeBegun, closeReturned, panicked>>

T_App(p) ==      \* if t.closed { return } ; if t.lossy && len(t.buf) > TraceBufferSize { drop } else { append }
    /\ pc[p] = "t_app" /\ mu = p
    /\ IF GuardTrace /\ closed
         THEN Goto(p, "t_unlock") /\ UNCHANGED <<buf, accepted, dropped>>
       ELSE IF MayDrop /\ Len(buf) > Bound
         THEN Goto(p, "t_send") /\ dropped' = dropped \cup {Ev(p)} /\ UNCHANGED <<buf, accepted>>
       ELSE /\ buf' = Append(buf, Ev(p)) /\ accepted' = Append(accepted, Ev(p))
            /\ Goto(p, "t_send") /\ UNCHANGED dropped
    /\ UNCHANGED <<closed, ch, chClosed, mu, k, wpc, wok, wbuf, file, fileClosed, started, early, closeBegun, closeReturned, panicked>>

T_Send(p) ==     \* select { case t.ch <- struct{}{}: default: }
    /\ pc[p] = "t_send" /\ mu = p
    /\ Goto(p, "t_unlock")
    /\ IF chClosed
         THEN panicked' = "send on closed channel" /\ UNCHANGED <<ch, wpc, wok>>
       ELSE IF ch < ChanCap
         THEN ch' = ch + 1 /\ UNCHANGED <<wpc, wok, panicked>>
       ELSE IF ChanCap = 0 /\ wpc = "w_wait"
         THEN \* unbuffered channel: the send succeeds only as a rendezvous with the parked receiver
              wpc' = "w_lock" /\ wok' = TRUE /\ UNCHANGED <<ch, panicked>>
       ELSE UNCHANGED <<ch, wpc, wok, panicked>>      \* default: the token is dropped
    /\ UNCHANGED <<buf, closed, chClosed, mu, k, wbuf, file, fileClosed, accepted, started, early, dropped, closeBegun, closeReturned>>

T_Unlock(p) ==   \* deferred t.mx.Unlock(); return
    /\ pc[p] = "t_unlock" /\ mu = p
    /\ mu' = "none" /\ Goto(p, "idle")
    /\ early' = IF closeBegun THEN early ELSE early \cup {Ev(p)}
    /\ k' = [k EXCEPT ![p] = @ + 1]
    /\ UNCHANGED <<buf, closed, ch, chClosed, wpc, wok, wbuf, file, fileClosed, accepted, started, dropped, closeBegun, closeReturned, panicked>>

---------------------------------------------------------------------------
(* Close() *)
C_Lock(c) ==
    /\ c \in Closers /\ pc[c] = "idle" /\ k[c] = 1 /\ mu = "none" /\ panicked = ""
    /\ mu' = c /\ Goto(c, "c_set") /\ closeBegun' = TRUE
    /\ UNCHANGED <<buf, closed, ch, chClosed, k, wpc, wok, wbuf, file, fileClosed, accepted, started, early, dropped, closeReturned, panicked>>

C_Set(c) ==      \* if !t.closed { t.closed = true; close(t.ch) }
    /\ pc[c] = "c_set" /\ mu = c
    /\ Goto(c, "c_unlock")
    /\ IF GuardClose /\ closed
         THEN UNCHANGED <<closed, chClosed, panicked>>
         ELSE /\ closed' = TRUE
              /\ IF chClosed THEN panicked' = "close of closed channel" /\ UNCHANGED chClosed
                             ELSE chClosed' = TRUE /\ UNCHANGED panicked
    /\ UNCHANGED <<buf, ch, mu, k, wpc, wok, wbuf, file, fileClosed, accepted, started, early, dropped, closeBegun, closeReturned>>

C_Unlock(c) ==
    /\ pc[c] = "c_unlock" /\ mu = c
    /\ mu' = "none" /\ Goto(c, "idle") /\ k' = [k EXCEPT ![c] = 2] /\ closeReturned' = TRUE
    /\ UNCHANGED <<buf, closed, ch, chClosed, wpc, wok, wbuf, file, fileClosed, accepted, started, early, dropped, closeBegun, panicked>>

---------------------------------------------------------------------------
(* doWrite *)
W_Recv ==        \* _, ok := <-t.ch
    /\ wpc = "w_wait" /\ panicked = ""
    /\ \/ ch > 0 /\ ch' = ch - 1 /\ wok' = TRUE /\ wpc' = "w_lock"
       \/ ch = 0 /\ chClosed /\ wok' = FALSE /\ UNCHANGED ch
          /\ wpc' = IF FlushOnClose THEN "w_lock" ELSE "w_closefile"
    /\ UNCHANGED <<buf, closed, chClosed, mu, pc, k, wbuf, file, fileClosed, accepted, started, early, dropped, closeBegun, closeReturned, panicked>>

W_Lock ==        \* t.mx.Lock()
    /\ wpc = "w_lock" /\ mu = "none"
    /\ mu' = "w" /\ wpc' = "w_swap"
    /\ UNCHANGED <<buf, closed, ch, chClosed, pc, k, wok, wbuf, file, fileClosed, accepted, started, early, dropped, closeBegun, closeReturned, panicked>>

W_Swap ==        \* tmp := t.buf; t.buf = buf[:0]; buf = tmp; t.mx.Unlock()
    /\ wpc = "w_swap" /\ mu = "w"
    /\ wbuf' = buf
    /\ IF AtomicSwap THEN buf' = <<>> /\ wpc' = "w_write" /\ mu' = (IF LockAcrossWrite THEN "w" ELSE "none")
                     ELSE UNCHANGED buf /\ wpc' = "w_swap2" /\ mu' = "none"
    /\ UNCHANGED <<closed, ch, chClosed, pc, k, wok, file, fileClosed, accepted, started, early, dropped, closeBegun, closeReturned, panicked>>

W_Swap2 ==       \* seeded defect only: the reset of t.buf happens in a second critical section
    /\ wpc = "w_swap2" /\ mu = "none"
    /\ buf' = <<>> /\ wpc' = "w_write"
    /\ UNCHANGED <<closed, ch, chClosed, mu, pc, k, wok, wbuf, file, fileClosed, accepted, started, early, dropped, closeBegun, closeReturned, panicked>>

W_Write ==       \* enc.Encode(evt) / w.WriteMsg(evt): one event reaches the underlying writer
    /\ wpc = "w_write" /\ wbuf # <<>>
    /\ file' = Append(file, Head(wbuf)) /\ wbuf' = Tail(wbuf)
    /\ UNCHANGED <<buf, closed, ch, chClosed, mu, pc, k, wpc, wok, fileClosed, accepted, started, early, dropped, closeBegun, closeReturned, panicked>>

W_EndBatch ==    \* end of the range loop: if !ok { t.w.Close(); return }
    /\ wpc = "w_write" /\ wbuf = <<>>
    /\ wpc' = IF wok THEN "w_wait" ELSE IF CloseFile THEN "w_closefile" ELSE "done"
    /\ mu' = IF mu = "w" THEN "none" ELSE mu
    /\ UNCHANGED <<buf, closed, ch, chClosed, pc, k, wok, wbuf, file, fileClosed, accepted, started, early, dropped, closeBegun, closeReturned, panicked>>

W_CloseFile ==
    /\ wpc = "w_closefile"
    /\ fileClosed' = TRUE /\ wpc' = "done"
    /\ UNCHANGED <<buf, closed, ch, chClosed, mu, pc, k, wok, wbuf, file, accepted, started, early, dropped, closeBegun, closeReturned, panicked>>

---------------------------------------------------------------------------
CallerStep(p) == T_Lock(p) \/ T_App(p) \/ T_Send(p) \/ T_Unlock(p) \/ C_Lock(p) \/ C_Set(p) \/ C_Unlock(p)
WriterCtl == W_Recv \/ W_Lock \/ W_Swap \/ W_Swap2 \/ W_EndBatch \/ W_CloseFile
Next == (\E p \in Procs : CallerStep(p)) \/ WriterCtl \/ W_Write

\* every process is scheduled fairly
Spec == Init /\ [][Next]_vars /\ (\A p \in Procs : WF_vars(CallerStep(p))) /\ WF_vars(WriterCtl) /\ WF_vars(W_Write)
\* the underlying writer may block forever: no fairness for W_Write
SpecStuck == Init /\ [][Next]_vars /\ (\A p \in Procs : WF_vars(CallerStep(p))) /\ WF_vars(WriterCtl)

---------------------------------------------------------------------------
TypeOK == /\ mu \in Procs \cup {"none", "w"}
          /\ ch \in 0..ChanCap /\ closed \in BOOLEAN /\ chClosed \in BOOLEAN
          /\ wpc \in {"w_wait", "w_lock", "w_swap", "w_swap2", "w_write", "w_closefile", "done"}

IsPrefix(s, t) == Len(s) <= Len(t) /\ \A i \in 1..Len(s) : s[i] = t[i]

\* X08.a (safety part): nothing lost, duplicated or reordered anywhere between Trace and the file
P_X08_Conservation == accepted = file \o wbuf \o buf
P_X08_Prefix       == IsPrefix(file, accepted)
P_X08_DoneComplete == wpc = "done" => file = accepted
\* X08.b
P_X08_AfterClose   == /\ started \cap Range(accepted) = {}
                      /\ (~Lossy) => \A e \in early : e \in Range(accepted)
\* X08.c (structural half): the mutex is only held by the writer for the swap
P_X08_WriterLockShort == mu = "w" => wpc = "w_swap"
\* X08.d
NoPendingSend == \A p \in Producers : pc[p] # "t_send"
P_X08_NoLostWakeup == (wpc = "w_wait" /\ ch = 0 /\ ~chClosed /\ NoPendingSend) => (buf = <<>> /\ wbuf = <<>>)
\* X08.e (safety half)
P_X08_FileClosedLast == /\ fileClosed => (wpc = "done" /\ closed)
                        /\ wpc = "done" => fileClosed
\* X08.f
P_X08_NoPanic == panicked = ""
\* X08.g
P_X08_Bounded == Lossy => Len(buf) <= Bound + 1
P_X08_NoDropUnlessLossy == (~Lossy) => dropped = {}

\* liveness
P_X08_EverythingWritten == \A n \in 1..4 : (Len(accepted) >= n) ~> (Len(file) >= n)
P_X08_CloseTerminates   == closed ~> (wpc = "done" /\ fileClosed /\ file = accepted)
AllCalled == \A p \in Procs : pc[p] = "idle" /\ (IF p \in Producers THEN k[p] > NTrace[p] ELSE k[p] = 2)
P_X08_CallersFinish     == <>AllCalled          \* under SpecStuck: X08.c
=============================================================================
