---------------------------- MODULE RemoteTracer ----------------------------
(* RemoteTracer (tracer.go: NewRemoteTracer, doWrite, openStream) : the lossy tracer
   that ships batches of events over a libp2p stream.  One action per turn of the
   writer loop; Trace / Close are single actions here (their lock-grain interleavings
   are the subject of Tracer.tla, the same basicTracer code).  Family X08.

   PROPERTIES X08 (remote tracer)

   X08.g  Bounded memory: the shared buffer never holds more than TraceBufferSize + 1
          events; an event is dropped only when it already holds more than TraceBufferSize.
   X08.h  What the collector receives, over all streams in the order the streams were
          opened, is a subsequence of the accepted events: in order, no duplicates (a
          failed batch is never re-sent), nothing that was not accepted.
   X08.i  Loss only through failure: an accepted event is lost only if it was written to
          (or in flight on) a stream that broke.  With no stream failure everything
          accepted is delivered, and after a failure the writer re-opens a stream (as
          soon as the collector is reachable) and everything accepted after the re-open
          is delivered again.
   X08.j  Termination: after Close the writer goroutine sends what is buffered, closes
          the stream and exits PROVIDED a stream is open or can be opened; while the
          collector is unreachable it stays in openStream's retry loop, which only the
          context ends (finding X08-F2: Close alone never stops it).  After Close AND
          cancellation of the context it exits in every case.

   Seeded model defects: DropWhenFull = FALSE (X08.g), Requeue = TRUE (a failed batch is
   put back at the END of the buffer: X08.h order), AtomicSwap = FALSE (X08.i),
   CtxInOpen = FALSE (openStream ignores the context: X08.j).                     *)
EXTENDS Naturals, Sequences, FiniteSets, TLC

CONSTANTS N,             \* number of Trace calls
          Bound,         \* TraceBufferSize
          CanBreak,      \* the current stream may break
          CanDown,       \* the collector may become unreachable (and reachable again)
          CanCancel,     \* the context may be cancelled
          CanClose,
          DropWhenFull, Requeue, AtomicSwap, CtxInOpen,
          EarlyExit      \* the writer returns as soon as it sees !ok, without a last swap (NOT a defect: TLC shows the
                         \* buffer is always empty then, MCRemoteEarlyExitEquiv.cfg - as for the file writer)

VARIABLES buf, closed, ch,
          n,             \* number of Trace calls made so far (event ids are 1..N in call order)
          wpc,           \* "open" (in openStream) | "wait" | "batch" | "swap2" | "write" | "end" | "done"
          wok, wbuf, werr,
          reach,         \* the collector accepts streams
          sid,           \* id of the writer's current stream (0: none yet)
          broken,        \* the current stream is broken
          inflight,      \* written locally, not yet read by the collector
          delivered,     \* sequence of events the collector decoded
          accepted, lost, dropped,   \* history
          breaks,        \* history: number of stream failures
          ctxDone

vars == <<buf, closed, ch, n, wpc, wok, wbuf, werr, reach, sid, broken, inflight, delivered,
          accepted, lost, dropped, breaks, ctxDone>>
Range(s) == {s[i] : i \in DOMAIN s}

Init ==
    /\ buf = <<>> /\ closed = FALSE /\ ch = 0 /\ n = 0
    /\ wpc = "open" /\ wok = TRUE /\ wbuf = <<>> /\ werr = FALSE
    /\ reach \in (IF CanDown THEN BOOLEAN ELSE {TRUE})
    /\ sid = 0 /\ broken = FALSE /\ inflight = <<>> /\ delivered = <<>>
    /\ accepted = <<>> /\ lost = {} /\ dropped = {} /\ breaks = 0 /\ ctxDone = FALSE

Trace ==
    /\ n < N /\ n' = n + 1
    /\ IF closed THEN UNCHANGED <<buf, ch, accepted, dropped>>
       ELSE /\ ch' = 1
            /\ IF DropWhenFull /\ Len(buf) > Bound
                 THEN dropped' = dropped \cup {n + 1} /\ UNCHANGED <<buf, accepted>>
                 ELSE buf' = Append(buf, n + 1) /\ accepted' = Append(accepted, n + 1) /\ UNCHANGED dropped
    /\ UNCHANGED <<closed, wpc, wok, wbuf, werr, reach, sid, broken, inflight, delivered, lost, breaks, ctxDone>>

Close ==
    /\ CanClose /\ ~closed /\ closed' = TRUE
    /\ UNCHANGED <<buf, ch, n, wpc, wok, wbuf, werr, reach, sid, broken, inflight, delivered, accepted, lost, dropped, breaks, ctxDone>>

(* openStream: NewStream succeeds when the collector is reachable and the context is live;
   otherwise return when the context is done, else wait a minute and retry (= stutter) *)
W_Open ==
    /\ wpc = "open"
    /\ \/ reach /\ ~(CtxInOpen /\ ctxDone) /\ sid' = sid + 1 /\ broken' = FALSE /\ wpc' = "wait"
       \/ CtxInOpen /\ ctxDone /\ wpc' = "done" /\ UNCHANGED <<sid, broken>>
    /\ UNCHANGED <<buf, closed, ch, n, wok, wbuf, werr, reach, inflight, delivered, accepted, lost, dropped, breaks, ctxDone>>

W_Recv ==        \* _, ok := <-t.ch
    /\ wpc = "wait"
    /\ \/ ch = 1 /\ ch' = 0 /\ wok' = TRUE /\ wpc' = "batch"
       \/ ch = 0 /\ closed /\ wok' = FALSE /\ UNCHANGED ch /\ wpc' = (IF EarlyExit THEN "done" ELSE "batch")
    /\ UNCHANGED <<buf, closed, n, wbuf, werr, reach, sid, broken, inflight, delivered, accepted, lost, dropped, breaks, ctxDone>>

W_Swap ==        \* the accumulation loop ended (batch large enough or deadline): swap under the lock
    /\ wpc = "batch"
    /\ wbuf' = buf
    /\ IF AtomicSwap THEN buf' = <<>> /\ wpc' = "write" ELSE UNCHANGED buf /\ wpc' = "swap2"
    /\ UNCHANGED <<closed, ch, n, wok, werr, reach, sid, broken, inflight, delivered, accepted, lost, dropped, breaks, ctxDone>>

W_Swap2 ==       \* seeded defect only
    /\ wpc = "swap2" /\ buf' = <<>> /\ wpc' = "write"
    /\ lost' = lost \cup (Range(buf) \ Range(wbuf))
    /\ UNCHANGED <<closed, ch, n, wok, wbuf, werr, reach, sid, broken, inflight, delivered, accepted, dropped, breaks, ctxDone>>

W_Write ==       \* w.WriteMsg(&batch); gzipW.Flush()
    /\ wpc = "write" /\ wpc' = "end" /\ wbuf' = <<>>
    /\ IF wbuf = <<>> THEN UNCHANGED <<werr, inflight, lost, buf>>        \* goto end (err keeps its value: nil)
       ELSE IF broken
         THEN /\ werr' = TRUE /\ UNCHANGED inflight
              /\ IF Requeue THEN buf' = buf \o wbuf /\ UNCHANGED lost
                            ELSE lost' = lost \cup Range(wbuf) /\ UNCHANGED buf
         ELSE inflight' = inflight \o wbuf /\ UNCHANGED <<werr, lost, buf>>
    /\ UNCHANGED <<closed, ch, n, wok, reach, sid, broken, delivered, accepted, dropped, breaks, ctxDone>>

W_End ==
    /\ wpc = "end"
    /\ IF ~wok THEN wpc' = "done" /\ UNCHANGED werr                       \* Reset or Close the stream; return
       ELSE IF werr THEN wpc' = "open" /\ werr' = FALSE                   \* s.Reset(); openStream()
       ELSE wpc' = "wait" /\ UNCHANGED werr
    /\ UNCHANGED <<buf, closed, ch, n, wok, wbuf, reach, sid, broken, inflight, delivered, accepted, lost, dropped, breaks, ctxDone>>

(* environment *)
Deliver ==       \* the collector reads one event of what is in flight
    /\ inflight # <<>> /\ ~broken
    /\ delivered' = Append(delivered, Head(inflight)) /\ inflight' = Tail(inflight)
    /\ UNCHANGED <<buf, closed, ch, n, wpc, wok, wbuf, werr, reach, sid, broken, accepted, lost, dropped, breaks, ctxDone>>

Break ==         \* stream reset / connection lost: what is in flight is gone
    /\ CanBreak /\ sid > 0 /\ ~broken /\ breaks < 2 /\ wpc \notin {"open", "done"}
    /\ broken' = TRUE /\ breaks' = breaks + 1
    /\ lost' = lost \cup Range(inflight) /\ inflight' = <<>>
    /\ UNCHANGED <<buf, closed, ch, n, wpc, wok, wbuf, werr, reach, sid, delivered, accepted, dropped, ctxDone>>

Flip ==          \* collector goes away / comes back
    /\ CanDown /\ reach' = ~reach
    /\ UNCHANGED <<buf, closed, ch, n, wpc, wok, wbuf, werr, sid, broken, inflight, delivered, accepted, lost, dropped, breaks, ctxDone>>

Cancel ==
    /\ CanCancel /\ ~ctxDone /\ ctxDone' = TRUE
    /\ UNCHANGED <<buf, closed, ch, n, wpc, wok, wbuf, werr, reach, sid, broken, inflight, delivered, accepted, lost, dropped, breaks>>

Writer == W_Open \/ W_Recv \/ W_Swap \/ W_Swap2 \/ W_Write \/ W_End
Next == Trace \/ Close \/ Writer \/ Deliver \/ Break \/ Flip \/ Cancel
Spec == Init /\ [][Next]_vars /\ WF_vars(Writer) /\ WF_vars(Deliver)

---------------------------------------------------------------------------
TypeOK == /\ ch \in {0, 1} /\ n \in 0..N
          /\ wpc \in {"open", "wait", "batch", "swap2", "write", "end", "done"}

P_X08_Bounded == Len(buf) <= Bound + 1
StrictlyIncreasing(s) == \A i, j \in DOMAIN s : i < j => s[i] < s[j]
\* X08.h: event ids grow in call order, so "subsequence of accepted" = strictly increasing and accepted
P_X08_Subsequence == StrictlyIncreasing(delivered) /\ Range(delivered) \subseteq Range(accepted)
\* X08.i: every accepted event is in exactly one place
P_X08_Conservation ==
    /\ Range(accepted) = Range(delivered) \cup Range(inflight) \cup Range(wbuf) \cup Range(buf) \cup lost
    /\ Len(accepted) = Len(delivered) + Len(inflight) + Len(wbuf) + Len(buf) + Cardinality(lost)
P_X08_LossOnlyOnFailure == (breaks = 0) => lost = {}
P_X08_DropOnlyWhenFull == (Cardinality(dropped) > 0) => Len(accepted) > Bound

\* liveness
P_X08_DeliveredWhenHealthy == \A e \in 1..N : (e \in Range(accepted)) ~> (e \in Range(delivered) \/ e \in lost)
P_X08_CloseTerminates == closed ~> (wpc = "done")
P_X08_CloseAndCancelTerminate == (closed /\ ctxDone) ~> (wpc = "done")
P_X08_CompleteWhenNoFailure == closed ~> (wpc = "done" /\ delivered = accepted)
=============================================================================
