------------------------------ MODULE MCTracer ------------------------------
EXTENDS Tracer
\* two producers (2 + 1 calls), two closers
MCProducers == {"p1", "p2"}
MCClosers == {"c1", "c2"}
MCNTrace == [p1 |-> 2, p2 |-> 1]
\* larger configuration for the thorough tier
MC2Producers == {"p1", "p2", "p3"}
MC2NTrace == [p1 |-> 2, p2 |-> 2, p3 |-> 1]
\* a single closer (so that the unguarded Trace, not the double close, is what panics)
MC1Closers == {"c1"}
=============================================================================
