----------------------------- MODULE GenRemote -----------------------------
(* Scenario generator for the RemoteTracer (X08.g-j): every sequence of harness
   operations up to a bounded length (plus whether the collector is unreachable
   when the tracer is created).  Only INPUTS are emitted; RemoteTrace judges what
   the real tracer does.  The model only prunes pointless sequences.

   ops: "tr1" one Trace call     "tr4" MinTraceBatchSize calls (batch leaves at once)
        "burst" TraceBufferSize + 3 calls (overflow)
        "adv" 3 s without stimulus     "adv61" 62 s without stimulus (a retry period)
        "reset" the collector resets the stream   "down"/"up" the collector leaves / returns
        "gon"/"goff" hold / release the tracer's stream writes
        "cl" Close()     "cancel" cancel the context given to NewRemoteTracer            *)
EXTENDS Naturals, Sequences, TLC, Json

CONSTANTS L, MaxAfter, Max61

VARIABLES up, gate, ncl, canc, after, n61, wasDown, ntr, hist, d0
vars == <<up, gate, ncl, canc, after, n61, wasDown, ntr, hist, d0>>

Init == /\ d0 \in BOOLEAN /\ up = ~d0 /\ wasDown = d0
        /\ gate = FALSE /\ ncl = 0 /\ canc = FALSE /\ after = 0 /\ n61 = 0 /\ ntr = 0 /\ hist = <<>>

Last == IF hist = <<>> THEN "" ELSE hist[Len(hist)]
Can == Len(hist) < L /\ ((ncl > 0 \/ canc) => after < MaxAfter)
Rec(o) == /\ hist' = Append(hist, o)
          /\ after' = IF ncl > 0 \/ canc THEN after + 1 ELSE after

Tr(o)  == Can /\ Rec(o) /\ ntr' = ntr + 1 /\ UNCHANGED <<up, gate, ncl, canc, n61, wasDown, d0>>
Adv    == Can /\ Last \notin {"adv", "adv61"} /\ Rec("adv") /\ UNCHANGED <<up, gate, ncl, canc, n61, wasDown, ntr, d0>>
Adv61  == Can /\ wasDown /\ n61 < Max61 /\ Rec("adv61") /\ n61' = n61 + 1 /\ UNCHANGED <<up, gate, ncl, canc, wasDown, ntr, d0>>
Reset  == Can /\ up /\ ~gate /\ ntr > 0 /\ Last # "reset" /\ Rec("reset") /\ UNCHANGED <<up, gate, ncl, canc, n61, wasDown, ntr, d0>>
Down   == Can /\ up /\ Rec("down") /\ up' = FALSE /\ wasDown' = TRUE /\ UNCHANGED <<gate, ncl, canc, n61, ntr, d0>>
Up     == Can /\ ~up /\ Rec("up") /\ up' = TRUE /\ UNCHANGED <<gate, ncl, canc, n61, wasDown, ntr, d0>>
GOn    == Can /\ ~gate /\ Rec("gon") /\ gate' = TRUE /\ UNCHANGED <<up, ncl, canc, n61, wasDown, ntr, d0>>
GOff   == Can /\ gate /\ Rec("goff") /\ gate' = FALSE /\ UNCHANGED <<up, ncl, canc, n61, wasDown, ntr, d0>>
Cl     == Can /\ ncl < 2 /\ Rec("cl") /\ ncl' = ncl + 1 /\ UNCHANGED <<up, gate, canc, n61, wasDown, ntr, d0>>
Cancel == Can /\ ~canc /\ Rec("cancel") /\ canc' = TRUE /\ UNCHANGED <<up, gate, ncl, n61, wasDown, ntr, d0>>

Next == Tr("tr1") \/ Tr("tr4") \/ Tr("burst") \/ Adv \/ Adv61 \/ Reset \/ Down \/ Up \/ GOn \/ GOff \/ Cl \/ Cancel
Spec == Init /\ [][Next]_vars

Emit == Len(hist) > 0 => PrintT(<<"SCN", ToJson([down0 |-> d0, ops |-> hist])>>)
\* for simulation runs (long walks): only complete walks
EmitLong == (Len(hist) = L \/ ((ncl > 0 \/ canc) /\ after = MaxAfter)) => PrintT(<<"SCN", ToJson([down0 |-> d0, ops |-> hist])>>)
=============================================================================
