SPECIFICATION Spec
CONSTANTS
  Producers <- MCProducers
  NTrace <- MCNTrace
  Closers <- MC1Closers
  Lossy = FALSE
  Bound = 1
  ChanCap = 1
  GuardTrace = FALSE
  GuardClose = TRUE
  FlushOnClose = TRUE
  CloseFile = TRUE
  AtomicSwap = TRUE
  LockAcrossWrite = FALSE
  DropCheck = "lossy"
INVARIANTS TypeOK P_X08_Conservation P_X08_Prefix P_X08_DoneComplete P_X08_AfterClose P_X08_WriterLockShort P_X08_NoLostWakeup P_X08_FileClosedLast P_X08_NoPanic P_X08_Bounded P_X08_NoDropUnlessLossy
PROPERTIES P_X08_EverythingWritten P_X08_CloseTerminates
CHECK_DEADLOCK FALSE
