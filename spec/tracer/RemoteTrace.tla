----------------------------- MODULE RemoteTrace -----------------------------
(* Trace specification for the RemoteTracer (X08.g-j): histories recorded from a REAL
   RemoteTracer on a simulated network (virtual time): Trace / Close calls, stimuli
   (collector stream reset, collector down/up, write gate, context cancellation), what
   the collector decoded ("rx"), and at every quiescence point the length of the shared
   buffer and the control point of the writer goroutine (read off a goroutine dump).

   The abstract tracer: `accepted` (events that entered the buffer), `taken` (how many
   the writer swapped out - internal steps), `ptr` (position of the last delivered one).
   Loss is tolerated only for positions <= lu: events that were accepted-and-undelivered
   when a stream broke, or accepted until the writer was seen parked on a fresh stream.  *)
EXTENDS Naturals, Integers, Sequences, FiniteSets, TLC, Json

Trace == ndJsonDeserialize("trace.ndjson")

VARIABLES accepted, taken, ptr, lu,
          bound,
          closedA, ctxDone, reach, gateOn,
          healthy,     \* the writer was seen parked on a stream nothing is known to have happened to
          broken,      \* a stream failure happened and the writer was not yet seen recovered
          tried,       \* the writer has (or had) something to write since then: it will notice / has noticed
          triedAt,     \* virtual ms of that
          downSince,   \* the collector was unreachable at some moment since then (re-open may take a minute)
          lastW,       \* writer position at the previous quiescence point
          now,         \* virtual ms of the last line that carried a time
          l

tvars == <<accepted, taken, ptr, lu, bound, closedA, ctxDone, reach, gateOn, healthy, broken, tried, triedAt,
           downSince, lastW, now, l>>
E == Trace[l]
More == l <= Len(Trace)
Adv == l' = l + 1
Range(f) == {f[i] : i \in DOMAIN f}
Blen == Len(accepted) - taken

TInit == /\ TLCSet(1, 0) /\ accepted = <<>> /\ taken = 0 /\ ptr = 0 /\ lu = 0 /\ bound = 0
         /\ closedA = FALSE /\ ctxDone = FALSE /\ reach = TRUE /\ gateOn = FALSE
         /\ healthy = FALSE /\ broken = FALSE /\ tried = TRUE /\ triedAt = -100000 /\ downSince = FALSE
         /\ lastW = "open" /\ now = 0 /\ l = 1

TReset ==
    /\ More /\ E.e = "reset"
    /\ accepted' = <<>> /\ taken' = 0 /\ ptr' = 0 /\ lu' = 0 /\ bound' = E.bound
    /\ closedA' = FALSE /\ ctxDone' = FALSE /\ reach' = ~E.down0 /\ gateOn' = FALSE
    /\ healthy' = FALSE /\ broken' = FALSE /\ tried' = TRUE /\ triedAt' = -100000 /\ downSince' = E.down0
    /\ lastW' = "open" /\ now' = 0 /\ Adv

\* one Trace call (the line is written before the call, the decision falls before the next line)
TTr ==
    /\ More /\ E.e = "tr"
    /\ IF closedA \/ Blen > bound
         THEN UNCHANGED <<accepted, lu, tried, triedAt>>
         ELSE /\ accepted' = Append(accepted, E.x)
              /\ lu' = IF broken THEN Len(accepted) + 1 ELSE lu
              /\ tried' = (tried \/ broken)
              /\ triedAt' = IF broken /\ ~tried THEN E.t ELSE triedAt
    /\ now' = E.t
    /\ Adv /\ UNCHANGED <<taken, ptr, bound, closedA, ctxDone, reach, gateOn, healthy, broken, downSince, lastW>>

\* Trace and Close return normally
TRet ==
    /\ More /\ E.e \in {"traceret", "closeret"} /\ E.res = "done"
    /\ Adv /\ UNCHANGED <<accepted, taken, ptr, lu, bound, closedA, ctxDone, reach, gateOn, healthy, broken, tried, triedAt, downSince, lastW, now>>

TClose ==
    /\ More /\ E.e = "close" /\ closedA' = TRUE
    /\ Adv /\ UNCHANGED <<accepted, taken, ptr, lu, bound, ctxDone, reach, gateOn, healthy, broken, tried, triedAt, downSince, lastW, now>>

TCancel ==
    /\ More /\ E.e = "cancel" /\ ctxDone' = TRUE
    /\ Adv /\ UNCHANGED <<accepted, taken, ptr, lu, bound, closedA, reach, gateOn, healthy, broken, tried, triedAt, downSince, lastW, now>>

\* the writer takes the whole buffer (internal)
TSwap ==
    /\ taken < Len(accepted) /\ taken' = Len(accepted)
    /\ UNCHANGED <<accepted, ptr, lu, bound, closedA, ctxDone, reach, gateOn, healthy, broken, tried, triedAt, downSince, lastW, now, l>>

\* a stream failure: whatever is accepted and not delivered may be lost from here on
Break(isDown) ==
    /\ healthy' = FALSE /\ broken' = TRUE /\ lu' = Len(accepted)
    \* the writer will notice when it has something to write (or is re-opening anyway: it gets a fresh stream)
    /\ tried' = (Blen > 0 \/ lastW \in {"write", "open"}) /\ triedAt' = E.t
    /\ downSince' = isDown
    /\ reach' = IF isDown THEN FALSE ELSE reach

TBreak == /\ More /\ E.e = "break" /\ Break(FALSE)
          /\ now' = E.t /\ Adv /\ UNCHANGED <<accepted, taken, ptr, bound, closedA, ctxDone, gateOn, lastW>>
TDown  == /\ More /\ E.e = "down" /\ Break(TRUE)
          /\ now' = E.t /\ Adv /\ UNCHANGED <<accepted, taken, ptr, bound, closedA, ctxDone, gateOn, lastW>>
TUp    == /\ More /\ E.e = "up" /\ reach' = TRUE
          /\ Adv /\ UNCHANGED <<accepted, taken, ptr, lu, bound, closedA, ctxDone, gateOn, healthy, broken, tried, triedAt, downSince, lastW, now>>
TGate  == /\ More /\ E.e = "gate" /\ gateOn' = E.on
          /\ Adv /\ UNCHANGED <<accepted, taken, ptr, lu, bound, closedA, ctxDone, reach, healthy, broken, tried, triedAt, downSince, lastW, now>>
TNote  == /\ More /\ E.e \in {"note", "open", "end"}
          /\ Adv /\ UNCHANGED <<accepted, taken, ptr, lu, bound, closedA, ctxDone, reach, gateOn, healthy, broken, tried, triedAt, downSince, lastW, now>>

(* the collector decoded a batch: X08.h - its events are accepted ones, beyond everything delivered before,
   in order; X08.i - whatever is skipped over was allowed to be lost *)
Pos(x) == CHOOSE j \in 1..Len(accepted) : accepted[j] = x
TRx ==
    /\ More /\ E.e = "rx"
    /\ \A i \in 1..Len(E.xs) : E.xs[i] \in Range(accepted)
    /\ LET ps == [i \in 1..Len(E.xs) |-> Pos(E.xs[i])]
           last == IF Len(E.xs) = 0 THEN ptr ELSE ps[Len(E.xs)] IN      \* (an empty batch would be pointless, not wrong)
         /\ Len(E.xs) > 0 => ps[1] > ptr
         /\ \A i \in 1..(Len(E.xs) - 1) : ps[i] < ps[i + 1]
         /\ last <= taken
         /\ \A j \in (ptr + 1)..last : (j \in Range(ps)) \/ j <= lu
         /\ ptr' = last
    /\ Adv /\ UNCHANGED <<accepted, taken, lu, bound, closedA, ctxDone, reach, gateOn, healthy, broken, tried, triedAt, downSince, lastW, now>>

(* quiescence (every goroutine durably blocked) at virtual time E.t; E.long = 1 after >= 3 s, 2 after >= 62 s without stimulus *)
Noticed == tried /\ E.t >= triedAt + 1200          \* the failed write has happened by now (gate off)
Recovered == (~healthy) /\ E.wpos = "wait" /\ ~gateOn /\ Noticed
TQuiet ==
    /\ More /\ E.e = "quiet"
    \* X08.g bounded memory; the buffer holds exactly what was accepted and not taken
    /\ E.buf = Blen /\ E.buf <= bound + 1
    \* the writer lives as long as nobody stopped it, and stays gone
    /\ (~closedA /\ ~ctxDone) => E.wpos # "gone"
    /\ lastW = "gone" => E.wpos = "gone"
    \* X08.j cancellation ends the retry loop at once
    /\ (ctxDone /\ lastW = "open") => E.wpos = "gone"
    \* X08.i the writer re-opens: at once when the collector never went away, within a minute otherwise
    /\ ((~healthy) /\ Noticed /\ ~gateOn /\ reach /\ ~downSince /\ ~ctxDone) => E.wpos # "open"
    /\ (E.long = 2 /\ reach /\ ~ctxDone /\ ~gateOn) => E.wpos # "open"
    \* X08.j Close ends a writer that has a stream (3 s are ample: two accumulation deadlines)
    /\ (E.long >= 1 /\ closedA /\ healthy /\ ~gateOn) => E.wpos = "gone"
    /\ (E.long >= 1 /\ closedA /\ ctxDone /\ ~gateOn) => E.wpos = "gone"
    \* X08.i on a healthy stream everything that was not allowed to be lost has arrived, the writer is idle
    /\ (E.long >= 1 /\ healthy /\ ~gateOn) =>
           /\ \A j \in (ptr + 1)..Len(accepted) : j <= lu
           /\ E.buf = 0
           /\ ~closedA => E.wpos = "wait"
    /\ healthy' = (healthy \/ Recovered)
    /\ broken' = (broken /\ ~Recovered)
    /\ tried' = (tried /\ ~Recovered)
    /\ downSince' = (downSince /\ ~Recovered)
    /\ lastW' = E.wpos /\ now' = E.t
    /\ Adv /\ UNCHANGED <<accepted, taken, ptr, lu, bound, closedA, ctxDone, reach, gateOn, triedAt>>

TNext == TReset \/ TTr \/ TRet \/ TClose \/ TCancel \/ TSwap \/ TBreak \/ TDown \/ TUp \/ TGate \/ TNote \/ TRx \/ TQuiet

TraceSpec == TInit /\ [][TNext]_tvars

(* finding X08-F2, reported without rejecting the history: a closed tracer whose writer is still in the retry loop
   after more than a minute (the stronger reading of X08.j: Close alone stops the writer) *)
CloseIgnored == (More /\ E.e = "quiet" /\ E.long = 2 /\ closedA /\ ~ctxDone /\ lastW = "open" /\ E.wpos = "open")
                    => PrintT(<<"FIND", "close-ignored-in-reopen-loop", l>>)

HW == IF TLCGet(1) < l THEN TLCSet(1, l) ELSE TRUE
Accepted == PrintT(<<"HW", TLCGet(1), Len(Trace) + 1>>)
=============================================================================
