SPECIFICATION TraceSpec
CONSTRAINT HW
INVARIANT CloseIgnored
POSTCONDITION Accepted
CHECK_DEADLOCK FALSE
