SPECIFICATION Spec
CONSTANTS
  N = 4
  Bound = 1
  CanBreak = TRUE
  CanDown = FALSE
  CanCancel = FALSE
  CanClose = TRUE
  DropWhenFull = TRUE
  Requeue = FALSE
  AtomicSwap = FALSE
  EarlyExit = FALSE
  CtxInOpen = TRUE
INVARIANTS TypeOK P_X08_LossOnlyOnFailure
CHECK_DEADLOCK FALSE
