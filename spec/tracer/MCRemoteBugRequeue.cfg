SPECIFICATION Spec
CONSTANTS
  N = 4
  Bound = 1
  CanBreak = TRUE
  CanDown = FALSE
  CanCancel = FALSE
  CanClose = TRUE
  DropWhenFull = TRUE
  Requeue = TRUE
  AtomicSwap = TRUE
  EarlyExit = FALSE
  CtxInOpen = TRUE
INVARIANTS TypeOK P_X08_Subsequence
CHECK_DEADLOCK FALSE
