---------------------------- MODULE TracerTrace ----------------------------
(* Trace specification for the file tracers (X08.a-g): call/return histories of
   Trace / Close on a REAL JSONTracer / PBTracer, interleaved with what the
   underlying writer received ("w": one decoded event, "wclose": Close of the
   underlying writer) and with quiescence points, are explained against the
   abstract tracer: a FIFO between the accepted events and the file.
   Trace and Close calls are linearised between their call and return lines; the
   writer's buffer swaps are internal steps.  A history is accepted iff the cursor
   reaches the end of the file.                                                  *)
EXTENDS Naturals, Sequences, FiniteSets, TLC, Json

Trace == ndJsonDeserialize("trace.ndjson")

VARIABLES accepted,    \* events accepted so far (linearisation order)
          closedA,     \* a Close call has taken effect
          taken,       \* how many of `accepted` the writer goroutine has swapped out of the shared buffer
          written,     \* how many reached the underlying writer
          fileClosed,  \* the underlying writer was closed
          gateOn,      \* the harness holds the underlying writer's Write
          lossy, bound,
          ops,         \* id |-> [op, x, st] of calls not yet returned
          l

tvars == <<accepted, closedA, taken, written, fileClosed, gateOn, lossy, bound, ops, l>>
Range(f) == {f[i] : i \in DOMAIN f}
E == Trace[l]
More == l <= Len(Trace)
Adv == l' = l + 1

TInit == /\ TLCSet(1, 0) /\ accepted = <<>> /\ closedA = FALSE /\ taken = 0 /\ written = 0
         /\ fileClosed = FALSE /\ gateOn = FALSE /\ lossy = FALSE /\ bound = 0 /\ ops = <<>> /\ l = 1

TReset ==
    /\ More /\ E.e = "reset"
    /\ accepted' = <<>> /\ closedA' = FALSE /\ taken' = 0 /\ written' = 0 /\ fileClosed' = FALSE
    /\ gateOn' = FALSE /\ lossy' = E.lossy /\ bound' = E.bound /\ ops' = <<>> /\ Adv

TCall ==
    /\ More /\ E.e = "call" /\ E.id \notin DOMAIN ops
    /\ ops' = ops @@ (E.id :> [op |-> E.op, x |-> IF E.op = "trace" THEN E.x ELSE 0, st |-> "pending"])
    /\ Adv /\ UNCHANGED <<accepted, closedA, taken, written, fileClosed, gateOn, lossy, bound>>

\* the call takes effect (internal): Trace accepts unless closed / lossy and full; Close closes
TLin(id) ==
    /\ ops[id].st = "pending"
    /\ ops' = [ops EXCEPT ![id].st = "lin"]
    /\ IF ops[id].op = "close" THEN closedA' = TRUE /\ UNCHANGED accepted
       ELSE /\ UNCHANGED closedA
            /\ IF closedA \/ (lossy /\ Len(accepted) - taken > bound)
                 THEN UNCHANGED accepted
                 ELSE accepted' = Append(accepted, ops[id].x)
    /\ UNCHANGED <<taken, written, fileClosed, gateOn, lossy, bound, l>>

\* Trace and Close return normally: anything else (a panic) is not explainable
TRet ==
    /\ More /\ E.e = "ret" /\ E.id \in DOMAIN ops
    /\ ops[E.id].st = "lin" /\ E.res = "done"
    /\ ops' = [i \in DOMAIN ops \ {E.id} |-> ops[i]]
    /\ Adv /\ UNCHANGED <<accepted, closedA, taken, written, fileClosed, gateOn, lossy, bound>>

\* the writer goroutine takes the whole shared buffer (only between two batches)
TSwap ==
    /\ written = taken /\ taken < Len(accepted) /\ ~fileClosed
    /\ taken' = Len(accepted)
    /\ UNCHANGED <<accepted, closedA, written, fileClosed, gateOn, lossy, bound, ops, l>>

\* one event reaches the underlying writer: it is the next accepted one, never after the file was closed
TWrite ==
    /\ More /\ E.e = "w"
    /\ ~fileClosed /\ written < taken /\ accepted[written + 1] = E.x
    /\ written' = written + 1
    /\ Adv /\ UNCHANGED <<accepted, closedA, taken, fileClosed, gateOn, lossy, bound, ops>>

\* the underlying writer is closed once, after Close, when everything accepted has been written
TWClose ==
    /\ More /\ E.e = "wclose"
    /\ ~fileClosed /\ closedA /\ written = Len(accepted)
    /\ fileClosed' = TRUE
    /\ Adv /\ UNCHANGED <<accepted, closedA, taken, written, gateOn, lossy, bound, ops>>

TGate ==
    /\ More /\ E.e = "gate"
    /\ gateOn' = E.on
    /\ Adv /\ UNCHANGED <<accepted, closedA, taken, written, fileClosed, lossy, bound, ops>>

TNote ==   \* harness markers without meaning for the abstract tracer
    /\ More /\ E.e \in {"step", "note"}
    /\ Adv /\ UNCHANGED <<accepted, closedA, taken, written, fileClosed, gateOn, lossy, bound, ops>>

(* quiescence: every goroutine is durably blocked (or, in the real-time drivers, the harness waited
   for everything it could expect).
   - no Trace call is outstanding (Trace never waits for the writer); neither is a Close call
     in the code as found, but a Close that has taken effect may wait for the writer to
     finish (that would repair finding X08-F1), never beyond the writer's exit             X08.c
   - an unwritten accepted event exists only while the harness gate holds the writer,
     and then the writer IS at the gate with that event in hand                           X08.d
   - the shared buffer holds exactly the accepted events the writer has not taken         X08.a/g
   - after Close, once everything is written the underlying writer is closed              X08.e
   - the underlying writer is not closed before Close                                     X08.e *)
TQuiet ==
    /\ More /\ E.e = "quiet"
    /\ Range(E.blocked) = DOMAIN ops
    /\ \A id \in DOMAIN ops : ops[id].op = "close" /\ ops[id].st = "lin" /\ ~fileClosed /\ written < Len(accepted)
    /\ written < Len(accepted) => (gateOn /\ E.wpos = "gate" /\ written < taken)
    /\ E.buf = Len(accepted) - taken
    /\ lossy => E.buf <= bound + 1
    /\ (closedA /\ written = Len(accepted)) => (fileClosed /\ E.wpos = "idle")
    /\ fileClosed => closedA
    /\ Adv /\ UNCHANGED <<accepted, closedA, taken, written, fileClosed, gateOn, lossy, bound, ops>>

TNext == TReset \/ TCall \/ TRet \/ TSwap \/ TWrite \/ TWClose \/ TGate \/ TNote \/ TQuiet
         \/ (\E id \in DOMAIN ops : TLin(id))

TraceSpec == TInit /\ [][TNext]_tvars

HW == IF TLCGet(1) < l THEN TLCSet(1, l) ELSE TRUE
Accepted == PrintT(<<"HW", TLCGet(1), Len(Trace) + 1>>)
=============================================================================
