SPECIFICATION Spec
CONSTANTS
  L = 4
  MaxAfter = 3
  Max61 = 2
INVARIANT Emit
CHECK_DEADLOCK FALSE
