SPECIFICATION Spec
CONSTANTS
  L = 4
  MaxClose = 2
  MaxAfter = 2
INVARIANT Emit
CHECK_DEADLOCK FALSE
