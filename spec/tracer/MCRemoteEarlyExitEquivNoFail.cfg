SPECIFICATION Spec
CONSTANTS
  N = 4
  Bound = 1
  CanBreak = FALSE
  CanDown = FALSE
  CanCancel = FALSE
  CanClose = TRUE
  DropWhenFull = TRUE
  Requeue = FALSE
  AtomicSwap = TRUE
  EarlyExit = TRUE
  CtxInOpen = TRUE
INVARIANTS TypeOK P_X08_Bounded P_X08_Subsequence P_X08_Conservation P_X08_LossOnlyOnFailure P_X08_DropOnlyWhenFull
PROPERTIES P_X08_CompleteWhenNoFailure P_X08_DeliveredWhenHealthy
CHECK_DEADLOCK FALSE
