----------------------------- MODULE GenTracer -----------------------------
(* Scenario generator for the file tracers (X08): every sequence of harness
   operations up to a bounded length.  Only the INPUTS are emitted; what the real
   tracer does with them is judged by TracerTrace.  The little model here only
   keeps the harness honest (a step needs a closed gate and something unwritten).

   ops: "tr"   one Trace call                      "par"  two Trace calls from two goroutines at once
        "trc"  a Trace call and a Close call at once   "cl"   one Close call
        "gon"  hold the underlying writer's Write   "goff" release it
        "step" let exactly one event through the held Write                                  *)
EXTENDS Naturals, Sequences, TLC, Json

CONSTANTS L,          \* maximal number of operations
          MaxClose,   \* maximal number of Close calls (>= 2 exercises idempotence)
          MaxAfter    \* maximal number of operations after the first Close

VARIABLES gate, ncl, pend, after, hist
vars == <<gate, ncl, pend, after, hist>>

Init == gate = FALSE /\ ncl = 0 /\ pend = 0 /\ after = 0 /\ hist = <<>>

Rec(o) == hist' = Append(hist, o) /\ after' = IF ncl > 0 THEN after + 1 ELSE after
Can == Len(hist) < L /\ (ncl > 0 => after < MaxAfter)
Acc(k) == IF ncl > 0 THEN pend ELSE (IF gate THEN pend + k ELSE 0)   \* unwritten events afterwards (upper bound)

Tr   == Can /\ Rec("tr")  /\ pend' = Acc(1) /\ UNCHANGED <<gate, ncl>>
Par  == Can /\ Rec("par") /\ pend' = Acc(2) /\ UNCHANGED <<gate, ncl>>
TrC  == Can /\ ncl < MaxClose /\ Rec("trc") /\ pend' = (IF gate THEN pend + 1 ELSE 0) /\ ncl' = ncl + 1 /\ UNCHANGED gate
Cl   == Can /\ ncl < MaxClose /\ Rec("cl") /\ ncl' = ncl + 1 /\ UNCHANGED <<gate, pend>>
GOn  == Can /\ ~gate /\ Rec("gon") /\ gate' = TRUE /\ UNCHANGED <<ncl, pend>>
GOff == Can /\ gate /\ Rec("goff") /\ gate' = FALSE /\ pend' = 0 /\ UNCHANGED ncl
Step == Can /\ gate /\ pend > 0 /\ Rec("step") /\ pend' = pend - 1 /\ UNCHANGED <<gate, ncl>>

Next == Tr \/ Par \/ TrC \/ Cl \/ GOn \/ GOff \/ Step
Spec == Init /\ [][Next]_vars

\* emit every scenario (all lengths: the end of a scenario has its own obligations)
Emit == Len(hist) > 0 => PrintT(<<"SCN", ToJson([ops |-> hist])>>)
\* for simulation runs (long walks): only complete walks
EmitLong == (Len(hist) = L \/ (ncl > 0 /\ after = MaxAfter)) => PrintT(<<"SCN", ToJson([ops |-> hist])>>)
=============================================================================
