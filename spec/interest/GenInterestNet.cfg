SPECIFICATION Spec
CONSTANTS
  Nodes = {"A", "B"}
  Topics = {"T1"}
  L = 3
  Kinds = {"subscribe", "cancel", "relay", "unrelay", "rst", "unlink", "link", "quiet"}
  LinkedAtStart = TRUE
  MaxRef = 2
  MaxFault = 2
  MaxQuiet = 2
INVARIANT Emit
CHECK_DEADLOCK FALSE
