---------------------------- MODULE MCInterest ----------------------------
EXTENDS Interest
CONSTANTS p1, p2, T1, T2
MCPeers == {p1, p2}
MCTopics == {T1, T2}
Sym == Permutations(MCPeers) \cup Permutations(MCTopics)
SymP == Permutations(MCPeers)
=============================================================================
