--------------------------- MODULE GenInterestDemo ---------------------------
(* Hand-run example of the generator (bin/lib/props/c05.py writes an equivalent wrapper per scenario class):
     tlc -config GenInterestDemo.cfg GenInterestDemo.tla | grep SCN *)
EXTENDS GenInterest
G_Their == [p \in {"p1", "p2"} |-> IF p = "p1" THEN {"T1"} ELSE {}]
=============================================================================
