---------------------------- MODULE GenInterest ----------------------------
(* Scenario generator for C05 (wire view): every sequence of at most L stimuli over the alphabet Kinds, for one
   real node and the fake peers Peers. Only the INPUTS are emitted (in the action format of harness/world plus the
   C05 driver's own actions); what the real node does with them is judged by InterestTrace. The stimulus-grain
   state below only decides which stimuli make sense (cancel needs a subscription, a quiescent check needs every
   gate open, ...). The check script adds the prologue (initial connects) and the epilogue (open gates, release
   holds, quiet). *)
EXTENDS Integers, Sequences, FiniteSets, TLC, Json

CONSTANTS Topics, Peers, L, Kinds,
          ConnAtStart, HeldAtStart, TheirAtStart,   \* prologue performed by the driver before the generated part
          FanTopics, BufTopic,
          MaxRef, MaxFault, MaxRemote, MaxMsg, MaxQuiet

VARIABLES wsubs, relays, kind, conn, gated, held, rup, their, bst, nmsg, faults, remotes, quiets, lastq, hist, n,
          stale, rstale,    \* an already cancelled Subscription / relay-cancel handle of the topic exists
          gray, direct      \* the scenario pushed p's score below the graylist threshold / made p a direct peer
vars == <<wsubs, relays, kind, conn, gated, held, rup, their, bst, nmsg, faults, remotes, quiets, lastq, hist, n, stale, rstale, gray, direct>>

RECURSIVE SetToSeq(_)
SetToSeq(S) == IF S = {} THEN <<>> ELSE LET x == CHOOSE y \in S : TRUE IN <<x>> \o SetToSeq(S \ {x})

Init ==
    /\ wsubs = [t \in Topics |-> 0] /\ relays = [t \in Topics |-> 0] /\ kind = [t \in Topics |-> "none"]
    /\ conn = [p \in Peers |-> IF p \in ConnAtStart THEN "up" ELSE "never"]
    /\ gated = [p \in Peers |-> FALSE] /\ held = [p \in Peers |-> p \in HeldAtStart]
    /\ rup = [p \in Peers |-> p \in ConnAtStart] /\ their = TheirAtStart
    /\ bst = "none" /\ nmsg = 0 /\ faults = 0 /\ remotes = 0 /\ quiets = 0 /\ lastq = FALSE /\ hist = <<>> /\ n = 0
    /\ stale = [t \in Topics |-> FALSE] /\ rstale = [t \in Topics |-> FALSE]
    /\ gray = [p \in Peers |-> FALSE] /\ direct = [p \in Peers |-> FALSE]

Add(acts) == hist' = hist \o acts /\ n' = n + 1 /\ lastq' = FALSE
K(k) == k \in Kinds /\ n < L
Subs(t) == wsubs[t] + (IF bst = "live" /\ t = BufTopic THEN 1 ELSE 0)
PeerAct(p) == [a |-> "peer", p |-> p, subs |-> SetToSeq(their[p])]

Subscribe(t) == /\ K("subscribe") /\ wsubs[t] < MaxRef /\ Add(<<[a |-> "subscribe", t |-> t]>>)
                /\ wsubs' = [wsubs EXCEPT ![t] = @ + 1] /\ kind' = [kind EXCEPT ![t] = IF @ = "none" THEN "normal" ELSE @]
                /\ UNCHANGED <<gray, direct, stale, rstale, relays, conn, gated, held, rup, their, bst, nmsg, faults, remotes, quiets>>
Cancel(t)    == /\ K("cancel") /\ wsubs[t] > 0 /\ Add(<<[a |-> "cancel", t |-> t]>>)
                /\ wsubs' = [wsubs EXCEPT ![t] = @ - 1] /\ stale' = [stale EXCEPT ![t] = TRUE]
                /\ UNCHANGED <<gray, direct, rstale, relays, kind, conn, gated, held, rup, their, bst, nmsg, faults, remotes, quiets>>
\* several subscriptions on one topic are cancelled in every order: the OLDEST live handle instead of the newest
CancelOld(t) == /\ K("cancelOld") /\ wsubs[t] > 1 /\ Add(<<[a |-> "cancel", t |-> t, old |-> TRUE]>>)
                /\ wsubs' = [wsubs EXCEPT ![t] = @ - 1] /\ stale' = [stale EXCEPT ![t] = TRUE]
                /\ UNCHANGED <<gray, direct, rstale, relays, kind, conn, gated, held, rup, their, bst, nmsg, faults, remotes, quiets>>
\* Subscription.Cancel AGAIN on the most recently cancelled handle of t (also a stale Cancel after a re-subscribe, after Close ...)
CancelAgain(t) == /\ K("cancelAgain") /\ stale[t] /\ Add(<<[a |-> "cancelAgain", t |-> t]>>)
                /\ UNCHANGED <<gray, direct, stale, rstale, wsubs, relays, kind, conn, gated, held, rup, their, bst, nmsg, faults, remotes, quiets>>
Relay(t)     == /\ K("relay") /\ relays[t] < MaxRef /\ Add(<<[a |-> "relay", t |-> t]>>)
                /\ IF kind[t] = "fanout" THEN UNCHANGED <<gray, direct, stale, rstale, relays, kind>>
                   ELSE relays' = [relays EXCEPT ![t] = @ + 1] /\ kind' = [kind EXCEPT ![t] = IF @ = "none" THEN "normal" ELSE @]
                /\ UNCHANGED <<gray, direct, stale, rstale, wsubs, conn, gated, held, rup, their, bst, nmsg, faults, remotes, quiets>>
Unrelay(t)   == /\ K("unrelay") /\ relays[t] > 0 /\ Add(<<[a |-> "unrelay", t |-> t]>>)
                /\ relays' = [relays EXCEPT ![t] = @ - 1] /\ rstale' = [rstale EXCEPT ![t] = TRUE]
                /\ UNCHANGED <<gray, direct, stale, wsubs, kind, conn, gated, held, rup, their, bst, nmsg, faults, remotes, quiets>>
\* the RelayCancelFunc that was called last is called a second time
UnrelayAgain(t) == /\ K("unrelayAgain") /\ rstale[t] /\ Add(<<[a |-> "unrelayAgain", t |-> t]>>)
                /\ UNCHANGED <<gray, direct, stale, rstale, wsubs, relays, kind, conn, gated, held, rup, their, bst, nmsg, faults, remotes, quiets>>
JoinFan(t)   == /\ K("joinFan") /\ t \in FanTopics /\ kind[t] = "none" /\ Add(<<[a |-> "join", t |-> t, fanoutOnly |-> TRUE]>>)
                /\ kind' = [kind EXCEPT ![t] = "fanout"]
                /\ UNCHANGED <<gray, direct, stale, rstale, wsubs, relays, conn, gated, held, rup, their, bst, nmsg, faults, remotes, quiets>>
Close(t)     == /\ K("close") /\ t \in FanTopics /\ kind[t] # "none" /\ Subs(t) = 0 /\ relays[t] = 0
                /\ Add(<<[a |-> "closeTopic", t |-> t]>>) /\ kind' = [kind EXCEPT ![t] = "none"]
                /\ UNCHANGED <<gray, direct, stale, rstale, wsubs, relays, conn, gated, held, rup, their, bst, nmsg, faults, remotes, quiets>>

\* Topic.Close while subscriptions or relays exist is refused (nothing changes; cancels afterwards work as usual)
CloseBusy(t) == /\ K("closeBusy") /\ kind[t] # "none" /\ (Subs(t) > 0 \/ relays[t] > 0) /\ Add(<<[a |-> "closeTopic", t |-> t]>>)
                /\ UNCHANGED <<gray, direct, stale, rstale, wsubs, relays, kind, conn, gated, held, rup, their, bst, nmsg, faults, remotes, quiets>>

Gate(p)    == /\ K("gate") /\ conn[p] = "up" /\ ~gated[p] /\ Add(<<[a |-> "gate", p |-> p, on |-> TRUE]>>)
              /\ gated' = [gated EXCEPT ![p] = TRUE]
              /\ UNCHANGED <<gray, direct, stale, rstale, wsubs, relays, kind, conn, held, rup, their, bst, nmsg, faults, remotes, quiets>>
Ungate(p)  == /\ K("gate") /\ gated[p] /\ Add(<<[a |-> "gate", p |-> p, on |-> FALSE]>>)
              /\ gated' = [gated EXCEPT ![p] = FALSE]
              /\ UNCHANGED <<gray, direct, stale, rstale, wsubs, relays, kind, conn, held, rup, their, bst, nmsg, faults, remotes, quiets>>
HPeer(p)   == /\ K("hpeer") /\ conn[p] # "up" /\ ~held[p] /\ Add(<<[a |-> "hpeer", p |-> p, subs |-> SetToSeq(their[p])]>>)
              /\ conn' = [conn EXCEPT ![p] = "up"] /\ held' = [held EXCEPT ![p] = TRUE] /\ rup' = [rup EXCEPT ![p] = TRUE]
              /\ UNCHANGED <<gray, direct, stale, rstale, wsubs, relays, kind, gated, their, bst, nmsg, faults, remotes, quiets>>
Release(p) == /\ K("release") /\ held[p] /\ Add(<<[a |-> "release", p |-> p]>>)
              /\ held' = [held EXCEPT ![p] = FALSE]
              /\ UNCHANGED <<gray, direct, stale, rstale, wsubs, relays, kind, conn, gated, rup, their, bst, nmsg, faults, remotes, quiets>>

Fault == faults < MaxFault /\ faults' = faults + 1
\* the node's OUTBOUND stream is reset by the peer, connection and the peer's own stream survive (D12 territory)
ResetIn(p) == /\ K("resetIn") /\ conn[p] = "up" /\ ~held[p] /\ Fault /\ Add(<<[a |-> "resetIn", p |-> p]>>)
              /\ UNCHANGED <<gray, direct, stale, rstale, wsubs, relays, kind, conn, gated, held, rup, their, bst, nmsg, remotes, quiets>>
\* the node's INBOUND stream dies (reset or EOF); the peer - a correct node - reopens it and re-sends its hello
RstIn(p, how) == /\ K("rstIn") /\ conn[p] = "up" /\ rup[p] /\ Fault /\ Add(<<[a |-> how, p |-> p], PeerAct(p)>>)
                 /\ UNCHANGED <<gray, direct, stale, rstale, wsubs, relays, kind, conn, gated, held, rup, their, bst, nmsg, remotes, quiets>>
\* the same, but the remote changed its mind about t while its stream was down: the new hello is all the node gets
\* (a topic dropped from the hello must be forgotten: that is the job of clearPeerFromTopicsState on the closed stream)
RstInFlip(p, how, t) ==
                 /\ K("rstIn") /\ conn[p] = "up" /\ rup[p] /\ Fault
                 /\ LET th == IF t \in their[p] THEN their[p] \ {t} ELSE their[p] \cup {t} IN
                    /\ Add(<<[a |-> how, p |-> p], [a |-> "peer", p |-> p, subs |-> SetToSeq(th)]>>)
                    /\ their' = [their EXCEPT ![p] = th]
                 /\ UNCHANGED <<gray, direct, stale, rstale, wsubs, relays, kind, conn, gated, held, rup, bst, nmsg, remotes, quiets>>
\* the peer opens a second stream (with its hello) without closing the first: the node replaces its handler
DupIn(p)   == /\ K("dupIn") /\ conn[p] = "up" /\ rup[p] /\ Fault /\ Add(<<PeerAct(p)>>)
              /\ UNCHANGED <<gray, direct, stale, rstale, wsubs, relays, kind, conn, gated, held, rup, their, bst, nmsg, remotes, quiets>>
\* ... and the second stream's hello announces a DIFFERENT, non-empty set S (subset, disjoint or superset of what the
\* first stream announced): what was learnt on the replaced stream must not survive
DupInSet(p, S) ==
              /\ K("dupInSet") /\ conn[p] = "up" /\ rup[p] /\ Fault /\ S # their[p] /\ S # {}
              /\ Add(<<[a |-> "peer", p |-> p, subs |-> SetToSeq(S)]>>) /\ their' = [their EXCEPT ![p] = S]
              /\ UNCHANGED <<gray, direct, stale, rstale, wsubs, relays, kind, conn, gated, held, rup, bst, nmsg, remotes, quiets>>
Down(p)    == /\ K("down") /\ conn[p] = "up" /\ ~held[p] /\ ~gated[p] /\ Fault /\ Add(<<[a |-> "down", p |-> p]>>)
              /\ conn' = [conn EXCEPT ![p] = "down"] /\ rup' = [rup EXCEPT ![p] = FALSE]
              /\ UNCHANGED <<gray, direct, stale, rstale, wsubs, relays, kind, gated, held, their, bst, nmsg, remotes, quiets>>
Up(p)      == /\ K("up") /\ conn[p] # "up" /\ ~held[p] /\ Add(<<PeerAct(p)>>)
              /\ conn' = [conn EXCEPT ![p] = "up"] /\ rup' = [rup EXCEPT ![p] = TRUE]
              /\ UNCHANGED <<gray, direct, stale, rstale, wsubs, relays, kind, gated, held, their, bst, nmsg, faults, remotes, quiets>>
\* the remote changes its mind (or repeats itself: duplicates must be harmless)
RSub(p, t, flip) == /\ K("rsub") /\ conn[p] = "up" /\ rup[p] /\ remotes < MaxRemote /\ remotes' = remotes + 1
                    /\ LET v == IF flip THEN t \notin their[p] ELSE t \in their[p] IN
                       /\ Add(<<[a |-> "sub", p |-> p, t |-> t, v |-> v]>>)
                       /\ their' = [their EXCEPT ![p] = IF v THEN @ \cup {t} ELSE @ \ {t}]
                    /\ UNCHANGED <<gray, direct, stale, rstale, wsubs, relays, kind, conn, gated, held, rup, bst, nmsg, faults, quiets>>

(* gossipsub with peer scoring: the application-specific score of p is pushed below the graylist threshold (the router then
   answers AcceptNone for p: its messages and control are dropped, its ANNOUNCEMENTS must still be heard) and recovers later *)
Gray(p)   == /\ K("gray") /\ conn[p] = "up" /\ Add(<<[a |-> "score", p |-> p, v |-> IF gray[p] THEN 0 ELSE 0 - 10]>>)
             /\ gray' = [gray EXCEPT ![p] = ~@]
             /\ UNCHANGED <<direct, stale, rstale, wsubs, relays, kind, conn, gated, held, rup, their, bst, nmsg, faults, remotes, quiets>>
\* a direct peer is accepted whatever its score
Direct(p) == /\ K("direct") /\ conn[p] = "up" /\ Add(<<[a |-> "direct", p |-> p, on |-> ~direct[p]]>>)
             /\ direct' = [direct EXCEPT ![p] = ~@]
             /\ UNCHANGED <<gray, stale, rstale, wsubs, relays, kind, conn, gated, held, rup, their, bst, nmsg, faults, remotes, quiets>>

Quiet == /\ K("quiet") /\ ~lastq /\ n > 0 /\ quiets < MaxQuiet /\ quiets' = quiets + 1
         /\ \A p \in Peers : ~gated[p] /\ ~held[p] /\ (conn[p] = "up" => rup[p])
         /\ hist' = Append(hist, [a |-> "quiet"]) /\ n' = n + 1 /\ lastq' = TRUE
         /\ UNCHANGED <<gray, direct, stale, rstale, wsubs, relays, kind, conn, gated, held, rup, their, bst, nmsg, faults, remotes>>

\* the buffered subscription without a reader (Next after Cancel)
BSub    == /\ K("bsub") /\ bst = "none" /\ Add(<<[a |-> "bsub", t |-> BufTopic, size |-> 2]>>) /\ bst' = "live"
           /\ kind' = [kind EXCEPT ![BufTopic] = IF @ = "none" THEN "normal" ELSE @]
           /\ UNCHANGED <<gray, direct, stale, rstale, wsubs, relays, conn, gated, held, rup, their, nmsg, faults, remotes, quiets>>
BCancel == /\ K("bsub") /\ bst = "live" /\ Add(<<[a |-> "bcancel"]>>) /\ bst' = "cancelled"
           /\ UNCHANGED <<gray, direct, stale, rstale, wsubs, relays, kind, conn, gated, held, rup, their, nmsg, faults, remotes, quiets>>
NextK(k) == /\ K("bsub") /\ bst # "none" /\ Add(<<[a |-> "next", n |-> k]>>)
            /\ UNCHANGED <<gray, direct, stale, rstale, wsubs, relays, kind, conn, gated, held, rup, their, bst, nmsg, faults, remotes, quiets>>
Msg(p)  == /\ K("bsub") /\ bst # "none" /\ conn[p] = "up" /\ rup[p] /\ nmsg < MaxMsg /\ nmsg' = nmsg + 1
           /\ Add(<<[a |-> "msg", p |-> p, t |-> BufTopic, m |-> "m" \o ToString(nmsg + 1)]>>)
           /\ UNCHANGED <<gray, direct, stale, rstale, wsubs, relays, kind, conn, gated, held, rup, their, bst, faults, remotes, quiets>>

Next ==
    \/ \E t \in Topics : Subscribe(t) \/ Cancel(t) \/ CancelOld(t) \/ CancelAgain(t) \/ Relay(t) \/ Unrelay(t) \/ UnrelayAgain(t)
                         \/ JoinFan(t) \/ Close(t) \/ CloseBusy(t)
    \/ \E p \in Peers : Gate(p) \/ Ungate(p) \/ HPeer(p) \/ Release(p) \/ ResetIn(p) \/ DupIn(p) \/ Down(p) \/ Up(p)
                         \/ RstIn(p, "resetOut") \/ RstIn(p, "closeOut") \/ Msg(p)
    \/ \E p \in Peers : Gray(p) \/ Direct(p)
    \/ \E p \in Peers, t \in Topics, f \in BOOLEAN : RSub(p, t, f)
    \/ \E p \in Peers, t \in Topics : RstInFlip(p, "resetOut", t) \/ RstInFlip(p, "closeOut", t)
    \/ \E p \in Peers, S \in SUBSET Topics : DupInSet(p, S)
    \/ Quiet \/ BSub \/ BCancel \/ NextK(1) \/ NextK(3)

Spec == Init /\ [][Next]_vars

\* emit every scenario of exactly L stimuli (shorter ones are prefixes, judged at the quiet lines inside)
Emit == n = L => PrintT(<<"SCN", ToJson([acts |-> hist])>>)
=============================================================================
