\* 2 peers, belief side against the router's verdict about the sender (graylisted / gater-throttled)
SPECIFICATION Spec
CONSTANTS
  p1 = p1
  T1 = T1
  T2 = T2
  Peers <- MCPeers
  Topics <- MCTopics
  p2 = p2
  Cap = 1
  MaxOps = 0
  MaxDrops = 0
  MaxResetOut = 0
  MaxResetIn = 1
  MaxDisc = 1
  MaxGate = 0
  MaxHold = 0
  MaxRemote = 2
  MaxRef = 2
  AllowFanout = FALSE
  FixD12 = TRUE
  RetryRechecks = TRUE
  RetryFanoutAware = TRUE
  ClosedOrdered = TRUE
  DupClears = TRUE
  MaxDup = 1
  AllowRepeat = FALSE
  CancelIdempotent = TRUE
  RelayCancelIdempotent = TRUE
  SubsBeforeAccept = TRUE
  MaxAcc = 2
INVARIANT TypeOK
INVARIANT P_C05_WireTruth
INVARIANT P_C05_ListPeers
INVARIANT P_C05_NoSpuriousAnnounce
INVARIANT P_C05_Settles
INVARIANT HandlesMatch
CONSTRAINT Bound
SYMMETRY Sym
CHECK_DEADLOCK FALSE
