\* seeded: a replaced inbound stream reports no ClosedStream: P_C05_ListPeers MUST fail
SPECIFICATION Spec
CONSTANTS
  p1 = p1
  T1 = T1
  T2 = T2
  Peers <- MCPeers
  Topics <- MCTopics
  p2 = p2
  Cap = 1
  MaxOps = 1
  MaxDrops = 0
  MaxResetOut = 1
  MaxResetIn = 1
  MaxDisc = 1
  MaxGate = 0
  MaxHold = 1
  MaxRemote = 2
  MaxRef = 2
  AllowFanout = FALSE
  FixD12 = TRUE
  RetryRechecks = TRUE
  RetryFanoutAware = TRUE
  ClosedOrdered = TRUE
  DupClears = FALSE
  MaxDup = 1
  AllowRepeat = FALSE
  CancelIdempotent = TRUE
  RelayCancelIdempotent = TRUE
  SubsBeforeAccept = TRUE
  MaxAcc = 0
INVARIANT TypeOK
INVARIANT P_C05_WireTruth
INVARIANT P_C05_ListPeers
INVARIANT P_C05_NoSpuriousAnnounce
INVARIANT P_C05_Settles
CONSTRAINT Bound
SYMMETRY Sym
CHECK_DEADLOCK FALSE
