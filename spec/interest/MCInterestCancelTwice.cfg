\* seeded: handleRemoveSubscription not idempotent (last-subscription test before the delete): P_C05_NoSpuriousAnnounce MUST fail
SPECIFICATION Spec
CONSTANTS
  p1 = p1
  T1 = T1
  T2 = T2
  Peers <- MCPeers
  Topics <- MCTopics
  Cap = 1
  MaxOps = 5
  MaxDrops = 2
  MaxResetOut = 1
  MaxResetIn = 0
  MaxDisc = 1
  MaxGate = 1
  MaxHold = 1
  MaxRemote = 0
  MaxRef = 2
  AllowFanout = FALSE
  FixD12 = TRUE
  RetryRechecks = TRUE
  RetryFanoutAware = TRUE
  ClosedOrdered = TRUE
  DupClears = TRUE
  MaxDup = 0
  AllowRepeat = TRUE
  CancelIdempotent = FALSE
  RelayCancelIdempotent = TRUE
  SubsBeforeAccept = TRUE
  MaxAcc = 0
INVARIANT TypeOK
INVARIANT P_C05_WireTruth
INVARIANT P_C05_ListPeers
INVARIANT P_C05_NoSpuriousAnnounce
INVARIANT P_C05_Settles
CONSTRAINT Bound
SYMMETRY Sym
CHECK_DEADLOCK FALSE
