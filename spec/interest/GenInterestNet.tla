--------------------------- MODULE GenInterestNet ---------------------------
(* Scenario generator for C05 (network view): 2-3 REAL nodes, every sequence of at most L stimuli:
   subscribe / cancel / relay / unrelay on any node, link / unlink of pairs, single-direction resets of the
   pubsub stream pair of a linked pair, quiescent checks. Inputs only; InterestNetTrace judges. *)
EXTENDS Naturals, Sequences, FiniteSets, TLC, Json

CONSTANTS Nodes, Topics, L, Kinds, LinkedAtStart, MaxRef, MaxFault, MaxQuiet

VARIABLES subs, relays, link, faults, quiets, lastq, hist, n,
          stale     \* stale[x][t]: node x holds an already cancelled Subscription of t (Cancel can be called again)
vars == <<subs, relays, link, faults, quiets, lastq, hist, n, stale>>

Pairs == {pr \in SUBSET Nodes : Cardinality(pr) = 2}

Init == /\ subs = [x \in Nodes |-> [t \in Topics |-> 0]] /\ relays = [x \in Nodes |-> [t \in Topics |-> 0]]
        /\ link = IF LinkedAtStart THEN Pairs ELSE {}
        /\ faults = 0 /\ quiets = 0 /\ lastq = FALSE /\ hist = <<>> /\ n = 0
        /\ stale = [x \in Nodes |-> [t \in Topics |-> FALSE]]

K(k) == k \in Kinds /\ n < L
Add(a) == hist' = Append(hist, a) /\ n' = n + 1 /\ lastq' = FALSE

Subscribe(x, t) == /\ K("subscribe") /\ subs[x][t] < MaxRef /\ Add([a |-> "subscribe", n |-> x, t |-> t])
                   /\ subs' = [subs EXCEPT ![x][t] = @ + 1] /\ UNCHANGED <<stale, relays, link, faults, quiets>>
Cancel(x, t)    == /\ K("cancel") /\ subs[x][t] > 0 /\ Add([a |-> "cancel", n |-> x, t |-> t])
                   /\ subs' = [subs EXCEPT ![x][t] = @ - 1] /\ stale' = [stale EXCEPT ![x][t] = TRUE]
                   /\ UNCHANGED <<relays, link, faults, quiets>>
\* Subscription.Cancel called a second time on the handle cancelled last
CancelAgain(x, t) == /\ K("cancelAgain") /\ stale[x][t] /\ Add([a |-> "cancelAgain", n |-> x, t |-> t])
                   /\ UNCHANGED <<stale, subs, relays, link, faults, quiets>>
Relay(x, t)     == /\ K("relay") /\ relays[x][t] < MaxRef /\ Add([a |-> "relay", n |-> x, t |-> t])
                   /\ relays' = [relays EXCEPT ![x][t] = @ + 1] /\ UNCHANGED <<stale, subs, link, faults, quiets>>
Unrelay(x, t)   == /\ K("unrelay") /\ relays[x][t] > 0 /\ Add([a |-> "unrelay", n |-> x, t |-> t])
                   /\ relays' = [relays EXCEPT ![x][t] = @ - 1] /\ UNCHANGED <<stale, subs, link, faults, quiets>>
Link(x, y)      == /\ K("link") /\ x # y /\ {x, y} \notin link /\ Add([a |-> "link", n |-> x, m |-> y])
                   /\ link' = link \cup {{x, y}} /\ UNCHANGED <<stale, subs, relays, faults, quiets>>
Unlink(x, y)    == /\ K("unlink") /\ x # y /\ {x, y} \in link /\ faults < MaxFault /\ faults' = faults + 1
                   /\ Add([a |-> "unlink", n |-> x, m |-> y])
                   /\ link' = link \ {{x, y}} /\ UNCHANGED <<stale, subs, relays, quiets>>
\* reset ONE stream of the pair, seen from x: dir "out" = the stream x opened to y; side = whose stream object is reset
Rst(x, y, dir, side) ==
                   /\ K("rst") /\ x # y /\ {x, y} \in link /\ faults < MaxFault /\ faults' = faults + 1
                   /\ Add([a |-> "rst", n |-> x, m |-> y, dir |-> dir, side |-> side])
                   /\ UNCHANGED <<stale, subs, relays, link, quiets>>
Quiet           == /\ K("quiet") /\ ~lastq /\ n > 0 /\ quiets < MaxQuiet /\ quiets' = quiets + 1
                   /\ hist' = Append(hist, [a |-> "quiet"]) /\ n' = n + 1 /\ lastq' = TRUE
                   /\ UNCHANGED <<stale, subs, relays, link, faults>>

Next == \/ \E x \in Nodes, t \in Topics : Subscribe(x, t) \/ Cancel(x, t) \/ CancelAgain(x, t) \/ Relay(x, t) \/ Unrelay(x, t)
        \/ \E x, y \in Nodes : Link(x, y) \/ Unlink(x, y)
        \/ \E x, y \in Nodes, dir \in {"out", "in"}, side \in {"local", "remote"} : Rst(x, y, dir, side)
        \/ Quiet
Spec == Init /\ [][Next]_vars
Emit == n = L => PrintT(<<"SCN", ToJson([acts |-> hist])>>)
=============================================================================
