--------------------------- MODULE InterestTrace ---------------------------
(* Trace specification for C05 (wire view): step lines recorded by harness/drivers/c05 TestC05Wire on ONE real
   node with wire-level fake peers (projected by bin/lib/props/c05.py to the fields used here).

   The monitors are driven by the STIMULI (act) and by what was OBSERVED (tracer events of announcements at enqueue
   time, subscription options the fake peers read from the wire, stream up/down marks); the node's own bookkeeping
   is only compared, never copied. The replays are deterministic up to the random 1..1000 ms sleep of
   announceRetry, which the pending-retry monitor tolerates, so the spec is a function of the trace: every line is
   accepted, failing predicates are PRINTED (<<"VIOL", json>>) and the check script turns them into violations.

   Predicates (names as in Interest.tla / InterestSub.tla):
     P_C05_AnnounceOnEdge      every edge of Interested(t) enqueues exactly one announcement per connected peer
     P_C05_NoSpuriousAnnounce  every other enqueued announcement is a retry of a dropped one and repeats the CURRENT value
     P_C05_WireTruth           at quiescence the fold of what each connected peer received equals Interested
     P_C05_ListPeers           at quiescence ListPeers(t) (and the belief p.topics[t]) = connected interested peers
     P_C05_GetTopics           GetTopics = topics with a live subscription (every line)
     P_C05_CancelledNext       Next results of the buffered subscription
     P_C05_RelayFanoutOnly     Topic.Relay on a fanout-only topic refuses
   The interest truth is (number of LIVE Subscription handles + not yet cancelled relay references) > 0: a second Cancel of an
   already cancelled handle, a RelayCancelFunc called twice and a refused Topic.Close change nothing and may announce nothing. *)
EXTENDS Integers, Sequences, FiniteSets, TLC, Json

Trace == ndJsonDeserialize("trace.ndjson")

VARIABLES m,   \* all monitors (one record)
          l    \* cursor

ToSet(s) == {s[i] : i \in DOMAIN s}
E == Trace[l]
RetryWindow == 1001   \* announceRetry sleeps 1..1000 ms

EmptyM == [topics |-> {}, peers |-> {}, wsubs |-> <<>>, relays |-> <<>>, kind |-> <<>>,
           conn |-> <<>>, gated |-> <<>>, held |-> <<>>, rup |-> <<>>, their |-> <<>>,
           up |-> <<>>, wf |-> <<>>, pend |-> <<>>, lost |-> <<>>,
           bst |-> "none", btopic |-> "", bcap |-> 0, bbuf |-> <<>>, scn |-> 0, seen |-> {}, broken |-> FALSE, stale |-> {}, lostUnsub |-> {}, ctried |-> {},
           gray |-> {}, direct |-> {}, scoring |-> FALSE, graylist |-> 0]

ResetM(e) ==
    LET T == ToSet(e.cfg.topics)  P == ToSet(e.cfg.peers) IN
    [topics |-> T, peers |-> P,
     wsubs |-> [t \in T |-> 0], relays |-> [t \in T |-> 0], kind |-> [t \in T |-> "none"],
     conn |-> [p \in P |-> FALSE], gated |-> [p \in P |-> FALSE], held |-> [p \in P |-> FALSE],
     rup |-> [p \in P |-> FALSE], their |-> [p \in P |-> {}],
     up |-> [p \in P |-> FALSE], wf |-> [p \in P |-> {}],      \* wf[p] = topics p believes the node is interested in
     pend |-> <<>>, lost |-> [p \in P |-> {}],
     bst |-> "none", btopic |-> "", bcap |-> 0, bbuf |-> <<>>, scn |-> e.scn, seen |-> {}, broken |-> FALSE, stale |-> {}, lostUnsub |-> {}, ctried |-> {},
     gray |-> {}, direct |-> {}, scoring |-> e.cfg.score, graylist |-> e.cfg.graylist]

\* ------------------------------------------------------------------ true interest of the node
Subs(x, t) == x.wsubs[t] + (IF x.bst = "live" /\ x.btopic = t THEN 1 ELSE 0)
Interested(x, t) == (Subs(x, t) > 0 /\ x.kind[t] # "fanout") \/ x.relays[t] > 0

\* a fanout-only topic with a live subscription: before fix D20 announceRetry's re-check (ok == subs or relays) took it for
\* interest; fanoutSubscribed / fanoutRetry label a recurrence (no longer a known finding: it is a VIOLATION)
FanSub(x, t) == t \in x.topics /\ x.kind[t] = "fanout" /\ Subs(x, t) > 0

\* ------------------------------------------------------------------ effect of the stimulus on the monitors
Joined(x, t) == IF x.kind[t] = "none" THEN [x EXCEPT !.kind[t] = "normal"] ELSE x

Act(x, a) ==
    CASE a.a = "subscribe" -> [Joined(x, a.t) EXCEPT !.wsubs[a.t] = @ + 1]
      [] a.a = "cancel"    -> IF x.wsubs[a.t] > 0 THEN [x EXCEPT !.wsubs[a.t] = @ - 1] ELSE x
      [] a.a = "relay"     -> IF x.kind[a.t] = "fanout" THEN x ELSE [Joined(x, a.t) EXCEPT !.relays[a.t] = @ + 1]
      [] a.a = "unrelay"   -> IF x.relays[a.t] > 0 THEN [x EXCEPT !.relays[a.t] = @ - 1] ELSE x
      [] a.a = "join"      -> IF x.kind[a.t] = "none" THEN [x EXCEPT !.kind[a.t] = IF a.fan THEN "fanout" ELSE "normal"] ELSE x
      [] a.a = "closeTopic" -> IF x.kind[a.t] # "none" /\ Subs(x, a.t) = 0 /\ x.relays[a.t] = 0
                                 THEN [x EXCEPT !.kind[a.t] = "none"]
                                 ELSE IF x.kind[a.t] # "none" THEN [x EXCEPT !.ctried = @ \cup {a.t}] ELSE x   \* refused: nothing changes
      \* Cancel called again on an already cancelled Subscription / a RelayCancelFunc called twice: the truth
      \* (number of LIVE handles + live relay references) does not change, so nothing may be announced
      [] a.a \in {"cancelAgain", "unrelayAgain"} -> x
      [] a.a = "bsub"      -> [Joined(x, a.t) EXCEPT !.bst = "live", !.btopic = a.t, !.bcap = a.size, !.bbuf = <<>>]
      [] a.a = "bcancel"   -> IF x.bst = "live" THEN [x EXCEPT !.bst = "cancelled"] ELSE x
      [] a.a = "peer"      -> [x EXCEPT !.conn[a.p] = TRUE, !.rup[a.p] = TRUE, !.their[a.p] = ToSet(a.subs),
                                         !.lost[a.p] = {}, !.held[a.p] = (@ \/ a.held), !.seen = @ \cup {a.p}]
      \* gossipsub with peer scoring: the scenario sets p's (application-specific) score; below the graylist threshold the router
      \* answers AcceptNone for p. A direct peer is accepted whatever its score. Neither changes what the node must believe:
      \* handleIncomingRPC does the subscription bookkeeping before it asks the router
      [] a.a = "score"     -> [x EXCEPT !.gray = IF x.scoring /\ a.sv < x.graylist THEN @ \cup {a.p} ELSE @ \ {a.p}]
      [] a.a = "direct"    -> [x EXCEPT !.direct = IF a.on THEN @ \cup {a.p} ELSE @ \ {a.p}]
      [] a.a = "release"   -> [x EXCEPT !.held[a.p] = FALSE]
      [] a.a = "gate"      -> [x EXCEPT !.gated[a.p] = a.on]
      [] a.a = "down"      -> [x EXCEPT !.conn[a.p] = FALSE, !.rup[a.p] = FALSE, !.their[a.p] = {}, !.lost[a.p] = {}]
      [] a.a = "sub"       -> [x EXCEPT !.their[a.p] = IF a.v THEN @ \cup {a.t} ELSE @ \ {a.t}, !.lost[a.p] = @ \ {a.t}]
      \* the node's OUTBOUND stream is reset by the peer while the connection and the peer's own stream survive:
      \* a correct peer has no reason to re-announce. lost = what the node is known to forget (section 5, D12)
      [] a.a = "resetIn"   -> IF x.conn[a.p] /\ x.rup[a.p] /\ x.up[a.p] THEN [x EXCEPT !.lost[a.p] = x.their[a.p]] ELSE x
      \* the peer's stream to the node dies (it re-opens it and re-sends its hello with a later "peer" action)
      [] a.a \in {"resetOut", "closeOut"} -> [x EXCEPT !.rup[a.p] = FALSE, !.lost[a.p] = {}]
      [] OTHER -> x

IsApi(a) == a.a \in {"subscribe", "cancel", "cancelAgain", "relay", "unrelay", "unrelayAgain", "join", "closeTopic", "bsub", "bcancel"}
ApiTopic(x, a) == IF a.a = "bcancel" THEN x.btopic ELSE a.t

\* ------------------------------------------------------------------ announcements at enqueue time
(* walk the Send/Drop events with subscription options in order. st = [pend, used, bad]:
   pend = pending retries [p, t, b, at]; used = peers whose edge announcement was seen; bad = offending events *)
RECURSIVE FirstIdx(_, _, _, _)
FirstIdx(pend, e, i, none) ==
    IF i > Len(pend) THEN none
    ELSE IF pend[i].p = e.p /\ pend[i].t = e.topic /\ pend[i].b = e.sub /\ pend[i].at <= e.t /\ e.t <= pend[i].at + RetryWindow
         THEN i ELSE FirstIdx(pend, e, i + 1, none)

RemoveAt(s, i) == [j \in 1..(Len(s) - 1) |-> IF j < i THEN s[j] ELSE s[j + 1]]
NewPend(e) == [p |-> e.p, t |-> e.topic, b |-> e.sub, at |-> e.t]

RECURSIVE Walk(_, _, _, _, _, _, _)
Walk(anns, i, st, edgeOn, et, eb, ok) ==
    \* ok(t) = the values a retry may legitimately repeat in this step: Interested before / after the stimulus
    IF i > Len(anns) THEN st
    ELSE LET e == anns[i]
             isEdge == edgeOn /\ e.topic = et /\ e.sub = eb /\ e.p \notin st.used
             k == FirstIdx(st.pend, e, 1, 0)
             p1 == IF isEdge THEN st.pend ELSE IF k > 0 THEN RemoveAt(st.pend, k) ELSE st.pend
             p2 == IF e.k = "Drop" THEN Append(p1, NewPend(e)) ELSE p1
             bad1 == IF isEdge THEN st.bad
                     ELSE IF k = 0 THEN Append(st.bad, [why |-> "notARetry", ev |-> e])
                     ELSE IF e.sub \notin ok[e.topic] THEN Append(st.bad, [why |-> "staleRetry", ev |-> e])
                     ELSE st.bad
             cov1 == IF ~isEdge /\ k > 0 THEN st.cov \cup {IF e.k = "Send" THEN "retrySent" ELSE "retryRedropped"}
                     ELSE IF isEdge /\ e.k = "Drop" THEN st.cov \cup {"edgeDropped"} ELSE st.cov
         IN Walk(anns, i + 1, [pend |-> p2, used |-> IF isEdge THEN st.used \cup {e.p} ELSE st.used, bad |-> bad1, cov |-> cov1],
                 edgeOn, et, eb, ok)

\* retries whose window has passed are gone (they fired and decided not to send, or the peer had no queue)
RECURSIVE Purge(_, _, _)
Purge(pend, now, i) ==
    IF i > Len(pend) THEN <<>>
    ELSE IF pend[i].at + RetryWindow < now THEN Purge(pend, now, i + 1)
    ELSE <<pend[i]>> \o Purge(pend, now, i + 1)
Expired(pend, now) == {pend[i] : i \in {j \in DOMAIN pend : pend[j].at + RetryWindow < now}}

\* ------------------------------------------------------------------ the wire as each fake peer saw it
RECURSIVE FoldWire(_, _, _)
FoldWire(w, i, s) ==   \* s = [up, wf]
    IF i > Len(w) THEN s
    ELSE LET x == w[i] IN
         FoldWire(w, i + 1,
            CASE x.k = "up"   -> [up |-> TRUE, wf |-> {}]
              [] x.k = "down" -> [up |-> FALSE, wf |-> {}]
              [] OTHER        -> [s EXCEPT !.wf = IF x.sub THEN @ \cup {x.topic} ELSE @ \ {x.topic}])

\* ------------------------------------------------------------------ the buffered subscription (InterestSub.tla)
RECURSIVE Feed(_, _, _, _)
Feed(buf, d, i, x) ==   \* notifySubs: non-blocking send into a channel of capacity bcap
    IF i > Len(d) THEN buf
    ELSE Feed(IF d[i].k = "Deliver" /\ d[i].topic = x.btopic /\ Len(buf) < x.bcap THEN Append(buf, d[i].m) ELSE buf, d, i + 1, x)

RECURSIVE NextExp(_, _, _)
NextExp(buf, st, n) ==  \* InterestSub!NextResult applied n times
    IF n = 0 THEN <<>>
    ELSE <<IF buf # <<>> THEN Head(buf) ELSE IF st = "cancelled" THEN "cancelled" ELSE "timeout">>
         \o NextExp(IF buf # <<>> THEN Tail(buf) ELSE buf, st, n - 1)
RECURSIVE DropN(_, _)
DropN(buf, n) == IF n = 0 \/ buf = <<>> THEN buf ELSE DropN(Tail(buf), n - 1)

\* ------------------------------------------------------------------ one step
Step(x, e) ==
    LET a    == e.act
        x0   == IF x.bst = "live" THEN [x EXCEPT !.bbuf = Feed(x.bbuf, e.deliv, 1, x)] ELSE x
        x1   == Act(x0, a)
        tt   == IF IsApi(a) THEN ApiTopic(x0, a) ELSE ""
        i0   == IF tt # "" THEN Interested(x0, tt) ELSE FALSE
        i1   == IF tt # "" THEN Interested(x1, tt) ELSE FALSE
        edge == tt # "" /\ i0 # i1
        qp   == {p \in x0.peers : x0.conn[p]}
        ok   == [t \in x.topics |-> {Interested(x0, t), Interested(x1, t)}]
        w    == Walk(e.anns, 1, [pend |-> x0.pend, used |-> {}, bad |-> <<>>, cov |-> {}], edge, tt, i1, ok)
        missing == IF edge THEN qp \ w.used ELSE {}
        fold == [p \in x.peers |-> FoldWire(e.wire[p], 1, [up |-> x0.up[p], wf |-> x0.wf[p]])]
        exp  == Expired(w.pend, e.t)
        x2   == [x1 EXCEPT !.pend = Purge(w.pend, e.t, 1),
                           !.up = [p \in x.peers |-> fold[p].up], !.wf = [p \in x.peers |-> fold[p].wf],
                           !.bbuf = IF a.a = "next" THEN DropN(x1.bbuf, Len(e.res)) ELSE x1.bbuf,
                           !.stale = @ \cup {<<w.bad[j].ev.p, w.bad[j].ev.topic>> :
                                              j \in {j \in DOMAIN w.bad : w.bad[j].why = "staleRetry" /\ w.bad[j].ev.sub /\ FanSub(x1, w.bad[j].ev.topic)}},
                           \* a dropped UNSUBSCRIBE whose retry window passed without a re-send while a fanout-only subscription
                           \* makes the retry closure believe the node is still interested
                           !.lostUnsub = @ \cup {<<r.p, r.t>> : r \in {r \in exp : ~r.b /\ FanSub(x1, r.t) /\ x1.conn[r.p]}}]
        nowI == {t \in x.topics : Interested(x1, t)}
        quiet == /\ e.quiet /\ x2.pend = <<>>
                 /\ \A p \in x.peers : ~x2.gated[p] /\ ~x2.held[p] /\ (x2.conn[p] => x2.rup[p])
        expLP(t) == {p \in x.peers : x2.conn[p] /\ x2.rup[p] /\ t \in x2.their[p]}
        d12LP(t) == expLP(t) \ {p \in x.peers : t \in x2.lost[p]}
        base == [scn |-> x.scn, i |-> e.i]
        viols ==
             {[pred |-> "P_C05_NoSpuriousAnnounce", at |-> base, why |-> w.bad[j].why, ev |-> w.bad[j].ev,
               fanoutSubscribed |-> FanSub(x1, w.bad[j].ev.topic)] : j \in DOMAIN w.bad}
        \cup (IF missing # {} THEN {[pred |-> "P_C05_AnnounceOnEdge", at |-> base, topic |-> tt, value |-> i1, peers |-> missing]} ELSE {})
        \cup (IF ToSet(e.gt) # {t \in x.topics : Subs(x1, t) > 0}
                THEN {[pred |-> "P_C05_GetTopics", at |-> base, got |-> ToSet(e.gt), want |-> {t \in x.topics : Subs(x1, t) > 0}]} ELSE {})
        \cup (IF a.a = "relay" /\ x0.kind[a.t] = "fanout" /\ e.err # "fanoutOnly"
                THEN {[pred |-> "P_C05_RelayFanoutOnly", at |-> base, err |-> e.err]} ELSE {})
        \cup (IF a.a = "next" /\ e.res # NextExp(x1.bbuf, x1.bst, Len(e.res))
                THEN {[pred |-> "P_C05_CancelledNext", at |-> base, got |-> e.res, want |-> NextExp(x1.bbuf, x1.bst, Len(e.res)), state |-> x1.bst]} ELSE {})
        \cup (IF a.a = "cancel" /\ x0.wsubs[a.t] > 0 /\ e.rdone # "cancelled"     \* a reader blocked in Next when Cancel arrives
                THEN {[pred |-> "P_C05_CancelledNext", at |-> base, got |-> <<e.rdone>>, want |-> <<"cancelled">>, state |-> "reader"]} ELSE {})
        \cup (IF a.a = "cancelAgain" /\ \E j \in DOMAIN e.live : e.live[j] # "blocked"      \* a LIVE sibling must keep being served
                THEN {[pred |-> "P_C05_CancelledNext", at |-> base, got |-> e.live, want |-> <<"blocked">>, state |-> "live-sibling"]} ELSE {})
        \cup (IF quiet THEN
                {[pred |-> "P_C05_WireTruth", at |-> base, p |-> p, up |-> x2.up[p], wire |-> x2.wf[p], want |-> nowI,
                  fanoutRetry |-> (x2.up[p] /\ nowI \subseteq x2.wf[p] /\ \A t \in x2.wf[p] \ nowI : <<p, t>> \in (x2.stale \cup x2.lostUnsub) /\ FanSub(x2, t))]
                    : p \in {p \in x.peers : x2.conn[p] /\ (~x2.up[p] \/ x2.wf[p] # nowI)}}
           \cup {[pred |-> "P_C05_ListPeers", at |-> base, topic |-> t, got |-> ToSet(e.lp[t]), belief |-> ToSet(e.bel[t]), want |-> expLP(t),
                  d12 |-> (ToSet(e.lp[t]) = d12LP(t) /\ ToSet(e.bel[t]) = d12LP(t)), lostPeers |-> {p \in x.peers : t \in x2.lost[p]}]
                    : t \in {t \in x.topics : ToSet(e.lp[t]) # expLP(t) \/ ToSet(e.bel[t]) # expLP(t)}}
           \cup (IF ToSet(e.lp0) # {p \in x.peers : x2.conn[p]}
                   THEN {[pred |-> "P_C05_ListPeers", at |-> base, topic |-> "", got |-> ToSet(e.lp0), belief |-> {}, want |-> {p \in x.peers : x2.conn[p]},
                          d12 |-> FALSE, lostPeers |-> {}]} ELSE {})
              ELSE {})
        cov == w.cov
               \cup (IF edge THEN {"edge:" \o a.a \o (IF i1 THEN ":on" ELSE ":off")} ELSE {})
               \cup (IF IsApi(a) /\ ~edge /\ a.a \in {"subscribe", "cancel", "relay", "unrelay", "bsub", "bcancel"} THEN {"noedge:" \o a.a} ELSE {})
               \cup (IF \E r \in exp : r.b # Interested(x1, r.t) /\ x1.conn[r.p] THEN {"retrySuppressed"} ELSE {})
               \cup (IF quiet THEN {"quiet"} ELSE IF e.quiet THEN {"notquiet"} ELSE {})
               \cup (IF quiet /\ \E p \in x.peers : x2.lost[p] # {} THEN {"quietAfterOutboundReset"} ELSE {})
               \cup (IF \E j \in DOMAIN e.anns : e.anns[j].k = "Send" /\ x0.held[e.anns[j].p] THEN {"queuedWhileHeld"} ELSE {})
               \cup (IF a.a = "release" /\ x0.held[a.p] /\ Len(e.wire[a.p]) > 1 THEN {"helloThenQueued"} ELSE {})
               \cup (IF a.a = "subscribe" /\ x1.kind[a.t] = "fanout" THEN {"fanoutSubscribe"} ELSE {})
               \cup (IF a.a = "next" /\ x1.bst = "cancelled" THEN {"nextAfterCancel"} ELSE {})
               \cup (IF a.a = "cancel" /\ x0.wsubs[a.t] > 0 THEN {"readerCancelled"} ELSE {})
               \cup (IF a.a = "cancel" /\ a.old /\ x0.wsubs[a.t] > 1 THEN {"cancelOldestFirst"} ELSE {})
               \cup (IF a.a = "cancel" /\ a.t \in x0.ctried /\ x0.wsubs[a.t] > 0 THEN {"cancelAfterCloseRefused"} ELSE {})
               \cup (IF a.a = "closeTopic" /\ x0.kind[a.t] # "none" /\ (Subs(x0, a.t) > 0 \/ x0.relays[a.t] > 0) THEN {"closeRefused"} ELSE {})
               \cup (IF a.a \in {"sub", "peer"} /\ a.p \in x0.gray /\ e.scores[a.p] < x.graylist /\ (a.a = "sub" \/ a.subs # <<>>)
                     THEN {(IF a.a = "sub" THEN "sub" ELSE "hello") \o "FromGraylisted" \o (IF a.p \in x0.direct THEN "Direct" ELSE "")} ELSE {})
               \cup (IF a.a = "sub" /\ a.p \in ToSet(e.throttled) THEN {"subFromThrottled"} ELSE {})
               \cup (IF a.a = "score" /\ a.p \in x0.gray /\ a.p \notin x1.gray THEN {"scoreRecovered"} ELSE {})
               \cup (IF a.a = "cancelAgain" THEN {"cancelAgain"} \cup
                        (IF Subs(x0, a.t) = 1 /\ x0.relays[a.t] = 0 /\ x0.kind[a.t] = "normal" THEN {"cancelAgain:oneLiveSiblingNoRelay"} ELSE {}) \cup
                        (IF Subs(x0, a.t) = 0 THEN {"cancelAgain:noneLive"} ELSE {}) ELSE {})
               \cup (IF a.a = "unrelayAgain" THEN {"unrelayAgain"} \cup
                        (IF x0.relays[a.t] = 1 /\ Subs(x0, a.t) = 0 THEN {"unrelayAgain:oneLiveRefNoSub"} ELSE {}) ELSE {})
               \cup (IF a.a \in {"resetIn", "resetOut", "closeOut", "down"} THEN {"fault:" \o a.a} ELSE {})
               \cup (IF a.a = "peer" /\ x0.conn[a.p] /\ x0.rup[a.p] /\ ToSet(a.subs) # x0.their[a.p] /\ x0.their[a.p] # {} /\ a.subs # <<>>
                     THEN {IF ToSet(a.subs) \subseteq x0.their[a.p] THEN "dupInbound:subset"
                           ELSE IF x0.their[a.p] \subseteq ToSet(a.subs) THEN "dupInbound:superset"
                           ELSE IF ToSet(a.subs) \cap x0.their[a.p] = {} THEN "dupInbound:disjoint" ELSE "dupInbound:overlap"} ELSE {})
               \cup (IF a.a = "peer" /\ x0.conn[a.p] THEN {IF x0.rup[a.p] THEN "dupInbound" ELSE "inboundReopened"}
                     ELSE IF a.a = "peer" /\ a.p \in x0.seen THEN {"reconnect"} ELSE {})
        \* the connectivity libp2p reports must be what the stimuli asked for, else the scenario is discarded from here on
        broken == x.broken \/ ToSet(e.hconn) # {p \in x.peers : x2.conn[p]}
    IN [next |-> [x2 EXCEPT !.broken = broken], viols |-> IF broken THEN {} ELSE viols,
        cov |-> IF broken THEN (IF x.broken THEN {} ELSE {"discarded"}) ELSE cov]

TInit == TLCSet(1, 0) /\ m = EmptyM /\ l = 1

TReset ==
    /\ l <= Len(Trace) /\ E.act.a = "reset"
    /\ m' = ResetM(E) /\ l' = l + 1

TStep ==
    /\ l <= Len(Trace) /\ E.act.a # "reset"
    /\ LET r == Step(m, E) IN
         /\ m' = r.next
         /\ \A v \in r.viols : PrintT(<<"VIOL", ToJson(v)>>)
         /\ r.cov # {} => PrintT(<<"COV", ToJson([scn |-> m.scn, tags |-> r.cov])>>)
    /\ l' = l + 1

TNext == TReset \/ TStep
TraceSpec == TInit /\ [][TNext]_<<m, l>>

HW == IF TLCGet(1) < l THEN TLCSet(1, l) ELSE TRUE
Accepted == PrintT(<<"HW", TLCGet(1), Len(Trace) + 1>>)
=============================================================================
