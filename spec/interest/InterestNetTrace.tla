-------------------------- MODULE InterestNetTrace --------------------------
(* Trace specification for C05 (network view): lines recorded by TestC05Net on 2-3 REAL nodes (floodsub,
   randomsub, gossipsub). Monitors are driven by the stimuli only; ListPeers / GetTopics of every node are compared.
     P_C05_ListPeers  at quiescence, on every node, ListPeers(t) = linked nodes that are interested in t
     P_C05_GetTopics  GetTopics = topics with a live subscription (every line)
   A node whose OUTBOUND stream to a still-linked peer died forgets what that peer announced (handleDeadPeers ->
   clearPeerFromTopicsState) and the peer, whose own stream is intact, has no reason to re-announce: `lost` tracks
   exactly that set so that the known non-convergence (section 5, D12) gets d12 = TRUE and anything else does not.
   The READER of the stream that died is re-taught by the writer's respawned stream (hello); before fix D19 (a3fad9c) that
   hello could be overtaken by the late ClosedStream of the old stream (comm.go handleNewStream's deferred cleanup, D19, fixed):
   `racy` tracks what the reader may have lost that way (a rare schedule); d18 = TRUE labels a recurrence (no longer a known finding: it is a VIOLATION). *)
EXTENDS Naturals, Sequences, FiniteSets, TLC, Json

Trace == ndJsonDeserialize("trace.ndjson")
VARIABLES m, l
ToSet(s) == {s[i] : i \in DOMAIN s}
E == Trace[l]

EmptyM == [nodes |-> {}, topics |-> {}, subs |-> <<>>, relays |-> <<>>, link |-> {}, lost |-> <<>>, racy |-> <<>>, scn |-> 0, broken |-> FALSE]
ResetM(e) ==
    LET N == ToSet(e.act.nodes)  T == ToSet(e.act.topics) IN
    [nodes |-> N, topics |-> T, subs |-> [x \in N |-> [t \in T |-> 0]], relays |-> [x \in N |-> [t \in T |-> 0]],
     link |-> {}, lost |-> [x \in N |-> [y \in N |-> {}]], racy |-> [x \in N |-> [y \in N |-> {}]], scn |-> e.scn, broken |-> FALSE]

Interested(x, nd, t) == x.subs[nd][t] > 0 \/ x.relays[nd][t] > 0
Linked(x, a, b) == {a, b} \in x.link

\* an edge of node nd on topic t is announced to every linked node: they (re)learn nd's state for t
Taught(x, nd, t) == [x EXCEPT !.lost = [y \in x.nodes |-> [z \in x.nodes |-> IF z = nd /\ Linked(x, y, nd) THEN x.lost[y][z] \ {t} ELSE x.lost[y][z]]],
                             !.racy = [y \in x.nodes |-> [z \in x.nodes |-> IF z = nd /\ Linked(x, y, nd) THEN x.racy[y][z] \ {t} ELSE x.racy[y][z]]]]

Act(x, e) ==
    LET a == e.act IN
    CASE a.a = "subscribe" -> [x EXCEPT !.subs[a.n][a.t] = @ + 1]
      [] a.a = "cancel"    -> IF x.subs[a.n][a.t] > 0 THEN [x EXCEPT !.subs[a.n][a.t] = @ - 1] ELSE x
      [] a.a = "relay"     -> [x EXCEPT !.relays[a.n][a.t] = @ + 1]
      [] a.a = "unrelay"   -> IF x.relays[a.n][a.t] > 0 THEN [x EXCEPT !.relays[a.n][a.t] = @ - 1] ELSE x
      [] a.a = "link"      -> [x EXCEPT !.link = @ \cup {{a.n, a.m}}, !.lost[a.n][a.m] = {}, !.lost[a.m][a.n] = {},
                                         !.racy[a.n][a.m] = {}, !.racy[a.m][a.n] = {}]
      [] a.a = "unlink"    -> [x EXCEPT !.link = @ \ {{a.n, a.m}}, !.lost[a.n][a.m] = {}, !.lost[a.m][a.n] = {},
                                         !.racy[a.n][a.m] = {}, !.racy[a.m][a.n] = {}]
      [] a.a = "rst"       ->
            \* W = the writer (owner) of the stream that died, R = its reader
            LET W == IF a.dir = "out" THEN a.n ELSE a.m
                R == IF a.dir = "out" THEN a.m ELSE a.n IN
            IF Linked(x, a.n, a.m) /\ e.found > 0
              THEN [x EXCEPT !.lost[W][R] = IF e.other_alive THEN {t \in x.topics : Interested(x, R, t)} ELSE {},
                             !.lost[R][W] = {},      \* W respawns its stream and re-sends its hello to R ...
                             !.racy[R][W] = {t \in x.topics : Interested(x, W, t)}]   \* ... which the late ClosedStream may wipe
              ELSE x
      [] OTHER -> x

Step(x, e) ==
    LET a  == e.act
        x1 == Act(x, e)
        isApi == a.a \in {"subscribe", "cancel", "relay", "unrelay"}
        edge == isApi /\ Interested(x, a.n, a.t) # Interested(x1, a.n, a.t)
        x2 == IF edge THEN Taught(x1, a.n, a.t) ELSE x1
        want(nd, t) == {y \in x.nodes : Linked(x2, nd, y) /\ Interested(x2, y, t)}
        d12w(nd, t) == want(nd, t) \ {y \in x.nodes : t \in x2.lost[nd][y]}
        known(nd, t) == {y \in x.nodes : t \in x2.lost[nd][y] \/ t \in x2.racy[nd][y]}
        base == [scn |-> x.scn, i |-> e.i]
        viols ==
             {[pred |-> "P_C05_GetTopics", at |-> base, node |-> nd, got |-> ToSet(e.gt[nd]), want |-> {t \in x.topics : x2.subs[nd][t] > 0}]
                 : nd \in {nd \in x.nodes : ToSet(e.gt[nd]) # {t \in x.topics : x2.subs[nd][t] > 0}}}
        \cup (IF e.quiet THEN
               {[pred |-> "P_C05_ListPeers", at |-> base, node |-> c[1], topic |-> c[2], got |-> ToSet(e.lp[c[1]][c[2]]), want |-> want(c[1], c[2]),
                 d12 |-> ToSet(e.lp[c[1]][c[2]]) = d12w(c[1], c[2]), lostPeers |-> {y \in x.nodes : c[2] \in x2.lost[c[1]][y]},
                 d18 |-> (ToSet(e.lp[c[1]][c[2]]) # d12w(c[1], c[2]) /\ ToSet(e.lp[c[1]][c[2]]) \subseteq want(c[1], c[2])
                          /\ (want(c[1], c[2]) \ ToSet(e.lp[c[1]][c[2]])) \subseteq known(c[1], c[2])),
                 racyPeers |-> {y \in x.nodes : c[2] \in x2.racy[c[1]][y]}]
                   : c \in {c \in x.nodes \X x.topics : ToSet(e.lp[c[1]][c[2]]) # want(c[1], c[2])}}
            \cup {[pred |-> "P_C05_ListPeers", at |-> base, node |-> nd, topic |-> "", got |-> ToSet(e.lp0[nd]), want |-> {y \in x.nodes : Linked(x2, nd, y)},
                   d12 |-> FALSE, lostPeers |-> {}, d18 |-> FALSE, racyPeers |-> {}]
                   : nd \in {nd \in x.nodes : ToSet(e.lp0[nd]) # {y \in x.nodes : Linked(x2, nd, y)}}}
              ELSE {})
        cov == (IF e.quiet THEN {"quiet"} ELSE {})
               \cup (IF edge THEN {"edge:" \o a.a} ELSE {})
               \cup (IF a.a = "cancelAgain" THEN {IF x.subs[a.n][a.t] = 1 /\ x.relays[a.n][a.t] = 0 THEN "cancelAgain:oneLiveSiblingNoRelay" ELSE "cancelAgain"} ELSE {})
               \cup (IF a.a = "rst" /\ e.found > 0 THEN {"rst:" \o a.dir \o ":" \o a.side} ELSE {})
               \cup (IF a.a \in {"link", "unlink"} THEN {a.a} ELSE {})
               \cup (IF e.quiet /\ \E y, z \in x.nodes : x2.lost[y][z] # {} THEN {"quietAfterOutboundReset"} ELSE {})
               \cup (IF e.quiet /\ \E c \in x.nodes \X x.topics : want(c[1], c[2]) # {} THEN {"quietNonEmpty"} ELSE {})
        \* the connectivity libp2p reports must be what the stimuli asked for, else the scenario is discarded from here on
        broken == x.broken \/ \E nd \in x.nodes : ToSet(e.conn[nd]) # {y \in x.nodes : Linked(x2, nd, y)}
    IN [next |-> [x2 EXCEPT !.broken = broken], viols |-> IF broken THEN {} ELSE viols,
        cov |-> IF broken THEN (IF x.broken THEN {} ELSE {"discarded"}) ELSE cov]

TInit == TLCSet(1, 0) /\ m = EmptyM /\ l = 1
TReset == /\ l <= Len(Trace) /\ E.act.a = "reset" /\ m' = ResetM(E) /\ l' = l + 1
TStep ==
    /\ l <= Len(Trace) /\ E.act.a # "reset"
    /\ LET r == Step(m, E) IN
         /\ m' = r.next
         /\ \A v \in r.viols : PrintT(<<"VIOL", ToJson(v)>>)
         /\ r.cov # {} => PrintT(<<"COV", ToJson([scn |-> m.scn, tags |-> r.cov])>>)
    /\ l' = l + 1
TNext == TReset \/ TStep
TraceSpec == TInit /\ [][TNext]_<<m, l>>
HW == IF TLCGet(1) < l THEN TLCSet(1, l) ELSE TRUE
Accepted == PrintT(<<"HW", TLCGet(1), Len(Trace) + 1>>)
=============================================================================
