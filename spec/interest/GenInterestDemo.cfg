SPECIFICATION Spec
CONSTANTS
  Topics = {"T1", "T2"}
  Peers = {"p1", "p2"}
  L = 3
  Kinds = {"subscribe", "cancel", "relay", "unrelay", "gate", "quiet"}
  ConnAtStart = {"p1", "p2"}
  HeldAtStart = {}
  TheirAtStart <- G_Their
  FanTopics = {"T2"}
  BufTopic = "T1"
  MaxRef = 2
  MaxFault = 2
  MaxRemote = 2
  MaxMsg = 3
  MaxQuiet = 2
INVARIANT Emit
CHECK_DEADLOCK FALSE
