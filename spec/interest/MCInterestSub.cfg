SPECIFICATION SSpec
CONSTANTS
  BufCap = 2
  MaxMsg = 3
  MaxNext = 5
  CancelClosesChannel = TRUE
INVARIANT P_C05_CancelledNext
CHECK_DEADLOCK FALSE
