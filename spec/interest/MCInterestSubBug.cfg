SPECIFICATION SSpec
CONSTANTS
  BufCap = 2
  MaxMsg = 3
  MaxNext = 5
  CancelClosesChannel = FALSE
INVARIANT P_C05_CancelledNext
CHECK_DEADLOCK FALSE
