---------------------------- MODULE InterestSub ----------------------------
(* C05, second clause: "a cancelled subscription reports cancellation from Next once its buffered
   messages are drained" (subscription.go Next/Cancel/close, pubsub.go notifySubs/handleRemoveSubscription).
   One subscription with a bounded channel and no concurrent reader: the loop delivers into the channel
   (non-blocking: a full channel drops), Cancel makes the loop set err and close the channel, Next receives.
   InterestTrace uses NextResult / the same bookkeeping on real Next results. *)
EXTENDS Naturals, Sequences, TLC

CONSTANTS BufCap, MaxMsg, MaxNext,
          CancelClosesChannel    \* FALSE = seeded deviation: the channel is not closed, Next keeps waiting

VARIABLES sstate,   \* "none" | "live" | "cancelled"
          buf,      \* channel contents
          snap,     \* channel contents at the moment of Cancel
          got,      \* results of the Next calls made after Cancel
          nmsg, nnext

svars == <<sstate, buf, snap, got, nmsg, nnext>>

SInit == sstate = "none" /\ buf = <<>> /\ snap = <<>> /\ got = <<>> /\ nmsg = 0 /\ nnext = 0

SubCreate == sstate = "none" /\ sstate' = "live" /\ UNCHANGED <<buf, snap, got, nmsg, nnext>>

\* notifySubs: only live subscriptions are in mySubs; select { case ch <- msg: default: drop }
Deliver ==
    /\ sstate = "live" /\ nmsg < MaxMsg /\ nmsg' = nmsg + 1
    /\ buf' = IF Len(buf) < BufCap THEN Append(buf, nmsg + 1) ELSE buf
    /\ UNCHANGED <<sstate, snap, got, nnext>>

\* handleRemoveSubscription: sub.err = ErrSubscriptionCancelled; sub.close()
CancelS ==
    /\ sstate = "live" /\ sstate' = "cancelled" /\ snap' = buf /\ got' = <<>>
    /\ UNCHANGED <<buf, nmsg, nnext>>

\* the result of one Next call with a context that expires ("timeout" = it would block)
NextResult(b, st) ==
    IF b # <<>> THEN Head(b)
    ELSE IF st = "cancelled" /\ CancelClosesChannel THEN "cancelled" ELSE "timeout"

SubNext ==
    /\ sstate # "none" /\ nnext < MaxNext /\ nnext' = nnext + 1
    /\ buf' = IF buf # <<>> THEN Tail(buf) ELSE buf
    /\ got' = IF sstate = "cancelled" THEN Append(got, NextResult(buf, sstate)) ELSE got
    /\ UNCHANGED <<sstate, snap, nmsg>>

SNext == SubCreate \/ Deliver \/ CancelS \/ SubNext
SSpec == SInit /\ [][SNext]_svars

\* after Cancel, Next returns the buffered messages in order and then ErrSubscriptionCancelled forever
Expected(sn, i) == IF i <= Len(sn) THEN sn[i] ELSE "cancelled"
P_C05_CancelledNext ==
    sstate = "cancelled" => \A i \in 1..Len(got) : got[i] = Expected(snap, i)
=============================================================================
