---------------------------- MODULE MCInterest1 ----------------------------
EXTENDS Interest
CONSTANTS p1, T1, T2
MCPeers == {p1}
MCTopics == {T1, T2}
Sym == Permutations(MCTopics)
=============================================================================
