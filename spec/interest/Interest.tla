------------------------------ MODULE Interest ------------------------------
(* C05 - interest announcements converge to the true subscription state.

   One node under test (NUT) and its peers, at the grain of the library's event
   loop (pubsub.go processLoop): every action below is one loop iteration, one
   step of a writer goroutine (comm.go handleSendingMessages), one firing of an
   announceRetry goroutine, or one stimulus of the environment.

   NUT:   subs[t], relays[t]   reference counts (mySubs / myRelays)
          kind[t]              topic handle: "none" | "normal" | "fanout" (myTopics, FanoutOnly)
   peer p conn[p]              libp2p connection
          out[p]               "none" | "queueOnly" | "up": p.peers[p] exists before the stream does
          inb[p]               the remote's stream to the NUT (NUT's inbound) is up
          q[p], infl[p]        bounded outbound queue; the RPC the writer popped and is writing
          gated[p], hold[p]    environment: writes to p block / NewStream to p is held
          retry                pending announceRetry goroutines <<p, t, b>>
          wf[p][t]             fold of everything p received on the NUT's current outbound stream
                               (hello first): what p believes about the NUT
          their[p][t]          ground truth of the remote's interest
          bel[t]               the NUT's belief p.topics[t]
   Deviations (constants) name the behaviour of the code as found:
          FixD12 = FALSE        handleDeadPeers clears bel of a peer whose outbound stream died although
                                the connection and the inbound stream survive (section 5, D12)
          RetryRechecks = FALSE announceRetry resends without re-checking the current state (seeded)
          RetryFanoutAware = FALSE  announceRetry's re-check ignores FanoutOnly (before fix D20: ok == subs or relays)
          ClosedOrdered = FALSE handleNewStream's deferred cleanup gives up its inboundStreams slot BEFORE it enqueues
                                ClosedStream: the hello of a replacement stream can be processed first and is then
                                wiped by the late ClosedStream (before fix D19; pclose[p] = ClosedStream not yet processed)
          DupClears = FALSE     seeded: a REPLACED inbound stream (the peer opened a second one) reports no ClosedStream, so
                                what was learnt on it survives although the new stream's hello no longer announces it
   The constants TRUE are the checked behaviour (the repaired code: D19 = ClosedOrdered, D20 = RetryFanoutAware are fixed
   in the tree; FixD12 is the property, the tree still deviates: known finding D12). *)
EXTENDS Naturals, Sequences, FiniteSets, TLC

CONSTANTS Topics, Peers, Cap,
          MaxOps, MaxDrops, MaxResetOut, MaxResetIn, MaxDisc, MaxGate, MaxHold, MaxRemote, MaxRef,
          AllowFanout,
          MaxDup,
          FixD12, RetryRechecks, RetryFanoutAware, ClosedOrdered, DupClears

VARIABLES subs, relays, kind,
          conn, out, inb, q, infl, gated, hold, retry, wf, their, bel,
          pclose, cnt, bad

vars == <<subs, relays, kind, conn, out, inb, q, infl, gated, hold, retry, wf, their, bel, pclose, cnt, bad>>
nutv == <<subs, relays, kind>>

None == <<>>
NoWire == [t \in Topics |-> FALSE]

InterestedW(s, r, k, t) == (s[t] > 0 /\ k[t] # "fanout") \/ r[t] > 0
Interested(t) == InterestedW(subs, relays, kind, t)
\* what the retry closure of the code looks at
RetryOk(t) == IF RetryFanoutAware THEN Interested(t) ELSE (subs[t] > 0 \/ relays[t] > 0)

ListPeers(t) == {p \in Peers : out[p] # "none" /\ p \in bel[t]}

Init ==
    /\ subs = [t \in Topics |-> 0] /\ relays = [t \in Topics |-> 0] /\ kind = [t \in Topics |-> "none"]
    /\ conn = [p \in Peers |-> FALSE] /\ out = [p \in Peers |-> "none"] /\ inb = [p \in Peers |-> FALSE]
    /\ q = [p \in Peers |-> <<>>] /\ infl = [p \in Peers |-> None]
    /\ gated = [p \in Peers |-> FALSE] /\ hold = [p \in Peers |-> FALSE]
    /\ retry = {} /\ wf = [p \in Peers |-> NoWire]
    /\ their = [p \in Peers |-> [t \in Topics |-> FALSE]]
    /\ bel = [t \in Topics |-> {}] /\ pclose = [p \in Peers |-> FALSE]
    /\ cnt = [ops |-> 0, drops |-> 0, rout |-> 0, rin |-> 0, disc |-> 0, gate |-> 0, hold |-> 0, remote |-> 0, dup |-> 0]
    /\ bad = {}

Bump(f) == cnt' = [cnt EXCEPT ![f] = @ + 1]

----------------------------------------------------------------------------
(* announce(t, b): one push per existing queue; a full queue drops and spawns a retry *)
Full(p) == out[p] # "none" /\ Len(q[p]) >= Cap
Room(p) == out[p] # "none" /\ Len(q[p]) < Cap

PushAll(t, b, c) ==
    /\ q' = [p \in Peers |-> IF Room(p) THEN Append(q[p], <<t, b>>) ELSE q[p]]
    /\ retry' = retry \cup {<<p, t, b>> : p \in {x \in Peers : Full(x)}}
    /\ cnt' = [c EXCEPT !.drops = @ + Cardinality({x \in Peers : Full(x)})]

(* an API operation on topic t: new counts s1/r1/k1, the code's decision to announce (ann) value b.
   The monitor `bad` compares the decision with the edge of Interested(t) at ENQUEUE time. *)
ApiOp(t, s1, r1, k1, ann, b) ==
    LET i0 == Interested(t)
        i1 == InterestedW(s1, r1, k1, t)
        c  == [cnt EXCEPT !.ops = @ + 1] IN
    /\ cnt.ops < MaxOps
    /\ subs' = s1 /\ relays' = r1 /\ kind' = k1
    /\ bad' = bad \cup (IF ann /\ ~(i0 # i1 /\ b = i1) THEN {"spurious"} ELSE {})
                  \cup (IF ~ann /\ i0 # i1 THEN {"missing"} ELSE {})
    /\ IF ann THEN PushAll(t, b, c) ELSE cnt' = c /\ UNCHANGED <<q, retry>>
    /\ UNCHANGED <<pclose, conn, out, inb, infl, gated, hold, wf, their, bel>>

\* handleAddSubscription (Topic.Subscribe joins the topic as a normal one when there is no handle)
Subscribe(t) ==
    /\ subs[t] < MaxRef
    /\ LET k1 == IF kind[t] = "none" THEN [kind EXCEPT ![t] = "normal"] ELSE kind IN
       ApiOp(t, [subs EXCEPT ![t] = @ + 1], relays, k1,
             subs[t] = 0 /\ relays[t] = 0 /\ k1[t] # "fanout", TRUE)

\* handleRemoveSubscription
Cancel(t) ==
    /\ subs[t] > 0
    /\ ApiOp(t, [subs EXCEPT ![t] = @ - 1], relays, kind,
             subs[t] = 1 /\ relays[t] = 0 /\ kind[t] # "fanout", FALSE)

\* handleAddRelay (Topic.Relay refuses fanout-only topics: ErrFanoutOnlyTopic, nothing happens)
Relay(t) ==
    /\ relays[t] < MaxRef /\ kind[t] # "fanout"
    /\ LET k1 == IF kind[t] = "none" THEN [kind EXCEPT ![t] = "normal"] ELSE kind IN
       ApiOp(t, subs, [relays EXCEPT ![t] = @ + 1], k1, relays[t] = 0 /\ subs[t] = 0, TRUE)

\* handleRemoveRelay
Unrelay(t) ==
    /\ relays[t] > 0
    /\ ApiOp(t, subs, [relays EXCEPT ![t] = @ - 1], kind, relays[t] = 1 /\ subs[t] = 0, FALSE)

\* Join(t, FanoutOnly()) / Topic.Close (only possible without subscriptions and relays)
JoinFanout(t) ==
    /\ AllowFanout /\ kind[t] = "none"
    /\ ApiOp(t, subs, relays, [kind EXCEPT ![t] = "fanout"], FALSE, FALSE)
CloseTopic(t) ==
    /\ AllowFanout /\ kind[t] # "none" /\ subs[t] = 0 /\ relays[t] = 0
    /\ ApiOp(t, subs, relays, [kind EXCEPT ![t] = "none"], FALSE, FALSE)

----------------------------------------------------------------------------
(* connection and streams *)
Forget(p) == bel' = [t \in Topics |-> bel[t] \ {p}]
Learn(p)  == bel' = [t \in Topics |-> IF their[p][t] THEN bel[t] \cup {p} ELSE bel[t] \ {p}]

PeerConnect(p) ==
    /\ ~conn[p] /\ conn' = [conn EXCEPT ![p] = TRUE]
    /\ UNCHANGED <<pclose, nutv, out, inb, q, infl, gated, hold, retry, wf, their, bel, cnt, bad>>

\* handlePendingPeers: the queue exists from now on, the stream does not yet
QueueCreated(p) ==
    /\ conn[p] /\ out[p] = "none"
    /\ out' = [out EXCEPT ![p] = "queueOnly"] /\ q' = [q EXCEPT ![p] = <<>>]
    /\ UNCHANGED <<pclose, nutv, conn, inb, infl, gated, hold, retry, wf, their, bel, cnt, bad>>

\* case s := <-p.newPeerStream: the hello is the CURRENT interest, written before the queue contents
StreamUp(p) ==
    /\ out[p] = "queueOnly" /\ ~hold[p]
    /\ out' = [out EXCEPT ![p] = "up"]
    /\ wf' = [wf EXCEPT ![p] = [t \in Topics |-> Interested(t)]]
    /\ UNCHANGED <<pclose, nutv, conn, inb, q, infl, gated, hold, retry, their, bel, cnt, bad>>

\* the remote's stream to the NUT comes up; a correct remote sends its hello on it
RemoteOpen(p) ==
    /\ conn[p] /\ ~inb[p] /\ (ClosedOrdered => ~pclose[p])
    /\ inb' = [inb EXCEPT ![p] = TRUE] /\ Learn(p)
    /\ UNCHANGED <<pclose, nutv, conn, out, q, infl, gated, hold, retry, wf, their, cnt, bad>>

\* case incomingKindClosedStream: onClosedIncomingStream -> clearPeerFromTopicsState
ClosedStream(p) ==
    /\ pclose[p] /\ pclose' = [pclose EXCEPT ![p] = FALSE] /\ Forget(p)
    /\ UNCHANGED <<nutv, conn, out, inb, q, infl, gated, hold, retry, wf, their, cnt, bad>>

WriterPop(p) ==
    /\ out[p] = "up" /\ infl[p] = None /\ q[p] # <<>>
    /\ infl' = [infl EXCEPT ![p] = Head(q[p])] /\ q' = [q EXCEPT ![p] = Tail(q[p])]
    /\ UNCHANGED <<pclose, nutv, conn, out, inb, gated, hold, retry, wf, their, bel, cnt, bad>>

WriterWrite(p) ==
    /\ infl[p] # None /\ ~gated[p]
    /\ wf' = [wf EXCEPT ![p][infl[p][1]] = infl[p][2]]
    /\ infl' = [infl EXCEPT ![p] = None]
    /\ UNCHANGED <<pclose, nutv, conn, out, inb, q, gated, hold, retry, their, bel, cnt, bad>>

\* announceRetry after its sleep: the closure runs inside the loop and looks at the CURRENT state
RetryFire(r) ==
    LET p == r[1]  t == r[2]  b == r[3]
        send == (~RetryRechecks \/ RetryOk(t) = b) /\ out[p] # "none" IN
    /\ r \in retry
    /\ IF send
         THEN /\ bad' = bad \cup (IF b # Interested(t) THEN {"staleRetry"} ELSE {})
              /\ IF Room(p)
                   THEN q' = [q EXCEPT ![p] = Append(@, <<t, b>>)] /\ retry' = retry \ {r} /\ UNCHANGED cnt
                   ELSE cnt.drops < MaxDrops /\ Bump("drops") /\ UNCHANGED <<q, retry>>   \* dropped again: a new retry
         ELSE retry' = retry \ {r} /\ UNCHANGED <<pclose, q, cnt, bad>>
    /\ UNCHANGED <<pclose, nutv, conn, out, inb, infl, gated, hold, wf, their, bel>>

\* the remote changes its mind; the announcement reaches the NUT if its stream is up (else the next hello carries it)
RemoteSub(p, t) ==
    /\ conn[p] /\ cnt.remote < MaxRemote /\ Bump("remote")
    /\ their' = [their EXCEPT ![p][t] = ~@]
    /\ bel' = IF inb[p] THEN [bel EXCEPT ![t] = IF their[p][t] THEN @ \ {p} ELSE @ \cup {p}] ELSE bel
    /\ UNCHANGED <<pclose, nutv, conn, out, inb, q, infl, gated, hold, retry, wf, bad>>

(* the remote opens a SECOND stream to the NUT without closing the first, and its hello announces its CURRENT interest S,
   which differs from what it said on the first stream. handleNewStream replaces the handler: the old stream is reset,
   its ClosedStream clears everything learnt from the peer, then the new hello (which only ADDS topics) is processed *)
InDup(p, S) ==
    /\ conn[p] /\ inb[p] /\ ~pclose[p] /\ cnt.dup < MaxDup /\ Bump("dup")
    /\ S # their[p] /\ \E t \in Topics : S[t]          \* an empty hello is not written at all
    /\ their' = [their EXCEPT ![p] = S]
    /\ bel' = [t \in Topics |-> IF S[t] THEN bel[t] \cup {p} ELSE IF DupClears THEN bel[t] \ {p} ELSE bel[t]]
    /\ UNCHANGED <<pclose, nutv, conn, out, inb, q, infl, gated, hold, retry, wf, bad>>

(* only the NUT's outbound stream dies, the connection survives: handleDeadPeers closes the queue, clears what was
   learnt from the peer's INBOUND stream (as found), and respawns the writer with a fresh queue *)
ResetOutbound(p) ==
    /\ conn[p] /\ out[p] = "up" /\ cnt.rout < MaxResetOut /\ Bump("rout")
    /\ out' = [out EXCEPT ![p] = "queueOnly"] /\ q' = [q EXCEPT ![p] = <<>>] /\ infl' = [infl EXCEPT ![p] = None]
    /\ wf' = [wf EXCEPT ![p] = NoWire]
    /\ IF FixD12 THEN UNCHANGED bel ELSE Forget(p)
    /\ UNCHANGED <<pclose, nutv, conn, inb, gated, hold, retry, their, bad>>

\* only the NUT's inbound stream dies: onClosedIncomingStream clears; the remote respawns and re-sends its hello (RemoteOpen)
ResetInbound(p) ==
    /\ conn[p] /\ inb[p] /\ ~pclose[p] /\ cnt.rin < MaxResetIn /\ Bump("rin")
    /\ inb' = [inb EXCEPT ![p] = FALSE] /\ pclose' = [pclose EXCEPT ![p] = TRUE]
    /\ UNCHANGED <<nutv, conn, out, q, infl, gated, hold, retry, wf, their, bel, bad>>

Disconnect(p) ==
    /\ conn[p] /\ cnt.disc < MaxDisc /\ Bump("disc")
    /\ conn' = [conn EXCEPT ![p] = FALSE] /\ out' = [out EXCEPT ![p] = "none"] /\ inb' = [inb EXCEPT ![p] = FALSE]
    /\ q' = [q EXCEPT ![p] = <<>>] /\ infl' = [infl EXCEPT ![p] = None] /\ wf' = [wf EXCEPT ![p] = NoWire]
    /\ Forget(p) /\ pclose' = [pclose EXCEPT ![p] = FALSE]
    /\ UNCHANGED <<nutv, gated, hold, retry, their, bad>>

Gate(p)    == /\ ~gated[p] /\ cnt.gate < MaxGate /\ Bump("gate") /\ gated' = [gated EXCEPT ![p] = TRUE]
              /\ UNCHANGED <<pclose, nutv, conn, out, inb, q, infl, hold, retry, wf, their, bel, bad>>
Ungate(p)  == /\ gated[p] /\ gated' = [gated EXCEPT ![p] = FALSE]
              /\ UNCHANGED <<pclose, nutv, conn, out, inb, q, infl, hold, retry, wf, their, bel, cnt, bad>>
Hold(p)    == /\ ~hold[p] /\ out[p] # "up" /\ cnt.hold < MaxHold /\ Bump("hold") /\ hold' = [hold EXCEPT ![p] = TRUE]
              /\ UNCHANGED <<pclose, nutv, conn, out, inb, q, infl, gated, retry, wf, their, bel, bad>>
Release(p) == /\ hold[p] /\ hold' = [hold EXCEPT ![p] = FALSE]
              /\ UNCHANGED <<pclose, nutv, conn, out, inb, q, infl, gated, retry, wf, their, bel, cnt, bad>>

Internal ==
    \/ \E p \in Peers : QueueCreated(p) \/ StreamUp(p) \/ RemoteOpen(p) \/ ClosedStream(p) \/ WriterPop(p) \/ WriterWrite(p)
    \/ \E r \in retry : RetryFire(r)
Env ==
    \/ \E t \in Topics : Subscribe(t) \/ Cancel(t) \/ Relay(t) \/ Unrelay(t) \/ JoinFanout(t) \/ CloseTopic(t)
    \/ \E p \in Peers : PeerConnect(p) \/ Disconnect(p) \/ ResetOutbound(p) \/ ResetInbound(p)
                         \/ Gate(p) \/ Ungate(p) \/ Hold(p) \/ Release(p)
    \/ \E p \in Peers, t \in Topics : RemoteSub(p, t)
    \/ \E p \in Peers, S \in [Topics -> BOOLEAN] : InDup(p, S)

Next == Internal \/ Env
Spec == Init /\ [][Next]_vars

----------------------------------------------------------------------------
(* quiescence and the properties *)
Quiet ==
    /\ retry = {}
    /\ \A p \in Peers :
         /\ q[p] = <<>> /\ infl[p] = None /\ ~gated[p] /\ ~hold[p] /\ ~pclose[p]
         /\ IF conn[p] THEN out[p] = "up" /\ inb[p] ELSE out[p] = "none"

TypeOK ==
    /\ subs \in [Topics -> 0..MaxRef] /\ relays \in [Topics -> 0..MaxRef]
    /\ kind \in [Topics -> {"none", "normal", "fanout"}]
    /\ out \in [Peers -> {"none", "queueOnly", "up"}]
    /\ \A p \in Peers : Len(q[p]) <= Cap /\ (out[p] # "none" => conn[p])
    /\ \A t \in Topics : kind[t] = "fanout" => relays[t] = 0
    /\ \A t \in Topics : kind[t] = "none" => subs[t] = 0 /\ relays[t] = 0

P_C05_WireTruth ==
    Quiet => \A p \in Peers : conn[p] => \A t \in Topics : wf[p][t] = Interested(t)

P_C05_ListPeers ==
    Quiet => \A t \in Topics : ListPeers(t) = {p \in Peers : conn[p] /\ out[p] = "up" /\ their[p][t]}

P_C05_NoSpuriousAnnounce == bad = {}

\* when nothing internal can happen and the environment holds nothing back, the node IS quiet
Stable == ~ENABLED Internal
P_C05_Settles == (Stable /\ \A p \in Peers : ~gated[p] /\ ~hold[p]) => Quiet

Bound == cnt.drops <= MaxDrops
=============================================================================
