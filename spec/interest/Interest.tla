------------------------------ MODULE Interest ------------------------------
(* C05 - interest announcements converge to the true subscription state.

   One node under test (NUT) and its peers, at the grain of the library's event
   loop (pubsub.go processLoop): every action below is one loop iteration, one
   step of a writer goroutine (comm.go handleSendingMessages), one firing of an
   announceRetry goroutine, or one stimulus of the environment.

   NUT:   subs[t], relays[t]   reference counts (mySubs / myRelays)
          kind[t]              topic handle: "none" | "normal" | "fanout" (myTopics, FanoutOnly)
   peer p conn[p]              libp2p connection
          out[p]               "none" | "queueOnly" | "up": p.peers[p] exists before the stream does
          inb[p]               the remote's stream to the NUT (NUT's inbound) is up
          q[p], infl[p]        bounded outbound queue; the RPC the writer popped and is writing
          gated[p], hold[p]    environment: writes to p block / NewStream to p is held
          retry                pending announceRetry goroutines <<p, t, b>>
          wf[p][t]             fold of everything p received on the NUT's current outbound stream
                               (hello first): what p believes about the NUT
          their[p][t]          ground truth of the remote's interest
          bel[t]               the NUT's belief p.topics[t]
   Deviations (constants) name the behaviour of the code as found:
          FixD12 = FALSE        handleDeadPeers clears bel of a peer whose outbound stream died although
                                the connection and the inbound stream survive (section 5, D12)
          RetryRechecks = FALSE announceRetry resends without re-checking the current state (seeded)
          RetryFanoutAware = FALSE  announceRetry's re-check ignores FanoutOnly (before fix D20: ok == subs or relays)
          ClosedOrdered = FALSE handleNewStream's deferred cleanup gives up its inboundStreams slot BEFORE it enqueues
                                ClosedStream: the hello of a replacement stream can be processed first and is then
                                wiped by the late ClosedStream (before fix D19; pclose[p] = ClosedStream not yet processed)
          DupClears = FALSE     seeded: a REPLACED inbound stream (the peer opened a second one) reports no ClosedStream, so
                                what was learnt on it survives although the new stream's hello no longer announces it
          CancelIdempotent = FALSE / RelayCancelIdempotent = FALSE   seeded: see CancelAgain / UnrelayAgain
          SubsBeforeAccept = FALSE  seeded: handleIncomingRPC asks the router (AcceptFrom) BEFORE the subscription bookkeeping:
                                an RPC of a peer the router answers AcceptNone for (gossipsub: score below the graylist
                                threshold) is dropped whole, its (un)subscriptions and its hello never reach p.topics.
                                acc[p] = the router's current answer for p ("all" | "control" = gater-throttled | "none")
   The constants TRUE are the checked behaviour (the repaired code: D19 = ClosedOrdered, D20 = RetryFanoutAware are fixed
   in the tree; FixD12 is the property, the tree still deviates: known finding D12). *)
EXTENDS Naturals, Sequences, FiniteSets, TLC

CONSTANTS Topics, Peers, Cap,
          MaxOps, MaxDrops, MaxResetOut, MaxResetIn, MaxDisc, MaxGate, MaxHold, MaxRemote, MaxRef,
          AllowFanout, AllowRepeat,
          MaxDup, MaxAcc,
          FixD12, RetryRechecks, RetryFanoutAware, ClosedOrdered, DupClears, CancelIdempotent, RelayCancelIdempotent, SubsBeforeAccept

VARIABLES subs, relays, kind,        \* the CODE's bookkeeping: len(mySubs[t]), myRelays[t], topic handle
          live, rlive,               \* the TRUTH: live Subscription handles / not yet cancelled RelayCancelFuncs of the application
          stale, rstale,             \* some already cancelled Subscription / relay-cancel handle of t exists (can be cancelled AGAIN)
          conn, out, inb, q, infl, gated, hold, retry, wf, their, bel,
          pclose, acc, cnt, bad

vars == <<subs, relays, kind, live, rlive, stale, rstale, conn, out, inb, q, infl, gated, hold, retry, wf, their, bel, pclose, acc, cnt, bad>>
nutv == <<subs, relays, kind, live, rlive, stale, rstale>>

None == <<>>
NoWire == [t \in Topics |-> FALSE]

(* interest truth = (number of LIVE subscription handles on a topic not marked fanout-only + live relay references) > 0 *)
InterestedW(l, r, k, t) == (l[t] > 0 /\ k[t] # "fanout") \/ r[t] > 0
Interested(t) == InterestedW(live, rlive, kind, t)
\* what the code believes (getHelloPacket, the retry closure): in the correct code subs = live and relays = rlive
CodeInterested(t) == InterestedW(subs, relays, kind, t)
RetryOk(t) == IF RetryFanoutAware THEN CodeInterested(t) ELSE (subs[t] > 0 \/ relays[t] > 0)

ListPeers(t) == {p \in Peers : out[p] # "none" /\ p \in bel[t]}

Init ==
    /\ subs = [t \in Topics |-> 0] /\ relays = [t \in Topics |-> 0] /\ kind = [t \in Topics |-> "none"]
    /\ live = [t \in Topics |-> 0] /\ rlive = [t \in Topics |-> 0]
    /\ stale = [t \in Topics |-> FALSE] /\ rstale = [t \in Topics |-> FALSE]
    /\ conn = [p \in Peers |-> FALSE] /\ out = [p \in Peers |-> "none"] /\ inb = [p \in Peers |-> FALSE]
    /\ q = [p \in Peers |-> <<>>] /\ infl = [p \in Peers |-> None]
    /\ gated = [p \in Peers |-> FALSE] /\ hold = [p \in Peers |-> FALSE]
    /\ retry = {} /\ wf = [p \in Peers |-> NoWire]
    /\ their = [p \in Peers |-> [t \in Topics |-> FALSE]]
    /\ bel = [t \in Topics |-> {}] /\ pclose = [p \in Peers |-> FALSE] /\ acc = [p \in Peers |-> "all"]
    /\ cnt = [ops |-> 0, drops |-> 0, rout |-> 0, rin |-> 0, disc |-> 0, gate |-> 0, hold |-> 0, remote |-> 0, dup |-> 0, acc |-> 0]
    /\ bad = {}

Bump(f) == cnt' = [cnt EXCEPT ![f] = @ + 1]

----------------------------------------------------------------------------
(* announce(t, b): one push per existing queue; a full queue drops and spawns a retry *)
Full(p) == out[p] # "none" /\ Len(q[p]) >= Cap
Room(p) == out[p] # "none" /\ Len(q[p]) < Cap

PushAll(t, b, c) ==
    /\ q' = [p \in Peers |-> IF Room(p) THEN Append(q[p], <<t, b>>) ELSE q[p]]
    /\ retry' = retry \cup {<<p, t, b>> : p \in {x \in Peers : Full(x)}}
    /\ cnt' = [c EXCEPT !.drops = @ + Cardinality({x \in Peers : Full(x)})]

NV == [subs |-> subs, relays |-> relays, kind |-> kind, live |-> live, rlive |-> rlive, stale |-> stale, rstale |-> rstale]

(* an API operation on topic t: nv = the new values of the node-side variables, ann = the CODE's decision to announce
   value b. The monitor `bad` compares the decision with the edge of the TRUE interest at ENQUEUE time. *)
ApiOp(t, nv, ann, b) ==
    LET i0 == Interested(t)
        i1 == InterestedW(nv.live, nv.rlive, nv.kind, t)
        c  == [cnt EXCEPT !.ops = @ + 1] IN
    /\ cnt.ops < MaxOps
    /\ subs' = nv.subs /\ relays' = nv.relays /\ kind' = nv.kind
    /\ live' = nv.live /\ rlive' = nv.rlive /\ stale' = nv.stale /\ rstale' = nv.rstale
    /\ bad' = bad \cup (IF ann /\ ~(i0 # i1 /\ b = i1) THEN {"spurious"} ELSE {})
                  \cup (IF ~ann /\ i0 # i1 THEN {"missing"} ELSE {})
    /\ IF ann THEN PushAll(t, b, c) ELSE cnt' = c /\ UNCHANGED <<q, retry>>
    /\ UNCHANGED <<acc, pclose, conn, out, inb, infl, gated, hold, wf, their, bel>>

Joined(nv, t) == IF nv.kind[t] = "none" THEN [nv EXCEPT !.kind[t] = "normal"] ELSE nv

\* handleAddSubscription (Topic.Subscribe joins the topic as a normal one when there is no handle)
Subscribe(t) ==
    /\ live[t] < MaxRef /\ subs[t] < MaxRef
    /\ LET nv == [Joined(NV, t) EXCEPT !.subs[t] = @ + 1, !.live[t] = @ + 1] IN
       ApiOp(t, nv, subs[t] = 0 /\ relays[t] = 0 /\ nv.kind[t] # "fanout", TRUE)

(* handleRemoveSubscription for a subscription that IS in mySubs[t]: delete it, then test for empty.
   (subs[t] = 0 although a handle is live can only happen after a deviation dropped the entry: the code returns.) *)
Cancel(t) ==
    /\ live[t] > 0
    /\ LET nv0 == [NV EXCEPT !.live[t] = @ - 1, !.stale[t] = AllowRepeat] IN
       IF subs[t] = 0 THEN ApiOp(t, nv0, FALSE, FALSE)
       ELSE ApiOp(t, [nv0 EXCEPT !.subs[t] = @ - 1], subs[t] = 1 /\ relays[t] = 0 /\ kind[t] # "fanout", FALSE)

(* Subscription.Cancel called AGAIN on an already cancelled handle (or a stale Cancel of an old subscription after a
   re-subscribe): the subscription is not in mySubs[t] any more. The code deletes first and tests for empty afterwards,
   so nothing happens (idempotent). CancelIdempotent = FALSE is the seeded variant that decides "last subscription" from
   the map size BEFORE removing: with exactly one live sibling it drops the sibling's entry and announces. *)
CancelAgain(t) ==
    /\ AllowRepeat /\ stale[t]
    /\ IF subs[t] = 0 \/ CancelIdempotent \/ subs[t] > 1
         THEN ApiOp(t, NV, FALSE, FALSE)
         ELSE ApiOp(t, [NV EXCEPT !.subs[t] = 0], relays[t] = 0 /\ kind[t] # "fanout", FALSE)

\* handleAddRelay (Topic.Relay refuses fanout-only topics: ErrFanoutOnlyTopic, nothing happens)
Relay(t) ==
    /\ rlive[t] < MaxRef /\ relays[t] < MaxRef /\ kind[t] # "fanout"
    /\ LET nv == [Joined(NV, t) EXCEPT !.relays[t] = @ + 1, !.rlive[t] = @ + 1] IN
       ApiOp(t, nv, relays[t] = 0 /\ subs[t] = 0, TRUE)

\* handleRemoveRelay (returns when the count is already zero)
RemoveRelay(t, nv0) ==
    IF relays[t] = 0 THEN ApiOp(t, nv0, FALSE, FALSE)
    ELSE ApiOp(t, [nv0 EXCEPT !.relays[t] = @ - 1], relays[t] = 1 /\ subs[t] = 0, FALSE)
Unrelay(t) ==
    /\ rlive[t] > 0
    /\ RemoveRelay(t, [NV EXCEPT !.rlive[t] = @ - 1, !.rstale[t] = AllowRepeat])

(* a RelayCancelFunc called a second time: the closure remembers isCancelled and returns (documented: "Subsequent calls
   increase the reference counter. To completely disable the relay, all references must be cancelled" - one reference
   per function). RelayCancelIdempotent = FALSE is the seeded variant without the flag. *)
UnrelayAgain(t) ==
    /\ AllowRepeat /\ rstale[t]
    /\ IF RelayCancelIdempotent THEN ApiOp(t, NV, FALSE, FALSE) ELSE RemoveRelay(t, NV)

\* Join(t, FanoutOnly()) / Topic.Close (refused while subscriptions or relays exist: nothing happens, Cancel still works afterwards)
JoinFanout(t) ==
    /\ AllowFanout /\ kind[t] = "none"
    /\ ApiOp(t, [NV EXCEPT !.kind[t] = "fanout"], FALSE, FALSE)
CloseTopic(t) ==
    /\ AllowFanout /\ kind[t] # "none"
    /\ IF subs[t] = 0 /\ relays[t] = 0 THEN ApiOp(t, [NV EXCEPT !.kind[t] = "none"], FALSE, FALSE)
       ELSE AllowRepeat /\ ApiOp(t, NV, FALSE, FALSE)

----------------------------------------------------------------------------
(* connection and streams *)
\* handleIncomingRPC does the subscription bookkeeping FIRST and asks the router afterwards: only messages and control of a
\* graylisted (AcceptNone) or throttled (AcceptControl) sender are dropped, its announcements are always heard
Heard(p) == SubsBeforeAccept \/ acc[p] # "none"
Forget(p) == bel' = [t \in Topics |-> bel[t] \ {p}]
Learn(p)  == bel' = [t \in Topics |-> IF their[p][t] THEN bel[t] \cup {p} ELSE bel[t] \ {p}]

PeerConnect(p) ==
    /\ ~conn[p] /\ conn' = [conn EXCEPT ![p] = TRUE]
    /\ UNCHANGED <<acc, pclose, nutv, out, inb, q, infl, gated, hold, retry, wf, their, bel, cnt, bad>>

\* handlePendingPeers: the queue exists from now on, the stream does not yet
QueueCreated(p) ==
    /\ conn[p] /\ out[p] = "none"
    /\ out' = [out EXCEPT ![p] = "queueOnly"] /\ q' = [q EXCEPT ![p] = <<>>]
    /\ UNCHANGED <<acc, pclose, nutv, conn, inb, infl, gated, hold, retry, wf, their, bel, cnt, bad>>

\* case s := <-p.newPeerStream: the hello is the CURRENT interest, written before the queue contents
StreamUp(p) ==
    /\ out[p] = "queueOnly" /\ ~hold[p]
    /\ out' = [out EXCEPT ![p] = "up"]
    /\ wf' = [wf EXCEPT ![p] = [t \in Topics |-> CodeInterested(t)]]      \* getHelloPacket reads mySubs / myRelays
    /\ UNCHANGED <<acc, pclose, nutv, conn, inb, q, infl, gated, hold, retry, their, bel, cnt, bad>>

\* the remote's stream to the NUT comes up; a correct remote sends its hello on it
RemoteOpen(p) ==
    /\ conn[p] /\ ~inb[p] /\ (ClosedOrdered => ~pclose[p])
    /\ inb' = [inb EXCEPT ![p] = TRUE] /\ (IF Heard(p) THEN Learn(p) ELSE UNCHANGED bel)
    /\ UNCHANGED <<acc, pclose, nutv, conn, out, q, infl, gated, hold, retry, wf, their, cnt, bad>>

\* case incomingKindClosedStream: onClosedIncomingStream -> clearPeerFromTopicsState
ClosedStream(p) ==
    /\ pclose[p] /\ pclose' = [pclose EXCEPT ![p] = FALSE] /\ Forget(p)
    /\ UNCHANGED <<acc, nutv, conn, out, inb, q, infl, gated, hold, retry, wf, their, cnt, bad>>

WriterPop(p) ==
    /\ out[p] = "up" /\ infl[p] = None /\ q[p] # <<>>
    /\ infl' = [infl EXCEPT ![p] = Head(q[p])] /\ q' = [q EXCEPT ![p] = Tail(q[p])]
    /\ UNCHANGED <<acc, pclose, nutv, conn, out, inb, gated, hold, retry, wf, their, bel, cnt, bad>>

WriterWrite(p) ==
    /\ infl[p] # None /\ ~gated[p]
    /\ wf' = [wf EXCEPT ![p][infl[p][1]] = infl[p][2]]
    /\ infl' = [infl EXCEPT ![p] = None]
    /\ UNCHANGED <<acc, pclose, nutv, conn, out, inb, q, gated, hold, retry, their, bel, cnt, bad>>

\* announceRetry after its sleep: the closure runs inside the loop and looks at the CURRENT state
RetryFire(r) ==
    LET p == r[1]  t == r[2]  b == r[3]
        send == (~RetryRechecks \/ RetryOk(t) = b) /\ out[p] # "none" IN
    /\ r \in retry
    /\ IF send
         THEN /\ bad' = bad \cup (IF b # Interested(t) THEN {"staleRetry"} ELSE {})
              /\ IF Room(p)
                   THEN q' = [q EXCEPT ![p] = Append(@, <<t, b>>)] /\ retry' = retry \ {r} /\ UNCHANGED cnt
                   ELSE cnt.drops < MaxDrops /\ Bump("drops") /\ UNCHANGED <<q, retry>>   \* dropped again: a new retry
         ELSE retry' = retry \ {r} /\ UNCHANGED <<pclose, q, cnt, bad>>
    /\ UNCHANGED <<acc, pclose, nutv, conn, out, inb, infl, gated, hold, wf, their, bel>>

\* the remote changes its mind; the announcement reaches the NUT if its stream is up (else the next hello carries it)
RemoteSub(p, t) ==
    /\ conn[p] /\ cnt.remote < MaxRemote /\ Bump("remote")
    /\ their' = [their EXCEPT ![p][t] = ~@]
    /\ bel' = IF inb[p] /\ Heard(p) THEN [bel EXCEPT ![t] = IF their[p][t] THEN @ \ {p} ELSE @ \cup {p}] ELSE bel
    /\ UNCHANGED <<acc, pclose, nutv, conn, out, inb, q, infl, gated, hold, retry, wf, bad>>

(* the remote opens a SECOND stream to the NUT without closing the first, and its hello announces its CURRENT interest S,
   which differs from what it said on the first stream. handleNewStream replaces the handler: the old stream is reset,
   its ClosedStream clears everything learnt from the peer, then the new hello (which only ADDS topics) is processed *)
InDup(p, S) ==
    /\ conn[p] /\ inb[p] /\ ~pclose[p] /\ cnt.dup < MaxDup /\ Bump("dup")
    /\ S # their[p] /\ \E t \in Topics : S[t]          \* an empty hello is not written at all
    /\ their' = [their EXCEPT ![p] = S]
    /\ bel' = [t \in Topics |-> IF S[t] /\ Heard(p) THEN bel[t] \cup {p} ELSE IF DupClears THEN bel[t] \ {p} ELSE bel[t]]
    /\ UNCHANGED <<acc, pclose, nutv, conn, out, inb, q, infl, gated, hold, retry, wf, bad>>

(* only the NUT's outbound stream dies, the connection survives: handleDeadPeers closes the queue, clears what was
   learnt from the peer's INBOUND stream (as found), and respawns the writer with a fresh queue *)
ResetOutbound(p) ==
    /\ conn[p] /\ out[p] = "up" /\ cnt.rout < MaxResetOut /\ Bump("rout")
    /\ out' = [out EXCEPT ![p] = "queueOnly"] /\ q' = [q EXCEPT ![p] = <<>>] /\ infl' = [infl EXCEPT ![p] = None]
    /\ wf' = [wf EXCEPT ![p] = NoWire]
    /\ IF FixD12 THEN UNCHANGED bel ELSE Forget(p)
    /\ UNCHANGED <<acc, pclose, nutv, conn, inb, gated, hold, retry, their, bad>>

\* only the NUT's inbound stream dies: onClosedIncomingStream clears; the remote respawns and re-sends its hello (RemoteOpen)
ResetInbound(p) ==
    /\ conn[p] /\ inb[p] /\ ~pclose[p] /\ cnt.rin < MaxResetIn /\ Bump("rin")
    /\ inb' = [inb EXCEPT ![p] = FALSE] /\ pclose' = [pclose EXCEPT ![p] = TRUE]
    /\ UNCHANGED <<acc, nutv, conn, out, q, infl, gated, hold, retry, wf, their, bel, bad>>

Disconnect(p) ==
    /\ conn[p] /\ cnt.disc < MaxDisc /\ Bump("disc")
    /\ conn' = [conn EXCEPT ![p] = FALSE] /\ out' = [out EXCEPT ![p] = "none"] /\ inb' = [inb EXCEPT ![p] = FALSE]
    /\ q' = [q EXCEPT ![p] = <<>>] /\ infl' = [infl EXCEPT ![p] = None] /\ wf' = [wf EXCEPT ![p] = NoWire]
    /\ Forget(p) /\ pclose' = [pclose EXCEPT ![p] = FALSE]
    /\ UNCHANGED <<acc, nutv, gated, hold, retry, their, bad>>

Gate(p)    == /\ ~gated[p] /\ cnt.gate < MaxGate /\ Bump("gate") /\ gated' = [gated EXCEPT ![p] = TRUE]
              /\ UNCHANGED <<acc, pclose, nutv, conn, out, inb, q, infl, hold, retry, wf, their, bel, bad>>
Ungate(p)  == /\ gated[p] /\ gated' = [gated EXCEPT ![p] = FALSE]
              /\ UNCHANGED <<acc, pclose, nutv, conn, out, inb, q, infl, hold, retry, wf, their, bel, cnt, bad>>
Hold(p)    == /\ ~hold[p] /\ out[p] # "up" /\ cnt.hold < MaxHold /\ Bump("hold") /\ hold' = [hold EXCEPT ![p] = TRUE]
              /\ UNCHANGED <<acc, pclose, nutv, conn, out, inb, q, infl, gated, retry, wf, their, bel, bad>>
Release(p) == /\ hold[p] /\ hold' = [hold EXCEPT ![p] = FALSE]
              /\ UNCHANGED <<acc, pclose, nutv, conn, out, inb, q, infl, gated, retry, wf, their, bel, cnt, bad>>

\* the router changes its mind about p (score crosses the graylist threshold, the gater starts / stops throttling)
SetAccept(p, v) ==
    /\ conn[p] /\ acc[p] # v /\ cnt.acc < MaxAcc /\ Bump("acc") /\ acc' = [acc EXCEPT ![p] = v]
    /\ UNCHANGED <<pclose, nutv, conn, out, inb, q, infl, gated, hold, retry, wf, their, bel, bad>>

Internal ==
    \/ \E p \in Peers : QueueCreated(p) \/ StreamUp(p) \/ RemoteOpen(p) \/ ClosedStream(p) \/ WriterPop(p) \/ WriterWrite(p)
    \/ \E r \in retry : RetryFire(r)
Env ==
    \/ \E t \in Topics : Subscribe(t) \/ Cancel(t) \/ CancelAgain(t) \/ Relay(t) \/ Unrelay(t) \/ UnrelayAgain(t)
                         \/ JoinFanout(t) \/ CloseTopic(t)
    \/ \E p \in Peers : PeerConnect(p) \/ Disconnect(p) \/ ResetOutbound(p) \/ ResetInbound(p)
                         \/ Gate(p) \/ Ungate(p) \/ Hold(p) \/ Release(p)
    \/ \E p \in Peers, t \in Topics : RemoteSub(p, t)
    \/ \E p \in Peers, S \in [Topics -> BOOLEAN] : InDup(p, S)
    \/ \E p \in Peers, v \in {"all", "control", "none"} : SetAccept(p, v)

Next == Internal \/ Env
Spec == Init /\ [][Next]_vars

----------------------------------------------------------------------------
(* quiescence and the properties *)
Quiet ==
    /\ retry = {}
    /\ \A p \in Peers :
         /\ q[p] = <<>> /\ infl[p] = None /\ ~gated[p] /\ ~hold[p] /\ ~pclose[p]
         /\ IF conn[p] THEN out[p] = "up" /\ inb[p] ELSE out[p] = "none"

TypeOK ==
    /\ subs \in [Topics -> 0..MaxRef] /\ relays \in [Topics -> 0..MaxRef]
    /\ kind \in [Topics -> {"none", "normal", "fanout"}]
    /\ out \in [Peers -> {"none", "queueOnly", "up"}]
    /\ \A p \in Peers : Len(q[p]) <= Cap /\ (out[p] # "none" => conn[p])
    /\ \A t \in Topics : kind[t] = "fanout" => relays[t] = 0
    /\ \A t \in Topics : kind[t] = "none" => subs[t] = 0 /\ relays[t] = 0

\* the code's maps count exactly the live handles (sanity of the repaired model; not part of the property)
HandlesMatch == \A t \in Topics : subs[t] = live[t] /\ relays[t] = rlive[t]

P_C05_WireTruth ==
    Quiet => \A p \in Peers : conn[p] => \A t \in Topics : wf[p][t] = Interested(t)

P_C05_ListPeers ==
    Quiet => \A t \in Topics : ListPeers(t) = {p \in Peers : conn[p] /\ out[p] = "up" /\ their[p][t]}

P_C05_NoSpuriousAnnounce == bad = {}

\* when nothing internal can happen and the environment holds nothing back, the node IS quiet
Stable == ~ENABLED Internal
P_C05_Settles == (Stable /\ \A p \in Peers : ~gated[p] /\ ~hold[p]) => Quiet

Bound == cnt.drops <= MaxDrops
=============================================================================
