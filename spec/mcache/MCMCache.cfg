SPECIFICATION Spec
CONSTANTS
  Ids <- MCIds
  Topics = {"t1", "t2"}
  Peers = {"p1", "p2"}
  TopicOf <- MCTopicOf
  Bug = "none"
  H = 3
  G = 2
  MaxShift = 5
  MaxTx = 2
  MaxTxTotal = 3
  AllowDup = FALSE
  MaxEntries = 3
INVARIANTS TypeOK CachedIsWindow P_C17_Window P_C17_Tx
CHECK_DEADLOCK FALSE
