------------------------------ MODULE MCMCache ------------------------------
(* Exhaustive check of MCache: every sequence of Put / GetForPeer / Shift (of
   any length; Get and GetGossipIDs do not change the state, their answers are
   the state predicates P_C17_Window speaks about) within MaxShift shifts and
   MaxTx transmissions per (id, peer).  AllowDup = FALSE is the router's
   discipline (an id is Put only when it is not cached); AllowDup = TRUE also
   explores re-Puts of cached ids (information only: such ids are tainted). *)
EXTENDS MCache

CONSTANTS H, G, MaxShift, MaxTx, MaxTxTotal, AllowDup, MaxEntries

MCIds == {"m1", "m2", "m3"}
MCTopicOf == [id \in MCIds |-> IF id = "m3" THEN "t2" ELSE "t1"]

Entries == LET RECURSIVE Sum(_)
               Sum(k) == IF k = 0 THEN 0 ELSE Len(slots[k]) + Sum(k - 1)
           IN Sum(h)

TxTotal == LET RECURSIVE SumP(_, _)
               SumP(id, ps) == IF ps = {} THEN 0 ELSE LET p == CHOOSE q \in ps : TRUE IN served[id][p] + SumP(id, ps \ {p})
               RECURSIVE SumI(_)
               SumI(is) == IF is = {} THEN 0 ELSE LET i == CHOOSE j \in is : TRUE IN SumP(i, Peers) + SumI(is \ {i})
           IN SumI(Ids)

Init == h = H /\ g = G /\ MCInit
Next == \/ \E id \in Ids : (AllowDup \/ ~Cached(id)) /\ Entries < MaxEntries /\ Put(id)
        \/ \E id \in Ids, p \in Peers : tx[id][p] < MaxTx /\ served[id][p] < MaxTx /\ TxTotal < MaxTxTotal /\ GetForPeer(id, p)
        \/ nshift < MaxShift /\ Shift
Spec == Init /\ [][Next]_mcvars
=============================================================================
