SPECIFICATION Spec
CONSTANTS
  H = 3
  L = 4
  MaxShift = 5
  MaxGfp = 2
  Dup = FALSE
INVARIANT Emit
CHECK_DEADLOCK FALSE
