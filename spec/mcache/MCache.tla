------------------------------- MODULE MCache -------------------------------
(* The gossipsub message cache (mcache.go) alone - it is public API.  Property
   C17, first clause: "A message a gossipsub node has forwarded stays
   retrievable through IWANT for HistoryLength heartbeats and is advertised
   through IHAVE only during the first HistoryGossip of them ... a peer is
   served the same message at most GossipRetransmission times": the window
   semantics of Put / Get / GetForPeer / GetGossipIDs / Shift (the router calls
   Shift once per heartbeat and compares GetForPeer's count with
   GossipRetransmission).

   Implementation-shaped state: `slots` (history: h slices of entries, newest
   first), `msgs` (the id -> message map, here its key set), `tx` (peertx;
   0 = no entry).  h (history length) and g (gossip length, g <= h) are
   variables only so that the trace specification can bind them per scenario.

   Monitors, NOT used by the actions: nshift (number of Shift calls so far),
   putAt[id] (value of nshift at the last Put of id), served[id][p] (calls of
   GetForPeer(id, p) since that Put while the id was inside its window),
   taint (ids that were Put while still cached: the router prevents this
   through the seen cache as long as seenTTL > HistoryLength * heartbeat; such
   ids are explored but excluded from the window predicates).              *)
EXTENDS Integers, Sequences, FiniteSets

CONSTANTS Ids, Topics, Peers,
          TopicOf,   \* [Ids -> Topics]: every id is always put with the same topic
          Bug        \* "none" = the code as read; "gossip_all", "tx_keep", "shift_early": seeded variants used
                     \* ONLY to show that the properties below are not vacuous (each must make TLC report a violation)

VARIABLES h, g, slots, msgs, tx,
          nshift, putAt, served, taint

mparams == <<h, g>>
mcvars == <<h, g, slots, msgs, tx, nshift, putAt, served, taint>>

NONE == -1
Range(s) == {s[i] : i \in DOMAIN s}
Entry(id) == [mid |-> id, topic |-> TopicOf[id]]
SlotIds(k) == {e.mid : e \in Range(slots[k])}
InSlots(id) == \E k \in 1..h : id \in SlotIds(k)
Cached(id) == id \in msgs \/ InSlots(id)

MCInit == /\ slots = [k \in 1..h |-> <<>>] /\ msgs = {} /\ tx = [id \in Ids |-> [p \in Peers |-> 0]]
          /\ nshift = 0 /\ putAt = [id \in Ids |-> NONE] /\ served = [id \in Ids |-> [p \in Peers |-> 0]]
          /\ taint = {}

(* --- results, evaluated in the state in which the call is made --- *)
GetRes(id) == id \in msgs                                           \* mcache.go:61-64
GetForPeerOk(id) == id \in msgs                                     \* mcache.go:66-80
GetForPeerCount(id, p) == IF id \in msgs THEN tx[id][p] + 1 ELSE 0
GossipWidth == IF Bug = "gossip_all" THEN h ELSE g
GossipRes(t) == {e.mid : e \in UNION {Range(slots[k]) : k \in 1..GossipWidth} } \cap {id \in Ids : TopicOf[id] = t}
                                                                    \* mcache.go:82-92: history[:gossip], filtered by topic

\* the window of the LATEST Put of id (monitors only)
InWindow(id) == putAt[id] # NONE /\ nshift - putAt[id] < h

(* --- actions --- *)
\* mcache.go:55-59
Put(id) ==
    /\ msgs' = msgs \cup {id}
    /\ slots' = [slots EXCEPT ![1] = Append(@, Entry(id))]
    /\ putAt' = [putAt EXCEPT ![id] = nshift]
    /\ served' = [served EXCEPT ![id] = [p \in Peers |-> 0]]
    /\ taint' = IF InWindow(id) THEN taint \cup {id} ELSE taint \ {id}
    /\ UNCHANGED <<mparams, tx, nshift>>

GetForPeer(id, p) ==
    /\ tx' = IF id \in msgs THEN [tx EXCEPT ![id][p] = @ + 1] ELSE tx
    /\ served' = IF InWindow(id) THEN [served EXCEPT ![id][p] = @ + 1] ELSE served
    /\ UNCHANGED <<mparams, slots, msgs, nshift, putAt, taint>>

\* mcache.go:94-104: the entries of the last slot are dropped from msgs and peertx, then everything moves one slot
Shift ==
    LET dropSlot == IF Bug = "shift_early" /\ h > 1 THEN h - 1 ELSE h
        gone == SlotIds(dropSlot) IN
    /\ msgs' = msgs \ gone
    /\ tx' = IF Bug = "tx_keep" THEN tx ELSE [id \in Ids |-> IF id \in gone THEN [p \in Peers |-> 0] ELSE tx[id]]
    /\ slots' = [k \in 1..h |-> IF k = 1 THEN <<>> ELSE slots[k - 1]]
    /\ nshift' = nshift + 1
    /\ UNCHANGED <<mparams, putAt, served, taint>>

(* --- the property --- *)
\* an id put between shifts k and k+1 (putAt = k) is returned by Get up to and including the state before
\* shift k+h, and by GetGossipIDs (of its topic only) exactly in the states before shifts k+1 .. k+g
P_C17_Window ==
    \A id \in Ids \ taint :
        /\ GetRes(id) <=> InWindow(id)
        /\ \A t \in Topics : id \in GossipRes(t) <=> (TopicOf[id] = t /\ putAt[id] # NONE /\ nshift - putAt[id] < g)
\* the count returned by GetForPeer grows by one per call for that (id, peer) and starts again at 1 once the
\* id has left the window
P_C17_Tx ==
    \A id \in Ids \ taint : \A p \in Peers :
        GetForPeerCount(id, p) = IF InWindow(id) THEN served[id][p] + 1 ELSE 0

\* sanity of the monitors: "still cached" (what taints a Put) is the window of the latest Put, tainted or not
CachedIsWindow == \A id \in Ids : Cached(id) <=> InWindow(id)

TypeOK == /\ h \in Nat \ {0} /\ g \in 0..h
          /\ DOMAIN slots = 1..h /\ \A k \in 1..h : \A e \in Range(slots[k]) : e.mid \in Ids /\ e.topic \in Topics
          /\ msgs \subseteq Ids /\ tx \in [Ids -> [Peers -> Nat]] /\ nshift \in Nat
          /\ putAt \in [Ids -> {NONE} \cup 0..nshift] /\ served \in [Ids -> [Peers -> Nat]] /\ taint \subseteq Ids
=============================================================================
