----------------------------- MODULE MCacheTrace -----------------------------
(* Trace specification for the message cache (C17, container part).  The file
   is a concatenation of scenarios recorded from the REAL MessageCache by
   harness/drivers/c17cache: a reset line (h, g), an "obs" line (the empty
   cache), then one line per state-changing call (put / shift / gfp), each
   carrying what the real cache answered right after the call to Get (for every
   id: `has`, plus `bad` = ids whose Get returned something else than the
   message last Put) and to GetGossipIDs (for every topic and for the never-used
   topic t0: `g`); gfp lines also carry GetForPeer's own answer (ok, n).

   The container is deterministic: the cursor walks the file, the model
   (MCache.tla) takes the same step, and these predicates are evaluated on the
   REAL answers (a failure prints <<"VIOL", json>> and the walk goes on):

     P_C17_Window          ids not tainted: Get / GetForPeer succeed exactly while fewer than h
                           shifts happened since the Put; GetGossipIDs(t) lists exactly the ids of
                           topic t put fewer than g shifts ago (monitors putAt / nshift only);
     P_C17_Tx              GetForPeer's count = 1 + number of earlier calls for that (id, peer)
                           since the Put (monitor served), 0 when not served;
     P_C17_ModelAgreement  every answer equals the model's (slots / msgs / tx), once per scenario.

   Scenarios that Put an id while it is still cached are information only: for
   tainted ids the window predicates are skipped and a disagreement with the
   model prints <<"INFO", json>> instead.                                   *)
EXTENDS Integers, Sequences, FiniteSets, TLC, Json

Trace == ndJsonDeserialize("trace.ndjson")

Ids == {"m1", "m2", "m3"}
Topics == {"t1", "t2"}
Peers == {"p1", "p2"}
TopicOf == [id \in Ids |-> IF id = "m3" THEN "t2" ELSE "t1"]
AllTopics == Topics \cup {"t0"}          \* t0: no message ever carries it

VARIABLES h, g, slots, msgs, tx, nshift, putAt, served, taint,   \* model and monitors (MCache)
          scn, drift, tainted,    \* scenario index; model disagreement already reported; a cached id was Put
          l                       \* cursor

M == INSTANCE MCache WITH Bug <- "none"
NONE == M!NONE

tvars == <<h, g, slots, msgs, tx, nshift, putAt, served, taint, scn, drift, tainted, l>>
E == Trace[l]
More == l <= Len(Trace)
Adv == l' = l + 1
Rng(s) == {s[i] : i \in DOMAIN s}

TInit == /\ TLCSet(1, 0) /\ h = 1 /\ g = 1 /\ M!MCInit
         /\ scn = 0 /\ drift = FALSE /\ tainted = FALSE /\ l = 1

TReset ==
    /\ More /\ E.e = "reset"
    /\ h' = E.h /\ g' = E.g
    /\ slots' = [k \in 1..E.h |-> <<>>] /\ msgs' = {} /\ tx' = [id \in Ids |-> [p \in Peers |-> 0]]
    /\ nshift' = 0 /\ putAt' = [id \in Ids |-> NONE] /\ served' = [id \in Ids |-> [p \in Peers |-> 0]]
    /\ taint' = {}
    /\ scn' = E.scn /\ drift' = FALSE /\ tainted' = FALSE /\ Adv

Report(tag, pred, what, key, real, want) ==
    PrintT(<<tag, ToJson([scn |-> scn, line |-> l, pred |-> pred, op |-> E.e, what |-> what, key |-> key,
                          h |-> h, g |-> g, nshift |-> nshift', real |-> real, want |-> want])>>)

\* the read-only answers recorded on this line, judged in the state AFTER the call (primed)
JudgeObs(d) ==      \* d: model disagreement already reported in this scenario (up to and including this call)
    LET clean   == Ids \ taint'
        realHas == Rng(E.has)
        wantHas == {id \in clean : M!InWindow(id)'}
        wantGossip(t) == {id \in clean : TopicOf[id] = t /\ putAt'[id] # NONE /\ nshift' - putAt'[id] < g'}
        gossipOk(t) == Rng(E.g[t]) \subseteq Ids /\ Rng(E.g[t]) \cap clean = wantGossip(t)
        agree == /\ realHas = msgs' /\ E.bad = <<>>
                 /\ \A t \in AllTopics : /\ Rng(E.g[t]) = M!GossipRes(t)'
                                          /\ (tainted' \/ Len(E.g[t]) = Cardinality(Rng(E.g[t])))   \* each id listed once
    IN /\ IF realHas \subseteq Ids /\ realHas \cap clean = wantHas THEN TRUE
          ELSE Report("VIOL", "P_C17_Window", "get", "", E.has, wantHas)
       /\ \A t \in AllTopics : IF gossipOk(t) THEN TRUE
                               ELSE Report("VIOL", "P_C17_Window", "gossip", t, E.g[t], wantGossip(t))
       /\ IF d \/ agree THEN TRUE
          ELSE Report(IF tainted' THEN "INFO" ELSE "VIOL", "P_C17_ModelAgreement", "obs", "",
                      [has |-> E.has, bad |-> E.bad, g |-> E.g], [has |-> msgs', g |-> [t \in AllTopics |-> M!GossipRes(t)']])
       /\ drift' = (d \/ ~agree)

TObs ==
    /\ More /\ E.e = "obs"
    /\ UNCHANGED <<h, g, slots, msgs, tx, nshift, putAt, served, taint, tainted, scn>>
    /\ JudgeObs(drift) /\ Adv

TPut ==
    /\ More /\ E.e = "put" /\ E.id \in Ids
    /\ M!Put(E.id)
    /\ tainted' = (tainted \/ M!InWindow(E.id))
    /\ JudgeObs(drift) /\ Adv /\ UNCHANGED scn

TShift ==
    /\ More /\ E.e = "shift"
    /\ M!Shift /\ UNCHANGED <<scn, tainted>>
    /\ JudgeObs(drift) /\ Adv

\* GetForPeer's own answer is judged in the state BEFORE the call
TGfp ==
    /\ More /\ E.e = "gfp" /\ E.id \in Ids /\ E.p \in Peers
    /\ LET id == E.id
           p  == E.p
           wantOk == M!InWindow(id)
           wantN  == IF wantOk THEN served[id][p] + 1 ELSE 0
           agree  == E.ok = M!GetForPeerOk(id) /\ E.n = M!GetForPeerCount(id, p) /\ E.same
       IN /\ M!GetForPeer(id, p) /\ UNCHANGED <<scn, tainted>>
          /\ IF id \in taint \/ E.ok = wantOk THEN TRUE
             ELSE Report("VIOL", "P_C17_Window", "gfp", id, [ok |-> E.ok, n |-> E.n], [ok |-> wantOk, n |-> wantN])
          /\ IF id \in taint \/ E.n = wantN THEN TRUE
             ELSE Report("VIOL", "P_C17_Tx", "gfp", id, [ok |-> E.ok, n |-> E.n], [ok |-> wantOk, n |-> wantN])
          /\ IF drift \/ agree THEN TRUE
             ELSE Report(IF tainted THEN "INFO" ELSE "VIOL", "P_C17_ModelAgreement", "gfp", id,
                         [ok |-> E.ok, n |-> E.n, same |-> E.same],
                         [ok |-> M!GetForPeerOk(id), n |-> M!GetForPeerCount(id, p)])
          /\ JudgeObs(drift \/ ~agree)
    /\ Adv

\* a call that panicked ends its scenario; the orchestrator reports it
TPanic == More /\ E.e = "panic" /\ Adv /\ UNCHANGED <<h, g, slots, msgs, tx, nshift, putAt, served, taint, scn, drift, tainted>>

TNext == TReset \/ TObs \/ TPut \/ TShift \/ TGfp \/ TPanic
TraceSpec == TInit /\ [][TNext]_tvars

\* high-water mark of the cursor (needs -workers 1)
HW == IF TLCGet(1) < l THEN TLCSet(1, l) ELSE TRUE
Accepted == PrintT(<<"HW", TLCGet(1), Len(Trace) + 1>>)
=============================================================================
