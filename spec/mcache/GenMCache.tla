------------------------------ MODULE GenMCache ------------------------------
(* Scenario generator for the message cache (C17, container part): every
   sequence of L state-changing calls  put(id) / shift / gfp(id, peer)
   (GetForPeer)  with at most MaxShift shifts and MaxGfp GetForPeer calls, in a
   canonical form (m1 and m2 share a topic and the two peers are alike, so m2 /
   p2 appear only after m1 / p1 did).  The driver performs the read-only calls
   itself after EVERY step: Get for every id and GetGossipIDs for every topic,
   so all interleavings of reads are covered without enumerating them.
   Dup = FALSE: the router's discipline, an id is Put only while it is outside
   its window of H shifts.  Dup = TRUE: only sequences with at least one Put of
   a still-cached id (explored as information).  Only INPUTS are emitted; the
   answers are whatever the real cache gives and are judged by MCacheTrace.
   In -simulate mode the same module yields random long sequences.          *)
EXTENDS Integers, Sequences, FiniteSets, TLC, Json

CONSTANTS H, L, MaxShift, MaxGfp, Dup

IdSeq == <<"m1", "m2", "m3">>        \* m1, m2: topic t1; m3: topic t2 (MCacheTrace!TopicOf)
PeerSeq == <<"p1", "p2">>

VARIABLES hist, nshift, ngfp, putAt, seenM1, seenP1, dups

vars == <<hist, nshift, ngfp, putAt, seenM1, seenP1, dups>>

Init == /\ hist = <<>> /\ nshift = 0 /\ ngfp = 0 /\ putAt = [i \in 1..3 |-> -1]
        /\ seenM1 = FALSE /\ seenP1 = FALSE /\ dups = 0

Cached(i) == putAt[i] >= 0 /\ nshift - putAt[i] < H
IdOk(i) == i # 2 \/ seenM1
PeerOk(j) == j # 2 \/ seenP1

Put(i) ==
    /\ IdOk(i) /\ (Dup \/ ~Cached(i))
    /\ hist' = Append(hist, [op |-> "put", id |-> IdSeq[i], p |-> ""])
    /\ putAt' = [putAt EXCEPT ![i] = nshift]
    /\ dups' = IF Cached(i) THEN dups + 1 ELSE dups
    /\ seenM1' = (seenM1 \/ i = 1)
    /\ UNCHANGED <<nshift, ngfp, seenP1>>

Gfp(i, j) ==
    /\ IdOk(i) /\ PeerOk(j) /\ ngfp < MaxGfp
    /\ hist' = Append(hist, [op |-> "gfp", id |-> IdSeq[i], p |-> PeerSeq[j]])
    /\ ngfp' = ngfp + 1
    /\ seenM1' = (seenM1 \/ i = 1) /\ seenP1' = (seenP1 \/ j = 1)
    /\ UNCHANGED <<nshift, putAt, dups>>

Shift ==
    /\ nshift < MaxShift
    /\ hist' = Append(hist, [op |-> "shift", id |-> "", p |-> ""])
    /\ nshift' = nshift + 1
    /\ UNCHANGED <<ngfp, putAt, seenM1, seenP1, dups>>

Next == /\ Len(hist) < L
        /\ \/ \E i \in 1..3 : Put(i)
           \/ \E i \in 1..3, j \in 1..2 : Gfp(i, j)
           \/ Shift

Spec == Init /\ [][Next]_vars

Emit == (Len(hist) = L /\ (Dup => dups > 0)) => PrintT(<<"SCN", ToJson([ops |-> hist])>>)
=============================================================================
