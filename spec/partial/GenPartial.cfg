SPECIFICATION GenSpec
CONSTANTS
  Peers = {"p1", "p2"}
  Topics = {"t1"}
  Groups = {"g1", "g2"}
  Parts = {0, 1}
  CTtl = 3
  CLimT = 2
  CLimP = 1
  CEager = TRUE
  CRegossip = TRUE
  CSloppy = FALSE
  ResetOnClose = TRUE
  StaleDec = TRUE
  KeepEntries = TRUE
  Dev = "none"
  MaxLen = 3
  Bursts = {1, 4}
  Acts = {"pub", "rpc", "hb", "close", "mesh", "gossip", "req"}
INVARIANT Emit
CHECK_DEADLOCK FALSE
