----------------------------- MODULE PartialNode -----------------------------
(* X04 - the extensions handshake of go-libp2p-pubsub and the place of the partial-messages extension in the
   node (/repo/extensions.go: extensionsState.HandleRPC / OnNewOutboundStream / OnClosedOutboundStream /
   OnClosedIncomingStream / extensionsHandleRPC, WithPartialMessagesExtension, WithTestExtension,
   partialMessageRouter.MeshPeers / PeerRequestsPartial / SendRPC; /repo/gossipsub.go: OnNewOutboundStream,
   OnClosedOutboundStream, OnClosedIncomingStream, HandleRPC, rpcs (full-message suppression), emitGossip,
   Preprocess, heartbeat; /repo/pubsub.go: RequestPartialMessages, SupportsPartialMessages, the subscription flags).

   PROPERTIES (machine-readable copy: properties_x.json)

   X04.g HandshakeOut.  On EVERY outbound stream to a peer that speaks /meshsub/1.3.0 the node's extensions control
         message travels EXACTLY ONCE, in the FIRST RPC (the hello), with exactly the extensions the node enabled;
         NEVER in a later RPC, NEVER to a peer on an older protocol; sentExtensions holds exactly the v1.3 peers
         with a live outbound stream.  An extension RPC (partial / test) goes ONLY to a peer that advertised that
         extension in its own first RPC.
   X04.h HandshakeIn.   peerExtensions[p] is what p's FIRST RPC on its current stream advertised (nothing
         advertised = all false), set once, whatever protocol p speaks; a LATER RPC carrying an extensions control
         message is reported as misbehaviour EXACTLY ONCE per such RPC (behaviour penalty) and does NOT change the
         record; the record is DELETED when p's stream closes (D5) and re-established by the first RPC of the next.
   X04.i Dispatch.      A received partial RPC reaches the partial-messages extension IFF the node enabled the
         extension AND p advertised it (and the peer-initiated limits admit it); a TestExtension RPC reaches the
         test extension ONLY IF both sides advertised it; NEVER a call into an extension the node does not have
         (no crash); once both control messages have crossed, the test extension answers with ONE TestExtension RPC.
   X04.j Suppression.   A full message of topic t (published, forwarded) is NEVER sent to a peer that advertised the
         extension and whose subscription requested partial messages for t while the node supports partial messages
         on t, nor an IHAVE for t; a peer
         that supports partial messages on a topic the node REQUESTS them on gets no IDONTWANT; every other peer is
         served as usual (a requester is served in full when the node does not support partial messages on t); the
         flags recorded per peer and topic are requestsPartial = sent flag, supportsPartial = requests or supports.
   X04.k Wiring.        The extension object in the node is driven by the node's events and by nothing else:
         PublishPartial reaches exactly MeshPeers(t) = mesh (or fanout) members that advertised the extension and
         whose flags fit the node's (node requests & peer supports, or node supports & peer requests); a router
         heartbeat = EmitGossip(t, the non-mesh gossip targets that requested partial) then Heartbeat (one time-to-live
         tick per router heartbeat); a closed outbound stream = OnClosedOutboundStream(p): AFTER a disconnect NOTHING
         of p is left in the extension; PublishPartial without the extension fails cleanly.

   This module is the handshake machine at the grain of the event loop (one action per handled event of one
   peer) with ghosts for the meaning (adv = what the first RPC advertised, misb = later control messages,
   badPartial / badDispatch / crashed).  The design as found (NAsFound = TRUE) differs from the ideal in two places:
     X04-F3  OnClosedOutboundStream tells the partial-messages extension only when peerExtensions[p] still exists:
             when the peer's own stream closed first the extension keeps p's state (k fails);
     X04-F5  MeshPeers / emitGossip let a peer through that merely set requestsPartial in a subscription without
             having advertised the extension (g fails: partial RPC to a peer without the extension).
   (A third, harmless one is only recorded by the trace specification: X04-F7, the test extension's callback runs for
   every RPC of a peer that advertised the test extension, whether or not the RPC carries a TestExtension message.)
   NDev: seeded defects (non-vacuity).  GenSpec emits event histories that bin/lib/props/x04.py turns into
   scenarios of the real node; PartialNodeTrace.tla judges the recorded steps.                                *)
EXTENDS Naturals, Sequences, FiniteSets, TLC, Json

CONSTANTS NPeers, MyPartial, MyTest, NAsFound, NDev, NMaxLen, MaxMisb

VARIABLES ps, crashed, nhist
nvars == <<ps, crashed, nhist>>

NoX == [present |-> FALSE, partial |-> FALSE, test |-> FALSE]
MyX == [present |-> TRUE, partial |-> MyPartial, test |-> MyTest]
NoR == [has |-> FALSE, partial |-> FALSE, test |-> FALSE]
RecFrom(x) == [has |-> TRUE, partial |-> x.present /\ x.partial, test |-> x.present /\ x.test]
Exts == {NoX} \cup {[present |-> TRUE, partial |-> a, test |-> b] : a, b \in BOOLEAN}

P0 == [proto |-> "", conn |-> FALSE, out |-> "down", in |-> "down", sentExt |-> FALSE, rec |-> NoR, pen |-> 0,
       adv |-> NoR, misb |-> 0, wire |-> <<>>, pm |-> FALSE, req |-> FALSE, badPartial |-> FALSE, badDispatch |-> FALSE]

Hello(pr) == [k |-> "hello", ext |-> IF (pr = "v13" \/ NDev = "extToOld") /\ (MyPartial \/ MyTest) THEN MyX ELSE NoX]
Frame(k) == [k |-> k, ext |-> IF NDev = "extEveryRpc" /\ (MyPartial \/ MyTest) THEN MyX ELSE NoX]
\* extensionsOnNewOutboundStream: both control messages have crossed
\* (the wire is cut at WireMax frames: what is dropped could only repeat what the invariants have seen)
WireMax == 4
Put(w, f) == IF Len(w) < WireMax THEN Append(w, f) ELSE w
Completed(s) == IF MyTest /\ s.rec.test THEN [s EXCEPT !.wire = Put(@, Frame("testx"))] ELSE s
OpenOut(s) == LET s1 == [s EXCEPT !.out = "up", !.wire = <<Hello(s.proto)>>, !.sentExt = (s.proto = "v13")]
              IN  IF s1.sentExt /\ s1.rec.has THEN Completed(s1) ELSE s1
\* extensionsState.OnClosedOutboundStream behind gs.feature(Extensions, proto)
CloseOut(s) ==
    LET tell == IF NAsFound THEN s.proto = "v13" /\ s.rec.has /\ s.sentExt /\ MyPartial /\ s.rec.partial ELSE TRUE
    IN  [s EXCEPT !.out = "down", !.wire = <<>>, !.pm = IF tell /\ NDev # "closeNotWired" THEN FALSE ELSE @,
                  !.sentExt = IF NDev = "sentKeep" THEN @ ELSE FALSE]
CloseIn(s) == [s EXCEPT !.in = "down", !.adv = NoR, !.req = FALSE, !.rec = IF NDev = "noRecDelete" THEN @ ELSE NoR]

NL(a, p, pr, x, part, testx, req) == [a |-> a, p |-> p, proto |-> pr, ext |-> x, part |-> part, testx |-> testx, req |-> req]
NRec == NMaxLen > 0
NLog(e) == nhist' = IF NRec THEN Append(nhist, e) ELSE nhist
Set(p, s) == ps' = [ps EXCEPT ![p] = s]

Connect(p, pr) == /\ ~ps[p].conn
                  /\ Set(p, [OpenOut([ps[p] EXCEPT !.proto = pr, !.conn = TRUE]) EXCEPT !.in = "fresh"])
                  /\ UNCHANGED crashed /\ NLog(NL("connect", p, pr, NoX, FALSE, FALSE, FALSE))
\* the peer's RPC: extensions control message x, a partial RPC, a TestExtension RPC, a subscription that requests partial
Recv(p, x, part, testx, req) ==
    LET s == ps[p]
        first == s.in = "fresh"
        s1 == IF first THEN [s EXCEPT !.rec = RecFrom(x), !.adv = RecFrom(x), !.in = "open"]
              ELSE IF x.present
                     THEN [s EXCEPT !.pen = IF NDev = "noPenalty" THEN @ ELSE @ + 10, !.misb = @ + 1,
                                    !.rec = IF NDev = "recOverwrite" THEN RecFrom(x) ELSE @]
                     ELSE s
        s2 == IF first /\ s1.sentExt THEN Completed(s1) ELSE s1
        \* ideal: only a peer the node has an outbound stream to is known to the extension; the code as found
        \* dispatches whenever the record says so (the state then outlives the connection: X04-F3)
        toPM == part /\ s2.rec.partial /\ (MyPartial \/ NDev = "dispatchPeerOnly") /\ (NAsFound \/ s2.out = "up")
        s3 == [s2 EXCEPT !.pm = @ \/ (toPM /\ MyPartial), !.req = @ \/ req,
                         !.badDispatch = @ \/ (toPM /\ ~(MyPartial /\ s2.adv.partial))]
    IN  /\ s.in # "down" /\ s.misb < MaxMisb
        /\ Set(p, s3)
        /\ crashed' = (crashed \/ (toPM /\ ~MyPartial))
        /\ NLog(NL("recv", p, "", x, part, testx, req))
InDown(p) == /\ ps[p].in # "down" /\ Set(p, CloseIn(ps[p])) /\ UNCHANGED crashed /\ NLog(NL("indown", p, "", NoX, FALSE, FALSE, FALSE))
InUp(p) == /\ ps[p].conn /\ ps[p].in = "down" /\ Set(p, [ps[p] EXCEPT !.in = "fresh"]) /\ UNCHANGED crashed
           /\ NLog(NL("inup", p, "", NoX, FALSE, FALSE, FALSE))
OutDown(p) == /\ ps[p].out = "up" /\ Set(p, CloseOut(ps[p])) /\ UNCHANGED crashed /\ NLog(NL("outdown", p, "", NoX, FALSE, FALSE, FALSE))
OutUp(p) == /\ ps[p].conn /\ ps[p].out = "down" /\ Set(p, OpenOut(ps[p])) /\ UNCHANGED crashed /\ NLog(NL("outup", p, "", NoX, FALSE, FALSE, FALSE))
\* the connection goes: both streams end, in either order
Disconnect(p, inFirst) ==
    /\ ps[p].conn
    /\ LET a == IF ps[p].in # "down" THEN CloseIn(ps[p]) ELSE ps[p]
           b == IF a.out = "up" THEN CloseOut(a) ELSE a
           c == IF ps[p].out = "up" THEN CloseOut(ps[p]) ELSE ps[p]
           d == IF c.in # "down" THEN CloseIn(c) ELSE c
       IN  Set(p, [(IF inFirst THEN b ELSE d) EXCEPT !.conn = FALSE])
    /\ UNCHANGED crashed /\ NLog(NL(IF inFirst THEN "down-infirst" ELSE "down", p, "", NoX, FALSE, FALSE, FALSE))
\* the application publishes a group: the peer is a mesh member; does MeshPeers let it through?
PubPartial(p) ==
    LET s == ps[p]
        ideal == MyPartial /\ s.rec.partial
        found == ideal \/ (MyPartial /\ s.req)
        thru == IF NAsFound THEN found ELSE ideal
    IN  /\ s.out = "up" /\ MyPartial
        /\ Set(p, IF thru THEN [s EXCEPT !.wire = Put(@, Frame("partial")), !.pm = TRUE, !.badPartial = @ \/ ~s.adv.partial] ELSE s)
        /\ UNCHANGED crashed /\ NLog(NL("ppub", p, "", NoX, FALSE, FALSE, FALSE))

NCoreOf(XS) == \E p \in NPeers :
           \/ \E pr \in {"v13", "v12"} : Connect(p, pr)
           \/ \E x \in XS, part, req \in BOOLEAN : Recv(p, x, part, FALSE, req)
           \/ InDown(p) \/ InUp(p) \/ OutDown(p) \/ OutUp(p) \/ PubPartial(p)
           \/ \E b \in BOOLEAN : Disconnect(p, b)
NCore == NCoreOf(Exts)
NInit == ps = [p \in NPeers |-> P0] /\ crashed = FALSE /\ nhist = <<>>
NNext == ~NRec /\ NCore
NSpec == NInit /\ [][NNext]_nvars

(* ------------------------------------------------------------------ properties *)
P_X04_g == \A p \in NPeers :
             LET s == ps[p]
             IN  /\ s.out = "up" => /\ s.wire # <<>> /\ s.wire[1].k = "hello"
                                    /\ s.wire[1].ext = (IF s.proto = "v13" /\ (MyPartial \/ MyTest) THEN MyX ELSE NoX)
                                    /\ \A i \in 2..Len(s.wire) : ~s.wire[i].ext.present
                 /\ s.sentExt <=> (s.out = "up" /\ s.proto = "v13")
                 /\ ~s.badPartial
P_X04_h == \A p \in NPeers :
             LET s == ps[p]
             IN  /\ s.rec = (IF s.in = "open" THEN s.adv ELSE NoR)
                 /\ s.pen = 10 * s.misb
P_X04_i == ~crashed /\ \A p \in NPeers : ~ps[p].badDispatch
P_X04_k == \A p \in NPeers : ps[p].out = "down" => ~ps[p].pm

(* ------------------------------------------------------------------ generator *)
\* (the generator offers three of the five control messages: none, partial only, test only)
GenExts == {NoX, [present |-> TRUE, partial |-> TRUE, test |-> FALSE], [present |-> TRUE, partial |-> FALSE, test |-> TRUE]}
NGenNext == NRec /\ Len(nhist) < NMaxLen /\ NCoreOf(GenExts)
NGenSpec == NInit /\ [][NGenNext]_nvars
NEmit == (Len(nhist) = NMaxLen) => PrintT(<<"SCN", ToJson([evs |-> nhist])>>)
=============================================================================
