----------------------------- MODULE PartialExt -----------------------------
(* X04 - the partial-messages extension of go-libp2p-pubsub, the object alone
   (/repo/partialmessages/partialmsgs.go: PartialMessagesExtension - groupState, PublishPartial,
   publish, initPeerState, HandleRPC, Heartbeat, EmitGossip, OnClosedOutboundStream,
   peerInitiatedGroupCounterState.Inc/Dec/OnClosedOutboundStream).  The handshake and the glue in the
   node (extensions.go, gossipsub.go) are specified in PartialNode.tla.

   PROPERTIES (machine-readable copy: properties_x.json)

   X04.a GroupLifecycle.  The state of a group (topic, group id) EXISTS from its first PublishPartial or its
         first ACCEPTED peer RPC.  Every PublishPartial sets its time to live to T = max(GroupTTLByHeatbeat, 3).
         A heartbeat deletes EXACTLY the groups whose time to live has run out (T heartbeats were survived since
         the last publish / the creation) and the groups that hold no per-peer state; every other group's time
         to live decreases by one.  A deleted group is gone ENTIRELY (all per-peer state inside it; no topic
         entry without groups stays behind, NOTHING is kept for a topic without live groups); a further RPC or
         publish starts from nothing.  Peer RPCs never refresh the time to live.
   X04.b ExactCount.      For every topic and peer p the peer-initiated counter of p EQUALS the number of live
         groups of the topic that p initiated during its current connection and that the node has not published
         itself (Inc on creation, Dec on expiry and on the publish that converts the group to locally initiated,
         reset when p's stream closes); total = sum over the peers; NEVER negative, NEVER drifting.
   X04.c Limits.          AT EVERY MOMENT the number of counted peer-initiated groups per topic is <=
         PeerInitiatedGroupLimitPerTopic and per (topic, peer) <= PeerInitiatedGroupLimitPerTopicPerPeer.  An RPC
         that would create a group beyond a limit is DROPPED: the matching error, no group state, no counter
         change, no OnIncomingRPC; an RPC below the limits or for an existing group is ALWAYS handed to
         OnIncomingRPC.  (Strict reading, X04.c-strict: the same bound for ALL live peer-initiated groups,
         whenever initiated.)
   X04.d SendRule.        PublishPartial offers the application EXACTLY the per-peer state kept so far plus a
         zero state for every current MeshPeers(topic) member; for every action the application yields, ONE
         RPC goes to the peer IFF (the peer requested partial messages for the topic and the encoded message is
         non-empty) or the parts metadata is non-empty; it carries the topic, the group and the metadata as
         given, and the encoded partial message ONLY IF the peer requested partial messages (never a partial
         message to a peer that did not ask); an action with Err sends nothing, touches nobody else and is
         returned (joined) to the caller.  What the application stored for a peer is handed back unchanged at
         the next call until the peer's stream closes or the group is deleted.
   X04.e Gossip.          EmitGossip(topic, peers) calls OnEmitGossip EXACTLY for the live LOCALLY initiated
         groups of the topic in which some of the peers have no state yet, with exactly those peers (in the
         given order); they get a zero state, so every peer is offered a group AT MOST ONCE per group life;
         NEVER for a peer-initiated group.
   X04.f PeerRemoval.     OnClosedOutboundStream(p) removes p's state from EVERY group of EVERY topic and
         forgets its counters; nothing of p is handed to the application afterwards until p shows up again.

   STRUCTURE.  One record S holds the mechanism (S.g: groups with time to live, initiator and per-peer state;
   S.ctr: the counters as the code keeps them; the router stub S.mesh / S.req; the application's own parts
   S.mine) and ghosts (cnt: the group counts towards its initiator; age: heartbeats survived since the last
   refresh; closed: peers whose stream closed and that have not shown up again).  One operator per method
   (PubOp, RpcOp, HbOp, CloseOp, GossipOp), each returning the new record and what the call did (RPCs handed
   to the router, application callbacks, return value).  The application is the one of the driver
   (harness/drivers/x04: parts as bitmaps merged with partialmessages/bitmap.Merge, eager push, metadata
   when it changed).  PartialTrace.tla folds the same operators over recorded calls of the REAL object.

   DESIGN AS FOUND vs IDEAL (constants):
     ResetOnClose  TRUE = the code: closing p's stream zeroes p's counters although the groups p initiated stay
                   until a heartbeat removes them (strict reading of X04.c fails: finding X04-F2).
     StaleDec      TRUE = the code: Dec(initiator) when such a left-over group expires / is converted decrements
                   whatever p has initiated SINCE (X04.b fails: finding X04-F1).
     KeepEntries   TRUE = the code: peerInitiatedGroupCounter[topic] is created by the first publish or RPC that names
                   the topic (whatever the topic: it comes from the peer) and is NEVER deleted (the last clause of
                   X04.a fails: finding X04-F4).
   Dev: a seeded defect (non-vacuity), "none" otherwise.                                                    *)
EXTENDS Naturals, Sequences, FiniteSets, TLC, Json

CONSTANTS Peers, Topics, Groups, Parts,
          CTtl, CLimT, CLimP, CEager, CRegossip, CSloppy,    \* parameters of the MC / generator runs
          ResetOnClose, StaleDec, KeepEntries, Dev,
          MaxLen, Bursts,
          Acts                                                \* the calls enabled in a run (subset of AllActs)

VARIABLES S, out, hist
vars == <<S, out, hist>>

TG == {<<t, g>> : t \in Topics, g \in Groups}
NoPeer == ""
SeqSet(q) == {q[i] : i \in DOMAIN q}
RECURSIVE SetSeq(_)
SetSeq(s) == IF s = {} THEN <<>> ELSE LET x == CHOOSE y \in s : TRUE IN <<x>> \o SetSeq(s \ {x})
RECURSIVE Sum(_, _)
Sum(f, D) == IF D = {} THEN 0 ELSE LET x == CHOOSE y \in D : TRUE IN f[x] + Sum(f, D \ {x})

NoPS   == [has |-> FALSE, hr |-> FALSE, recvd |-> {}, hs |-> FALSE, sent |-> {}]
ZeroPS == [has |-> TRUE, hr |-> FALSE, recvd |-> {}, hs |-> FALSE, sent |-> {}]
NoGroup == [live |-> FALSE, ttl |-> 0, by |-> NoPeer, cnt |-> FALSE, age |-> 0, ps |-> [p \in Peers |-> NoPS]]
Keys(G) == {p \in Peers : G.ps[p].has}

Cfg0 == [ttl |-> CTtl, limT |-> CLimT, limP |-> CLimP, eager |-> CEager, regossip |-> CRegossip, sloppy |-> CSloppy]
S0(c) == [c |-> c,
          g |-> [t \in Topics |-> [g \in Groups |-> NoGroup]],
          ctr |-> [t \in Topics |-> [p \in Peers |-> 0]],
          mesh |-> [t \in Topics |-> {}],
          req |-> {},                                   \* pairs <<p, t>>
          mine |-> [t \in Topics |-> [g \in Groups |-> [has |-> FALSE, parts |-> {}]]],
          keys |-> {},                                  \* topics that have a counter entry (peerInitiatedGroupCounter[t])
          closed |-> {}, everClosed |-> {}]

NoRet == [k |-> "", ps |-> {}]
Res(s, sent, cb, ret, gh) == [S |-> s, sent |-> sent, cb |-> cb, ret |-> ret, gh |-> gh]
NoGh == [del |-> {}, gos |-> {}]

Total(ctr, t) == Sum(ctr[t], Peers)
\* the groups that count towards p in topic t (meaning) / all live groups p initiated (strict reading)
Counted(s, t, p) == {g \in Groups : s.g[t][g].live /\ s.g[t][g].by = p /\ s.g[t][g].cnt}
Initiated(s, t, p) == {g \in Groups : s.g[t][g].live /\ s.g[t][g].by = p}
At(s, x) == s.g[x[1]][x[2]]
CountedAll(s, t) == UNION {Counted(s, t, p) : p \in Peers}
InitiatedAll(s, t) == UNION {Initiated(s, t, p) : p \in Peers}

(* ------------------------------------------------------------------ counters (mechanism) *)
\* peerInitiatedGroupCounterState.Dec: k calls for initiator p of which kc are for groups that count
DecN(ctr, t, p, k, kc) ==
    LET n == IF StaleDec THEN k ELSE kc
    IN  [ctr EXCEPT ![t][p] = IF @ > n THEN @ - n ELSE 0]
\* Inc: the limit checks of groupState (total first, then per peer)
Decision(s, t, p) ==
    LET over(a, b) == IF Dev = "offbyone" THEN a > b ELSE a >= b
    IN  IF over(Total(s.ctr, t), s.c.limT) THEN "total-limit"
        ELSE IF over(s.ctr[t][p], s.c.limP) THEN "peer-limit" ELSE ""
\* the same decision from the groups that really count (meaning) and from all live initiated groups (strict)
DecisionTrue(s, t, p) ==
    IF Cardinality(CountedAll(s, t)) >= s.c.limT THEN "total-limit"
    ELSE IF Cardinality(Counted(s, t, p)) >= s.c.limP THEN "peer-limit" ELSE ""
DecisionStrict(s, t, p) ==
    IF Cardinality(InitiatedAll(s, t)) >= s.c.limT THEN "total-limit"
    ELSE IF Cardinality(Initiated(s, t, p)) >= s.c.limP THEN "peer-limit" ELSE ""

(* ------------------------------------------------------------------ the application (driver) *)
\* one PublishAction for a peer whose stored state is ps, own parts m, r = the peer requested partial messages
AppAct(c, ps, m, r) ==
    LET enc    == c.sloppy \/ r
        hasMsg == enc /\ (IF ps.hr THEN (m \ ps.recvd) # {} ELSE c.eager)
        msg    == IF ~hasMsg THEN {} ELSE IF ps.hr THEN m \ ps.recvd ELSE m
        ps1    == IF enc /\ ps.hr THEN [ps EXCEPT !.recvd = @ \cup m]
                  ELSE IF enc /\ c.eager THEN [ps EXCEPT !.hr = TRUE, !.recvd = m] ELSE ps
        hasMeta == ~ps.hs \/ ps.sent # m
        ps2    == IF hasMeta THEN [ps1 EXCEPT !.hs = TRUE, !.sent = m] ELSE ps1
    IN  [ps |-> ps2, hasMsg |-> hasMsg, msg |-> msg, hasMeta |-> hasMeta, meta |-> IF hasMeta THEN m ELSE {}]

Rpc(p, t, g, hasMsg, msg, hasMeta, meta) == [p |-> p, t |-> t, g |-> g, hasMsg |-> hasMsg, msg |-> msg, hasMeta |-> hasMeta, meta |-> meta]
CB(k, from, t, g, hasMeta, meta, hasMsg, ps, states) ==
    [k |-> k, from |-> from, t |-> t, g |-> g, hasMeta |-> hasMeta, meta |-> meta, hasMsg |-> hasMsg, ps |-> ps, states |-> states]

(* ------------------------------------------------------------------ PublishPartial *)
PubOp(s, t, g, m, errs) ==
    LET G0    == s.g[t][g]
        conv  == G0.live /\ G0.by # NoPeer
        ctr1  == IF conv /\ Dev # "nodecconvert" THEN DecN(s.ctr, t, G0.by, 1, IF G0.cnt THEN 1 ELSE 0) ELSE s.ctr
        G1    == IF G0.live
                   THEN [G0 EXCEPT !.by = NoPeer, !.cnt = FALSE, !.age = 0, !.ttl = IF Dev = "norefresh" THEN @ ELSE s.c.ttl]
                   ELSE [NoGroup EXCEPT !.live = TRUE, !.ttl = s.c.ttl]
        \* initPeerState
        G2    == [G1 EXCEPT !.ps = [p \in Peers |-> IF p \in s.mesh[t] /\ ~@[p].has THEN ZeroPS ELSE @[p]]]
        keys  == Keys(G2)
        act(p) == AppAct(s.c, G2.ps[p], m, <<p, t>> \in s.req)
        G3    == [G2 EXCEPT !.ps = [p \in Peers |-> IF p \in keys \ errs THEN act(p).ps ELSE @[p]]]
        wants(p) == <<p, t>> \in s.req \/ Dev = "msgtononreq"
        sent  == {Rpc(p, t, g, wants(p) /\ act(p).hasMsg, IF wants(p) THEN act(p).msg ELSE {}, act(p).hasMeta, act(p).meta) :
                      p \in {q \in keys \ errs : (wants(q) /\ act(q).hasMsg) \/ act(q).hasMeta}}
        ret   == IF keys \cap errs = {} THEN NoRet ELSE [k |-> "actions", ps |-> keys \cap errs]
        s1    == [s EXCEPT !.g[t][g] = G3, !.ctr = ctr1, !.keys = @ \cup {t}, !.mine[t][g] = [has |-> TRUE, parts |-> m],
                           !.closed = @ \ s.mesh[t]]
    IN  Res(s1, sent, {CB("actions", NoPeer, t, g, FALSE, {}, FALSE, <<>>, G2.ps)}, ret, NoGh)

(* ------------------------------------------------------------------ HandleRPC *)
\* accept: the decision taken for an RPC that names a group without state ("" = create it)
RpcOp(s, p, t, g, hasMeta, meta, hasMsg, apperr, accept) ==
    LET G0   == s.g[t][g]
        drop == ~G0.live /\ accept # ""
        G1   == IF G0.live THEN G0 ELSE [NoGroup EXCEPT !.live = TRUE, !.ttl = s.c.ttl, !.by = p, !.cnt = TRUE]
        ctr1 == IF G0.live THEN s.ctr ELSE [s.ctr EXCEPT ![t][p] = @ + 1]
        cb   == CB("in", p, t, g, hasMeta, IF hasMeta THEN meta ELSE {}, hasMsg, <<>>, G1.ps)
        G2   == IF ~apperr /\ hasMeta
                  THEN [G1 EXCEPT !.ps[p] = [@ EXCEPT !.has = TRUE, !.hr = TRUE, !.recvd = @ \cup meta]]
                  ELSE G1
    IN  IF drop
          THEN IF Dev = "createondrop"
                 THEN Res([s EXCEPT !.g[t][g] = [NoGroup EXCEPT !.live = TRUE, !.ttl = s.c.ttl, !.by = p]], {}, {}, [k |-> accept, ps |-> {}], NoGh)
                 ELSE Res([s EXCEPT !.keys = @ \cup {t}], {}, {}, [k |-> accept, ps |-> {}], NoGh)
          ELSE Res([s EXCEPT !.g[t][g] = G2, !.ctr = ctr1, !.keys = @ \cup {t}, !.closed = @ \ {p}], {}, {cb},
                   IF apperr THEN [k |-> "app", ps |-> {}] ELSE NoRet, NoGh)

(* ------------------------------------------------------------------ Heartbeat *)
Expires(G) == G.live /\ (G.ttl = 0 \/ (Keys(G) = {} /\ Dev # "hbkeepempty") \/ (Dev = "ttlearly" /\ G.ttl = 1))
HbOp(s) ==
    LET dead == {x \in TG : Expires(At(s, x))}
        k(t, p)  == Cardinality({x \in dead : x[1] = t /\ At(s, x).by = p})
        kc(t, p) == Cardinality({x \in dead : x[1] = t /\ At(s, x).by = p /\ At(s, x).cnt})
        ctr1 == IF Dev = "nodecexpiry" THEN s.ctr
                ELSE [t \in Topics |-> [p \in Peers |->
                        LET n == IF StaleDec THEN k(t, p) ELSE kc(t, p) IN IF s.ctr[t][p] > n THEN s.ctr[t][p] - n ELSE 0]]
        g1   == [t \in Topics |-> [g \in Groups |->
                    IF <<t, g>> \in dead THEN NoGroup
                    ELSE IF s.g[t][g].live THEN [s.g[t][g] EXCEPT !.ttl = @ - 1, !.age = @ + 1] ELSE s.g[t][g]]]
        del  == {[x |-> x, age |-> At(s, x).age, empty |-> Keys(At(s, x)) = {}] : x \in dead}
        keys1 == IF KeepEntries THEN s.keys ELSE {t \in s.keys : \E g \in Groups : g1[t][g].live}
    IN  Res([s EXCEPT !.g = g1, !.ctr = ctr1, !.keys = keys1], {}, {}, NoRet, [del |-> del, gos |-> {}])

(* ------------------------------------------------------------------ OnClosedOutboundStream *)
CloseOp(s, p) ==
    LET g1 == [t \in Topics |-> [g \in Groups |->
                  IF ~s.g[t][g].live THEN s.g[t][g]
                  ELSE [s.g[t][g] EXCEPT !.ps[p] = IF Dev = "leakclose" THEN @ ELSE NoPS,
                                         !.cnt = IF ResetOnClose /\ s.g[t][g].by = p THEN FALSE ELSE @]]]
        ctr1 == IF ResetOnClose THEN [t \in Topics |-> [s.ctr[t] EXCEPT ![p] = 0]] ELSE s.ctr
    IN  Res([s EXCEPT !.g = g1, !.ctr = ctr1, !.closed = @ \cup {p}, !.everClosed = @ \cup {p}], {}, {}, NoRet, NoGh)

(* ------------------------------------------------------------------ EmitGossip *)
\* peers: a sequence without repetitions.  The groups are visited one after the other; what is done for one
\* group (zero states, OnEmitGossip, the application's PublishPartial) touches no other group.
RECURSIVE GossipFold(_, _, _, _)
GossipFold(r, t, peers, gs) ==
    IF gs = {} THEN r
    ELSE LET g  == CHOOSE y \in gs : TRUE
             x  == <<t, g>>
             s  == r.S
             G0 == s.g[t][g]
             elig == G0.live /\ (G0.by = NoPeer \/ Dev = "gossippeerinit")
             un == SelectSeq(peers, LAMBDA p : ~G0.ps[p].has)
             G1 == [G0 EXCEPT !.ps = [p \in Peers |-> IF p \in SeqSet(un) THEN ZeroPS ELSE @[p]]]
             s1 == [s EXCEPT !.g[t][g] = G1, !.closed = @ \ SeqSet(un)]
             cb == CB("gossip", NoPeer, t, g, FALSE, {}, FALSE, un, G1.ps)
             gh == [r.gh EXCEPT !.gos = @ \cup {[x |-> x, by |-> G0.by]}]
             r1 == IF s.c.regossip /\ s.mine[t][g].has
                     THEN LET pr == PubOp(s1, t, g, s.mine[t][g].parts, {})
                          IN  Res(pr.S, r.sent \cup pr.sent, r.cb \cup {cb} \cup pr.cb, NoRet, gh)
                     ELSE Res(s1, r.sent, r.cb \cup {cb}, NoRet, gh)
         IN  GossipFold(IF elig /\ un # <<>> THEN r1 ELSE r, t, peers, gs \ {g})
GossipOp(s, t, peers) == GossipFold(Res(s, {}, {}, NoRet, NoGh), t, peers, Groups)

MeshOp(s, t, ps) == Res([s EXCEPT !.mesh[t] = ps], {}, {}, NoRet, NoGh)
ReqOp(s, p, t, v) == Res([s EXCEPT !.req = IF v THEN @ \cup {<<p, t>>} ELSE @ \ {<<p, t>>}], {}, {}, NoRet, NoGh)

(* ------------------------------------------------------------------ model: actions *)
L(a, p, t, g, ps, parts, hasMeta, hasMsg, n) ==
    [a |-> a, p |-> p, t |-> t, g |-> g, ps |-> ps, parts |-> parts, hasMeta |-> hasMeta, hasMsg |-> hasMsg, n |-> n]
Rec == MaxLen > 0
Log(e) == hist' = IF Rec THEN Append(hist, e) ELSE hist
\* (what a call did is not kept in the model state, only whether it obeyed the rules: PartialTrace compares the rest)
SentOK(s, sent) == \A r \in sent : /\ r.hasMsg => <<r.p, r.t>> \in s.req
                                   /\ r.hasMsg \/ r.hasMeta
Do(r, a) == /\ S' = r.S
            /\ out' = [a |-> a, dOK |-> SentOK(r.S, r.sent), eOK |-> \A x \in r.gh.gos : x.by = NoPeer,
                       delOK |-> \A d \in r.gh.del : d.age = r.S.c.ttl \/ d.empty]

PubChoices == {{0}, {0, 1}} \cap SUBSET Parts
MetaChoices == {{0}, {1}} \cap SUBSET Parts

Pub(t, g, m)  == Do(PubOp(S, t, g, m, {}), "pub") /\ Log(L("pub", "", t, g, <<>>, SetSeq(m), FALSE, FALSE, 0))
RpcA(p, t, g, hasMeta, meta) ==
    /\ Do(RpcOp(S, p, t, g, hasMeta, meta, ~hasMeta, FALSE, Decision(S, t, p)), "rpc")
    /\ Log(L("rpc", p, t, g, <<>>, SetSeq(meta), hasMeta, ~hasMeta, 0))
Hb == Do(HbOp(S), "hb") /\ Log(L("hb", "", "", "", <<>>, <<>>, FALSE, FALSE, 1))
Close(p) == Do(CloseOp(S, p), "close") /\ Log(L("close", p, "", "", <<>>, <<>>, FALSE, FALSE, 0))
Gossip(t, peers) == Do(GossipOp(S, t, peers), "gossip") /\ Log(L("gossip", "", t, "", peers, <<>>, FALSE, FALSE, 0))
Mesh(t, ps) == S.mesh[t] # ps /\ Do(MeshOp(S, t, ps), "mesh") /\ Log(L("mesh", "", t, "", SetSeq(ps), <<>>, FALSE, FALSE, 0))
Req(p, t) == Do(ReqOp(S, p, t, <<p, t>> \notin S.req), "req")
             /\ Log(L("req", p, t, "", <<>>, <<>>, <<p, t>> \notin S.req, FALSE, 0))

Core == \/ "pub" \in Acts /\ \E t \in Topics, g \in Groups, m \in PubChoices : Pub(t, g, m)
        \/ "rpc" \in Acts /\ \E p \in Peers, t \in Topics, g \in Groups : RpcA(p, t, g, FALSE, {}) \/ \E m \in MetaChoices : RpcA(p, t, g, TRUE, m)
        \/ "close" \in Acts /\ \E p \in Peers : Close(p)
        \/ "mesh" \in Acts /\ \E t \in Topics, ps \in SUBSET Peers : Mesh(t, ps)
        \/ "gossip" \in Acts /\ \E t \in Topics, ps \in SUBSET Peers : ps # {} /\ Gossip(t, SetSeq(ps))
        \/ "req" \in Acts /\ \E p \in Peers, t \in Topics : Req(p, t)

Out0 == [a |-> "", dOK |-> TRUE, eOK |-> TRUE, delOK |-> TRUE]
AllActs == {"pub", "rpc", "hb", "close", "mesh", "gossip", "req"}
Init == S = S0(Cfg0) /\ out = Out0 /\ hist = <<>>
Next == ~Rec /\ (Core \/ ("hb" \in Acts /\ Hb))
Spec == Init /\ [][Next]_vars

(* ------------------------------------------------------------------ properties (invariants) *)
TypeOK == /\ \A x \in TG : At(S, x).ttl \in 0..S.c.ttl /\ At(S, x).by \in Peers \cup {NoPeer}
          /\ \A t \in Topics, p \in Peers : S.ctr[t][p] \in 0..Cardinality(Groups)

\* a: time to live and age add up; nothing outlives its time; a heartbeat deletes only what is due or empty and
\*    leaves no group without per-peer state; a dead group holds nothing
P_X04_a == /\ \A x \in TG : At(S, x).live => (At(S, x).ttl + At(S, x).age = S.c.ttl)
           /\ \A x \in TG : ~At(S, x).live => At(S, x) = NoGroup
           /\ out.delOK
           /\ out.a = "hb" => \A x \in TG : At(S, x).live => Keys(At(S, x)) # {}
\* nothing is kept for a topic without live groups (the counter entries: finding X04-F4)
P_X04_aDead == \A t \in S.keys : \E g \in Groups : S.g[t][g].live
P_X04_b == \A t \in Topics, p \in Peers : S.ctr[t][p] = Cardinality(Counted(S, t, p))
P_X04_c == /\ \A t \in Topics : Cardinality(CountedAll(S, t)) <= S.c.limT
           /\ \A t \in Topics, p \in Peers : Cardinality(Counted(S, t, p)) <= S.c.limP
           \* a peer-initiated group that does not count belongs to a peer whose stream closed since
           /\ \A x \in TG : (At(S, x).live /\ At(S, x).by # NoPeer /\ ~At(S, x).cnt) => At(S, x).by \in S.everClosed
P_X04_cStrict == /\ \A t \in Topics : Cardinality(InitiatedAll(S, t)) <= S.c.limT
                 /\ \A t \in Topics, p \in Peers : Cardinality(Initiated(S, t, p)) <= S.c.limP
P_X04_d == out.dOK
P_X04_e == out.eOK
P_X04_f == \A p \in S.closed : /\ \A x \in TG : ~At(S, x).ps[p].has
                               /\ ResetOnClose => \A t \in Topics : S.ctr[t][p] = 0

MCView == <<S, out>>

(* ------------------------------------------------------------------ generator *)
\* histories of exactly MaxLen calls; a heartbeat entry stands for n heartbeats (Bursts)
HbN(n) == /\ LET RECURSIVE Rep(_, _)
                 Rep(s, k) == IF k = 0 THEN s ELSE Rep(HbOp(s).S, k - 1)
             IN  S' = Rep(S, n)
          /\ out' = Out0 /\ Log(L("hb", "", "", "", <<>>, <<>>, FALSE, FALSE, n))
GenNext == Rec /\ Len(hist) < MaxLen /\ (Core \/ ("hb" \in Acts /\ \E n \in Bursts : HbN(n)))
GenSpec == Init /\ [][GenNext]_vars
Emit == (Len(hist) = MaxLen) => PrintT(<<"SCN", ToJson([evs |-> hist])>>)
=============================================================================
