SPECIFICATION NSpec
CONSTANTS
  NPeers = {"p1"}
  MyPartial = TRUE
  MyTest = TRUE
  NAsFound = FALSE
  NDev = "none"
  NMaxLen = 0
  MaxMisb = 2
INVARIANT P_X04_g
INVARIANT P_X04_h
INVARIANT P_X04_i
INVARIANT P_X04_k
CHECK_DEADLOCK FALSE
