----------------------------- MODULE BitmapTrace -----------------------------
(* X04.d (metadata merge): the parts metadata of the applications in the repository's tests and in the X04 drivers
   is a bitmap merged with partialmessages/bitmap.Merge.  The documentation of the partial-messages extension asks
   the application's merge to be monotone (what a peer was known to have, it is still known to have), commutative
   and idempotent; all three follow from  Merge(a, b) = a \cup b  with length max(len a, len b)  and inputs left alone,
   which is what this trace specification checks on every recorded call of the REAL package
   (harness/drivers/x04 TestX04Bitmap), together with Set / Clear / Get / OnesCount / IsZero.

   A bitmap is recorded as the sequence of its set bit positions and its length in bytes.
   Finding X04-F6: Set(i) on a bitmap too short for i grows a copy of the slice header only; the caller's bitmap
   does not change (the bit is silently lost) - labelled "as-found-set-beyond-length-lost".                    *)
EXTENDS Naturals, Sequences, FiniteSets, TLC, Json

Trace == ndJsonDeserialize("trace.ndjson")
VARIABLES l
E == Trace[l]
SeqSet(q) == {q[i] : i \in DOMAIN q}
Max(a, b) == IF a > b THEN a ELSE b

Viol(pred, kind) ==
    PrintT(<<"VIOL", ToJson([pred |-> pred, kind |-> kind, scn |-> E.scn, i |-> E.i, a |-> E.e, t |-> "", g |-> "", p |-> "",
                            obs |-> E.out, exp |-> E.a])>>)

A == SeqSet(E.a)
B == SeqSet(E.b)
O == SeqSet(E.out)

Judge ==
    /\ Cardinality(O) # Len(E.out) => Viol("P_X04_d", "bitmap-rendering")
    /\ E.ones # Cardinality(O) => Viol("P_X04_d", "onescount")
    /\ E.zero # (O = {}) => Viol("P_X04_d", "iszero")
    /\ E.e = "merge" =>
         /\ O # A \cup B => Viol("P_X04_d", IF ~(A \subseteq O /\ B \subseteq O) THEN "merge-not-monotone" ELSE "merge-invents-bits")
         /\ E.lo # Max(E.la, E.lb) => Viol("P_X04_d", "merge-length")
         /\ (SeqSet(E.aAfter) # A \/ SeqSet(E.bAfter) # B) => Viol("P_X04_d", "merge-changes-input")
    /\ E.e = "set" =>
         IF E.idx < E.la * 8
           THEN /\ O # A \cup {E.idx} => Viol("P_X04_d", "set")
                /\ ~E.get => Viol("P_X04_d", "get-after-set")
           ELSE /\ (O = A /\ ~E.get) => Viol("P_X04_d", "as-found-set-beyond-length-lost")
                /\ ~(O = A /\ ~E.get) /\ ~(O = A \cup {E.idx} /\ E.get) => Viol("P_X04_d", "set-beyond-length")
    /\ E.e = "clear" =>
         /\ O # A \ {E.idx} => Viol("P_X04_d", "clear")
         /\ E.get => Viol("P_X04_d", "get-after-clear")

TInit == TLCSet(1, 0) /\ l = 1
TNext == l <= Len(Trace) /\ (IF E.e = "reset" THEN TRUE ELSE Judge) /\ l' = l + 1
TraceSpec == TInit /\ [][TNext]_l
HW == IF TLCGet(1) < l THEN TLCSet(1, l) ELSE TRUE
Accepted == PrintT(<<"HW", TLCGet(1), Len(Trace) + 1>>)
=============================================================================
