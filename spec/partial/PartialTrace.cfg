SPECIFICATION TraceSpec
CONSTANTS
  Peers = {"p1", "p2", "p3"}
  Topics = {"t1", "t2"}
  Groups = {"g1", "g2", "g3"}
  Parts = {0, 1, 2, 3, 4, 5, 6, 7}
  CTtl = 3
  CLimT = 255
  CLimP = 8
  CEager = TRUE
  CRegossip = TRUE
  CSloppy = FALSE
  ResetOnClose = TRUE
  StaleDec = TRUE
  KeepEntries = TRUE
  Dev = "none"
  MaxLen = 0
  Bursts = {}
  Acts = {}
CONSTRAINT HW
POSTCONDITION Accepted
CHECK_DEADLOCK FALSE
