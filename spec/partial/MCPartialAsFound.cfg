\* the design as found: P_X04_b (X04-F1), P_X04_c (its consequence), P_X04_cStrict (X04-F2) and P_X04_aDead (X04-F4) MUST fail
SPECIFICATION Spec
CONSTANTS
  Peers = {"p1", "p2"}
  Topics = {"t1"}
  Groups = {"g1", "g2"}
  Parts = {0}
  CTtl = 1
  CLimT = 2
  CLimP = 1
  CEager = TRUE
  CRegossip = TRUE
  CSloppy = FALSE
  ResetOnClose = TRUE
  StaleDec = TRUE
  KeepEntries = TRUE
  Dev = "none"
  MaxLen = 0
  Bursts = {}
  Acts = {"pub", "rpc", "hb", "close"}
INVARIANT TypeOK
INVARIANT P_X04_a
INVARIANT P_X04_aDead
INVARIANT P_X04_b
INVARIANT P_X04_c
INVARIANT P_X04_cStrict
INVARIANT P_X04_d
INVARIANT P_X04_e
INVARIANT P_X04_f
VIEW MCView
CHECK_DEADLOCK FALSE
