---------------------------- MODULE PartialTrace ----------------------------
(* Trace specification for X04, the extension object alone.  Every line is one call on the REAL
   partialmessages.PartialMessagesExtension (harness/drivers/x04 TestX04Obj, projected by bin/lib/props/x04.py):

     e = "reset": scn, ttl, limT, limP, eager, regossip, sloppy     (effective parameters of the scenario)
     e = "step":  scn, i, a (mesh req pub rpc hb close gossip), p, t, g, ps, parts, err, hasMeta, hasMsg, apperr, v
                  ret    [k, ps]      return value ("", total-limit, peer-limit, app, actions + the peers)
                  sent   the RPCs handed to the router, in order   [p, t, g, hasMsg, msg, hasMeta, meta]
                  cb     the application callbacks, in order       [k, from, t, g, hasMeta, meta, hasMsg, ps, states]
                  groups, empty, ctr    the extension's whole bookkeeping after the call (VerifX04Snapshot)

   The operators of PartialExt are folded over the calls.  They give the MEANING: which groups exist with which
   time to live, initiator and per-peer state, which groups count towards which peer (ghost cnt), what is sent
   and which callbacks run.  For an RPC that names a group without state the reference FOLLOWS the decision the
   code took (accepted / dropped) and X04.c judges that decision against the groups that really count, so that
   one wrong decision is reported once and does not derail what follows.  The counters as the code as found
   keeps them (S.ctr, configuration ResetOnClose = StaleDec = TRUE) are used ONLY to label a failure that a
   listed finding explains ("as-found-...").

   The replay is deterministic up to Go's map iteration order (sets are compared as sets): nothing blocks,
   every failing predicate instance is printed as <<"VIOL", json>>, judged calls as <<"STEP", json>>.       *)
EXTENDS PartialExt

Trace == ndJsonDeserialize("trace.ndjson")

VARIABLES l
tvars == <<vars, l>>

E == Trace[l]

Viol(pred, kind, t, g, p, obs, exp) ==
    PrintT(<<"VIOL", ToJson([pred |-> pred, kind |-> kind, scn |-> E.scn, i |-> E.i, a |-> E.a,
                            t |-> t, g |-> g, p |-> p, obs |-> obs, exp |-> exp])>>)

(* ---------------------------------------------------------------- observations -> values of the model *)
PSOf(q) == [p \in Peers |->
              IF \E i \in DOMAIN q : q[i].p = p
                THEN LET x == q[CHOOSE i \in DOMAIN q : q[i].p = p]
                     IN  [has |-> TRUE, hr |-> x.hr, recvd |-> SeqSet(x.recvd), hs |-> x.hs, sent |-> SeqSet(x.sent)]
                ELSE NoPS]
ObsG(t, g) == IF \E i \in DOMAIN E.groups : E.groups[i].t = t /\ E.groups[i].g = g
                THEN LET x == E.groups[CHOOSE i \in DOMAIN E.groups : E.groups[i].t = t /\ E.groups[i].g = g]
                     IN  [live |-> TRUE, ttl |-> x.ttl, by |-> x.by, ps |-> PSOf(x.ps)]
                ELSE [live |-> FALSE, ttl |-> 0, by |-> NoPeer, ps |-> [p \in Peers |-> NoPS]]
Proj(G) == [live |-> G.live, ttl |-> G.ttl, by |-> G.by, ps |-> G.ps]
ObsPer(t, p) == LET c == {i \in DOMAIN E.ctr : E.ctr[i].t = t}
                IN  IF c = {} THEN 0
                    ELSE LET per == E.ctr[CHOOSE i \in c : TRUE].per
                             h   == {j \in DOMAIN per : per[j].p = p}
                         IN  IF h = {} THEN 0 ELSE per[CHOOSE j \in h : TRUE].n
ObsTotal(t) == LET c == {i \in DOMAIN E.ctr : E.ctr[i].t = t} IN IF c = {} THEN 0 ELSE E.ctr[CHOOSE i \in c : TRUE].total
ObsSent == {Rpc(E.sent[i].p, E.sent[i].t, E.sent[i].g, E.sent[i].hasMsg, SeqSet(E.sent[i].msg), E.sent[i].hasMeta, SeqSet(E.sent[i].meta)) :
                i \in DOMAIN E.sent}
ObsCB == {CB(E.cb[i].k, E.cb[i].from, E.cb[i].t, E.cb[i].g, E.cb[i].hasMeta, SeqSet(E.cb[i].meta), E.cb[i].hasMsg, E.cb[i].ps, PSOf(E.cb[i].states)) :
                i \in DOMAIN E.cb}
ObsRet == [k |-> E.ret.k, ps |-> SeqSet(E.ret.ps)]
ObsDecision == IF E.ret.k \in {"total-limit", "peer-limit"} THEN E.ret.k ELSE ""

(* ---------------------------------------------------------------- one call *)
\* n heartbeats in one line never occur in recorded traces (one line per heartbeat)
After ==
    CASE E.a = "mesh"   -> MeshOp(S, E.t, SeqSet(E.ps))
      [] E.a = "req"    -> ReqOp(S, E.p, E.t, E.v)
      [] E.a = "pub"    -> PubOp(S, E.t, E.g, SeqSet(E.parts), SeqSet(E.err))
      [] E.a = "rpc"    -> RpcOp(S, E.p, E.t, E.g, E.hasMeta, SeqSet(E.parts), E.hasMsg, E.apperr, ObsDecision)
      [] E.a = "hb"     -> HbOp(S)
      [] E.a = "close"  -> CloseOp(S, E.p)
      [] E.a = "gossip" -> GossipOp(S, E.t, E.ps)
      [] OTHER          -> Res(S, {}, {}, NoRet, NoGh)

NewGroupRpc == E.a = "rpc" /\ ~S.g[E.t][E.g].live

CheckGroups(r) ==
    \A t \in Topics, g \in Groups :
      LET o == ObsG(t, g)
          x == Proj(r.S.g[t][g])
      IN  /\ (x.live /\ ~o.live) => Viol("P_X04_a", IF E.a = "hb" THEN "deleted-early" ELSE "group-missing", t, g, "", 0, x.ttl)
          /\ (~x.live /\ o.live) =>
                IF NewGroupRpc /\ E.t = t /\ E.g = g THEN Viol("P_X04_c", "state-for-dropped-rpc", t, g, E.p, o.ttl, 0)
                ELSE Viol("P_X04_a", IF E.a = "hb" THEN "not-deleted" ELSE "group-unexpected", t, g, "", o.ttl, 0)
          /\ (x.live /\ o.live) =>
                /\ o.ttl # x.ttl => Viol("P_X04_a", IF E.a = "pub" THEN "ttl-not-refreshed" ELSE "ttl", t, g, "", o.ttl, x.ttl)
                /\ o.by # x.by => Viol("P_X04_a", "initiator", t, g, o.by, 0, 0)
                /\ \A p \in Peers : o.ps[p] # x.ps[p] =>
                      IF p \in r.S.closed /\ o.ps[p].has THEN Viol("P_X04_f", "state-after-close", t, g, p, 1, 0)
                      ELSE IF o.ps[p].has # x.ps[p].has
                             THEN Viol("P_X04_d", IF o.ps[p].has THEN "peer-state-unexpected" ELSE "peer-state-missing", t, g, p, 0, 0)
                             ELSE Viol("P_X04_d", "peer-state-content", t, g, p, 0, 0)

CheckCounters(r) ==
    /\ \A t \in Topics, p \in Peers :
          LET o == ObsPer(t, p)
              x == Cardinality(Counted(r.S, t, p))
          IN  o # x => Viol("P_X04_b", IF o = r.S.ctr[t][p] THEN "as-found-stale-dec"
                                       ELSE IF p \in r.S.closed THEN "counter-after-close" ELSE "count-mismatch", t, "", p, o, x)
    /\ \A t \in Topics : ObsTotal(t) # Sum([p \in Peers |-> ObsPer(t, p)], Peers) =>
                            Viol("P_X04_b", "total-not-sum", t, "", "", ObsTotal(t), Sum([p \in Peers |-> ObsPer(t, p)], Peers))
    /\ \A i \in DOMAIN E.empty : Viol("P_X04_a", "topic-entry-without-groups", E.empty[i], "", "", 0, 0)
    \* reported at the heartbeat that removes the last group of a topic
    /\ \A i \in DOMAIN E.ctr :
         LET t == E.ctr[i].t
         IN  (E.a = "hb" /\ t \in Topics /\ (\E g \in Groups : S.g[t][g].live) /\ ~(\E g \in Groups : r.S.g[t][g].live)) =>
                Viol("P_X04_a", "as-found-counter-entry-kept", t, "", "", E.ctr[i].total, 0)

CheckDecision ==
    NewGroupRpc =>
      LET dT == DecisionTrue(S, E.t, E.p)
          dA == Decision(S, E.t, E.p)
          dS == DecisionStrict(S, E.t, E.p)
          dO == ObsDecision
      IN  /\ (dO = "" /\ dT # "") => Viol("P_X04_c", IF dA = dO THEN "as-found-drift-accept" ELSE "accepted-beyond-limit", E.t, E.g, E.p, dO, dT)
          /\ (dO # "" /\ dT = "") => Viol("P_X04_c", "dropped-below-limit", E.t, E.g, E.p, dO, dT)
          /\ (dO # "" /\ dT # "" /\ dO # dT) => Viol("P_X04_c", IF dA = dO THEN "as-found-drift-error" ELSE "wrong-error", E.t, E.g, E.p, dO, dT)
          /\ (dO = "" /\ dT = "" /\ dS # "") => Viol("P_X04_c", "as-found-limit-reset-on-close", E.t, E.g, E.p, dO, dS)

CheckSent(r) ==
    LET o == ObsSent
        x == r.sent
        same(a, b) == a.p = b.p /\ a.t = b.t /\ a.g = b.g
    IN  /\ Len(E.sent) # Cardinality(o) => Viol("P_X04_d", "rpc-twice", "", "", "", Len(E.sent), Cardinality(o))
        /\ \A a \in o \ x :
              IF a.hasMsg /\ <<a.p, a.t>> \notin S.req THEN Viol("P_X04_d", "msg-to-non-requester", a.t, a.g, a.p, 0, 0)
              ELSE IF ~a.hasMsg /\ ~a.hasMeta THEN Viol("P_X04_d", "empty-rpc", a.t, a.g, a.p, 0, 0)
              ELSE IF \E b \in x : same(a, b) THEN Viol("P_X04_d", "rpc-content", a.t, a.g, a.p, 0, 0)
              ELSE Viol("P_X04_d", "rpc-unexpected", a.t, a.g, a.p, 0, 0)
        /\ \A b \in x \ o : (~\E a \in o : same(a, b)) => Viol("P_X04_d", "rpc-missing", b.t, b.g, b.p, 0, 0)
        /\ ObsRet # r.ret => Viol(IF E.a = "rpc" THEN "P_X04_c" ELSE "P_X04_d", "return-value", E.t, E.g, E.p, 0, 0)

CheckCB(r) ==
    LET o == ObsCB
        x == r.cb
        key(a, b) == a.k = b.k /\ a.t = b.t /\ a.g = b.g /\ a.from = b.from
        pred(k) == IF k = "in" THEN "P_X04_c" ELSE IF k = "gossip" THEN "P_X04_e" ELSE "P_X04_d"
    IN  /\ Len(E.cb) # Cardinality(o) => Viol("P_X04_e", "callback-twice", "", "", "", Len(E.cb), Cardinality(o))
        /\ \A a \in o \ x :
              IF \E b \in x : key(a, b)
                THEN LET b == CHOOSE b \in x : key(a, b)
                     IN  Viol(pred(a.k), IF a.states # b.states THEN "states-offered" ELSE IF a.ps # b.ps THEN "gossip-peers" ELSE "callback-content",
                              a.t, a.g, a.from, 0, 0)
                ELSE Viol(pred(a.k), IF a.k = "gossip" /\ S.g[a.t][a.g].live /\ S.g[a.t][a.g].by # NoPeer THEN "gossip-for-peer-initiated"
                                     ELSE IF a.k = "in" /\ ObsDecision # "" THEN "callback-for-dropped-rpc" ELSE "callback-unexpected",
                          a.t, a.g, a.from, 0, 0)
        /\ \A b \in x \ o : (~\E a \in o : key(a, b)) => Viol(pred(b.k), "callback-missing", b.t, b.g, b.from, 0, 0)

Tags(r) ==
    LET tag(c, s) == IF c THEN {s} ELSE {}
        G0 == IF E.a \in {"pub", "rpc"} THEN S.g[E.t][E.g] ELSE NoGroup
    IN  tag(E.a = "pub" /\ ~G0.live, "pub-new") \cup tag(E.a = "pub" /\ G0.live /\ G0.by = NoPeer /\ G0.ttl < S.c.ttl, "pub-refresh")
        \cup tag(E.a = "pub" /\ G0.live /\ G0.by # NoPeer /\ G0.cnt, "pub-converts-counted")
        \cup tag(E.a = "pub" /\ G0.live /\ G0.by # NoPeer /\ ~G0.cnt, "pub-converts-stale")
        \cup tag(E.a = "pub" /\ \E x \in r.sent : x.hasMsg /\ x.hasMeta, "send-msg-and-meta")
        \cup tag(E.a = "pub" /\ \E x \in r.sent : ~x.hasMsg /\ x.hasMeta, "send-meta-only")
        \cup tag(E.a = "pub" /\ \E x \in r.sent : x.hasMsg /\ ~x.hasMeta, "send-msg-only")
        \cup tag(E.a = "pub" /\ \E p \in Keys(r.S.g[E.t][E.g]) : p \notin SeqSet(E.err) /\ ~\E x \in r.sent : x.p = p, "send-nothing")
        \cup tag(E.a = "pub" /\ S.c.sloppy /\ \E p \in Keys(r.S.g[E.t][E.g]) : <<p, E.t>> \notin S.req, "msg-stripped-for-non-requester")
        \cup tag(E.a = "pub" /\ r.ret.k = "actions", "pub-action-error") \cup tag(E.a = "pub" /\ Cardinality(r.ret.ps) >= 2, "pub-two-action-errors")
        \cup tag(E.a = "pub" /\ r.ret.k = "actions" /\ r.sent # {}, "pub-action-error-others-sent")
        \cup tag(E.a = "pub" /\ G0.live /\ \E p \in Peers : G0.ps[p].hr /\ <<p, E.t>> \in S.req /\ \E x \in r.sent : x.p = p /\ x.hasMsg, "send-missing-parts")
        \cup tag(E.a = "pub" /\ \E p \in S.mesh[E.t] : ~G0.ps[p].has, "mesh-peer-initialised")
        \cup tag(NewGroupRpc /\ ObsDecision = "", "rpc-creates") \cup tag(NewGroupRpc /\ ObsDecision = "peer-limit", "rpc-peer-limit")
        \cup tag(NewGroupRpc /\ ObsDecision = "total-limit", "rpc-total-limit")
        \cup tag(E.a = "rpc" /\ G0.live /\ Decision(S, E.t, E.p) # "", "rpc-existing-at-limit")
        \cup tag(E.a = "rpc" /\ G0.live /\ G0.by = NoPeer, "rpc-on-local-group")
        \cup tag(E.a = "rpc" /\ E.apperr /\ r.ret.k = "app" /\ ~G0.live, "rpc-app-error-new-group")
        \cup tag(E.a = "rpc" /\ E.apperr /\ r.ret.k = "app" /\ G0.live, "rpc-app-error-existing-group") \cup tag(E.a = "rpc" /\ ~E.hasMeta /\ ObsDecision = "", "rpc-ignored-by-app")
        \cup tag(E.a = "rpc" /\ G0.live /\ G0.ps[E.p].hr /\ E.hasMeta /\ ~(SeqSet(E.parts) \subseteq G0.ps[E.p].recvd), "metadata-merged")
        \cup tag(E.a = "hb" /\ \E x \in r.gh.del : x.age = S.c.ttl /\ ~x.empty, "expire-ttl")
        \cup tag(E.a = "hb" /\ \E x \in r.gh.del : x.empty /\ x.age < S.c.ttl, "expire-empty")
        \cup tag(E.a = "hb" /\ \E x \in r.gh.del : At(S, x.x).by # NoPeer /\ At(S, x.x).cnt, "expire-counted")
        \cup tag(E.a = "hb" /\ \E x \in r.gh.del : At(S, x.x).by # NoPeer /\ ~At(S, x.x).cnt, "expire-stale")
        \cup tag(E.a = "hb" /\ \E x \in TG : At(S, x).live /\ At(r.S, x).live, "hb-survivor")
        \cup tag(E.a = "close" /\ \E x \in TG : At(S, x).ps[E.p].has, "close-removes-state")
        \cup tag(E.a = "close" /\ \E t \in Topics : Counted(S, t, E.p) # {}, "close-resets-counter")
        \cup tag(E.a = "gossip" /\ r.cb # {}, "gossip-offered") \cup tag(E.a = "gossip" /\ \E c \in r.cb : c.k = "actions", "gossip-republished")
        \cup tag(E.a = "gossip" /\ \E g \in Groups : S.g[E.t][g].live /\ S.g[E.t][g].by # NoPeer, "gossip-skips-peer-initiated")
        \cup tag(E.a = "gossip" /\ \E g \in Groups : S.g[E.t][g].live /\ S.g[E.t][g].by = NoPeer /\ SeqSet(E.ps) \subseteq Keys(S.g[E.t][g]), "gossip-all-tracked")
        \cup tag(\E t \in Topics, p \in Peers : ObsPer(t, p) # Cardinality(Counted(r.S, t, p)), "count-drift-seen")
        \cup tag(E.a = "hb" /\ \E t \in Topics : (\E g \in Groups : S.g[t][g].live) /\ ~(\E g \in Groups : r.S.g[t][g].live), "topic-dies")

TStep == /\ E.e = "step"
         /\ LET r == After
            IN  /\ CheckDecision /\ CheckGroups(r) /\ CheckCounters(r) /\ CheckSent(r) /\ CheckCB(r)
                /\ PrintT(<<"STEP", ToJson([scn |-> E.scn, i |-> E.i, a |-> E.a, tags |-> Tags(r)])>>)
                /\ S' = r.S
         /\ UNCHANGED <<out, hist>>

TReset == /\ E.e = "reset"
          /\ S' = S0([ttl |-> E.ttl, limT |-> E.limT, limP |-> E.limP, eager |-> E.eager, regossip |-> E.regossip, sloppy |-> E.sloppy])
          /\ UNCHANGED <<out, hist>>

TInit == TLCSet(1, 0) /\ l = 1 /\ S = S0(Cfg0) /\ out = Out0 /\ hist = <<>>
TNext == l <= Len(Trace) /\ (TReset \/ TStep) /\ l' = l + 1
TraceSpec == TInit /\ [][TNext]_tvars

HW == IF TLCGet(1) < l THEN TLCSet(1, l) ELSE TRUE
Accepted == PrintT(<<"HW", TLCGet(1), Len(Trace) + 1>>)
=============================================================================
