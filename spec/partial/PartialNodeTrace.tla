-------------------------- MODULE PartialNodeTrace --------------------------
(* Trace specification for X04 in the node: every line is one step of a scenario replayed on a REAL gossipsub
   node (harness/drivers/x04 TestX04Node on harness/world; projected by bin/lib/props/x04.py).

   PROPERTIES X04.g-k (statements: PartialNode.tla, properties_x.json).  They are judged with MONITORS that this
   module keeps from what the scenario did and from the tracer events - never copied from the bookkeeping they
   are about:

     N.proto, N.up      protocol / liveness of the node's outbound stream to each peer (Up / Down tracer events)
     N.inOpen, N.fresh  the peer's stream to the node is open / has not carried an RPC yet (stimuli)
     N.rec              what the peer's FIRST RPC on its current stream advertised (the record the node must hold)
     N.subs             the subscription flags the peer sent on its current stream
     S                  the reference state of the extension object (operators of PartialExt): the node's steps are
                        mapped to the object's calls - a dispatched partial RPC = HandleRPC, the application's
                        publish = PublishPartial with MeshPeers / PeerRequestsPartial computed from the monitors,
                        a router heartbeat = EmitGossip per topic then Heartbeat, a closed outbound stream =
                        OnClosedOutboundStream

   and compared with: the frames the fake peers received (order per peer), the application callbacks, the
   extensions state (VerifExtensions), the extension's bookkeeping (VerifX04Snapshot), the behaviour penalty.

   Where the code as found is known to deviate (findings X04-F3 inbound stream closed first, X04-F5 a peer that
   requests partial messages in a subscription without advertising the extension) the failure is labelled
   "as-found-..." and the reference FOLLOWS what the node did, so that what comes after is still judged.
   Nothing blocks: <<"VIOL", json>> per failing predicate instance, <<"NSTEP", json>> per judged step (coverage
   tags), <<"DRIFT", json>> when a step left the envelope in which the expectation is determined.            *)
EXTENDS PartialTrace

VARIABLES N
nvars == <<vars, l, N>>

NoRec == [has |-> FALSE, partial |-> FALSE, test |-> FALSE]
N0 == [my |-> [partial |-> FALSE, test |-> FALSE], modes |-> [t \in Topics |-> "none"], flood |-> FALSE,
       proto |-> [p \in Peers |-> ""], up |-> [p \in Peers |-> FALSE], inOpen |-> [p \in Peers |-> FALSE],
       fresh |-> [p \in Peers |-> FALSE], rec |-> [p \in Peers |-> NoRec], subs |-> {},
       pend |-> {}]     \* partial RPCs queued for a peer whose outbound stream was down: they arrive when it is back

Drift(kind) == PrintT(<<"DRIFT", ToJson([kind |-> kind, scn |-> E.scn, i |-> E.i, a |-> E.a])>>)
Pairs(q) == {<<q[i][1], q[i][2]>> : i \in DOMAIN q}
MeshOf(q, t) == {x[2] : x \in {y \in Pairs(q) : y[1] = t}}
MeshCapable(pr) == pr \in {"/meshsub/1.0.0", "/meshsub/1.1.0", "/meshsub/1.2.0", "/meshsub/1.3.0"}
V13 == "/meshsub/1.3.0"

(* ---------------------------------------------------------------- the stimulus: what the fake peer did *)
Sender == IF E.sends THEN E.p ELSE NoPeer
InClosedNow == IF E.a \in {"closeOut", "resetOut", "down"} THEN {E.p} ELSE {}
FirstNow == E.sends /\ N.fresh[E.p] /\ N.inOpen[E.p]
Misbehaves == E.sends /\ N.inOpen[E.p] /\ ~N.fresh[E.p] /\ E.xext.present
RecOf(x) == [has |-> TRUE, partial |-> x.present /\ x.partial, test |-> x.present /\ x.test]
SubsAfter(subs) ==
    IF ~(E.sends /\ N.inOpen[E.p]) THEN subs
    ELSE LET touched == {E.xsubs[i].t : i \in DOMAIN E.xsubs}
             last(t) == E.xsubs[CHOOSE i \in DOMAIN E.xsubs : E.xsubs[i].t = t /\ \A j \in DOMAIN E.xsubs : E.xsubs[j].t = t => j <= i]
         IN  {s \in subs : ~(s.p = E.p /\ s.t \in touched)}
             \cup {[p |-> E.p, t |-> t, req |-> last(t).req, sup |-> last(t).req \/ last(t).sup] : t \in {u \in touched : last(u).sub}}

\* N1: the monitors after the stimulus and the stream events of the step
UpsOf(p) == Cardinality({i \in DOMAIN E.evo : E.evo[i].k = "Up" /\ E.evo[i].p = p})
DownsOf(p) == Cardinality({i \in DOMAIN E.evo : E.evo[i].k = "Down" /\ E.evo[i].p = p})
LastEv(p) == LET idx == {i \in DOMAIN E.evo : E.evo[i].p = p} IN IF idx = {} THEN "" ELSE E.evo[CHOOSE i \in idx : \A j \in idx : j <= i].k
ProtoNow(p) == LET idx == {i \in DOMAIN E.evo : E.evo[i].p = p /\ E.evo[i].k = "Up"}
               IN  IF idx = {} THEN N.proto[p] ELSE E.evo[CHOOSE i \in idx : \A j \in idx : j <= i].proto
N1 == [N EXCEPT
         !.proto = [p \in Peers |-> ProtoNow(p)],
         !.up = [p \in Peers |-> IF LastEv(p) = "Up" THEN TRUE ELSE IF LastEv(p) = "Down" THEN FALSE ELSE @[p]],
         !.inOpen = [p \in Peers |-> IF p \in InClosedNow THEN FALSE ELSE IF E.a \in {"peer", "openOut"} /\ E.p = p THEN TRUE ELSE @[p]],
         !.fresh = [p \in Peers |-> IF E.a \in {"peer", "openOut"} /\ E.p = p THEN TRUE ELSE IF E.sends /\ E.p = p /\ N.inOpen[p] THEN FALSE ELSE @[p]],
         !.rec = [p \in Peers |-> IF p \in InClosedNow THEN NoRec ELSE IF FirstNow /\ E.p = p THEN RecOf(E.xext) ELSE @[p]],
         \* a closed stream in either direction makes the node forget what it learnt from the peer's subscriptions
         !.subs = {s \in SubsAfter(N.subs) : s.p \notin InClosedNow /\ DownsOf(s.p) = 0}]

(* ---------------------------------------------------------------- flags of the node and of the peers *)
Joined(q, t) == t \in SeqSet(q)
MyReq(j, t) == Joined(j, t) /\ N.modes[t] = "req"
MySup(j, t) == Joined(j, t) /\ N.modes[t] \in {"req", "sup"}
PeerReq(n, p, t) == n.my.partial /\ \E s \in n.subs : s.p = p /\ s.t = t /\ s.req
PeerSup(n, p, t) == n.my.partial /\ \E s \in n.subs : s.p = p /\ s.t = t /\ s.sup
HasExt(n, p) == n.rec[p].has /\ n.rec[p].partial
Suppressed(n, j, p, t) == MySup(j, t) /\ PeerReq(n, p, t)
\* (a peer that requests partial messages WITHOUT having advertised the extension contradicts itself: the code as found
\* treats it as a partial peer, X04-F5; serving it in full is just as acceptable, so X04.j demands nothing for it)
PartialPeer(n, j, p, t) == Suppressed(n, j, p, t) /\ HasExt(n, p)
\* partialMessageRouter.MeshPeers as meant / the additional members the code as found lets through (X04-F5)
BasePeers(t) == IF MeshOf(E.premesh, t) # {} THEN MeshOf(E.premesh, t)
                ELSE IF MeshOf(E.prefanout, t) # {} THEN MeshOf(E.prefanout, t)
                ELSE {p \in MeshOf(E.pretpeers, t) : MeshCapable(N.proto[p])}
Fits(n, j, p, t) == (MyReq(j, t) /\ PeerSup(n, p, t)) \/ (MySup(j, t) /\ PeerReq(n, p, t))
MeshIdeal(t) == {p \in BasePeers(t) : HasExt(N, p) /\ Fits(N, E.prejoined, p, t)}
MeshExtra(t) == {p \in BasePeers(t) \ MeshIdeal(t) : MySup(E.prejoined, t) /\ PeerReq(N, p, t)}
ReqSet(n) == {<<p, t>> \in Peers \X Topics : PeerReq(n, p, t)}

(* ---------------------------------------------------------------- frames *)
Frames(p) == SelectSeq(E.frames, LAMBDA f : f.p = p)
PartOf(f) == Rpc(f.p, f.part.t, f.part.g, f.part.hasMsg, SeqSet(f.part.msg), f.part.hasMeta, SeqSet(f.part.meta))
ObsPartialAll == {PartOf(E.frames[i]) : i \in {j \in DOMAIN E.frames : E.frames[j].part.present}}
\* what this step has to explain: everything but the late arrivals of earlier steps
ObsPartial == ObsPartialAll \ N.pend
NPartialFrames == Cardinality({j \in DOMAIN E.frames : E.frames[j].part.present /\ PartOf(E.frames[j]) \notin N.pend})
ObsCBs == ObsCB
ObsHasState(p) == (\E i \in DOMAIN E.groups : \E j \in DOMAIN E.groups[i].ps : E.groups[i].ps[j].p = p)
                  \/ (\E i \in DOMAIN E.ctr : \E j \in DOMAIN E.ctr[i].per : E.ctr[i].per[j].p = p /\ E.ctr[i].per[j].n > 0)
RefHasState(s, p) == (\E x \in TG : At(s, x).live /\ At(s, x).ps[p].has) \/ (\E t \in Topics : Counted(s, t, p) # {})

(* ---------------------------------------------------------------- the extension object inside the node *)
\* 1. a partial RPC from a peer whose handshake allows it
\* MAY: both sides advertised the extension; MUST: and the handshake is complete in both directions on /meshsub/1.3.0 streams
\* (in between - a peer on an older protocol that advertised the extension, no outbound stream at the moment - either is
\* accepted and the reference follows the node; the state such an RPC leaves behind is judged by X04.k)
InCB == \E c \in ObsCBs : c.k = "in" /\ c.from = E.p /\ c.t = E.xpart.t /\ c.g = E.xpart.g
MayDispatch == E.sends /\ E.xpart.present /\ N.inOpen[E.p] /\ N.my.partial /\ HasExt(N1, E.p)
MustDispatch == MayDispatch /\ N1.proto[E.p] = V13 /\ N.up[E.p] /\ N1.up[E.p]
Dispatch == MayDispatch /\ (MustDispatch \/ InCB)
NodeDecision == IF InCB \/ S.g[E.xpart.t][E.xpart.g].live THEN "" ELSE "dropped"
R1 == IF Dispatch /\ E.xpart.t \in Topics /\ E.xpart.g \in Groups
        THEN RpcOp(S, E.p, E.xpart.t, E.xpart.g, E.xpart.hasMeta, SeqSet(E.xpart.meta), E.xpart.hasMsg, FALSE, NodeDecision)
        ELSE Res(S, {}, {}, NoRet, NoGh)
\* 2. the application publishes
PubMesh == MeshIdeal(E.t) \cup {p \in MeshExtra(E.t) : ObsHasState(p) \/ \E f \in SeqSet(E.frames) : f.p = p /\ f.part.present}
R2(s) == IF E.a = "ppub" /\ N.my.partial
           THEN PubOp([s EXCEPT !.mesh[E.t] = PubMesh, !.req = ReqSet(N)], E.t, E.g, SeqSet(E.parts), {})
           ELSE Res(s, {}, {}, NoRet, NoGh)
\* 3. closed outbound streams
Closers == {p \in Peers : DownsOf(p) > 0}
Leftover(p) == RefHasState(S, p) /\ ObsHasState(p)
RECURSIVE CloseAll(_, _)
CloseAll(s, ps) == IF ps = {} THEN s ELSE LET p == CHOOSE q \in ps : TRUE IN CloseAll(CloseOp(s, p).S, ps \ {p})
R3(s) == CloseAll(s, {p \in Closers : ~Leftover(p)})
\* 4. a router heartbeat: gossip for every topic with a mesh or a fanout, then the extension's heartbeat
GossipCands(t) == {p \in MeshOf(E.tpeers, t) \ (MeshOf(E.mesh, t) \cup MeshOf(E.fanout, t)) : MeshCapable(N1.proto[p]) /\ N1.up[p]}
GossipIdeal(t) == {p \in GossipCands(t) : Suppressed(N1, E.joined, p, t) /\ HasExt(N1, p)}
GossipExtra(t) == {p \in GossipCands(t) : Suppressed(N1, E.joined, p, t) /\ ~HasExt(N1, p)}
GossipObs(t) == UNION {SeqSet(c.ps) : c \in {d \in ObsCBs : d.k = "gossip" /\ d.t = t}}
GossipUsed(t) == GossipIdeal(t) \cup (GossipExtra(t) \cap (GossipObs(t) \cup {p \in Peers : \E g \in Groups : ObsG(t, g).live /\ ObsG(t, g).ps[p].has}))
GossipTopics == {t \in Topics : t \in SeqSet(E.joined) \/ MeshOf(E.fanout, t) # {}}
RECURSIVE GossipAll(_, _)
GossipAll(r, ts) ==
    IF ts = {} THEN r
    ELSE LET t  == CHOOSE u \in ts : TRUE
             r1 == GossipOp([r.S EXCEPT !.mesh[t] = {p \in MeshOf(E.mesh, t) : HasExt(N1, p) /\ Fits(N1, E.joined, p, t)}
                                                     \cup {p \in MeshOf(E.mesh, t) : ~HasExt(N1, p) /\ Suppressed(N1, E.joined, p, t) /\ \E g \in Groups : ObsG(t, g).live /\ ObsG(t, g).ps[p].has},
                                         !.req = ReqSet(N1)], t, SetSeq(GossipUsed(t)))
         IN  GossipAll(Res(r1.S, r.sent \cup r1.sent, r.cb \cup r1.cb, NoRet, NoGh), ts \ {t})
R4(s) == IF E.a = "hb" /\ E.hb = 1 /\ N.my.partial
           THEN LET r == GossipAll(Res(s, {}, {}, NoRet, NoGh), GossipTopics)
                    h == HbOp(r.S)
                IN  Res(h.S, r.sent, r.cb, NoRet, h.gh)
           ELSE Res(s, {}, {}, NoRet, NoGh)

\* the gossip callbacks name their peers in Go's map order: compare them as sets
CBSet(c) == [c EXCEPT !.ps = SetSeq(SeqSet(@))]

(* ---------------------------------------------------------------- checks *)
NViol(pred, kind, t, g, p, obs, exp) == Viol(pred, kind, t, g, p, obs, exp)

\* g: the extensions control message on the node's outbound streams
CheckOut ==
    /\ \A p \in Peers :
         LET F == Frames(p)
             nExt == Cardinality({i \in DOMAIN F : F[i].ext.present})
             want == N1.proto[p] = V13 /\ (N.my.partial \/ N.my.test)
             nWant == IF want THEN UpsOf(p) ELSE 0
         IN  /\ nExt < nWant => NViol("P_X04_g", "ext-missing-in-hello", "", "", p, nExt, nWant)
             /\ nExt > nWant => NViol("P_X04_g", IF N1.proto[p] # V13 THEN "ext-to-old-protocol" ELSE "ext-repeated", "", "", p, nExt, nWant)
             /\ (want /\ UpsOf(p) = 1 /\ DownsOf(p) = 0 /\ F # <<>> /\ nExt = 1 /\ ~F[1].ext.present) => NViol("P_X04_g", "ext-not-first", "", "", p, 0, 0)
             /\ \A i \in DOMAIN F : (F[i].ext.present /\ (F[i].ext.partial # N.my.partial \/ F[i].ext.test # N.my.test)) =>
                                       NViol("P_X04_g", "ext-flags", "", "", p, 0, 0)
             /\ \A i \in DOMAIN F : (F[i].part.present /\ ~HasExt(N1, p) /\ ~HasExt(N, p)) =>
                    NViol("P_X04_g", IF \E t \in Topics : Suppressed(N, E.prejoined, p, t) \/ Suppressed(N1, E.joined, p, t)
                                       THEN "as-found-requests-partial-without-extension"
                                     \* state of an earlier connection that X04-F3 left behind: the application is still offered the peer
                                     ELSE IF F[i].part.t \in Topics /\ F[i].part.g \in Groups /\ S.g[F[i].part.t][F[i].part.g].ps[p].has
                                       THEN "as-found-rpc-from-leftover-state" ELSE "partial-rpc-to-peer-without-extension",
                          F[i].part.t, F[i].part.g, p, 0, 0)
             /\ \A i \in DOMAIN F : (F[i].testx /\ ~(N.my.test /\ (N1.rec[p].test \/ N.rec[p].test))) =>
                                       NViol("P_X04_g", "test-rpc-to-peer-without-extension", "", "", p, 0, 0)
    /\ LET exp == {p \in Peers : N1.up[p] /\ N1.proto[p] = V13}
           obs == SeqSet(E.sentx)
       IN  /\ \A p \in obs \ exp : NViol("P_X04_g", "sent-record-stale", "", "", p, 0, 0)
           /\ \A p \in exp \ obs : NViol("P_X04_g", "sent-record-missing", "", "", p, 0, 0)
    \* the test extension answers a completed handshake with one TestExtension RPC
    /\ \A p \in Peers :
         LET both(n) == N.my.test /\ n.rec[p].test
             comp == IF N1.proto[p] # V13 THEN 0
                     ELSE (IF FirstNow /\ E.p = p /\ N1.up[p] /\ both(N1) THEN 1 ELSE 0)
                          + (IF N.rec[p].has /\ p \notin InClosedNow /\ both(N) THEN UpsOf(p) ELSE 0)
             obs == Cardinality({i \in DOMAIN E.frames : E.frames[i].p = p /\ E.frames[i].testx})
         IN  obs # comp => NViol("P_X04_i", IF obs < comp THEN "test-rpc-missing" ELSE "test-rpc-unexpected", "", "", p, obs, comp)

\* h: the record of the peer's first RPC, the misbehaviour report
CheckIn ==
    /\ \A p \in Peers :
         LET x == N1.rec[p]
             idx == {i \in DOMAIN E.recs : E.recs[i].p = p}
             o == IF idx = {} THEN NoRec ELSE LET r == E.recs[CHOOSE i \in idx : TRUE] IN [has |-> TRUE, partial |-> r.partial, test |-> r.test]
         IN  /\ (x.has /\ ~o.has) => NViol("P_X04_h", "record-missing", "", "", p, 0, 0)
             /\ (~x.has /\ o.has) => NViol("P_X04_h", IF ~N1.inOpen[p] THEN "record-after-close" ELSE "record-before-first-rpc", "", "", p, 0, 0)
             /\ (x.has /\ o.has /\ x # o) =>
                   NViol("P_X04_h", IF Misbehaves /\ E.p = p /\ o = RecOf(E.xext) THEN "record-overwritten" ELSE "record-wrong", "", "", p, 0, 0)
    /\ \A i \in DOMAIN E.pen :
         LET p == E.pen[i].p
             pre == {j \in DOMAIN E.prepen : E.prepen[j].p = p}
             d == IF Misbehaves /\ E.p = p THEN 10 ELSE 0
         IN  (pre # {} /\ p \in Peers) =>
               LET was == E.prepen[CHOOSE j \in pre : TRUE].n
               IN  E.pen[i].n # was + d =>
                     NViol("P_X04_h", IF E.pen[i].n < was + d THEN "misbehaviour-not-reported" ELSE IF d > 0 THEN "misbehaviour-reported-twice" ELSE "penalty-unexpected",
                           "", "", p, E.pen[i].n, was + d)

\* i: dispatch of the extension RPCs
CheckDispatch ==
    /\ (E.sends /\ E.xpart.present) =>
         /\ (MustDispatch /\ ~InCB /\ E.xpart.t \in Topics /\ E.xpart.g \in Groups) =>
               LET dT == IF S.g[E.xpart.t][E.xpart.g].live THEN "" ELSE DecisionTrue(S, E.xpart.t, E.p)
                   dA == IF S.g[E.xpart.t][E.xpart.g].live THEN "" ELSE Decision(S, E.xpart.t, E.p)
               IN  dT = "" => NViol("P_X04_i", IF dA # "" THEN "as-found-drift-drop" ELSE "rpc-not-dispatched", E.xpart.t, E.xpart.g, E.p, 0, 0)
         /\ (Dispatch /\ InCB /\ E.xpart.t \in Topics /\ E.xpart.g \in Groups /\ ~S.g[E.xpart.t][E.xpart.g].live) =>
               LET dT == DecisionTrue(S, E.xpart.t, E.p)
                   dS == DecisionStrict(S, E.xpart.t, E.p)
               IN  /\ dT # "" => NViol("P_X04_c", IF Decision(S, E.xpart.t, E.p) = "" THEN "as-found-drift-accept" ELSE "accepted-beyond-limit",
                                       E.xpart.t, E.xpart.g, E.p, "", dT)
                   /\ (dT = "" /\ dS # "") => NViol("P_X04_c", "as-found-limit-reset-on-close", E.xpart.t, E.xpart.g, E.p, "", dS)
         /\ (~MayDispatch /\ InCB) =>
               NViol("P_X04_i", IF ~N.my.partial THEN "dispatched-without-local-extension" ELSE "dispatched-without-handshake", E.xpart.t, E.xpart.g, E.p, 0, 0)
    /\ \A i \in DOMAIN E.testrecv :
         LET p == E.testrecv[i]
         IN  ~(N.my.test /\ p \in Peers /\ N1.rec[p].test) => NViol("P_X04_i", "test-callback-without-handshake", "", "", p, 0, 0)
    /\ (E.sends /\ E.xtest /\ N.inOpen[E.p] /\ N.my.test /\ N1.rec[E.p].test /\ E.p \notin SeqSet(E.testrecv)) =>
         NViol("P_X04_i", "test-rpc-not-dispatched", "", "", E.p, 0, 0)
    \* the code as found calls the test extension for EVERY RPC of such a peer, with or without a TestExtension message (X04-F7)
    /\ \A i \in DOMAIN E.testrecv :
         (N.my.test /\ E.testrecv[i] \in Peers /\ N1.rec[E.testrecv[i]].test /\ ~(E.sends /\ E.p = E.testrecv[i] /\ E.xtest)) =>
             NViol("P_X04_i", "as-found-test-callback-without-test-rpc", "", "", E.testrecv[i], 0, 0)

\* j: a peer that requested partial messages gets no full message, no IHAVE and (when the node requests them too) no IDONTWANT
MsgTo(p, m) == \E f \in SeqSet(E.frames) : f.p = p /\ \E k \in DOMAIN f.msgs : f.msgs[k].m = m
CheckSuppress ==
    /\ \A f \in SeqSet(E.frames) :
         /\ \A k \in DOMAIN f.msgs : (f.msgs[k].t \in Topics /\ PartialPeer(N, E.prejoined, f.p, f.msgs[k].t) /\ PartialPeer(N1, E.joined, f.p, f.msgs[k].t)) =>
               NViol("P_X04_j", "full-message-to-partial-peer", f.msgs[k].t, "", f.p, 0, 0)
         /\ \A k \in DOMAIN f.ihave : (f.ihave[k] \in Topics /\ PartialPeer(N, E.prejoined, f.p, f.ihave[k]) /\ PartialPeer(N1, E.joined, f.p, f.ihave[k])) =>
               NViol("P_X04_j", "ihave-to-partial-peer", f.ihave[k], "", f.p, 0, 0)
         /\ (E.a = "msg" /\ f.idw > 0 /\ E.t \in Topics /\ MyReq(E.prejoined, E.t) /\ PeerSup(N, f.p, E.t) /\ HasExt(N, f.p)) =>
               NViol("P_X04_j", "idontwant-to-partial-peer", E.t, "", f.p, 0, 0)
    \* ... and everybody else is served as usual
    /\ (E.a \in {"publish", "msg"} /\ E.t \in Topics /\ E.served) =>
         LET flood == {p \in MeshOf(E.pretpeers, E.t) : N.proto[p] = "/floodsub/1.0.0"}
             must == (IF E.a = "publish" /\ N.flood THEN MeshOf(E.pretpeers, E.t) ELSE MeshOf(E.premesh, E.t) \cup flood) \ {Sender}
         IN  \A p \in must : (N.up[p] /\ N1.up[p] /\ ~Suppressed(N, E.prejoined, p, E.t) /\ ~MsgTo(p, E.m)) =>
                                NViol("P_X04_j", "full-message-withheld", E.t, "", p, 0, 0)
    \* the flags the node recorded for the peers' subscriptions
    /\ \A s \in N1.subs :
         LET o == {i \in DOMAIN E.flags : E.flags[i].t = s.t /\ E.flags[i].p = s.p}
         IN  (N.my.partial /\ o # {}) =>
               LET f == E.flags[CHOOSE i \in o : TRUE]
               IN  (f.req # s.req \/ f.sup # s.sup) => NViol("P_X04_j", "flags-recorded-wrong", s.t, "", s.p, 0, 0)

\* k: the extension's bookkeeping in the node follows the node's events
CheckWiring(r2, r4, s3) ==
    \* the application's publish
    /\ E.a = "ppub" =>
         IF N.my.partial
           THEN /\ \A p \in PubMesh \ MeshIdeal(E.t) : NViol("P_X04_k", "as-found-requests-partial-without-extension", E.t, E.g, p, 0, 0)
                /\ \A a \in ObsPartial \ r2.sent :
                      NViol("P_X04_k", IF a.hasMsg /\ <<a.p, a.t>> \notin ReqSet(N) THEN "msg-to-non-requester"
                                       ELSE IF \E b \in r2.sent : b.p = a.p THEN "rpc-content" ELSE "rpc-unexpected", a.t, a.g, a.p, 0, 0)
                \* (an RPC for a peer without an outbound stream - state left behind by X04-F3 - goes nowhere)
                /\ \A b \in r2.sent \ ObsPartial : N.up[b.p] => NViol("P_X04_k", IF \E a \in ObsPartial : a.p = b.p THEN "rpc-content" ELSE "rpc-missing", b.t, b.g, b.p, 0, 0)
                /\ NPartialFrames # Cardinality(ObsPartial) => NViol("P_X04_k", "rpc-twice", E.t, E.g, "", 0, 0)
                /\ E.ret.k # "" => NViol("P_X04_k", "publish-error", E.t, E.g, "", 0, 0)
                /\ {CBSet(c) : c \in ObsCBs} # {CBSet(c) : c \in r2.cb} => NViol("P_X04_k", "states-offered", E.t, E.g, "", 0, 0)
           ELSE /\ E.ret.k # "not-enabled" => NViol("P_X04_k", "publish-without-extension", E.t, E.g, "", 0, 0)
                /\ ObsPartial # {} => NViol("P_X04_k", "rpc-unexpected", E.t, E.g, "", 0, 0)
    \* the router heartbeat
    /\ ((E.a = "hb" /\ E.hb # 1) \/ (E.a # "hb" /\ E.hb # 0)) => Drift("heartbeat-inside-step")
    /\ (E.a = "hb" /\ E.hb = 1 /\ N.my.partial) =>
         /\ \A t \in GossipTopics : Cardinality(GossipCands(t)) > 2 => Drift("gossip-choice")
         /\ \A t \in GossipTopics : \A p \in GossipUsed(t) \ GossipIdeal(t) :
               (\E c \in ObsCBs : c.k = "gossip" /\ c.t = t /\ p \in SeqSet(c.ps)) =>
                   NViol("P_X04_k", "as-found-requests-partial-without-extension", t, "", p, 0, 0)
         /\ LET o == {CBSet(c) : c \in {d \in ObsCBs : d.k = "gossip"}}
                x == {CBSet(c) : c \in {d \in r4.cb : d.k = "gossip"}}
            IN  /\ \A c \in o \ x : NViol("P_X04_k", IF \E d \in x : d.t = c.t /\ d.g = c.g THEN "gossip-peers" ELSE "gossip-unexpected", c.t, c.g, "", 0, 0)
                /\ \A d \in x \ o : (~\E c \in o : d.t = c.t /\ d.g = c.g) => NViol("P_X04_k", "gossip-missing", d.t, d.g, "", 0, 0)
         /\ \A a \in ObsPartial \ r4.sent : NViol("P_X04_k", IF \E b \in r4.sent : b.p = a.p /\ b.g = a.g THEN "gossip-rpc-content" ELSE "gossip-rpc-unexpected", a.t, a.g, a.p, 0, 0)
         /\ \A b \in r4.sent \ ObsPartial : (N1.up[b.p] /\ ~\E a \in ObsPartial : b.p = a.p /\ b.g = a.g) => NViol("P_X04_k", "gossip-rpc-missing", b.t, b.g, b.p, 0, 0)
    \* closed outbound streams
    /\ \A p \in Closers : Leftover(p) =>
         NViol("P_X04_k", IF ~N1.inOpen[p] THEN "as-found-inbound-closed-first"
                          ELSE IF N.proto[p] # V13 THEN "as-found-old-protocol-peer-not-closed"
                          ELSE IF ~HasExt(N, p) THEN "as-found-requests-partial-without-extension" ELSE "state-after-close", "", "", p, 0, 0)
    \* a partial RPC dispatched while the node has no outbound stream to the peer creates state that no stream event removes
    /\ (Dispatch /\ InCB /\ ~N.up[E.p] /\ ~N1.up[E.p]) => NViol("P_X04_k", "as-found-state-without-outbound-stream", E.xpart.t, E.xpart.g, E.p, 0, 0)
    \* no partial RPC leaves the node in any other kind of step, no callback runs
    /\ (E.a \notin {"ppub", "hb"} /\ ObsPartial # {}) => NViol("P_X04_k", "rpc-unexpected", "", "", "", 0, 0)
    /\ (E.a \notin {"ppub", "hb"} /\ ~(E.sends /\ E.xpart.present) /\ E.cb # <<>>) => NViol("P_X04_k", "callback-unexpected", "", "", "", 0, 0)
    /\ (~N.my.partial /\ (E.groups # <<>> \/ E.cb # <<>>)) => NViol("P_X04_k", "state-without-extension", "", "", "", 0, 0)

NTags(r1, r2, r4) ==
    LET tag(c, s) == IF c THEN {s} ELSE {}
        anyUp13 == \E i \in DOMAIN E.evo : E.evo[i].k = "Up" /\ E.evo[i].proto = V13
    IN  tag(anyUp13 /\ (N.my.partial \/ N.my.test), "hello-with-ext") \cup tag(anyUp13 /\ ~(N.my.partial \/ N.my.test), "hello-v13-no-local-ext")
        \cup tag(\E i \in DOMAIN E.evo : E.evo[i].k = "Up" /\ E.evo[i].proto # V13 /\ MeshCapable(E.evo[i].proto), "hello-old-protocol")
        \cup tag(\E p \in Peers : UpsOf(p) > 0 /\ N.rec[p].has /\ p \notin InClosedNow, "outbound-reopened-record-kept")
        \cup tag(FirstNow /\ E.xext.present /\ E.xext.partial, "first-rpc-advertises-partial") \cup tag(FirstNow /\ ~E.xext.present, "first-rpc-without-ext")
        \cup tag(FirstNow /\ E.xext.present /\ E.xext.test, "first-rpc-advertises-test")
        \cup tag(FirstNow /\ N1.proto[E.p] # V13, "first-rpc-old-protocol")
        \cup tag(Misbehaves, "second-ext-message") \cup tag(Misbehaves /\ RecOf(E.xext) # N.rec[E.p], "second-ext-message-differs")
        \cup tag(InClosedNow # {} /\ \E p \in InClosedNow : N.rec[p].has, "inbound-closed-record-dropped")
        \cup tag(E.a \in {"peer", "openOut"} /\ E.p \in Peers /\ N.proto[E.p] # "", "peer-reconnected")
        \cup tag(Dispatch /\ InCB, "partial-rpc-dispatched") \cup tag(E.sends /\ E.xpart.present /\ ~Dispatch /\ N.my.partial /\ N1.rec[E.p].has, "partial-rpc-from-peer-without-ext")
        \cup tag(E.sends /\ E.xpart.present /\ ~N.my.partial /\ HasExt(N1, E.p), "partial-rpc-without-local-ext")
        \cup tag(E.sends /\ E.xpart.present /\ FirstNow, "partial-rpc-in-first-rpc")
        \cup tag(Dispatch /\ ~InCB /\ ~S.g[E.xpart.t][E.xpart.g].live, "partial-rpc-over-limit")
        \cup tag(E.sends /\ E.xtest /\ E.p \in SeqSet(E.testrecv), "test-rpc-dispatched") \cup tag(E.sends /\ E.xtest /\ E.p \notin SeqSet(E.testrecv), "test-rpc-ignored")
        \cup tag(\E i \in DOMAIN E.frames : E.frames[i].testx, "test-rpc-sent")
        \cup tag(E.a = "ppub" /\ r2.sent # {}, "publish-partial-sent") \cup tag(E.a = "ppub" /\ ~N.my.partial, "publish-partial-not-enabled")
        \cup tag(E.a = "ppub" /\ \E x \in r2.sent : x.hasMsg, "publish-partial-with-message") \cup tag(E.a = "ppub" /\ \E x \in r2.sent : ~x.hasMsg, "publish-partial-metadata-only")
        \cup tag(E.a = "ppub" /\ \E p \in BasePeers(E.t) : p \notin PubMesh /\ N.rec[p].has, "mesh-peer-excluded-from-partial")
        \cup tag(E.a = "ppub" /\ PubMesh # MeshIdeal(E.t), "partial-to-peer-without-ext-seen")
        \cup tag(E.a = "ppub" /\ N.my.partial /\ MeshExtra(E.t) # {}, "requester-without-ext-in-mesh")
        \cup tag(E.a = "ppub" /\ \E p \in MeshIdeal(E.t) : ~PeerReq(N, p, E.t), "supporter-gets-metadata")
        \cup tag(E.a = "hb" /\ E.hb = 1 /\ \E c \in r4.cb : c.k = "gossip", "gossip-wired") \cup tag(E.a = "hb" /\ r4.sent # {}, "gossip-rpc-sent")
        \cup tag(E.a = "hb" /\ E.hb = 1 /\ r4.gh.del # {}, "expiry-wired") \cup tag(E.a = "hb" /\ E.hb = 1 /\ \E x \in TG : At(r4.S, x).live, "ttl-countdown-wired")
        \cup tag(Dispatch /\ InCB /\ ~N.up[E.p] /\ ~N1.up[E.p], "state-without-outbound-stream-seen")
        \cup tag(MayDispatch /\ ~N.up[E.p] /\ ~N1.up[E.p], "partial-rpc-without-outbound-stream")
        \cup tag(MayDispatch /\ N1.proto[E.p] # V13, "partial-rpc-from-old-protocol-peer-with-ext")
        \cup tag(\E p \in Closers : RefHasState(S, p) /\ ~N1.inOpen[p], "outbound-closed-after-inbound")
        \cup tag(\E p \in Closers : RefHasState(S, p) /\ N1.inOpen[p], "outbound-closed-inbound-alive")
        \cup tag(\E p \in Closers : RefHasState(S, p) /\ ~ObsHasState(p), "close-wired") \cup tag(\E p \in Closers : Leftover(p), "close-leak-seen")
        \cup tag(E.a \in {"publish", "msg"} /\ E.t \in Topics /\ \E p \in MeshOf(E.pretpeers, E.t) : N.up[p] /\ Suppressed(N, E.prejoined, p, E.t) /\ ~MsgTo(p, E.m), "full-message-suppressed")
        \cup tag(E.a \in {"publish", "msg"} /\ \E p \in Peers : MsgTo(p, E.m), "full-message-sent")
        \cup tag(E.a \in {"publish", "msg"} /\ E.t \in Topics /\ \E p \in Peers : MsgTo(p, E.m) /\ \E s \in N.subs : s.p = p /\ s.t = E.t /\ s.req, "requester-served-because-node-does-not-support")
        \cup tag(\E f \in SeqSet(E.frames) : f.ihave # <<>>, "ihave-sent") \cup tag(\E f \in SeqSet(E.frames) : f.idw > 0, "idontwant-sent")
        \cup tag(E.a = "msg" /\ E.t \in Topics /\ \E p \in MeshOf(E.premesh, E.t) : p # E.p /\ MyReq(E.prejoined, E.t) /\ PeerSup(N, p, E.t)
                                  /\ ~\E f \in SeqSet(E.frames) : f.p = p /\ f.idw > 0, "idontwant-suppressed")

NStep == /\ E.e = "step"
         /\ LET r1 == R1
                r2 == R2(r1.S)
                s3 == R3(r2.S)
                r4 == R4(s3)
            IN  /\ CheckOut /\ CheckIn /\ CheckDispatch /\ CheckSuppress /\ CheckWiring(r2, r4, s3)
                /\ CheckGroups(r4) /\ CheckCounters(r4)
                /\ PrintT(<<"NSTEP", ToJson([scn |-> E.scn, i |-> E.i, a |-> E.a, tags |-> NTags(r1, r2, r4)])>>)
                /\ S' = r4.S
                /\ N' = [N1 EXCEPT !.pend = {b \in (N.pend \ ObsPartialAll) \cup {c \in (r2.sent \cup r4.sent) \ ObsPartialAll : ~N.up[c.p] \/ ~N1.up[c.p]} :
                                                 ~(E.a = "down" /\ E.p = b.p)}]
         /\ UNCHANGED <<out, hist>>

NReset == /\ E.e = "reset"
          /\ S' = S0([ttl |-> E.ttl, limT |-> E.limT, limP |-> E.limP, eager |-> E.eager, regossip |-> E.regossip, sloppy |-> E.sloppy])
          /\ N' = [N0 EXCEPT !.my = [partial |-> E.partial, test |-> E.test], !.flood = E.flood,
                             !.modes = [t \in Topics |-> IF \E i \in DOMAIN E.modes : E.modes[i].t = t
                                                           THEN E.modes[CHOOSE i \in DOMAIN E.modes : E.modes[i].t = t].mode ELSE "none"]]
          /\ UNCHANGED <<out, hist>>

NInit == TLCSet(1, 0) /\ l = 1 /\ S = S0(Cfg0) /\ out = Out0 /\ hist = <<>> /\ N = N0
NNext == l <= Len(Trace) /\ (NReset \/ NStep) /\ l' = l + 1
NodeTraceSpec == NInit /\ [][NNext]_nvars
=============================================================================
