\* MUST FAIL (P_X06_c3): discoverLoop never clears `ongoing` (one of the eleven seeded deviations, see MUST_FAIL in x06.py)
SPECIFICATION Spec
CONSTANTS
  Topics = {"t1"}
  MaxRef = 1
  QCap = 2
  Callers = {"b1"}
  Parts = {"poll"}
  DevStopIgnoresRelay = FALSE
  DevNoCancel = FALSE
  DevNoAdvGuard = FALSE
  DevNoDedup = FALSE
  DevNoOngoingDelete = TRUE
  DevPollIgnoresEnough = FALSE
  DevIgnoreBootstrapResult = FALSE
  DevUnbufferedDone = FALSE
  DevBareSend = FALSE
  DevRetryZero = FALSE
  SvcZeroTTL = FALSE
PROPERTY P_X06_c3
CHECK_DEADLOCK FALSE
