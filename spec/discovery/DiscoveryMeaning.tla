-------------------------- MODULE DiscoveryMeaning --------------------------
(* X06 - pure operators that say what the numbers of the discovery pipeline mean (no variables): the delays and
   constants of /repo/discovery.go and topic.go and the documented EnoughPeers relations of the three routers.
   Shared by Discovery.tla (model) and DiscoveryTrace.tla (trace specification).                              *)
EXTENDS Naturals

RetryMs == 120000          \* discoveryAdvertiseRetryInterval
FindTimeoutMs == 10000     \* handleDiscovery: context.WithTimeout(ctx, 10 s)
BootSleepMs == 100         \* Bootstrap: t.Reset(100 ms)
NoDiscTickMs == 200        \* Topic.validate without discovery: 200 ms ticker
Prefix == "floodsub:"

\* delay before the next Advertise call, from what the previous one returned
NextAdvDelay(ttl, failed) == IF failed /\ ttl = 0 THEN RetryMs ELSE ttl

Or0(n, dflt) == IF n = 0 THEN dflt ELSE n
\* has: somebody announced the topic (p.topics has the key); fs / rs / mesh: counts
EnoughFlood(has, n, sugg, floodSize) == has /\ n >= Or0(sugg, floodSize)
EnoughRandom(has, fs, rs, sugg, d) == has /\ (fs + rs >= Or0(sugg, d) \/ rs >= d)
EnoughGossip(has, fs, mesh, sugg, dlo, dhi) == has /\ (fs + mesh >= Or0(sugg, dlo) \/ mesh >= dhi)

=============================================================================
