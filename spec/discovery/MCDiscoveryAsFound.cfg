\* MUST FAIL (P_X06_e1): the code as found - Topic.validate drops the result of Bootstrap (finding X06-F1)
SPECIFICATION Spec
CONSTANTS
  Topics = {"t1"}
  MaxRef = 1
  QCap = 2
  Callers = {"b1"}
  Parts = {"boot"}
  DevStopIgnoresRelay = FALSE
  DevNoCancel = FALSE
  DevNoAdvGuard = FALSE
  DevNoDedup = FALSE
  DevNoOngoingDelete = FALSE
  DevPollIgnoresEnough = FALSE
  DevIgnoreBootstrapResult = TRUE
  DevUnbufferedDone = FALSE
  DevBareSend = FALSE
  DevRetryZero = FALSE
  SvcZeroTTL = FALSE
INVARIANT P_X06_e1
CHECK_DEADLOCK FALSE
