--------------------------- MODULE DiscoveryTrace ---------------------------
(* Trace specification for X06.  Every line is one step of a scenario replayed on the real node
   (harness/drivers/x06, projected by bin/lib/props/x06.py):

     a, tp, m, n, to      the stimulus (kind; topic / message name / suggested size / context timeout where it has one)
     t                    virtual ms at the end of the step
     dv                   what the scriptable discovery service, the readiness function, the publish callers, the
                          topic validators and the host wrapper saw, in real order, with virtual time stamps:
                            stim     the instant of the stimulus of this line (events before it belong to the time that passed)
                            adv      Advertise called   (id, g = advertiser = identity of the context, ns, ottl / olim = options applied)
                            advret   Advertise returned (id, g, ttl, err)
                            advctx   the context of advertiser g was cancelled
                            find     FindPeers called   (id, ns, dl = deadline of its context, ottl / olim, peers returned)
                            findend  the channel of search id was closed (or the call failed)
                            dial     host.Connect(p) called (addrs = number of addresses handed over)
                            sample   EnoughPeers(t, 0..7) for every topic, read inside the event loop (kind pre: 100 ms before a poll; end: end of step)
                            ready    the readiness function of publish m was evaluated (res; direct = EnoughPeers(topic, n) at that moment)
                            val      message m entered local validation (= it is being published)
                            pubctx   the context of publish m ended;   pubret  Publish m returned (err)
                            factory  the WithDiscoverConnector factory was called (self = with the node's host)
     alive, census, pend  advertiser ids whose context is live, goroutines of the pipeline by role, publishes not returned
     facts                per topic: has (somebody announced it), subs <<peer, protocol>>, mesh <<peers>> (router snapshot, for X06.f)

   The monitor state is driven by the STIMULI and the OBSERVED calls only (reference counts, joined topics, the
   advertiser of each topic and the instant its next call is due, searches in flight, dial history, publish calls);
   the pure operators of DiscoveryMeaning (NextAdvDelay, Enough..., the constants) give the meaning.  The replay is
   deterministic: there is one behaviour; every failing predicate instance is printed (<<"VIOL", json>>) instead of
   blocking the cursor; <<"DRIFT", json>> lines are notes (ambiguous order at one instant, no verdict).            *)
EXTENDS DiscoveryMeaning, Integers, Sequences, FiniteSets, TLC, Json

CONSTANT Topics

Trace == ndJsonDeserialize("trace.ndjson")

VARIABLES l,    \* cursor
          st,   \* the monitor (record, see S0)
          cf    \* configuration of the scenario (reset line)
tvars == <<l, st, cf>>

E == Trace[l]
SeqSet(q) == {q[i] : i \in DOMAIN q}
EmptyF == [x \in {} |-> 0]
Put(f, k, v) == [x \in DOMAIN f \cup {k} |-> IF x = k THEN v ELSE f[x]]
MeshProtos == {"/meshsub/1.0.0", "/meshsub/1.1.0", "/meshsub/1.2.0", "/meshsub/1.3.0"}

MaxSugg == 7     \* EnoughPeers is sampled for the suggested sizes 0..MaxSugg
NoAdvM == [on |-> FALSE, g |-> 0, due |-> -1, cx |-> -1]
NoFind == [id |-> 0, start |-> -1]
S0 == [subs |-> [t \in Topics |-> 0], relays |-> [t \in Topics |-> 0], joined |-> {},
       adv |-> [t \in Topics |-> NoAdvM], gt |-> EmptyF, deadg |-> {},
       find |-> [t \in Topics |-> NoFind], lastStart |-> [t \in Topics |-> -1], lastEnd |-> [t \in Topics |-> -1], apiAt |-> [t \in Topics |-> -1],
       en |-> [t \in Topics |-> [k \in 1..(MaxSugg + 1) |-> FALSE]], sampled |-> FALSE, apiPre |-> TRUE,
       polled |-> -1, pubs |-> EmptyF, dials |-> EmptyF, exp |-> {},
       shut |-> FALSE, shutAt |-> -1, factory |-> 0, viol |-> {}, drift |-> {}]

V(pred, kind, tp, who, at, obs, ex) == [pred |-> pred, kind |-> kind, tp |-> tp, who |-> who, at |-> at, obs |-> obs, exp |-> ex]
AddV(S, v) == [S EXCEPT !.viol = @ \cup {v}]
AddD(S, v) == [S EXCEPT !.drift = @ \cup {v}]
Chk(S, ok, v) == IF ok THEN S ELSE AddV(S, v)

NsTopic(ns) == IF \E t \in Topics : ns = Prefix \o t THEN CHOOSE t \in Topics : ns = Prefix \o t ELSE "?"
IntOn(S, t) == S.subs[t] + S.relays[t] > 0
OptOK(e) == IF cf.opts THEN e.ottl = cf.optTTL /\ e.olim = cf.optLimit ELSE e.ottl = 0 /\ e.olim = 0
OnGrid(tau) == cf.disc /\ tau >= cf.poll0 /\ (tau - cf.poll0) % cf.pollIv = 0
Running(S) == {m \in DOMAIN S.pubs : S.pubs[m].st = "run"}

(* ---------------------------------------------------------------- poll instants passed (X06.c 3) *)
NextGrid(after) == IF after < cf.poll0 THEN cf.poll0 ELSE after + cf.pollIv - ((after - cf.poll0) % cf.pollIv)
RECURSIVE CatchPolls(_, _)
\* every poll instant tau with S.polled < tau < upto: a joined topic without enough peers has a search in flight or got one at tau
CatchPolls(S, upto) ==
    IF ~cf.disc \/ S.shut THEN S
    ELSE LET tau == NextGrid(S.polled) IN
         IF tau >= upto THEN S
         ELSE LET \* (a search that ended at tau itself may still have been "ongoing" when the poll asked: no verdict)
                  bad == {t \in S.joined : ~S.en[t][1] /\ S.find[t].id = 0 /\ S.lastStart[t] # tau /\ S.lastEnd[t] # tau}
                  S1 == [S EXCEPT !.polled = tau,
                                  !.viol = @ \cup {V("P_X06_c", "starved-not-searched", t, "", tau, 0, 0) : t \in bad}]
              IN  CatchPolls(S1, upto)

\* expectations of dials that belong to an instant that has passed
FlushExp(S, now) ==
    LET old == {x \in S.exp : x.at < now}
    IN  [S EXCEPT !.exp = @ \ old,
                  !.viol = @ \cup {V("P_X06_d", "found-peer-not-dialled", "", x.p, x.at, 0, 0) : x \in {y \in old : y.must}}]

(* ---------------------------------------------------------------- the stimulus of the line *)
StartInterest(S, t, t0) == [S EXCEPT !.adv[t] = [on |-> TRUE, g |-> 0, due |-> t0, cx |-> -1]]
StopInterest(S, t, t0) == [S EXCEPT !.adv[t].on = FALSE, !.adv[t].cx = t0]

Stim(S, t0) ==
    LET a == E.a
        t == E.tp
    IN
    CASE a = "subscribe" ->
           LET S1 == [S EXCEPT !.joined = @ \cup {t}, !.subs[t] = @ + 1, !.apiAt[t] = t0, !.apiPre = S.find[t].id # 0 \/ S.lastEnd[t] = t0]
           IN  IF cf.disc /\ ~IntOn(S, t) THEN StartInterest(S1, t, t0) ELSE S1
      [] a = "relay" ->
           LET S1 == [S EXCEPT !.joined = @ \cup {t}, !.relays[t] = @ + 1, !.apiAt[t] = t0, !.apiPre = S.find[t].id # 0 \/ S.lastEnd[t] = t0]
           IN  IF cf.disc /\ ~IntOn(S, t) THEN StartInterest(S1, t, t0) ELSE S1
      [] a = "cancel" /\ S.subs[t] > 0 ->
           LET S1 == [S EXCEPT !.subs[t] = @ - 1]
           IN  IF cf.disc /\ ~IntOn(S1, t) THEN StopInterest(S1, t, t0) ELSE S1
      [] a = "unrelay" /\ S.relays[t] > 0 ->
           LET S1 == [S EXCEPT !.relays[t] = @ - 1]
           IN  IF cf.disc /\ ~IntOn(S1, t) THEN StopInterest(S1, t, t0) ELSE S1
      [] a = "join" -> [S EXCEPT !.joined = @ \cup {t}]
      \* (the driver skips Topic.Close while a publish on the topic is pending: Close would block on the topic's lock)
      [] a = "closeTopic" /\ ~IntOn(S, t) /\ {m \in Running(S) : S.pubs[m].t = t} = {} -> [S EXCEPT !.joined = @ \ {t}]
      [] a = "pub" ->
           [S EXCEPT !.joined = @ \cup {t},
                     !.pubs = Put(@, E.m, [t |-> t, n |-> E.n, start |-> t0, st |-> "run", last |-> -1, lastRes |-> FALSE,
                                           dl |-> IF E.to > 0 THEN t0 + E.to ELSE -1, ctxEnd |-> -1, cands |-> {t0}, waitId |-> 0,
                                           readyAt |-> -1, published |-> FALSE])]
      [] a = "cancelpub" /\ E.m \in Running(S) /\ S.pubs[E.m].ctxEnd = -1 -> [S EXCEPT !.pubs[E.m].ctxEnd = t0]
      [] a \in {"shutdown", "end"} /\ ~S.shut ->
           [S EXCEPT !.shut = TRUE, !.shutAt = t0,
                     !.adv = [x \in Topics |-> IF @[x].on THEN [@[x] EXCEPT !.on = FALSE, !.cx = t0] ELSE @[x]]]
      [] OTHER -> S

(* ---------------------------------------------------------------- one observed event *)
EvAdv(S, e) ==
    LET t == NsTopic(e.ns) IN
    IF t = "?" THEN AddV(S, V("P_X06_b", "namespace", "", e.ns, e.t, 0, 0))
    ELSE
    LET A  == S.adv[t]
        S1 == Chk(S, OptOK(e), V("P_X06_b", "advertise-options", t, "", e.t, e.ottl, e.olim))
        S2 == Chk(S1, ~(S.shut /\ e.t > S.shutAt), V("P_X06_h", "advertise-after-shutdown", t, "", e.t, 0, 0))
    IN  IF e.g \notin DOMAIN S.gt
          THEN \* the first call of a new advertising goroutine
               LET S3 == [S2 EXCEPT !.gt = Put(@, e.g, t)] IN
               IF A.on /\ A.g = 0
                 THEN Chk([S3 EXCEPT !.adv[t].g = e.g, !.adv[t].due = -1], e.t = A.due,
                          V("P_X06_b", "first-advertise-not-at-start", t, "", e.t, e.t, A.due))
                 ELSE AddV(S3, V("P_X06_a", IF A.on THEN "second-advertiser" ELSE "advertiser-without-interest", t, "", e.t, e.g, A.g))
        ELSE IF e.g = A.g /\ A.on
          THEN Chk([S2 EXCEPT !.adv[t].due = -1], e.t = A.due,
                   V("P_X06_b", IF A.due = -1 THEN "advertise-overlaps" ELSE IF e.t < A.due THEN "advertise-early" ELSE "advertise-late",
                     t, "", e.t, e.t, A.due))
        ELSE IF e.g = A.g /\ A.cx = e.t
          THEN AddD(S2, V("P_X06_b", "advertise-at-cancel-instant", t, "", e.t, 0, 0))
        ELSE AddV(S2, V("P_X06_a", "call-from-cancelled-advertiser", t, "", e.t, e.g, A.g))

EvAdvRet(S, e) ==
    LET t == NsTopic(e.ns) IN
    IF t = "?" THEN S
    ELSE IF e.g = S.adv[t].g /\ S.adv[t].on
      THEN LET S1 == [S EXCEPT !.adv[t].due = e.t + NextAdvDelay(e.ttl, e.err # "")]
           IN  IF e.err = "" /\ e.ttl = 0 THEN AddD(S1, V("P_X06_b", "service-returned-zero-ttl", t, "", e.t, 0, 0)) ELSE S1
      ELSE S

EvAdvCtx(S, e) ==
    IF e.g \notin DOMAIN S.gt THEN S
    ELSE LET t == S.gt[e.g]
             A == S.adv[t]
             S1 == [S EXCEPT !.deadg = @ \cup {e.g}]
         IN  IF e.g = A.g /\ ~A.on /\ A.cx = e.t THEN [S1 EXCEPT !.adv[t].g = 0]
             ELSE IF S.shut /\ S.shutAt = e.t THEN S1
             ELSE IF e.g = A.g /\ A.on
               THEN AddV([S1 EXCEPT !.adv[t].g = 0], V("P_X06_a", "cancelled-while-interested", t, "", e.t, e.g, 0))
             ELSE AddV(S1, V("P_X06_a", "late-cancel", t, "", e.t, e.g, A.cx))

DialLaw(S, p, now) ==
    LET known == p \in DOMAIN S.dials
        D == IF known THEN S.dials[p] ELSE [last |-> -1, cnt |-> 0]
        inside == known /\ now < D.last + cf.backoffMs
    IN  [p |-> p, at |-> now, mustnot |-> inside \/ p = "self",
         must |-> p # "self" /\ (~known \/ (~inside /\ (cf.fixed \/ D.cnt <= 2)))]

EvFind(S, e) ==
    LET t == NsTopic(e.ns) IN
    IF t = "?" THEN AddV(S, V("P_X06_c", "namespace", "", e.ns, e.t, 0, 0))
    ELSE
    LET boot == {m \in Running(S) : S.pubs[m].t = t /\ S.pubs[m].last = e.t /\ ~S.pubs[m].lastRes}
        poll == OnGrid(e.t) /\ t \in S.joined /\ ~S.en[t][1]
        just == poll \/ S.apiAt[t] = e.t \/ boot # {}
        kind == IF OnGrid(e.t) /\ t \notin S.joined THEN "search-for-unjoined-topic"
                ELSE IF OnGrid(e.t) THEN "poll-search-with-enough-peers" ELSE "unjustified-search"
        S1 == Chk(S, OptOK(e), V("P_X06_c", "find-options", t, "", e.t, e.ottl, e.olim))
        S2 == Chk(S1, e.dl = e.t + FindTimeoutMs, V("P_X06_c", "find-deadline", t, "", e.t, e.dl - e.t, FindTimeoutMs))
        S3 == Chk(S2, S.find[t].id = 0, V("P_X06_c", "two-searches-in-flight", t, "", e.t, e.id, S.find[t].id))
        S4 == Chk(S3, just, V("P_X06_c", kind, t, "", e.t, 0, 0))
        S5 == Chk(S4, ~S.shut, V("P_X06_h", "find-after-shutdown", t, "", e.t, 0, 0))
        new == {DialLaw(S, p, e.t) : p \in {q \in SeqSet(e.peers) : ~\E x \in S.exp : x.p = q /\ x.at = e.t}}
    IN  [S5 EXCEPT !.find[t] = [id |-> e.id, start |-> e.t], !.lastStart[t] = e.t, !.exp = @ \cup new,
                   !.apiPre = @ \/ (t = E.tp /\ S.apiAt[t] = e.t),
                   \* the search may be the one a waiting publish asked for; when somebody else may have asked at the same instant
                   \* (poll, Subscribe / Relay, another publish) the publish may as well have been answered at once
                   !.pubs = [m \in DOMAIN @ |-> IF m \in boot
                                                   THEN [@[m] EXCEPT !.waitId = e.id,
                                                                     !.cands = IF poll \/ S.apiAt[t] = e.t \/ Cardinality(boot) > 1
                                                                                 THEN @ \cup {e.t + BootSleepMs} ELSE @]
                                                   ELSE @[m]]]

EvFindEnd(S, e) ==
    LET t == NsTopic(e.ns) IN
    IF t = "?" THEN S
    ELSE [S EXCEPT !.find[t] = IF @.id = e.id THEN NoFind ELSE @, !.lastEnd[t] = e.t,
                   !.pubs = [m \in DOMAIN @ |-> IF @[m].st = "run" /\ @[m].waitId = e.id
                                                   THEN [@[m] EXCEPT !.cands = @ \cup {e.t + BootSleepMs}, !.waitId = 0] ELSE @[m]]]

EvDial(S, e) ==
    LET xs == {x \in S.exp : x.p = e.p /\ x.at = e.t}
        D  == IF e.p \in DOMAIN S.dials THEN S.dials[e.p] ELSE [last |-> -1, cnt |-> 0]
        S1 == [S EXCEPT !.dials = Put(@, e.p, [last |-> e.t, cnt |-> D.cnt + 1]), !.exp = @ \ xs]
        S2 == Chk(S1, e.addrs > 0, V("P_X06_d", "addresses-dropped", "", e.p, e.t, e.addrs, 1))
    IN  IF xs = {} THEN AddV(S2, V("P_X06_d", IF e.p = "self" THEN "dial-of-self" ELSE "dial-of-a-peer-no-search-returned", "", e.p, e.t, 0, 0))
        ELSE IF \E x \in xs : x.mustnot
          THEN AddV(S2, V("P_X06_d", IF e.p = "self" THEN "dial-of-self" ELSE "dial-inside-backoff", "", e.p, e.t, e.t - D.last, cf.backoffMs))
        ELSE S2

EvReady(S, e) ==
    IF e.m \notin DOMAIN S.pubs THEN S
    ELSE
    LET P  == S.pubs[e.m]
        t  == P.t
        fl == S.find[t]
        S1 == Chk(S, e.res = e.direct, V("P_X06_f", "min-topic-size", t, e.m, e.t, 0, 0))
        okc == IF cf.disc THEN e.t \in P.cands
               ELSE (IF P.last = -1 THEN e.t = P.start ELSE e.t = P.last + NoDiscTickMs)
        S2 == Chk(S1, okc, V("P_X06_e", IF P.last = -1 THEN "first-evaluation-not-at-call" ELSE "evaluation-cadence", t, e.m, e.t, e.t - P.last, 0))
        S3 == Chk(S2, (P.ctxEnd = -1 \/ e.t <= P.ctxEnd) /\ (P.dl = -1 \/ e.t <= P.dl), V("P_X06_e", "evaluation-after-context-end", t, e.m, e.t, 0, 0))
        \* not ready: a search already in flight answers the request at once (next evaluation 100 ms on); otherwise a
        \* search has to start at this instant (EvFind sets waitId) and the next evaluation is 100 ms after it ends
        \* (a search of the topic that ended at this very instant may still be "ongoing" for discoverLoop: either way)
        c2 == IF e.res \/ ~cf.disc THEN {} ELSE IF fl.id # 0 \/ S.lastEnd[t] = e.t THEN {e.t + BootSleepMs} ELSE {}
        w2 == IF ~e.res /\ cf.disc /\ fl.id # 0 /\ fl.start = e.t THEN fl.id ELSE 0
    IN  [S3 EXCEPT !.pubs[e.m] = [P EXCEPT !.last = e.t, !.lastRes = e.res, !.cands = c2, !.waitId = w2,
                                           !.readyAt = IF e.res THEN e.t ELSE @]]

\* the context of a publish has ended by time t (its cancel was a stimulus, its deadline is known from the call)
Ended(P, t) == P.ctxEnd # -1 \/ (P.dl # -1 /\ t >= P.dl)

EvVal(S, e) ==
    IF e.m \notin DOMAIN S.pubs THEN S
    ELSE LET P == S.pubs[e.m]
             S1 == [S EXCEPT !.pubs[e.m].published = TRUE]
         IN  Chk(S1, P.readyAt = e.t,
                 V("P_X06_e", IF P.readyAt = -1 /\ (Ended(P, e.t) \/ S.shut) THEN "published-after-context-end-without-ready"
                              ELSE IF P.readyAt = -1 THEN "published-without-ready" ELSE "published-late", P.t, e.m, e.t, P.readyAt, P.ctxEnd))

EvPubCtx(S, e) ==
    IF e.m \notin DOMAIN S.pubs THEN S
    ELSE LET P == S.pubs[e.m] IN
         IF P.ctxEnd # -1 THEN S
         ELSE Chk([S EXCEPT !.pubs[e.m].ctxEnd = e.t], P.dl = e.t \/ P.st = "ret" \/ S.shut,
                  V("P_X06_e", "context-ended-unexpectedly", P.t, e.m, e.t, P.dl, 0))

EvPubRet(S, e) ==
    IF e.m \notin DOMAIN S.pubs THEN S
    ELSE LET P == S.pubs[e.m]
             S1 == [S EXCEPT !.pubs[e.m].st = "ret"]
         IN  IF e.err = ""
               THEN Chk(S1, P.published /\ P.readyAt = e.t,
                        V("P_X06_e", IF P.readyAt = -1 /\ (Ended(P, e.t) \/ S.shut) THEN "published-after-context-end-without-ready"
                                     ELSE "returned-nil-without-ready", P.t, e.m, e.t, P.readyAt, P.ctxEnd))
               ELSE LET S2 == Chk(S1, ~P.published, V("P_X06_e", "error-returned-but-published", P.t, e.m, e.t, 0, 0))
                    \* (without discovery a shutdown is noticed at the next tick of the 200 ms ticker)
                    IN  Chk(S2, P.ctxEnd = e.t \/ P.dl = e.t \/ (S.shut /\ S.shutAt = e.t) \/ (~cf.disc /\ S.shut /\ e.t <= S.shutAt + NoDiscTickMs),
                            V("P_X06_e", IF ~Ended(P, e.t) /\ ~S.shut THEN "error-without-context-end" ELSE "error-not-at-context-end",
                              P.t, e.m, e.t, e.t, IF P.ctxEnd # -1 THEN P.ctxEnd ELSE S.shutAt))

NoDisc(S, e) == AddV(S, V("P_X06_g", "service-used-without-discovery", "", e.k, e.t, 0, 0))

ApplyEv(S, e) ==
    LET Sa == FlushExp(CatchPolls(S, e.t), e.t) IN
    CASE e.k = "stim"    -> Stim(Sa, e.t)
      [] e.k = "sample"  -> [Sa EXCEPT !.en = [t \in Topics |-> e.en[t]], !.sampled = TRUE]
      [] e.k \in {"adv", "advret", "advctx", "find", "findend", "dial", "factory"} /\ ~cf.disc -> NoDisc(Sa, e)
      [] e.k = "adv"     -> EvAdv(Sa, e)
      [] e.k = "advret"  -> EvAdvRet(Sa, e)
      [] e.k = "advctx"  -> EvAdvCtx(Sa, e)
      [] e.k = "find"    -> EvFind(Sa, e)
      [] e.k = "findend" -> EvFindEnd(Sa, e)
      [] e.k = "dial"    -> EvDial(Sa, e)
      [] e.k = "ready"   -> EvReady(Sa, e)
      [] e.k = "val"     -> EvVal(Sa, e)
      [] e.k = "pubctx"  -> EvPubCtx(Sa, e)
      [] e.k = "pubret"  -> EvPubRet(Sa, e)
      [] e.k = "factory" -> Chk([Sa EXCEPT !.factory = @ + 1], cf.custom /\ e.self /\ Sa.factory = 0,
                                V("P_X06_d", "connector-factory", "", "", e.t, Sa.factory, 0))
      [] OTHER -> Sa

RECURSIVE FoldEv(_, _, _)
\* (operator arguments are lazy in TLC: the test on S1 forces it, otherwise event k would be evaluated inside event k + 1)
FoldEv(S, evs, i) == IF i > Len(evs) THEN S
                     ELSE LET S1 == ApplyEv(S, evs[i]) IN IF S1.shut \in BOOLEAN THEN FoldEv(S1, evs, i + 1) ELSE S1

(* ---------------------------------------------------------------- end of the step: the quiescent point *)
Count(T) == Cardinality(T)
EndChecks(S) ==
    LET now   == E.t
        alv   == SeqSet(E.alive)
        ofT(t) == {g \in alv : g \in DOMAIN S.gt /\ S.gt[g] = t}
        run   == Running(S)
        nfind == Count({t \in Topics : S.find[t].id # 0})
        pipe  == IF cf.disc /\ ~S.shut THEN 1 ELSE 0
        \* X06.a
        va == UNION {
                 (IF S.adv[t].on /\ ofT(t) = {} THEN {V("P_X06_a", "interest-without-advertiser", t, "", now, 0, 1)} ELSE {})
           \cup (IF S.adv[t].on /\ Count(ofT(t)) > 1 THEN {V("P_X06_a", "two-live-advertisers", t, "", now, Count(ofT(t)), 1)} ELSE {})
           \cup (IF S.adv[t].on /\ Count(ofT(t)) = 1 /\ ofT(t) # {S.adv[t].g} THEN {V("P_X06_a", "wrong-advertiser-alive", t, "", now, 0, 0)} ELSE {})
           \cup (IF ~S.adv[t].on /\ ofT(t) # {} THEN {V(IF S.shut THEN "P_X06_h" ELSE "P_X06_a", "advertiser-alive-without-interest", t, "", now, Count(ofT(t)), 0)} ELSE {})
           \cup (IF S.adv[t].on /\ S.adv[t].due # -1 /\ S.adv[t].due <= now /\ S.adv[t].g # 0
                   THEN {V("P_X06_b", "re-advertise-missed", t, "", now, now, S.adv[t].due)} ELSE {})
                 : t \in Topics}
        nint == Count({t \in Topics : S.adv[t].on})
        vg == (IF E.census.adv # nint THEN {V(IF S.shut THEN "P_X06_h" ELSE IF cf.disc THEN "P_X06_a" ELSE "P_X06_g", "advertising-goroutines", "", "", now, E.census.adv, nint)} ELSE {})
         \cup (IF E.census.poll # pipe \/ E.census.loop # pipe
                 THEN {V(IF S.shut THEN "P_X06_h" ELSE IF cf.disc THEN "P_X06_c" ELSE "P_X06_g", "pipeline-goroutines", "", "", now, E.census.poll + E.census.loop, 2 * pipe)} ELSE {})
         \cup (IF E.census.hd # nfind THEN {V(IF S.shut THEN "P_X06_h" ELSE "P_X06_c", "handleDiscovery-goroutines", "", "", now, E.census.hd, nfind)} ELSE {})
         \cup (IF E.census.boot # (IF cf.disc THEN Count(run) ELSE 0) \/ E.census.pubcall # Count(run)
                 THEN {V(IF S.shut THEN "P_X06_h" ELSE "P_X06_e", "publish-callers", "", "", now, E.census.boot + E.census.pubcall, Count(run))} ELSE {})
        \* X06.e: a publish that has not returned is legitimately waiting
        ve == UNION {
                 LET P == S.pubs[m]
                     waiting == (P.waitId # 0 /\ S.find[P.t].id = P.waitId) \/ \E c \in P.cands : c >= now
                     nodisc  == P.last # -1 /\ now < P.last + NoDiscTickMs
                 IN  IF S.shut /\ ~(~cf.disc /\ nodisc) THEN {V("P_X06_h", "publish-pending-after-shutdown", P.t, m, now, 0, 0)}
                     ELSE IF S.shut THEN {}
                     ELSE IF (P.ctxEnd # -1 /\ P.ctxEnd < now) \/ (P.dl # -1 /\ P.dl < now) THEN {V("P_X06_e", "publish-pending-after-context-end", P.t, m, now, now, P.ctxEnd)}
                     ELSE IF P.lastRes THEN {V("P_X06_e", "publish-pending-after-ready", P.t, m, now, 0, 0)}
                     ELSE IF (cf.disc /\ ~waiting) \/ (~cf.disc /\ ~nodisc) THEN {V("P_X06_e", "bootstrap-stuck", P.t, m, now, P.last, 0)}
                     ELSE {}
                 : m \in run}
        \* X06.c: Subscribe / Relay ask for a search of the topic (Topic.Subscribe / Topic.Relay call Discover first)
        vs == IF cf.disc /\ ~S.shut /\ E.a \in {"subscribe", "relay"} /\ ~S.apiPre
                THEN {V("P_X06_c", "subscribe-without-search", E.tp, "", now, S.lastStart[E.tp], S.apiAt[E.tp])} ELSE {}
        vh == IF S.shut /\ nfind # 0 THEN {V("P_X06_h", "search-in-flight-after-shutdown", "", "", now, nfind, 0)} ELSE {}
        vd == IF E.i = 1 /\ cf.custom /\ S.factory # 1 THEN {V("P_X06_d", "connector-factory", "", "", now, S.factory, 1)} ELSE {}
        \* notes
        dr == (IF SeqSet(E.pend) # run THEN {V("drift", "pending-set", "", "", now, 0, 0)} ELSE {})
    IN  [S EXCEPT !.viol = @ \cup va \cup vg \cup ve \cup vh \cup vd \cup vs, !.drift = @ \cup dr]

\* X06.f on the snapshot of the quiescent point
FactOf(t) == CHOOSE f \in SeqSet(E.facts) : f.t = t
Relation(S) ==
    IF E.dead \/ ~S.sampled THEN {}
    ELSE UNION {
      LET f  == FactOf(t)
          ps == SeqSet(f.subs)
          np == Count(ps)
          fsG == Count({x \in ps : x[2] \notin MeshProtos})
          fsR == Count({x \in ps : x[2] = "/floodsub/1.0.0"})
          rsR == Count({x \in ps : x[2] = "/randomsub/1.0.0"})
          me == Count(SeqSet(f.mesh))
          ex(n) == CASE cf.router = "floodsub"  -> EnoughFlood(f.has, np, n, cf.FloodSize)
                     [] cf.router = "randomsub" -> EnoughRandom(f.has, fsR, rsR, n, cf.RandomSubD)
                     [] OTHER                   -> EnoughGossip(f.has, fsG, me, n, cf.Dlo, cf.Dhi)
      IN  {V("P_X06_f", "enough-peers-relation", t, "", E.t, n, IF ex(n) THEN 1 ELSE 0) : n \in {k \in 0..MaxSugg : S.en[t][k + 1] # ex(k)}}
      : t \in Topics}

Report(tag, v) == PrintT(<<tag, ToJson([pred |-> v.pred, kind |-> v.kind, scn |-> E.scn, i |-> E.i, a |-> E.a, tp |-> v.tp,
                                        who |-> v.who, at |-> v.at, obs |-> v.obs, exp |-> v.exp])>>)

After == LET S1 == FoldEv([st EXCEPT !.viol = {}, !.drift = {}, !.sampled = FALSE], E.dv, 1)
             S2 == FlushExp(CatchPolls(S1, E.t), E.t + 1)
             S3 == EndChecks(S2)
         IN  [S3 EXCEPT !.viol = @ \cup Relation(S3)]

TInit == /\ TLCSet(1, 0) /\ l = 1 /\ st = S0
         /\ cf = [disc |-> TRUE, opts |-> FALSE, custom |-> FALSE, poll0 |-> 300, pollIv |-> 1000, backoffMs |-> 10000, fixed |-> FALSE,
                  router |-> "gossipsub", Dlo |-> 2, Dhi |-> 5, RandomSubD |-> 6, FloodSize |-> 5, optLimit |-> 0, optTTL |-> 0]

TReset == /\ E.a = "reset"
          /\ st' = S0
          /\ cf' = [disc |-> E.disc, opts |-> E.opts, custom |-> E.custom, poll0 |-> E.poll0, pollIv |-> E.pollIv,
                    backoffMs |-> E.backoffMs, fixed |-> E.fixed, router |-> E.router, Dlo |-> E.Dlo, Dhi |-> E.Dhi,
                    RandomSubD |-> E.RandomSubD, FloodSize |-> E.FloodSize, optLimit |-> E.optLimit, optTTL |-> E.optTTL]

TStep == /\ E.a # "reset"
         /\ \E S \in {After} :
              /\ \A v \in S.viol : Report("VIOL", v)
              /\ \A v \in S.drift : Report("DRIFT", v)
              /\ st' = [S EXCEPT !.viol = {}, !.drift = {}]
         /\ UNCHANGED cf

TNext == l <= Len(Trace) /\ (TReset \/ TStep) /\ l' = l + 1
TraceSpec == TInit /\ [][TNext]_tvars

HW == IF TLCGet(1) < l THEN TLCSet(1, l) ELSE TRUE
Accepted == PrintT(<<"HW", TLCGet(1), Len(Trace) + 1>>)
=============================================================================
