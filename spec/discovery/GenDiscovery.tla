---------------------------- MODULE GenDiscovery ----------------------------
(* X06 - scenario generator.  The stimuli a user (Subscribe / Cancel / Relay / cancel of a relay / Join / Topic.Close /
   Publish with WithReadiness / cancel of its context), the network (remote subscribers come and go, a found peer
   announces itself), the discovery service (how it answers Advertise and FindPeers, release of held calls) and time
   can apply to the pipeline, as a history variable; every history of exactly MaxLen stimuli is emitted
   (PrintT(<<"SCN", json>>) from the invariant Emit: works in BFS and in -simulate).  The abstract state only keeps
   what is needed to generate meaningful stimuli (reference counts, joined topics, service modes, publishes started);
   it does not predict the outcome - DiscoveryTrace.tla judges the recorded run.                                  *)
EXTENDS Naturals, Sequences, FiniteSets, TLC, Json

CONSTANTS Topics,       \* e.g. {"t1"} or {"t1", "t2"}
          MaxRef,       \* subscriptions / relays per topic
          PeerCounts,   \* numbers of remote subscribers a topic can be given, e.g. {0, 1, 2, 6}
          MaxPub,       \* publishes with readiness per scenario
          Preludes,     \* the initial situations the histories start from (see Init; subset of 0..5); their stimuli are part of the history
          MaxLen        \* number of stimuli after the prelude

VARIABLES hist, subs, relays, joined, np, advm, findm, pubs, cancelled, held, found, pre

vars == <<hist, subs, relays, joined, np, advm, findm, pubs, cancelled, held, found, pre>>

AdvModes == {"ok", "ok2", "err", "errttl", "hold"}
FindModes == {"empty", "peers", "hold", "err"}
Sizes == {1, 2}
Timeouts == {0, 1250, 2750}
Waits == {1, 3, 11}
FoundPeer == "p5"

St(a, t, m, n, to, mode, s) == [a |-> a, t |-> t, m |-> m, n |-> n, to |-> to, mode |-> mode, s |-> s]
Log(x) == hist' = Append(hist, x)

Z == [t \in Topics |-> 0]
One == [t \in Topics |-> IF t = "t1" THEN 1 ELSE 0]
Sb(t) == St("subscribe", t, "", 0, 0, "", 0)
\* Prelude 0: nothing has happened.  1: subscribed to t1.  2: t1 joined, one remote subscriber, a publish (size 2, no
\* timeout) waits for readiness.  3: the service holds searches, subscribed to t1 (one search is held).
\* 4: subscription and relay on t1, the service refuses Advertise from now on.  5: the service returns peers, subscribed to t1.
InitP(Prelude) ==
        /\ pre = Prelude
        /\ subs = (IF Prelude \in {1, 3, 4, 5} THEN One ELSE Z) /\ relays = (IF Prelude = 4 THEN One ELSE Z)
        /\ joined = (IF Prelude = 0 THEN {} ELSE {"t1"})
        /\ np = (IF Prelude = 2 THEN One ELSE Z)
        /\ advm = (IF Prelude = 4 THEN "err" ELSE "ok")
        /\ findm = (CASE Prelude = 3 -> "hold" [] Prelude = 5 -> "peers" [] OTHER -> "empty")
        /\ pubs = (IF Prelude = 2 THEN <<0>> ELSE <<>>) /\ cancelled = {}
        /\ held = (IF Prelude = 3 THEN {"find"} ELSE {}) /\ found = FALSE
        /\ hist = CASE Prelude = 1 -> <<Sb("t1")>>
                    [] Prelude = 2 -> <<St("join", "t1", "", 0, 0, "", 0), St("peers", "t1", "", 1, 0, "", 0), St("pub", "t1", "a1", 2, 0, "", 0)>>
                    [] Prelude = 3 -> <<St("svcfind", "", "", 0, 0, "hold", 0), Sb("t1")>>
                    [] Prelude = 4 -> <<Sb("t1"), St("relay", "t1", "", 0, 0, "", 0), St("svcadv", "", "", 0, 0, "err", 0)>>
                    [] Prelude = 5 -> <<St("svcfind", "", "", 0, 0, "peers", 0), Sb("t1")>>
                    [] OTHER -> <<>>
Init == \E p \in Preludes : InitP(p)
PreLen == CASE pre = 1 -> 1 [] pre = 2 -> 3 [] pre = 3 -> 2 [] pre = 4 -> 3 [] pre = 5 -> 2 [] OTHER -> 0

\* topic symmetry: "t2" is touched only after "t1" has been
Touched == {hist[i].t : i \in DOMAIN hist}
MayUse(t) == t = "t1" \/ "t1" \in Touched

Subscribe(t) == /\ MayUse(t) /\ subs[t] < MaxRef /\ subs' = [subs EXCEPT ![t] = @ + 1] /\ joined' = joined \cup {t}
                /\ Log(St("subscribe", t, "", 0, 0, "", 0))
                /\ held' = held \cup (IF advm = "hold" /\ subs[t] + relays[t] = 0 THEN {"adv"} ELSE {}) \cup (IF findm = "hold" THEN {"find"} ELSE {})
                /\ UNCHANGED <<relays, np, advm, findm, pubs, cancelled, found, pre>>
Cancel(t) == /\ subs[t] > 0 /\ subs' = [subs EXCEPT ![t] = @ - 1]
             /\ Log(St("cancel", t, "", 0, 0, "", 0))
             /\ UNCHANGED <<relays, joined, np, advm, findm, pubs, cancelled, held, found, pre>>
Relay(t) == /\ MayUse(t) /\ relays[t] < MaxRef /\ relays' = [relays EXCEPT ![t] = @ + 1] /\ joined' = joined \cup {t}
            /\ Log(St("relay", t, "", 0, 0, "", 0))
            /\ held' = held \cup (IF advm = "hold" /\ subs[t] + relays[t] = 0 THEN {"adv"} ELSE {}) \cup (IF findm = "hold" THEN {"find"} ELSE {})
            /\ UNCHANGED <<subs, np, advm, findm, pubs, cancelled, found, pre>>
Unrelay(t) == /\ relays[t] > 0 /\ relays' = [relays EXCEPT ![t] = @ - 1]
              /\ Log(St("unrelay", t, "", 0, 0, "", 0))
              /\ UNCHANGED <<subs, joined, np, advm, findm, pubs, cancelled, held, found, pre>>
Join(t) == /\ MayUse(t) /\ t \notin joined /\ joined' = joined \cup {t}
           /\ Log(St("join", t, "", 0, 0, "", 0))
           /\ UNCHANGED <<subs, relays, np, advm, findm, pubs, cancelled, held, found, pre>>
\* Topic.Close: refused by the node while subscriptions or relays exist (the stimulus is generated all the same)
Close(t) == /\ t \in joined /\ joined' = IF subs[t] + relays[t] = 0 THEN joined \ {t} ELSE joined
            /\ Log(St("closeTopic", t, "", 0, 0, "", 0))
            /\ UNCHANGED <<subs, relays, np, advm, findm, pubs, cancelled, held, found, pre>>
Peers(t, k) == /\ MayUse(t) /\ k # np[t] /\ np' = [np EXCEPT ![t] = k]
               /\ Log(St("peers", t, "", k, 0, "", 0))
               /\ UNCHANGED <<subs, relays, joined, advm, findm, pubs, cancelled, held, found, pre>>
SvcAdv(md) == /\ md # advm /\ advm' = md
              /\ Log(St("svcadv", "", "", 0, 0, md, 0))
              /\ UNCHANGED <<subs, relays, joined, np, findm, pubs, cancelled, held, found, pre>>
SvcFind(md) == /\ md # findm /\ findm' = md
               /\ Log(St("svcfind", "", "", 0, 0, md, 0))
               /\ UNCHANGED <<subs, relays, joined, np, advm, pubs, cancelled, held, found, pre>>
Release(w) == /\ w \in held /\ held' = held \ {w}
              /\ Log(St("release", "", "", 0, 0, w, 0))
              /\ UNCHANGED <<subs, relays, joined, np, advm, findm, pubs, cancelled, found, pre>>
PubName(k) == CASE k = 1 -> "a1" [] k = 2 -> "a2" [] k = 3 -> "a3" [] OTHER -> "a4"
Pub(t, n, to) == /\ MayUse(t) /\ Len(pubs) < MaxPub
                 /\ pubs' = Append(pubs, to) /\ joined' = joined \cup {t}
                 /\ Log(St("pub", t, PubName(Len(pubs) + 1), n, to, "", 0))
                 /\ held' = held \cup (IF findm = "hold" THEN {"find"} ELSE {})
                 /\ UNCHANGED <<subs, relays, np, advm, findm, cancelled, found, pre>>
CancelPub(k) == /\ k \in DOMAIN pubs /\ pubs[k] = 0 /\ k \notin cancelled /\ cancelled' = cancelled \cup {k}
                /\ Log(St("cancelpub", "", PubName(k), 0, 0, "", 0))
                /\ UNCHANGED <<subs, relays, joined, np, advm, findm, pubs, held, found, pre>>
\* a peer the service has returned (mode "peers") opens its stream and announces every topic
Found == /\ ~found /\ \E i \in DOMAIN hist : hist[i].a = "svcfind" /\ hist[i].mode = "peers"
         /\ found' = TRUE /\ Log(St("found", "", "", 0, 0, "", 0))
         /\ UNCHANGED <<subs, relays, joined, np, advm, findm, pubs, cancelled, held, pre>>
Elapse(s) == /\ hist # <<>> /\ Log(St("elapse", "", "", 0, 0, "", s))
             /\ held' = held \cup (IF findm = "hold" /\ joined # {} THEN {"find"} ELSE {})
             /\ UNCHANGED <<subs, relays, joined, np, advm, findm, pubs, cancelled, found, pre>>

Next == /\ Len(hist) < PreLen + MaxLen
        /\ \/ \E t \in Topics : Subscribe(t) \/ Cancel(t) \/ Relay(t) \/ Unrelay(t) \/ Join(t) \/ Close(t)
           \/ \E t \in Topics, k \in PeerCounts : Peers(t, k)
           \/ \E md \in AdvModes : SvcAdv(md)
           \/ \E md \in FindModes : SvcFind(md)
           \/ \E w \in {"adv", "find"} : Release(w)
           \/ \E t \in Topics, n \in Sizes, to \in Timeouts : Pub(t, n, to)
           \/ \E k \in 1..MaxPub : CancelPub(k)
           \/ Found
           \/ \E s \in Waits : Elapse(s)
Spec == Init /\ [][Next]_vars

Emit == (Len(hist) = PreLen + MaxLen) => PrintT(<<"SCN", ToJson([pre |-> pre, evs |-> hist])>>)
=============================================================================
