\* trace validation: trace.ndjson = projected step lines (see slim() in x06.py)
SPECIFICATION TraceSpec
CONSTANTS
  Topics = {"t1", "t2"}
CONSTRAINT HW
POSTCONDITION Accepted
CHECK_DEADLOCK FALSE
