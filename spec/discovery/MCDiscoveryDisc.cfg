\* poll timer + Discover callers + discoverLoop + handleDiscovery, one topic (29 484 states, liveness ~90 s)
SPECIFICATION Spec
CONSTANTS
  Topics = {"t1"}
  MaxRef = 1
  QCap = 2
  Callers = {"b1"}
  Parts = {"poll", "api"}
  DevStopIgnoresRelay = FALSE
  DevNoCancel = FALSE
  DevNoAdvGuard = FALSE
  DevNoDedup = FALSE
  DevNoOngoingDelete = FALSE
  DevPollIgnoresEnough = FALSE
  DevIgnoreBootstrapResult = FALSE
  DevUnbufferedDone = FALSE
  DevBareSend = FALSE
  DevRetryZero = FALSE
  SvcZeroTTL = FALSE
INVARIANT TypeOK
INVARIANT P_X06_a
INVARIANT P_X06_b
INVARIANT P_X06_c1
INVARIANT P_X06_c2
INVARIANT P_X06_e1
PROPERTY P_X06_c3
PROPERTY P_X06_c3b
PROPERTY P_X06_h
CHECK_DEADLOCK FALSE
