\* every history of 2 stimuli after each of the six preludes (6 787 scenarios)
SPECIFICATION Spec
CONSTANTS
  Topics = {"t1", "t2"}
  MaxRef = 2
  PeerCounts = {0, 1, 2, 6}
  MaxPub = 2
  Preludes = {0, 1, 2, 3, 4, 5}
  MaxLen = 2
INVARIANT Emit
CHECK_DEADLOCK FALSE
