SPECIFICATION Spec
CONSTANTS
  Topics = {"t1", "t2"}
  MaxRef = 2
  QCap = 2
  Parts = {"adv"}
  Callers = {"b1"}
  DevStopIgnoresRelay = FALSE
  DevNoCancel = FALSE
  DevNoAdvGuard = FALSE
  DevNoDedup = FALSE
  DevNoOngoingDelete = FALSE
  DevPollIgnoresEnough = FALSE
  DevIgnoreBootstrapResult = FALSE
  DevUnbufferedDone = FALSE
  DevBareSend = FALSE
  DevRetryZero = FALSE
  SvcZeroTTL = FALSE
INVARIANT TypeOK
INVARIANT P_X06_a
INVARIANT P_X06_b
INVARIANT P_X06_c1
INVARIANT P_X06_c2
INVARIANT P_X06_e1
CHECK_DEADLOCK FALSE
PROPERTY P_X06_a_exit
PROPERTY P_X06_h
