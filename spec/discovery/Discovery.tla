----------------------------- MODULE Discovery -----------------------------
(* X06 - the discovery pipeline of go-libp2p-pubsub (/repo/discovery.go: discover.Start, pollTimer,
   requestDiscovery, discoverLoop, Advertise, StopAdvertise, Discover, Bootstrap, handleDiscovery,
   pubSubDiscovery, MinTopicSize, WithDiscoveryOpts, WithDiscoverConnector; call sites
   pubsub.go: handleAddSubscription / handleRemoveSubscription / handleAddRelay / handleRemoveRelay,
   WithDiscovery; topic.go: Topic.Subscribe, Topic.Relay, Topic.validate (WithReadiness);
   EnoughPeers of floodsub.go / randomsub.go / gossipsub.go).

   PROPERTIES (machine-readable copy: properties_x.json)

   X06.a AdvertiseFollowsInterest.  At every quiescent point and for every topic t: the node is advertising t
         - EXACTLY ONE advertising goroutine with a live context exists for t - IF AND ONLY IF the node has at
         least one live subscription or relay on t.  The goroutine is started by the stimulus that creates the
         interest (first Subscribe or Relay; Advertise twice does not double it), its context is cancelled by the
         stimulus that removes the last reference (never while a subscription OR a relay remains), a cancelled
         goroutine exits, a new interest starts a new one, shutdown cancels all of them.
   X06.b AdvertiseSchedule.  An advertising goroutine calls the service immediately when it is started and then
         again EXACTLY at (return of the previous call + the TTL the service returned), or + 2 minutes
         (discoveryAdvertiseRetryInterval) when the call failed without a TTL; NEVER earlier, never in a hot loop
         (the service is assumed to return a TTL > 0 with a nil error), never after its context was cancelled.
         Every call names "floodsub:" + topic and carries exactly the options given to WithDiscoveryOpts.
   X06.c DiscoverWhenStarved.  (1) AT MOST ONE FindPeers per topic is in flight at any time (the `ongoing`
         de-duplication).  (2) Every FindPeers call is justified at the instant it starts: a poll instant
         (DiscoveryPollInitialDelay + k * DiscoveryPollInterval) at which the topic is joined and
         EnoughPeers(topic, 0) is false, a Subscribe / Relay call on the topic, or a Bootstrap on the topic that has
         just found the router not ready - NEVER a poll-driven search for a topic that has enough peers or has been
         closed.  (3) At EVERY poll instant every joined topic without enough peers has a search in flight or gets
         one (so a starved topic is searched at least once per poll interval + service time; a finished search
         always clears `ongoing`).  (4) Every search names "floodsub:" + topic, carries the configured options and a
         context that ends exactly 10 s after the call.
   X06.d FoundPeersAreDialled.  Every peer a search returns, except the node itself, is handed to the backoff
         connector: it is dialled (host.Connect with the returned addresses) at that instant unless it was dialled
         less than its backoff ago; NEVER two dials of one peer less than the minimum backoff (10 s with the default
         connector) apart, never a dial of a peer no search returned, never a dial of the node itself; with
         WithDiscoverConnector the given factory is used (with the node's host).
   X06.e ReadinessGatesPublish.  With discovery configured, Publish(ctx, m, WithReadiness(r)) evaluates r inside
         the event loop at the call, and while r is false again 100 ms after the search it requested has finished
         (at once when one was already in flight); it hands m to validation ONLY AFTER r returned true, at that very
         instant; when ctx ends (or the node shuts down) first it returns the context's error at that instant and m is
         NEVER published.  Bootstrap terminates in every case; no goroutine is left waiting on a discoverReq.done
         channel (capacity 1: every path sends at most once and never blocks).
         Without discovery the same holds with a 200 ms polling ticker instead of the search.
   X06.f EnoughPeersRelation.  EnoughPeers(t, n) (n = 0: the router's default) is the documented pure relation of
         the router state: floodsub |topics[t]| >= (n or FloodSubTopicSearchSize); randomsub fs + rs >= (n or
         RandomSubD) or rs >= RandomSubD; gossipsub fs + |mesh[t]| >= (n or Dlo) or |mesh[t]| >= Dhi, where fs counts
         the subscribers of t that do not speak a mesh protocol; always false for a topic nobody announced.
         MinTopicSize(n) is exactly EnoughPeers(t, n).
   X06.g NoDiscoveryNoActivity.  Without WithDiscovery no goroutine of the pipeline exists and the service-facing
         entry points do nothing (Subscribe / Relay / Cancel work as usual, Bootstrap is not used).
   X06.h ShutdownEndsEverything.  After the node's context is cancelled every goroutine of the pipeline
         (pollTimer, discoverLoop, advertising, handleDiscovery, Bootstrap callers, callers blocked in Discover) exits,
         every context handed to the service is cancelled and no call is made to it afterwards.

   STRUCTURE.  This module is the implementation-shaped model at the grain of the code: one action per critical
   section of the event loop (subscribe / cancel / relay / unrelay / join / close / one iteration of
   requestDiscovery), per turn of discoverLoop, per step of the pollTimer, advertising, handleDiscovery and
   Bootstrap goroutines; channels discoverQ (capacity QCap), done (rendezvous) and discoverReq.done (capacity 1)
   are explicit.  The environment decides EnoughPeers, the outcomes of service calls, context cancellations and
   shutdown.  Time is abstract here (a timer may fire at any moment; `nxt` only records which delay an advertiser
   sleeps on); DiscoveryTrace.tla checks the exact instants on recorded runs, with the pure operators of the
   module DiscoveryMeaning (delays, constants of the code, the EnoughPeers relations).  Named deviations (constants Dev...):
       DevIgnoreBootstrapResult (AS FOUND)  Topic.validate drops the result of Bootstrap and goes on to publish;
       SvcZeroTTL               the service may answer (0, nil): assumption of X06.b violated -> hot loop;
       DevStopIgnoresRelay, DevNoCancel, DevNoAdvGuard, DevNoDedup, DevNoOngoingDelete, DevPollIgnoresEnough,
       DevUnbufferedDone, DevBareSend (D10 as it was), DevRetryZero: seeded defects (non-vacuity).
   DELIBERATE ABSTRACTIONS: the connector (X06.d) and the options are not modelled here (pure operators below, used
   by the trace specification); a cancelled advertiser is a counter (zomb); Subscribe's Discover call and the event
   loop's handling of the subscription are separate actions (ApiDiscover, Sub).                                *)
EXTENDS DiscoveryMeaning, Naturals, Sequences, FiniteSets, TLC

CONSTANTS Topics, MaxRef, QCap, Callers,
          Parts,     \* which parts of the pipeline the environment exercises: subset of {"adv", "poll", "api", "boot"} (keeps the exhaustive runs small)
          DevStopIgnoresRelay, DevNoCancel, DevNoAdvGuard, DevNoDedup, DevNoOngoingDelete, DevPollIgnoresEnough,
          DevIgnoreBootstrapResult, DevUnbufferedDone, DevBareSend, DevRetryZero, SvcZeroTTL

(* ------------------------------------------------------------------ MODEL *)
VARIABLES alive,           \* the node's context is live
          subs, relays,    \* reference counts per topic
          joined,          \* p.myTopics
          enough,          \* EnoughPeers(t, 0) (also the readiness Bootstrap callers wait for)
          cur,             \* cur[t]: the advertising goroutine d.advertising[t] refers to: [pc: none | call | sleep, nxt]
          orphans,         \* live advertising goroutines nothing refers to (only with deviations)
          zomb,            \* cancelled advertising goroutines that have not exited yet
          loop,            \* event loop: [st: idle | req (inside requestDiscovery, todo = topics still to request) | exited, todo]
          pollpc,          \* pollTimer: "wait" | "send" | "exited"
          discQ,           \* discoverQ
          ongoing,         \* d.ongoing
          hd,              \* hd[t]: handleDiscovery goroutines of t, each [pc: find | done | sig, org, who]
          dl,              \* discoverLoop: "run" | "stuck" | "exited"
          sig,             \* sig[c]: the done channel of caller c's current request holds a token
          bpc, bt, bctx,   \* Bootstrap / Publish callers: program counter, topic, context live
          sawReady, published,
          apiBlocked       \* callers of Discover blocked on a full discoverQ (sequence of topics)

vars == <<alive, subs, relays, joined, enough, cur, orphans, zomb, loop, pollpc, discQ, ongoing, hd, dl, sig,
          bpc, bt, bctx, sawReady, published, apiBlocked>>

None == "none"
NoAdv == [pc |-> "none", nxt |-> 0]
Has(t) == cur[t].pc # "none"
Idle == [st |-> "idle", todo |-> {}]
NoTopic == "-"
Interest(t) == subs[t] + relays[t] > 0
Req(t, org, who, ok) == [t |-> t, org |-> org, who |-> who, ok |-> ok]

Init == /\ alive = TRUE
        /\ subs = [t \in Topics |-> 0] /\ relays = [t \in Topics |-> 0] /\ joined = {}
        /\ enough = [t \in Topics |-> FALSE]
        /\ cur = [t \in Topics |-> NoAdv] /\ orphans = [t \in Topics |-> 0] /\ zomb = [t \in Topics |-> 0]
        /\ loop = Idle /\ pollpc = "wait" /\ discQ = <<>> /\ ongoing = {}
        /\ hd = [t \in Topics |-> <<>>] /\ dl = "run"
        /\ sig = [c \in Callers |-> 0]
        /\ bpc = [c \in Callers |-> "idle"] /\ bt = [c \in Callers |-> NoTopic] /\ bctx = [c \in Callers |-> TRUE]
        /\ sawReady = [c \in Callers |-> FALSE] /\ published = [c \in Callers |-> FALSE]
        /\ apiBlocked = <<>>

LoopIdle == alive /\ loop.st = "idle"

(* -------- advertising: critical sections of the event loop *)
AdvVars == <<cur, orphans, zomb>>
\* discover.Advertise(t)
StartAdv(t) ==
    IF ~DevNoAdvGuard /\ Has(t)
      THEN UNCHANGED AdvVars
      ELSE /\ cur' = [cur EXCEPT ![t] = [pc |-> "call", nxt |-> 1]]
           /\ orphans' = [orphans EXCEPT ![t] = @ + (IF Has(t) THEN 1 ELSE 0)]
           /\ UNCHANGED zomb
\* discover.StopAdvertise(t)
StopAdv(t) ==
    IF ~Has(t) THEN UNCHANGED AdvVars
    ELSE /\ cur' = [cur EXCEPT ![t] = NoAdv]
         /\ IF DevNoCancel THEN orphans' = [orphans EXCEPT ![t] = @ + 1] /\ UNCHANGED zomb
                           ELSE zomb' = [zomb EXCEPT ![t] = @ + 1] /\ UNCHANGED orphans

RestA == <<alive, joined, enough, loop, pollpc, discQ, ongoing, hd, dl, sig, bpc, bt, bctx, sawReady, published, apiBlocked>>

\* handleAddSubscription
Sub(t) == /\ "adv" \in Parts /\ LoopIdle /\ t \in joined /\ subs[t] < MaxRef /\ orphans[t] < 2
          /\ subs' = [subs EXCEPT ![t] = @ + 1]
          /\ IF DevNoAdvGuard \/ ~Interest(t) THEN StartAdv(t) ELSE UNCHANGED AdvVars
          /\ UNCHANGED <<relays, RestA>>
\* handleRemoveSubscription
\* (the environment lets a cancelled goroutine exit before it cancels the next one of the topic: zomb is a counter, so
\* "every cancelled goroutine exits" can only be stated as "the counter returns to 0")
Room(t) == zomb[t] = 0 /\ orphans[t] < 2
Cancel(t) == /\ LoopIdle /\ subs[t] > 0 /\ Room(t)
             /\ subs' = [subs EXCEPT ![t] = @ - 1]
             /\ IF subs[t] = 1 /\ (DevStopIgnoresRelay \/ relays[t] = 0) THEN StopAdv(t) ELSE UNCHANGED AdvVars
             /\ UNCHANGED <<relays, RestA>>
\* handleAddRelay
Relay(t) == /\ "adv" \in Parts /\ LoopIdle /\ t \in joined /\ relays[t] < MaxRef /\ orphans[t] < 2
            /\ relays' = [relays EXCEPT ![t] = @ + 1]
            /\ IF DevNoAdvGuard \/ ~Interest(t) THEN StartAdv(t) ELSE UNCHANGED AdvVars
            /\ UNCHANGED <<subs, RestA>>
\* handleRemoveRelay
Unrelay(t) == /\ LoopIdle /\ relays[t] > 0 /\ Room(t)
              /\ relays' = [relays EXCEPT ![t] = @ - 1]
              /\ IF relays[t] = 1 /\ subs[t] = 0 THEN StopAdv(t) ELSE UNCHANGED AdvVars
              /\ UNCHANGED <<subs, RestA>>

RestJ == <<alive, subs, relays, enough, cur, orphans, zomb, loop, pollpc, discQ, ongoing, hd, dl, sig, bpc, bt, bctx,
           sawReady, published, apiBlocked>>
Join(t) == LoopIdle /\ t \notin joined /\ joined' = joined \cup {t} /\ UNCHANGED RestJ
\* handleRemoveTopic: refused while subscriptions or relays exist
Close(t) == LoopIdle /\ t \in joined /\ ~Interest(t) /\ joined' = joined \ {t} /\ UNCHANGED RestJ

EnvEnough(t) == /\ Parts \cap {"poll", "boot"} # {} /\ LoopIdle /\ enough' = [enough EXCEPT ![t] = ~@]
                /\ UNCHANGED <<alive, subs, relays, joined, cur, orphans, zomb, loop, pollpc, discQ, ongoing, hd, dl, sig,
                               bpc, bt, bctx, sawReady, published, apiBlocked>>

(* -------- the advertising goroutine d.advertising[t] refers to *)
Outcomes == {"ok", "err", "errttl"} \cup (IF SvcZeroTTL THEN {"zero"} ELSE {})
NxtOf(o) == CASE o = "ok" -> 1 [] o = "errttl" -> 1 [] o = "zero" -> 0
              [] o = "err" -> IF DevRetryZero THEN 0 ELSE 2
RestG == <<alive, subs, relays, joined, enough, orphans, zomb, loop, pollpc, discQ, ongoing, hd, dl, sig, bpc, bt, bctx,
           sawReady, published, apiBlocked>>
AdvRet(t) == /\ "adv" \in Parts /\ cur[t].pc = "call"
             /\ \E o \in Outcomes : cur' = [cur EXCEPT ![t] = [pc |-> "sleep", nxt |-> NxtOf(o)]]
             /\ UNCHANGED RestG
AdvTimer(t) == /\ cur[t].pc = "sleep"
               /\ cur' = [cur EXCEPT ![t] = [pc |-> "call", nxt |-> 1]]
               /\ UNCHANGED RestG
\* a cancelled goroutine sees its context and returns (a call it is in returns first)
ZombExit(t) == /\ zomb[t] > 0 /\ zomb' = [zomb EXCEPT ![t] = @ - 1]
               /\ UNCHANGED <<alive, subs, relays, joined, enough, cur, orphans, loop, pollpc, discQ, ongoing, hd, dl, sig,
                              bpc, bt, bctx, sawReady, published, apiBlocked>>

(* -------- pollTimer and requestDiscovery *)
RestP == <<alive, subs, relays, joined, enough, cur, orphans, zomb, ongoing, hd, dl, sig, bpc, bt, bctx, sawReady,
           published, apiBlocked>>
PollFire == "poll" \in Parts /\ alive /\ pollpc = "wait" /\ pollpc' = "send" /\ UNCHANGED <<loop, discQ, RestP>>
Starved == {t \in joined : DevPollIgnoresEnough \/ ~enough[t]}
PollSend == /\ LoopIdle /\ pollpc = "send" /\ pollpc' = "wait"
            /\ loop' = IF Starved = {} THEN Idle ELSE [st |-> "req", todo |-> Starved]
            /\ UNCHANGED <<discQ, RestP>>
PollExit == ~alive /\ pollpc # "exited" /\ pollpc' = "exited" /\ UNCHANGED <<loop, discQ, RestP>>
InReq == loop.st = "req"
\* one iteration of the range loop in requestDiscovery: a send on discoverQ (blocks while it is full)
LoopReq == /\ InReq /\ Len(discQ) < QCap
           /\ \E t \in loop.todo :
                /\ discQ' = Append(discQ, Req(t, "poll", None, t \in joined /\ ~enough[t]))
                /\ loop' = IF loop.todo = {t} THEN Idle ELSE [st |-> "req", todo |-> loop.todo \ {t}]
           /\ UNCHANGED <<pollpc, RestP>>
LoopReqAbort == /\ InReq /\ ~alive /\ ~DevBareSend /\ loop' = Idle /\ UNCHANGED <<pollpc, discQ, RestP>>
LoopExit == ~alive /\ loop.st = "idle" /\ loop' = [st |-> "exited", todo |-> {}] /\ UNCHANGED <<pollpc, discQ, RestP>>

(* -------- discoverLoop *)
RestD == <<alive, subs, relays, joined, enough, cur, orphans, zomb, loop, pollpc, bpc, bt, bctx, sawReady, published, apiBlocked>>
\* a send on discoverReq.done succeeds at once when the channel is buffered; unbuffered it needs the requester waiting
CanSignal(r) == ~DevUnbufferedDone \/ (r.org = "boot" /\ bpc[r.who] = "wait")
Signal(r) == sig' = IF r.org = "boot" THEN [sig EXCEPT ![r.who] = 1] ELSE sig
DLRecv == /\ dl = "run" /\ discQ # <<>>
          /\ LET r == Head(discQ) IN
               /\ discQ' = Tail(discQ)
               /\ IF (~DevNoDedup \/ Len(hd[r.t]) >= 2) /\ r.t \in ongoing
                    THEN IF CanSignal(r) THEN Signal(r) /\ UNCHANGED <<ongoing, hd, dl>>
                                         ELSE dl' = "stuck" /\ UNCHANGED <<ongoing, hd, sig>>
                    ELSE /\ ongoing' = ongoing \cup {r.t}
                         /\ hd' = [hd EXCEPT ![r.t] = Append(@, [pc |-> "find", org |-> r.org, who |-> r.who])]
                         /\ UNCHANGED <<dl, sig>>
          /\ UNCHANGED RestD
Drop(s, i) == [j \in 1..(Len(s) - 1) |-> IF j < i THEN s[j] ELSE s[j + 1]]
\* case topic := <-d.done (rendezvous with a handleDiscovery goroutine)
DLDone(t, i) == /\ dl = "run" /\ i \in DOMAIN hd[t] /\ hd[t][i].pc = "done"
                /\ ongoing' = IF DevNoOngoingDelete THEN ongoing ELSE ongoing \ {t}
                /\ hd' = [hd EXCEPT ![t][i].pc = "sig"]
                /\ UNCHANGED <<discQ, dl, sig, RestD>>
DLExit == ~alive /\ dl = "run" /\ dl' = "exited" /\ UNCHANGED <<discQ, ongoing, hd, sig, RestD>>

(* -------- handleDiscovery goroutines *)
\* FindPeers and connector.Connect return (the service closes the channel at the latest when the context ends)
HDFindRet(t, i) == /\ i \in DOMAIN hd[t] /\ hd[t][i].pc = "find"
                   /\ hd' = [hd EXCEPT ![t][i].pc = "done"]
                   /\ UNCHANGED <<discQ, ongoing, dl, sig, RestD>>
\* select { case d.done <- topic: (DLDone)  case <-d.p.ctx.Done(): }
HDDoneCtx(t, i) == /\ ~alive /\ i \in DOMAIN hd[t] /\ hd[t][i].pc = "done"
                   /\ hd' = [hd EXCEPT ![t][i].pc = "sig"]
                   /\ UNCHANGED <<discQ, ongoing, dl, sig, RestD>>
\* discover.done <- struct{}{}
HDSig(t, i) == /\ i \in DOMAIN hd[t] /\ hd[t][i].pc = "sig" /\ CanSignal(hd[t][i])
               /\ Signal(hd[t][i])
               /\ hd' = [hd EXCEPT ![t] = Drop(@, i)]
               /\ UNCHANGED <<discQ, ongoing, dl, RestD>>

(* -------- Topic.Publish with WithReadiness: Bootstrap, then the hand-over to validation *)
RestB == <<alive, subs, relays, joined, enough, cur, orphans, zomb, loop, pollpc, ongoing, hd, dl, apiBlocked>>
Gone(c) == ~alive \/ ~bctx[c]
BStart(c, t) == /\ "boot" \in Parts /\ alive /\ bpc[c] = "idle" /\ t \in joined
                /\ bpc' = [bpc EXCEPT ![c] = "check"] /\ bt' = [bt EXCEPT ![c] = t]
                /\ UNCHANGED <<discQ, sig, bctx, sawReady, published, RestB>>
\* select { case d.p.eval <- func(){ ready }: ...  case <-ctx.Done / p.ctx.Done: return false }
BCheck(c) == /\ bpc[c] = "check"
             /\ \/ /\ LoopIdle
                   /\ IF enough[bt[c]]
                        THEN bpc' = [bpc EXCEPT ![c] = "pub"] /\ sawReady' = [sawReady EXCEPT ![c] = TRUE]
                        ELSE bpc' = [bpc EXCEPT ![c] = "req"] /\ UNCHANGED sawReady
             /\ UNCHANGED <<discQ, sig, bt, bctx, published, RestB>>
BReq(c) == /\ bpc[c] = "req"
           /\ \/ /\ Len(discQ) < QCap /\ discQ' = Append(discQ, Req(bt[c], "boot", c, TRUE))
                 /\ bpc' = [bpc EXCEPT ![c] = "wait"]
           /\ UNCHANGED <<sig, bt, bctx, sawReady, published, RestB>>
BWait(c) == /\ bpc[c] = "wait"
            /\ \/ sig[c] = 1 /\ sig' = [sig EXCEPT ![c] = 0] /\ bpc' = [bpc EXCEPT ![c] = "sleep"]
            /\ UNCHANGED <<discQ, bt, bctx, sawReady, published, RestB>>
BSleep(c) == /\ bpc[c] = "sleep"
             /\ bpc' = [bpc EXCEPT ![c] = "check"]
             /\ UNCHANGED <<discQ, sig, bt, bctx, sawReady, published, RestB>>
\* the ctx.Done() / d.p.ctx.Done() arm every select of Bootstrap has: return false.  (A select with several ready arms
\* picks one at random: the arm is an action of its own with its own fairness condition.)
BGone(c) == /\ bpc[c] \in {"check", "req", "wait", "sleep"} /\ Gone(c)
            /\ bpc' = [bpc EXCEPT ![c] = "fail"]
            /\ UNCHANGED <<discQ, sig, bt, bctx, sawReady, published, RestB>>
\* Bootstrap returned false.  AS FOUND the result is dropped and validate goes on to the hand-over select.
BFail(c) == /\ bpc[c] = "fail"
            /\ bpc' = [bpc EXCEPT ![c] = IF DevIgnoreBootstrapResult THEN "pub" ELSE "ret"]
            /\ UNCHANGED <<discQ, sig, bt, bctx, sawReady, published, RestB>>
\* select { case t.p.eval <- Preprocess: (then ValidateLocal: the message is published)  case <-ctx.Done / p.ctx.Done: error }
BPub(c) == /\ bpc[c] = "pub"
           /\ \/ LoopIdle /\ published' = [published EXCEPT ![c] = TRUE]
              \/ Gone(c) /\ UNCHANGED published
           /\ bpc' = [bpc EXCEPT ![c] = "ret"]
           /\ UNCHANGED <<discQ, sig, bt, bctx, sawReady, RestB>>
EnvCancelCtx(c) == /\ bpc[c] \notin {"idle", "ret"} /\ bctx[c] /\ bctx' = [bctx EXCEPT ![c] = FALSE]
                   /\ UNCHANGED <<discQ, sig, bpc, bt, sawReady, published, RestB>>

(* -------- discover.Discover (Topic.Subscribe / Topic.Relay call it before the event loop sees the request) *)
RestApi == <<alive, subs, relays, joined, enough, cur, orphans, zomb, loop, pollpc, ongoing, hd, dl, sig, bpc, bt, bctx,
             sawReady, published>>
ApiDiscover(t) == /\ "api" \in Parts /\ t \in joined
                  /\ \/ Len(discQ) < QCap /\ discQ' = Append(discQ, Req(t, "api", None, TRUE)) /\ UNCHANGED apiBlocked
                     \/ Len(discQ) = QCap /\ (alive \/ DevBareSend) /\ Len(apiBlocked) < 1
                        /\ apiBlocked' = Append(apiBlocked, t) /\ UNCHANGED discQ
                     \/ ~alive /\ ~DevBareSend /\ UNCHANGED <<discQ, apiBlocked>>
                  /\ UNCHANGED RestApi
ApiUnblock == /\ apiBlocked # <<>> /\ Len(discQ) < QCap
              /\ discQ' = Append(discQ, Req(Head(apiBlocked), "api", None, TRUE)) /\ apiBlocked' = Tail(apiBlocked)
              /\ UNCHANGED RestApi
ApiAbort == /\ apiBlocked # <<>> /\ ~alive /\ ~DevBareSend /\ apiBlocked' = Tail(apiBlocked)
            /\ UNCHANGED <<discQ, RestApi>>

(* -------- shutdown: every advertising context is a child of the node's context *)
Shutdown == /\ alive /\ alive' = FALSE /\ \A t \in Topics : zomb[t] = 0
            /\ zomb' = [t \in Topics |-> zomb[t] + orphans[t] + (IF Has(t) THEN 1 ELSE 0)]
            /\ cur' = [t \in Topics |-> NoAdv] /\ orphans' = [t \in Topics |-> 0]
            /\ UNCHANGED <<subs, relays, joined, enough, loop, pollpc, discQ, ongoing, hd, dl, sig, bpc, bt, bctx, sawReady,
                           published, apiBlocked>>

Env == \/ \E t \in Topics : Sub(t) \/ Cancel(t) \/ Relay(t) \/ Unrelay(t) \/ Join(t) \/ Close(t) \/ EnvEnough(t) \/ ApiDiscover(t)
       \/ \E c \in Callers : EnvCancelCtx(c) \/ \E t \in Topics : BStart(c, t)
       \/ Shutdown
Internal ==
       \/ \E t \in Topics : AdvRet(t) \/ AdvTimer(t) \/ ZombExit(t)
       \/ PollFire \/ PollSend \/ PollExit \/ LoopReq \/ LoopReqAbort \/ LoopExit
       \/ DLRecv \/ DLExit \/ \E t \in Topics, i \in 1..2 : DLDone(t, i) \/ HDFindRet(t, i) \/ HDDoneCtx(t, i) \/ HDSig(t, i)
       \/ \E c \in Callers : BCheck(c) \/ BReq(c) \/ BWait(c) \/ BSleep(c) \/ BGone(c) \/ BFail(c) \/ BPub(c)
       \/ ApiUnblock \/ ApiAbort
Next == Env \/ Internal

Fair == /\ \A t \in Topics : WF_vars(AdvRet(t)) /\ WF_vars(ZombExit(t))
        /\ WF_vars(PollFire) /\ SF_vars(PollSend) /\ WF_vars(PollExit) /\ SF_vars(LoopReq) /\ WF_vars(LoopReqAbort) /\ WF_vars(LoopExit)
        /\ WF_vars(DLRecv) /\ WF_vars(DLExit)
        /\ \A t \in Topics, i \in 1..2 : WF_vars(DLDone(t, i)) /\ WF_vars(HDFindRet(t, i)) /\ WF_vars(HDDoneCtx(t, i)) /\ WF_vars(HDSig(t, i))
        /\ \A c \in Callers : SF_vars(BCheck(c)) /\ SF_vars(BReq(c)) /\ WF_vars(BWait(c)) /\ WF_vars(BSleep(c)) /\ WF_vars(BGone(c)) /\ WF_vars(BFail(c)) /\ SF_vars(BPub(c))
        /\ SF_vars(ApiUnblock) /\ WF_vars(ApiAbort)
Spec == Init /\ [][Next]_vars /\ Fair


(* ------------------------------------------------------------------ PROPERTIES *)
TypeOK == /\ alive \in BOOLEAN /\ joined \subseteq Topics /\ ongoing \subseteq Topics
          /\ \A t \in Topics : subs[t] \in 0..MaxRef /\ relays[t] \in 0..MaxRef /\ enough[t] \in BOOLEAN
          /\ Len(discQ) <= QCap /\ pollpc \in {"wait", "send", "exited"} /\ dl \in {"run", "stuck", "exited"}
          /\ \A c \in Callers : bpc[c] \in {"idle", "check", "req", "wait", "sleep", "fail", "pub", "ret"} /\ sig[c] \in 0..1

LiveAdv(t) == orphans[t] + (IF Has(t) THEN 1 ELSE 0)
\* X06.a: exactly one live advertiser iff interest; d.advertising has the key iff interest
P_X06_a == alive => \A t \in Topics : /\ LiveAdv(t) = (IF Interest(t) THEN 1 ELSE 0)
                                      /\ Has(t) <=> Interest(t)
\* a cancelled advertiser exits
P_X06_a_exit == \A t \in Topics : (zomb[t] > 0) ~> (zomb[t] = 0)
\* X06.b: a sleeping advertiser always sleeps on a positive delay
P_X06_b == \A t \in Topics : (cur[t].pc = "sleep") => cur[t].nxt > 0
Finding(t) == {i \in DOMAIN hd[t] : hd[t][i].pc = "find"}
\* X06.c (1): at most one search per topic in flight
P_X06_c1 == \A t \in Topics : Cardinality(Finding(t)) <= 1
\* X06.c (2): every queued request was justified when it was made
P_X06_c2 == \A i \in DOMAIN discQ : discQ[i].ok
\* X06.c (3): a joined topic without enough peers is searched (again and again)
Served(t) == Finding(t) # {} \/ ~alive \/ t \notin joined \/ enough[t]
P_X06_c3 == \A t \in Topics : (alive /\ t \in joined /\ ~enough[t]) ~> Served(t)
P_X06_c3b == \A t \in Topics : (t \in ongoing) ~> (t \notin ongoing \/ ~alive)
\* X06.e: published only after the readiness function returned true
P_X06_e1 == \A c \in Callers : published[c] => sawReady[c]
\* X06.e: Bootstrap / Publish terminate: ready, context ended or shutdown
En(t) == t \in Topics /\ enough[t]
P_X06_e2 == \A c \in Callers : (bpc[c] \notin {"idle", "ret"} /\ (En(bt[c]) \/ Gone(c)))
                                 ~> (bpc[c] = "ret" \/ (~En(bt[c]) /\ ~Gone(c)))
\* X06.h: after shutdown everything exits
AllExited == /\ pollpc = "exited" /\ dl = "exited" /\ loop.st = "exited" /\ apiBlocked = <<>>
             /\ \A t \in Topics : zomb[t] = 0 /\ ~Has(t) /\ orphans[t] = 0 /\ hd[t] = <<>>
             /\ \A c \in Callers : bpc[c] \in {"idle", "ret"}
P_X06_h == (~alive) ~> AllExited
=============================================================================
