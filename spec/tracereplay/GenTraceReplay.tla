-------------------------- MODULE GenTraceReplay --------------------------
(* Scenario generator for C19: every sequence of stimuli up to a bounded length
   over the part of the alphabet that moves the state the trace must rebuild:
   peers coming and going (also only the outbound stream being reset), the node
   subscribing / cancelling / relaying / unrelaying (JOIN/LEAVE alternation),
   GRAFT and PRUNE from remote peers, heartbeats, messages and publications.
   Only *inputs* are emitted; what the real node does with them is recorded by the
   driver and judged by TraceReplayTrace. The little state here only keeps the
   sequences sensible (no `down` of a peer that is not up, ...). The orchestrator
   turns each abstract stimulus into a world action for each of the three routers. *)
EXTENDS Naturals, Sequences, FiniteSets, TLC, Json

CONSTANTS Peers, Topics, L, MaxMsgs

VARIABLES up,      \* peers connected
          subd,    \* topics with a subscription
          rel,     \* topics with a relay
          nmsg,    \* messages created so far
          hist

vars == <<up, subd, rel, nmsg, hist>>

Init == up = {} /\ subd = {} /\ rel = {} /\ nmsg = 0 /\ hist = <<>>

A(a, p, t) == [a |-> a, p |-> p, t |-> t]
Rec(x) == hist' = Append(hist, x)
Joined == subd \cup rel

PeerUp(p)    == p \notin up /\ up' = up \cup {p} /\ Rec(A("peer", p, "")) /\ UNCHANGED <<subd, rel, nmsg>>
PeerDown(p)  == p \in up /\ up' = up \ {p} /\ Rec(A("down", p, "")) /\ UNCHANGED <<subd, rel, nmsg>>
ResetIn(p)   == p \in up /\ Rec(A("resetIn", p, "")) /\ UNCHANGED <<up, subd, rel, nmsg>>
Subscribe(t) == t \notin subd /\ subd' = subd \cup {t} /\ Rec(A("subscribe", "", t)) /\ UNCHANGED <<up, rel, nmsg>>
Cancel(t)    == t \in subd /\ subd' = subd \ {t} /\ Rec(A("cancel", "", t)) /\ UNCHANGED <<up, rel, nmsg>>
Relay(t)     == t \notin rel /\ rel' = rel \cup {t} /\ Rec(A("relay", "", t)) /\ UNCHANGED <<up, subd, nmsg>>
Unrelay(t)   == t \in rel /\ rel' = rel \ {t} /\ Rec(A("unrelay", "", t)) /\ UNCHANGED <<up, subd, nmsg>>
Graft(p, t)  == p \in up /\ t \in Joined /\ Rec(A("graft", p, t)) /\ UNCHANGED <<up, subd, rel, nmsg>>
Prune(p, t)  == p \in up /\ t \in Joined /\ Rec(A("prune", p, t)) /\ UNCHANGED <<up, subd, rel, nmsg>>
Hb           == up # {} /\ Joined # {} /\ Rec(A("hb", "", "")) /\ UNCHANGED <<up, subd, rel, nmsg>>
Publish(t)   == nmsg < MaxMsgs /\ nmsg' = nmsg + 1 /\ Rec(A("publish", "", t)) /\ UNCHANGED <<up, subd, rel>>
Msg(p, t)    == p \in up /\ nmsg < MaxMsgs /\ nmsg' = nmsg + 1 /\ Rec(A("msg", p, t)) /\ UNCHANGED <<up, subd, rel>>

Next == /\ Len(hist) < L
        /\ \/ \E p \in Peers : PeerUp(p) \/ PeerDown(p) \/ ResetIn(p)
           \/ \E t \in Topics : Subscribe(t) \/ Cancel(t) \/ Relay(t) \/ Unrelay(t) \/ Publish(t)
           \/ \E p \in Peers, t \in Topics : Graft(p, t) \/ Prune(p, t) \/ Msg(p, t)
           \/ Hb

Spec == Init /\ [][Next]_vars

\* emit every complete scenario once it reaches the length bound
Emit == Len(hist) = L => PrintT(<<"SCN", ToJson([acts |-> hist])>>)
=============================================================================
