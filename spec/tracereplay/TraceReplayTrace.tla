------------------------- MODULE TraceReplayTrace -------------------------
(* Trace specification for C19 over the common step-line format (projected by
   bin/lib/props/c19.py to the fields used here; every field is always present).

   The EventTracer events of a step line ("tev", in the order the tracer received
   them) are replayed through TraceReplay's per-event functions; each step line is
   a quiet state of the node, and there the rebuilt variables are compared with
   the ground truth of that line:

     st      snapshot taken inside the event loop: the router's own peer set (gossipsub
             gs.peers, randomsub rs.peers), every topic's mesh, the node's subscriptions
             and relays (topics it announces), the peers that own an outbound queue
     deliv   messages handed to subscribers (Subscription.Next), out = frames the fake
             peers received (messages forwarded/published to them)
     push    what the repo hook verifQueuePush saw: every push onto an outbound queue,
             accepted or refused, with the RPC's content (only in the C19 driver's runs)
     ev      RawTracer callbacks (a second, independently built view of the same calls)
     act     the stimulus (publish / pubbatch tell how many publication attempts were made)

   The run is deterministic (one behaviour): a failing predicate does not stop it;
   it is printed as <<"VIOL", json>> and the replay variables are re-synchronised with
   the ground truth so that one divergence is reported once. The orchestrator turns
   the printed records into verdicts (known-finding signatures, replay files). *)
EXTENDS TraceReplay, Json

Trace == ndJsonDeserialize("trace.ndjson")

VARIABLES l,        \* cursor
          peersG,   \* peer set rebuilt from the RawTracer Up/Down callbacks
          hist,     \* every EventTracer event of the scenario so far (only kept when the scenario uses file tracers)
          nviol     \* violations printed so far

tvars == <<l, peersG, hist, nviol, rvars>>

SeenTTLms == 120000   \* default TimeCache TTL: after it a replayed message may legitimately be delivered again

E == Trace[l]
ToSet(sq) == {sq[i] : i \in DOMAIN sq}
Sel(sq, Types) == SelectSeq(sq, LAMBDA e : e.type \in Types)
\* the comparable core of an event (EventTracer event or normalised RawTracer callback)
\* (rpcv = the RPC metadata with the ids inside IHAVE/IWANT/IDONTWANT reduced to their number, see c19.py view_of)
Core(e) == [type |-> e.type, p |-> e.p, topic |-> e.topic, m |-> e.m, via |-> e.via, proto |-> e.proto, rpc |-> e.rpcv]
\* the events as replayed: the message of an event is counted under its key mu (c19.py project)
Keyed(sq) == [i \in DOMAIN sq |-> [sq[i] EXCEPT !.m = sq[i].mu]]
Cores(sq) == [i \in DOMAIN sq |-> Core(sq[i])]
SameView(Types) == Cores(Sel(E.tev, Types)) = Cores(Sel(E.ev, Types))

\* ground truth of the line
JoinedG    == ToSet(E.joinedG)
MeshTopics == {E.mesh[i].t : i \in DOMAIN E.mesh}
MeshG(t)   == LET xs == {i \in DOMAIN E.mesh : E.mesh[i].t = t}
              IN IF xs = {} THEN {} ELSE ToSet(E.mesh[CHOOSE i \in xs : TRUE].ps)
MeshFnG    == [t \in {x \in MeshTopics : MeshG(x) # {}} |-> MeshG(t)]

\* the raw view of the peer set
RECURSIVE RawPeers(_, _, _)
RawPeers(ps, evs, i) ==
    IF i > Len(evs) THEN ps
    ELSE RawPeers(CASE evs[i].type = "ON_NEW_OUTBOUND_STREAM" -> ps \cup {evs[i].p}
                    [] evs[i].type = "ON_CLOSED_OUTBOUND_STREAM" -> ps \ {evs[i].p}
                    [] OTHER -> ps, evs, i + 1)

-----------------------------------------------------------------------------
\* s0 = state before the line, s1 = after replaying the line's events

AltBad(s1)  == s1.bad
AltOK(s1)   == /\ s1.bad = {}
               /\ s1.joined = JoinedG
               /\ (E.router = "gossipsub" => s1.joined = MeshTopics)
               /\ SameView({"JOIN", "LEAVE"})

NewInLine   == {E.tev[i].p : i \in {j \in DOMAIN E.tev : E.tev[j].type = "ON_NEW_OUTBOUND_STREAM"}}
PeersOK(s0, s1, pg1) ==
               /\ (E.hasRpeers => s1.peers = ToSet(E.rpeers))          \* the router's own peer set
               /\ s1.peers = pg1                                       \* both tracer views agree
               /\ s1.peers \subseteq ToSet(E.qpeers)                   \* an open outbound stream has a queue
               /\ ToSet(E.outp) \subseteq (s0.peers \cup s1.peers \cup NewInLine)  \* frames only arrive on streams the trace knows
               /\ SameView({"ON_NEW_OUTBOUND_STREAM", "ON_CLOSED_OUTBOUND_STREAM"})

MeshOK(s1)  == /\ \A t \in DOMAIN s1.mesh \cup MeshTopics : MeshOf(s1.mesh, t) = MeshG(t)
               /\ SameView({"GRAFT", "PRUNE"})

Handed      == ToSet(E.dsub) \cup ToSet(E.dfwd)     \* handed to a subscriber or forwarded to a peer
DelivMissing(s1) == {m \in Handed : At(s1.deliv, m, 0) = 0}
DelivTwice(s1)   == {m \in DOMAIN s1.deliv : s1.deliv[m] > 1}
DelivOK(s1) == /\ DelivMissing(s1) = {}
               /\ (E.t < SeenTTLms => DelivTwice(s1) = {})
               /\ SameView({"DELIVER_MESSAGE"})

\* E.puberr: the attempt failed BEFORE it reached validation (closed topic, cancelled context, ...): it is the caller's,
\* not the node's, and zero events are accepted for it. An attempt refused BY validation did reach it: exactly one event.
Pubs        == Sel(E.tev, {"PUBLISH_MESSAGE"})
PubOK(s1)   == /\ CASE E.a = "publish"  -> /\ (IF E.puberr THEN Len(Pubs) <= 1 ELSE Len(Pubs) = 1)
                                           /\ \A i \in DOMAIN Pubs : Pubs[i].topic = E.at /\ (Pubs[i].m = E.am \/ Pubs[i].unres)
                    [] E.a = "pubbatch" -> /\ (IF E.puberr THEN Len(Pubs) <= Len(E.ams) ELSE Len(Pubs) = Len(E.ams))
                                           /\ \A i \in DOMAIN Pubs : Pubs[i].topic = E.at
                                           /\ (~E.puberr => \A i \in DOMAIN Pubs : Pubs[i].m = E.ams[i] \/ Pubs[i].unres)
                    [] OTHER            -> Len(Pubs) = 0
               /\ \A m \in DOMAIN s1.pub : s1.pub[m] <= 1

\* SEND_RPC / DROP_RPC against the pushes seen by the queue hook: every push, in order, is matched by
\* the event of its outcome with the same content; a DROP_RPC may also stand for an RPC that was never
\* pushed (gossipsub drops oversized fragments before the queue); a SEND_RPC may not.
RpcT == Sel(E.tev, {"SEND_RPC", "DROP_RPC"})
RECURSIVE Align(_, _, _, _)
Align(T, i, P, j) ==
    IF i > Len(T) THEN j > Len(P)
    ELSE \/ /\ j <= Len(P)
            /\ (P[j].ok <=> T[i].type = "SEND_RPC")
            /\ P[j].rpc = T[i].rpc
            /\ Align(T, i + 1, P, j + 1)
         \/ /\ T[i].type = "DROP_RPC"
            /\ Align(T, i + 1, P, j)
NSend == Len(Sel(E.tev, {"SEND_RPC"}))
NDrop == Len(Sel(E.tev, {"DROP_RPC"}))
RpcOK(s0, s1) ==
               /\ SameView({"SEND_RPC", "DROP_RPC"})
               /\ (E.hasPush => /\ NSend = E.pushOk /\ NDrop >= E.pushFull
                                /\ Align(RpcT, 1, E.push, 1))

\* file tracers: the JSON and protobuf files, parsed back after Close, hold the in-memory sequence
Full(e)     == [type |-> e.type, p |-> e.p, topic |-> e.topic, m |-> e.m, via |-> e.via, proto |-> e.proto,
                reason |-> e.reason, rpc |-> e.rpc]
Fulls(sq)   == [i \in DOMAIN sq |-> Full(sq[i])]
FilesOK     == /\ Fulls(E.json) = Fulls(hist) /\ Fulls(E.pb) = Fulls(hist)
               /\ E.jsonErr = "" /\ E.pbErr = "" /\ E.traced = Len(hist)

-----------------------------------------------------------------------------
Base == [scn |-> E.scn, i |-> E.i, a |-> E.a, at |-> E.at, ap |-> E.ap, router |-> E.router]
V(pred, info) == [pred |-> pred, line |-> Base, info |-> info]

Viols(s0, s1, pg1) ==
    (IF AltOK(s1) THEN {} ELSE
        {V("P_C19_Alternate", [bad |-> s1.bad, extra |-> s1.joined \ JoinedG, missing |-> JoinedG \ s1.joined,
                               meshTopics |-> MeshTopics, views |-> SameView({"JOIN", "LEAVE"})])})
    \cup
    (IF PeersOK(s0, s1, pg1) THEN {} ELSE
        {V("P_C19_Peers", [rebuilt |-> s1.peers, router |-> ToSet(E.rpeers), hasRouter |-> E.hasRpeers, raw |-> pg1,
                           queues |-> ToSet(E.qpeers), framesTo |-> ToSet(E.outp),
                           views |-> SameView({"ON_NEW_OUTBOUND_STREAM", "ON_CLOSED_OUTBOUND_STREAM"})])})
    \cup
    (IF MeshOK(s1) THEN {} ELSE
        {V("P_C19_Mesh", [diff |-> {[t |-> t, rebuilt |-> MeshOf(s1.mesh, t), real |-> MeshG(t)] :
                                        t \in {x \in DOMAIN s1.mesh \cup MeshTopics : MeshOf(s1.mesh, x) # MeshG(x)}},
                          views |-> SameView({"GRAFT", "PRUNE"})])})
    \cup
    (IF DelivOK(s1) THEN {} ELSE
        {V("P_C19_Deliver", [missing |-> DelivMissing(s1), twice |-> IF E.t < SeenTTLms THEN DelivTwice(s1) ELSE {},
                             views |-> SameView({"DELIVER_MESSAGE"})])})
    \cup
    (IF PubOK(s1) THEN {} ELSE
        {V("P_C19_Publish", [events |-> Len(Pubs), twice |-> {m \in DOMAIN s1.pub : s1.pub[m] > 1}])})
    \cup
    (IF RpcOK(s0, s1) THEN {} ELSE
        {V("P_C19_Rpc", [send |-> NSend, drop |-> NDrop, pushOk |-> E.pushOk, pushFull |-> E.pushFull, hasPush |-> E.hasPush,
                         views |-> SameView({"SEND_RPC", "DROP_RPC"}),
                         aligned |-> (E.hasPush => Align(RpcT, 1, E.push, 1))])})

\* after a reported divergence: continue from the ground truth
Resync(s1, pg1) ==
    [s1 EXCEPT !.peers  = IF E.hasRpeers THEN ToSet(E.rpeers) ELSE pg1,
               !.joined = JoinedG,
               !.mesh   = MeshFnG,
               !.deliv  = [m \in DOMAIN s1.deliv \cup Handed |-> 1],
               !.pub    = [m \in DOMAIN s1.pub |-> 1],
               !.bad    = {}]

-----------------------------------------------------------------------------
TInit == /\ TLCSet(1, 0) /\ l = 1 /\ peersG = {} /\ hist = <<>> /\ nviol = 0 /\ RInitPred

More == l <= Len(Trace)

TReset ==
    /\ More /\ E.a = "reset"
    /\ Set(R0) /\ peersG' = {} /\ hist' = <<>> /\ l' = l + 1 /\ UNCHANGED nviol

TStep ==
    /\ More /\ E.a \notin {"reset", "files"}
    /\ LET s0  == S
           s1  == Replay(s0, Keyed(E.tev))
           pg1 == RawPeers(peersG, E.ev, 1)
           vs  == Viols(s0, s1, pg1)
       IN /\ \A v \in vs : PrintT(<<"VIOL", ToJson(v)>>)
          /\ Set(IF vs = {} THEN s1 ELSE Resync(s1, pg1))
          /\ peersG' = IF vs = {} THEN pg1 ELSE Resync(s1, pg1).peers
          /\ nviol' = nviol + Cardinality(vs)
    /\ hist' = IF E.files THEN hist \o E.tev ELSE hist
    /\ l' = l + 1

TFiles ==
    /\ More /\ E.a = "files"
    /\ IF FilesOK THEN TRUE
       ELSE PrintT(<<"VIOL", ToJson(V("P_C19_Files", [mem |-> Len(hist), json |-> Len(E.json), pb |-> Len(E.pb),
                                                    jsonErr |-> E.jsonErr, pbErr |-> E.pbErr, traced |-> E.traced,
                                                    jsonEq |-> Fulls(E.json) = Fulls(hist), pbEq |-> Fulls(E.pb) = Fulls(hist)]))>>)
    /\ nviol' = nviol + (IF FilesOK THEN 0 ELSE 1)
    /\ l' = l + 1 /\ UNCHANGED <<peersG, hist, rvars>>

TNext == TReset \/ TStep \/ TFiles

TraceSpec == TInit /\ [][TNext]_tvars

\* high-water mark of the cursor (needs -workers 1); the run is complete iff it reaches Len(Trace) + 1
HW == IF TLCGet(1) < l THEN TLCSet(1, l) ELSE TRUE
Accepted == PrintT(<<"HW", TLCGet(1), Len(Trace) + 1>>)
=============================================================================
