SPECIFICATION Spec
CONSTANTS
  Peers = {"p1", "p2"}
  PeerSeq <- MCPeerSeq
  Topics = {"T1", "T2"}
  Msgs = {"m1", "m2"}
  Cap = 1
  LeaveEmitsJoin = FALSE
  DisconnectEmitsNoClose = TRUE
  LeaveOmitsPrune = FALSE
  BatchDeliversTwice = FALSE
INVARIANTS P_C19_Mesh
CHECK_DEADLOCK FALSE
