SPECIFICATION Spec
CONSTANTS
  Peers = {"p1", "p2"}
  PeerSeq <- MCPeerSeq
  Topics = {"T1", "T2"}
  Msgs = {"m1", "m2"}
  Cap = 1
  LeaveEmitsJoin = FALSE
  DisconnectEmitsNoClose = TRUE
  LeaveOmitsPrune = FALSE
  BatchDeliversTwice = FALSE
INVARIANTS TypeOK P_C19_Alternate P_C19_Peers P_C19_Mesh P_C19_Deliver P_C19_Publish P_C19_Rpc
CHECK_DEADLOCK FALSE
