---------------------------- MODULE TraceReplay ----------------------------
(* C19 - the event trace is a faithful account from which state can be rebuilt.

   This module is the *meaning* of the trace: a little machine whose variables
   are rebuilt ONLY from pb.TraceEvent records, one action per TraceEvent type.
   GRAFT / PRUNE / JOIN / LEAVE and the outbound-stream events are applied as
   plain set operations:

     ON_NEW_OUTBOUND_STREAM(p)     peersT + p
     ON_CLOSED_OUTBOUND_STREAM(p)  peersT - p, and p leaves every meshT[t]
     JOIN(t)                       requires t \notin joinedT;  joinedT + t
     LEAVE(t)                      requires t \in joinedT;     joinedT - t
     GRAFT(p,t) / PRUNE(p,t)       meshT[t] + p / meshT[t] - p
     DELIVER_MESSAGE(m)            delivT[m] + 1        (bag)
     PUBLISH_MESSAGE(m)            pubT[m] + 1          (bag)
     SEND_RPC(p,meta)/DROP_RPC     sendT[p] / dropT[p]: count and the RPC metadata
     every other type              ignored

   The library's Leave emits LEAVE(t) *followed by* one PRUNE(p,t) per mesh member
   (gossipsub.go Leave), so LEAVE itself does not discard meshT[t]: the PRUNE events
   empty it, and at a quiet state meshT[t] must be empty for a topic that is not
   joined (the mesh "as it stands" is then absent).  Either emission order gives the
   same state at quiescence.

   The enabling conditions of JOIN and LEAVE are the strict alternation per topic.
   To *judge* real traces rather than get stuck on them the machine is total: an
   event whose enabling condition is false leaves the state alone and is recorded
   in badT (P_C19_Alternate demands badT = {}).

   The machine is written as pure functions on a record (so that a trace
   specification can fold a whole step line's events in one step) and as actions
   on variables (so that it can be composed with a router model, MCTraceReplay). *)
EXTENDS Naturals, Sequences, FiniteSets, TLC

VARIABLES peersT,   \* set of peers with an open outbound stream
          joinedT,  \* set of topics joined
          meshT,    \* topic |-> non-empty set of mesh peers (absent = empty)
          delivT,   \* bag: message id |-> number of DELIVER_MESSAGE events
          pubT,     \* bag: message id |-> number of PUBLISH_MESSAGE events
          sendT,    \* peer |-> [n |-> number of SEND_RPC, last |-> metadata of the last one]
          dropT,    \* peer |-> [n |-> number of DROP_RPC, last |-> metadata of the last one]
          badT      \* set of <<type, topic>>: JOIN/LEAVE events whose enabling condition was false

rvars == <<peersT, joinedT, meshT, delivT, pubT, sendT, dropT, badT>>

-----------------------------------------------------------------------------
\* finite functions with a growing domain
At(f, k, d)  == IF k \in DOMAIN f THEN f[k] ELSE d
Put(f, k, v) == [x \in DOMAIN f \cup {k} |-> IF x = k THEN v ELSE f[x]]
Del(f, k)    == [x \in DOMAIN f \ {k} |-> f[x]]
Inc(b, k)    == Put(b, k, At(b, k, 0) + 1)
Empty        == [x \in {} |-> 0]

MeshOf(mt, t)     == At(mt, t, {})
SetMesh(mt, t, S) == IF S = {} THEN Del(mt, t) ELSE Put(mt, t, S)
Without(mt, p)    == LET keep == {t \in DOMAIN mt : mt[t] \ {p} # {}}
                     IN [t \in keep |-> mt[t] \ {p}]

R0 == [peers |-> {}, joined |-> {}, mesh |-> Empty, deliv |-> Empty, pub |-> Empty,
       send |-> Empty, drop |-> Empty, bad |-> {}]

-----------------------------------------------------------------------------
\* one function per TraceEvent type
RNew(s, p)      == [s EXCEPT !.peers = @ \cup {p}]
RClosed(s, p)   == [s EXCEPT !.peers = @ \ {p}, !.mesh = Without(@, p)]
JoinEnabled(s, t)  == t \notin s.joined
LeaveEnabled(s, t) == t \in s.joined
RJoin(s, t)     == IF JoinEnabled(s, t) THEN [s EXCEPT !.joined = @ \cup {t}]
                   ELSE [s EXCEPT !.bad = @ \cup {<<"JOIN", t>>}]
RLeave(s, t)    == IF LeaveEnabled(s, t) THEN [s EXCEPT !.joined = @ \ {t}]
                   ELSE [s EXCEPT !.bad = @ \cup {<<"LEAVE", t>>}]
RGraft(s, p, t) == [s EXCEPT !.mesh = SetMesh(@, t, MeshOf(@, t) \cup {p})]
RPrune(s, p, t) == [s EXCEPT !.mesh = SetMesh(@, t, MeshOf(@, t) \ {p})]
RDeliver(s, m)  == [s EXCEPT !.deliv = Inc(@, m)]
RPublish(s, m)  == [s EXCEPT !.pub = Inc(@, m)]
Count(f, p)     == IF p \in DOMAIN f THEN f[p].n ELSE 0
RSend(s, p, r)  == [s EXCEPT !.send = Put(@, p, [n |-> Count(@, p) + 1, last |-> r])]
RDrop(s, p, r)  == [s EXCEPT !.drop = Put(@, p, [n |-> Count(@, p) + 1, last |-> r])]

\* an event is a record with (at least) type, p, topic, m, rpc
Step(s, e) ==
    CASE e.type = "ON_NEW_OUTBOUND_STREAM"    -> RNew(s, e.p)
      [] e.type = "ON_CLOSED_OUTBOUND_STREAM" -> RClosed(s, e.p)
      [] e.type = "JOIN"                      -> RJoin(s, e.topic)
      [] e.type = "LEAVE"                     -> RLeave(s, e.topic)
      [] e.type = "GRAFT"                     -> RGraft(s, e.p, e.topic)
      [] e.type = "PRUNE"                     -> RPrune(s, e.p, e.topic)
      [] e.type = "DELIVER_MESSAGE"           -> RDeliver(s, e.m)
      [] e.type = "PUBLISH_MESSAGE"           -> RPublish(s, e.m)
      [] e.type = "SEND_RPC"                  -> RSend(s, e.p, e.rpc)
      [] e.type = "DROP_RPC"                  -> RDrop(s, e.p, e.rpc)
      [] OTHER                                -> s   \* RECV_RPC, REJECT_, DUPLICATE_MESSAGE, ADD/REMOVE_PEER

RECURSIVE ReplayFrom(_, _, _)
ReplayFrom(s, evs, i) == IF i > Len(evs) THEN s ELSE ReplayFrom(Step(s, evs[i]), evs, i + 1)
Replay(s, evs) == ReplayFrom(s, evs, 1)

-----------------------------------------------------------------------------
\* the same machine as actions on variables
S == [peers |-> peersT, joined |-> joinedT, mesh |-> meshT, deliv |-> delivT, pub |-> pubT,
      send |-> sendT, drop |-> dropT, bad |-> badT]
Set(s) == /\ peersT' = s.peers /\ joinedT' = s.joined /\ meshT' = s.mesh /\ delivT' = s.deliv
          /\ pubT' = s.pub /\ sendT' = s.send /\ dropT' = s.drop /\ badT' = s.bad
RInitPred == /\ peersT = {} /\ joinedT = {} /\ meshT = Empty /\ delivT = Empty /\ pubT = Empty
             /\ sendT = Empty /\ dropT = Empty /\ badT = {}

ON_NEW_OUTBOUND_STREAM(p)    == Set(RNew(S, p))
ON_CLOSED_OUTBOUND_STREAM(p) == Set(RClosed(S, p))
JOIN(t)           == JoinEnabled(S, t) /\ Set(RJoin(S, t))
LEAVE(t)          == LeaveEnabled(S, t) /\ Set(RLeave(S, t))
JOIN_Refused(t)   == ~JoinEnabled(S, t) /\ Set(RJoin(S, t))    \* recorded in badT
LEAVE_Refused(t)  == ~LeaveEnabled(S, t) /\ Set(RLeave(S, t))
GRAFT(p, t)       == Set(RGraft(S, p, t))
PRUNE(p, t)       == Set(RPrune(S, p, t))
DELIVER_MESSAGE(m) == Set(RDeliver(S, m))
PUBLISH_MESSAGE(m) == Set(RPublish(S, m))
SEND_RPC(p, r)    == Set(RSend(S, p, r))
DROP_RPC(p, r)    == Set(RDrop(S, p, r))
Ignored           == UNCHANGED rvars

\* the action taken for one event record
Apply(e) ==
    CASE e.type = "ON_NEW_OUTBOUND_STREAM"    -> ON_NEW_OUTBOUND_STREAM(e.p)
      [] e.type = "ON_CLOSED_OUTBOUND_STREAM" -> ON_CLOSED_OUTBOUND_STREAM(e.p)
      [] e.type = "JOIN"                      -> JOIN(e.topic) \/ JOIN_Refused(e.topic)
      [] e.type = "LEAVE"                     -> LEAVE(e.topic) \/ LEAVE_Refused(e.topic)
      [] e.type = "GRAFT"                     -> GRAFT(e.p, e.topic)
      [] e.type = "PRUNE"                     -> PRUNE(e.p, e.topic)
      [] e.type = "DELIVER_MESSAGE"           -> DELIVER_MESSAGE(e.m)
      [] e.type = "PUBLISH_MESSAGE"           -> PUBLISH_MESSAGE(e.m)
      [] e.type = "SEND_RPC"                  -> SEND_RPC(e.p, e.rpc)
      [] e.type = "DROP_RPC"                  -> DROP_RPC(e.p, e.rpc)
      [] OTHER                                -> Ignored
=============================================================================
