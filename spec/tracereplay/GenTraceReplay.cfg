SPECIFICATION Spec
CONSTANTS
  Peers = {"p1", "p2"}
  Topics = {"T1"}
  L = 4
  MaxMsgs = 2
INVARIANT Emit
CHECK_DEADLOCK FALSE
