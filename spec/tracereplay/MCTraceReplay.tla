--------------------------- MODULE MCTraceReplay ---------------------------
(* Model-level half of C19: TraceReplay composed with a small abstract router
   that emits trace events the way the library's call sites do, checked by TLC:
   whenever the node is quiet (every emitted event has been replayed) the
   variables rebuilt from the trace alone equal the router's real state.

   This is what shows that the DESIGN of the trace is sufficient, e.g.
     - a disconnect of a mesh peer emits only ON_CLOSED_OUTBOUND_STREAM (gossipsub.go
       OnClosedOutboundStream deletes the peer from every mesh without a PRUNE event):
       the mesh is still recoverable because the replay removes a closed peer from
       every meshT[t];
     - Leave emits LEAVE(t) and then one PRUNE(p,t) per mesh member; Join emits
       JOIN(t) and then one GRAFT(p,t) per initial member (also those promoted from fanout);
     - a GRAFT accepted from a peer without an outbound stream (D6) is still rebuilt;
     - every push onto a peer's outbound queue is followed by SEND_RPC (accepted) or
       DROP_RPC (refused); nothing is pushed for a peer without a queue.

   Constants that switch in known/seeded defects make the configurations that MUST
   fail (non-vacuity): LeaveEmitsJoin (defect D8: randomsub's Leave calls tracer.Join),
   DisconnectEmitsNoClose, LeaveOmitsPrune, BatchDeliversTwice.                       *)
EXTENDS TraceReplay

CONSTANTS Peers, PeerSeq,     \* PeerSeq: the peers in a fixed order (iteration order of the code's loops)
          Topics, Msgs,
          Cap,                \* capacity of a peer's outbound queue
          LeaveEmitsJoin, DisconnectEmitsNoClose, LeaveOmitsPrune, BatchDeliversTwice

VARIABLES peers,      \* router: peers with an outbound stream (gs.peers)
          joined,     \* topics joined (keys of gs.mesh)
          mesh,       \* mesh[t] (empty when not joined)
          q,          \* q[p]: RPCs waiting in p's outbound queue
          acc, ref,   \* pushes accepted / refused per peer in the current turn (what verifQueuePush counts)
          seen,       \* message ids marked seen
          delivered,  \* delivered[m]: times m was accepted for local delivery and forwarding
          published,  \* published[m]: local publication attempts that reached validation
          pend        \* trace events emitted and not yet replayed

mvars == <<peers, joined, mesh, q, acc, ref, seen, delivered, published>>
vars  == <<mvars, pend, rvars>>

Ev(ty, p, t, m, r) == [type |-> ty, p |-> p, topic |-> t, m |-> m, rpc |-> r]
SeqOf(Sx) == SelectSeq(PeerSeq, LAMBDA x : x \in Sx)
Quiet == pend = <<>>

Init == /\ peers = {} /\ joined = {} /\ mesh = [t \in Topics |-> {}]
        /\ q = [p \in Peers |-> 0] /\ acc = [p \in Peers |-> 0] /\ ref = [p \in Peers |-> 0]
        /\ seen = {} /\ delivered = [m \in Msgs |-> 0] /\ published = [m \in Msgs |-> 0]
        /\ pend = <<>> /\ RInitPred

-----------------------------------------------------------------------------
\* pushing RPCs: st = [evs, q, acc, ref] threaded through a loop over peers
\* P_C19_Rpc is an accounting per turn of the event loop (per step line in real traces): a turn
\* starts with the push counters and the SEND/DROP tallies of the replay at zero
Zero == [p \in Peers |-> 0]
St0 == [evs |-> <<>>, q |-> q, acc |-> Zero, ref |-> Zero]
NewTurn == /\ sendT' = Empty /\ dropT' = Empty
           /\ UNCHANGED <<peersT, joinedT, meshT, delivT, pubT, badT>>
NoPush == acc' = Zero /\ ref' = Zero /\ UNCHANGED q
Emit(st, e) == [st EXCEPT !.evs = Append(@, e)]
Push1(st, p, r) ==
    IF p \notin peers THEN st                              \* no queue: sendRPC returns silently
    ELSE IF st.q[p] < Cap
      THEN [evs |-> Append(st.evs, Ev("SEND_RPC", p, "", "", r)),
            q |-> [st.q EXCEPT ![p] = @ + 1], acc |-> [st.acc EXCEPT ![p] = @ + 1], ref |-> st.ref]
      ELSE [evs |-> Append(st.evs, Ev("DROP_RPC", p, "", "", r)),
            q |-> st.q, acc |-> st.acc, ref |-> [st.ref EXCEPT ![p] = @ + 1]]

RECURSIVE PushAll(_, _, _, _, _)
\* for each peer of ps in order: the event `pre` (GRAFT/PRUNE, "" = none) and then the push
PushAll(st, ps, r, pre, t) ==
    IF ps = <<>> THEN st
    ELSE LET p   == Head(ps)
             st1 == IF pre = "" THEN st ELSE Emit(st, Ev(pre, p, t, "", ""))
         IN PushAll(Push1(st1, p, r), Tail(ps), r, pre, t)

Commit(st) == pend' = st.evs /\ q' = st.q /\ acc' = st.acc /\ ref' = st.ref

-----------------------------------------------------------------------------
\* the abstract router (each action is one turn of the event loop; it runs only when quiet)

PeerUp(p) ==       \* pubsub.go newPeerStream -> rt.OnNewOutboundStream
    /\ Quiet /\ p \notin peers
    /\ peers' = peers \cup {p} /\ q' = [q EXCEPT ![p] = 0] /\ acc' = Zero /\ ref' = Zero
    /\ pend' = <<Ev("ON_NEW_OUTBOUND_STREAM", p, "", "", "")>>
    /\ NewTurn /\ UNCHANGED <<joined, mesh, seen, delivered, published>>

PeerDown(p) ==     \* handleDeadPeers / blacklist -> rt.OnClosedOutboundStream: no PRUNE events
    /\ Quiet /\ p \in peers
    /\ peers' = peers \ {p} /\ mesh' = [t \in Topics |-> mesh[t] \ {p}]
    /\ pend' = IF DisconnectEmitsNoClose THEN <<>> ELSE <<Ev("ON_CLOSED_OUTBOUND_STREAM", p, "", "", "")>>
    /\ NoPush /\ NewTurn /\ UNCHANGED <<joined, seen, delivered, published>>

Join(t) ==         \* first subscription or relay: announce to every peer, rt.Join
    /\ Quiet /\ t \notin joined
    /\ \E Sx \in SUBSET peers :     \* getPeers / fanout promotion: any subset
         LET st1 == PushAll(St0, SeqOf(peers), "sub", "", t)
             st2 == Emit(st1, Ev("JOIN", "", t, "", ""))
             st3 == PushAll(st2, SeqOf(Sx), "graft", "GRAFT", t)
         IN /\ mesh' = [mesh EXCEPT ![t] = Sx] /\ Commit(st3)
    /\ joined' = joined \cup {t}
    /\ NewTurn /\ UNCHANGED <<peers, seen, delivered, published>>

Leave(t) ==        \* last subscription and relay gone: announce, rt.Leave
    /\ Quiet /\ t \in joined
    /\ LET st1 == PushAll(St0, SeqOf(peers), "unsub", "", t)
           st2 == Emit(st1, Ev(IF LeaveEmitsJoin THEN "JOIN" ELSE "LEAVE", "", t, "", ""))
           st3 == PushAll(st2, SeqOf(mesh[t]), "prune", IF LeaveOmitsPrune THEN "" ELSE "PRUNE", t)
       IN Commit(st3)
    /\ joined' = joined \ {t} /\ mesh' = [mesh EXCEPT ![t] = {}]
    /\ NewTurn /\ UNCHANGED <<peers, seen, delivered, published>>

RemoteGraft(p, t) ==   \* handleGraft; p need not have an outbound stream (D6)
    /\ Quiet /\ t \in joined /\ p \notin mesh[t]
    /\ \/ /\ mesh' = [mesh EXCEPT ![t] = @ \cup {p}]                      \* accepted
          /\ pend' = <<Ev("GRAFT", p, t, "", "")>>
          /\ NoPush
       \/ /\ Commit(Push1(St0, p, "prune")) /\ UNCHANGED mesh              \* refused: PRUNE reply, no trace GRAFT
    /\ NewTurn /\ UNCHANGED <<peers, joined, seen, delivered, published>>

RemotePrune(p, t) ==   \* handlePrune traces PRUNE whether or not p was a member
    /\ Quiet /\ t \in joined
    /\ mesh' = [mesh EXCEPT ![t] = @ \ {p}]
    /\ pend' = <<Ev("PRUNE", p, t, "", "")>>
    /\ NoPush /\ NewTurn /\ UNCHANGED <<peers, joined, seen, delivered, published>>

HbGraft(p, t) ==       \* heartbeat graftPeer, then sendGraftPrune
    /\ Quiet /\ t \in joined /\ p \in peers \ mesh[t]
    /\ mesh' = [mesh EXCEPT ![t] = @ \cup {p}]
    /\ Commit(Push1(Emit(St0, Ev("GRAFT", p, t, "", "")), p, "graft"))
    /\ NewTurn /\ UNCHANGED <<peers, joined, seen, delivered, published>>

HbPrune(p, t) ==       \* heartbeat prunePeer
    /\ Quiet /\ t \in joined /\ p \in mesh[t]
    /\ mesh' = [mesh EXCEPT ![t] = @ \ {p}]
    /\ Commit(Push1(Emit(St0, Ev("PRUNE", p, t, "", "")), p, "prune"))
    /\ NewTurn /\ UNCHANGED <<peers, joined, seen, delivered, published>>

Drain(p) ==            \* the writer goroutine pops one RPC (no trace event)
    /\ Quiet /\ p \in peers /\ q[p] > 0
    /\ q' = [q EXCEPT ![p] = @ - 1] /\ acc' = Zero /\ ref' = Zero
    /\ NewTurn /\ UNCHANGED <<peers, joined, mesh, seen, delivered, published, pend>>

Receive(m) ==          \* a message from a peer
    /\ Quiet
    /\ \/ /\ m \in seen /\ pend' = <<Ev("DUPLICATE_MESSAGE", "", "", m, "")>>
          /\ NoPush /\ UNCHANGED <<seen, delivered>>
       \/ /\ m \notin seen /\ pend' = <<Ev("REJECT_MESSAGE", "", "", m, "")>>   \* fails validation
          /\ NoPush /\ UNCHANGED <<seen, delivered>>
       \/ /\ m \notin seen /\ seen' = seen \cup {m}                             \* pushMsg -> publishMessage
          /\ delivered' = [delivered EXCEPT ![m] = @ + 1]
          /\ Commit(PushAll(Emit(St0, Ev("DELIVER_MESSAGE", "", "", m, "")), SeqOf(peers), "msg", "", ""))
    /\ NewTurn /\ UNCHANGED <<peers, joined, mesh, published>>

Publish(m) ==          \* Topic.Publish: ValidateLocal traces PUBLISH_MESSAGE, then publishMessage
    /\ Quiet /\ m \notin seen /\ published[m] = 0
    /\ published' = [published EXCEPT ![m] = @ + 1]
    /\ \/ /\ seen' = seen \cup {m} /\ delivered' = [delivered EXCEPT ![m] = @ + 1]
          /\ Commit(PushAll(Emit(Emit(St0, Ev("PUBLISH_MESSAGE", "", "", m, "")),
                                 Ev("DELIVER_MESSAGE", "", "", m, "")), SeqOf(peers), "msg", "", ""))
       \/ /\ pend' = <<Ev("PUBLISH_MESSAGE", "", "", m, ""), Ev("REJECT_MESSAGE", "", "", m, "")>>  \* local validator rejects
          /\ NoPush /\ UNCHANGED <<seen, delivered>>
    /\ NewTurn /\ UNCHANGED <<peers, joined, mesh>>

RECURSIVE EmitAll(_, _, _)
EmitAll(st, ty, ms) == IF ms = <<>> THEN st ELSE EmitAll(Emit(st, Ev(ty, "", "", Head(ms), "")), ty, Tail(ms))
MsgSeq == CHOOSE sq \in [1..Cardinality(Msgs) -> Msgs] : \A i, j \in DOMAIN sq : i # j => sq[i] # sq[j]

PublishBatch ==        \* AddToBatch per message (PUBLISH_MESSAGE each), then publishMessageBatch
    /\ Quiet /\ seen = {} /\ \A m \in Msgs : published[m] = 0
    /\ published' = [m \in Msgs |-> 1] /\ seen' = Msgs /\ delivered' = [m \in Msgs |-> 1]
    /\ LET st1 == EmitAll(St0, "PUBLISH_MESSAGE", MsgSeq)
           st2 == EmitAll(st1, "DELIVER_MESSAGE", MsgSeq)
           st3 == IF BatchDeliversTwice THEN EmitAll(st2, "DELIVER_MESSAGE", MsgSeq) ELSE st2
       IN Commit(PushAll(st3, SeqOf(peers), "msg", "", ""))
    /\ NewTurn /\ UNCHANGED <<peers, joined, mesh>>

\* the tracer consumes one event: the TraceReplay action of its type
ReplayOne ==
    /\ pend # <<>>
    /\ Apply(Head(pend))
    /\ pend' = Tail(pend)
    /\ UNCHANGED mvars

Next == \/ \E p \in Peers : PeerUp(p) \/ PeerDown(p) \/ Drain(p)
        \/ \E t \in Topics : Join(t) \/ Leave(t)
        \/ \E p \in Peers, t \in Topics : RemoteGraft(p, t) \/ RemotePrune(p, t) \/ HbGraft(p, t) \/ HbPrune(p, t)
        \/ \E m \in Msgs : Receive(m) \/ Publish(m)
        \/ PublishBatch
        \/ ReplayOne

Spec == Init /\ [][Next]_vars

-----------------------------------------------------------------------------
\* C19 at model level: at every quiet state the replayed variables equal the router's state
P_C19_Alternate == badT = {} /\ (Quiet => joinedT = joined)
P_C19_Peers     == Quiet => peersT = peers
P_C19_Mesh      == Quiet => \A t \in Topics \cup DOMAIN meshT : MeshOf(meshT, t) = (IF t \in Topics THEN mesh[t] ELSE {})
P_C19_Deliver   == Quiet => \A m \in Msgs : At(delivT, m, 0) = delivered[m] /\ At(delivT, m, 0) <= 1
P_C19_Publish   == Quiet => \A m \in Msgs : At(pubT, m, 0) = published[m]
P_C19_Rpc       == Quiet => \A p \in Peers : Count(sendT, p) = acc[p] /\ Count(dropT, p) = ref[p]

\* sanity of the model itself
TypeOK == /\ peers \subseteq Peers /\ joined \subseteq Topics
          /\ \A t \in Topics : mesh[t] \subseteq Peers /\ (t \notin joined => mesh[t] = {})
          /\ \A p \in Peers : q[p] \in 0..Cap

\* constant values for the configurations (a tuple cannot be written in a .cfg)
MCPeerSeq == <<"p1", "p2">>
MC3PeerSeq == <<"p1", "p2", "p3">>
=============================================================================
