SPECIFICATION FairSpec
CONSTANTS
  Peers = {"p1", "p2"}
  Msgs = {"m1", "m2", "m3"}
  MaxAdds = 4
  MaxAlls = 2
  MaxBreaks = 1
  SchedBug = "none"
INVARIANTS TypeOK P_X05_RoundRobin P_X05_SchedFifo P_X05_SchedExact
PROPERTY P_X05_SchedTerminates
CHECK_DEADLOCK FALSE
