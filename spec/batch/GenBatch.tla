------------------------------ MODULE GenBatch ------------------------------
(* Scenario generator for batch publishing inside a node (X05.a, b, c, e-h):
   every program of at most MaxOps calls

       add(b, t, kind)   Topic.AddToBatch on topic t into batch b; kind
                           ok      an acceptable new message
                           local   the same, WithLocalPublication(true)
                           reject  the topic validator rejects it
                           ignore  the topic validator ignores it
                           dup     the id of the most recently accepted message again
       pub(b, strat)     PubSub.PublishBatch(b) with strategy default | rr | lifo | badopt
       single(t)         an individual Topic.Publish on t (the twin batches are compared with)

   with at least one pub, at most MaxAdds / MaxPubs / MaxSingles of each, at most
   one publication of an empty batch.  Only the INPUTS are emitted; python puts
   each program into an environment (peers of different protocol kinds, joined
   or not, flood publishing, gated writers and small queues) and appends the
   final PublishBatch calls and the flush.  What the real node does is judged
   by BatchTrace.                                                            *)
EXTENDS Naturals, Sequences, FiniteSets, TLC, Json

CONSTANTS MaxOps, MaxAdds, MaxPubs, MaxSingles, Batches, Topics, Kinds, Strats

VARIABLES hist, n, last, cont, nadd, npub, nsing, nempty
vars == <<hist, n, last, cont, nadd, npub, nsing, nempty>>

Init == /\ hist = <<>> /\ n = 0 /\ last = "" /\ cont = [b \in Batches |-> 0]
        /\ nadd = 0 /\ npub = 0 /\ nsing = 0 /\ nempty = 0

Name(k) == "m" \o ToString(k)
Rec(a, b, t, m, kind, strat) == hist' = Append(hist, [a |-> a, b |-> b, t |-> t, m |-> m, kind |-> kind, strat |-> strat])

Add(b, t, kind) ==
    /\ nadd < MaxAdds /\ nadd' = nadd + 1
    /\ IF kind = "dup"
         THEN /\ last # "" /\ Rec("add", b, t, last, kind, "") /\ UNCHANGED <<n, last, cont>>
         ELSE /\ Rec("add", b, t, Name(n + 1), kind, "") /\ n' = n + 1
              /\ IF kind \in {"ok", "local"} THEN last' = Name(n + 1) /\ cont' = [cont EXCEPT ![b] = @ + 1]
                                             ELSE UNCHANGED <<last, cont>>
    /\ UNCHANGED <<npub, nsing, nempty>>

Pub(b, strat) ==
    /\ npub < MaxPubs /\ npub' = npub + 1
    /\ cont[b] = 0 => nempty = 0
    /\ nempty' = IF cont[b] = 0 THEN nempty + 1 ELSE nempty
    /\ Rec("pub", b, "", "", "", strat)
    /\ cont' = IF strat = "badopt" THEN cont ELSE [cont EXCEPT ![b] = 0]
    /\ UNCHANGED <<n, last, nadd, nsing>>

Single(t) ==
    /\ nsing < MaxSingles /\ nsing' = nsing + 1
    /\ Rec("single", "", t, Name(n + 1), "", "") /\ n' = n + 1 /\ last' = Name(n + 1)
    /\ UNCHANGED <<cont, nadd, npub, nempty>>

Next == /\ Len(hist) < MaxOps
        /\ \/ \E b \in Batches, t \in Topics, k \in Kinds : Add(b, t, k)
           \/ \E b \in Batches, s \in Strats : Pub(b, s)
           \/ \E t \in Topics : Single(t)

Spec == Init /\ [][Next]_vars

Emit == (Len(hist) = MaxOps /\ npub >= 1 /\ nadd >= 1) => PrintT(<<"SCN", ToJson([acts |-> hist])>>)
=============================================================================
