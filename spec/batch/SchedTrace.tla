----------------------------- MODULE SchedTrace -----------------------------
(* Trace specification for the scheduler alone: histories recorded from the
   REAL pubsub.RoundRobinMessageIDScheduler by harness/drivers/x05 (TestX05Sched)

     {"e":"reset","scn":i}
     {"e":"add","p":peer,"m":msgid,"x":tag}            AddRPC(p, m, rpc#tag)
     {"e":"all","k":k,"broke":b,"out":[{"p","m","x"}]} one iteration of All(): everything it yielded, in order
                                                       (x = tag of the yielded *RPC, 0 = a pointer never added;
                                                        broke = the consumer stopped at the k-th element)

   are judged line by line against the monitor `pend` (message id -> pending
   [p, x] in AddRPC order), which is this module's own bookkeeping built from
   the add lines.  The element a consumer stopped at is in doubt (`doubt`): it
   is accepted again exactly at the head of its message's next yields.

   Nothing blocks: failures are printed as <<"VIOL", json>>, judged iterations
   as <<"STEP", json>> with coverage tags.                                    *)
EXTENDS Batch, TLC, Json

Trace == ndJsonDeserialize("trace.ndjson")

VARIABLES l, pend, doubt, scn, nall
tvars == <<l, pend, doubt, scn, nall>>

E == Trace[l]
NoDoubt == [p |-> "", m |-> "", x |-> 0]

Viol(pred, kind, more) ==
    PrintT(<<"VIOL", ToJson([pred |-> pred, kind |-> kind, at |-> [scn |-> scn, line |-> l], more |-> more])>>)
StepOut(tags, sig) == PrintT(<<"STEP", ToJson([at |-> [scn |-> scn, line |-> l], tags |-> tags, sig |-> sig])>>)
Tag(c, s) == IF c THEN {s} ELSE {}

\* ---------------------------------------------------------------- one All() line
Out == E.out
Sub(m) == OfMsg(Out, m)
\* pending list of m for this call: the element in doubt counts iff it comes back first
Redo(m) == doubt.x # 0 /\ doubt.m = m /\ Sub(m) # <<>> /\ Sub(m)[1].x = doubt.x
Eff(m) == IF Redo(m) THEN <<[p |-> doubt.p, x |-> doubt.x]>> \o Get(pend, m, <<>>) ELSE Get(pend, m, <<>>)
AllMsgs == DOMAIN pend \cup MsgsIn(Out)
EffTags == UNION {{Eff(m)[i].x : i \in DOMAIN Eff(m)} : m \in AllMsgs}
OutTags == {Out[i].x : i \in DOMAIN Out}
PX(s) == [i \in DOMAIN s |-> [p |-> s[i].p, x |-> s[i].x]]
FullCall == ~E.broke

JudgeAll ==
    LET lost    == EffTags \ OutTags
        alien   == OutTags \ EffTags
        twice   == {x \in OutTags : Cardinality({i \in DOMAIN Out : Out[i].x = x}) > 1}
        triples == UNION {{[p |-> Eff(m)[i].p, m |-> m, x |-> Eff(m)[i].x] : i \in DOMAIN Eff(m)} : m \in AllMsgs}
        pairBad == {i \in DOMAIN Out : Out[i].x \in EffTags /\ Out[i] \notin triples}
        XS(q)   == [i \in DOMAIN q |-> q[i].x]
        fifoBad == {m \in MsgsIn(Out) : ~IsPrefix(XS(Sub(m)), XS(Eff(m)))}
        more    == [k |-> E.k, broke |-> E.broke, out |-> Out, pend |-> pend, doubt |-> doubt]
        tags    == Tag(FullCall /\ Out # <<>>, "full") \cup Tag(E.broke, "partial")
                   \cup Tag(Out = <<>> /\ FullCall, "empty-iteration")
                   \cup Tag(MultiRound(Out), "multi-round") \cup Tag(Unequal(Out) /\ MultiRound(Out), "unequal-lists")
                   \cup Tag(\E i, j \in DOMAIN Out : i # j /\ Out[i].p = Out[j].p /\ Out[i].m = Out[j].m, "same-pair-twice")
                   \cup Tag(nall > 0 /\ Out # <<>>, "reuse-after-iteration")
                   \cup Tag(\E m \in MsgsIn(Out) : Redo(m), "doubt-yielded-again")
                   \cup Tag(doubt.x # 0 /\ doubt.m \in MsgsIn(Out) /\ ~Redo(doubt.m), "doubt-not-yielded-again")
                   \cup Tag(Cardinality({Out[i].p : i \in DOMAIN Out}) >= 3, "three-peers")
    IN /\ (FullCall /\ lost # {}) => Viol("P_X05_SchedExact", "rpc-lost", more)
       /\ (alien \ {0}) # {} => Viol("P_X05_SchedExact", "rpc-not-pending", more)
       /\ 0 \in OutTags => Viol("P_X05_SchedExact", "rpc-invented", more)
       /\ twice # {} => Viol("P_X05_SchedExact", "rpc-twice", more)
       /\ (E.broke /\ Len(Out) # E.k) => Viol("P_X05_SchedExact", "yield-after-stop", more)
       /\ pairBad # {} => Viol("P_X05_SchedExact", "peer-rpc-pair-broken", more)
       /\ (fifoBad # {} /\ alien = {} /\ twice = {} /\ pairBad = {}) => Viol("P_X05_SchedFifo", "not-in-add-order", more)
       /\ ~RoundRobinOK(Out) => Viol("P_X05_RoundRobin", IF FirstRoundOK(Out) THEN "later-round-uneven" ELSE "first-round-uneven", more)
       /\ StepOut(tags, [n |-> Len(Out), msgs |-> Cardinality(MsgsIn(Out)), k |-> E.k])

\* what stays pending after the call: everything not yielded; the element the consumer stopped at is in doubt
Rest(m) == SelectSeq(Eff(m), LAMBDA e : e.x \notin OutTags)
\* (after a complete iteration nothing is pending: what it lost was reported once)
NextPend == IF FullCall THEN <<>> ELSE [m \in {m \in AllMsgs : Rest(m) # <<>>} |-> Rest(m)]
NextDoubt == IF E.broke /\ Out # <<>> THEN Out[Len(Out)]
             ELSE IF doubt.x # 0 /\ doubt.m \notin MsgsIn(Out) /\ ~FullCall THEN doubt ELSE NoDoubt

TInit == l = 1 /\ pend = <<>> /\ doubt = NoDoubt /\ scn = 0 /\ nall = 0 /\ TLCSet(1, 0)

TNext ==
    /\ l <= Len(Trace)
    /\ CASE E.e = "reset" -> pend' = <<>> /\ doubt' = NoDoubt /\ scn' = E.scn /\ nall' = 0
         [] E.e = "add"   -> /\ pend' = [m \in DOMAIN pend \cup {E.m} |->
                                           IF m = E.m THEN Append(Get(pend, m, <<>>), [p |-> E.p, x |-> E.x]) ELSE pend[m]]
                             /\ UNCHANGED <<doubt, scn, nall>>
         [] E.e = "all"   -> /\ JudgeAll
                             /\ pend' = NextPend /\ doubt' = NextDoubt /\ nall' = nall + 1 /\ UNCHANGED scn
         [] OTHER         -> UNCHANGED <<pend, doubt, scn, nall>>
    /\ l' = l + 1

TraceSpec == TInit /\ [][TNext]_tvars

HW == IF TLCGet(1) < l THEN TLCSet(1, l) ELSE TRUE
Walked == PrintT(<<"HW", TLCGet(1), Len(Trace) + 1>>)
=============================================================================
