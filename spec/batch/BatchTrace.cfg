SPECIFICATION TraceSpec
CONSTRAINT HW
POSTCONDITION Walked
CHECK_DEADLOCK FALSE
