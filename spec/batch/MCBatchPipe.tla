---------------------------- MODULE MCBatchPipe ----------------------------
(* Exhaustive configurations of BatchPipe: two goroutines adding concurrently
   (an accepted, a rejected, a local-only message and one id added by both), a
   publisher calling PublishBatch twice, two peers with queue capacity 1.     *)
EXTENDS BatchPipe

MCAdders == {"g1", "g2"}
MCPlan == [g \in MCAdders |-> IF g = "g1" THEN <<"a", "r", "b">> ELSE <<"l", "a">>]
MCPlanSmall == [g \in MCAdders |-> IF g = "g1" THEN <<"a", "b">> ELSE <<"l", "a">>]
MCKind == [m \in {"a", "b", "l", "r"} |-> CASE m = "l" -> "local" [] m = "r" -> "reject" [] OTHER -> "ok"]
MCPeers == {"p1", "p2"}
MCRecip == [m \in {"a", "b", "l", "r"} |-> CASE m = "a" -> {"p1", "p2"} [] m = "b" -> {"p1"} [] m = "l" -> {"p1"} [] OTHER -> {"p2"}]
\* a single goroutine, one batch of three messages with 2 / 1 / 2 recipients: the ordering properties
MCAdders1 == {"g1"}
MCPlan1 == [g \in MCAdders1 |-> <<"a", "b", "c">>]
MCKind1 == [m \in {"a", "b", "c"} |-> "ok"]
MCRecip1 == [m \in {"a", "b", "c"} |-> IF m = "b" THEN {"p1"} ELSE {"p1", "p2"}]
=============================================================================
