----------------------------- MODULE BatchTrace -----------------------------
(* Trace specification for batch publishing inside a REAL node: step lines of
   harness/world (one per stimulus: tracer events `ev`, frames every fake peer
   received `out`, subscription deliveries `deliv`, post-snapshot `st`) written
   by harness/drivers/x05 (TestX05Node), which adds the field `x`
   (result of the call, observed content of every MessageBatch, what a
   recording RPCScheduler saw).  Stimuli:

     add   Topic.AddToBatch(b, m)      kind ok | local | reject | ignore | dup (ids are the names)
     pub   PubSub.PublishBatch(b)      strat default | rr | lifo | badopt
     conc  AddToBatch from several goroutines at once (+ PublishBatch calls at the same moments)
     publish   an individual Topic.Publish (the twin a batch is compared with)
     flush     all write gates opened, network drained (act.final: every batch was published before)
     gate / peer / subscribe / hb / ...   environment

   Monitors (this module's own bookkeeping, built from the stimuli and the
   observed results - not from the node's):
     bat    content each batch should have: sequence of [m, t, local]
     seen   names that went through AddToBatch / Publish;  acc  names accepted
     dlv    names delivered so far
     owed   per peer: names traced as sent (SendRPC) and not yet arrived, in order
     ref    per topic: recipients and routing state of the last publication judged
     pubd   batches published at least once

   Nothing blocks: failures are printed as <<"VIOL", json>> (predicate, kind),
   judged steps as <<"STEP", json>> with coverage tags; the orchestrator turns
   them into the verdict.                                                     *)
EXTENDS Batch, TLC, Json

Trace == ndJsonDeserialize("trace.ndjson")

VARIABLES l, cfg, bat, seen, acc, dlv, owed, ref, pubd
tvars == <<l, cfg, bat, seen, acc, dlv, owed, ref, pubd>>

E == Trace[l]
IsReset == E.act.a = "reset"
InScenario == l > 1 /\ ~IsReset /\ Trace[l - 1].scn = E.scn
P == Trace[l - 1].st
Q == E.st
X == E.x
A == E.act
Has(r, k) == k \in DOMAIN r
SetAt(f, k) == IF k \in DOMAIN f THEN Rng(f[k]) ELSE {}
Tag(c, s) == IF c THEN {s} ELSE {}
Names(s) == [i \in DOMAIN s |-> s[i].m]
Gossip == cfg.batchRouter

Where == [scn |-> E.scn, i |-> E.i, line |-> l, act |-> A.a]
Viol(pred, kind, more) == PrintT(<<"VIOL", ToJson([pred |-> pred, kind |-> kind, at |-> Where, more |-> more])>>)
StepOut(kind, tags, sig) == PrintT(<<"STEP", ToJson([kind |-> kind, at |-> Where, tags |-> tags, sig |-> sig])>>)

\* ---------------------------------------------------------------- what the line shows
Pushes == SelectSeq(E.ev, LAMBDA e : e.k \in {"Send", "Drop"})
MsgPushes == SelectSeq(Pushes, LAMBDA e : e.rpc.msgs # <<>>)
\* Send / Drop traces carrying a message, in order (the router puts one message in an RPC)
SD == [i \in DOMAIN MsgPushes |-> [k |-> MsgPushes[i].k, p |-> MsgPushes[i].p, m |-> MsgPushes[i].rpc.msgs[1].m]]
Dl == Names(SelectSeq(E.ev, LAMBDA e : e.k = "Deliver"))
Pb == Names(SelectSeq(E.ev, LAMBDA e : e.k = "Publish"))
RecipOf(m) == {SD[i].p : i \in {i \in DOMAIN SD : SD[i].m = m}}
DelivOn(t) == Names(SelectSeq(E.deliv, LAMBDA d : d.topic = t))
SubsOn(t) == IF Has(P, "subs") /\ t \in DOMAIN P.subs THEN P.subs[t] ELSE 0
Quiet == Dl = <<>> /\ SD = <<>> /\ E.deliv = <<>>
What == [deliver |-> Dl, pushes |-> SD, deliv |-> E.deliv, res |-> X.res, bat |-> X.bat]

\* routing state of topic t in snapshot S: equal signatures => an individual publish has the same recipients
Sig(S, t) == [joined |-> t \in DOMAIN S.mesh, mesh |-> SetAt(S.mesh, t), fan |-> SetAt(S.fanout, t),
              tp |-> SetAt(S.topics, t), q |-> DOMAIN S.peers, sc |-> S.scores, dir |-> Rng(S.direct)]

\* ---------------------------------------------------------------- every line: deliveries, frames, drops
FramesOf(p) ==
    LET fr == SelectSeq(E.out[p], LAMBDA f : f.msgs # <<>>) IN [i \in DOMAIN fr |-> fr[i].msgs[1].m]
SentTo(p) == Names(SelectSeq(SD, LAMBDA e : e.p = p /\ e.k = "Send"))
Due(p) == Get(owed, p, <<>>) \o SentTo(p)
FrameOK(p) == IsPrefix(FramesOf(p), Due(p))
PeersSeen == DOMAIN owed \cup DOMAIN E.out \cup {SD[i].p : i \in DOMAIN SD}
NextOwed == [p \in PeersSeen |->
               IF p \in DOMAIN E.out /\ ~FrameOK(p) THEN <<>>
               ELSE IF p \in DOMAIN E.out THEN SubSeq(Due(p), Len(FramesOf(p)) + 1, Len(Due(p))) ELSE Due(p)]
Free(p) == IF p \in DOMAIN P.peers THEN Minus(cfg.queue, P.peers[p].q) ELSE 0
NPush(p) == Len(SelectSeq(Pushes, LAMBDA e : e.p = p))
NDrop(p) == Len(SelectSeq(Pushes, LAMBDA e : e.p = p /\ e.k = "Drop"))
Multi == \E i \in DOMAIN MsgPushes : Len(MsgPushes[i].rpc.msgs) # 1
AccNow == acc \cup (IF A.a = "add" /\ X.res = "ok" THEN {A.m} ELSE {})
              \cup (IF A.a = "publish" THEN {A.m} ELSE {})
              \cup (IF A.a = "conc" THEN {X.adds[i].m : i \in {i \in DOMAIN X.adds : X.adds[i].res = "ok"}} ELSE {})

JudgeAlways ==
    /\ \A i \in DOMAIN Dl : (Dl[i] \in dlv \/ \E j \in 1..(i - 1) : Dl[j] = Dl[i]) =>
           Viol("P_X05_Once", "delivered-twice", [m |-> Dl[i], deliver |-> Dl])
    /\ \A p \in DOMAIN E.out : ~FrameOK(p) =>
           Viol("P_X05_Account", "frame-not-sent-or-out-of-order", [p |-> p, frames |-> FramesOf(p), due |-> Due(p)])
    /\ (A.a = "flush" /\ \E p \in DOMAIN NextOwed : NextOwed[p] # <<>>) =>
           Viol("P_X05_Account", "sent-copy-never-arrived", [owed |-> NextOwed])
    /\ (E.hb = 0 /\ Gossip) => \A p \in {Pushes[i].p : i \in DOMAIN Pushes} :
           NDrop(p) > Minus(NPush(p), Free(p)) =>
               Viol("P_X05_Account", "drop-with-room", [p |-> p, drops |-> NDrop(p), pushes |-> NPush(p), free |-> Free(p)])
    /\ (Rng(Dl) \cup MsgsIn(SD)) \ AccNow # {} =>
           Viol("P_X05_Admit", "unaccepted-message-published", [msgs |-> (Rng(Dl) \cup MsgsIn(SD)) \ AccNow, what |-> What])
    /\ Multi => Viol("P_X05_Account", "several-messages-in-one-rpc", [pushes |-> SD])

\* ---------------------------------------------------------------- add
IsNew == A.m \notin seen
Admits == A.kind \in {"ok", "local"} /\ IsNew
Before(b) == bat[b]
AfterAdd == IF Admits THEN Append(bat[A.b], [m |-> A.m, t |-> A.t, local |-> A.kind = "local"]) ELSE bat[A.b]
WantRes == CASE A.kind = "reject" /\ IsNew -> "err:reject"
             [] A.kind = "ignore" /\ IsNew -> "err:ignore"
             [] OTHER -> "ok"
JudgeAdd ==
    LET more == [m |-> A.m, kind |-> A.kind, new |-> IsNew, res |-> X.res, want |-> WantRes,
                 bat |-> X.bat[A.b], wantBat |-> Names(AfterAdd), ev |-> [deliver |-> Dl, pushes |-> SD, publish |-> Pb]]
        tags == {"add-" \o A.kind} \cup Tag(~IsNew, "add-known-id") \cup Tag(Len(AfterAdd) >= 3, "batch-of-3-or-more")
                \cup Tag(Cardinality({AfterAdd[i].t : i \in DOMAIN AfterAdd}) >= 2, "batch-mixed-topics")
    IN /\ X.res # WantRes => Viol("P_X05_Admit", IF WantRes # "ok" THEN "validation-error-not-returned"
                                                   ELSE IF IsNew THEN "accepted-message-refused" ELSE "duplicate-not-answered-with-nil", more)
       /\ X.bat[A.b] # Names(AfterAdd) =>
             Viol("P_X05_Admit", CASE ~IsNew -> "duplicate-added" [] A.kind \in {"reject", "ignore"} -> "rejected-message-added"
                                   [] OTHER -> "accepted-message-not-added", more)
       /\ \A b \in DOMAIN bat \ {A.b} : X.bat[b] # Names(bat[b]) => Viol("P_X05_Admit", "other-batch-changed", more)
       /\ ~Quiet => Viol("P_X05_Local", "published-before-publishbatch", more)
       /\ (IsNew /\ Pb # <<A.m>>) => Viol("P_X05_Local", "publish-trace-missing-or-repeated", more)
       /\ StepOut("add", tags, [kind |-> A.kind, new |-> IsNew, n |-> Len(AfterAdd)])

\* ---------------------------------------------------------------- pub
B == bat[A.b]
Routed == SelectSeq(B, LAMBDA e : ~e.local)
RN == Names(Routed)
TopicsOf(s) == {s[i].t : i \in DOMAIN s}
WantErr == IF ~Gossip THEN "err:router" ELSE IF A.strat = "badopt" THEN "err:option" ELSE "ok"
FirstOn(t) == Routed[CHOOSE i \in DOMAIN Routed : Routed[i].t = t /\ \A j \in 1..(i - 1) : Routed[j].t # t]
RefOK(t) == t \in DOMAIN ref /\ ref[t].sig = Sig(P, t)
\* the AddRPC calls a recording strategy saw, as (peer, message the RPC carries)
AddsPM == [i \in DOMAIN X.sched.adds |-> [p |-> X.sched.adds[i].p, m |-> X.sched.adds[i].rm]]

JudgePubOK ==
    LET more  == [b |-> A.b, strat |-> A.strat, batch |-> B, deliver |-> Dl, pushes |-> SD, deliv |-> E.deliv,
                  batAfter |-> X.bat[A.b], sched |-> X.sched]
        stray == MsgsIn(SD) \ Rng(RN)
        locals == {B[i].m : i \in {i \in DOMAIN B : B[i].local}}
        again == (Rng(Dl) \ Rng(Names(B))) \cup (stray \ locals)
        rr    == A.strat \in {"default", "rr"}
        rec   == A.strat \in {"rr", "lifo"}
        tags  == {"pub-" \o A.strat}
                 \cup Tag(B = <<>>, "pub-empty") \cup Tag(B = <<>> /\ A.b \in pubd, "pub-republish")
                 \cup Tag(locals # {}, "pub-with-local-only") \cup Tag(locals # {} /\ \E i \in DOMAIN B : B[i].local /\ SetAt(P.topics, B[i].t) # {}, "pub-local-only-with-topic-peers")
                 \cup Tag(Cardinality(TopicsOf(Routed)) >= 2, "pub-mixed-topics")
                 \cup Tag(rr /\ MultiRound(SD), "pub-multi-round") \cup Tag(rr /\ MultiRound(SD) /\ Unequal(SD), "pub-unequal-lists")
                 \cup Tag(\E i \in DOMAIN SD : SD[i].k = "Drop", "pub-with-drop")
                 \cup Tag(\E t \in TopicsOf(Routed) : Len(SelectSeq(Routed, LAMBDA e : e.t = t)) >= 2 /\ RecipOf(FirstOn(t).m) # {}, "equiv-within-batch")
                 \cup Tag(\E t \in TopicsOf(Routed) : RefOK(t) /\ ref[t].kind = "single" /\ ref[t].R # {}, "equiv-batch-after-single")
                 \cup Tag(\E t \in TopicsOf(Routed) : ~(t \in DOMAIN P.mesh) /\ SetAt(P.fanout, t) = {} /\ SetAt(Q.fanout, t) # {}, "fanout-selected-by-batch")
                 \cup Tag(cfg.flood /\ SD # <<>>, "flood-publish")
                 \cup Tag(\E t \in TopicsOf(Routed) : t \in DOMAIN P.mesh /\ RecipOf(FirstOn(t).m) # {}, "mesh-publish")
                 \cup Tag(\E t \in TopicsOf(B) : SubsOn(t) > 0, "pub-with-subscriber")
                 \cup Tag(rec /\ X.sched.alls = 1 /\ SD # <<>>, "strategy-recorded")
    IN \* X05.f  local processing
       /\ (Dl # Names(B) /\ again = {}) => Viol("P_X05_Local", "batch-not-delivered-once-in-order", more)
       /\ \A t \in TopicsOf(B) \cup {E.deliv[i].topic : i \in DOMAIN E.deliv} :
             LET want == Names(SelectSeq(B, LAMBDA e : e.t = t)) IN
             /\ (SubsOn(t) = 1 /\ DelivOn(t) # want /\ again = {}) => Viol("P_X05_Local", "subscriber-not-served-once-in-order", more)
             /\ (SubsOn(t) = 0 /\ DelivOn(t) # <<>>) => Viol("P_X05_Local", "delivery-without-subscription", more)
       /\ stray \cap locals # {} => Viol("P_X05_Local", "local-only-message-sent", more)
       \* X05.h  consumed once
       /\ again # {} => Viol("P_X05_Once", "published-again", [msgs |-> again] @@ more)
       /\ X.bat[A.b] # <<>> => Viol("P_X05_Once", "batch-not-emptied", more)
       /\ \A b \in DOMAIN bat \ {A.b} : X.bat[b] # Names(bat[b]) => Viol("P_X05_Once", "other-batch-changed", more)
       \* X05.b  one trace per pair
       /\ ~NoRepeat(PM(SD)) => Viol("P_X05_Account", "pair-pushed-twice", more)
       \* X05.c  round robin
       /\ (rr /\ ~RoundRobinOK(SD)) =>
             Viol("P_X05_RoundRobin", IF FirstRoundOK(SD) THEN "later-round-uneven" ELSE "first-round-uneven", more)
       \* X05.e  the strategy of the options is the one used
       /\ (rec /\ ~X.sched.used) => Viol("P_X05_Strategy", "no-recorder", more)
       /\ (rec /\ SD # <<>> /\ X.sched.alls = 0) => Viol("P_X05_Strategy", "strategy-ignored", more)
       /\ (rec /\ X.sched.alls > 1) => Viol("P_X05_Strategy", "all-called-more-than-once", more)
       /\ (rec /\ X.sched.alls > 0 /\ ~SameBag(AddsPM, PM(SD))) => Viol("P_X05_Strategy", "addrpc-calls-differ-from-pushes", more)
       /\ (rec /\ \E i \in DOMAIN X.sched.adds : X.sched.adds[i].m # X.sched.adds[i].rm) => Viol("P_X05_Strategy", "addrpc-key-is-not-the-message-id", more)
       /\ (rec /\ X.sched.alls > 0 /\ PM(X.sched.yields) # PM(SD)) => Viol("P_X05_Strategy", "pushes-not-in-yield-order", more)
       /\ (A.strat = "lifo" /\ X.sched.alls > 0 /\ PM(SD) # Rev(AddsPM) /\ PM(X.sched.yields) = PM(SD)) =>
             Viol("P_X05_Strategy", "recorder-inconsistent", more)
       \* X05.a  same recipients as an individual publication in the same routing state
       /\ Gossip => \A t \in TopicsOf(Routed) :
             LET R0 == RecipOf(FirstOn(t).m) IN
             /\ \A i \in DOMAIN Routed : (Routed[i].t = t /\ RecipOf(Routed[i].m) # R0 /\ again = {}) =>
                   Viol("P_X05_Equiv", "recipients-differ-within-batch", [t |-> t, m |-> Routed[i].m, R |-> RecipOf(Routed[i].m), first |-> R0] @@ more)
             /\ (RefOK(t) /\ ref[t].R # R0 /\ again = {}) =>
                   Viol("P_X05_Equiv", "recipients-differ-from-individual-publish", [t |-> t, R |-> R0, ref |-> ref[t]] @@ more)
       /\ StepOut("pub", tags, [strat |-> A.strat, n |-> Len(B), routed |-> Len(Routed), pushes |-> Len(SD),
                                msgs |-> Cardinality(MsgsIn(SD)), drops |-> Len(SelectSeq(SD, LAMBDA e : e.k = "Drop")),
                                topics |-> Cardinality(TopicsOf(Routed))])

JudgePubErr ==
    LET more == [b |-> A.b, strat |-> A.strat, res |-> X.res, want |-> WantErr, what |-> What] IN
    /\ (WantErr # "ok" /\ X.res = "ok") => Viol("P_X05_Once", "no-error-reported", more)
    /\ (X.res # WantErr /\ X.res # "ok") => Viol("P_X05_Once", "unexpected-error", more)
    /\ (X.res # "ok" /\ ~Quiet) => Viol("P_X05_Once", "published-despite-error", more)
    /\ X.res # "ok" => StepOut("puberr", {IF X.res = "err:router" THEN "router-unsupported" ELSE IF X.res = "err:option" THEN "option-error" ELSE "other-error"},
                               [strat |-> A.strat, n |-> Len(B)])

JudgePub == JudgePubErr /\ (X.res = "ok" /\ WantErr = "ok" => JudgePubOK)

\* ---------------------------------------------------------------- individual publish (the twin)
JudgeSingle ==
    LET t == A.t
        R == RecipOf(A.m)
        loc == Has(A, "localOnly") /\ A.localOnly
    IN (Gossip /\ ~loc /\ A.m \in Rng(Dl)) =>
          /\ (RefOK(t) /\ ref[t].R # R) =>
                Viol("P_X05_Equiv", IF ref[t].kind = "batch" THEN "recipients-differ-from-batch" ELSE "recipients-differ-between-individual-publishes",
                     [t |-> t, m |-> A.m, R |-> R, ref |-> ref[t], pushes |-> SD])
          /\ StepOut("single", Tag(RefOK(t) /\ ref[t].kind = "batch" /\ R # {}, "equiv-single-after-batch")
                               \cup Tag(\E i \in DOMAIN SD : SD[i].k = "Drop", "single-with-drop"), [n |-> Cardinality(R)])

\* ---------------------------------------------------------------- concurrent adds and publishes
ConcNames == {X.adds[i].m : i \in DOMAIN X.adds}
JudgeConc ==
    LET b    == A.b
        had  == Rng(Names(bat[b]))
        all  == had \cup ConcNames
        left == X.bat[b]
        more == [b |-> b, adds |-> X.adds, pubres |-> X.pubres, deliver |-> Dl, left |-> left, had |-> had]
        tags == {"conc"} \cup Tag(Len(X.pubres) > 0, "conc-with-publish")
                \cup Tag(Dl # <<>> /\ left # <<>>, "conc-publish-took-part")
                \cup Tag(Len(A.ms) >= 3, "conc-3-goroutines")
    IN /\ (\E i \in DOMAIN X.adds : X.adds[i].res # "ok") => Viol("P_X05_Admit", "concurrent-add-refused", more)
       /\ (\E i \in DOMAIN X.pubres : X.pubres[i] # "ok") => Viol("P_X05_Once", "unexpected-error", more)
       /\ all \ (Rng(Dl) \cup Rng(left)) # {} =>
             Viol("P_X05_Once", "lost-under-concurrency", [lost |-> all \ (Rng(Dl) \cup Rng(left))] @@ more)
       /\ (~NoRepeat(left) \/ Rng(left) \cap Rng(Dl) # {}) => Viol("P_X05_Once", "duplicated-under-concurrency", more)
       /\ (Rng(left) \cup Rng(Dl)) \ all # {} => Viol("P_X05_Once", "foreign-message-in-batch", more)
       /\ MsgsIn(SD) \ Rng(Dl) # {} => Viol("P_X05_Local", "sent-without-delivery", more)
       /\ StepOut("conc", tags, [g |-> Len(A.ms), n |-> Cardinality(ConcNames), pubs |-> Len(X.pubres), delivered |-> Len(Dl)])

JudgeFlush ==
    /\ (Has(A, "final") /\ A.final /\ acc \ (dlv \cup Rng(Dl)) # {}) =>
          Viol("P_X05_Once", "accepted-message-never-published", [msgs |-> acc \ (dlv \cup Rng(Dl))])
    /\ StepOut("flush", Tag(\E p \in DOMAIN E.out : Len(FramesOf(p)) >= 2, "gated-peer-drained-in-order"), [n |-> Cardinality(acc)])

Judge ==
    IF ~InScenario THEN TRUE
    ELSE /\ JudgeAlways
         /\ CASE A.a = "add" -> JudgeAdd
              [] A.a = "pub" -> JudgePub
              [] A.a = "publish" -> JudgeSingle
              [] A.a = "conc" -> JudgeConc
              [] A.a = "flush" -> JudgeFlush
              [] OTHER -> TRUE

\* ---------------------------------------------------------------- monitors
Resync(b) ==
    LET obs == X.bat[b]
        recOf(m) == IF \E i \in DOMAIN bat[b] : bat[b][i].m = m
                      THEN bat[b][CHOOSE i \in DOMAIN bat[b] : bat[b][i].m = m]
                      ELSE [m |-> m, t |-> IF Has(A, "t") THEN A.t ELSE "T1", local |-> FALSE]
    IN [i \in DOMAIN obs |-> recOf(obs[i])]
NextBat ==
    CASE A.a = "add" -> [bat EXCEPT ![A.b] = IF X.bat[A.b] = Names(AfterAdd) THEN AfterAdd ELSE Resync(A.b)]
      [] A.a = "pub" -> [bat EXCEPT ![A.b] = IF X.res = "ok" /\ X.bat[A.b] = <<>> THEN <<>> ELSE Resync(A.b)]
      [] A.a = "conc" -> [bat EXCEPT ![A.b] = Resync(A.b)]
      [] OTHER -> bat
NextRef ==
    IF ~Gossip THEN ref
    ELSE CASE A.a = "pub" /\ X.res = "ok" ->
                 [t \in DOMAIN ref \cup TopicsOf(Routed) |->
                     IF t \in TopicsOf(Routed) THEN [R |-> RecipOf(FirstOn(t).m), sig |-> Sig(Q, t), kind |-> "batch"] ELSE ref[t]]
           [] A.a = "publish" /\ A.m \in Rng(Dl) /\ ~(Has(A, "localOnly") /\ A.localOnly) ->
                 [t \in DOMAIN ref \cup {A.t} |-> IF t = A.t THEN [R |-> RecipOf(A.m), sig |-> Sig(Q, t), kind |-> "single"] ELSE ref[t]]
           [] OTHER -> ref

EmptyBat == [b1 |-> <<>>, b2 |-> <<>>]
TInit == /\ l = 1 /\ cfg = [batchRouter |-> TRUE] /\ bat = EmptyBat /\ seen = {} /\ acc = {} /\ dlv = {}
         /\ owed = <<>> /\ ref = <<>> /\ pubd = {} /\ TLCSet(1, 0)

TNext ==
    /\ l <= Len(Trace)
    /\ Judge
    /\ IF IsReset \/ ~InScenario
         THEN /\ cfg' = (IF IsReset THEN A.cfg ELSE cfg) /\ bat' = EmptyBat /\ seen' = {} /\ acc' = {} /\ dlv' = {}
              /\ owed' = <<>> /\ ref' = <<>> /\ pubd' = {}
         ELSE /\ cfg' = cfg /\ bat' = NextBat /\ acc' = AccNow /\ dlv' = dlv \cup Rng(Dl)
              /\ seen' = seen \cup (IF A.a \in {"add", "publish"} THEN {A.m} ELSE {}) \cup (IF A.a = "conc" THEN ConcNames ELSE {})
              /\ owed' = NextOwed /\ ref' = NextRef
              /\ pubd' = IF A.a = "pub" /\ X.res = "ok" THEN pubd \cup {A.b} ELSE pubd
    /\ l' = l + 1

TraceSpec == TInit /\ [][TNext]_tvars

HW == IF TLCGet(1) < l THEN TLCSet(1, l) ELSE TRUE
Walked == PrintT(<<"HW", TLCGet(1), Len(Trace) + 1>>)
=============================================================================
