------------------------------ MODULE GenSched ------------------------------
(* Scenario generator for the scheduler alone (X05.c, X05.d): every sequence of
   L operations on one RoundRobinMessageIDScheduler,

       add(p, m)    AddRPC(p, m, <a fresh RPC>)
       all(0)       a complete iteration of All()
       all(k)       an iteration the consumer breaks off at the k-th element
                    (only while more than k RPCs are pending; at most MaxPartial
                    such calls per scenario)

   Only the INPUTS are emitted; what the real scheduler yields is recorded by
   the Go driver and judged by SchedTrace.  The driver ends every scenario with
   two complete iterations (the second must yield nothing).  `tot` only bounds k
   (as built, the element a consumer stops at stays pending).                *)
EXTENDS Naturals, Sequences, FiniteSets, TLC, Json

CONSTANTS Peers, Msgs, L, MaxPartial

VARIABLES hist, tot, npart
vars == <<hist, tot, npart>>

Init == hist = <<>> /\ tot = 0 /\ npart = 0

Add(p, m) == /\ hist' = Append(hist, [op |-> "add", p |-> p, m |-> m, k |-> 0])
             /\ tot' = tot + 1 /\ UNCHANGED npart
AllFull   == /\ tot > 0 \/ (hist # <<>> /\ hist[Len(hist)].op = "add")
             /\ hist' = Append(hist, [op |-> "all", p |-> "", m |-> "", k |-> 0])
             /\ tot' = 0 /\ UNCHANGED npart
AllPart(k) == /\ npart < MaxPartial /\ k < tot
              /\ hist' = Append(hist, [op |-> "all", p |-> "", m |-> "", k |-> k])
              /\ tot' = tot - k + 1 /\ npart' = npart + 1

Next == /\ Len(hist) < L
        /\ \/ \E p \in Peers, m \in Msgs : Add(p, m)
           \/ AllFull
           \/ \E k \in 1..3 : AllPart(k)

Spec == Init /\ [][Next]_vars

Emit == Len(hist) = L => PrintT(<<"SCN", ToJson([ops |-> hist])>>)
=============================================================================
