------------------------------- MODULE Batch -------------------------------
(* Extension family X05 - batch publishing.

   Code: /repo/messagebatch.go (MessageBatch.add/take, RPCScheduler,
   RoundRobinMessageIDScheduler.AddRPC/All), /repo/topic.go (Topic.AddToBatch,
   Topic.validate, BatchPublishOptions, setDefaultBatchPublishOptions),
   /repo/pubsub.go (PubSub.PublishBatch, the sendMessageBatch arm of
   processLoop, publishMessageBatch), /repo/gossipsub.go
   (GossipSubRouter.PublishBatch, rpcs, sendRPC/doSendRPC).

   PROPERTIES X05.a .. X05.h

   X05.a  EQUIVALENCE.  Every non-local message of a published batch is routed
          exactly as an individually published message: its set of recipients
          (peers with a SendRPC or a DropRPC trace carrying it) equals the set an
          individual Publish of a message on the same topic has in the same routing
          state (mesh / fanout / topic peers / scores / direct / queues), and so
          all messages of one topic in one batch have the same recipients.
          [P_X05_Equiv]
   X05.b  ACCOUNTING.  For every (peer, message) pair the router scheduled there is
          exactly one SendRPC or DropRPC trace, never two; a copy traced as sent
          arrives at that peer exactly once, in the order of the traces (batched
          copies use the ordinary queue class: they never overtake earlier
          publications); a dropped copy never arrives; DropRPC happens only when
          the peer's outbound queue has no room.                 [P_X05_Account]
   X05.c  ROUND ROBIN.  Within one iteration of RoundRobinMessageIDScheduler.All
          the k-th RPC of every message id is yielded before the (k+1)-th RPC of any
          message id ("round-robin order of message IDs": all messages make
          progress evenly, whatever the number of recipients each has); the router
          pushes the copies of a PublishBatch to the peer queues in that order.
                                                               [P_X05_RoundRobin]
   X05.d  SCHEDULER CONSERVATION.  A complete iteration of All yields every RPC
          added since the previous complete iteration exactly once, with the peer
          it was added for (nothing lost, nothing invented, nothing twice), the
          RPCs of one message id in AddRPC order, and leaves the scheduler empty
          and reusable.  (An iteration the consumer breaks off leaves the element
          it stopped at in doubt: it may or may not be yielded again.)
                                            [P_X05_SchedExact, P_X05_SchedFifo]
   X05.e  STRATEGY.  PublishBatch uses exactly the RPCScheduler given in the
          options (the RoundRobinMessageIDScheduler by default): one AddRPC per
          (recipient, message), keyed by the message's id, one All, and the pushes
          to the peer queues follow the yielded order one to one.
                                                                 [P_X05_Strategy]
   X05.f  LOCAL PROCESSING.  A message accepted by AddToBatch is traced
          (PublishMessage) when it is added and nothing else happens to it until
          PublishBatch; then it is delivered (DeliverMessage trace and every local
          subscription of its topic) exactly once, in batch order, like an
          individually published one; a local-only message (WithLocalPublication)
          is delivered locally and never handed to the router.     [P_X05_Local]
   X05.g  ADMISSION.  AddToBatch puts a message into the batch iff local
          validation accepts it and its id is new: a rejected or ignored message
          makes AddToBatch return the validation error and is never in a batch,
          never delivered, never sent; a duplicate id returns nil and is not added
          (so no id is published twice).                           [P_X05_Admit]
   X05.h  CONSUMED ONCE, ATOMICALLY.  PublishBatch takes the content of the batch
          atomically and leaves it empty: every accepted message is published by
          exactly one PublishBatch call - also when AddToBatch and PublishBatch
          are called concurrently from several goroutines - never by two, and by
          one as soon as a PublishBatch starts after its AddToBatch returned;
          publishing an empty (or already published) batch publishes nothing; a
          failing option or a router that is no BatchPublisher makes PublishBatch
          return an error and publish nothing.                      [P_X05_Once]

   (After shutdown PublishBatch returns: property C14, not repeated here.)

   This module holds the relations the properties are made of; they are used by
   the implementation-shaped models (Scheduler.tla, BatchPipe.tla: exhaustive
   TLC runs, including configurations that MUST fail) and by the trace
   specifications (SchedTrace.tla, BatchTrace.tla), which evaluate them on what
   the REAL code did.                                                        *)
EXTENDS Naturals, Sequences, FiniteSets

Rng(s) == {s[i] : i \in DOMAIN s}
Get(f, k, d) == IF k \in DOMAIN f THEN f[k] ELSE d
Count(s, x) == Cardinality({i \in DOMAIN s : s[i] = x})
SameBag(a, b) == /\ Len(a) = Len(b)
                 /\ \A x \in Rng(a) \cup Rng(b) : Count(a, x) = Count(b, x)
NoRepeat(s) == \A i, j \in DOMAIN s : s[i] = s[j] => i = j
IsPrefix(a, b) == Len(a) <= Len(b) /\ \A i \in DOMAIN a : a[i] = b[i]
Rev(s) == [i \in 1..Len(s) |-> s[Len(s) + 1 - i]]
Max2(a, b) == IF a > b THEN a ELSE b
Minus(a, b) == IF a > b THEN a - b ELSE 0

(* Sequences of records with a field m (message id) and a field p (peer). *)
OfMsg(s, m) == SelectSeq(s, LAMBDA e : e.m = m)
MsgsIn(s) == {s[i].m : i \in DOMAIN s}
PM(s) == [i \in DOMAIN s |-> [p |-> s[i].p, m |-> s[i].m]]

(* X05.c: the rank of an element is the number of earlier elements with the same
   message id; round robin = ranks never decrease along the sequence.          *)
RankAt(s, i) == Cardinality({j \in 1..(i - 1) : s[j].m = s[i].m})
RoundRobinOK(s) == \A i \in 1..(Len(s) - 1) : RankAt(s, i) <= RankAt(s, i + 1)
(* the weaker statement the repository's own test checks: no id repeats before every id was seen *)
FirstRoundOK(s) == \A i \in DOMAIN s : RankAt(s, i) > 0 => \A m \in MsgsIn(s) : \E j \in 1..(i - 1) : s[j].m = m

(* a round-robin schedule is non-trivial when the messages have different numbers of copies
   (at least two messages, at least one with two copies)                                   *)
Unequal(s) == \E a, b \in MsgsIn(s) : Len(OfMsg(s, a)) # Len(OfMsg(s, b))
MultiRound(s) == Cardinality(MsgsIn(s)) >= 2 /\ \E a \in MsgsIn(s) : Len(OfMsg(s, a)) >= 2
=============================================================================
