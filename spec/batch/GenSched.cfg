SPECIFICATION Spec
CONSTANTS
  Peers = {"p1", "p2"}
  Msgs = {"m1", "m2", "m3"}
  L = 3
  MaxPartial = 1
INVARIANT Emit
CHECK_DEADLOCK FALSE
