----------------------------- MODULE Scheduler -----------------------------
(* Implementation-shaped model of RoundRobinMessageIDScheduler
   (/repo/messagebatch.go), one action per loop iteration of All:

       for len(s.rpcs) > 0 {                       StartAll / EndRound
           for msgID, rpcs := range s.rpcs {       Visit(m): any order (Go map iteration),
               if len(rpcs) == 0 {                            every key present at the start of
                   delete(s.rpcs, msgID); continue            the round exactly once
               }
               if !yield(rpcs[0].peer, rpcs[0].rpc) { return }     Break(m): the consumer stops
               s.rpcs[msgID] = rpcs[1:]
           }
       }

   rpcs    the map: message id -> sequence of pending [p, x] (x = the unique tag of
           the AddRPC call, standing for the *RPC pointer)
   added   history: every AddRPC as [p, m, x]
   out     history: every yield as [p, m, x]
   seg     the yields of the current (or last) All call
   start   the map as it was when that call started
   brk     tags at which a consumer broke off (each may be yielded once more)
   complete  the last All call ran to its end and nothing was added since

   SchedBug seeds model defects (non-vacuity of the properties):
     "none"      the code as it is
     "lifo"      yields the LAST pending RPC of a message   -> P_X05_SchedFifo fails
     "drain"     yields all RPCs of a message in one visit  -> P_X05_RoundRobin fails
     "droplast"  deletes a key when ONE rpc is left         -> P_X05_SchedExact fails (loss)
     "dup"       the last RPC of a message is yielded twice -> P_X05_SchedExact fails (dup)
     "wrongpeer" yields the peer of the last pending RPC    -> P_X05_SchedExact fails (pair)   *)
EXTENDS Batch, TLC

CONSTANTS Peers, Msgs, MaxAdds, MaxAlls, MaxBreaks, SchedBug

VARIABLES rpcs, pc, todo, added, out, seg, start, brk, complete, nall

vars == <<rpcs, pc, todo, added, out, seg, start, brk, complete, nall>>

Init == /\ rpcs = <<>> /\ pc = "idle" /\ todo = {} /\ added = <<>> /\ out = <<>>
        /\ seg = <<>> /\ start = <<>> /\ brk = <<>> /\ complete = TRUE /\ nall = 0

Without(f, k) == [x \in (DOMAIN f) \ {k} |-> f[x]]
With(f, k, v) == [x \in (DOMAIN f) \cup {k} |-> IF x = k THEN v ELSE f[x]]

AddRPC(p, m) ==
    /\ pc = "idle" /\ Len(added) < MaxAdds
    /\ LET x == Len(added) + 1 IN
         /\ added' = Append(added, [p |-> p, m |-> m, x |-> x])
         /\ rpcs' = With(rpcs, m, Append(Get(rpcs, m, <<>>), [p |-> p, x |-> x]))
    /\ complete' = FALSE
    /\ UNCHANGED <<pc, todo, out, seg, start, brk, nall>>

StartAll ==
    /\ pc = "idle" /\ nall < MaxAlls /\ nall' = nall + 1
    /\ seg' = <<>> /\ start' = rpcs
    /\ IF DOMAIN rpcs = {} THEN pc' = "idle" /\ todo' = {} /\ complete' = TRUE
       ELSE pc' = "round" /\ todo' = DOMAIN rpcs /\ complete' = FALSE
    /\ UNCHANGED <<rpcs, added, out, brk>>

Entry(m, e) == [p |-> e.p, m |-> m, x |-> e.x]

\* what one visit of key m yields (a sequence of entries) and what it leaves in the map
Yielded(m) ==
    LET q == rpcs[m] IN
    CASE SchedBug = "lifo"      -> <<Entry(m, q[Len(q)])>>
      [] SchedBug = "drain"     -> [i \in 1..Len(q) |-> Entry(m, q[i])]
      [] SchedBug = "dup"       -> IF Len(q) = 1 THEN <<Entry(m, q[1]), Entry(m, q[1])>> ELSE <<Entry(m, q[1])>>
      [] SchedBug = "wrongpeer" -> <<[p |-> q[Len(q)].p, m |-> m, x |-> q[1].x]>>
      [] OTHER                  -> <<Entry(m, q[1])>>
Left(m) ==
    LET q == rpcs[m] IN
    CASE SchedBug = "lifo"  -> SubSeq(q, 1, Len(q) - 1)
      [] SchedBug = "drain" -> <<>>
      [] OTHER              -> Tail(q)
EmptyTest(m) == IF SchedBug = "droplast" THEN Len(rpcs[m]) <= 1 ELSE Len(rpcs[m]) = 0

Visit(m) ==
    /\ pc = "round" /\ m \in todo
    /\ todo' = todo \ {m}
    /\ IF EmptyTest(m)
         THEN rpcs' = Without(rpcs, m) /\ UNCHANGED <<out, seg>>
         ELSE /\ out' = out \o Yielded(m) /\ seg' = seg \o Yielded(m)
              /\ rpcs' = [rpcs EXCEPT ![m] = Left(m)]
    /\ UNCHANGED <<pc, added, start, brk, complete, nall>>

\* the consumer's loop body returns false at this element: it was yielded, it is not popped
Break(m) ==
    /\ pc = "round" /\ m \in todo /\ ~EmptyTest(m) /\ Len(brk) < MaxBreaks
    /\ out' = Append(out, Entry(m, rpcs[m][1])) /\ seg' = Append(seg, Entry(m, rpcs[m][1]))
    /\ brk' = Append(brk, rpcs[m][1].x)
    /\ pc' = "idle" /\ todo' = {}
    /\ UNCHANGED <<rpcs, added, start, complete, nall>>

EndRound ==
    /\ pc = "round" /\ todo = {}
    /\ IF DOMAIN rpcs = {} THEN pc' = "idle" /\ complete' = TRUE /\ UNCHANGED todo
       ELSE todo' = DOMAIN rpcs /\ UNCHANGED <<pc, complete>>
    /\ UNCHANGED <<rpcs, added, out, seg, start, brk, nall>>

Next == \/ \E p \in Peers, m \in Msgs : AddRPC(p, m)
        \/ StartAll \/ EndRound
        \/ \E m \in Msgs : Visit(m) \/ Break(m)

Spec == Init /\ [][Next]_vars
FairSpec == Spec /\ WF_vars(EndRound) /\ WF_vars(\E m \in Msgs : Visit(m))

\* --------------------------------------------------------------- properties
Tags(s) == {s[i].x : i \in DOMAIN s}
PendingTags == UNION {{rpcs[m][i].x : i \in DOMAIN rpcs[m]} : m \in DOMAIN rpcs}

TypeOK == /\ pc \in {"idle", "round"} /\ todo \subseteq Msgs /\ DOMAIN rpcs \subseteq Msgs
          /\ Len(added) <= MaxAdds

\* X05.c
P_X05_RoundRobin == RoundRobinOK(seg)

\* X05.d  (order inside one message id)
P_X05_SchedFifo ==
    \A m \in MsgsIn(seg) :
        /\ m \in DOMAIN start
        /\ IsPrefix([i \in DOMAIN OfMsg(seg, m) |-> OfMsg(seg, m)[i].x], [i \in DOMAIN start[m] |-> start[m][i].x])

\* X05.d  (conservation)
P_X05_SchedExact ==
    /\ Tags(out) \cup PendingTags = Tags(added)                                  \* nothing vanishes
    /\ \A i \in DOMAIN out : out[i].x \in DOMAIN added /\ added[out[i].x] = out[i] \* nothing invented, the pair intact
    /\ \A x \in Tags(out) : Cardinality({i \in DOMAIN out : out[i].x = x}) <= 1 + Count(brk, x)
    /\ (pc = "idle" /\ complete) => DOMAIN rpcs = {}                             \* a complete iteration empties the scheduler

\* a started iteration that is not broken off completes
P_X05_SchedTerminates == (pc = "round") ~> (pc = "idle")
=============================================================================
