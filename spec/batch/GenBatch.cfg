SPECIFICATION Spec
CONSTANTS
  MaxOps = 4
  MaxAdds = 3
  MaxPubs = 2
  MaxSingles = 1
  Batches = {"b1"}
  Topics = {"T1", "T2"}
  Kinds = {"ok", "local", "reject", "ignore", "dup"}
  Strats = {"default", "rr"}
INVARIANT Emit
CHECK_DEADLOCK FALSE
