----------------------------- MODULE BatchPipe -----------------------------
(* Implementation-shaped model of the batch pipeline, one action per critical
   section / event-loop hand-off / queue operation:

     goroutine g:  Topic.AddToBatch           Validate(g)  tracer.PublishMessage, markSeen (atomic in the
                                                           time cache), validators;  reject -> error,
                                                           seen before -> nil, nothing added
                                              Add(g)       MessageBatch.add: ONE critical section
                                                           (Locked = FALSE splits it in AddRead / AddWrite:
                                                            the append without the mutex)
     publisher:    PubSub.PublishBatch        Take         MessageBatch.take: ONE critical section
                                                           (Locked = FALSE: TakeRead / TakeClear;
                                                            TakeClears = FALSE: mb.messages is not reset)
                                              Hand         p.sendMessageBatch <- req   (capacity 1)
     event loop:   publishMessageBatch        Recv         DeliverMessage + notifySubs for every message, in
                                                           order; the non-local ones go to the router
                                                           (SkipLocal = FALSE: all of them, D26 as found)
                   GossipSubRouter.PublishBatch            recipients Recip[m] for every message, AddRPC, All:
                                                           `sched` = the order the strategy yields
                                              Push         sendRPC of the head of `sched`: queue has room ->
                                                           SendRPC trace, else DropRPC trace
     writer of p:                             Pop(p)       the copy goes on the wire

   Histories: res (AddToBatch results), delivered, pushes (Send/Drop traces in order), wire.
   PipeBug seeds model defects:  "none" | "addrejected" | "adddup" | "skipfirst" (the router loop starts
   at the second message) | "silentdrop" (a full queue drops without trace) | "earlydrop" (DropRPC although the
   queue has room) | "reorder" (pushes do not follow
   the strategy's order) | "notrr" (the strategy yields message by message) | "deliveronadd".          *)
EXTENDS Batch, TLC

CONSTANTS Adders,       \* goroutines calling AddToBatch
          Plan,         \* Plan[g] = sequence of message ids g adds (the same id twice = a duplicate)
          Kind,         \* Kind[m] \in {"ok", "local", "reject"}
          NPub,         \* number of PublishBatch calls
          Peers, Recip, \* Recip[m] = the peers the router rules select for m
          Cap,          \* outbound queue capacity
          Locked, TakeClears, SkipLocal, PipeBug

VARIABLES messages, apc, atmp, seen, res,
          ppc, ptmp, npub, chan,
          sched, queue,
          delivered, pushes, wire, taken

vars == <<messages, apc, atmp, seen, res, ppc, ptmp, npub, chan, sched, queue, delivered, pushes, wire, taken>>

Ids == UNION {Rng(Plan[g]) : g \in Adders}

Init == /\ messages = <<>> /\ apc = [g \in Adders |-> [i |-> 1, ph |-> "idle"]] /\ atmp = [g \in Adders |-> <<>>]
        /\ seen = {} /\ res = <<>>
        /\ ppc = "idle" /\ ptmp = <<>> /\ npub = 0 /\ chan = <<>>
        /\ sched = <<>> /\ queue = [p \in Peers |-> <<>>]
        /\ delivered = <<>> /\ pushes = <<>> /\ wire = <<>> /\ taken = <<>>

Cur(g) == Plan[g][apc[g].i]
Done(g) == apc[g].i > Len(Plan[g])
Step(g) == [apc EXCEPT ![g] = [i |-> @.i + 1, ph |-> "idle"]]
Result(g, r) == res' = Append(res, [g |-> g, m |-> Cur(g), r |-> r])

\* ---------------------------------------------------------------- AddToBatch
Validate(g) ==
    /\ ~Done(g) /\ apc[g].ph = "idle"
    /\ seen' = seen \cup {Cur(g)}
    /\ delivered' = IF PipeBug = "deliveronadd" /\ Cur(g) \notin seen THEN Append(delivered, Cur(g)) ELSE delivered
    /\ IF Cur(g) \in seen /\ PipeBug # "adddup"
         THEN Result(g, "dup") /\ apc' = Step(g)
       ELSE IF Kind[Cur(g)] = "reject" /\ PipeBug # "addrejected"
         THEN Result(g, "err") /\ apc' = Step(g)
       ELSE UNCHANGED res /\ apc' = [apc EXCEPT ![g].ph = "valid"]
    /\ UNCHANGED <<messages, atmp, ppc, ptmp, npub, chan, sched, queue, pushes, wire, taken>>

Add(g) ==
    /\ Locked /\ ~Done(g) /\ apc[g].ph = "valid"
    /\ messages' = Append(messages, Cur(g))
    /\ Result(g, "ok") /\ apc' = Step(g)
    /\ UNCHANGED <<atmp, seen, ppc, ptmp, npub, chan, sched, queue, delivered, pushes, wire, taken>>

AddRead(g) ==
    /\ ~Locked /\ ~Done(g) /\ apc[g].ph = "valid"
    /\ atmp' = [atmp EXCEPT ![g] = messages] /\ apc' = [apc EXCEPT ![g].ph = "read"]
    /\ UNCHANGED <<messages, seen, res, ppc, ptmp, npub, chan, sched, queue, delivered, pushes, wire, taken>>

AddWrite(g) ==
    /\ ~Locked /\ ~Done(g) /\ apc[g].ph = "read"
    /\ messages' = Append(atmp[g], Cur(g))
    /\ Result(g, "ok") /\ apc' = Step(g)
    /\ UNCHANGED <<atmp, seen, ppc, ptmp, npub, chan, sched, queue, delivered, pushes, wire, taken>>

\* ---------------------------------------------------------------- PublishBatch
Take ==
    /\ Locked /\ ppc = "idle" /\ npub < NPub
    /\ ptmp' = messages /\ messages' = IF TakeClears THEN <<>> ELSE messages
    /\ ppc' = "taken" /\ npub' = npub + 1 /\ taken' = Append(taken, messages)
    /\ UNCHANGED <<apc, atmp, seen, res, chan, sched, queue, delivered, pushes, wire>>

TakeRead ==
    /\ ~Locked /\ ppc = "idle" /\ npub < NPub
    /\ ptmp' = messages /\ ppc' = "read" /\ npub' = npub + 1 /\ taken' = Append(taken, messages)
    /\ UNCHANGED <<messages, apc, atmp, seen, res, chan, sched, queue, delivered, pushes, wire>>

TakeClear ==
    /\ ~Locked /\ ppc = "read"
    /\ messages' = <<>> /\ ppc' = "taken"
    /\ UNCHANGED <<apc, atmp, seen, res, ptmp, npub, chan, sched, queue, delivered, pushes, wire, taken>>

Hand ==
    /\ ppc = "taken" /\ Len(chan) < 1
    /\ chan' = Append(chan, ptmp) /\ ptmp' = <<>> /\ ppc' = "idle"
    /\ UNCHANGED <<messages, apc, atmp, seen, res, npub, sched, queue, delivered, pushes, wire, taken>>

\* ---------------------------------------------------------------- event loop and router
Pairs(ms) == UNION {{[p |-> p, m |-> ms[i]] : p \in Recip[ms[i]]} : i \in DOMAIN ms}
Orders(S) == {f \in [1..Cardinality(S) -> S] : \A i, j \in 1..Cardinality(S) : f[i] = f[j] => i = j}
\* what a strategy may yield for the pairs S: the round-robin scheduler any round-robin order
Yields(S, ms) ==
    IF PipeBug = "notrr"
      THEN {f \in Orders(S) : \A i, j \in DOMAIN f : (i < j /\ f[i].m # f[j].m) =>
                 \A k \in DOMAIN f : (f[k].m = f[i].m => k < j)}
      ELSE {f \in Orders(S) : RoundRobinOK(f)}

Recv ==
    /\ chan # <<>> /\ sched = <<>>
    /\ LET b == Head(chan)
           routed0 == SelectSeq(b, LAMBDA m : ~SkipLocal \/ Kind[m] # "local")
           routed == IF PipeBug = "skipfirst" /\ routed0 # <<>> THEN Tail(routed0) ELSE routed0
       IN /\ delivered' = IF PipeBug = "deliveronadd" THEN delivered ELSE delivered \o b
          /\ \E f \in Yields(Pairs(routed), routed) : sched' = f
    /\ chan' = Tail(chan)
    /\ UNCHANGED <<messages, apc, atmp, seen, res, ppc, ptmp, npub, queue, pushes, wire, taken>>

Push ==
    /\ sched # <<>>
    /\ \E k \in (IF PipeBug = "reorder" THEN DOMAIN sched ELSE {1}) :
         LET e == sched[k] IN
         /\ sched' = [i \in 1..(Len(sched) - 1) |-> IF i < k THEN sched[i] ELSE sched[i + 1]]
         /\ IF (IF PipeBug = "earlydrop" THEN Len(queue[e.p]) + 1 < Cap ELSE Len(queue[e.p]) < Cap)
              THEN /\ queue' = [queue EXCEPT ![e.p] = Append(@, e.m)]
                   /\ pushes' = Append(pushes, [k |-> "Send", p |-> e.p, m |-> e.m, full |-> FALSE, want |-> sched[1]])
              ELSE /\ UNCHANGED queue
                   /\ pushes' = IF PipeBug = "silentdrop" THEN pushes
                                ELSE Append(pushes, [k |-> "Drop", p |-> e.p, m |-> e.m, full |-> Len(queue[e.p]) >= Cap, want |-> sched[1]])
    /\ UNCHANGED <<messages, apc, atmp, seen, res, ppc, ptmp, npub, chan, delivered, wire, taken>>

Pop(p) ==
    /\ queue[p] # <<>>
    /\ wire' = Append(wire, [p |-> p, m |-> Head(queue[p])]) /\ queue' = [queue EXCEPT ![p] = Tail(@)]
    /\ UNCHANGED <<messages, apc, atmp, seen, res, ppc, ptmp, npub, chan, sched, delivered, pushes, taken>>

Next == \/ \E g \in Adders : Validate(g) \/ Add(g) \/ AddRead(g) \/ AddWrite(g)
        \/ Take \/ TakeRead \/ TakeClear \/ Hand \/ Recv \/ Push
        \/ \E p \in Peers : Pop(p)

Spec == Init /\ [][Next]_vars

\* ---------------------------------------------------------------- properties
Accepted == {res[i].m : i \in {i \in DOMAIN res : res[i].r = "ok"}}
InFlight == messages \o ptmp \o (IF chan = <<>> THEN <<>> ELSE chan[1])
LoopIdle == chan = <<>> /\ sched = <<>>
Routable(m) == Kind[m] # "local"
PushedTo(m) == {pushes[i].p : i \in {i \in DOMAIN pushes : pushes[i].m = m}}

TypeOK == /\ Rng(messages) \subseteq Ids /\ ppc \in {"idle", "read", "taken"} /\ Len(chan) <= 1
          /\ \A p \in Peers : Len(queue[p]) <= Cap

\* X05.g: only accepted, new messages are ever in a batch; a rejected one gets the error, a duplicate nil
P_X05_Admit ==
    /\ \A m \in Rng(InFlight) \cup Rng(delivered) : Kind[m] # "reject"
    /\ \A i \in DOMAIN res : /\ Kind[res[i].m] = "reject" => res[i].r \in {"err", "dup"}
                             /\ res[i].r = "ok" => \A j \in DOMAIN res : (res[j].m = res[i].m /\ res[j].r = "ok") => i = j

\* X05.h: every accepted message is in exactly one place: still in the batch / on its way / delivered once
P_X05_Once ==
    /\ NoRepeat(delivered)
    /\ \A m \in Accepted : Count(InFlight \o delivered, m) = 1
    /\ \A m \in Rng(InFlight) \cup Rng(delivered) : m \in Accepted

\* X05.f: nothing is delivered before PublishBatch, deliveries follow the batches in batch order,
\* local-only messages are never sent
RECURSIVE Flat(_)
Flat(s) == IF s = <<>> THEN <<>> ELSE Head(s) \o Flat(Tail(s))
P_X05_Local ==
    /\ IsPrefix(delivered, Flat(taken))
    /\ \A i \in DOMAIN pushes : Kind[pushes[i].m] # "local"

\* X05.a: once the router is done with a batch every non-local delivered message went to exactly the peers the rule selects
P_X05_Equiv ==
    /\ \A i \in DOMAIN pushes : pushes[i].p \in Recip[pushes[i].m] /\ pushes[i].m \in Rng(delivered)
    /\ LoopIdle => \A m \in Rng(delivered) : Routable(m) => PushedTo(m) = Recip[m]

\* X05.b: one trace per pair, drops only on a full queue, the wire carries exactly the sent copies in order
P_X05_Account ==
    /\ NoRepeat(PM(pushes))
    /\ \A i \in DOMAIN pushes : pushes[i].k = "Drop" => pushes[i].full
    /\ \A p \in Peers :
         LET sent == SelectSeq(pushes, LAMBDA e : e.p = p /\ e.k = "Send")
             got  == SelectSeq(wire, LAMBDA e : e.p = p)
         IN /\ IsPrefix([i \in DOMAIN got |-> got[i].m], [i \in DOMAIN sent |-> sent[i].m])
            /\ Len(got) + Len(queue[p]) = Len(sent)

\* X05.c / X05.e in the pipeline: the pushes of one batch follow the strategy's order, which is round robin
P_X05_Strategy == \A i \in DOMAIN pushes : pushes[i].want = [p |-> pushes[i].p, m |-> pushes[i].m]
P_X05_RoundRobin ==
    \A k \in DOMAIN taken : RoundRobinOK(SelectSeq(pushes, LAMBDA e : e.m \in Rng(taken[k])))
=============================================================================
