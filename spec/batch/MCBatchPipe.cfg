SPECIFICATION Spec
CONSTANTS
  Adders <- MCAdders
  Plan <- MCPlan
  Kind <- MCKind
  NPub = 2
  Peers <- MCPeers
  Recip <- MCRecip
  Cap = 1
  Locked = TRUE
  TakeClears = TRUE
  SkipLocal = TRUE
  PipeBug = "none"
INVARIANTS TypeOK P_X05_Admit P_X05_Once P_X05_Local P_X05_Equiv P_X05_Account P_X05_Strategy P_X05_RoundRobin
CHECK_DEADLOCK FALSE
