SPECIFICATION TraceSpec
CONSTANT RelayRace = FALSE
CONSTRAINT HW
POSTCONDITION Accepted
CHECK_DEADLOCK FALSE
