---------------------------- MODULE TopicApiImpl ----------------------------
(* X09.b / X09.c / X09.d at the grain of the code: concurrent callers of the Topic API of ONE topic name, one action per
   critical section / event-loop turn:

     Topic.mux          a sync.RWMutex per handle: Subscribe / Relay / EventHandler / Publish hold it for READING from
                        their "closed" test until the event loop has answered, Close holds it for WRITING from its test
                        until it has set closed (topic.go)
     event loop         takes ONE request at a time (processLoop's select): addTopic / rmTopic / addSub / cancelCh /
                        addRelay / rmRelay / eval / sendMsg turns are atomic with respect to each other (pubsub.go)
     notifySubs         select { case f.ch <- msg: default: drop }  per subscription, inside the sendMsg turn
     RelayCancelFunc    if isCancelled {return}; send topic on rmRelay; isCancelled = true      (three separate steps)
     Subscription.Next  receive from sub.ch (a closed channel still drains), Cancel's turn closes it
     deprecated PubSub.Subscribe = tryJoin turn (find or register a handle), then Subscribe on that handle

   Deliberate deviations: a request without reply (Cancel, RelayCancelFunc) is modelled as handled in the same step as its
   send (the caller can return while the handler still runs; nothing but Next / TopicEventHandler.Cancel, which do not go
   through the loop, could tell); validation inside Publish touches nothing modelled here.

   Switches (TRUE = the intended / repaired behaviour):
     UseMux          FALSE = the handle mutex is not taken (seeded)
     RelayFlagAtomic FALSE = the code as found: test and set of isCancelled are separate steps (finding X09-F2)
     NonBlockingSend FALSE = notifySubs blocks on a full subscription buffer (seeded)
     CancelCloses    FALSE = the cancel turn does not close the subscription's channel (seeded)              *)
EXTENDS Naturals, Sequences, FiniteSets, TLC

CONSTANTS Callers, Menu,          \* Menu: the operations a caller may pick (strings, see Start)
          Cap,                    \* buffer size of the subscriptions
          InitSubs, InitRelays, InitEvh,   \* what is outstanding at the start (handle 1 is open and registered)
          UseMux, RelayFlagAtomic, NonBlockingSend, CancelCloses,
          Readers                 \* do consumers call Next (FALSE = every subscriber is slow for ever)

Handles == {1, 2}                 \* 1 = the user's handle, 2 = a handle registered later (Join / deprecated wrapper)
SubIds == 1..(InitSubs + Cardinality(Callers))
RelIds == 1..(InitRelays + Cardinality(Callers))

VARIABLES pc, op, hh, res,        \* per caller: program counter, chosen operation, handle in use, result
          rd, wr,                 \* Topic.mux per handle: number of readers, writer present
          closed, reg,            \* handle closed flags, registered handle of the topic (0 = none)
          mySubs, myRelays, evh,  \* event-loop bookkeeping: set of subscription ids, relay count, handlers per handle
          ch, chClosed,           \* subscription channels
          flag,                   \* isCancelled of every RelayCancelFunc
          granted, released,      \* truth monitors: relay references handed out / released by a first cancel
          sendq, stuck,           \* the sendMsg channel; the loop is stuck inside notifySubs (blocking variant)
          nsub, nrel,             \* ids handed out so far
          got, sawCancelled       \* per subscription: messages returned by Next, Next has returned ErrSubscriptionCancelled
vars == <<pc, op, hh, res, rd, wr, closed, reg, mySubs, myRelays, evh, ch, chClosed, flag, granted, released, sendq, stuck,
          nsub, nrel, got, sawCancelled>>

Init ==
    /\ pc = [c \in Callers |-> "start"] /\ op = [c \in Callers |-> "-"] /\ hh = [c \in Callers |-> 1] /\ res = [c \in Callers |-> "-"]
    /\ rd = [h \in Handles |-> 0] /\ wr = [h \in Handles |-> FALSE]
    /\ closed = [h \in Handles |-> FALSE] /\ reg = 1
    /\ mySubs = 1..InitSubs /\ myRelays = InitRelays /\ evh = [h \in Handles |-> IF h = 1 THEN InitEvh ELSE 0]
    /\ ch = [s \in SubIds |-> <<>>] /\ chClosed = [s \in SubIds |-> FALSE]
    /\ flag = [r \in RelIds |-> FALSE] /\ granted = 1..InitRelays /\ released = {}
    /\ sendq = <<>> /\ stuck = FALSE /\ nsub = InitSubs /\ nrel = InitRelays
    /\ got = [s \in SubIds |-> <<>>] /\ sawCancelled = [s \in SubIds |-> FALSE]

Go(c, l) == pc' = [pc EXCEPT ![c] = l]
Ret(c, r) == pc' = [pc EXCEPT ![c] = "done"] /\ res' = [res EXCEPT ![c] = r]
LoopFree == ~stuck

RLock(h) == IF UseMux THEN ~wr[h] /\ rd' = [rd EXCEPT ![h] = @ + 1] /\ UNCHANGED wr ELSE UNCHANGED <<rd, wr>>
RUnlock(h) == IF UseMux THEN rd' = [rd EXCEPT ![h] = @ - 1] /\ UNCHANGED wr ELSE UNCHANGED <<rd, wr>>
WLock(h) == IF UseMux THEN ~wr[h] /\ rd[h] = 0 /\ wr' = [wr EXCEPT ![h] = TRUE] /\ UNCHANGED rd ELSE UNCHANGED <<rd, wr>>
WUnlock(h) == IF UseMux THEN wr' = [wr EXCEPT ![h] = FALSE] /\ UNCHANGED rd ELSE UNCHANGED <<rd, wr>>

\* a caller picks its operation
Start(c) ==
    /\ pc[c] = "start"
    /\ \E o \in Menu :
         /\ op' = [op EXCEPT ![c] = o]
         /\ Go(c, CASE o \in {"sub", "relay", "evh", "pub"} -> "rlock"
                    [] o = "close" -> "wlock"
                    [] o \in {"join", "psub"} -> "addTopic"
                    [] o \in {"cancel1"} -> "cancel"
                    [] o \in {"unrelay1"} -> "ur_test"
                    [] o = "evcancel" -> "evcancel")
    /\ UNCHANGED <<hh, res, rd, wr, closed, reg, mySubs, myRelays, evh, ch, chClosed, flag, granted, released, sendq, stuck, nsub, nrel, got, sawCancelled>>

\* ---- operations that hold the handle mutex for reading
RLockStep(c) ==
    /\ pc[c] = "rlock" /\ RLock(hh[c]) /\ Go(c, "rtest")
    /\ UNCHANGED <<op, hh, res, closed, reg, mySubs, myRelays, evh, ch, chClosed, flag, granted, released, sendq, stuck, nsub, nrel, got, sawCancelled>>
RTest(c) ==
    /\ pc[c] = "rtest"
    /\ IF closed[hh[c]] THEN Go(c, "runlock") /\ res' = [res EXCEPT ![c] = "closed"]
       ELSE Go(c, "turn") /\ UNCHANGED res
    /\ UNCHANGED <<op, hh, rd, wr, closed, reg, mySubs, myRelays, evh, ch, chClosed, flag, granted, released, sendq, stuck, nsub, nrel, got, sawCancelled>>
\* the event-loop turn of addSub / addRelay / eval(EventHandler) / eval(Preprocess of Publish)
Turn(c) ==
    /\ pc[c] = "turn" /\ LoopFree
    /\ CASE op[c] \in {"sub", "psub"} -> /\ mySubs' = mySubs \cup {nsub + 1} /\ nsub' = nsub + 1
                                          /\ UNCHANGED <<myRelays, evh, granted, nrel>>
         [] op[c] = "relay" -> /\ myRelays' = myRelays + 1 /\ nrel' = nrel + 1 /\ granted' = granted \cup {nrel + 1}
                               /\ UNCHANGED <<mySubs, evh, nsub>>
         [] op[c] = "evh" -> evh' = [evh EXCEPT ![hh[c]] = @ + 1] /\ UNCHANGED <<mySubs, myRelays, granted, nsub, nrel>>
         [] op[c] = "pub" -> UNCHANGED <<mySubs, myRelays, evh, granted, nsub, nrel>>
    /\ res' = [res EXCEPT ![c] = "ok"] /\ Go(c, "runlock")
    /\ UNCHANGED <<op, hh, rd, wr, closed, reg, ch, chClosed, flag, released, sendq, stuck, got, sawCancelled>>
RUnlockStep(c) ==
    /\ pc[c] = "runlock" /\ RUnlock(hh[c])
    /\ IF op[c] = "pub" /\ res[c] = "ok" THEN Go(c, "enqueue") ELSE Go(c, "done")
    /\ UNCHANGED <<op, hh, res, closed, reg, mySubs, myRelays, evh, ch, chClosed, flag, granted, released, sendq, stuck, nsub, nrel, got, sawCancelled>>
Enqueue(c) ==
    /\ pc[c] = "enqueue" /\ Len(sendq) < 2
    /\ sendq' = Append(sendq, c) /\ Go(c, "done")
    /\ UNCHANGED <<op, hh, res, rd, wr, closed, reg, mySubs, myRelays, evh, ch, chClosed, flag, granted, released, stuck, nsub, nrel, got, sawCancelled>>

\* ---- Close
WLockStep(c) ==
    /\ pc[c] = "wlock" /\ WLock(hh[c]) /\ Go(c, "wtest")
    /\ UNCHANGED <<op, hh, res, closed, reg, mySubs, myRelays, evh, ch, chClosed, flag, granted, released, sendq, stuck, nsub, nrel, got, sawCancelled>>
WTest(c) ==
    /\ pc[c] = "wtest"
    /\ IF closed[hh[c]] THEN Go(c, "wunlock") /\ res' = [res EXCEPT ![c] = "ok"] ELSE Go(c, "rmTopic") /\ UNCHANGED res
    /\ UNCHANGED <<op, hh, rd, wr, closed, reg, mySubs, myRelays, evh, ch, chClosed, flag, granted, released, sendq, stuck, nsub, nrel, got, sawCancelled>>
RmTopic(c) ==
    /\ pc[c] = "rmTopic" /\ LoopFree
    /\ IF reg = 0 THEN res' = [res EXCEPT ![c] = "ok"] /\ UNCHANGED reg
       ELSE IF evh[reg] = 0 /\ mySubs = {} /\ myRelays = 0 THEN res' = [res EXCEPT ![c] = "ok"] /\ reg' = 0
       ELSE res' = [res EXCEPT ![c] = "outstanding"] /\ UNCHANGED reg
    /\ Go(c, "setclosed")
    /\ UNCHANGED <<op, hh, rd, wr, closed, mySubs, myRelays, evh, ch, chClosed, flag, granted, released, sendq, stuck, nsub, nrel, got, sawCancelled>>
SetClosed(c) ==
    /\ pc[c] = "setclosed"
    /\ closed' = IF res[c] = "ok" THEN [closed EXCEPT ![hh[c]] = TRUE] ELSE closed
    /\ Go(c, "wunlock")
    /\ UNCHANGED <<op, hh, res, rd, wr, reg, mySubs, myRelays, evh, ch, chClosed, flag, granted, released, sendq, stuck, nsub, nrel, got, sawCancelled>>
WUnlockStep(c) ==
    /\ pc[c] = "wunlock" /\ WUnlock(hh[c]) /\ Go(c, "done")
    /\ UNCHANGED <<op, hh, res, closed, reg, mySubs, myRelays, evh, ch, chClosed, flag, granted, released, sendq, stuck, nsub, nrel, got, sawCancelled>>

\* ---- Join / tryJoin of the deprecated wrapper
AddTopic(c) ==
    /\ pc[c] = "addTopic" /\ LoopFree
    /\ IF reg # 0
         THEN /\ UNCHANGED reg
              /\ IF op[c] = "join" THEN Ret(c, "exists") /\ UNCHANGED hh
                 ELSE hh' = [hh EXCEPT ![c] = reg] /\ Go(c, "rlock") /\ UNCHANGED res
         ELSE /\ reg' = 2
              /\ IF op[c] = "join" THEN Ret(c, "ok") /\ UNCHANGED hh
                 ELSE hh' = [hh EXCEPT ![c] = 2] /\ Go(c, "rlock") /\ UNCHANGED res
    /\ UNCHANGED <<op, rd, wr, closed, mySubs, myRelays, evh, ch, chClosed, flag, granted, released, sendq, stuck, nsub, nrel, got, sawCancelled>>

\* ---- Subscription.Cancel of subscription 1 (send on cancelCh + handleRemoveSubscription)
CancelTurn(c) ==
    /\ pc[c] = "cancel" /\ LoopFree
    /\ IF 1 \in mySubs THEN mySubs' = mySubs \ {1} /\ chClosed' = [chClosed EXCEPT ![1] = CancelCloses]
       ELSE UNCHANGED <<mySubs, chClosed>>
    /\ Ret(c, "ok")
    /\ UNCHANGED <<op, hh, rd, wr, closed, reg, myRelays, evh, ch, flag, granted, released, sendq, stuck, nsub, nrel, got, sawCancelled>>

\* ---- the RelayCancelFunc of relay reference 1
UrTest(c) ==
    /\ pc[c] = "ur_test"
    /\ IF flag[1] THEN Ret(c, "ok") /\ UNCHANGED flag
       ELSE Go(c, "ur_send") /\ UNCHANGED res /\ flag' = IF RelayFlagAtomic THEN [flag EXCEPT ![1] = TRUE] ELSE flag
    /\ UNCHANGED <<op, hh, rd, wr, closed, reg, mySubs, myRelays, evh, ch, chClosed, granted, released, sendq, stuck, nsub, nrel, got, sawCancelled>>
UrSend(c) ==
    /\ pc[c] = "ur_send" /\ LoopFree
    /\ myRelays' = IF myRelays > 0 THEN myRelays - 1 ELSE 0
    /\ released' = released \cup {1}
    /\ Go(c, "ur_set")
    /\ UNCHANGED <<op, hh, res, rd, wr, closed, reg, mySubs, evh, ch, chClosed, flag, granted, sendq, stuck, nsub, nrel, got, sawCancelled>>
UrSet(c) ==
    /\ pc[c] = "ur_set" /\ flag' = [flag EXCEPT ![1] = TRUE] /\ Ret(c, "ok")
    /\ UNCHANGED <<op, hh, rd, wr, closed, reg, mySubs, myRelays, evh, ch, chClosed, granted, released, sendq, stuck, nsub, nrel, got, sawCancelled>>

\* ---- TopicEventHandler.Cancel of the initial handler (evtHandlerMux only)
EvCancel(c) ==
    /\ pc[c] = "evcancel"
    /\ evh' = [evh EXCEPT ![1] = IF @ > 0 THEN @ - 1 ELSE 0] /\ Ret(c, "ok")
    /\ UNCHANGED <<op, hh, rd, wr, closed, reg, mySubs, myRelays, ch, chClosed, flag, granted, released, sendq, stuck, nsub, nrel, got, sawCancelled>>

\* ---- the sendMsg turn: notifySubs
Full(s) == Len(ch[s]) >= Cap
DeliverTurn ==
    /\ sendq # <<>> /\ LoopFree
    /\ IF NonBlockingSend \/ \A s \in mySubs : ~Full(s)
         THEN /\ ch' = [s \in SubIds |-> IF s \in mySubs /\ ~Full(s) THEN Append(ch[s], Head(sendq)) ELSE ch[s]]
              /\ sendq' = Tail(sendq) /\ UNCHANGED stuck
         ELSE stuck' = TRUE /\ UNCHANGED <<ch, sendq>>
    /\ UNCHANGED <<pc, op, hh, res, rd, wr, closed, reg, mySubs, myRelays, evh, chClosed, flag, granted, released, nsub, nrel, got, sawCancelled>>
\* the blocking variant resumes when a reader made room
Unstick ==
    /\ stuck /\ \A s \in mySubs : ~Full(s)
    /\ stuck' = FALSE
    /\ UNCHANGED <<pc, op, hh, res, rd, wr, closed, reg, mySubs, myRelays, evh, ch, chClosed, flag, granted, released, sendq, nsub, nrel, got, sawCancelled>>

\* ---- a consumer calls Next on subscription s (enabled when it would return)
NextCall(s) ==
    /\ Readers /\ s \in 1..nsub
    /\ IF ch[s] # <<>> THEN /\ got' = [got EXCEPT ![s] = Append(@, Head(ch[s]))] /\ ch' = [ch EXCEPT ![s] = Tail(@)]
                            /\ UNCHANGED sawCancelled
       ELSE /\ chClosed[s] /\ ~sawCancelled[s]
            /\ sawCancelled' = [sawCancelled EXCEPT ![s] = TRUE] /\ UNCHANGED <<got, ch>>
    /\ UNCHANGED <<pc, op, hh, res, rd, wr, closed, reg, mySubs, myRelays, evh, chClosed, flag, granted, released, sendq, stuck, nsub, nrel>>

CallerStep(c) == Start(c) \/ RLockStep(c) \/ RTest(c) \/ Turn(c) \/ RUnlockStep(c) \/ Enqueue(c) \/ WLockStep(c) \/ WTest(c) \/ RmTopic(c)
                 \/ SetClosed(c) \/ WUnlockStep(c) \/ AddTopic(c) \/ CancelTurn(c) \/ UrTest(c) \/ UrSend(c) \/ UrSet(c) \/ EvCancel(c)
Next == (\E c \in Callers : CallerStep(c)) \/ DeliverTurn \/ Unstick \/ (\E s \in SubIds : NextCall(s))

Spec == Init /\ [][Next]_vars
FairSpec == Spec /\ (\A c \in Callers : WF_vars(CallerStep(c))) /\ WF_vars(DeliverTurn) /\ WF_vars(Unstick)
                 /\ (\A s \in SubIds : WF_vars(NextCall(s)))

----------------------------------------------------------------------------
TypeOK == /\ reg \in 0..2 /\ myRelays \in 0..Cardinality(RelIds) /\ \A s \in SubIds : Len(ch[s]) <= Cap

\* X09.b: never a live subscription / relay / handler without a registered handle, a registered handle is never closed
P_X09_b_NoLiveSubOnClosedTopic == (mySubs # {} \/ myRelays > 0) => reg # 0
P_X09_b_RegisteredIsOpen == reg # 0 => ~closed[reg]
\* X09.b: relay references are released exactly once each
P_X09_b_RelayReleasedOnce == myRelays = Cardinality(granted \ released)
\* X09.d: nothing is returned after ErrSubscriptionCancelled, and only cancelled subscriptions report it
P_X09_d_NothingAfterCancelled == \A s \in SubIds : sawCancelled[s] => (ch[s] = <<>> /\ s \notin mySubs)
\* X09.c: what a subscription was handed is in delivery order without repetition (messages are caller ids, each published once)
NoDup(q) == \A i, j \in DOMAIN q : i # j => q[i] # q[j]
P_X09_c_AtMostOnce == \A s \in SubIds : NoDup(got[s] \o ch[s])

\* X09.c (liveness): every call returns although no subscriber ever reads (Readers = FALSE): the loop never waits for one
P_X09_c_CallsReturn == <>(\A c \in Callers : pc[c] = "done")
\* X09.d (liveness): once subscription 1 is cancelled a consumer gets ErrSubscriptionCancelled (a blocked Next is woken)
P_X09_d_CancelWakes == (\E c \in Callers : op[c] = "cancel1" /\ pc[c] = "done") ~> sawCancelled[1]
=============================================================================
