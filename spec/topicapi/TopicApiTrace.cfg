SPECIFICATION TraceSpec
INVARIANT Done
CHECK_DEADLOCK FALSE
