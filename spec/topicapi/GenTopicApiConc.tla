-------------------------- MODULE GenTopicApiConc --------------------------
(* Scenario generator for the concurrent level of X09: after a named prologue (run sequentially), NG goroutines make
   R calls each; round r consists of the r-th call of every goroutine, issued while the event loop is parked. Every
   combination of operations on the objects the prologue created is emitted (ordered: the order in which the calls of
   a round are issued matters - the first one takes the handle mutex). Only inputs are emitted; TopicApiLin judges. *)
EXTENDS TopicApi, Json

CONSTANTS NG, R, Alpha, ProName, Caps, IdFn, Class

VARIABLES slots
Cfg == [router |-> "floodsub", idfn |-> IdFn, peers |-> 0, psubs |-> [p1 |-> {}, p2 |-> {}]]

RECURSIVE Run(_, _, _)
Run(s, ops, i) == IF i > Len(ops) THEN s ELSE Run(Apply(s, ops[i]).s, ops, i + 1)
Pro == ProDef(ProName)
S0 == Run(Init0(Cfg, {}), Pro, 1)

Ops(k) ==
    LET hs == DOMAIN S0.h ss == DOMAIN S0.subs rs == DOMAIN S0.rel es == DOMAIN S0.evh m == "c" \o ToString(k) IN
       (IF "join" \in Alpha THEN {[D EXCEPT !.o = "join", !.t = "A"]} ELSE {})
  \cup (IF "close" \in Alpha THEN {[D EXCEPT !.o = "close", !.h = h] : h \in hs} ELSE {})
  \cup (IF "sub" \in Alpha THEN {[D EXCEPT !.o = "sub", !.h = h, !.cap = c] : h \in hs, c \in Caps} ELSE {})
  \cup (IF "psub" \in Alpha THEN {[D EXCEPT !.o = "psub", !.t = "A", !.cap = c] : c \in Caps} ELSE {})
  \cup (IF "cancel" \in Alpha THEN {[D EXCEPT !.o = "cancel", !.s = s] : s \in ss} ELSE {})
  \cup (IF "next" \in Alpha THEN {[D EXCEPT !.o = "next", !.s = s] : s \in ss} ELSE {})
  \cup (IF "relay" \in Alpha THEN {[D EXCEPT !.o = "relay", !.h = h] : h \in hs} ELSE {})
  \cup (IF "unrelay" \in Alpha THEN {[D EXCEPT !.o = "unrelay", !.r = r] : r \in rs} ELSE {})
  \cup (IF "evh" \in Alpha THEN {[D EXCEPT !.o = "evh", !.h = h] : h \in hs} ELSE {})
  \cup (IF "evcancel" \in Alpha THEN {[D EXCEPT !.o = "evcancel", !.e = e] : e \in es} ELSE {})
  \cup (IF "pub" \in Alpha THEN {[D EXCEPT !.o = "pub", !.h = h, !.m = m] : h \in hs} ELSE {})
  \cup (IF "ppub" \in Alpha THEN {[D EXCEPT !.o = "ppub", !.t = "A", !.m = m]} ELSE {})
  \cup (IF "reg" \in Alpha THEN {[D EXCEPT !.o = "reg", !.t = "A", !.v = "reject"]} ELSE {})
  \cup (IF "unreg" \in Alpha THEN {[D EXCEPT !.o = "unreg", !.t = "A"]} ELSE {})
  \cup (IF "lp" \in Alpha THEN {[D EXCEPT !.o = "lp", !.h = h] : h \in hs} ELSE {})

Init == slots = <<>>
Next == /\ Len(slots) < NG * R
        /\ \E o \in Ops(Len(slots) + 1) : slots' = Append(slots, o)
Spec == Init /\ [][Next]_slots

\* slot k = call ((k-1) \div NG) + 1 of goroutine ((k-1) % NG) + 1
Script(g) == [r \in 1..R |-> Enc(slots[(r - 1) * NG + g])]
Scn == [cfg |-> [router |-> "floodsub", idfn |-> IdFn, peers |-> 0, psubs |-> [p1 |-> <<>>, p2 |-> <<>>], class |-> Class],
        pro |-> [i \in DOMAIN Pro |-> Enc(Pro[i])],
        g |-> [g \in 1..NG |-> Script(g)]]
Emit == Len(slots) = NG * R => PrintT(<<"SCN", ToJson(Scn)>>)
=============================================================================
