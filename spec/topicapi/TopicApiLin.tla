---------------------------- MODULE TopicApiLin ----------------------------
(* Trace specification for the concurrent level of X09 (property X09.b, and X09.c / X09.d under concurrency):
   call / return histories recorded from several goroutines calling the API of ONE real node (harness/drivers/x09
   TestX09Conc; overlaps forced by parking the event loop) are linearised against the reference machine of
   TopicApi.tla.  A history is accepted iff the cursor can reach the end of the file (C15's pattern).

   Every call takes effect atomically at one instant between its call line and its return line (TLin), except
     * the deprecated wrappers PubSub.Subscribe / PubSub.Publish: tryJoin (find or create the handle), then the call
       on THAT handle - which may have been closed in between (the caller then gets ErrTopicClosed for a topic it
       never closed: documented here, tolerated);
     * Publish: validation (closed test, seen-cache, local validator) inside the call; the delivery to the local
       subscriptions happens in a later event-loop turn, whose position in the history is given by the "dlv" line
       the tracer wrote from inside that turn;
     * Next on an empty live subscription blocks: it can only complete "blocked" after the driver cancelled its
       context, which the driver does only at a quiescence line that names it as blocked.
   Quiescence lines ("quiet") say which calls had not returned when nothing was running any more: exactly those must
   be un-linearisable Next calls (a lost wake-up, a call stuck behind a slow subscriber or a deadlock shows here).
   The final line compares the snapshot of the node and the content of every subscription with the machine.

   RelayRace = TRUE is the code as found (finding X09-F2): RelayCancelFunc tests its "already cancelled" flag when it is
   called and sets it after the event loop took the request, so two overlapping calls of the SAME cancel function both
   pass the test and two references are released. *)
EXTENDS TopicApi, Json

CONSTANT RelayRace

Trace == ndJsonDeserialize("trace.ndjson")

VARIABLES S,        \* reference machine
          ops,      \* id |-> [op, st, r, hh]   calls not yet returned
          pend,     \* accepted local publications whose delivery turn has not been seen yet
          undl,     \* message |-> number of UndeliverableMessage traces still expected
          cctx,     \* ids of Next calls whose context the driver cancelled
          newsub,   \* id of a concurrent Subscribe call |-> index of its subscription in S.subs
          l

tvars == <<S, ops, pend, undl, cctx, newsub, l>>
E == Trace[l]
More == l <= Len(Trace)
Adv == l' = l + 1
AsSet(q) == {q[i] : i \in DOMAIN q}

Cfg0 == [router |-> "floodsub", idfn |-> "uniq", peers |-> 0, psubs |-> [p1 |-> {}, p2 |-> {}]]

TInit == /\ TLCSet(1, 0) /\ S = Init0(Cfg0, {}) /\ ops = <<>> /\ pend = {} /\ undl = <<>> /\ cctx = {} /\ newsub = <<>> /\ l = 1

TReset ==
    /\ More /\ E.e = "reset"
    /\ S' = Init0([router |-> E.cfg.router, idfn |-> E.cfg.idfn, peers |-> 0, psubs |-> [p1 |-> {}, p2 |-> {}]], {})
    /\ ops' = <<>> /\ pend' = {} /\ undl' = <<>> /\ cctx' = {} /\ newsub' = <<>> /\ Adv

TCall ==
    /\ More /\ E.e = "call" /\ E.id \notin DOMAIN ops
    /\ WellFormed(S, E.op)
    /\ ops' = ops @@ (E.id :> [op |-> E.op, st |-> "pending", r |-> "", hh |-> 0])
    /\ Adv /\ UNCHANGED <<S, pend, undl, cctx, newsub>>

Done(id, r) == ops' = [ops EXCEPT ![id].st = "lin", ![id].r = r]

\* first half of Publish on an open handle of topic t: everything but the delivery
PubPhase(id, t) ==
    LET o == ops[id].op
        a == PubCore(S, t, o, FALSE)
        dup == \E i \in DOMAIN a.ev : a.ev[i].k = "Duplicate"
        local == o.mode \in {"local", "localnilkey"} IN
    /\ S' = a.s
    /\ pend' = IF a.res = "ok" /\ ~dup
                 THEN pend \cup {[t |-> t, disp |-> Disp(S, t, o.m), local |-> local,
                                  tag |-> o.m \o (IF o.mode = "key" THEN "@v" ELSE "") \o (IF local THEN "@l" ELSE "")]}
                 ELSE pend
    /\ Done(id, a.res)
    /\ UNCHANGED <<undl, cctx, newsub>>

TLin(id) ==
    LET o == ops[id].op st == ops[id].st IN
    /\ st \in {"pending", "mid"}
    /\ CASE o.o = "next" ->
              LET x == S.subs[o.s] IN
              /\ x.buf # <<>> \/ ~x.live \/ id \in cctx
              /\ IF x.buf # <<>> THEN S' = [S EXCEPT !.subs[o.s].buf = Tail(@)] /\ Done(id, Head(x.buf))
                 ELSE IF ~x.live THEN S' = S /\ Done(id, "cancelled")
                 ELSE S' = S /\ Done(id, "blocked")
              /\ UNCHANGED <<pend, undl, cctx, newsub>>
         [] o.o \in {"psub", "ppub"} /\ st = "pending" ->
              \* tryJoin: find or create the handle of the topic
              /\ S' = TryJoin(S, o.t)
              /\ ops' = [ops EXCEPT ![id].st = "mid", ![id].hh = TryJoin(S, o.t).reg[o.t]]
              /\ UNCHANGED <<pend, undl, cctx, newsub>>
         [] o.o = "psub" /\ st = "mid" ->
              IF ops[id].hh > 0 /\ S.h[ops[id].hh].closed
                THEN S' = S /\ Done(id, "closed") /\ UNCHANGED <<pend, undl, cctx, newsub>>
                ELSE LET a == AddSub(S, o.t, o.cap) IN
                     /\ S' = a.s /\ Done(id, a.res) /\ newsub' = newsub @@ (id :> Len(a.s.subs))
                     /\ UNCHANGED <<pend, undl, cctx>>
         [] o.o = "ppub" /\ st = "mid" ->
              IF ops[id].hh > 0 /\ S.h[ops[id].hh].closed
                THEN S' = S /\ Done(id, "closed") /\ UNCHANGED <<pend, undl, cctx, newsub>>
                ELSE PubPhase(id, o.t)
         [] o.o = "pub" ->
              IF HandleClosed(S, o.h) THEN S' = S /\ Done(id, ClosedRes(o)) /\ UNCHANGED <<pend, undl, cctx, newsub>>
              ELSE PubPhase(id, S.h[o.h].t)
         [] o.o = "unrelay" /\ RelayRace /\ st = "pending" ->
              \* as found: the flag is read when the function is called ...
              /\ IF S.rel[o.r].live THEN ops' = [ops EXCEPT ![id].st = "mid"] ELSE Done(id, "ok")
              /\ UNCHANGED <<S, pend, undl, cctx, newsub>>
         [] o.o = "unrelay" /\ RelayRace /\ st = "mid" ->
              \* ... and the event loop releases A reference of the topic whether or not this one is still held
              /\ S' = Apply([S EXCEPT !.dev = @ \cup {"unrelayNotIdempotent"}], o).s
              /\ Done(id, "ok")
              /\ UNCHANGED <<pend, undl, cctx, newsub>>
         [] OTHER ->
              LET a == Apply(S, o) IN
              /\ st = "pending"
              /\ S' = a.s /\ Done(id, a.res)
              /\ newsub' = IF o.o = "sub" /\ a.res = "ok" THEN newsub @@ (id :> Len(a.s.subs)) ELSE newsub
              /\ UNCHANGED <<pend, undl, cctx>>
    /\ UNCHANGED l

TRet ==
    /\ More /\ E.e = "ret" /\ E.id \in DOMAIN ops
    /\ ops[E.id].st = "lin" /\ ops[E.id].r = E.res
    /\ ops' = [i \in DOMAIN ops \ {E.id} |-> ops[i]]
    /\ Adv /\ UNCHANGED <<S, pend, undl, cctx, newsub>>

\* the event-loop turn that delivers an accepted publication
Bump(f, m, n) == IF n = 0 THEN f ELSE IF m \in DOMAIN f THEN [f EXCEPT ![m] = @ + n] ELSE f @@ (m :> n)
TDlv ==
    /\ More /\ E.e = "dlv"
    /\ \E d \in pend :
         /\ d.disp = E.m
         /\ LET dl == Deliver(S, d.t, d.tag, d.tag, d.disp, "self", "self", d.local) IN
            /\ S' = dl.s
            /\ undl' = Bump(undl, d.disp, Len(dl.ev) - 1)
         /\ pend' = pend \ {d}
    /\ Adv /\ UNCHANGED <<ops, cctx, newsub>>

TUndlv ==
    /\ More /\ E.e = "undlv"
    /\ E.m \in DOMAIN undl /\ undl[E.m] > 0
    /\ undl' = [undl EXCEPT ![E.m] = @ - 1]
    /\ Adv /\ UNCHANGED <<S, ops, pend, cctx, newsub>>

TSkip == /\ More /\ E.e = "release" /\ Adv /\ UNCHANGED <<S, ops, pend, undl, cctx, newsub>>

NoneOwed == pend = {} /\ \A m \in DOMAIN undl : undl[m] = 0

\* nothing runs any more: exactly the listed calls have not returned, and each of them is a Next with nothing to return
TQuiet ==
    /\ More /\ E.e = "quiet"
    /\ NoneOwed
    /\ DOMAIN ops = AsSet(E.blocked)
    /\ \A id \in DOMAIN ops :
          /\ ops[id].op.o = "next" /\ ops[id].st = "pending"
          /\ S.subs[ops[id].op.s].buf = <<>> /\ S.subs[ops[id].op.s].live
    /\ Adv /\ UNCHANGED <<S, ops, pend, undl, cctx, newsub>>

TCtx ==
    /\ More /\ E.e = "ctx"
    /\ cctx' = cctx \cup {E.id}
    /\ Adv /\ UNCHANGED <<S, ops, pend, undl, newsub>>

TFinal ==
    /\ More /\ E.e = "final"
    /\ DOMAIN ops = {} /\ NoneOwed
    /\ LET sn == Snap(S) IN
       /\ E.st.reg = sn.reg /\ E.st.subs = sn.subs /\ E.st.rel = sn.rel /\ E.st.evh = sn.evh /\ E.st.gt = sn.gt /\ E.st.extra = <<>>
    /\ Len(E.bufs) = Len(S.subs)
    /\ \A i \in DOMAIN E.bufs :
          LET b == E.bufs[i] IN
          /\ b.new => b.s \in DOMAIN newsub
          /\ LET k == IF b.new THEN newsub[b.s] ELSE b.s IN
             /\ k \in DOMAIN S.subs
             /\ S.subs[k].buf = b.buf
             /\ (b.end = "live") = S.subs[k].live
             /\ b.end \in {"live", "cancelled"}
    /\ Adv /\ UNCHANGED <<S, ops, pend, undl, cctx, newsub>>

TNext == TReset \/ TCall \/ TRet \/ TDlv \/ TUndlv \/ TSkip \/ TQuiet \/ TCtx \/ TFinal \/ (\E id \in DOMAIN ops : TLin(id))

TraceSpec == TInit /\ [][TNext]_tvars

\* high-water mark of the cursor (needs -workers 1)
HW == IF TLCGet(1) < l THEN TLCSet(1, l) ELSE TRUE
MachineOK == Inv(S)
Accepted == PrintT(<<"HW", TLCGet(1), Len(Trace) + 1>>)
=============================================================================
