----------------------------- MODULE MCTopicApi -----------------------------
(* Exhaustive exploration of the reference machine of TopicApi.tla (all call sequences over a small alphabet up to a
   bound) with MONITORS that are computed from the history of calls, results and trace events only - not from the
   machine's own bookkeeping - so that the properties X09.a, c-h are stated independently of the definitions they
   judge.  Dev = {} is the intended machine (every invariant holds); every seeded defect of TopicApi.tla (one flag in
   Dev) MUST violate the invariant named for it in bin/lib/props/x09.py (non-vacuity); Dev = {"joinOptLeaks"} is the
   code as found and MUST violate P_X09_a_RefusedCallNoEffect (finding X09-F1). *)
EXTENDS TopicApi

CONSTANTS L, Alpha, Dev, IdFn, NPeers, MaxH, MaxS, MaxR, MaxE, MaxM, Caps, Vals, JoinOpts

VARIABLES S, n,
          \* monitors (history only)
          tSub,      \* sub index |-> [t, live, offered, taken, dropped, got, atCancel, sawCancelled]
          tRel,      \* relay index |-> [t, live]
          tEvh,      \* handler index |-> [t, live]
          tH,        \* handle index |-> [t, closed]
          tVal,      \* topic |-> validator kind in force by the history of reg/unreg results ("none" if none)
          joined,    \* topic |-> router Join traced and not yet Leave
          rejected,  \* ids traced Reject (validation failed / ignored)
          nUndl,     \* number of Undeliverable trace events so far
          bad        \* names of violated predicates (monitor actions add to it)
vars == <<S, n, tSub, tRel, tEvh, tH, tVal, joined, rejected, nUndl, bad>>

Cfg == [router |-> "floodsub", idfn |-> IdFn, peers |-> NPeers, psubs |-> [p1 |-> {"A"}, p2 |-> {"A"}]]

Init == /\ S = Init0(Cfg, Dev) /\ n = 0
        /\ tSub = <<>> /\ tRel = <<>> /\ tEvh = <<>> /\ tH = <<>>
        /\ tVal = [t \in Topics |-> "none"] /\ joined = {} /\ rejected = {} /\ nUndl = 0 /\ bad = {}

GT == {"A"}
RegOp(v) == [D EXCEPT !.o = "reg", !.t = "A", !.v = v]
MsgNames == {"m" \o ToString(i) : i \in 1..MaxM}
Ops ==
    LET hs == DOMAIN S.h ss == DOMAIN S.subs rs == DOMAIN S.rel es == DOMAIN S.evh IN
       (IF "join" \in Alpha /\ Len(S.h) < MaxH THEN {[D EXCEPT !.o = "join", !.t = t, !.opt = jo] : t \in GT, jo \in JoinOpts} ELSE {})
  \cup (IF "close" \in Alpha THEN {[D EXCEPT !.o = "close", !.h = h] : h \in hs} ELSE {})
  \cup (IF "sub" \in Alpha /\ Len(S.subs) < MaxS THEN {[D EXCEPT !.o = "sub", !.h = h, !.cap = c] : h \in hs, c \in Caps} ELSE {})
  \cup (IF "psub" \in Alpha /\ Len(S.subs) < MaxS THEN {[D EXCEPT !.o = "psub", !.t = t, !.cap = c] : t \in GT, c \in Caps} ELSE {})
  \cup (IF "cancel" \in Alpha THEN {[D EXCEPT !.o = "cancel", !.s = s] : s \in ss} ELSE {})
  \cup (IF "next" \in Alpha THEN {[D EXCEPT !.o = "next", !.s = s] : s \in ss} ELSE {})
  \cup (IF "relay" \in Alpha /\ Len(S.rel) < MaxR THEN {[D EXCEPT !.o = "relay", !.h = h] : h \in hs} ELSE {})
  \cup (IF "unrelay" \in Alpha THEN {[D EXCEPT !.o = "unrelay", !.r = r] : r \in rs} ELSE {})
  \cup (IF "evh" \in Alpha /\ Len(S.evh) < MaxE THEN {[D EXCEPT !.o = "evh", !.h = h] : h \in hs} ELSE {})
  \cup (IF "evcancel" \in Alpha THEN {[D EXCEPT !.o = "evcancel", !.e = e] : e \in es} ELSE {})
  \cup (IF "reg" \in Alpha THEN {RegOp(v) : v \in Vals} ELSE {})
  \cup (IF "unreg" \in Alpha THEN {[D EXCEPT !.o = "unreg", !.t = "A"]} ELSE {})
  \cup (IF "pub" \in Alpha THEN {[D EXCEPT !.o = "pub", !.h = h, !.m = m] : h \in hs, m \in MsgNames} ELSE {})
  \cup (IF "publocal" \in Alpha THEN {[D EXCEPT !.o = "pub", !.h = h, !.m = m, !.mode = "local"] : h \in hs, m \in MsgNames} ELSE {})
  \cup (IF "rmsg" \in Alpha THEN {[D EXCEPT !.o = "rmsg", !.p = "p1", !.t = "A", !.m = m] : m \in MsgNames} ELSE {})

\* ---------------------------------------------------------------------------------------------- monitor updates
TopicOf(o) == IF o.o \in {"close", "sub", "relay", "evh", "pub"} THEN tH[o.h].t
              ELSE IF o.o \in {"cancel", "next"} THEN tSub[o.s].t
              ELSE IF o.o = "unrelay" THEN tRel[o.r].t
              ELSE IF o.o = "evcancel" THEN tEvh[o.e].t ELSE o.t
LiveT(q, t) == Cardinality({i \in DOMAIN q : q[i].t = t /\ q[i].live})
Count(ev, k) == Cardinality({i \in DOMAIN ev : ev[i].k = k})
Delivered(ev) == {ev[i].m : i \in {j \in DOMAIN ev : ev[j].k = "Deliver"}}
CapT(c) == IF c = 0 THEN DefaultCap ELSE c

Step(o) ==
    LET a == Apply(S, o)
        t == TopicOf(o)
        hClosed == o.o \in {"sub", "relay", "evh", "pub", "close"} /\ tH[o.h].closed
        busyT == LiveT(tSub, t) + LiveT(tRel, t) + LiveT(tEvh, t)
        inter0 == LiveT(tSub, t) + LiveT(tRel, t) > 0
        dm == Delivered(a.ev)
        \* the subscriptions registered when the delivery happens, by the history
        offeredTo == IF dm = {} THEN {} ELSE {i \in DOMAIN tSub : tSub[i].t = t /\ tSub[i].live}
        fullOf == {i \in offeredTo : tSub[i].offered - tSub[i].taken - tSub[i].dropped >= CapT(S.subs[i].cap)}
        tSub1 == [i \in DOMAIN tSub |->
                    IF i \in offeredTo THEN [tSub[i] EXCEPT !.offered = @ + 1, !.dropped = IF i \in fullOf THEN @ + 1 ELSE @,
                                                            !.want = IF i \in fullOf THEN @ ELSE Append(@, (CHOOSE m \in dm : TRUE) \o (IF o.o = "pub" /\ o.mode = "local" THEN "@l" ELSE ""))]
                    ELSE tSub[i]]
        tSub2 == CASE o.o \in {"sub", "psub"} /\ a.res = "ok" ->
                        Append(tSub1, [t |-> t, live |-> TRUE, offered |-> 0, taken |-> 0, dropped |-> 0, want |-> <<>>, sawCancelled |-> FALSE])
                   [] o.o = "cancel" -> [tSub1 EXCEPT ![o.s].live = FALSE]
                   [] o.o = "next" /\ a.res \notin {"cancelled", "blocked"} -> [tSub1 EXCEPT ![o.s].taken = @ + 1, ![o.s].want = Tail(@)]
                   [] o.o = "next" /\ a.res = "cancelled" -> [tSub1 EXCEPT ![o.s].sawCancelled = TRUE]
                   [] OTHER -> tSub1
        inter1 == LiveT(tSub2, t) + (IF o.o = "relay" /\ a.res = "ok" THEN LiveT(tRel, t) + 1
                                      ELSE IF o.o = "unrelay" /\ tRel[o.r].live THEN LiveT(tRel, t) - 1 ELSE LiveT(tRel, t)) > 0
        b ==   (IF o.o = "close" /\ ~hClosed /\ ((a.res = "ok") # (busyT = 0)) THEN {"P_X09_a_CloseIffNothingOutstanding"} ELSE {})
          \cup (IF hClosed /\ (a.s # S \/ a.ev # <<>> \/ a.res \notin {"closed", "ok"} \/ (a.res = "ok" /\ o.o # "close"))
                  THEN {"P_X09_a_ClosedHandleInert"} ELSE {})
          \cup (IF o.o = "join" /\ (a.res = "ok") # (\A i \in DOMAIN tH : tH[i].t # o.t \/ tH[i].closed) /\ S.reg[o.t] # -1
                  THEN {"P_X09_a_OneHandlePerTopic"} ELSE {})
          \cup (IF a.res \in {"exists", "outstanding", "closed", "duplicate", "absent", "badtype", "fanoutonly"} /\ [a.s EXCEPT !.dev = S.dev] # S
                  THEN {"P_X09_a_RefusedCallNoEffect"} ELSE {})
          \cup (IF o.o = "next" /\ a.res \notin {"cancelled", "blocked"} /\ (tSub[o.s].want = <<>> \/ a.res # Head(tSub[o.s].want))
                  THEN {"P_X09_c_OrderAndCompleteness"} ELSE {})
          \cup (IF o.o = "next" /\ a.res \in {"cancelled", "blocked"} /\ tSub[o.s].want # <<>> THEN {"P_X09_d_DrainBeforeCancelled"} ELSE {})
          \cup (IF o.o = "next" /\ a.res = "cancelled" /\ tSub[o.s].live THEN {"P_X09_d_CancelledOnlyAfterCancel"} ELSE {})
          \cup (IF o.o = "next" /\ a.res = "blocked" /\ ~tSub[o.s].live THEN {"P_X09_d_CancelWakes"} ELSE {})
          \cup (IF o.o = "next" /\ a.res \notin {"cancelled", "blocked"} /\ tSub[o.s].sawCancelled THEN {"P_X09_d_NothingAfterCancelled"} ELSE {})
          \cup (IF Count(a.ev, "Undeliverable") # Cardinality(fullOf) THEN {"P_X09_c_EachDropTracedOnce"} ELSE {})
          \cup (IF a.res = "hung" THEN {"P_X09_c_LoopNeverBlocks"} ELSE {})
          \cup (IF o.o = "reg" /\ o.v # "bad" /\ (a.res = "ok") # (tVal["A"] = "none") THEN {"P_X09_e_AtMostOneValidator"} ELSE {})
          \cup (IF o.o = "unreg" /\ (a.res = "ok") # (tVal["A"] # "none") THEN {"P_X09_e_UnregisterAbsentErrors"} ELSE {})
          \cup (IF o.o \in {"pub", "rmsg"} /\ ~hClosed /\ Count(a.ev, "Validate") + Count(a.ev, "Publish") > 0 /\ Count(a.ev, "Duplicate") = 0
                    /\ (a.vc # <<>>) # (tVal["A"] # "none") THEN {"P_X09_e_ValidatorInForce"} ELSE {})
          \cup (IF o.o \in {"pub", "rmsg"} /\ a.vc # <<>> /\ tVal["A"] \in {"accept", "reject"}
                    /\ (Count(a.ev, "Deliver") > 0) # (tVal["A"] = "accept") THEN {"P_X09_e_FirstValidatorStays"} ELSE {})
          \cup (IF dm \cap rejected # {} THEN {"P_X09_f_RejectedIsSeen"} ELSE {})
          \cup (IF o.o = "pub" /\ o.mode = "local" /\ a.snd # {} THEN {"P_X09_f_LocalOnlyNotSent"} ELSE {})
          \cup (IF o.o = "pub" /\ o.mode = "" /\ dm # {} /\ a.snd # {[p |-> p, m |-> CHOOSE m \in dm : TRUE] : p \in Conn(S)} THEN {"P_X09_f_SentToTopicPeers"} ELSE {})
          \cup (IF o.o = "rmsg" /\ ~inter0 /\ a.ev # <<>> THEN {"P_X09_g_NoInterestIgnored"} ELSE {})
          \cup (IF o.o = "rmsg" /\ inter0 /\ a.ev = <<>> THEN {"P_X09_g_InterestAccepts"} ELSE {})
          \cup (IF (Count(a.ev, "Join") > 0) # (~inter0 /\ inter1) \/ (Count(a.ev, "Leave") > 0) # (inter0 /\ ~inter1) THEN {"P_X09_h_InterestEdges"} ELSE {})
          \cup (IF Snap(a.s).gt[1] # (LiveT(tSub2, "A") > 0) THEN {"P_X09_a_GetTopicsIsSubscriptions"} ELSE {})
          \cup (IF Snap(a.s).subs[1] # LiveT(tSub2, "A") THEN {"P_X09_a_SubscriptionCount"} ELSE {})
    IN
    /\ S' = a.s /\ n' = n + 1
    /\ tSub' = tSub2
    /\ tRel' = IF o.o = "relay" /\ a.res = "ok" THEN Append(tRel, [t |-> t, live |-> TRUE])
               ELSE IF o.o = "unrelay" THEN [tRel EXCEPT ![o.r].live = FALSE] ELSE tRel
    /\ tEvh' = IF o.o = "evh" /\ a.res = "ok" THEN Append(tEvh, [t |-> t, live |-> TRUE])
               ELSE IF o.o = "evcancel" THEN [tEvh EXCEPT ![o.e].live = FALSE] ELSE tEvh
    /\ tH' = IF o.o = "join" /\ a.res = "ok" THEN Append(tH, [t |-> o.t, closed |-> FALSE])
             ELSE IF o.o = "close" /\ a.res = "ok" THEN [tH EXCEPT ![o.h].closed = TRUE] ELSE tH
    /\ tVal' = IF o.o = "reg" /\ a.res = "ok" THEN [tVal EXCEPT !["A"] = o.v]
               ELSE IF o.o = "unreg" /\ a.res = "ok" THEN [tVal EXCEPT !["A"] = "none"] ELSE tVal
    /\ joined' = joined
    /\ rejected' = rejected \cup {a.ev[i].m : i \in {j \in DOMAIN a.ev : a.ev[j].k = "Reject" /\ a.ev[j].r \in {"validation failed", "validation ignored"}}}
    /\ nUndl' = nUndl + Count(a.ev, "Undeliverable")
    /\ bad' = bad \cup b

Next == n < L /\ \E o \in Ops : Step(o)
Spec == Init /\ [][Next]_vars

\* one invariant per predicate, so that a must-fail configuration names exactly the one it is about
NotBad(p) == p \notin bad
P_X09_a_CloseIffNothingOutstanding == NotBad("P_X09_a_CloseIffNothingOutstanding")
P_X09_a_ClosedHandleInert == NotBad("P_X09_a_ClosedHandleInert")
P_X09_a_OneHandlePerTopic == NotBad("P_X09_a_OneHandlePerTopic")
P_X09_a_RefusedCallNoEffect == NotBad("P_X09_a_RefusedCallNoEffect")
P_X09_a_GetTopicsIsSubscriptions == NotBad("P_X09_a_GetTopicsIsSubscriptions")
P_X09_a_SubscriptionCount == NotBad("P_X09_a_SubscriptionCount")
P_X09_c_OrderAndCompleteness == NotBad("P_X09_c_OrderAndCompleteness")
P_X09_c_EachDropTracedOnce == NotBad("P_X09_c_EachDropTracedOnce")
P_X09_c_LoopNeverBlocks == NotBad("P_X09_c_LoopNeverBlocks")
P_X09_d_DrainBeforeCancelled == NotBad("P_X09_d_DrainBeforeCancelled")
P_X09_d_CancelledOnlyAfterCancel == NotBad("P_X09_d_CancelledOnlyAfterCancel")
P_X09_d_CancelWakes == NotBad("P_X09_d_CancelWakes")
P_X09_d_NothingAfterCancelled == NotBad("P_X09_d_NothingAfterCancelled")
P_X09_e_AtMostOneValidator == NotBad("P_X09_e_AtMostOneValidator")
P_X09_e_UnregisterAbsentErrors == NotBad("P_X09_e_UnregisterAbsentErrors")
P_X09_e_ValidatorInForce == NotBad("P_X09_e_ValidatorInForce")
P_X09_e_FirstValidatorStays == NotBad("P_X09_e_FirstValidatorStays")
P_X09_f_RejectedIsSeen == NotBad("P_X09_f_RejectedIsSeen")
P_X09_f_LocalOnlyNotSent == NotBad("P_X09_f_LocalOnlyNotSent")
P_X09_f_SentToTopicPeers == NotBad("P_X09_f_SentToTopicPeers")
P_X09_g_NoInterestIgnored == NotBad("P_X09_g_NoInterestIgnored")
P_X09_g_InterestAccepts == NotBad("P_X09_g_InterestAccepts")
P_X09_h_InterestEdges == NotBad("P_X09_h_InterestEdges")
AllHold == bad = {}
MachineOK == Inv(S)
\* the buffer boundary: a subscription that was offered k messages and read none holds exactly min(k, cap)
P_X09_c_ExactlyCapKept ==
    \A i \in DOMAIN tSub : Len(S.subs[i].buf) = tSub[i].offered - tSub[i].taken - tSub[i].dropped
                             /\ (tSub[i].dropped > 0 => tSub[i].offered - tSub[i].dropped >= CapT(S.subs[i].cap) \/ tSub[i].taken > 0)
                             /\ Len(S.subs[i].buf) <= CapT(S.subs[i].cap)
=============================================================================
