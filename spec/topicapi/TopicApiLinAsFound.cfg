SPECIFICATION TraceSpec
CONSTANT RelayRace = TRUE
CONSTRAINT HW
POSTCONDITION Accepted
CHECK_DEADLOCK FALSE
