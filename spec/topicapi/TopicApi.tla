------------------------------ MODULE TopicApi ------------------------------
(* X09 - the Topic / Subscription / TopicEventHandler / topic-validator API of go-libp2p-pubsub as ONE sequential
   reference machine (topic.go, subscription.go, the addTopic / rmTopic / addSub / cancelCh / addRelay / rmRelay /
   addVal / rmVal / getTopics / getPeers / sendMsg cases of pubsub.go processLoop, validation.go AddValidator /
   RemoveValidator / ValidateLocal / validate, the deprecated PubSub.Subscribe / PubSub.Publish wrappers).

   (* PROPERTIES X09.a ... X09.h  (machine readable: properties_x.json)

   X09.a  Handle state machine.  For EVERY sequence of API calls made from one goroutine the result of each call
          (nil / which error / which message) and the state it leaves (myTopics membership, number of live
          subscriptions, relay references and event handlers per topic, GetTopics) equal those of this machine:
          Join returns one handle per topic name and "topic already exists" while one is registered (also one created
          behind the scenes by the deprecated PubSub.Subscribe / PubSub.Publish, which can never be closed);
          Close succeeds iff no event handler, subscription or relay reference of the topic is outstanding, is a
          no-op (nil) on a closed handle; after Close every method of THAT handle returns ErrTopicClosed
          (ListPeers: the empty list) and has no effect; a later Join gives a fresh handle; a refused call
          (second Join, Close with something outstanding, call on a closed handle) never changes anything.
   X09.b  Atomicity.  Histories of CONCURRENT callers are linearizable against this machine (every call takes effect
          at one instant between its invocation and its return; the deprecated wrappers at two: tryJoin, then the
          call on the handle; Publish at two: validation inside the call, delivery in a later event-loop turn).
          In particular: a Subscribe / Relay / EventHandler racing a successful Close of the same handle returns
          ErrTopicClosed or makes the Close fail - never a live subscription on a closed topic; Subscription.Cancel,
          RelayCancelFunc and TopicEventHandler.Cancel are idempotent also when called concurrently: the reference
          they hold is released exactly once.
   X09.c  Subscriber isolation and order.  Every subscription receives the messages of its topic that were delivered
          (DeliverMessage trace) while it was registered, each at most once, in delivery order, EXCEPT those that arrived
          while ITS OWN buffer (WithBufferSize n, default 32) already held n unread messages; each such drop is traced
          UndeliverableMessage exactly once; a subscriber that never reads never delays another subscriber, the
          publisher or any other API call (the event loop never blocks on a subscription); nothing delivered before
          Subscribe returned is seen, nothing delivered after it returned (and before Cancel) is missed.
   X09.d  Next.  Next returns the buffered messages in order; when the buffer is empty it blocks until a message, Cancel
          or the caller's context; after Cancel the messages still buffered ARE returned first (close(sub.ch) drains) and
          then every call returns ErrSubscriptionCancelled - no message is ever returned after that error; Cancel is
          idempotent and wakes a blocked Next.
   X09.e  Topic validators.  At most one per topic name: a second RegisterTopicValidator errors ("duplicate validator")
          and leaves the first in force; Unregister of an absent one errors; an unknown function type errors and registers
          nothing; registrations are per topic NAME and survive Close / re-Join of handles.  Every message that enters
          validation (Publish called / RPC handled) after Register returned is validated by it, none that enters after
          Unregister returned.  WithValidatorTimeout(d) = the validator's context expires after exactly d;
          WithValidatorConcurrency(n) = at most n validations of the topic run at a time, the (n+1)-th message is
          rejected "validation throttled" without calling the validator; WithValidatorInline = called on the validation
          worker itself; a local Publish always runs the validator synchronously in the caller.
   X09.f  Publish.  On a closed handle: ErrTopicClosed and NO trace event; ErrNilSignKey / ErrEmptyPeerID (only when not
          WithLocalPublication) before any trace; a message the local validator rejects / ignores returns the validation
          error, is traced Publish + Reject, is delivered to nobody and sent to nobody - but its id IS marked seen (a later
          copy, local or remote, is a duplicate, and Publish of a duplicate returns nil); an accepted message is traced
          Deliver exactly once, handed to every live subscription of the topic (also none), and unless
          WithLocalPublication sent to the topic's peers whether or not we subscribe ourselves; WithReadiness polls every
          200 ms until ready or the context ends ("router is not ready").
   X09.g  Relay.  Relay references count per topic name; while subscriptions or relay references exist remote messages
          of the topic are accepted, validated and forwarded; with relays only they are delivered to no local subscriber;
          when the last of both goes they are ignored (not even marked seen). Relay on a FanoutOnly topic: ErrFanoutOnlyTopic.
   X09.h  Interest edges.  The router's Join(topic) is traced exactly when the number of live subscriptions + relay
          references of a (not fanout-only) topic goes 0 -> 1, Leave exactly when it goes 1 -> 0.
   *)

   The machine is a record S manipulated by pure operators, so that the scenario generator (GenTopicApi), the
   deterministic trace specification (TopicApiTrace), the linearisation specification (TopicApiLin) and the
   exhaustive configurations (MCTopicApi) all use the SAME definitions.  Deviations of the code as found are named
   by the flags in S.dev (a set of strings):
      "joinOptLeaks"   TopicOpts run BEFORE the existence check: a refused Join(t, WithTopicMessageIdFn f) replaces
                       the message-id function of the open topic; the function also survives Close (finding X09-F1)
   and the seeded model defects used by the must-fail configurations:
      "closeIgnoresSubs" "closeIgnoresRelays" "closeIgnoresEvh" "closedHandleWorks" "secondJoinReplaces"
      "cancelNotIdempotent" "unrelayNotIdempotent" "blockingSend" "capOffByOne" "dropNotTraced" "cancelLosesBuffer"
      "dupValidatorReplaces" "unregAbsentOk" "rejectNotSeen" "localOnlySent" "noInterestStillAccepts" "gtCountsRelays" *)
EXTENDS Integers, Sequences, FiniteSets, TLC

U == <<"A", "B">>
Topics == {"A", "B"}
Peers == {"p1", "p2"}
DefaultCap == 32
DefaultConc == 1024

NoVal == [k |-> "none", inl |-> FALSE, to |-> 0, conc |-> 0, gen |-> 0]

\* every operation is a record with ALL these fields (unused ones at their defaults)
D == [o |-> "", t |-> "", h |-> 0, s |-> 0, r |-> 0, e |-> 0, cap |-> 0, m |-> "", mode |-> "", v |-> "",
      inl |-> FALSE, to |-> 0, conc |-> 0, opt |-> "", p |-> "", pv |-> FALSE]

Init0(cfg, dev) ==
    [cfg |-> cfg, dev |-> dev,
     reg |-> [t \in Topics |-> 0],          \* 0 = no handle registered, -1 = hidden handle (deprecated wrappers), k = S.h[k]
     h |-> <<>>,                            \* handles returned by successful Joins: [t, closed, fan]
     subs |-> <<>>,                         \* subscriptions: [t, cap, live, buf]
     rel |-> <<>>,                          \* relay references: [t, live]
     evh |-> <<>>,                          \* event handlers: [t, live]
     val |-> [t \in Topics |-> NoVal],
     vgen |-> 0,
     seen |-> {},
     rsub |-> [p \in Peers |-> IF p \in DOMAIN cfg.psubs THEN cfg.psubs[p] ELSE {}],
     kfn |-> {},                            \* topics whose message-id function is the per-topic override
     parked |-> <<>>]                       \* validations parked in a blocking validator: [t, m, disp, src, gen]

Has(S, d) == d \in S.dev
Conn(S) == {p \in Peers : (p = "p1" /\ S.cfg.peers >= 1) \/ (p = "p2" /\ S.cfg.peers >= 2)}

LiveSubs(S, t) == {i \in DOMAIN S.subs : S.subs[i].t = t /\ S.subs[i].live}
NSubs(S, t) == Cardinality(LiveSubs(S, t))
NRel(S, t) == Cardinality({i \in DOMAIN S.rel : S.rel[i].t = t /\ S.rel[i].live})
NEvh(S, t) == Cardinality({i \in DOMAIN S.evh : S.evh[i].t = t /\ S.evh[i].live})
Fan(S, t) == S.reg[t] > 0 /\ S.h[S.reg[t]].fan
Interested(S, t) == NSubs(S, t) > 0 \/ NRel(S, t) > 0
Disp(S, t, m) == IF t \in S.kfn THEN "K!" \o m ELSE m

Out(S, res) == [s |-> S, res |-> res, ev |-> <<>>, snd |-> {}, vc |-> <<>>, wire |-> [p \in Peers |-> {}]]
OutE(S, res, ev) == [Out(S, res) EXCEPT !.ev = ev]

Rep(n, x) == [j \in 1..n |-> x]
Ev(k, m, r) == [k |-> k, m |-> m, r |-> r]
SetToSeqU(s) == SelectSeq(U, LAMBDA x : x \in s)
Range(f) == {f[i] : i \in DOMAIN f}

(* one event-loop turn for an accepted message: DeliverMessage trace, notifySubs (non-blocking hand-off to every live
   subscription of the topic; a full buffer = UndeliverableMessage trace), rt.Publish unless local-only *)
CapOf(S, i) == LET c == IF S.subs[i].cap = 0 THEN DefaultCap ELSE S.subs[i].cap IN
               IF Has(S, "capOffByOne") THEN c - 1 ELSE c
Deliver(S, t, tag, wtag, disp, src, author, local) ==
    LET ls == LiveSubs(S, t)
        full == {i \in ls : Len(S.subs[i].buf) >= CapOf(S, i)}
        subs2 == [i \in DOMAIN S.subs |-> IF i \in ls \ full THEN [S.subs[i] EXCEPT !.buf = Append(@, tag)] ELSE S.subs[i]]
        to == IF local /\ ~Has(S, "localOnlySent") THEN {} ELSE {p \in Conn(S) : t \in S.rsub[p] /\ p # src /\ p # author}
    IN [s |-> [S EXCEPT !.subs = subs2],
        ev |-> <<Ev("Deliver", disp, "")>> \o (IF Has(S, "dropNotTraced") THEN <<>> ELSE Rep(Cardinality(full), Ev("Undeliverable", disp, ""))),
        snd |-> {[p |-> p, m |-> disp] : p \in to},
        wire |-> [p \in Peers |-> IF p \in to THEN {wtag} ELSE {}],
        stuck |-> Has(S, "blockingSend") /\ full # {}]

TryJoin(S, t) == IF S.reg[t] = 0 THEN [S EXCEPT !.reg[t] = -1] ELSE S
HandleClosed(S, h) == S.h[h].closed /\ ~Has(S, "closedHandleWorks")

----------------------------------------------------------------------------
\* Join
OpJoin(S, o) ==
    LET S1 == IF o.opt = "K" /\ Has(S, "joinOptLeaks") THEN [S EXCEPT !.kfn = @ \cup {o.t}] ELSE S IN
    IF S.reg[o.t] # 0 /\ ~Has(S, "secondJoinReplaces") THEN Out(S1, "exists")
    ELSE LET S2 == [S1 EXCEPT !.h = Append(@, [t |-> o.t, closed |-> FALSE, fan |-> o.opt = "fan"]),
                              !.reg[o.t] = Len(S.h) + 1,
                              !.kfn = IF o.opt = "K" THEN @ \cup {o.t} ELSE @] IN
         Out(S2, "ok")

\* Topic.Close
OpClose(S, o) ==
    LET H == S.h[o.h] t == H.t
        busy == (NEvh(S, t) > 0 /\ ~Has(S, "closeIgnoresEvh")) \/ (NSubs(S, t) > 0 /\ ~Has(S, "closeIgnoresSubs"))
                \/ (NRel(S, t) > 0 /\ ~Has(S, "closeIgnoresRelays")) IN
    IF H.closed THEN Out(S, "ok")
    ELSE IF busy THEN Out(S, "outstanding")
    ELSE Out([S EXCEPT !.h[o.h].closed = TRUE, !.reg[t] = 0,
                       !.kfn = IF Has(S, "joinOptLeaks") THEN @ ELSE @ \ {t}], "ok")

\* Topic.Subscribe on an open handle of topic t (handleAddSubscription)
AddSub(S, t, cap) ==
    LET first == NSubs(S, t) = 0 /\ NRel(S, t) = 0 /\ ~Fan(S, t) IN
    OutE([S EXCEPT !.subs = Append(@, [t |-> t, cap |-> cap, live |-> TRUE, buf |-> <<>>])], "ok",
         IF first THEN <<Ev("Join", t, "")>> ELSE <<>>)
OpSub(S, o) == IF HandleClosed(S, o.h) THEN Out(S, "closed") ELSE AddSub(S, S.h[o.h].t, o.cap)
OpPSub(S, o) == AddSub(TryJoin(S, o.t), o.t, o.cap)

\* Subscription.Cancel (handleRemoveSubscription)
OpCancel(S, o) ==
    LET x == S.subs[o.s] t == x.t IN
    IF ~x.live /\ ~Has(S, "cancelNotIdempotent") THEN Out(S, "ok")
    ELSE LET S1 == [S EXCEPT !.subs[o.s].live = FALSE,
                             !.subs[o.s].buf = IF Has(S, "cancelLosesBuffer") THEN <<>> ELSE @]
             \* the seeded non-idempotent variant takes ANOTHER live subscription of the topic with it
             S2 == IF ~x.live /\ LiveSubs(S, t) # {}
                     THEN LET j == CHOOSE j \in LiveSubs(S, t) : \A k \in LiveSubs(S, t) : j <= k IN [S1 EXCEPT !.subs[j].live = FALSE]
                     ELSE S1
             last == NSubs(S, t) > 0 /\ NSubs(S2, t) = 0 /\ NRel(S, t) = 0 /\ ~Fan(S, t) IN
         OutE(S2, "ok", IF last THEN <<Ev("Leave", t, "")>> ELSE <<>>)

\* Subscription.Next with a context the caller cancels once the call is seen to block
OpNext(S, o) ==
    LET x == S.subs[o.s] IN
    IF x.buf # <<>> THEN Out([S EXCEPT !.subs[o.s].buf = Tail(@)], Head(x.buf))
    ELSE IF ~x.live THEN Out(S, "cancelled")
    ELSE Out(S, "blocked")

\* Topic.Relay / RelayCancelFunc
OpRelay(S, o) ==
    LET t == S.h[o.h].t IN
    IF HandleClosed(S, o.h) THEN Out(S, "closed")
    ELSE IF S.h[o.h].fan THEN Out(S, "fanoutonly")
    ELSE OutE([S EXCEPT !.rel = Append(@, [t |-> t, live |-> TRUE])], "ok",
              IF NRel(S, t) = 0 /\ NSubs(S, t) = 0 THEN <<Ev("Join", t, "")>> ELSE <<>>)
OpUnrelay(S, o) ==
    LET x == S.rel[o.r] t == x.t IN
    IF ~x.live /\ ~Has(S, "unrelayNotIdempotent") THEN Out(S, "ok")
    ELSE LET S1 == [S EXCEPT !.rel[o.r].live = FALSE]
             others == {j \in DOMAIN S.rel : S.rel[j].t = t /\ S.rel[j].live /\ j # o.r}
             S2 == IF ~x.live /\ others # {}
                     THEN LET j == CHOOSE j \in others : \A k \in others : j <= k IN [S1 EXCEPT !.rel[j].live = FALSE]
                     ELSE S1 IN
         OutE(S2, "ok", IF NRel(S, t) > 0 /\ NRel(S2, t) = 0 /\ NSubs(S, t) = 0 THEN <<Ev("Leave", t, "")>> ELSE <<>>)

\* Topic.EventHandler / TopicEventHandler.Cancel
OpEvh(S, o) ==
    IF HandleClosed(S, o.h) THEN Out(S, "closed")
    ELSE Out([S EXCEPT !.evh = Append(@, [t |-> S.h[o.h].t, live |-> TRUE])], "ok")
OpEvCancel(S, o) == Out([S EXCEPT !.evh[o.e].live = FALSE], "ok")

\* RegisterTopicValidator / UnregisterTopicValidator
OpReg(S, o) ==
    IF o.v = "bad" THEN Out(S, "badtype")
    ELSE IF S.val[o.t].k # "none" /\ ~Has(S, "dupValidatorReplaces") THEN Out(S, "duplicate")
    ELSE Out([S EXCEPT !.val[o.t] = [k |-> IF o.v = "weird" THEN "ignore" ELSE o.v, inl |-> o.inl, to |-> o.to, conc |-> o.conc, gen |-> S.vgen + 1], !.vgen = @ + 1],
             IF S.val[o.t].k # "none" THEN "duplicate" ELSE "ok")
OpUnreg(S, o) ==
    IF S.val[o.t].k = "none" THEN Out(S, IF Has(S, "unregAbsentOk") THEN "ok" ELSE "absent")
    ELSE Out([S EXCEPT !.val[o.t] = NoVal], "ok")

VC(S, t, m, w, vd) == [m |-> m, w |-> w, dl |-> IF S.val[t].to > 0 THEN S.val[t].to ELSE -1, vd |-> vd]

(* Topic.Publish / AddToBatch on an OPEN handle of topic t (Topic.validate + ValidateLocal + the sendMsg turn) *)
PubCore(S, t, o, deliver) ==
    LET mode == o.mode
        m == o.m
        local == mode \in {"local", "localnilkey"}
        disp == Disp(S, t, m)
        tracked == S.cfg.idfn = "name" \/ t \in S.kfn
        tag == m \o (IF mode = "key" THEN "@v" ELSE "") \o (IF local THEN "@l" ELSE "")
        wtag == m \o (IF mode = "key" THEN "@v" ELSE "")
        sfx(p, ms) == IF mode \in {"ready2", "readyto"} THEN "/polls=" \o ToString(p) \o "/ms=" \o ToString(ms) ELSE ""
        v == S.val[t]
        S1 == IF tracked THEN [S EXCEPT !.seen = @ \cup {disp}] ELSE S
        vc == IF v.k = "none" THEN <<>> ELSE <<VC(S, t, m, "local", IF mode = "vd" THEN "vd1" ELSE "")>>
        pubEv == <<Ev("Publish", disp, "")>>
    IN
    IF mode = "nilkey" THEN Out(S, "nilkey")
    ELSE IF mode = "emptypid" THEN Out(S, "emptypid")
    ELSE IF mode = "readyto" THEN Out(S, "notready" \o sfx(3, 500))
    ELSE IF tracked /\ disp \in S.seen THEN OutE(S, "ok" \o sfx(3, 400), pubEv \o <<Ev("Duplicate", disp, "")>>)
    ELSE IF v.k = "reject"
        THEN [OutE(IF Has(S, "rejectNotSeen") THEN S ELSE S1, "rejected" \o sfx(3, 400), pubEv \o <<Ev("Reject", disp, "validation failed")>>) EXCEPT !.vc = vc]
    ELSE IF v.k = "ignore"
        THEN [OutE(S1, "ignored" \o sfx(3, 400), pubEv \o <<Ev("Reject", disp, "validation ignored")>>) EXCEPT !.vc = vc]
    ELSE IF ~deliver THEN [OutE(S1, "ok", pubEv) EXCEPT !.vc = vc]
    ELSE LET d == Deliver(S1, t, tag, wtag, disp, "self", "self", local) IN
         [s |-> d.s, res |-> IF d.stuck THEN "hung" ELSE "ok" \o sfx(3, 400), ev |-> pubEv \o d.ev, snd |-> d.snd, vc |-> vc, wire |-> d.wire]

ClosedRes(o) == IF o.mode \in {"ready2", "readyto"} THEN "closed/polls=0/ms=0" ELSE "closed"
OpPub(S, o) == IF HandleClosed(S, o.h) THEN Out(S, ClosedRes(o)) ELSE PubCore(S, S.h[o.h].t, o, TRUE)
OpAddB(S, o) == IF HandleClosed(S, o.h) THEN Out(S, ClosedRes(o)) ELSE PubCore(S, S.h[o.h].t, o, FALSE)
OpPPub(S, o) == PubCore(TryJoin(S, o.t), o.t, o, TRUE)

(* a message from fake peer o.p arrives (handleIncomingRPC, pushMsg, the validation pipeline, the sendMsg turn) *)
ParkedOf(S, g) == Cardinality({i \in DOMAIN S.parked : S.parked[i].gen = g})
OpRMsg(S, o) ==
    LET t == o.t m == o.m disp == Disp(S, t, m) v == S.val[t]
        S1 == [S EXCEPT !.seen = @ \cup {disp}]
        val == <<Ev("Validate", disp, "")>>
        w == IF v.inl THEN "inline" ELSE "async"
        limit == IF v.conc > 0 THEN v.conc ELSE DefaultConc IN
    IF ~Interested(S, t) /\ ~Has(S, "noInterestStillAccepts") THEN Out(S, "ok")
    ELSE IF disp \in S.seen THEN OutE(S, "ok", <<Ev("Duplicate", disp, "")>>)
    ELSE IF v.k = "reject" THEN [OutE(IF Has(S, "rejectNotSeen") THEN S ELSE S1, "ok", val \o <<Ev("Reject", disp, "validation failed")>>) EXCEPT !.vc = <<VC(S, t, m, w, "")>>]
    ELSE IF v.k = "ignore" THEN [OutE(S1, "ok", val \o <<Ev("Reject", disp, "validation ignored")>>) EXCEPT !.vc = <<VC(S, t, m, w, "")>>]
    ELSE IF v.k = "block" THEN
        IF ParkedOf(S, v.gen) >= limit THEN OutE(S1, "ok", val \o <<Ev("Reject", disp, "validation throttled")>>)
        ELSE [OutE([S1 EXCEPT !.parked = Append(@, [t |-> t, m |-> m, disp |-> disp, src |-> o.p, gen |-> v.gen])], "ok", val)
                EXCEPT !.vc = <<VC(S, t, m, w, "")>>]
    ELSE LET d == Deliver(S1, t, m, m, disp, o.p, o.p, FALSE) IN
         [s |-> d.s, res |-> IF d.stuck THEN "hung" ELSE "ok", ev |-> val \o d.ev, snd |-> d.snd,
          vc |-> IF v.k = "none" THEN <<>> ELSE <<VC(S, t, m, w, "")>>, wire |-> d.wire]

\* the oldest parked validation is released: its validator accepts
OpRel(S, o) ==
    IF S.parked = <<>> THEN Out(S, "none")
    ELSE LET x == Head(S.parked)
             d == Deliver([S EXCEPT !.parked = Tail(@)], x.t, x.m, x.m, x.disp, x.src, x.src, FALSE) IN
         [s |-> d.s, res |-> "ok", ev |-> d.ev, snd |-> d.snd, vc |-> <<>>, wire |-> d.wire]

OpRSub(S, o) == Out([S EXCEPT !.rsub[o.p] = IF o.pv THEN @ \cup {o.t} ELSE @ \ {o.t}], "ok")

PeerList(ps) == IF ps = {} THEN "[]" ELSE IF ps = {"p1"} THEN "[p1]" ELSE IF ps = {"p2"} THEN "[p2]" ELSE "[p1,p2]"
OpLP(S, o) == IF HandleClosed(S, o.h) THEN Out(S, "[]") ELSE Out(S, PeerList({p \in Conn(S) : S.h[o.h].t \in S.rsub[p]}))
OpPLP(S, o) == Out(S, PeerList({p \in Conn(S) : o.t \in S.rsub[p]}))
OpStr(S, o) == Out(S, S.h[o.h].t)
OpScore(S, o) ==
    IF o.v = "invalid" THEN Out(S, "invalidparams")
    ELSE IF HandleClosed(S, o.h) THEN Out(S, "closed")
    ELSE IF S.cfg.router = "floodsub" THEN Out(S, "notgossipsub")
    ELSE IF S.cfg.router = "gossipsub" THEN Out(S, "noscoring")
    ELSE Out(S, "ok")

Apply(S, o) ==
    CASE o.o = "join" -> OpJoin(S, o)
      [] o.o = "close" -> OpClose(S, o)
      [] o.o = "sub" -> OpSub(S, o)
      [] o.o = "psub" -> OpPSub(S, o)
      [] o.o = "cancel" -> OpCancel(S, o)
      [] o.o = "next" -> OpNext(S, o)
      [] o.o = "relay" -> OpRelay(S, o)
      [] o.o = "unrelay" -> OpUnrelay(S, o)
      [] o.o = "evh" -> OpEvh(S, o)
      [] o.o = "evcancel" -> OpEvCancel(S, o)
      [] o.o = "reg" -> OpReg(S, o)
      [] o.o = "unreg" -> OpUnreg(S, o)
      [] o.o = "pub" -> OpPub(S, o)
      [] o.o = "addb" -> OpAddB(S, o)
      [] o.o = "ppub" -> OpPPub(S, o)
      [] o.o = "rmsg" -> OpRMsg(S, o)
      [] o.o = "rel" -> OpRel(S, o)
      [] o.o = "rsub" -> OpRSub(S, o)
      [] o.o = "lp" -> OpLP(S, o)
      [] o.o = "plp" -> OpPLP(S, o)
      [] o.o = "str" -> OpStr(S, o)
      [] o.o = "score" -> OpScore(S, o)

\* does the operation refer to things that exist
WellFormed(S, o) ==
    /\ o.o \in {"close", "sub", "relay", "evh", "pub", "addb", "lp", "str", "score"} => o.h \in DOMAIN S.h
    /\ o.o \in {"cancel", "next"} => o.s \in DOMAIN S.subs
    /\ o.o = "unrelay" => o.r \in DOMAIN S.rel
    /\ o.o = "evcancel" => o.e \in DOMAIN S.evh

\* the snapshot the driver takes after every step, as vectors over U
Snap(S) ==
    [reg |-> [i \in 1..2 |-> S.reg[U[i]] # 0],
     subs |-> [i \in 1..2 |-> NSubs(S, U[i])],
     rel |-> [i \in 1..2 |-> NRel(S, U[i])],
     evh |-> [i \in 1..2 |-> NEvh(S, U[i])],
     gt |-> [i \in 1..2 |-> NSubs(S, U[i]) > 0 \/ (Has(S, "gtCountsRelays") /\ NRel(S, U[i]) > 0)]]

----------------------------------------------------------------------------
(* named validator variants, prologues and the compact encoding of operations used by the scenario generators *)
V(v, inl, to, conc) == [v |-> v, inl |-> inl, to |-> to, conc |-> conc, ty |-> ""]
VT(v, ty) == [v |-> v, inl |-> FALSE, to |-> 0, conc |-> 0, ty |-> ty]
ValDef(n) ==
    CASE n = "accept" -> V("accept", FALSE, 0, 0)
      [] n = "reject" -> V("reject", FALSE, 0, 0)
      [] n = "ignore" -> V("ignore", FALSE, 0, 0)
      [] n = "bad" -> V("bad", FALSE, 0, 0)
      [] n = "acceptInl" -> V("accept", TRUE, 0, 0)
      [] n = "rejectInl" -> V("reject", TRUE, 0, 0)
      [] n = "rejectTo" -> V("reject", FALSE, 300, 0)
      [] n = "acceptTo" -> V("accept", FALSE, 700, 3)
      \* the four function types makeValidator accepts ("" = func(...) ValidationResult), and a result outside the enumeration
      [] n = "rejectBool" -> VT("reject", "bool")
      [] n = "acceptBool" -> VT("accept", "bool")
      [] n = "rejectV" -> VT("reject", "V")
      [] n = "ignoreEx" -> VT("ignore", "Ex")
      [] n = "weird" -> VT("weird", "")
      [] n = "block1" -> V("block", FALSE, 0, 1)
      [] n = "block2" -> V("block", FALSE, 0, 2)

J(t, jo) == [D EXCEPT !.o = "join", !.t = t, !.opt = jo]
ProDef(n) ==
    CASE n = "none" -> <<>>
      [] n = "joinA" -> <<J("A", "")>>
      [] n = "joinAB" -> <<J("A", ""), J("B", "")>>
      [] n = "closedA" -> <<J("A", ""), [D EXCEPT !.o = "close", !.h = 1]>>
      [] n = "rejoinA" -> <<J("A", ""), [D EXCEPT !.o = "close", !.h = 1], J("A", "")>>
      [] n = "subA1" -> <<J("A", ""), [D EXCEPT !.o = "sub", !.h = 1, !.cap = 1]>>
      [] n = "subA12" -> <<J("A", ""), [D EXCEPT !.o = "sub", !.h = 1, !.cap = 1], [D EXCEPT !.o = "sub", !.h = 1, !.cap = 2]>>
      [] n = "subAB" -> <<J("A", ""), J("B", ""), [D EXCEPT !.o = "sub", !.h = 1, !.cap = 2], [D EXCEPT !.o = "sub", !.h = 2, !.cap = 2]>>
      [] n = "hiddenA" -> <<[D EXCEPT !.o = "psub", !.t = "A"]>>
      [] n = "fanA" -> <<J("A", "fan")>>
      [] n = "relayA" -> <<J("A", ""), [D EXCEPT !.o = "relay", !.h = 1]>>
      [] n = "KA" -> <<J("A", "K")>>
      \* concurrent level
      [] n = "busyA" -> <<J("A", ""), [D EXCEPT !.o = "sub", !.h = 1, !.cap = 1], [D EXCEPT !.o = "sub", !.h = 1, !.cap = 2],
                          [D EXCEPT !.o = "relay", !.h = 1], [D EXCEPT !.o = "relay", !.h = 1], [D EXCEPT !.o = "evh", !.h = 1]>>
      [] n = "oneEach" -> <<J("A", ""), [D EXCEPT !.o = "sub", !.h = 1, !.cap = 1], [D EXCEPT !.o = "relay", !.h = 1], [D EXCEPT !.o = "evh", !.h = 1]>>
      [] n = "sub1" -> <<J("A", ""), [D EXCEPT !.o = "sub", !.h = 1, !.cap = 1]>>
      [] n = "relay1" -> <<J("A", ""), [D EXCEPT !.o = "relay", !.h = 1]>>
      [] n = "evh1" -> <<J("A", ""), [D EXCEPT !.o = "evh", !.h = 1]>>
      [] n = "released" -> <<J("A", ""), [D EXCEPT !.o = "sub", !.h = 1, !.cap = 2], [D EXCEPT !.o = "relay", !.h = 1], [D EXCEPT !.o = "relay", !.h = 1],
                             [D EXCEPT !.o = "pub", !.h = 1, !.m = "m0"], [D EXCEPT !.o = "cancel", !.s = 1], [D EXCEPT !.o = "unrelay", !.r = 1]>>
      [] n = "twoGen" -> <<J("A", ""), [D EXCEPT !.o = "close", !.h = 1], J("A", ""), [D EXCEPT !.o = "sub", !.h = 2, !.cap = 1]>>

\* compact encoding of an operation (python turns it back into a record; defaults are dropped)
B(b) == IF b THEN "1" ELSE "0"
Enc(o) == o.o \o "|" \o o.t \o "|" \o ToString(o.h) \o "|" \o ToString(o.s) \o "|" \o ToString(o.r) \o "|" \o ToString(o.e) \o "|"
          \o ToString(o.cap) \o "|" \o o.m \o "|" \o o.mode \o "|" \o o.v \o "|" \o B(o.inl) \o "|" \o ToString(o.to) \o "|"
          \o ToString(o.conc) \o "|" \o o.opt \o "|" \o o.p \o "|" \o B(o.pv)


----------------------------------------------------------------------------
(* Structural invariants of the machine (checked by MCTopicApi on every reachable state) *)
I_RegisteredOpen == TRUE
Inv(S) ==
    /\ \A t \in Topics : S.reg[t] > 0 => (S.reg[t] \in DOMAIN S.h /\ ~S.h[S.reg[t]].closed /\ S.h[S.reg[t]].t = t)
    /\ \A k \in DOMAIN S.h : ~S.h[k].closed => S.reg[S.h[k].t] = k                 \* at most one open handle per name
    /\ \A t \in Topics : (NSubs(S, t) > 0 \/ NRel(S, t) > 0 \/ NEvh(S, t) > 0) => S.reg[t] # 0   \* nothing live without a handle
    /\ \A i \in DOMAIN S.subs : Len(S.subs[i].buf) <= (IF S.subs[i].cap = 0 THEN DefaultCap ELSE S.subs[i].cap)
=============================================================================
