--------------------------- MODULE TopicApiTrace ---------------------------
(* Trace specification for the sequential level of X09: step lines recorded from ONE real node driven from one
   goroutine (harness/drivers/x09 TestX09Seq) are replayed on the reference machine of TopicApi.tla; for every line
   the result of the call, the tracer events, the validator invocations, what was sent / what the fake peers
   received and the snapshot of the node's bookkeeping must EQUAL what the machine says. The replay is
   deterministic: one TLC state per line, failing predicates are printed as <<"VIOL", json>> (the verdict is
   made from those prints; the rest of a scenario is skipped after its first failure).

   Two copies of the machine are run once a scenario has used join{opt:"K"}: the intended one and the one with the
   as-found deviation "joinOptLeaks" (finding X09-F1); an observation that only the as-found copy explains is
   reported with cause "joinOptLeaks" and the scenario goes on against that copy. *)
EXTENDS TopicApi, Json

Trace == ndJsonDeserialize("trace.ndjson")

VARIABLE st
\* st = [l, S, SA, forked, div, bad, cov, nv]

AsSet(q) == {q[i] : i \in DOMAIN q}

CfgOf(c) == [router |-> c.router, idfn |-> c.idfn, peers |-> c.peers,
             psubs |-> [p1 |-> AsSet(c.psubs.p1), p2 |-> AsSet(c.psubs.p2)]]

\* ------------------------------------------------------------------------------------------------ comparison
SameRes(a, E) == a.res = E.res
SameEv(a, E) == a.ev = E.ev
SameSnd(a, E) == Len(E.snd) = Cardinality(a.snd) /\ AsSet(E.snd) = a.snd
SameVC(a, E) == a.vc = E.vc
SameWire(a, E) == /\ Len(E.wire.p1) = Cardinality(a.wire["p1"]) /\ AsSet(E.wire.p1) = a.wire["p1"]
                  /\ Len(E.wire.p2) = Cardinality(a.wire["p2"]) /\ AsSet(E.wire.p2) = a.wire["p2"]
SameSt(a, E) == LET sn == Snap(a.s) IN
                /\ E.st.reg = sn.reg /\ E.st.subs = sn.subs /\ E.st.rel = sn.rel /\ E.st.evh = sn.evh /\ E.st.gt = sn.gt
                /\ E.st.extra = <<>>
Same(a, E) == SameRes(a, E) /\ SameEv(a, E) /\ SameSnd(a, E) /\ SameVC(a, E) /\ SameWire(a, E) /\ SameSt(a, E)

\* which property predicate a difference falls under
NoEdges(q) == SelectSeq(q, LAMBDA x : x.k \notin {"Join", "Leave"})
Pred(a, E) ==
    IF E.hung \/ E.late THEN "P_X09_c_LoopNeverBlocks"
    ELSE IF ~SameRes(a, E) THEN
        (IF E.op.o = "next" THEN "P_X09_d_Next"
         ELSE IF E.op.o \in {"reg", "unreg"} THEN "P_X09_e_ValidatorRegistry"
         ELSE IF E.op.o \in {"pub", "ppub", "addb"} THEN "P_X09_f_PublishResult"
         ELSE "P_X09_a_Result")
    ELSE IF ~SameSt(a, E) THEN "P_X09_a_State"
    ELSE IF ~SameVC(a, E) THEN "P_X09_e_ValidatorCalls"
    ELSE IF ~SameEv(a, E) THEN
        (IF NoEdges(a.ev) = NoEdges(E.ev) THEN "P_X09_h_InterestEdges"
         ELSE IF E.op.o \in {"rmsg", "rel"} THEN "P_X09_g_RemoteMessage"
         ELSE "P_X09_c_DeliveryTrace")
    ELSE "P_X09_f_Sent"

Why(a, E) ==
    [exp |-> [res |-> a.res, ev |-> a.ev, snd |-> a.snd, vc |-> a.vc, st |-> Snap(a.s)],
     got |-> [res |-> E.res, ev |-> E.ev, snd |-> E.snd, vc |-> E.vc, st |-> E.st, wire |-> E.wire]]

\* ------------------------------------------------------------------------------------------------ coverage tags
Tags(S, o, a) ==
    LET k == o.o
        hOK == o.h \in DOMAIN S.h
        t == IF k \in {"close", "sub", "relay", "evh", "pub", "addb", "lp", "str", "score"} /\ hOK THEN S.h[o.h].t
             ELSE IF k \in {"cancel", "next"} THEN S.subs[o.s].t
             ELSE IF k = "unrelay" THEN S.rel[o.r].t ELSE o.t
        closedH == hOK /\ k \in {"sub", "relay", "evh", "pub", "addb", "lp", "score", "close"} /\ S.h[o.h].closed
        ls == IF t \in Topics THEN LiveSubs(S, t) ELSE {}
        full == {i \in ls : Len(S.subs[i].buf) >= (IF S.subs[i].cap = 0 THEN DefaultCap ELSE S.subs[i].cap)}
        delivered == \E i \in DOMAIN a.ev : a.ev[i].k = "Deliver"
    IN  (IF closedH THEN {"closedHandle:" \o k} ELSE {})
   \cup (IF k = "close" /\ a.res = "outstanding" THEN
            {"closeBusy:" \o (IF NSubs(S, t) > 0 THEN "s" ELSE "") \o (IF NRel(S, t) > 0 THEN "r" ELSE "") \o (IF NEvh(S, t) > 0 THEN "e" ELSE "")} ELSE {})
   \cup (IF k = "close" /\ a.res = "ok" /\ ~closedH /\ (\E i \in DOMAIN S.subs : S.subs[i].t = t) THEN {"closeOkAfterRelease"} ELSE {})
   \cup (IF k = "join" /\ a.res = "ok" /\ (\E i \in DOMAIN S.h : S.h[i].t = o.t) THEN {"rejoinAfterClose"} ELSE {})
   \cup (IF k = "join" /\ a.res = "exists" /\ S.reg[o.t] = -1 THEN {"joinWhileHidden"} ELSE {})
   \cup (IF k = "join" /\ a.res = "exists" /\ S.reg[o.t] > 0 THEN {"joinWhileOpen"} ELSE {})
   \cup (IF k \in {"psub", "ppub"} /\ S.reg[o.t] > 0 THEN {"wrapperUsesOpenHandle"} ELSE {})
   \cup (IF k \in {"psub", "ppub"} /\ S.reg[o.t] = 0 THEN {"wrapperCreatesHandle"} ELSE {})
   \cup (IF k = "cancel" /\ ~S.subs[o.s].live THEN {IF ls # {} THEN "cancelTwiceOtherLive" ELSE "cancelTwice"} ELSE {})
   \cup (IF k = "unrelay" /\ ~S.rel[o.r].live THEN {IF NRel(S, t) > 0 THEN "unrelayTwiceOtherLive" ELSE "unrelayTwice"} ELSE {})
   \cup (IF k = "next" /\ ~S.subs[o.s].live /\ S.subs[o.s].buf # <<>> THEN {"drainAfterCancel"} ELSE {})
   \cup (IF k = "next" THEN {"next:" \o (IF a.res \in {"cancelled", "blocked"} THEN a.res ELSE "msg")} ELSE {})
   \cup (IF delivered /\ full # {} THEN {"dropAtCap"} ELSE {})
   \cup (IF delivered /\ full # {} /\ ls \ full # {} THEN {"dropOwnBufferOnly"} ELSE {})
   \cup (IF delivered /\ (\E i \in ls \ full : Len(S.subs[i].buf) + 1 = (IF S.subs[i].cap = 0 THEN DefaultCap ELSE S.subs[i].cap)) THEN {"fillToCap"} ELSE {})
   \cup (IF delivered /\ ls = {} THEN {"deliverNoSubs"} ELSE {})
   \cup (IF delivered /\ Cardinality(ls) >= 2 THEN {"deliverTwoSubs"} ELSE {})
   \cup (IF k \in {"pub", "ppub"} /\ delivered /\ a.snd # {} /\ ls = {} THEN {"pubFanoutNoOwnSub"} ELSE {})
   \cup (IF k = "pub" /\ delivered /\ o.mode = "local" /\ (\E p \in Conn(S) : t \in S.rsub[p]) THEN {"pubLocalOnlyNotSent"} ELSE {})
   \cup (IF k \in {"pub", "ppub", "addb"} /\ (\E i \in DOMAIN a.ev : a.ev[i].k = "Duplicate") THEN {"pubDuplicateOk"} ELSE {})
   \cup (IF k \in {"pub", "ppub", "addb"} /\ a.res \in {"rejected", "ignored"} THEN {"pub:" \o a.res} ELSE {})
   \cup (IF k = "pub" /\ a.res \in {"closed", "nilkey", "emptypid"} THEN {"pub:" \o a.res} ELSE {})
   \cup (IF k = "pub" /\ o.mode # "" /\ a.res \in {"ok", "ok/polls=3/ms=400"} THEN {"pubMode:" \o o.mode} ELSE {})
   \cup (IF k = "rmsg" /\ a.ev = <<>> THEN {"remoteNoInterestIgnored"} ELSE {})
   \cup (IF k = "rmsg" /\ delivered /\ NSubs(S, t) = 0 /\ NRel(S, t) > 0 THEN {IF a.snd # {} THEN "relayOnlyForwarded" ELSE "relayOnlyDelivered"} ELSE {})
   \cup (IF k = "rmsg" /\ delivered /\ NSubs(S, t) > 0 /\ a.snd # {} THEN {"subscribedForwarded"} ELSE {})
   \cup (IF k = "rmsg" /\ a.ev # <<>> /\ a.ev[1].k = "Duplicate" THEN {"remoteDuplicate"} ELSE {})
   \cup (IF k = "rmsg" /\ Len(a.ev) = 2 /\ a.vc = <<>> /\ S.val[t].k = "block" THEN {"throttledAtConc:" \o ToString(S.val[t].conc)} ELSE {})
   \cup (IF k = "rmsg" /\ S.val[t].k = "block" /\ a.vc # <<>> THEN {"parkedBelowConc:" \o ToString(ParkedOf(S, S.val[t].gen))} ELSE {})
   \cup (IF k = "rel" /\ a.res = "ok" THEN {"released"} ELSE {})
   \cup {"vc:" \o a.vc[i].w : i \in DOMAIN a.vc}
   \cup {IF a.vc[i].dl > 0 THEN "vcTimeout:" \o a.vc[i].w ELSE "" : i \in DOMAIN a.vc}
   \cup {IF a.vc[i].vd # "" THEN "vcValidatorData" ELSE "" : i \in DOMAIN a.vc}
   \cup (IF k = "reg" THEN {"reg:" \o a.res} ELSE {})
   \cup (IF k = "reg" /\ a.res = "ok" /\ o.opt # "" THEN {"regType:" \o o.opt} ELSE {})
   \cup (IF k = "reg" /\ a.res = "ok" /\ o.v = "weird" THEN {"regWeird"} ELSE {})
   \cup (IF k = "lp" /\ closedH /\ (\E p \in Conn(S) : t \in S.rsub[p]) THEN {"closedListPeersEmptyWithPeers"} ELSE {})
   \cup (IF k = "close" /\ a.res = "outstanding" /\ NEvh(S, t) = 1 /\ NSubs(S, t) = 0 /\ NRel(S, t) = 0 /\ Cardinality({i \in DOMAIN S.evh : S.evh[i].t = t}) >= 2
           THEN {"closeBusyLastOfTwoHandlers"} ELSE {})
   \cup (IF k = "unreg" THEN {"unreg:" \o a.res} ELSE {})
   \cup (IF k = "reg" /\ a.res = "ok" /\ S.vgen > 0 THEN {"regAgainAfterUnreg"} ELSE {})
   \cup (IF k \in {"pub", "rmsg"} /\ t \in Topics /\ S.val[t].k # "none" /\ (\E i \in DOMAIN S.h : S.h[i].t = t /\ S.h[i].closed) THEN {"validatorSurvivesRejoin"} ELSE {})
   \cup (IF k = "score" THEN {"score:" \o a.res} ELSE {})
   \cup (IF k = "relay" /\ a.res = "fanoutonly" THEN {"relayFanoutOnly"} ELSE {})
   \cup (IF k \in {"lp", "plp"} /\ a.res # "[]" THEN {"listPeersNonEmpty"} ELSE {})
   \cup {IF a.ev[i].k \in {"Join", "Leave"} THEN "edge:" \o a.ev[i].k \o ":" \o k ELSE "" : i \in DOMAIN a.ev}

\* ------------------------------------------------------------------------------------------------ the fold
E == Trace[st.l]

Viol(pred, cause, a, e) ==
    PrintT(<<"VIOL", ToJson([scn |-> e.scn, i |-> e.i, pred |-> pred, cause |-> cause, op |-> e.op.o, why |-> Why(a, e)])>>)

StepLine(s, e) ==
    IF e.e = "reset" THEN
        LET S0 == Init0(CfgOf(e.cfg), {}) IN
        [l |-> s.l + 1, S |-> S0, SA |-> S0, forked |-> FALSE, div |-> FALSE, bad |-> FALSE, cov |-> s.cov, nv |-> s.nv]
    ELSE IF s.bad THEN [s EXCEPT !.l = @ + 1]
    ELSE IF ~WellFormed(s.S, e.op) THEN
        IF PrintT(<<"MODEL", ToJson([scn |-> e.scn, i |-> e.i, why |-> "operation refers to something the machine does not have"])>>)
          THEN [s EXCEPT !.l = @ + 1, !.bad = TRUE] ELSE s
    ELSE
        LET o == e.op
            aI == Apply(s.S, o)
            needA == s.forked \/ o.opt = "K"
            SA0 == IF s.forked THEN s.SA ELSE [s.S EXCEPT !.dev = {"joinOptLeaks"}]
            aA == IF needA THEN Apply(SA0, o) ELSE aI
            okI == ~s.div /\ Same(aI, e)
            okA == needA /\ Same(aA, e)
        IN
        IF okI THEN
            [s EXCEPT !.l = @ + 1, !.S = aI.s, !.SA = aA.s, !.forked = needA, !.cov = @ \cup Tags(s.S, o, aI)]
        ELSE IF okA THEN
            \* only the as-found machine explains the line: finding X09-F1 (reported once per scenario)
            IF s.div \/ Viol(Pred(aI, e), "joinOptLeaks", aI, e)
              THEN [s EXCEPT !.l = @ + 1, !.S = aA.s, !.SA = aA.s, !.forked = TRUE, !.div = TRUE, !.nv = IF s.div THEN @ ELSE @ + 1,
                             !.cov = @ \cup Tags(SA0, o, aA)]
              ELSE s
        ELSE
            IF Viol(Pred(IF s.div THEN aA ELSE aI, e), "other", IF s.div THEN aA ELSE aI, e)
              THEN [s EXCEPT !.l = @ + 1, !.bad = TRUE, !.nv = @ + 1] ELSE s

TInit == st = [l |-> 1, S |-> Init0([router |-> "floodsub", idfn |-> "uniq", peers |-> 0, psubs |-> [p1 |-> {}, p2 |-> {}]], {}),
               SA |-> Init0([router |-> "floodsub", idfn |-> "uniq", peers |-> 0, psubs |-> [p1 |-> {}, p2 |-> {}]], {}),
               forked |-> FALSE, div |-> FALSE, bad |-> FALSE, cov |-> {}, nv |-> 0]
TNext == st.l <= Len(Trace) /\ st' = StepLine(st, Trace[st.l])
TraceSpec == TInit /\ [][TNext]_st

\* the last state prints the verdict summary: <<"HW", lines processed + 1, lines + 1>> and the coverage tags
Done == st.l = Len(Trace) + 1 => /\ PrintT(<<"HW", st.l, Len(Trace) + 1>>)
                                  /\ PrintT(<<"COV", ToJson([tags |-> st.cov \ {""}, nv |-> st.nv])>>)
=============================================================================
