---------------------------- MODULE GenTopicApi ----------------------------
(* Scenario generator for X09: every sequence of API calls / stimuli of length L over a chosen alphabet (after a
   fixed prologue), enumerated on the reference machine so that only operations on things that exist are produced.
   Only the INPUTS are emitted; what the real node answers is judged by TopicApiTrace. *)
EXTENDS TopicApi, Json

CONSTANTS L,            \* number of generated operations (after the prologue)
          Alpha,        \* operation kinds
          GT,           \* topics used by the generated operations
          Caps,         \* buffer sizes offered to sub / psub (0 = default)
          Modes,        \* publish modes offered to pub / ppub / addb
          Vals,         \* validator variants by name (ValDef)
          JoinOpts,     \* "" | "fan" | "K"
          MaxH, MaxS, MaxR, MaxE, MaxM,
          Router, IdFn, NPeers, PSubs1, PSubs2,   \* configuration of the node (PSubs<i> = topics peer p<i> announces at connect)
          ProName,      \* prologue by name (ProDef)
          Class

VARIABLES S, hist, nm
vars == <<S, hist, nm>>

PSubs == [p1 |-> PSubs1, p2 |-> PSubs2]
Cfg == [router |-> Router, idfn |-> IdFn, peers |-> NPeers, psubs |-> PSubs]

Pro == ProDef(ProName)

RECURSIVE Run(_, _, _)
Run(s, ops, i) == IF i > Len(ops) THEN s ELSE Run(Apply(s, ops[i]).s, ops, i + 1)

NMsgs(ops) == Cardinality({i \in DOMAIN ops : ops[i].m # ""})

Init == /\ S = Run(Init0(Cfg, {"joinOptLeaks"}), Pro, 1)
        /\ hist = Pro
        /\ nm = NMsgs(Pro)

Lower(t) == IF t = "A" THEN "a" ELSE "b"
\* message names: local publications "m<k>" (fresh) or the most recent local name again; remote messages are tied to a topic
LastLocal == LET idx == {i \in DOMAIN hist : hist[i].o \in {"pub", "ppub", "addb"}} IN
             IF idx = {} THEN {} ELSE {hist[CHOOSE i \in idx : \A j \in idx : j <= i].m}
LastRemote(t) == LET idx == {i \in DOMAIN hist : hist[i].o = "rmsg" /\ hist[i].t = t} IN
                 IF idx = {} THEN {} ELSE {hist[CHOOSE i \in idx : \A j \in idx : j <= i].m}
Fresh == IF nm < MaxM THEN {"m" \o ToString(nm + 1)} ELSE {}
FreshR(t) == IF nm < MaxM THEN {Lower(t) \o ToString(nm + 1)} ELSE {}

Ops ==
    LET hs == DOMAIN S.h ss == DOMAIN S.subs rs == DOMAIN S.rel es == DOMAIN S.evh IN
       (IF "join" \in Alpha /\ Len(S.h) < MaxH THEN {[D EXCEPT !.o = "join", !.t = t, !.opt = jo] : t \in GT, jo \in JoinOpts} ELSE {})
  \cup (IF "close" \in Alpha THEN {[D EXCEPT !.o = "close", !.h = h] : h \in hs} ELSE {})
  \cup (IF "sub" \in Alpha /\ Len(S.subs) < MaxS THEN {[D EXCEPT !.o = "sub", !.h = h, !.cap = c] : h \in hs, c \in Caps} ELSE {})
  \cup (IF "psub" \in Alpha /\ Len(S.subs) < MaxS THEN {[D EXCEPT !.o = "psub", !.t = t, !.cap = c] : t \in GT, c \in Caps} ELSE {})
  \cup (IF "cancel" \in Alpha THEN {[D EXCEPT !.o = "cancel", !.s = s] : s \in ss} ELSE {})
  \cup (IF "next" \in Alpha THEN {[D EXCEPT !.o = "next", !.s = s] : s \in ss} ELSE {})
  \cup (IF "relay" \in Alpha /\ Len(S.rel) < MaxR THEN {[D EXCEPT !.o = "relay", !.h = h] : h \in hs} ELSE {})
  \cup (IF "unrelay" \in Alpha THEN {[D EXCEPT !.o = "unrelay", !.r = r] : r \in rs} ELSE {})
  \cup (IF "evh" \in Alpha /\ Len(S.evh) < MaxE THEN {[D EXCEPT !.o = "evh", !.h = h] : h \in hs} ELSE {})
  \cup (IF "evcancel" \in Alpha THEN {[D EXCEPT !.o = "evcancel", !.e = e] : e \in es} ELSE {})
  \cup (IF "reg" \in Alpha THEN {[D EXCEPT !.o = "reg", !.t = t, !.v = ValDef(v).v, !.inl = ValDef(v).inl, !.to = ValDef(v).to, !.conc = ValDef(v).conc, !.opt = ValDef(v).ty] : t \in GT, v \in Vals} ELSE {})
  \cup (IF "unreg" \in Alpha THEN {[D EXCEPT !.o = "unreg", !.t = t] : t \in GT} ELSE {})
       \* a local publication must not run into a blocking validator (the call itself would park)
  \cup (IF "pub" \in Alpha THEN {[D EXCEPT !.o = "pub", !.h = h, !.m = m, !.mode = md] :
                                   h \in {x \in hs : S.val[S.h[x].t].k # "block"}, m \in Fresh \cup LastLocal, md \in Modes} ELSE {})
  \cup (IF "addb" \in Alpha THEN {[D EXCEPT !.o = "addb", !.h = h, !.m = m] :
                                   h \in {x \in hs : S.val[S.h[x].t].k # "block"}, m \in Fresh \cup LastLocal} ELSE {})
  \cup (IF "ppub" \in Alpha THEN {[D EXCEPT !.o = "ppub", !.t = t, !.m = m] : t \in {x \in GT : S.val[x].k # "block"}, m \in Fresh \cup LastLocal} ELSE {})
  \cup (IF "rmsg" \in Alpha /\ NPeers >= 1 THEN UNION {{[D EXCEPT !.o = "rmsg", !.p = "p1", !.t = t, !.m = m] : m \in FreshR(t) \cup LastRemote(t)} :
                                   t \in {x \in GT : ~(S.val[x].k = "block" /\ S.val[x].inl)}} ELSE {})
  \cup (IF "rel" \in Alpha /\ S.parked # <<>> THEN {[D EXCEPT !.o = "rel"]} ELSE {})
  \cup (IF "rsub" \in Alpha /\ NPeers >= 2 THEN {[D EXCEPT !.o = "rsub", !.p = "p2", !.t = t, !.pv = b] : t \in GT, b \in BOOLEAN} ELSE {})
  \cup (IF "lp" \in Alpha THEN {[D EXCEPT !.o = "lp", !.h = h] : h \in hs} ELSE {})
  \cup (IF "plp" \in Alpha THEN {[D EXCEPT !.o = "plp", !.t = t] : t \in GT} ELSE {})
  \cup (IF "str" \in Alpha THEN {[D EXCEPT !.o = "str", !.h = h] : h \in hs} ELSE {})
  \cup (IF "score" \in Alpha THEN {[D EXCEPT !.o = "score", !.h = h, !.v = v] : h \in hs, v \in {"valid", "invalid"}} ELSE {})

Next == /\ Len(hist) < Len(Pro) + L
        /\ \E o \in Ops :
             /\ S' = Apply(S, o).s
             /\ hist' = Append(hist, o)
             /\ nm' = IF o.m # "" /\ o.m \notin (LastLocal \cup UNION {LastRemote(t) : t \in Topics}) THEN nm + 1 ELSE nm

Spec == Init /\ [][Next]_vars

Scn == [cfg |-> [router |-> Router, idfn |-> IdFn, peers |-> NPeers,
                 psubs |-> [p1 |-> IF "p1" \in DOMAIN PSubs THEN SetToSeqU(PSubs["p1"]) ELSE <<>>,
                            p2 |-> IF "p2" \in DOMAIN PSubs THEN SetToSeqU(PSubs["p2"]) ELSE <<>>],
                 class |-> Class],
        ops |-> [i \in DOMAIN hist |-> Enc(hist[i])]]

\* emit every complete scenario (BFS: each exactly once; simulation: the final state of every behaviour)
Emit == Len(hist) = Len(Pro) + L => PrintT(<<"SCN", ToJson(Scn)>>)
\* a generated sequence stays inside the machine's structural invariants
MachineOK == Inv(S)
=============================================================================
