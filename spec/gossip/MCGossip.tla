----------------------------- MODULE MCGossip -----------------------------
(* Exhaustive model checking of Gossip.tla, one configuration per property
   group so that each finishes (alphabets are operators substituted for the
   *Args constants in the .cfg files), plus the seeded-defect configurations
   that MUST fail (non-vacuity).                                            *)
EXTENDS Gossip

NoArgs == {}
ThrM2 == -2     \* the gossip threshold of the scenarios (a cfg file cannot say -2)

\* ---- Serve: cache window, retransmission limit, IDONTWANT honoured / expired, score
Acc_serve   == {<<"m1", "p1">>}
IWant_serve == {<<"p2", <<"m1">>>>, <<"p2", <<"m1", "m1">>>>, <<"p3", <<"m1">>>>}
IDW_serve   == {<<"p2", <<"m1">>>>}
Score_serve == {<<"p3", -3>>, <<"p3", 0>>}

\* ---- Ask: IHAVE caps, unseen filter, counters restart, promises
Acc_ask   == {<<"m1", "p1">>, <<"m2", "p2">>}
IHave_ask == {<<"p2", s>> : s \in {<<"m1", "m2">>, <<"m3">>, <<"m2", "m3", "m1">>}}
IWant_ask == {<<"p2", <<"m1">>>>}
Score_ask == {<<"p2", -3>>}

\* ---- Advertise: gossip window, recipients, thresholds
Acc_adv   == {<<"m1", "p1">>, <<"m2", "p2">>, <<"m3", "self">>}
Score_adv == {<<p, v>> : p \in {"p2", "p3"}, v \in {-3, 0}}

\* ---- IDONTWANT in / out
Acc_idw   == {<<"m1", "p1">>, <<"m2", "p2">>}
IDW_idw   == {<<"p2", s>> : s \in {<<"m1">>, <<"m2">>, <<"m2", "m2", "m1">>}} \cup {<<"p2", <<"m2", "m1">>, <<1, 1>>>>}   \* the last: two entries in one RPC
IWant_idw == {<<"p2", <<"m1">>>>}

A_Serve         == [][P_C17_Serve]_vars
A_Advertise     == [][P_C17_Advertise]_vars
A_Ask           == [][P_C17_Ask]_vars
A_IDontWantIn   == [][P_C17_IDontWantInStep]_vars
A_IDontWantOut  == [][P_C17_IDontWantOut]_vars
A_Promise       == [][P_C17_Promise]_vars
=============================================================================
