------------------------------ MODULE Gossip ------------------------------
(* C17, router part: the gossip machinery of ONE gossipsub node (gossipsub.go:
   emitGossip, handleIHave, handleIWant, handleIDontWant, Preprocess, the
   heartbeat's clearIHaveCounters / clearIDontWantCounters / applyIwantPenalties
   / mcache.Shift, and gossip_tracer.go) facing a fixed set of peers on one topic.

   Two levels:
     * the implementation-shaped machine (variables named after the code) with
       one action per critical section, and
     * MONITOR variables rebuilt from the stimuli and responses only (putHb,
       served, reqs, dwAt, ctl, idwSeen, askedIn, honoured, asks) over which the
       property operators P_C17_* are stated.  The trace specification
       GossipTrace.tla rebuilds the same monitors from events of the real code.

   Time: heartbeats are numbered 1, 2, ...; `hb` is the number of heartbeats so
   far; stimuli happen strictly between heartbeats.  A promise (IWANT sent after
   heartbeat k) is first overdue at heartbeat k + FollowUpHb.

   `Bug` seeds defects (for the configurations that MUST fail).            *)
EXTENDS Integers, Sequences, FiniteSets, TLC

CONSTANTS Peers, Ids,
          SelfIds,        \* ids the node publishes itself (others arrive from peers)
          Big,            \* ids whose payload is >= IDontWantMessageThreshold
          Mesh, Direct,   \* mesh[topic], direct peers (static here)
          V12,            \* peers speaking meshsub >= 1.2 (IDONTWANT capable)
          Flood,          \* peers speaking floodsub (not mesh capable)
          H, G, Retx, MaxIHaveLen, MaxIHaveMsgs, MaxIDWLen, MaxIDWMsgs, IDWTTL,
          FollowUpHb, Dlazy, FactorPct, GossipThr,
          MaxHb, MaxStim,
          AccArgs,        \* set of <<m, from>>, from \in Peers \cup {"self"}
          IHaveArgs,      \* set of <<p, sequence of ids>> or <<p, sequence of ids, entry sizes>> (several entries in one RPC)
          IWantArgs,      \* set of <<p, sequence of ids>>
          IDWArgs,        \* set of <<p, sequence of ids>>
          ScoreArgs,      \* set of <<p, v>>
          Bug

VARIABLES hb, stim,
          mc,             \* mc[i], i \in 1..H : ids in history slot i (1 = current)
          peertx,         \* peertx[m][p] : GetForPeer counter
          seen,           \* seen-cache
          score,          \* score[p]
          peerhave, iasked, peerdontwant,
          unwanted,       \* unwanted[p][m] : TTL or None
          promises,       \* promises[m][p] : heartbeat at which overdue, 0 = none
          pen,            \* behaviour penalty counter
          out,            \* what the last step received and answered
          \* ---- monitors
          putHb,          \* putHb[m] : hb when m was accepted for forwarding, -1 = never
          served,         \* served[p][m] : copies of m sent to p in answer to IWANT
          reqs,           \* reqs[p][m] : times p asked for m
          dwAt,           \* dwAt[p][m] : hb of the latest IDONTWANT that had to take effect, -1
          dwAny,          \* dwAny[p][m] : hb of the latest IDONTWANT mentioning m at all, -1
          ctl,            \* control-bearing RPCs of p since the last heartbeat
          idwSeen,        \* IDONTWANT-bearing RPCs of p since the last heartbeat
          askedIn,        \* ids asked from p since the last heartbeat
          honoured,       \* IHAVEs of p since the last heartbeat that produced an IWANT
          asks,           \* IWANT batches not yet due
          \* ---- scenario bookkeeping (hidden by VIEW when model checking)
          hist, cov

impl == <<hb, stim, mc, peertx, seen, score, peerhave, iasked, peerdontwant, unwanted, promises, pen>>
mons == <<putHb, served, reqs, dwAt, dwAny, ctl, idwSeen, askedIn, honoured, asks>>
vars == <<impl, mons, out, hist, cov>>
View == <<impl, mons>>

None == -9
Min(a, b) == IF a < b THEN a ELSE b
Max(a, b) == IF a > b THEN a ELSE b
Range(s) == {s[i] : i \in DOMAIN s}
Sat(n, cap) == Min(n, cap)
Cached == UNION {mc[i] : i \in 1..H}
MeshCapable(p) == p \notin Flood
ZeroP == [p \in Peers |-> 0]

Init ==
    /\ hb = 0 /\ stim = 0
    /\ mc = [i \in 1..H |-> {}]
    /\ peertx = [m \in Ids |-> ZeroP]
    /\ seen = {}
    /\ score = ZeroP
    /\ peerhave = ZeroP /\ iasked = ZeroP /\ peerdontwant = ZeroP
    /\ unwanted = [p \in Peers |-> [m \in Ids |-> None]]
    /\ promises = [m \in Ids |-> ZeroP]
    /\ pen = ZeroP
    /\ out = [a |-> "init"]
    /\ putHb = [m \in Ids |-> -1]
    /\ served = [p \in Peers |-> [m \in Ids |-> 0]]
    /\ reqs = [p \in Peers |-> [m \in Ids |-> 0]]
    /\ dwAt = [p \in Peers |-> [m \in Ids |-> -1]]
    /\ dwAny = [p \in Peers |-> [m \in Ids |-> -1]]
    /\ ctl = ZeroP /\ idwSeen = ZeroP /\ askedIn = ZeroP /\ honoured = ZeroP
    /\ asks = {}
    /\ hist = <<>> /\ cov = {}

StimS(a, p, m, ids, v, sp) == hist' = Append(hist, [a |-> a, p |-> p, m |-> m, ids |-> ids, v |-> v, split |-> sp])
Stim(a, p, m, ids, v) == StimS(a, p, m, ids, v, <<>>)
Tag(S) == cov' = cov \cup S
CanStim == stim < MaxStim /\ stim' = stim + 1 /\ hb' = hb

\* monitor predicates
InWindow(m) == putHb[m] >= 0 /\ hb - putHb[m] < H
DWMust(p, m) == dwAt[p][m] >= 0 /\ hb - dwAt[p][m] < IDWTTL
DWMay(p, m) == dwAny[p][m] >= 0 /\ hb - dwAny[p][m] < IDWTTL
\* ids of the node's own publications can be named by peers only once they exist
Nameable(ids) == \A m \in Range(ids) : m \in SelfIds => m \in seen

----------------------------------------------------------------------------
(* a new message m arrives from `from` (or is published locally): Preprocess
   sends IDONTWANT, validation marks it seen and fulfils promises, rpcs() puts
   it into the cache.                                                        *)
Accept(m, from) ==
    /\ CanStim
    /\ m \notin seen
    /\ (m \in SelfIds) = (from = "self")
    /\ seen' = seen \cup {m}
    /\ mc' = [mc EXCEPT ![1] = @ \cup {m}]
    /\ promises' = IF "PenaliseKept" \in Bug THEN promises ELSE [promises EXCEPT ![m] = ZeroP]
    /\ LET idw == IF m \in Big /\ from # "self"
                    THEN {q \in Mesh : /\ ("IDWNoFeature" \in Bug \/ q \in V12)
                                       /\ ("IDWToSender" \in Bug \/ q # from)}
                    ELSE {} IN
       /\ out' = [a |-> "accept", m |-> m, from |-> from, idw |-> idw]
       /\ Tag((IF idw # {} THEN {"idw_out_sent"} ELSE {})
              \cup (IF m \notin Big /\ from # "self" /\ Mesh \cap V12 # {} THEN {"idw_out_small"} ELSE {})
              \cup (IF m \in Big /\ from \in Mesh \cap V12 THEN {"idw_out_sender"} ELSE {})
              \cup (IF m \in Big /\ from # "self" /\ (Mesh \ V12) \ {from} # {} THEN {"idw_out_old_proto"} ELSE {})
              \cup (IF \E a \in asks : m \in a.open /\ a.p # from THEN {"promise_kept_third"} ELSE {})
              \cup (IF \E a \in asks : m \in a.open /\ a.p = from THEN {"promise_kept_promiser"} ELSE {}))
    /\ putHb' = [putHb EXCEPT ![m] = hb]
    /\ asks' = {[a EXCEPT !.open = @ \ {m}] : a \in asks}
    /\ Stim("accept", from, m, <<>>, 0)
    /\ UNCHANGED <<peertx, score, peerhave, iasked, peerdontwant, unwanted, pen,
                   served, reqs, dwAt, dwAny, ctl, idwSeen, askedIn, honoured>>

\* every control-bearing RPC passes through handleIHave first: the flood counter counts it
BumpHave(p) == IF score[p] >= GossipThr THEN [peerhave EXCEPT ![p] = Sat(@ + 1, MaxIHaveMsgs + 2)] ELSE peerhave
BumpCtl(p) == ctl' = [ctl EXCEPT ![p] = Sat(@ + 1, MaxIHaveMsgs + 2)]

FirstK(ids, k) == {ids[i] : i \in 1..Min(Len(ids), k)}
(* One RPC may carry SEVERAL control entries of a kind: `sp` (a sequence of sizes, <<>> = one entry) cuts the id
   list of a stimulus into consecutive entries.  handleIHave applies MaxIHaveLength to each entry and then the
   iasked budget to their union; handleIWant and handleIDontWant count over the whole RPC.                    *)
RECURSIVE Cut(_, _)
Cut(ids, sp) == IF sp = <<>> THEN (IF ids = <<>> THEN <<>> ELSE <<ids>>)
                ELSE LET n == Min(Head(sp), Len(ids)) IN
                     <<SubSeq(ids, 1, n)>> \o Cut(SubSeq(ids, n + 1, Len(ids)), Tail(sp))
FirstKEach(ids, sp, k) == LET es == Cut(ids, sp) IN UNION {FirstK(es[i], k) : i \in DOMAIN es}
Sp(x) == IF Len(x) >= 3 THEN x[3] ELSE <<>>

RecvIHave(p, ids, sp) ==
    /\ CanStim /\ Nameable(ids)
    /\ BumpCtl(p)
    /\ peerhave' = BumpHave(p)
    /\ LET unseen == FirstKEach(ids, sp, MaxIHaveLen) \ (IF "AskSeen" \in Bug THEN {} ELSE seen)
           over   == IF "IHaveMsgsOffByOne" \in Bug THEN peerhave'[p] > MaxIHaveMsgs + 1
                                                    ELSE peerhave'[p] > MaxIHaveMsgs
           ask    == score[p] >= GossipThr /\ ~over /\ iasked[p] < MaxIHaveLen /\ unseen # {}
           iask   == IF ask THEN Min(Cardinality(unseen), MaxIHaveLen - iasked[p]) ELSE 0
           must   == /\ score[p] >= GossipThr /\ ctl[p] < MaxIHaveMsgs /\ askedIn[p] < MaxIHaveLen
                     /\ FirstKEach(ids, sp, MaxIHaveLen) \ seen # {} IN
       \E S \in SUBSET unseen :
          /\ Cardinality(S) = iask
          /\ iasked' = [iasked EXCEPT ![p] = @ + iask]
          /\ IF S = {} THEN UNCHANGED promises
             ELSE \E t \in S : promises' = IF promises[t][p] = 0
                                             THEN [promises EXCEPT ![t][p] = hb + FollowUpHb]
                                             ELSE promises
          /\ out' = [a |-> "ihave", p |-> p, ids |-> ids, iwant |-> S, must |-> must,
                     want |-> Min(Cardinality(FirstKEach(ids, sp, MaxIHaveLen) \ seen), MaxIHaveLen - askedIn[p])]
          /\ askedIn' = [askedIn EXCEPT ![p] = @ + Cardinality(S)]
          /\ honoured' = [honoured EXCEPT ![p] = @ + (IF S = {} THEN 0 ELSE 1)]
          /\ asks' = IF S = {} THEN asks
                     ELSE asks \cup {[p |-> p, ids |-> S, open |-> S, due |-> hb + FollowUpHb, at |-> <<hb, stim>>]}
          /\ Tag((IF S # {} THEN {"asked"} ELSE {})
                 \cup (IF S # {} /\ Cardinality(S) < Cardinality(unseen) THEN {"cap_ihave_len"} ELSE {})
                 \cup (IF S = {} /\ unseen # {} /\ score[p] >= GossipThr /\ iasked[p] >= MaxIHaveLen THEN {"cap_ihave_len_full", "cappedlen"} ELSE {})
                 \cup (IF S = {} /\ unseen # {} /\ score[p] >= GossipThr /\ iasked[p] < MaxIHaveLen THEN {"cap_ihave_msgs", "cappedmsgs"} ELSE {})
                 \cup (IF S # {} /\ must /\ "cappedlen" \in cov THEN {"reset_ihave_len"} ELSE {})
                 \cup (IF S # {} /\ must /\ "cappedmsgs" \in cov THEN {"reset_ihave_msgs"} ELSE {})
                 \cup (IF S # {} /\ must /\ ctl[p] = MaxIHaveMsgs - 1 THEN {"ihave_last_honoured"} ELSE {})
                 \cup (IF S = {} /\ FirstKEach(ids, sp, MaxIHaveLen) # {} /\ unseen = {} THEN {"ihave_all_seen"} ELSE {})
                 \cup (IF S # {} /\ hb > 0 /\ "capped" \in cov THEN {"reset_ihave"} ELSE {})
                 \cup (IF S # {} /\ honoured[p] >= 2 /\ Cardinality(S) < Cardinality(unseen) THEN {"ask_sum_third_batch"} ELSE {})
                 \cup (IF S = {} /\ unseen # {} /\ score[p] >= GossipThr /\ honoured[p] >= 2 /\ iasked[p] >= MaxIHaveLen /\ ~over
                         THEN {"ask_sum_refused"} ELSE {})
                 \cup (IF S # {} /\ Len(Cut(ids, sp)) >= 2 /\ (\A i \in DOMAIN Cut(ids, sp) : Len(Cut(ids, sp)[i]) <= MaxIHaveLen)
                          /\ Cardinality(unseen) > MaxIHaveLen THEN {"ihave_multi_entry_over"} ELSE {})
                 \cup (IF score[p] < GossipThr THEN {"ihave_low_score"} ELSE {}))
    /\ StimS("ihave", p, "", ids, 0, sp)
    /\ UNCHANGED <<mc, peertx, seen, score, peerdontwant, unwanted, pen,
                   putHb, served, reqs, dwAt, dwAny, idwSeen>>

\* handleIWant: ids are looked at in order; GetForPeer counts every look-up of a cached id
RECURSIVE ServeSeq(_, _, _, _)
ServeSeq(p, ids, tx, acc) ==
    IF ids = <<>> THEN <<tx, acc>>
    ELSE LET m == Head(ids) IN
         IF unwanted[p][m] # None \/ m \notin Cached
           THEN ServeSeq(p, Tail(ids), tx, acc)
           ELSE LET c == Sat(tx[m][p] + 1, Retx + 2)
                    stop == IF "RetxOffByOne" \in Bug THEN c >= Retx ELSE c > Retx IN
                ServeSeq(p, Tail(ids), [tx EXCEPT ![m][p] = c], IF stop THEN acc ELSE acc \cup {m})

RecvIWant(p, ids, sp) ==
    /\ CanStim /\ Nameable(ids)
    /\ BumpCtl(p)
    /\ peerhave' = BumpHave(p)
    /\ LET r == IF score[p] >= GossipThr THEN ServeSeq(p, ids, peertx, {}) ELSE <<peertx, {}>>
           resp == r[2] IN
       /\ peertx' = r[1]
       /\ out' = [a |-> "iwant", p |-> p, ids |-> ids, resp |-> resp]
       /\ served' = [served EXCEPT ![p] = [m \in Ids |-> IF m \in resp THEN Sat(@[m] + 1, Retx + 2) ELSE @[m]]]
       /\ Tag(UNION {
              (IF m \in resp /\ hb - putHb[m] = H - 1 THEN {"serve_last"} ELSE {})
              \cup (IF m \in resp /\ hb = putHb[m] THEN {"serve_same_hb"} ELSE {})
              \cup (IF m \notin resp /\ putHb[m] >= 0 /\ hb - putHb[m] = H THEN {"serve_first_unserved"} ELSE {})
              \cup (IF m \in resp /\ served[p][m] = Retx - 1 THEN {"retx_last"} ELSE {})
              \cup (IF m \notin resp /\ InWindow(m) /\ served[p][m] >= Retx /\ ~DWMay(p, m) /\ score[p] >= GossipThr THEN {"retx_reached"} ELSE {})
              \cup (IF m \notin resp /\ InWindow(m) /\ DWMust(p, m) /\ served[p][m] < Retx /\ score[p] >= GossipThr THEN {"idw_honoured"} ELSE {})
              \cup (IF m \in resp /\ dwAny[p][m] >= 0 /\ hb - dwAny[p][m] = IDWTTL THEN {"idw_expired"} ELSE {})
              \cup (IF m \notin resp /\ InWindow(m) /\ score[p] < GossipThr THEN {"iwant_low_score"} ELSE {})
              \cup (IF Len(Cut(ids, sp)) >= 2 /\ InWindow(m) /\ score[p] >= GossipThr /\ ~DWMay(p, m)
                       /\ (\A i \in DOMAIN Cut(ids, sp) : Cardinality({j \in DOMAIN Cut(ids, sp)[i] : Cut(ids, sp)[i][j] = m}) <= Retx)
                       /\ reqs[p][m] < Retx /\ reqs[p][m] + Cardinality({i \in DOMAIN ids : ids[i] = m}) > Retx
                      THEN {"iwant_multi_entry_over"} ELSE {})
              : m \in Range(ids)})
    /\ reqs' = [reqs EXCEPT ![p] = [m \in Ids |-> Sat(@[m] + Cardinality({i \in DOMAIN ids : ids[i] = m}), Retx + 2)]]
    /\ StimS("iwant", p, "", ids, 0, sp)
    /\ UNCHANGED <<mc, seen, score, iasked, peerdontwant, unwanted, promises, pen,
                   putHb, dwAt, dwAny, idwSeen, askedIn, honoured, asks>>

RecvIDontWant(p, ids, sp) ==
    /\ CanStim /\ Nameable(ids)
    /\ BumpCtl(p)
    /\ peerhave' = BumpHave(p)
    /\ LET over == peerdontwant[p] >= MaxIDWMsgs
           eff  == IF over THEN {}
                   ELSE IF "IDWLenPerEntry" \in Bug THEN FirstKEach(ids, sp, MaxIDWLen)   \* budget restarted per entry
                   ELSE FirstK(ids, MaxIDWLen)
           mustEff == IF idwSeen[p] < MaxIDWMsgs THEN FirstK(ids, MaxIDWLen) ELSE {} IN
       /\ peerdontwant' = IF over THEN peerdontwant ELSE [peerdontwant EXCEPT ![p] = @ + 1]
       /\ unwanted' = [unwanted EXCEPT ![p] = [m \in Ids |-> IF m \in eff THEN IDWTTL ELSE @[m]]]
       /\ out' = [a |-> "idontwant", p |-> p, ids |-> ids, eff |-> eff]
       /\ dwAt' = [dwAt EXCEPT ![p] = [m \in Ids |-> IF m \in mustEff THEN hb ELSE @[m]]]
       /\ dwAny' = [dwAny EXCEPT ![p] = [m \in Ids |-> IF m \in Range(ids) THEN hb ELSE @[m]]]
       /\ Tag((IF eff # {} THEN {"idw_in"} ELSE {})
              \cup (IF over /\ \E m \in FirstK(ids, MaxIDWLen) : unwanted[p][m] # IDWTTL THEN {"cap_idw_msgs"} ELSE {})
              \cup (IF ~over /\ \E m \in Range(ids) \ FirstK(ids, MaxIDWLen) : unwanted[p][m] # IDWTTL THEN {"cap_idw_len"} ELSE {})
              \cup (IF ~over /\ Len(Cut(ids, sp)) >= 2 /\ (\A i \in DOMAIN Cut(ids, sp) : Len(Cut(ids, sp)[i]) <= MaxIDWLen)
                       /\ \E m \in Range(ids) \ FirstK(ids, MaxIDWLen) : unwanted[p][m] # IDWTTL THEN {"idw_multi_entry_over"} ELSE {})
              \cup (IF eff # {} /\ "cap_idw_msgs" \in cov THEN {"reset_idw"} ELSE {}))
    /\ idwSeen' = [idwSeen EXCEPT ![p] = Sat(@ + 1, MaxIDWMsgs + 1)]
    /\ StimS("idontwant", p, "", ids, 0, sp)
    /\ UNCHANGED <<mc, peertx, seen, score, iasked, promises, pen,
                   putHb, served, reqs, askedIn, honoured, asks>>

SetScore(p, v) ==
    /\ CanStim
    /\ score[p] # v /\ p \notin Mesh
    /\ score' = [score EXCEPT ![p] = v]
    /\ out' = [a |-> "score", p |-> p, v |-> v]
    /\ Stim("score", p, "", <<>>, v)
    /\ Tag({})
    /\ UNCHANGED <<mc, peertx, seen, peerhave, iasked, peerdontwant, unwanted, promises, pen, mons>>

----------------------------------------------------------------------------
(* heartbeat(): counters cleared first, IDONTWANT TTLs decremented, promise
   penalties, gossip emitted from the first G slots, cache shifted LAST.      *)
GossipWindow == UNION {mc[i] : i \in 1..(IF "AdvertiseWholeHistory" \in Bug THEN H ELSE G)}
Cands == {p \in Peers : p \notin Mesh /\ p \notin Direct /\ MeshCapable(p)
                        /\ ("GossipBelowThreshold" \in Bug \/ score[p] >= GossipThr)}
Target(n) == Min(n, Max(Dlazy, (FactorPct * n) \div 100))
SpecCands == {p \in Peers : p \notin Mesh /\ p \notin Direct /\ MeshCapable(p) /\ score[p] >= GossipThr}

Heartbeat ==
    /\ hb < MaxHb
    /\ hb' = hb + 1 /\ stim' = 0
    /\ peerhave' = IF "KeepPeerHave" \in Bug THEN peerhave ELSE ZeroP
    /\ iasked' = IF "KeepIAsked" \in Bug THEN iasked ELSE ZeroP
    /\ peerdontwant' = IF "KeepPeerDontWant" \in Bug THEN peerdontwant ELSE ZeroP
    /\ unwanted' = [p \in Peers |-> [m \in Ids |->
                      IF unwanted[p][m] = None THEN None
                      ELSE LET t == unwanted[p][m] - 1 IN
                           IF (IF "TTLOffByOne" \in Bug THEN t < 0 ELSE t <= 0) THEN None ELSE t]]
    /\ LET broken == {x \in Ids \X Peers : promises[x[1]][x[2]] # 0 /\ promises[x[1]][x[2]] <= hb + 1}
           grow   == [p \in Peers |-> Cardinality({x \in broken : x[2] = p})]
           win    == GossipWindow
           shown  == IF Cardinality(win) <= MaxIHaveLen THEN {win}
                     ELSE {S \in SUBSET win : Cardinality(S) = MaxIHaveLen}
           due    == {a \in asks : a.due <= hb + 1} IN
       /\ promises' = [m \in Ids |-> [p \in Peers |-> IF <<m, p>> \in broken THEN 0 ELSE promises[m][p]]]
       /\ pen' = [p \in Peers |-> Sat(pen[p] + grow[p], 4)]
       /\ \E R \in SUBSET Cands :
            /\ Cardinality(R) = Target(Cardinality(Cands))
            /\ \E f \in [R -> shown] :
                 out' = [a |-> "hb", ihave |-> IF win = {} THEN [p \in {} |-> {}] ELSE f, grow |-> grow]
       /\ asks' = asks \ due
       /\ Tag((IF \E p \in Peers : grow[p] > 0 THEN {"promise_broken"} ELSE {})
              \cup (IF \E a \in due : a.open = {} THEN {"promise_kept"} ELSE {})
              \cup (IF Cands # {} /\ \E m \in win : hb + 1 - putHb[m] = 1 THEN {"adv_first"} ELSE {})
              \cup (IF Cands # {} /\ \E m \in win : hb + 1 - putHb[m] = G THEN {"adv_last"} ELSE {})
              \cup (IF Cands # {} /\ \E m \in Cached \ win : hb + 1 - putHb[m] = G + 1 THEN {"adv_stopped"} ELSE {})
              \cup (IF Cardinality(win) > MaxIHaveLen /\ Cands # {} THEN {"adv_truncated"} ELSE {})
              \cup (IF win # {} /\ Cardinality(Cands) > Target(Cardinality(Cands)) THEN {"adv_subset"} ELSE {})
              \cup (IF win # {} /\ \E p \in Peers \ (Mesh \cup Direct \cup Flood) : score[p] < GossipThr THEN {"adv_low_score_excluded"} ELSE {})
              \cup (IF (\E p \in Peers : peerhave[p] > MaxIHaveMsgs \/ iasked[p] >= MaxIHaveLen) THEN {"capped"} ELSE {})
              \cup (IF \E p \in Peers, m \in Ids : unwanted[p][m] = 1 THEN {"idw_ttl_expired"} ELSE {}))
    /\ mc' = [i \in 1..H |-> IF i = 1 THEN {}
                             ELSE IF "ShiftEarly" \in Bug /\ i = H THEN {} ELSE mc[i - 1]]
    /\ peertx' = [m \in Ids |-> IF m \in Cached /\ m \notin UNION {mc'[i] : i \in 1..H} THEN ZeroP ELSE peertx[m]]
    /\ ctl' = ZeroP /\ idwSeen' = ZeroP /\ askedIn' = ZeroP /\ honoured' = ZeroP
    /\ hist' = Append(hist, [a |-> "hb", p |-> "", m |-> "", ids |-> <<>>, v |-> 0])
    /\ UNCHANGED <<seen, score, putHb, served, reqs, dwAt, dwAny>>

Next ==
    \/ \E x \in AccArgs : Accept(x[1], x[2])
    \/ \E x \in IHaveArgs : RecvIHave(x[1], x[2], Sp(x))
    \/ \E x \in IWantArgs : RecvIWant(x[1], x[2], Sp(x))
    \/ \E x \in IDWArgs : RecvIDontWant(x[1], x[2], Sp(x))
    \/ \E x \in ScoreArgs : SetScore(x[1], x[2])
    \/ Heartbeat

Spec == Init /\ [][Next]_vars

----------------------------------------------------------------------------
(* The properties.  Action formulas: unprimed monitors are the values BEFORE
   the step, out' is what the step received and answered.                    *)

\* IWANT(m) from p is answered while m is in the HistoryLength window, p asked fewer than
\* GossipRetransmission times, has not declared m unwanted and is at or above the gossip
\* threshold; it is never answered when declared unwanted or already served Retransmission times
P_C17_Serve ==
    out'.a = "iwant" =>
      LET p == out'.p IN
      \A m \in Range(out'.ids) :
        /\ (InWindow(m) /\ reqs[p][m] < Retx /\ ~DWMay(p, m) /\ score[p] >= GossipThr) => m \in out'.resp
        /\ m \in out'.resp => (~DWMust(p, m) /\ served[p][m] < Retx /\ putHb[m] >= 0)

\* every IHAVE of heartbeat h names only ids put 1..G heartbeats ago, goes to non-mesh, non-direct,
\* mesh-capable peers at or above the gossip threshold, has at most MaxIHaveLength ids, and the
\* number of recipients is min(|cands|, max(Dlazy, floor(factor * |cands|)))
P_C17_Advertise ==
    out'.a = "hb" =>
      LET rcp == DOMAIN out'.ihave
          win == {m \in Ids : putHb[m] >= 0 /\ 1 <= hb' - putHb[m] /\ hb' - putHb[m] <= G} IN
      /\ \A p \in rcp :
           /\ p \in SpecCands
           /\ Cardinality(out'.ihave[p]) <= MaxIHaveLen
           /\ out'.ihave[p] \subseteq win
           /\ Cardinality(win) <= MaxIHaveLen => out'.ihave[p] = win
      /\ win # {} => Cardinality(rcp) = Target(Cardinality(SpecCands))
      /\ win = {} => rcp = {}

\* IWANT asks only for ids advertised in that RPC and not seen; per peer and heartbeat at most
\* MaxIHaveLength ids and at most MaxIHaveMessages IHAVEs are honoured; the counters restart
\* at every heartbeat (an IHAVE within fresh limits is honoured in full)
P_C17_Ask ==
    out'.a = "ihave" =>
      LET p == out'.p IN
      /\ out'.iwant \subseteq Range(out'.ids) \ seen
      /\ askedIn'[p] <= MaxIHaveLen
      /\ honoured'[p] <= MaxIHaveMsgs
      /\ out'.must => Cardinality(out'.iwant) = out'.want

\* the router's IDONTWANT table holds exactly the declarations that had to take effect (caps per
\* heartbeat, ids per message) and that are younger than the TTL
P_C17_IDontWantIn ==
    \A p \in Peers, m \in Ids :
      /\ unwanted[p][m] # None => (DWMay(p, m) /\ unwanted[p][m] >= 1 /\ unwanted[p][m] <= IDWTTL - (hb - dwAny[p][m]))
      /\ DWMust(p, m) => unwanted[p][m] # None
P_C17_IDontWantInStep ==
    out'.a = "idontwant" =>
      /\ Cardinality(out'.eff) <= MaxIDWLen
      /\ out'.eff \subseteq Range(out'.ids)

\* IDONTWANT only for big messages, only to >= v1.2 mesh peers, never to the sender
P_C17_IDontWantOut ==
    out'.a = "accept" =>
      \A q \in out'.idw : out'.m \in Big /\ q \in Mesh /\ q \in V12 /\ q # out'.from

\* a promise penalty at heartbeat h only for IWANT batches that became due at h with an id that
\* did not arrive from anyone since it was asked
P_C17_Promise ==
    out'.a = "hb" =>
      \A p \in Peers :
        out'.grow[p] <= Cardinality({a \in asks : a.p = p /\ a.due <= hb' /\ a.open # {}})

AllProps == /\ P_C17_Serve /\ P_C17_Advertise /\ P_C17_Ask /\ P_C17_IDontWantInStep
            /\ P_C17_IDontWantOut /\ P_C17_Promise
=============================================================================
