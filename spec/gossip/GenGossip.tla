----------------------------- MODULE GenGossip -----------------------------
(* Scenario generator for C17 (router part).  Gossip.tla carries the history
   of stimuli (`hist`) and the set of window edges / caps the behaviour has
   exercised in the MODEL (`cov`).  Every behaviour of exactly L stimuli is
   printed as  <<"SCN", json([hist, cov])>> ; the orchestrator turns `hist`
   into actions for the common router replay driver (harness/drivers/router)
   and uses `cov` only to pick a subset that covers every obligation.
   Only the INPUTS are taken from the model; what the real node answers is
   judged by GossipTrace.tla.

   Breadth-first over a focused alphabet (one family per property group, all
   behaviours up to the bound) or -simulate over the whole alphabet.         *)
EXTENDS Gossip, Json

CONSTANT L

NoArgs == {}
ThrM2 == -2

\* ---- serve: window edges and the retransmission limit
Acc_serve   == {<<"m1", "p1">>}
IWant_serve == {<<"p2", <<"m1">>>>, <<"p3", <<"m1">>>>}
\* ---- serve with IDONTWANT honoured / expired and the score threshold
IDW_serve2   == {<<"p2", <<"m1">>>>}
IWant_serve3 == {<<"p3", <<"m1">>>>, <<"p3", <<"m1", "m1">>>>}
Score_serve3 == {<<"p3", -3>>, <<"p3", 0>>}
\* ---- ask: IHAVE caps and restart; the IWANT / IDONTWANT of p2 also count as control RPCs
Acc_ask   == {<<"m1", "p1">>}
IHave_ask == {<<"p2", <<"m1", "m2">>>>, <<"p2", <<"m3">>>>, <<"p2", <<"m2", "m3", "m1">>>>}
IWant_ask == {<<"p2", <<"m1">>>>}
Score_ask == {<<"p3", -3>>}
\* ---- ask2 (MaxIHaveLength 3 > MaxIHaveMessages 2): the message cap alone stops the third IHAVE
IHave_ask2 == {<<"p2", <<"m1">>>>, <<"p2", <<"m2">>>>, <<"p2", <<"m3">>>>, <<"p2", <<"m3", "m2">>>>}
\* ---- ask3 (MaxIHaveLength 5, MaxIHaveMessages 4): three and more batches of three invented ids from ONE peer in
\*      ONE heartbeat interval - the running total per heartbeat matters, not the latest batch
IHave_ask3 == {<<"p2", <<"x1", "x2", "x3">>>>, <<"p2", <<"x4", "x5", "x6">>>>, <<"p2", <<"x7", "x8", "x9">>>>,
               <<"p2", <<"x1", "x2">>>>, <<"p2", <<"x4", "x5">>>>, <<"p3", <<"x1", "x2", "x3">>>>,
               <<"p2", <<"x1", "x2", "x3", "x4", "x5", "x6", "x7", "x8", "x9">>, <<3, 3, 3>>>>}
\* ---- multi: ONE RPC with SEVERAL control entries of a kind, each within its bound, together beyond it
\*      (MaxIDontWantLength 2, MaxIHaveLength 2, GossipRetransmission 2)
Acc_multi   == {<<"m1", "p1">>, <<"m3", "p3">>}
IDW_multi   == {<<"p2", <<"m1", "m2", "m3", "m4">>, <<2, 2>>>>, <<"p2", <<"m2", "m3", "m1">>, <<1, 1, 1>>>>,
                <<"p2", <<"m4", "m3">>, <<1, 1>>>>, <<"p2", <<"m3", "m4", "m1">>>>}
IWant_multi == {<<"p2", <<"m1", "m1", "m1">>, <<1, 1, 1>>>>, <<"p2", <<"m3", "m1", "m3">>, <<2, 1>>>>, <<"p2", <<"m3">>>>}
IHave_multi == {<<"p2", <<"m2", "m3", "m4">>, <<1, 1, 1>>>>, <<"p2", <<"m1", "m2", "m4", "m3">>, <<2, 2>>>>, <<"p3", <<"m2", "m4">>, <<1, 1>>>>}
\* ---- promises: kept by the promiser, by a third party, late, never
Acc_prom   == {<<"m1", "p1">>, <<"m1", "p2">>}
IHave_prom == {<<"p2", <<"m1">>>>, <<"p3", <<"m1", "m2">>>>}
\* ---- advertise
Acc_adv   == {<<"m1", "p1">>, <<"m2", "p2">>, <<"m3", "self">>}
Score_adv == {<<p, v>> : p \in {"p2", "p3"}, v \in {-3, 0}}
\* ---- IDONTWANT received: caps, TTL, restart
Acc_idw   == {<<"m1", "p1">>, <<"m3", "p3">>}
IDW_idw   == {<<"p2", <<"m1">>>>, <<"p2", <<"m2">>>>, <<"p2", <<"m3", "m2", "m1">>>>}
IWant_idw == {<<"p2", <<"m1">>>>}
\* ---- IDONTWANT sent: size classes, senders
Acc_out   == {<<m, f>> : m \in {"m1", "m2"}, f \in {"p1", "p2", "p3"}} \cup {<<"m3", "self">>}
\* ---- everything (for -simulate)
Acc_all   == {<<m, f>> : m \in {"m1", "m2"}, f \in {"p1", "p2", "p3"}} \cup {<<"m3", "self">>}
Lists     == {<<"m1">>, <<"m2">>, <<"m3">>, <<"m1", "m2">>, <<"m2", "m3">>, <<"m3", "m1", "m2">>, <<"m2", "m2", "m1">>, <<"m1", "m3", "m2", "m1">>}
IHave_all == {<<p, s>> : p \in {"p1", "p2", "p3"}, s \in Lists}
IWant_all == {<<p, s>> : p \in {"p1", "p2", "p3"}, s \in Lists}
IDW_all   == {<<p, s>> : p \in {"p1", "p2", "p3"}, s \in Lists}
Score_all == {<<p, v>> : p \in {"p2", "p3"}, v \in {-3, 0}}

Done == Len(hist) >= L
GNext == ~Done /\ Next
GSpec == Init /\ [][GNext]_vars

\* which ids the node asks for / which peers it gossips to is the node's choice, not an input: one representative
\* internal state per (stimuli, model coverage) is enough when enumerating inputs
GenView == <<hist, cov>>

Emit == Done => PrintT(<<"SCN", ToJson([hist |-> hist, cov |-> cov])>>)
=============================================================================
