\* seeded defect ShiftEarly: MUST violate A_Serve (non-vacuity)
\* (the orchestrator bin/lib/props/c17_router.py generates the same text; this copy is for stand-alone runs:
\*  cd spec/gossip && tlc -config MCGossipBugShiftEarly.cfg MCGossip.tla)
SPECIFICATION Spec
CONSTANTS
  Peers = {"p1", "p2", "p3"}
  Ids = {"m1"}
  SelfIds = {}
  Big = {"m1"}
  Mesh = {"p1"}
  Direct = {}
  V12 = {"p1", "p3"}
  Flood = {}
  H = 3
  G = 2
  Retx = 2
  MaxIHaveLen = 2
  MaxIHaveMsgs = 2
  MaxIDWLen = 2
  MaxIDWMsgs = 2
  IDWTTL = 2
  FollowUpHb = 2
  Dlazy = 1
  FactorPct = 50
  GossipThr <- ThrM2
  MaxHb = 4
  MaxStim = 2
  AccArgs <- Acc_serve
  IHaveArgs <- NoArgs
  IWantArgs <- IWant_serve
  IDWArgs <- IDW_serve
  ScoreArgs <- NoArgs
  Bug = {"ShiftEarly"}
INVARIANT P_C17_IDontWantIn
PROPERTY A_Serve
PROPERTY A_Advertise
PROPERTY A_Ask
PROPERTY A_IDontWantIn
PROPERTY A_IDontWantOut
PROPERTY A_Promise
VIEW View
CHECK_DEADLOCK FALSE
