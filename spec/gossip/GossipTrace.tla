---------------------------- MODULE GossipTrace ----------------------------
(* Trace specification for C17 (router part) over the common step-line format
   of harness/world: one line per stimulus with the ordered tracer events
   (`ev`: Recv / Send / Drop / Validate / Deliver / Reject / Up / Down ...), and the
   post-snapshot (`st`).  The file is a concatenation of scenarios, each
   starting with a line whose act.a = "reset" (act.cfg = parameters).

   The walk is deterministic: one cursor, the MONITORS of Gossip.tla rebuilt
   from the events only

      putHb[m]      heartbeat count when the node delivered m (= mcache.Put)
      seen          ids that entered validation or were published here
      served[p,m]   copies of m sent to p in answer to p's IWANTs
      reqs[p,m]     times p asked for m
      dwAt / dwAny  heartbeat count of p's latest IDONTWANT for m (within caps / at all)
      ctl, idwSeen, askedIn, honoured, idwEff   per-peer counters of the current heartbeat interval
                    (idwEff = IDONTWANT-bearing RPCs the router accepted, idwSeen = all of them)
      asks          IWANT batches the node sent (promises it may hold)

   and the predicates of C17 evaluated on what the REAL node did in that
   step.  A failing predicate prints <<"VIOL", json>> and the walk goes on;
   <<"HIT", json>> lines report which window edges / caps the step exercised
   (coverage obligations) and how many predicate instances it evaluated.

   Heartbeat numbering comes from virtual time alone: the node's heartbeats are
   at (time of the reset line) + 100 + k * hbMs ms; stimuli never share a step with a heartbeat (the
   orchestrator cuts a scenario at the first line where they would).        *)
EXTENDS Integers, Sequences, FiniteSets, TLC, Json

Trace == ndJsonDeserialize("trace.ndjson")

VARIABLES l, scn, cfg, hb0,
          putHb, topicOf, seen, served, reqs, dwAt, dwAny,
          ctl, idwSeen, askedIn, honoured, idwEff,
          asks, flags

tvars == <<l, scn, cfg, hb0, putHb, topicOf, seen, served, reqs, dwAt, dwAny, ctl, idwSeen, askedIn, honoured, idwEff, asks, flags>>

E == Trace[l]
P == Trace[l - 1]
Pre == P.st
Post == E.st
ev == E.ev
Idx == DOMAIN ev
More == l <= Len(Trace)

Rng(s) == {s[i] : i \in DOMAIN s}
Get(f, k, d) == IF k \in DOMAIN f THEN f[k] ELSE d
Min(a, b) == IF a < b THEN a ELSE b
Max(a, b) == IF a > b THEN a ELSE b
FirstK(s, k) == {s[i] : i \in 1..Min(Len(s), k)}
RECURSIVE Flat(_)
Flat(ss) == IF ss = <<>> THEN <<>> ELSE Head(ss) \o Flat(Tail(ss))
Occ(s, x) == Cardinality({i \in DOMAIN s : s[i] = x})
Emp == [x \in {} |-> 0]

\* ---- configuration of the scenario
HbMs == cfg.hbMs
\* hb0 = instant of the first heartbeat = creation of the node (time of the reset line) + HeartbeatInitialDelay (100 ms)
HbN(t) == IF t < hb0 THEN 0 ELSE (t - hb0) \div HbMs + 1
GossipThr == IF cfg.score THEN cfg.thr.gossip ELSE 0
GraylistThr == IF cfg.score THEN cfg.thr.graylist ELSE 0
Target(n) == Min(n, Max(cfg.Dlazy, (cfg.gossipFactorPct * n) \div 100))
MeshProtos == {"/meshsub/1.0.0", "/meshsub/1.1.0", "/meshsub/1.2.0", "/meshsub/1.3.0"}
IDWProtos == {"/meshsub/1.2.0", "/meshsub/1.3.0"}
SigReasons == {"missing signature", "invalid signature"}

\* ---- this step
h == HbN(P.t)                          \* heartbeats before the step
hNew == HbN(E.t)                       \* ... after it
IsHb == E.act.a = "hb" /\ hNew = h + 1
T == E.t - ((E.t - hb0) % HbMs)        \* instant of the most recent heartbeat

ScoreOf(st, p) == Get(st.scores, p, 0)
HasQueue(st, p) == p \in DOMAIN st.peers /\ ~st.peers[p].closed
Proto(st, p) == Get(st.gsPeers, p, "")
PeersOf(m, t) == IF t \in DOMAIN m THEN Rng(m[t]) ELSE {}

Recvs == {i \in Idx : ev[i].k = "Recv"}
Outs == {i \in Idx : ev[i].k \in {"Send", "Drop"}}
OutsTo(p) == {i \in Outs : ev[i].p = p}
SendsTo(p) == {i \in Idx : ev[i].k = "Send" /\ ev[i].p = p}
DroppedTo(p) == \E i \in Idx : ev[i].k = "Drop" /\ ev[i].p = p
HasCtl(r) == r.graft # <<>> \/ r.prune # <<>> \/ r.ihave # <<>> \/ r.iwant # <<>> \/ r.idontwant # <<>> \/ r.ext.present
MsgEvs(kinds) == {i \in Idx : ev[i].k \in kinds}
LocalOnlyStep == E.act.a = "publish" /\ "localOnly" \in DOMAIN E.act /\ E.act.localOnly

\* messages delivered in this step (= put into the message cache), ids entering validation, promise fulfilment
PutNow == IF LocalOnlyStep THEN {} ELSE {i \in MsgEvs({"Deliver"}) : ev[i].m \notin DOMAIN putHb}
SeenNow == {ev[i].m : i \in MsgEvs({"Validate", "Publish", "Deliver"})}
FulfilNow == {ev[i].m : i \in MsgEvs({"Validate", "Deliver"})}
             \cup {ev[i].m : i \in {j \in MsgEvs({"Reject"}) : Get(ev[j], "reason", "") \notin SigReasons}}
DownNow == {ev[i].p : i \in {j \in Idx : ev[j].k = "Down"}}

DWMust(p, m, hh) == <<p, m>> \in DOMAIN dwAt /\ hh - dwAt[<<p, m>>] < cfg.idwTTL
DWMay(p, m, hh) == <<p, m>> \in DOMAIN dwAny /\ hh - dwAny[<<p, m>>] < cfg.idwTTL
AcceptsFrom(p) == (ScoreOf(Pre, p) >= GraylistThr \/ p \in Rng(Pre.direct)) /\ p \notin Rng(Pre.blacklisted)

V(pred, what, p, m, info) == [pred |-> pred, what |-> what, p |-> p, m |-> m, info |-> info]

----------------------------------------------------------------------------
\* P_C17_Serve: the IWANTs received in this step
IWantRecvs == {i \in Recvs : ev[i].rpc.iwant # <<>>}
CopiesTo(p, m) == Cardinality(UNION {{<<j, x>> : x \in {y \in DOMAIN ev[j].rpc.msgs : ev[j].rpc.msgs[y].m = m}} : j \in SendsTo(p)})
MustServe(p, m) ==
    /\ m \in DOMAIN putHb /\ h - putHb[m] < cfg.H
    /\ Get(reqs, <<p, m>>, 0) < cfg.retx
    /\ ~DWMay(p, m, h)
    /\ ScoreOf(Pre, p) >= GossipThr /\ AcceptsFrom(p)
    /\ HasQueue(Pre, p) /\ HasQueue(Post, p) /\ ~DroppedTo(p)
ServeViol(i) ==
    LET p == ev[i].p
        ids == Flat(ev[i].rpc.iwant) IN
    UNION {
      (IF MustServe(p, m) /\ CopiesTo(p, m) = 0
         THEN {V("P_C17_Serve", "not-served-inside-window", p, m,
                 [hb |-> h, putHb |-> putHb[m], reqs |-> Get(reqs, <<p, m>>, 0), served |-> Get(served, <<p, m>>, 0)])}
         ELSE {})
      \cup (IF CopiesTo(p, m) > 0 /\ DWMust(p, m, h)
              THEN {V("P_C17_Serve", "served-unwanted", p, m, [hb |-> h, declaredAt |-> dwAt[<<p, m>>]])} ELSE {})
      \cup (IF CopiesTo(p, m) > 0 /\ Get(served, <<p, m>>, 0) + CopiesTo(p, m) > cfg.retx
              THEN {V("P_C17_Serve", "served-beyond-retransmission", p, m,
                      [hb |-> h, served |-> Get(served, <<p, m>>, 0), now |-> CopiesTo(p, m)])} ELSE {})
      : m \in Rng(ids)}
ServeTags(i) ==
    LET p == ev[i].p
        ids == Flat(ev[i].rpc.iwant)
        ok == ScoreOf(Pre, p) >= GossipThr /\ HasQueue(Pre, p) IN
    UNION {
      (IF CopiesTo(p, m) > 0 /\ m \in DOMAIN putHb /\ h - putHb[m] = cfg.H - 1 THEN {"serve_last"} ELSE {})
      \cup (IF CopiesTo(p, m) = 0 /\ ok /\ m \in DOMAIN putHb /\ h - putHb[m] = cfg.H /\ Get(reqs, <<p, m>>, 0) < cfg.retx /\ ~DWMay(p, m, h)
              THEN {"serve_first_unserved"} ELSE {})
      \cup (IF CopiesTo(p, m) > 0 /\ Get(served, <<p, m>>, 0) = cfg.retx - 1 THEN {"retx_last"} ELSE {})
      \cup (IF CopiesTo(p, m) = 0 /\ ok /\ m \in DOMAIN putHb /\ h - putHb[m] < cfg.H /\ Get(served, <<p, m>>, 0) >= cfg.retx /\ ~DWMay(p, m, h)
              THEN {"retx_reached"} ELSE {})
      \cup (IF CopiesTo(p, m) = 0 /\ ok /\ m \in DOMAIN putHb /\ h - putHb[m] < cfg.H /\ Get(reqs, <<p, m>>, 0) < cfg.retx /\ DWMust(p, m, h)
              THEN {"idw_honoured"} ELSE {})
      \cup (IF CopiesTo(p, m) > 0 /\ <<p, m>> \in DOMAIN dwAny /\ h - dwAny[<<p, m>>] = cfg.idwTTL THEN {"idw_expired"} ELSE {})
      \cup (IF CopiesTo(p, m) = 0 /\ ~(ScoreOf(Pre, p) >= GossipThr) /\ m \in DOMAIN putHb /\ h - putHb[m] < cfg.H THEN {"iwant_low_score"} ELSE {})
      \* ONE RPC with >= 2 IWANT entries asking for m, each at most GossipRetransmission times, together more often
      \cup (IF Len(ev[i].rpc.iwant) >= 2 /\ ok /\ m \in DOMAIN putHb /\ h - putHb[m] < cfg.H /\ ~DWMay(p, m, h)
               /\ (\A x \in DOMAIN ev[i].rpc.iwant : Occ(ev[i].rpc.iwant[x], m) <= cfg.retx)
               /\ Get(reqs, <<p, m>>, 0) < cfg.retx /\ Get(reqs, <<p, m>>, 0) + Occ(ids, m) > cfg.retx /\ CopiesTo(p, m) > 0
              THEN {"iwant_multi_entry_over"} ELSE {})
      : m \in Rng(ids)}

----------------------------------------------------------------------------
\* P_C17_Ask: IHAVEs received and IWANTs sent in this step
IHaveRecvs == {i \in Recvs : ev[i].rpc.ihave # <<>>}
IWantOuts == {j \in Outs : ev[j].rpc.iwant # <<>>}
AskedSeq(p) == LET js == {j \in IWantOuts : ev[j].p = p} IN
               IF js = {} THEN <<>> ELSE Flat(ev[CHOOSE j \in js : \A k \in js : j <= k].rpc.iwant)
AdvAll(i) == UNION {Rng(ev[i].rpc.ihave[x].ids) : x \in DOMAIN ev[i].rpc.ihave}
AdvJoinedFirstK(i) == UNION {FirstK(ev[i].rpc.ihave[x].ids, cfg.maxIHaveLen)
                             : x \in {y \in DOMAIN ev[i].rpc.ihave : ev[i].rpc.ihave[y].topic \in DOMAIN Pre.mesh}}
MustAsk(i) ==
    LET p == ev[i].p IN
    /\ ScoreOf(Pre, p) >= GossipThr /\ AcceptsFrom(p)
    /\ Get(ctl, p, 0) < cfg.maxIHaveMsgs /\ Get(askedIn, p, 0) < cfg.maxIHaveLen
    /\ AdvJoinedFirstK(i) \ seen # {}
    /\ HasQueue(Pre, p) /\ HasQueue(Post, p)
WantAsk(i) == Min(Cardinality(AdvJoinedFirstK(i) \ seen), cfg.maxIHaveLen - Get(askedIn, ev[i].p, 0))
AskViol(i) ==
    LET p == ev[i].p
        asked == AskedSeq(p)
        nb == Cardinality({j \in IWantOuts : ev[j].p = p}) IN
    (IF asked # <<>> /\ ~(Rng(asked) \subseteq AdvAll(i))
       THEN {V("P_C17_Ask", "asked-id-not-advertised", p, "", [asked |-> asked])} ELSE {})
    \cup (IF Rng(asked) \cap seen # {}
            THEN {V("P_C17_Ask", "asked-seen-id", p, CHOOSE m \in Rng(asked) \cap seen : TRUE, [asked |-> asked])} ELSE {})
    \cup (IF Get(askedIn, p, 0) + Len(asked) > cfg.maxIHaveLen
            THEN {V("P_C17_Ask", "asked-more-than-MaxIHaveLength", p, "", [before |-> Get(askedIn, p, 0), asked |-> asked])} ELSE {})
    \cup (IF asked # <<>> /\ Get(honoured, p, 0) + 1 > cfg.maxIHaveMsgs
            THEN {V("P_C17_Ask", "honoured-more-than-MaxIHaveMessages", p, "", [before |-> Get(honoured, p, 0)])} ELSE {})
    \cup (IF nb > 1 \/ Cardinality(Rng(asked)) # Len(asked)
            THEN {V("P_C17_Ask", "duplicate-iwant", p, "", [asked |-> asked, batches |-> nb])} ELSE {})
    \cup (IF MustAsk(i) /\ Cardinality(Rng(asked)) # WantAsk(i)
            THEN {V("P_C17_Ask", "fresh-limits-not-honoured", p, "",
                    [asked |-> asked, want |-> WantAsk(i), ctl |-> Get(ctl, p, 0), askedIn |-> Get(askedIn, p, 0), hb |-> h])} ELSE {})
UnsolicitedViol ==
    {V("P_C17_Ask", "iwant-without-ihave", ev[j].p, "", [iwant |-> ev[j].rpc.iwant])
       : j \in {k \in IWantOuts : ~\E i \in IHaveRecvs : ev[i].p = ev[k].p}}
AskTags(i) ==
    LET p == ev[i].p
        asked == AskedSeq(p)
        unseen == AdvJoinedFirstK(i) \ seen
        ok == ScoreOf(Pre, p) >= GossipThr /\ HasQueue(Pre, p) IN
    (IF asked # <<>> THEN {"asked"} ELSE {})
    \cup (IF asked # <<>> /\ Len(asked) < Cardinality(unseen) THEN {"cap_ihave_len"} ELSE {})
    \cup (IF asked = <<>> /\ ok /\ unseen # {} /\ Get(askedIn, p, 0) >= cfg.maxIHaveLen THEN {"cap_ihave_len_full"} ELSE {})
    \cup (IF asked = <<>> /\ ok /\ unseen # {} /\ Get(askedIn, p, 0) < cfg.maxIHaveLen /\ Get(ctl, p, 0) >= cfg.maxIHaveMsgs THEN {"cap_ihave_msgs"} ELSE {})
    \cup (IF asked = <<>> /\ ok /\ unseen # {} /\ Get(askedIn, p, 0) < cfg.maxIHaveLen /\ Get(honoured, p, 0) >= cfg.maxIHaveMsgs THEN {"cap_ihave_msgs_honoured"} ELSE {})
    \cup (IF asked # <<>> /\ MustAsk(i) /\ Get(ctl, p, 0) = cfg.maxIHaveMsgs - 1 THEN {"ihave_last_honoured"} ELSE {})
    \* the running per-heartbeat total matters: a third (or later) honoured batch of the same peer cut down by what was asked before
    \cup (IF asked # <<>> /\ Get(honoured, p, 0) >= 2 /\ Get(askedIn, p, 0) > 0 /\ Len(asked) < Cardinality(unseen)
                         /\ Get(askedIn, p, 0) + Len(asked) = cfg.maxIHaveLen THEN {"ask_sum_third_batch"} ELSE {})
    \cup (IF asked = <<>> /\ ok /\ unseen # {} /\ Get(honoured, p, 0) >= 2 /\ Get(askedIn, p, 0) >= cfg.maxIHaveLen
                         /\ Get(ctl, p, 0) < cfg.maxIHaveMsgs THEN {"ask_sum_refused"} ELSE {})
    \cup (IF asked = <<>> /\ ok /\ unseen = {} /\ AdvJoinedFirstK(i) # {} THEN {"ihave_all_seen"} ELSE {})
    \cup (IF asked # <<>> /\ MustAsk(i) /\ <<"cappedlen", p>> \in flags THEN {"reset_ihave", "reset_ihave_len"} ELSE {})
    \cup (IF asked # <<>> /\ MustAsk(i) /\ <<"cappedmsgs", p>> \in flags THEN {"reset_ihave", "reset_ihave_msgs"} ELSE {})
    \cup (IF asked = <<>> /\ ~(ScoreOf(Pre, p) >= GossipThr) /\ unseen # {} THEN {"ihave_low_score"} ELSE {})
    \* ONE RPC with >= 2 IHAVE entries, each within MaxIHaveLength, whose unseen ids together exceed it: the answer is cut
    \cup (IF asked # <<>> /\ Len(ev[i].rpc.ihave) >= 2 /\ Cardinality(unseen) > cfg.maxIHaveLen /\ Len(asked) < Cardinality(unseen)
             /\ (\A x \in DOMAIN ev[i].rpc.ihave : Len(ev[i].rpc.ihave[x].ids) <= cfg.maxIHaveLen)
            THEN {"ihave_multi_entry_over"} ELSE {})
    \cup (IF asked # <<>> /\ \E x, y \in DOMAIN ev[i].rpc.ihave : x # y /\ ev[i].rpc.ihave[x].topic = ev[i].rpc.ihave[y].topic
                                  /\ ev[i].rpc.ihave[x].topic \in DOMAIN Pre.mesh THEN {"ihave_same_topic_entries"} ELSE {})
    \cup (IF asked # <<>> /\ \E x, y \in DOMAIN ev[i].rpc.ihave : ev[i].rpc.ihave[x].topic # ev[i].rpc.ihave[y].topic
                                  /\ {ev[i].rpc.ihave[x].topic, ev[i].rpc.ihave[y].topic} \subseteq DOMAIN Pre.mesh
                                  /\ Len(asked) < Cardinality(unseen) THEN {"ihave_two_topics_over"} ELSE {})

----------------------------------------------------------------------------
\* P_C17_IDontWantIn: IDONTWANTs received in this step and the router's table after every step
IDWRecvs == {i \in Recvs : ev[i].rpc.idontwant # <<>>}
UnwOf(st, p) == IF p \in DOMAIN st.unwanted THEN st.unwanted[p] ELSE Emp
MustEff(i) == LET p == ev[i].p IN
              IF Get(idwSeen, p, 0) < cfg.maxIDWMsgs /\ AcceptsFrom(p) /\ p \notin DownNow /\ p \in DOMAIN Post.gsPeers
                THEN FirstK(Flat(ev[i].rpc.idontwant), cfg.maxIDWLen) ELSE {}
NewEff(p) == LET pu == UnwOf(Post, p)
                 pr == UnwOf(Pre, p) IN
             {k \in DOMAIN pu : pu[k] = cfg.idwTTL /\ (k \notin DOMAIN pr \/ pr[k] < cfg.idwTTL)}
IDWInViol(i) ==
    LET p == ev[i].p
        flat == Flat(ev[i].rpc.idontwant)
        pu == UnwOf(Post, p)
        atTTL == {k \in DOMAIN pu : pu[k] = cfg.idwTTL}
        unknown == {k \in atTTL : k \notin Rng(flat)}
        missing == MustEff(i) \ atTTL
        named == {k \in NewEff(p) : k \in Rng(flat)} IN
    (IF Cardinality(NewEff(p)) > cfg.maxIDWLen
       THEN {V("P_C17_IDontWantIn", "more-than-MaxIDontWantLength-ids-took-effect", p, "", [eff |-> NewEff(p), ids |-> flat])} ELSE {})
    \cup (IF NewEff(p) # {} /\ Get(idwEff, p, 0) >= cfg.maxIDWMsgs
            THEN {V("P_C17_IDontWantIn", "more-than-MaxIDontWantMessages-took-effect", p, "", [eff |-> NewEff(p), before |-> Get(idwEff, p, 0)])} ELSE {})
    \cup (IF Cardinality(missing) > Cardinality(unknown)
            THEN {V("P_C17_IDontWantIn", "declaration-within-fresh-limits-ignored", p, CHOOSE m \in missing : TRUE,
                    [ids |-> flat, table |-> pu, seenThisHb |-> Get(idwSeen, p, 0), hb |-> h])} ELSE {})
\* the table after the step (dw monitors already updated: primed)
TableViol ==
    UNION {UNION {
        LET ttl == Post.unwanted[p][k] IN
        IF <<p, k>> \in DOMAIN dwAny'
          THEN (IF hNew - dwAny'[<<p, k>>] >= cfg.idwTTL
                  THEN {V("P_C17_IDontWantIn", "entry-outlives-TTL", p, k, [hb |-> hNew, declaredAt |-> dwAny'[<<p, k>>], ttl |-> ttl])}
                  ELSE IF ttl < 1 \/ ttl > cfg.idwTTL - (hNew - dwAny'[<<p, k>>])
                         THEN {V("P_C17_IDontWantIn", "ttl-out-of-range", p, k, [hb |-> hNew, declaredAt |-> dwAny'[<<p, k>>], ttl |-> ttl])}
                         ELSE {})
          ELSE (IF ttl < 1 \/ ttl > cfg.idwTTL
                  THEN {V("P_C17_IDontWantIn", "ttl-out-of-range", p, k, [hb |-> hNew, ttl |-> ttl])} ELSE {})
        : k \in DOMAIN Post.unwanted[p]} : p \in DOMAIN Post.unwanted}
IDWInTags(i) ==
    LET p == ev[i].p
        flat == Flat(ev[i].rpc.idontwant) IN
    (IF NewEff(p) # {} THEN {"idw_in"} ELSE {})
    \* a refused message / a cut-off id counts only when honouring it would have been visible in the table
    \cup (IF NewEff(p) = {} /\ Get(idwSeen, p, 0) >= cfg.maxIDWMsgs /\ AcceptsFrom(p)
             /\ \E m \in FirstK(flat, cfg.maxIDWLen) : Get(UnwOf(Pre, p), m, 0) < cfg.idwTTL THEN {"cap_idw_msgs"} ELSE {})
    \cup (IF NewEff(p) # {} /\ Len(flat) > cfg.maxIDWLen
             /\ \E m \in Rng(flat) \ FirstK(flat, cfg.maxIDWLen) : Get(UnwOf(Pre, p), m, 0) < cfg.idwTTL /\ Get(UnwOf(Post, p), m, 0) < cfg.idwTTL
            THEN {"cap_idw_len"} ELSE {})
    \cup (IF NewEff(p) # {} /\ <<"cappedidw", p>> \in flags THEN {"reset_idw"} ELSE {})
    \* ONE RPC with >= 2 IDONTWANT entries, each within MaxIDontWantLength, together beyond it, and honouring an id past the
    \* bound would have been visible in the table
    \cup (IF NewEff(p) # {} /\ Len(ev[i].rpc.idontwant) >= 2 /\ Len(flat) > cfg.maxIDWLen
             /\ (\A x \in DOMAIN ev[i].rpc.idontwant : Len(ev[i].rpc.idontwant[x]) <= cfg.maxIDWLen)
             /\ \E m \in Rng(flat) \ FirstK(flat, cfg.maxIDWLen) : Get(UnwOf(Pre, p), m, 0) < cfg.idwTTL /\ Get(UnwOf(Post, p), m, 0) < cfg.idwTTL
            THEN {"idw_multi_entry_over"} ELSE {})
ExpiryTags ==
    IF IsHb /\ \E p \in DOMAIN Pre.unwanted : \E k \in DOMAIN Pre.unwanted[p] :
                  Pre.unwanted[p][k] = 1 /\ (p \notin DOMAIN Post.unwanted \/ k \notin DOMAIN Post.unwanted[p])
      THEN {"idw_ttl_expired"} ELSE {}

----------------------------------------------------------------------------
\* P_C17_IDontWantOut: IDONTWANTs the node sent in this step
IDWOuts == {j \in Outs : ev[j].rpc.idontwant # <<>>}
\* Topic.Publish calls Preprocess too (sender = the node itself), BEFORE the message id has a symbolic
\* name: in a publish step the single id of an IDONTWANT is the id of the message being published
PubSize == IF Get(E.act, "size", 0) = 0 THEN 16 ELSE E.act.size
PubCarrier(q, m) ==
    /\ E.act.a = "publish" /\ (m = E.act.m \/ m \notin seen')
    /\ PubSize >= cfg.idwThreshold
    /\ q \in PeersOf(Pre.mesh, E.act.t)
    /\ Proto(Pre, q) \in IDWProtos
Carrier(q, m) ==       \* a message m received (or published) in this step that justifies IDONTWANT(m) to q
    \/ \E i \in Recvs : \E x \in DOMAIN ev[i].rpc.msgs :
         LET mm == ev[i].rpc.msgs[x] IN
         /\ mm.m = m /\ mm.size >= cfg.idwThreshold
         /\ ev[i].p # q
         /\ q \in PeersOf(Pre.mesh, mm.topic)
         /\ Proto(Pre, q) \in IDWProtos
    \/ PubCarrier(q, m)
WhyNot(q, m) ==
    IF E.act.a = "publish" /\ (m = E.act.m \/ m \notin seen')
      THEN (IF PubSize < cfg.idwThreshold THEN "below-size-threshold"
            ELSE IF q \notin PeersOf(Pre.mesh, E.act.t) THEN "to-non-mesh-peer" ELSE "to-peer-below-v1.2")
    ELSE IF ~\E i \in Recvs : \E x \in DOMAIN ev[i].rpc.msgs : ev[i].rpc.msgs[x].m = m THEN "no-such-message-received"
    ELSE LET i == CHOOSE i \in Recvs : \E x \in DOMAIN ev[i].rpc.msgs : ev[i].rpc.msgs[x].m = m
             x == CHOOSE x \in DOMAIN ev[i].rpc.msgs : ev[i].rpc.msgs[x].m = m
             mm == ev[i].rpc.msgs[x] IN
         IF mm.size < cfg.idwThreshold THEN "below-size-threshold"
         ELSE IF ev[i].p = q THEN "to-the-sender"
         ELSE IF q \notin PeersOf(Pre.mesh, mm.topic) THEN "to-non-mesh-peer"
         ELSE "to-peer-below-v1.2"
IDWOutViol ==
    UNION {{V("P_C17_IDontWantOut", WhyNot(ev[j].p, m), ev[j].p, m, [proto |-> Proto(Pre, ev[j].p)])
              : m \in {x \in Rng(Flat(ev[j].rpc.idontwant)) : ~Carrier(ev[j].p, x)}} : j \in IDWOuts}
IDWOutTags ==
    LET big == {<<i, x>> \in Recvs \X (1..4) : x \in DOMAIN ev[i].rpc.msgs /\ ev[i].rpc.msgs[x].size >= cfg.idwThreshold
                                             /\ \E k \in MsgEvs({"Validate"}) : ev[k].m = ev[i].rpc.msgs[x].m}
        small == {<<i, x>> \in Recvs \X (1..4) : x \in DOMAIN ev[i].rpc.msgs /\ ev[i].rpc.msgs[x].size < cfg.idwThreshold
                                             /\ \E k \in MsgEvs({"Validate"}) : ev[k].m = ev[i].rpc.msgs[x].m}
        MeshV12(t) == {q \in PeersOf(Pre.mesh, t) : Proto(Pre, q) \in IDWProtos}
        MeshOld(t) == {q \in PeersOf(Pre.mesh, t) : Proto(Pre, q) \notin IDWProtos} IN
    (IF IDWOuts # {} THEN {IF E.act.a = "publish" THEN "idw_out_publish" ELSE "idw_out_sent"} ELSE {})
    \cup (IF \E b \in small : MeshV12(ev[b[1]].rpc.msgs[b[2]].topic) \ {ev[b[1]].p} # {} THEN {"idw_out_small"} ELSE {})
    \cup (IF \E b \in big : ev[b[1]].p \in MeshV12(ev[b[1]].rpc.msgs[b[2]].topic) THEN {"idw_out_sender"} ELSE {})
    \cup (IF \E b \in big : MeshOld(ev[b[1]].rpc.msgs[b[2]].topic) \ {ev[b[1]].p} # {} THEN {"idw_out_old_proto"} ELSE {})

----------------------------------------------------------------------------
\* P_C17_Advertise: the IHAVEs of a heartbeat step
IHaveOuts == {j \in Outs : ev[j].rpc.ihave # <<>>}
Entries == UNION {{[p |-> ev[j].p, topic |-> ev[j].rpc.ihave[x].topic, ids |-> ev[j].rpc.ihave[x].ids] : x \in DOMAIN ev[j].rpc.ihave} : j \in IHaveOuts}
\* (primed: a message held by a slow validator may be delivered inside the heartbeat step itself, before the heartbeat)
Win(t) == {m \in DOMAIN putHb' : topicOf'[m] = t /\ 1 <= hNew - putHb'[m] /\ hNew - putHb'[m] <= cfg.G}
MeshCapable(p) == Proto(Post, p) \in MeshProtos
Cands(t) == {p \in PeersOf(Post.topics, t) :
               /\ p \notin PeersOf(Post.mesh, t) /\ p \notin PeersOf(Post.fanout, t) /\ p \notin Rng(Post.direct)
               /\ MeshCapable(p) /\ ScoreOf(Post, p) >= GossipThr}
GossipTopics == (DOMAIN Post.mesh \cup DOMAIN Post.fanout) \cap (DOMAIN Pre.mesh \cup DOMAIN Pre.fanout)
Recipients(t) == {e.p : e \in {x \in Entries : x.topic = t}}
AdvViol ==
    UNION {
      LET w == Win(e.topic) IN
      (IF Len(e.ids) > cfg.maxIHaveLen
         THEN {V("P_C17_Advertise", "more-than-MaxIHaveLength-ids", e.p, "", [ids |-> e.ids])} ELSE {})
      \cup {V("P_C17_Advertise", "id-outside-gossip-window", e.p, m,
              [hb |-> hNew, putHb |-> Get(putHb', m, -1), topic |-> e.topic, topicOfMsg |-> Get(topicOf', m, "")])
              : m \in Rng(e.ids) \ w}
      \cup (IF e.p \notin Cands(e.topic)
              THEN {V("P_C17_Advertise",
                      IF e.p \in PeersOf(Post.mesh, e.topic) THEN "to-mesh-peer"
                      ELSE IF e.p \in PeersOf(Post.fanout, e.topic) THEN "to-fanout-peer"
                      ELSE IF e.p \in Rng(Post.direct) THEN "to-direct-peer"
                      ELSE IF ~MeshCapable(e.p) THEN "to-peer-without-mesh-protocol"
                      ELSE IF ScoreOf(Post, e.p) < GossipThr THEN "to-peer-below-gossip-threshold"
                      ELSE "to-peer-not-in-topic", e.p, "", [topic |-> e.topic, score |-> ScoreOf(Post, e.p)])}
              ELSE {})
      \cup (IF Cardinality(w) <= cfg.maxIHaveLen /\ Rng(e.ids) \subseteq w /\ Rng(e.ids) # w
              THEN {V("P_C17_Advertise", "id-inside-gossip-window-not-advertised", e.p, CHOOSE m \in w \ Rng(e.ids) : TRUE,
                      [hb |-> hNew, ids |-> e.ids, window |-> w])} ELSE {})
      : e \in Entries}
    \cup UNION {
      LET want == IF Win(t) = {} THEN 0 ELSE Target(Cardinality(Cands(t))) IN
      IF Cardinality(Recipients(t)) # want
        THEN {V("P_C17_Advertise", "number-of-recipients", "", "",
                [topic |-> t, recipients |-> Recipients(t), cands |-> Cands(t), want |-> want, window |-> Win(t), hb |-> hNew])}
        ELSE {}
      : t \in GossipTopics}
AdvTags ==
    LET ts == {t \in GossipTopics : Cands(t) # {}} IN
    (IF \E e \in Entries : \E m \in Rng(e.ids) : m \in DOMAIN putHb' /\ hNew - putHb'[m] = 1 THEN {"adv_first"} ELSE {})
    \cup (IF \E e \in Entries : \E m \in Rng(e.ids) : m \in DOMAIN putHb' /\ hNew - putHb'[m] = cfg.G THEN {"adv_last"} ELSE {})
    \cup (IF \E t \in ts : \E m \in DOMAIN putHb' : topicOf'[m] = t /\ hNew - putHb'[m] = cfg.G + 1 /\ cfg.G < cfg.H
                                                    /\ ~\E e \in Entries : m \in Rng(e.ids) THEN {"adv_stopped"} ELSE {})
    \cup (IF \E t \in ts : Cardinality(Win(t)) > cfg.maxIHaveLen THEN {"adv_truncated"} ELSE {})
    \cup (IF \E t \in ts : Win(t) # {} /\ Cardinality(Cands(t)) > Target(Cardinality(Cands(t))) THEN {"adv_subset"} ELSE {})
    \cup (IF \E t \in GossipTopics : Win(t) # {} /\ \E p \in PeersOf(Post.topics, t) :
               p \notin PeersOf(Post.mesh, t) /\ MeshCapable(p) /\ ScoreOf(Post, p) < GossipThr THEN {"adv_low_score_excluded"} ELSE {})
    \cup (IF \E t \in GossipTopics : Win(t) # {} /\ PeersOf(Post.topics, t) \cap Rng(Post.direct) # {} THEN {"adv_direct_excluded"} ELSE {})
    \cup (IF \E t \in GossipTopics : Win(t) # {} /\ \E p \in PeersOf(Post.topics, t) : p \in DOMAIN Post.gsPeers /\ ~MeshCapable(p)
            THEN {"adv_flood_excluded"} ELSE {})
    \cup (IF \E t \in GossipTopics : Win(t) # {} /\ PeersOf(Post.mesh, t) # {} /\ Cands(t) # {} THEN {"adv_mesh_excluded"} ELSE {})

----------------------------------------------------------------------------
\* P_C17_Promise: growth of the behaviour penalty at a heartbeat
\* (Slack: tolerance for the exact phase of the heartbeat timer; stimuli keep at least 50 ms away from heartbeats)
Slack == 50
Eligible(p) == {a \in asks : a.p = p /\ a.open # {} /\ T - HbMs - Slack <= a.tau + cfg.followupMs /\ a.tau + cfg.followupMs <= T + Slack}
Grow(p) == IF p \in DOMAIN Post.pen /\ p \in DOMAIN Pre.pen THEN Post.pen[p] - Pre.pen[p] ELSE 0
PromiseViol ==
    UNION {IF Grow(p) > Cardinality(Eligible(p))
             THEN {V("P_C17_Promise", "penalty-without-broken-promise", p, "",
                     [grow |-> Grow(p), hbAt |-> T, asks |-> {[tau |-> a.tau, ids |-> a.ids, open |-> a.open] : a \in {x \in asks : x.p = p}}])}
             ELSE {} : p \in DOMAIN Post.pen}
PromiseTags ==
    LET due == {a \in asks : T - HbMs < a.tau + cfg.followupMs /\ a.tau + cfg.followupMs < T} IN
    (IF \E p \in DOMAIN Post.pen : Grow(p) > 0 THEN {"promise_broken"} ELSE {})
    \cup (IF \E a \in due : a.open = {} /\ Grow(a.p) = 0 /\ a.by \ {a.p} # {} THEN {"promise_kept_third"} ELSE {})
    \cup (IF \E a \in due : a.open = {} /\ Grow(a.p) = 0 /\ a.p \in a.by THEN {"promise_kept_promiser"} ELSE {})
    \* the requested message entered validation in time but is still being validated at this heartbeat
    \cup (IF \E a \in due : a.open = {} /\ Grow(a.p) = 0 /\ \E m \in a.ids : m \in seen /\ m \notin DOMAIN putHb
            THEN {"promise_kept_validating"} ELSE {})

----------------------------------------------------------------------------
Viols ==
    IF IsHb THEN AdvViol \cup PromiseViol \cup TableViol \cup IDWOutViol \cup UnsolicitedViol
    ELSE UNION {ServeViol(i) : i \in IWantRecvs} \cup UNION {AskViol(i) : i \in IHaveRecvs} \cup UnsolicitedViol
         \cup UNION {IDWInViol(i) : i \in IDWRecvs} \cup TableViol \cup IDWOutViol
Tags ==
    IF IsHb THEN AdvTags \cup PromiseTags \cup ExpiryTags
    ELSE UNION {ServeTags(i) : i \in IWantRecvs} \cup UNION {AskTags(i) : i \in IHaveRecvs}
         \cup UNION {IDWInTags(i) : i \in IDWRecvs} \cup IDWOutTags
Evals ==
    IF IsHb THEN Cardinality(Entries) + Cardinality(GossipTopics) + Cardinality({p \in DOMAIN Post.pen : Grow(p) > 0})
    ELSE Cardinality(UNION {{<<i, m>> : m \in Rng(Flat(ev[i].rpc.iwant))} : i \in IWantRecvs}) + Cardinality(IHaveRecvs)
         + Cardinality(IDWRecvs) + Cardinality(IDWOuts)
         + Cardinality({i \in Recvs : ev[i].rpc.msgs # <<>>})

Report ==
    /\ \A v \in Viols : PrintT(<<"VIOL", ToJson([scn |-> scn, line |-> l, i |-> E.i, act |-> E.act.a, t |-> E.t,
                                                pred |-> v.pred, what |-> v.what, p |-> v.p, m |-> v.m, info |-> v.info])>>)
    /\ IF Tags # {} \/ Evals > 0
         THEN PrintT(<<"HIT", ToJson([scn |-> scn, line |-> l, tags |-> Tags, evals |-> Evals])>>) ELSE TRUE

----------------------------------------------------------------------------
TInit == /\ TLCSet(1, 0) /\ l = 1 /\ scn = -1 /\ cfg = [hbMs |-> 1000] /\ hb0 = 100
         /\ putHb = Emp /\ topicOf = Emp /\ seen = {} /\ served = Emp /\ reqs = Emp /\ dwAt = Emp /\ dwAny = Emp
         /\ ctl = Emp /\ idwSeen = Emp /\ askedIn = Emp /\ honoured = Emp /\ idwEff = Emp
         /\ asks = {} /\ flags = {}

TReset ==
    /\ More /\ E.act.a = "reset"
    /\ scn' = E.scn /\ cfg' = E.act.cfg /\ hb0' = E.t + 100
    /\ putHb' = Emp /\ topicOf' = Emp /\ seen' = {} /\ served' = Emp /\ reqs' = Emp /\ dwAt' = Emp /\ dwAny' = Emp
    /\ ctl' = Emp /\ idwSeen' = Emp /\ askedIn' = Emp /\ honoured' = Emp /\ idwEff' = Emp
    /\ asks' = {} /\ flags' = {}
    /\ l' = l + 1

Bump(f, keys) == [k \in DOMAIN f \cup keys |-> Get(f, k, 0) + (IF k \in keys THEN 1 ELSE 0)]
Drop(f, ps) == [k \in {x \in DOMAIN f : x[1] \notin ps} |-> f[k]]

TStep ==
    /\ More /\ E.act.a # "reset"
    /\ UNCHANGED <<scn, cfg, hb0>>
    \* monitors from the events of this step
    /\ putHb' = [m \in DOMAIN putHb \cup {ev[i].m : i \in PutNow} |->
                    IF m \in DOMAIN putHb THEN putHb[m]
                    ELSE HbN(ev[CHOOSE i \in PutNow : ev[i].m = m].t)]
    /\ topicOf' = [m \in DOMAIN topicOf \cup {ev[i].m : i \in PutNow} |->
                    IF m \in DOMAIN topicOf THEN topicOf[m]
                    ELSE ev[CHOOSE i \in PutNow : ev[i].m = m].topic]
    /\ seen' = seen \cup SeenNow
    /\ LET iw == {<<ev[i].p, m>> : i \in IWantRecvs, m \in UNION {Rng(Flat(ev[j].rpc.iwant)) : j \in IWantRecvs}} IN
       /\ served' = [k \in DOMAIN served \cup {x \in iw : CopiesTo(x[1], x[2]) > 0} |->
                       Get(served, k, 0) + (IF k \in iw THEN CopiesTo(k[1], k[2]) ELSE 0)]
       /\ reqs' = [k \in DOMAIN reqs \cup iw |->
                       Get(reqs, k, 0) + (IF k \in iw
                                            THEN Occ(Flat(ev[CHOOSE i \in IWantRecvs : ev[i].p = k[1]].rpc.iwant), k[2]) ELSE 0)]
    /\ LET must == UNION {{<<ev[i].p, m>> : m \in MustEff(i)} : i \in IDWRecvs}
           any  == UNION {{<<ev[i].p, m>> : m \in Rng(Flat(ev[i].rpc.idontwant))} : i \in IDWRecvs}
           d1 == Drop(dwAt, DownNow)
           d2 == Drop(dwAny, DownNow) IN
       /\ dwAt' = [k \in DOMAIN d1 \cup must |-> IF k \in must THEN h ELSE d1[k]]
       /\ dwAny' = [k \in DOMAIN d2 \cup any |-> IF k \in any THEN h ELSE d2[k]]
    /\ IF IsHb
         THEN ctl' = Emp /\ idwSeen' = Emp /\ askedIn' = Emp /\ honoured' = Emp /\ idwEff' = Emp
         ELSE /\ ctl' = Bump(ctl, {ev[i].p : i \in {j \in Recvs : HasCtl(ev[j].rpc)}})
              /\ idwSeen' = Bump(idwSeen, {ev[i].p : i \in IDWRecvs})
              /\ askedIn' = [p \in DOMAIN askedIn \cup {ev[j].p : j \in IWantOuts} |-> Get(askedIn, p, 0) + Len(AskedSeq(p))]
              /\ honoured' = Bump(honoured, {ev[j].p : j \in IWantOuts})
              /\ idwEff' = Bump(idwEff, {ev[i].p : i \in {j \in IDWRecvs : AcceptsFrom(ev[j].p)}})
    /\ LET fulfilled == {[a EXCEPT !.open = @ \ FulfilNow,
                                   !.by = @ \cup {ev[i].via : i \in {j \in MsgEvs({"Validate", "Deliver", "Reject"}) : ev[j].m \in a.open}}]
                            : a \in asks}
           new == {[p |-> ev[j].p, tau |-> ev[j].t, n |-> ev[j].n, ids |-> Rng(Flat(ev[j].rpc.iwant)),
                    open |-> Rng(Flat(ev[j].rpc.iwant)), by |-> {}] : j \in IWantOuts}
           keep == IF IsHb THEN {a \in fulfilled : a.tau + cfg.followupMs >= T - Slack} ELSE fulfilled IN
       asks' = keep \cup new
    /\ flags' = flags
                \cup {<<"cappedlen", ev[i].p>> : i \in {j \in IHaveRecvs : AskedSeq(ev[j].p) = <<>> /\ AdvJoinedFirstK(j) \ seen # {}
                                                                   /\ ScoreOf(Pre, ev[j].p) >= GossipThr
                                                                   /\ Get(askedIn, ev[j].p, 0) >= cfg.maxIHaveLen}}
                \cup {<<"cappedmsgs", ev[i].p>> : i \in {j \in IHaveRecvs : AskedSeq(ev[j].p) = <<>> /\ AdvJoinedFirstK(j) \ seen # {}
                                                                   /\ ScoreOf(Pre, ev[j].p) >= GossipThr
                                                                   /\ Get(askedIn, ev[j].p, 0) < cfg.maxIHaveLen
                                                                   /\ Get(ctl, ev[j].p, 0) >= cfg.maxIHaveMsgs}}
                \cup {<<"cappedidw", ev[i].p>> : i \in {j \in IDWRecvs : NewEff(ev[j].p) = {} /\ Get(idwSeen, ev[j].p, 0) >= cfg.maxIDWMsgs}}
    /\ Report
    /\ l' = l + 1

TNext == TReset \/ TStep
TraceSpec == TInit /\ [][TNext]_tvars

\* high-water mark of the cursor (needs -workers 1)
HW == IF TLCGet(1) < l THEN TLCSet(1, l) ELSE TRUE
Accepted == PrintT(<<"HW", TLCGet(1), Len(Trace) + 1>>)
=============================================================================
