\* scenario generation, family `serve` (quick bounds)
\* (the orchestrator bin/lib/props/c17_router.py generates the same text; this copy is for stand-alone runs:
\*  cd spec/gossip && tlc -config GenGossip.cfg GenGossip.tla)
SPECIFICATION GSpec
CONSTANTS
  Peers = {"p1", "p2", "p3"}
  Ids = {"m1"}
  SelfIds = {}
  Big = {"m1"}
  Mesh = {"p1"}
  Direct = {}
  V12 = {"p1", "p3"}
  Flood = {}
  H = 3
  G = 2
  Retx = 2
  MaxIHaveLen = 2
  MaxIHaveMsgs = 2
  MaxIDWLen = 2
  MaxIDWMsgs = 2
  IDWTTL = 2
  FollowUpHb = 2
  Dlazy = 1
  FactorPct = 50
  GossipThr <- ThrM2
  MaxHb = 6
  MaxStim = 3
  AccArgs <- Acc_serve
  IHaveArgs <- NoArgs
  IWantArgs <- IWant_serve
  IDWArgs <- NoArgs
  ScoreArgs <- NoArgs
  Bug = {}
  L = 8
INVARIANT Emit
VIEW GenView
CHECK_DEADLOCK FALSE
