\* seeded defect IDWLenPerEntry (MaxIDontWantLength budget restarted per IDONTWANT entry of one RPC): MUST violate A_IDontWantIn
\* (the orchestrator bin/lib/props/c17_router.py generates the same text; this copy is for stand-alone runs:
\*  cd spec/gossip && tlc -config MCGossipBugIDWLenPerEntry.cfg MCGossip.tla)
SPECIFICATION Spec
CONSTANTS
  Peers = {"p1", "p2", "p3"}
  Ids = {"m1", "m2"}
  SelfIds = {}
  Big = {"m1"}
  Mesh = {"p1", "p3"}
  Direct = {}
  V12 = {"p1", "p2"}
  Flood = {}
  H = 3
  G = 2
  Retx = 2
  MaxIHaveLen = 2
  MaxIHaveMsgs = 2
  MaxIDWLen = 1
  MaxIDWMsgs = 2
  IDWTTL = 2
  FollowUpHb = 2
  Dlazy = 1
  FactorPct = 50
  GossipThr <- ThrM2
  MaxHb = 3
  MaxStim = 2
  AccArgs <- Acc_idw
  IHaveArgs <- NoArgs
  IWantArgs <- IWant_idw
  IDWArgs <- IDW_idw
  ScoreArgs <- NoArgs
  Bug = {"IDWLenPerEntry"}
INVARIANT P_C17_IDontWantIn
PROPERTY A_Serve
PROPERTY A_Advertise
PROPERTY A_Ask
PROPERTY A_IDontWantIn
PROPERTY A_IDontWantOut
PROPERTY A_Promise
VIEW View
CHECK_DEADLOCK FALSE
