\* seeded defect AdvertiseWholeHistory: MUST violate A_Advertise (non-vacuity)
\* (the orchestrator bin/lib/props/c17_router.py generates the same text; this copy is for stand-alone runs:
\*  cd spec/gossip && tlc -config MCGossipBugAdvertiseWholeHistory.cfg MCGossip.tla)
SPECIFICATION Spec
CONSTANTS
  Peers = {"p1", "p2", "p3"}
  Ids = {"m1", "m2", "m3"}
  SelfIds = {"m3"}
  Big = {"m1"}
  Mesh = {"p1"}
  Direct = {}
  V12 = {"p1", "p3"}
  Flood = {}
  H = 3
  G = 2
  Retx = 2
  MaxIHaveLen = 2
  MaxIHaveMsgs = 2
  MaxIDWLen = 2
  MaxIDWMsgs = 2
  IDWTTL = 2
  FollowUpHb = 2
  Dlazy = 1
  FactorPct = 50
  GossipThr <- ThrM2
  MaxHb = 5
  MaxStim = 2
  AccArgs <- Acc_adv
  IHaveArgs <- NoArgs
  IWantArgs <- NoArgs
  IDWArgs <- NoArgs
  ScoreArgs <- Score_adv
  Bug = {"AdvertiseWholeHistory"}
INVARIANT P_C17_IDontWantIn
PROPERTY A_Serve
PROPERTY A_Advertise
PROPERTY A_Ask
PROPERTY A_IDontWantIn
PROPERTY A_IDontWantOut
PROPERTY A_Promise
VIEW View
CHECK_DEADLOCK FALSE
