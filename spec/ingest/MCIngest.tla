------------------------------ MODULE MCIngest ------------------------------
(* Exhaustive model-checking configurations of Ingest (C02 pipeline part, C04). *)
EXTENDS Ingest

\* validator layouts: nv validators, any subset inline, one global token or two, own throttle 1
Layouts(nvs, gthrs, signeds, subsets, relays) ==
    { [nv |-> n, inl |-> i, tmo |-> {}, gthr |-> g, vthr |-> 1, tv1 |-> 0, tv2 |-> 0, signed |-> sg, subs |-> ss, relay |-> rl] :
        n \in nvs, i \in SUBSET (1..NVmax), g \in gthrs, sg \in signeds, ss \in subsets, rl \in relays }

Fits(S) == {c \in S : c.inl \subseteq 1..c.nv}

\* DESIGN C02: validators {1 inline, 2 async}, signed messages, one subscription
CfgC02 == { [nv |-> 3, inl |-> {1}, tmo |-> {}, gthr |-> 1, vthr |-> 1, tv1 |-> 0, tv2 |-> 0, signed |-> TRUE, subs |-> Subs, relay |-> FALSE] }
\* DESIGN C04: every layout of up to NVmax validators, global throttle 1 and 2
CfgC04 == Fits(Layouts(0..NVmax, {1, 2}, {TRUE}, {Subs}, {FALSE}))
\* the path without validation (unsigned, no validators), relay only, not interested
CfgLoop == Fits(Layouts({0}, {1}, {FALSE}, {Subs, {}}, {FALSE, TRUE}))
CfgOne(n, i, g) == { [nv |-> n, inl |-> i, tmo |-> {}, gthr |-> g, vthr |-> 1, tv1 |-> 0, tv2 |-> 0, signed |-> TRUE, subs |-> Subs, relay |-> FALSE] }
CfgBugA == CfgOne(2, {1}, 1)        \* one inline + one asynchronous validator
CfgBugB == CfgOne(2, {}, 2)         \* two asynchronous validators
\* two ids in the pipeline together: global throttle, per-validator throttle (orphans), full queue
CfgTwo == CfgOne(2, {1}, 1) \cup CfgOne(2, {}, 2)
CfgTwoAll == CfgTwo \cup CfgOne(2, {}, 1) \cup CfgOne(2, {1, 2}, 1) \cup CfgOne(2, {2}, 2)
\* two topics with their own validators next to d default validators (validators d+1, d+2), all inline or all asynchronous
CfgTopics(ds) == UNION { { [nv |-> d + 2, inl |-> i, tmo |-> {}, gthr |-> 2, vthr |-> 2, tv1 |-> d + 1, tv2 |-> d + 2,
                              signed |-> TRUE, subs |-> Subs, relay |-> FALSE] : i \in {{}, 1..(d + 2)} } : d \in ds }
CfgTopics01 == CfgTopics({0, 1})
CfgTopics1  == CfgTopics({1})
CfgBugAB == CfgBugA \cup CfgOne(2, {}, 2)
CfgBugL == Fits(Layouts({0}, {1}, {FALSE}, {Subs}, {FALSE}))

\* monitors that no invariant needs beyond what the visible state already fixes are hidden
View == <<cfg, pipe, outs, valCalls, verdictOf, expect, finals, origin, copiesIn,
          [i \in Ids |-> {x \in qfull[i] : x[2]}]>>   \* copies dropped at a full queue before the id was seen are pure history

Sym == Permutations(Fwd) \cup Permutations(Workers)
=============================================================================
