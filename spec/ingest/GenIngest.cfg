\* How the orchestrator runs the generator (it writes GenRun.tla = GenIngest + the sampled configuration set GenCfgs):
\*   tlc -simulate num=2500 -depth 82 -seed <VERIF_SEED> -config GenIngest.cfg GenRun.tla
INIT GInit
NEXT GNext
CONSTANTS
  Fwd = {"p1", "p2"}
  Ids = {"m1", "m2", "n1"}
  T2Ids = {"n1"}
  LocalIds = {"m1", "m2"}
  Workers = {"w1", "w2"}
  Calls = {"c1", "c2"}
  Subs = {"s1", "s2"}
  NVmax = 5
  QCap = 2
  MaxDown = 1
  Modes = {"pub", "batch"}
  MaxBatch = 2
  MaxCopies = 3
  Verdicts = {"A", "R", "I", "U"}
  CfgSpace <- GenCfgs
  Bug = "none"
  L = 12
  MinEmit = 3
  MaxBlock = 2
  MaxAdv = 1
INVARIANT Emit
INVARIANT GenOK
CHECK_DEADLOCK FALSE
