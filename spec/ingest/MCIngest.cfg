\* The "verdicts" configuration of bin/lib/props/_ingest.py (mc_plan): one id, 2 copies + 1 local publish, every
\* layout of up to 3 validators, 4 verdict values.  The orchestrator generates the other configurations
\* (two-ids, c02-races, loop-path, the seeded variants Bug = "markSeenLate" ... that MUST fail) from the same template.
SPECIFICATION Spec
CONSTANTS
  Fwd = {p1, p2}
  Ids = {m1}
  T2Ids = {}
  LocalIds = {m1}
  Workers = {w1, w2}
  Calls = {c1}
  Subs = {s1}
  NVmax = 3
  QCap = 2
  MaxDown = 0
  Modes = {"pub"}
  MaxBatch = 2
  MaxCopies = 2
  Verdicts = {"A", "R", "I", "U"}
  CfgSpace <- CfgC04
  Bug = "none"
VIEW View
SYMMETRY Sym
INVARIANT TypeOK
INVARIANT P_C02_DeliverOnce
INVARIANT P_C02_ValidateOnce
INVARIANT P_C02_LocalDup
INVARIANT P_C04_OnlyIfAllAccept
INVARIANT P_C04_Outcome
INVARIANT P_C04_Penalty
INVARIANT P_C04_Local
INVARIANT P_C04_Applicable
CHECK_DEADLOCK FALSE
