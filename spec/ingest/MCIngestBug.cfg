\* A seeded variant of the model that MUST fail (non-vacuity): markSeen moved after the inline validators
\* breaks P_C02_ValidateOnce.  Other values of Bug: noCarry, unknownAccept, penaliseIgnore, localSwallow,
\* dupErrReturned, ignoreOverThrottle, acceptOverrides, pushNoMark, noSeenCheck (see _ingest.py: mc_plan).
SPECIFICATION Spec
CONSTANTS
  Fwd = {p1, p2}
  Ids = {m1}
  T2Ids = {}
  LocalIds = {m1}
  Workers = {w1, w2}
  Calls = {c1}
  Subs = {s1}
  NVmax = 2
  QCap = 2
  MaxDown = 0
  Modes = {"pub"}
  MaxBatch = 2
  MaxCopies = 2
  Verdicts = {"A", "R", "I", "U"}
  CfgSpace <- CfgBugA
  Bug = "markSeenLate"
VIEW View
SYMMETRY Sym
INVARIANT P_C02_ValidateOnce
CHECK_DEADLOCK FALSE
