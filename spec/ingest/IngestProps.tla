---------------------------- MODULE IngestProps ----------------------------
(* The verdict algebra of C04, shared by the model (Ingest) and the trace
   specification (IngestTrace) so that both judge with the same definitions.

   Verdicts a validator may return: "A" Accept, "R" Reject, "I" Ignore, anything
   else ("U": an out-of-range value such as 7) counts as Ignore.  Outcomes of a
   message: "A" (delivered and forwarded), "R" (dropped, forwarders penalised),
   "T" (dropped: validation throttled), "I" (dropped: ignored).
   Precedence: Reject > throttled > Ignore > Accept.                          *)
EXTENDS Integers, FiniteSets

Rank(r) == CASE r = "A" -> 0 [] r = "I" -> 1 [] r = "T" -> 2 [] r = "R" -> 3
Max2(a, b) == IF Rank(a) >= Rank(b) THEN a ELSE b

\* the meaning of a validator's return value
SpecMap(vd) == IF vd \in {"A", "R", "I"} THEN vd ELSE "I"

\* the outcome prescribed by a set of consulted verdicts and the fact that something was throttled
Prescribed(verdicts, throttled) ==
    IF \E vd \in verdicts : SpecMap(vd) = "R" THEN "R"
    ELSE IF throttled THEN "T"
    ELSE IF \E vd \in verdicts : SpecMap(vd) = "I" THEN "I"
    ELSE "A"
=============================================================================
