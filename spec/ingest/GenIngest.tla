----------------------------- MODULE GenIngest -----------------------------
(* Scenario generator for C02 (pipeline part) and C04.

   The real node is driven by a harness whose validators BLOCK on gates, so after
   every stimulus the node runs until all of its goroutines are parked.  This
   module is Ingest under exactly that discipline: the internal actions
   (WorkerTake, WorkerSig, WorkerMarkSeen, WorkerFinish, AsyncStart, AsyncCombine,
   LoopPublish, LocalMarkSeen, LocalFinish, and the end of orphaned validators
   that honour cancellation) are EAGER - they have priority over stimuli - and the
   stimuli are what the driver can do:

     msg     a forwarder writes a copy                       (LoopArrive)
     rpc     a forwarder writes ONE RPC with several messages, possibly one of them twice
     rel     open the gate of a running validator with a verdict
                                                             (WorkerInline / AsyncDone / LocalInline / OrphanDone)
     adv     let virtual time pass the validator timeout: every running validator that has a
             timeout returns the verdict the scenario fixed   (the same, as AsyncTimeout)
     pub     Topic.Publish of an id (content-based id)       (LocalStart)
     badd / bpub   Topic.AddToBatch of an id / PubSub.PublishBatch of the batch
     down    a forwarder's connection closes (its score record is retained)
     block / unblock
             park a validation worker with an unrelated message whose signature is invalid
             (held inside the tracer callback, before the seen cache is touched): this is how
             two copies are made to sit in valQ together, i.e. the window between the
             seen-check and markSeen.

   The stimulus sequence `hist` is the scenario; at every drained state (nothing
   running, nothing queued) it is printed together with the outcome the model
   predicts (`exp`), which the orchestrator compares with what the real node did
   (disagreement = MODEL-DRIFT note, never a verdict).                         *)
EXTENDS Ingest, Json

CONSTANTS L,          \* maximal number of stimuli
          MinEmit,    \* shortest scenario worth emitting
          MaxBlock,   \* blockers per scenario
          MaxAdv      \* time advances per scenario (1: see the timeout arithmetic in the driver)

VARIABLES hist, firing, nblk, nadv, racy

gvars == <<vars, hist, firing, nblk, nadv, racy>>

Rec(o)   == hist' = Append(hist, o)
NoRec    == UNCHANGED hist
Keep     == UNCHANGED <<firing, nblk, nadv, racy>>

GInit == Init /\ hist = <<>> /\ firing = {} /\ nblk = 0 /\ nadv = 0 /\ racy = FALSE

\* ---------------------------------------------------------------- eager part
EagerEnabled ==
    \/ sendQ # <<>> \/ loopQ # <<>> \/ pendB # <<>>
    \/ \E w \in Workers : worker[w].st \in {"sig", "mark", "fin"} \/ (worker[w].st = "idle" /\ valQ # <<>>)
    \/ \E j \in jobs : j.stage = "new" \/ (j.stage = "run" /\ j.run = {})
    \/ \E c \in Calls : local[c].st \in {"mark", "fin"}
    \/ (~cfg.deaf /\ orphans # {})
    \/ firing # {}

\* a validator whose timeout fires returns the verdict vd; recorded inside the adv stimulus
Fire(x, vd) == /\ hist' = [hist EXCEPT ![Len(hist)].tv = Append(@, [v |-> x.v, m |-> x.id, r |-> vd])]
               /\ firing' = firing \ {x} /\ UNCHANGED <<nblk, nadv, racy>>

Eager ==
    \/ (LoopPush \/ LoopPublish \/ LoopBatch) /\ NoRec /\ Keep
    \/ \E w \in Workers : (WorkerTake(w) \/ WorkerSig(w) \/ WorkerMarkSeen(w) \/ WorkerFinish(w)) /\ NoRec /\ Keep
    \/ \E j \in jobs : AsyncCombine(j) /\ NoRec /\ Keep
    \/ \E j \in jobs : /\ AsyncStart(j) /\ NoRec /\ UNCHANGED <<firing, nblk, nadv>>
                        \* two jobs starting at once race for the per-validator tokens in the real node
                        /\ racy' = (racy \/ Cardinality({k \in jobs : k.stage = "new"}) > 1)
    \/ \E c \in Calls : (LocalMarkSeen(c) \/ LocalFinish(c)) /\ NoRec /\ Keep
    \/ ~cfg.deaf /\ \E o \in orphans : OrphanDone(o) /\ NoRec /\ Keep
    \/ \E x \in firing, vd \in Verdicts :
         /\ Fire(x, vd)
         /\ CASE x.kind = "w" -> \E w \in Workers : worker[w].st = "inline" /\ worker[w].id = x.id /\ InlineOf(worker[w].tv)[worker[w].k] = x.v /\ WorkerInline(w, vd)
              [] x.kind = "j" -> \E j \in jobs : j.id = x.id /\ AsyncTimeout(j, x.v, vd)
              [] x.kind = "c" -> \E c \in Calls : local[c].st = "inline" /\ local[c].id = x.id /\ AllOf(local[c].id)[local[c].k] = x.v /\ LocalInline(c, vd)
              [] x.kind = "o" -> OrphanDone([v |-> x.v, id |-> x.id])

\* ---------------------------------------------------------------- stimuli
Running ==   \* validators parked at their gate
    {[kind |-> "w", v |-> InlineOf(worker[w].tv)[worker[w].k], id |-> worker[w].id] : w \in {u \in Workers : worker[u].st = "inline"}}
    \cup UNION {{[kind |-> "j", v |-> v, id |-> j.id] : v \in j.run} : j \in {k \in jobs : k.stage = "run"}}
    \cup {[kind |-> "c", v |-> AllOf(local[c].id)[local[c].k], id |-> local[c].id] : c \in {d \in Calls : local[d].st = "inline"}}
    \cup {[kind |-> "o", v |-> o.v, id |-> o.id] : o \in orphans}

Send(p, id) == LoopArrive(p, <<id>>) /\ Rec([a |-> "msg", p |-> p, m |-> id]) /\ Keep
\* one RPC whose Publish list carries several messages, possibly the same one twice
\* (the messages of one RPC reach the queue while the workers already take from it, and two workers then run at
\* once: queue-full and the throttles are decided by the Go scheduler in the real node, so no prediction is compared)
SendBatch(p, b) == /\ Len(b) > 1 /\ LoopArrive(p, b) /\ Rec([a |-> "rpc", p |-> p, ms |-> b])
                   /\ racy' = (racy \/ cfg.nv > 0 \/ cfg.signed)
                   /\ UNCHANGED <<firing, nblk, nadv>>

Rel ==
    \/ \E w \in Workers, vd \in Verdicts :
         /\ worker[w].st = "inline"
         /\ Rec([a |-> "rel", v |-> InlineOf(worker[w].tv)[worker[w].k], m |-> worker[w].id, r |-> vd])
         /\ WorkerInline(w, vd) /\ Keep
    \/ \E j \in jobs, v \in 1..NVmax, vd \in Verdicts :
         /\ AsyncDone(j, v, vd) /\ Rec([a |-> "rel", v |-> v, m |-> j.id, r |-> vd]) /\ Keep
    \/ \E c \in Calls, vd \in Verdicts :
         /\ local[c].st = "inline"
         /\ Rec([a |-> "rel", v |-> AllOf(local[c].id)[local[c].k], m |-> local[c].id, r |-> vd])
         /\ LocalInline(c, vd) /\ Keep
    \/ \E o \in orphans :      \* an orphan that ignored the cancellation; its verdict is read by nobody
         /\ OrphanDone(o) /\ Rec([a |-> "rel", v |-> o.v, m |-> o.id, r |-> "A"]) /\ Keep

Pub(c, id) == "pub" \in Modes /\ LocalStart(c, id, "pub") /\ Rec([a |-> "pub", m |-> id]) /\ Keep
\* Topic.AddToBatch of an id, PubSub.PublishBatch of what the batch holds, a forwarder's connection goes down
BAdd(c, id) == "batch" \in Modes /\ LocalStart(c, id, "batch") /\ Rec([a |-> "badd", m |-> id]) /\ Keep
BPub == BatchPublish /\ Rec([a |-> "bpub"]) /\ Keep
Down(p) == Disconnect(p) /\ Rec([a |-> "down", p |-> p]) /\ Keep

BName(n) == "b" \o ToString(n)

Block(w) ==
    /\ nblk < MaxBlock /\ worker[w].st = "idle" /\ valQ = <<>> /\ cfg.signed   \* the blocker carries an invalid signature
    /\ worker' = [worker EXCEPT ![w] = [st |-> "parked", id |-> BName(nblk + 1), src |-> "-", k |-> 0, res |-> "A", tv |-> 0]]
    /\ nblk' = nblk + 1 /\ Rec([a |-> "block", m |-> BName(nblk + 1)])
    /\ UNCHANGED <<cfg, conn, batchQ, pendB, seen, sent, valQ, loopQ, jobs, gUsed, vUsed, orphans, sendQ, local, outs, mons, firing, nadv, racy>>

Unblock(w) ==
    /\ worker[w].st = "parked"
    /\ Rec([a |-> "unblock", m |-> worker[w].id])
    /\ worker' = [worker EXCEPT ![w] = Idle]
    /\ UNCHANGED <<cfg, conn, batchQ, pendB, seen, sent, valQ, loopQ, jobs, gUsed, vUsed, orphans, sendQ, local, outs, mons, firing, nblk, nadv, racy>>

Adv ==
    /\ nadv < MaxAdv
    /\ LET f == {x \in Running : x.v \in cfg.tmo} IN
         /\ f # {}
         /\ firing' = f /\ racy' = (racy \/ Cardinality(f) > 1)
    /\ nadv' = nadv + 1 /\ Rec([a |-> "adv", tv |-> <<>>])
    /\ UNCHANGED <<vars, nblk>>

Stimulus ==
    /\ Len(hist) < L
    /\ \/ \E p \in Fwd, id \in Ids : Send(p, id)
       \/ \E p \in Fwd, b \in Batches : SendBatch(p, b)
       \/ Rel
       \/ \E c \in Calls, id \in LocalIds : Pub(c, id) \/ BAdd(c, id)
       \/ BPub
       \/ \E p \in Fwd : Down(p)
       \/ \E w \in Workers : Block(w) \/ Unblock(w)
       \/ Adv

GNext == IF EagerEnabled THEN Eager ELSE Stimulus
GSpec == GInit /\ [][GNext]_gvars

\* ---------------------------------------------------------------- emission
Drained ==
    /\ ~EagerEnabled /\ Running = {} /\ valQ = <<>> /\ batchQ = <<>>
    /\ \A w \in Workers : worker[w].st = "idle"
    /\ \A c \in Calls : local[c].st \in {"idle", "ret"}

SetToSeq(S) == SortedSeq(S)

Exp == [ finals    |-> finals,
         delivered |-> [i \in Ids |-> [s \in Subs |-> delivered[s][i]]],
         forwarded |-> forwarded,
         pen       |-> [p \in Fwd |-> [i \in Ids |-> penalised[p][i]]],
         copies    |-> [p \in Fwd |-> [i \in Ids |-> copiesIn[p][i]]],
         calls     |-> [i \in Ids |-> [v \in 1..NVmax |-> valCalls[v][i]]],
         origin    |-> origin,
         expect    |-> expect,
         ret       |-> [c \in Calls |-> local[c].ret],
         racy      |-> racy ]

Emit == (Drained /\ Len(hist) >= MinEmit) =>
           PrintT(<<"SCN", ToJson([cfg |-> [nv |-> cfg.nv, inl |-> SortedSeq(cfg.inl), tmo |-> SortedSeq(cfg.tmo), gthr |-> cfg.gthr,
                                           vthr |-> cfg.vthr, tv1 |-> cfg.tv1, tv2 |-> cfg.tv2, signed |-> cfg.signed, subs |-> Cardinality(cfg.subs),
                                           relay |-> cfg.relay, deaf |-> cfg.deaf, workers |-> Cardinality(Workers), qcap |-> QCap],
                                   acts |-> hist, exp |-> Exp])>>)

\* the model's own properties hold on everything it generates (a failure here is a machinery problem)
GenOK == P_C02_DeliverOnce /\ P_C02_ValidateOnce /\ P_C02_LocalDup /\ P_C04_OnlyIfAllAccept /\ P_C04_Applicable /\ P_C04_Outcome /\ P_C04_Penalty /\ P_C04_Local
=============================================================================
