---------------------------- MODULE IngestTrace ----------------------------
(* Trace specification for the in-node pipeline (C02 pipeline part, C04).

   The file is a concatenation of scenarios recorded from the REAL node by
   harness/drivers/ingest (projected by the orchestrator from the world step
   lines: one line per step, first a reset line).  Everything the predicates use
   is an OBSERVATION of the real code:

     ev      tracer events of the step (Validate / Deliver / Reject+reason / Duplicate, with `via`)
     val     validator calls and returns logged by the harness validators
             (the verdicts are inputs of the scenario; they are recorded when returned)
     fwd     messages written to fake peers,  ih  ids announced in IHAVE
     dl      Subscription.Next results,       pr  return values of Topic.Publish
     pen     per-peer invalid-message-delivery counters (score state)

   Worker-thread events are not ordered with respect to event-loop events: the
   predicates use only per-scenario bags, plus "happened in an EARLIER step" (steps
   are separated by quiescence), never the order inside a step.

   The walk is deterministic (one cursor); a failing predicate prints
   <<"VIOL", json>> and the walk goes on.  The predicates are evaluated at the
   `end` line of each scenario, the per-step penalty rule at every line.      *)
EXTENDS Integers, Sequences, FiniteSets, TLC, Json

Trace == ndJsonDeserialize("trace.ndjson")

VARIABLES l,        \* cursor
          scn, cfg, msgs, peers, subs, subs2, t2,     \* current scenario (subs2 / t2: subscriptions and message names of the second topic)
          evs, vals, fwds, ihs, dls, prs, acts,   \* accumulated observations (each record carries its step s)
          pen       \* latest counters: sequence of [p, n]

tvars == <<l, scn, cfg, msgs, peers, subs, subs2, t2, evs, vals, fwds, ihs, dls, prs, acts, pen>>

P == INSTANCE IngestProps

E == Trace[l]
More == l <= Len(Trace)
Adv == l' = l + 1

Range(s) == {s[i] : i \in DOMAIN s}
Count(s, T(_)) == Cardinality({i \in DOMAIN s : T(s[i])})
SetSum(S, F(_)) == LET RECURSIVE Sm(_)
                       Sm(X) == IF X = {} THEN 0 ELSE LET x == CHOOSE y \in X : TRUE IN F(x) + Sm(X \ {x})
                   IN Sm(S)

VName(r) == IF r = 0 THEN "A" ELSE IF r = 1 THEN "R" ELSE IF r = 2 THEN "I" ELSE "U"

TInit == /\ TLCSet(1, 0) /\ l = 1 /\ scn = -1 /\ cfg = [nv |-> 0, tv1 |-> 0, tv2 |-> 0, nsubs |-> 0, score |-> FALSE]
         /\ msgs = {} /\ peers = {} /\ subs = {} /\ subs2 = {} /\ t2 = {}
         /\ evs = <<>> /\ vals = <<>> /\ fwds = <<>> /\ ihs = <<>> /\ dls = <<>> /\ prs = <<>> /\ acts = <<>> /\ pen = <<>>

TReset ==
    /\ More /\ E.a = "reset"
    /\ scn' = E.scn /\ cfg' = E.cfg /\ msgs' = Range(E.msgs) /\ peers' = Range(E.peers) /\ subs' = Range(E.subs) /\ subs2' = Range(E.subs2) /\ t2' = Range(E.t2)
    /\ evs' = <<>> /\ vals' = <<>> /\ fwds' = <<>> /\ ihs' = <<>> /\ dls' = <<>> /\ prs' = <<>> /\ acts' = <<>>
    /\ pen' = E.pen /\ Adv

Report(pred, m, what, info) ==
    PrintT(<<"VIOL", ToJson([scn |-> scn, line |-> l, pred |-> pred, m |-> m, what |-> what, info |-> info])>>)

\* ------------------------------------------------------------------ per-message observations (at `end`)
\* the validators that apply to m: every default validator plus the validator of m's OWN topic
\* (cfg.tv1 / cfg.tv2 = number of the validator registered for the first / second topic, 0 = none)
Appl(m)   == ((1..cfg.nv) \ {cfg.tv1, cfg.tv2}) \cup ({IF m \in t2 THEN cfg.tv2 ELSE cfg.tv1} \ {0})
SubsOf(m) == IF m \in t2 THEN subs2 ELSE subs
Calls(v, m)     == Count(vals, LAMBDA x : x.e = "call" /\ x.v = v /\ x.m = m)
NCalls(m)       == Count(vals, LAMBDA x : x.e = "call" /\ x.m = m)
NRets(m)        == Count(vals, LAMBDA x : x.e = "ret" /\ x.m = m)
Finished(m)     == NCalls(m) = NRets(m)
Verdicts(m)     == {VName(x.r) : x \in {y \in Range(vals) : y.e = "ret" /\ y.m = m /\ y.how # "cancel"}}
LocalVerdicts(m) == {VName(x.r) : x \in {y \in Range(vals) : y.e = "ret" /\ y.m = m /\ y.local}}
NEv(k, m)       == Count(evs, LAMBDA x : x.k = k /\ x.m = m)
RemotePass(m)   == \E x \in Range(evs) : x.k = "Validate" /\ x.m = m
LocalPass(m)    == \/ \E x \in Range(vals) : x.e = "call" /\ x.m = m /\ x.local
                   \/ Appl(m) = {} /\ \E x \in Range(evs) : x.m = m /\ x.self /\ x.k \in {"Deliver", "Reject"}
Skipped(m)      == \E v \in Appl(m) : Calls(v, m) = 0          \* an applicable validator that was never invoked
AnyReject(m)    == "R" \in Verdicts(m)
Prescribed(m)   == P!Prescribed(Verdicts(m), Skipped(m))

Reason(r) == IF r = "validation failed" THEN "R" ELSE IF r = "validation ignored" THEN "I"
             ELSE IF r = "validation throttled" THEN "T" ELSE "-"
ObsFinals(m) == {"A" : x \in {y \in Range(evs) : y.k = "Deliver" /\ y.m = m}}
                \cup ({Reason(x.reason) : x \in {y \in Range(evs) : y.k = "Reject" /\ y.m = m}} \ {"-"})

NDeliv(sb, m) == Count(dls, LAMBDA x : x.sub = sb /\ x.m = m)
NFwd(m)       == Count(fwds, LAMBDA x : x.m = m)
NFwdTo(p, m)  == Count(fwds, LAMBDA x : x.m = m /\ x.p = p)
NIHave(m)     == Count(ihs, LAMBDA x : x.m = m)
OutN(m)       == Count(dls, LAMBDA x : x.m = m) + NFwd(m) + NIHave(m)

\* step at which m entered validation (remote copy), 0 if never
ValStep(m) == IF RemotePass(m) THEN (CHOOSE x \in Range(evs) : x.k = "Validate" /\ x.m = m).s ELSE 0

\* copies of m written by p that reached the delivery record: the first copy and every duplicate
Processed(p, m) ==
    Count(evs, LAMBDA x : x.m = m /\ x.via = p /\ x.k \in {"Validate", "Duplicate"})
    + (IF RemotePass(m) THEN 0 ELSE Count(evs, LAMBDA x : x.m = m /\ x.via = p /\ x.k = "Deliver" /\ ~x.self))
\* copies dropped because the queue was full although the id was already in the seen cache
LateQFull(p, m) ==
    IF ~RemotePass(m) THEN 0
    ELSE Count(evs, LAMBDA x : x.m = m /\ x.via = p /\ x.k = "Reject" /\ x.reason = "validation queue full" /\ x.s > ValStep(m))

SeenBefore(m, s) ==
    \/ \E x \in Range(evs) : x.m = m /\ x.s < s /\ x.k \in {"Validate", "Deliver", "Duplicate"}
    \/ \E x \in Range(vals) : x.m = m /\ x.s < s /\ x.e = "call"
    \/ \E x \in Range(prs) : x.m = m /\ x.s < s /\ x.err = ""

PubSteps(m) == {x.s : x \in {y \in Range(acts) : y.a \in {"pub", "badd"} /\ y.m = m}}   \* Topic.Publish / Topic.AddToBatch
PubRets(m)  == {x \in Range(prs) : x.m = m}

\* ------------------------------------------------------------------ the predicates
Judge(m) ==
    \* C02
    /\ \A sb \in subs \cup subs2 : IF NDeliv(sb, m) <= 1 THEN TRUE
                        ELSE Report("P_C02_DeliverOnce", m, "delivered more than once to one subscription", [sub |-> sb, n |-> NDeliv(sb, m)])
    /\ \A v \in 1..cfg.nv : IF Calls(v, m) <= 1 THEN TRUE
                            ELSE Report("P_C02_ValidateOnce", m, "validator invoked more than once for one id", [v |-> v, n |-> Calls(v, m)])
    /\ IF NEv("Validate", m) <= 1 THEN TRUE
       ELSE Report("P_C02_ValidateOnce", m, "id entered validation more than once", [v |-> 0, n |-> NEv("Validate", m)])
    /\ \A s \in PubSteps(m) :
         IF SeenBefore(m, s) => \E x \in PubRets(m) : x.s = s /\ x.err = "" THEN TRUE
         ELSE Report("P_C02_LocalDup", m, "Publish of an id already seen did not return nil at once",
                     [step |-> s, rets |-> {[s |-> x.s, err |-> x.err] : x \in PubRets(m)}])
    \* C04
    /\ \A v \in (1..cfg.nv) \ Appl(m) :
         IF Calls(v, m) = 0 THEN TRUE
         ELSE Report("P_C04_Applicable", m, "judged by a validator that does not apply to it (another topic's validator)",
                     [v |-> v, n |-> Calls(v, m), own |-> Appl(m)])
    /\ IF OutN(m) > 0 => (\A v \in Appl(m) : Calls(v, m) >= 1) /\ Verdicts(m) \subseteq {"A"} THEN TRUE
       ELSE Report("P_C04_OnlyIfAllAccept", m, "delivered / forwarded / announced although not every validator accepted",
                   [verdicts |-> Verdicts(m), skipped |-> Skipped(m), out |-> OutN(m)])
    /\ IF ((RemotePass(m) \/ LocalPass(m)) /\ Finished(m)) => ObsFinals(m) = {Prescribed(m)} THEN TRUE
       ELSE Report("P_C04_Outcome", m, "outcome differs from what the verdicts prescribe",
                   [prescribed |-> Prescribed(m), observed |-> ObsFinals(m), verdicts |-> Verdicts(m), skipped |-> Skipped(m)])
    /\ IF ((RemotePass(m) \/ LocalPass(m)) /\ Finished(m) /\ Prescribed(m) = "A")
            => (\A sb \in SubsOf(m) : NDeliv(sb, m) >= 1) /\ (cfg.obs => NFwd(m) >= 1) THEN TRUE
       ELSE Report("P_C04_Outcome", m, "accepted by every validator but not delivered to every subscription and forwarded",
                   [prescribed |-> "A", observed |-> ObsFinals(m), verdicts |-> Verdicts(m), skipped |-> FALSE])
    /\ IF (LocalPass(m) /\ Finished(m) /\ P!Prescribed(LocalVerdicts(m), Skipped(m)) # "A")
            => (\E x \in PubRets(m) : x.err # "") /\ OutN(m) = 0 THEN TRUE
       ELSE Report("P_C04_Local", m, "local publish failed validation but Publish returned nil or the message left the node",
                   [verdicts |-> LocalVerdicts(m), rets |-> {x.err : x \in PubRets(m)}, out |-> OutN(m)])

\* every forwarder of a rejected id is penalised, nobody else; never for more copies than were sent
Charge(p, m) == IF AnyReject(m) /\ RemotePass(m) THEN Processed(p, m) + LateQFull(p, m) ELSE 0
PenOf(p) == LET S == {x \in Range(pen) : x.p = p} IN IF S = {} THEN 0 ELSE (CHOOSE x \in S : TRUE).n
JudgePen(p) ==
    LET lo == SetSum(msgs, LAMBDA m : IF Charge(p, m) > 0 THEN 1 ELSE 0)
        hi == SetSum(msgs, LAMBDA m : Charge(p, m))
    IN IF (\E x \in Range(pen) : x.p = p) => (lo <= PenOf(p) /\ PenOf(p) <= hi) THEN TRUE   \* (incl. the retained record of a peer that left)
       ELSE Report("P_C04_Penalty", "*", "invalid-delivery counter of a peer outside what the rejected ids it forwarded prescribe",
                   [p |-> p, counter |-> PenOf(p), lo |-> lo, hi |-> hi,
                    rejected |-> {m \in msgs : AnyReject(m) /\ RemotePass(m)}])

\* a counter may move only in a step in which a rejection or a duplicate was traced
PenStep ==
    LET moved == {x.p : x \in {y \in Range(E.pen) : y.n # PenOf(y.p)}}
        cause == \E x \in Range(E.ev) : x.k = "Duplicate" \/ (x.k = "Reject" /\ x.reason = "validation failed")
    IN IF moved = {} \/ cause THEN TRUE
       ELSE Report("P_C04_Penalty", "*", "invalid-delivery counter moved in a step without a rejection or a duplicate",
                   [p |-> moved, counter |-> 0, lo |-> 0, hi |-> 0, rejected |-> {}])

TStep ==
    /\ More /\ E.a # "reset"
    /\ Adv /\ UNCHANGED <<scn, cfg, msgs, peers, subs, subs2, t2>>
    /\ evs' = evs \o E.ev /\ vals' = vals \o E.val /\ fwds' = fwds \o E.fwd /\ ihs' = ihs \o E.ih
    /\ dls' = dls \o E.dl /\ prs' = prs \o E.pr
    /\ acts' = Append(acts, [a |-> E.a, m |-> E.m, p |-> E.p, s |-> E.s])
    /\ (cfg.score => PenStep)
    /\ pen' = E.pen
    /\ IF E.a = "end"
         THEN /\ \A m \in msgs : Judge(m)'
              /\ (cfg.score => \A p \in peers : JudgePen(p)')
         ELSE TRUE

TNext == TReset \/ TStep
TraceSpec == TInit /\ [][TNext]_tvars

HW == IF TLCGet(1) < l THEN TLCSet(1, l) ELSE TRUE
Accepted == PrintT(<<"HW", TLCGet(1), Len(Trace) + 1>>)
=============================================================================
