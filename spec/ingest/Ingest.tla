------------------------------- MODULE Ingest -------------------------------
(* The inbound / outbound message pipeline of ONE go-libp2p-pubsub node, at the
   grain of the code's stages (pubsub.go: handleIncomingRPC / shouldPush /
   pushMsg / publishMessage; validation.go: Push / validateWorker / validate /
   doValidateTopic / validateTopic / validateSingleTopic / validateMsg /
   ValidateLocal; topic.go: Publish; score.go: ValidateMessage / DeliverMessage /
   RejectMessage / DuplicateMessage).  Shared by C02 (pipeline part) and C04;
   C03 / C16 / C20 extend it (signature classes, blacklist, seqno validator).

   One action per stage:

     LoopArrive(p, batch)  event loop: one RPC of forwarder p whose Publish list is `batch`
                           (a message may be repeated).  not subscribed and not relaying ->
                           ignored; shouldPush over the WHOLE list first: id already seen ->
                           duplicate; the rest waits in loopQ.
     LoopPush              pushMsg of the next one: to valQ when there are validators or a
                           signature (dropped when the queue is full), otherwise markSeen and,
                           only if the mark was fresh, publish at once.
     WorkerTake / WorkerSig / WorkerMarkSeen(w)
                           a validation worker takes the head of valQ, verifies the
                           signature, then atomically Adds the id to the seen cache: a
                           second copy is a duplicate HERE.
     WorkerInline(w, vd)   the next inline validator returns verdict vd (chosen by the
                           scenario).  Loop semantics of validate(): Reject breaks and
                           wins, Ignore sticks even if a later inline validator accepts.
     WorkerFinish(w)       Reject => drop + penalise; else, when there are asynchronous
                           validators, spawn them under the GLOBAL throttle or drop the
                           message as throttled; none: Ignore => drop, Accept => sendQ.
     AsyncStart(j)         doValidateTopic/validateTopic: every asynchronous validator
                           takes its OWN throttle token and is called, or counts as throttled
                           (DESIGN's AsyncRun(v) is folded in: a spawned validator is invoked
                           even when the job has ended meanwhile, so the instant of the call
                           is not observable apart from the call count).
     AsyncDone(j, v, vd) / AsyncTimeout(j, v, vd)
                           validator v of job j returns (in any order).  A Reject ends the
                           job at once (the others keep running as orphans, still holding
                           their per-validator token until OrphanDone).
     AsyncCombine(j)       all results in: Reject > throttled > Ignore > Accept, and the
                           inline result is carried in when the asynchronous one is Accept.
     LoopPublish           event loop: head of sendQ is delivered to every subscription and
                           forwarded.
     LocalStart / LocalMarkSeen / LocalInline / LocalFinish(c)
                           Topic.Publish on the caller's goroutine: (preprocess, signing
                           policy,) markSeen - a duplicate returns nil -, then ALL validators
                           run synchronously inline, then the message goes to sendQ and
                           Publish returns nil, or Publish returns the validation error.

   The peer-score bookkeeping that turns tracer callbacks into penalties (the
   per-id delivery record of score.go) is part of the model: `drec`, `penalised`.

   Monitors (never read by the machine): valCalls, verdictOf, expect (the outcome
   the PROPERTY prescribes given the verdicts consulted so far), finals (the
   outcomes the machine decided), origin, copiesIn, qfull.

   Not modelled here: expiry of the seen cache (`seen` is a set; the window is
   TimeCache.tla's subject and every scenario stays inside one window) and the
   signature / blacklist / self-origin filters of shouldPush (C03, C16).

   Bug = "none" is the code as it is.  The other values seed one defect each and
   exist for the configurations that MUST fail (non-vacuity), see MCIngest.     *)
EXTENDS Integers, Sequences, FiniteSets, TLC

CONSTANTS
    Fwd,        \* forwarding peers
    Ids,        \* message ids
    LocalIds,   \* ids that may also be published locally (content-based id function)
    T2Ids,      \* ids of messages on the SECOND topic (the others are on the first); each topic may have its own validator
    Workers,    \* validation workers
    Calls,      \* local Publish calls
    Subs,       \* subscription names
    NVmax,      \* validators are numbered 1..cfg.nv <= NVmax in registration order (defaults first, topic validator last)
    QCap,       \* capacity of the validation queue
    MaxCopies,  \* copies of one id that may arrive
    MaxDown,    \* forwarders that may disconnect (their score record is retained)
    Modes,      \* how a local call publishes: subset of {"pub", "batch"}  (Topic.Publish / Topic.AddToBatch + PubSub.PublishBatch)
    MaxBatch,   \* messages in one incoming RPC (its Publish list may repeat a message)
    Verdicts,   \* what a validator may return: subset of {"A","R","I","U"}  (U = out-of-range value, e.g. 7)
    CfgSpace,   \* the configurations explored (a set of cfg records, see MCIngest)
    Bug

VARIABLES
    cfg,        \* [nv, inl, tmo, gthr, vthr, signed, subs, relay, tv1, tv2]  - fixed per behaviour; tv1 / tv2 = number of the
                \* validator registered for topic 1 / 2 (0 = none; they come after the defaults), the others are default validators
    conn,       \* forwarders whose streams are up (a peer that left keeps its retained score record)
    batchQ,     \* the MessageBatch of the application: ids added by AddToBatch and not yet published
    pendB,      \* PublishBatch requests handed to the event loop and not yet handled (the channel holds one): sequences of ids
    seen,       \* set of ids in the seen cache (no expiry here: see TimeCache.tla)
    sent,       \* sent[id] = copies that have arrived so far
    valQ,       \* validation queue: sequence of [id, src, tv]  (tv = the topic validator captured by getValidators at Push)
    loopQ,      \* messages of the RPC being handled that passed shouldPush and await pushMsg: [id, src, late]
    worker,     \* worker[w] = [st, id, src, k, res, tv]
    jobs,       \* set of asynchronous validation jobs [id, src, inl, stage, run, acc, avals]
    gUsed,      \* tokens of the global validation throttle in use
    vUsed,      \* vUsed[v] = tokens of validator v's own throttle in use
    orphans,    \* validators still running for a job that already ended with Reject: [v, id]
    sendQ,      \* validated messages on their way to the event loop: [id, src, remote]
    local,      \* local[c] = [st, id, k, res, ret, dup, sq, mode]
    delivered,  \* delivered[s][id]  (bag per subscription)
    forwarded,  \* forwarded[id]     (times handed to the router)
    penalised,  \* penalised[p][id]  (bag per peer)
    drec,       \* score.go delivery record: drec[id] = [status, peers]
    valCalls, verdictOf, expect, finals, origin, copiesIn, qfull

pipe == <<conn, batchQ, pendB, seen, sent, valQ, loopQ, worker, jobs, gUsed, vUsed, orphans, sendQ, local>>
outs == <<delivered, forwarded, penalised, drec>>
mons == <<valCalls, verdictOf, expect, finals, origin, copiesIn, qfull>>
vars == <<cfg, pipe, outs, mons>>

-----------------------------------------------------------------------------
\* verdict algebra (shared with IngestTrace through IngestProps)

INSTANCE IngestProps

\* what validateMsg makes of a validator's return value
ImplMap(vd) == IF vd \in {"A", "R", "I"} THEN vd ELSE IF Bug = "unknownAccept" THEN "A" ELSE "I"

Cap3(n) == IF n > 3 THEN 3 ELSE n

RECURSIVE SortedSeq(_)
SortedSeq(S) == IF S = {} THEN <<>>
                ELSE LET m == CHOOSE x \in S : \A y \in S : x <= y IN <<m>> \o SortedSeq(S \ {m})

\* getValidators: all default validators plus the validator of the message's own topic
Defaults    == (1..cfg.nv) \ {cfg.tv1, cfg.tv2}
TvOf(id)    == IF id \in T2Ids THEN cfg.tv2 ELSE cfg.tv1
ValsWith(t) == Defaults \cup ({t} \ {0})
ValsOf(id)  == ValsWith(TvOf(id))
InlineOf(t) == SortedSeq(ValsWith(t) \cap cfg.inl)       \* what a worker holding a request with topic validator t runs inline
AsyncOf(t)  == ValsWith(t) \ cfg.inl
AllOf(id)   == SortedSeq(ValsOf(id))                      \* a local publish runs all of them inline, in registration order
Interested == cfg.subs # {} \/ cfg.relay

Idle  == [st |-> "idle", id |-> "-", src |-> "-", k |-> 0, res |-> "A", tv |-> 0]
LIdle == [st |-> "idle", id |-> "-", k |-> 0, res |-> "A", ret |-> "-", dup |-> FALSE, sq |-> FALSE, mode |-> "pub"]

-----------------------------------------------------------------------------
\* peer-score delivery records (score.go).  At most one of these per action.

ScoreNop == UNCHANGED <<drec, penalised>>

\* markInvalidMessageDelivery charges the retained record of a peer that has left as well (seeded defect
\* "frozenRetained": it does not)
Charged(p) == p \in conn \/ Bug # "frozenRetained"

\* peerScore.DuplicateMessage as a function of the score state st = [d, pn]
DupF(st, p, id) ==
    LET d == st.d[id] IN
    IF p \in d.peers THEN st
    ELSE IF d.status \in {"unknown", "valid"} THEN [st EXCEPT !.d[id].peers = @ \cup {p}]
    ELSE IF d.status = "invalid" THEN (IF Charged(p) THEN [st EXCEPT !.pn[p][id] = Cap3(@ + 1)] ELSE st)
    ELSE st                                          \* throttled / ignored: nothing

ScoreDup(p, id) ==
    LET r == DupF([d |-> drec, pn |-> penalised], p, id) IN drec' = r.d /\ penalised' = r.pn

ScoreReject(src, id, reason) ==                      \* peerScore.RejectMessage; reason: failed / ignored / throttled
    LET d   == drec[id]
        eff == IF reason = "ignored" /\ Bug = "penaliseIgnore" THEN "failed" ELSE reason IN
    IF d.status # "unknown" THEN ScoreNop
    ELSE IF eff = "failed"
      THEN /\ drec' = [drec EXCEPT ![id] = [status |-> "invalid", peers |-> {}]]
           /\ penalised' = [p \in Fwd |-> [i \in Ids |->
                  IF i = id /\ Charged(p) THEN Cap3(penalised[p][i] + (IF p = src THEN 1 ELSE 0) + (IF p \in d.peers THEN 1 ELSE 0))
                  ELSE penalised[p][i]]]
    ELSE drec' = [drec EXCEPT ![id] = [status |-> eff, peers |-> {}]] /\ UNCHANGED penalised

ScoreDeliver(id) ==                                  \* peerScore.DeliverMessage
    IF drec[id].status = "unknown"
      THEN drec' = [drec EXCEPT ![id].status = "valid"] /\ UNCHANGED penalised
      ELSE ScoreNop

\* publishMessage: every subscription gets it, the router forwards it
Deliver(id) ==
    /\ delivered' = [s \in Subs |-> [i \in Ids |-> IF i = id /\ s \in cfg.subs THEN Cap3(delivered[s][i] + 1) ELSE delivered[s][i]]]
    /\ forwarded' = [forwarded EXCEPT ![id] = Cap3(@ + 1)]

Counted(p, id) == copiesIn' = [copiesIn EXCEPT ![p][id] = Cap3(@ + 1)]

-----------------------------------------------------------------------------
Init ==
    /\ cfg \in CfgSpace
    /\ conn = Fwd /\ batchQ = <<>> /\ pendB = <<>>
    /\ seen = {} /\ sent = [i \in Ids |-> 0] /\ valQ = <<>> /\ loopQ = <<>>
    /\ worker = [w \in Workers |-> Idle]
    /\ jobs = {} /\ gUsed = 0 /\ vUsed = [v \in 1..NVmax |-> 0] /\ orphans = {}
    /\ sendQ = <<>> /\ local = [c \in Calls |-> LIdle]
    /\ delivered = [s \in Subs |-> [i \in Ids |-> 0]] /\ forwarded = [i \in Ids |-> 0]
    /\ penalised = [p \in Fwd |-> [i \in Ids |-> 0]]
    /\ drec = [i \in Ids |-> [status |-> "unknown", peers |-> {}]]
    /\ valCalls = [v \in 1..NVmax |-> [i \in Ids |-> 0]]
    /\ verdictOf = [v \in 1..NVmax |-> [i \in Ids |-> "-"]]
    /\ expect = [i \in Ids |-> "A"] /\ finals = [i \in Ids |-> {}]
    /\ origin = [i \in Ids |-> "-"]
    /\ copiesIn = [p \in Fwd |-> [i \in Ids |-> 0]]
    /\ qfull = [i \in Ids |-> {}]

-----------------------------------------------------------------------------
\* event loop, inbound

\* handleIncomingRPC: shouldPush runs over the WHOLE Publish list of the RPC before any pushMsg, so two copies
\* of one id inside one RPC both pass the seen-check; what passed waits in loopQ for LoopPush.
Occ(batch, id) == Cardinality({i \in DOMAIN batch : batch[i] = id})
KnownDup(id)   == id \in seen /\ Bug # "noSeenCheck"

RECURSIVE DupFold(_, _, _, _)
DupFold(st, p, batch, i) ==
    IF i > Len(batch) THEN st
    ELSE DupFold(IF KnownDup(batch[i]) THEN DupF(st, p, batch[i]) ELSE st, p, batch, i + 1)

LoopArrive(p, batch) ==
    /\ loopQ = <<>> /\ p \in conn
    /\ \A id \in Ids : sent[id] + Occ(batch, id) <= MaxCopies
    /\ sent' = [id \in Ids |-> sent[id] + Occ(batch, id)]
    /\ IF ~Interested
         THEN UNCHANGED <<loopQ, drec, penalised, copiesIn>>
         ELSE LET r    == DupFold([d |-> drec, pn |-> penalised], p, batch, 1)       \* already seen -> duplicate (traced)
                  pass == SelectSeq(batch, LAMBDA x : ~KnownDup(x)) IN
              /\ drec' = r.d /\ penalised' = r.pn
              /\ copiesIn' = [q \in Fwd |-> [id \in Ids |->
                     IF q = p /\ KnownDup(id) THEN Cap3(copiesIn[q][id] + Occ(batch, id)) ELSE copiesIn[q][id]]]
              /\ loopQ' = [k \in 1..Len(pass) |-> [id |-> pass[k], src |-> p, late |-> pass[k] \in seen]]
    /\ UNCHANGED <<cfg, conn, batchQ, pendB, seen, valQ, worker, jobs, gUsed, vUsed, orphans, sendQ, local, delivered, forwarded,
                   valCalls, verdictOf, expect, finals, origin, qfull>>

\* Seeded defect "sharedVals" (getValidators appends the topic validator onto the shared defaultVals slice, which has
\* spare capacity): the validator list of every request that has not yet been split into inline / asynchronous
\* validators - still in valQ, or with a worker that has not passed markSeen - has its last slot overwritten by the
\* topic validator of the message pushed now.
Clobber(q, t)  == IF Bug = "sharedVals" /\ t # 0 THEN [k \in DOMAIN q |-> IF q[k].tv # 0 THEN [q[k] EXCEPT !.tv = t] ELSE q[k]] ELSE q
ClobberW(t)    == IF Bug = "sharedVals" /\ t # 0
                    THEN [w \in Workers |-> IF worker[w].st \in {"sig", "mark"} /\ worker[w].tv # 0 THEN [worker[w] EXCEPT !.tv = t] ELSE worker[w]]
                    ELSE worker

\* pushMsg of the next message that passed shouldPush
LoopPush ==
    /\ loopQ # <<>>
    /\ loopQ' = Tail(loopQ)
    /\ LET id == Head(loopQ).id
           p  == Head(loopQ).src IN
       IF ValsOf(id) # {} \/ cfg.signed
         THEN \* validation.Push
              IF Len(valQ) < QCap
                THEN /\ valQ' = Append(Clobber(valQ, TvOf(id)), [id |-> id, src |-> p, tv |-> TvOf(id)])
                     /\ worker' = ClobberW(TvOf(id))
                     /\ UNCHANGED <<seen, outs, mons>>
                ELSE /\ qfull' = [qfull EXCEPT ![id] = @ \cup {<<p, Head(loopQ).late>>}]   \* RejectValidationQueueFull: nobody is penalised
                     /\ valQ' = Clobber(valQ, TvOf(id)) /\ worker' = ClobberW(TvOf(id))          \* (getValidators ran before the queue was tried)
                     /\ UNCHANGED <<seen, outs, valCalls, verdictOf, expect, finals, origin, copiesIn>>
       ELSE \* nothing to validate: pushMsg marks the id seen and publishes only if the mark was fresh
            IF id \notin seen \/ Bug = "pushIgnoreResult"
              THEN /\ seen' = IF Bug = "pushNoMark" THEN seen ELSE seen \cup {id}
                   /\ Deliver(id) /\ ScoreDeliver(id) /\ Counted(p, id)
                   /\ finals' = [finals EXCEPT ![id] = @ \cup {"A"}]
                   /\ origin' = [origin EXCEPT ![id] = "remote"]
                   /\ UNCHANGED <<valQ, worker, valCalls, verdictOf, expect, qfull>>
              ELSE UNCHANGED <<seen, valQ, worker, outs, mons>>        \* marked meanwhile (same RPC, local publish): dropped silently
    /\ UNCHANGED <<cfg, conn, batchQ, pendB, sent, jobs, gUsed, vUsed, orphans, sendQ, local>>

\* event loop, outbound
LoopPublish ==
    /\ sendQ # <<>> /\ loopQ = <<>>       \* the loop is still inside handleIncomingRPC otherwise
    /\ LET m == Head(sendQ) IN
         /\ sendQ' = Tail(sendQ)
         /\ Deliver(m.id)
         /\ IF m.remote THEN ScoreDeliver(m.id) ELSE ScoreNop
         /\ finals' = [finals EXCEPT ![m.id] = @ \cup {"A"}]
    /\ UNCHANGED <<cfg, conn, batchQ, pendB, loopQ, seen, sent, valQ, worker, jobs, gUsed, vUsed, orphans, local, valCalls, verdictOf, expect, origin, copiesIn, qfull>>

-----------------------------------------------------------------------------
\* validation workers

WorkerTake(w) ==
    /\ worker[w].st = "idle" /\ valQ # <<>>
    /\ worker' = [worker EXCEPT ![w] = [st |-> IF cfg.signed THEN "sig" ELSE "mark", id |-> Head(valQ).id,
                                        src |-> Head(valQ).src, k |-> 0, res |-> "A", tv |-> Head(valQ).tv]]
    /\ valQ' = Tail(valQ)
    /\ UNCHANGED <<cfg, conn, batchQ, pendB, loopQ, seen, sent, jobs, gUsed, vUsed, orphans, sendQ, local, outs, mons>>

\* every signature is valid here (the invalid classes are C03's extension point)
WorkerSig(w) ==
    /\ worker[w].st = "sig"
    /\ worker' = [worker EXCEPT ![w].st = "mark"]
    /\ UNCHANGED <<cfg, conn, batchQ, pendB, loopQ, seen, sent, valQ, jobs, gUsed, vUsed, orphans, sendQ, local, outs, mons>>

AfterMark(w) == IF InlineOf(worker[w].tv) = <<>> THEN (IF Bug = "markSeenLate" THEN "latemark" ELSE "fin") ELSE "inline"
AfterInl   == IF Bug = "markSeenLate" THEN "latemark" ELSE "fin"

\* the atomic Add to the seen cache; with the seeded defect it happens only after the inline validators
MarkOrDup(w, nextSt) ==
    LET x == worker[w] IN
    IF x.id \in seen
      THEN /\ ScoreDup(x.src, x.id) /\ Counted(x.src, x.id)       \* tracer.DuplicateMessage
           /\ worker' = [worker EXCEPT ![w] = Idle]
           /\ UNCHANGED <<seen, origin>>
      ELSE /\ seen' = seen \cup {x.id}                              \* tracer.ValidateMessage (creates the record)
           /\ origin' = [origin EXCEPT ![x.id] = "remote"]
           /\ Counted(x.src, x.id) /\ ScoreNop
           /\ worker' = [worker EXCEPT ![w].st = nextSt, ![w].k = 1]

WorkerMarkSeen(w) ==
    /\ worker[w].st = "mark"
    /\ IF Bug = "markSeenLate"
         THEN /\ worker' = [worker EXCEPT ![w].st = AfterMark(w), ![w].k = 1]
              /\ UNCHANGED <<seen, origin, copiesIn, drec, penalised>>
         ELSE MarkOrDup(w, AfterMark(w))
    /\ UNCHANGED <<cfg, conn, batchQ, pendB, loopQ, sent, valQ, jobs, gUsed, vUsed, orphans, sendQ, local, delivered, forwarded,
                   valCalls, verdictOf, expect, finals, qfull>>

WorkerLateMark(w) ==
    /\ worker[w].st = "latemark"
    /\ MarkOrDup(w, "fin")
    /\ UNCHANGED <<cfg, conn, batchQ, pendB, loopQ, sent, valQ, jobs, gUsed, vUsed, orphans, sendQ, local, delivered, forwarded,
                   valCalls, verdictOf, expect, finals, qfull>>

\* monitors of one validator call that returns vd
Consulted(v, id, vd) ==
    /\ valCalls' = [valCalls EXCEPT ![v][id] = Cap3(@ + 1)]
    /\ verdictOf' = [verdictOf EXCEPT ![v][id] = vd]
    /\ expect' = [expect EXCEPT ![id] = Max2(@, SpecMap(vd))]

WorkerInline(w, vd) ==
    /\ worker[w].st = "inline"
    /\ LET x == worker[w]
           v == InlineOf(x.tv)[x.k]
           r == ImplMap(vd) IN
         /\ Consulted(v, x.id, vd)
         /\ worker' = [worker EXCEPT ![w].res = IF r = "R" THEN "R" ELSE IF r = "I" THEN "I" ELSE @,
                                     ![w].st  = IF r = "R" \/ x.k = Len(InlineOf(x.tv)) THEN AfterInl ELSE "inline",
                                     ![w].k   = @ + 1]
    /\ UNCHANGED <<cfg, conn, batchQ, pendB, loopQ, seen, sent, valQ, jobs, gUsed, vUsed, orphans, sendQ, local, outs, finals, origin, copiesIn, qfull>>

Final(id, f) == finals' = [finals EXCEPT ![id] = @ \cup {f}]

WorkerFinish(w) ==
    /\ worker[w].st = "fin"
    /\ LET x == worker[w] IN
         /\ worker' = [worker EXCEPT ![w] = Idle]
         /\ IF x.res = "R"
              THEN /\ ScoreReject(x.src, x.id, "failed") /\ Final(x.id, "R")
                   /\ UNCHANGED <<jobs, gUsed, sendQ, expect>>
            ELSE IF AsyncOf(x.tv) # {}
              THEN IF gUsed < cfg.gthr
                     THEN /\ gUsed' = gUsed + 1
                          /\ jobs' = jobs \cup {[id |-> x.id, src |-> x.src, inl |-> x.res, stage |-> "new", run |-> {}, acc |-> "A", avals |-> AsyncOf(x.tv)]}
                          /\ ScoreNop /\ UNCHANGED <<sendQ, finals, expect>>
                     ELSE /\ ScoreReject(x.src, x.id, "throttled") /\ Final(x.id, "T")
                          /\ expect' = [expect EXCEPT ![x.id] = Max2(@, "T")]
                          /\ UNCHANGED <<jobs, gUsed, sendQ>>
            ELSE IF x.res = "I"
              THEN /\ ScoreReject(x.src, x.id, "ignored") /\ Final(x.id, "I")
                   /\ UNCHANGED <<jobs, gUsed, sendQ, expect>>
            ELSE /\ sendQ' = Append(sendQ, [id |-> x.id, src |-> x.src, remote |-> TRUE])
                 /\ ScoreNop /\ UNCHANGED <<jobs, gUsed, finals, expect>>
    /\ UNCHANGED <<cfg, conn, batchQ, pendB, loopQ, seen, sent, valQ, vUsed, orphans, local, delivered, forwarded, valCalls, verdictOf, origin, copiesIn, qfull>>

-----------------------------------------------------------------------------
\* asynchronous validators

AsyncStart(j) ==
    /\ j \in jobs /\ j.stage = "new"
    /\ LET free == {v \in j.avals : vUsed[v] < cfg.vthr}
           thr  == j.avals \ free IN
         /\ vUsed' = [v \in 1..NVmax |-> IF v \in free THEN vUsed[v] + 1 ELSE vUsed[v]]
         /\ valCalls' = [v \in 1..NVmax |-> IF v \in free THEN [valCalls[v] EXCEPT ![j.id] = Cap3(@ + 1)] ELSE valCalls[v]]
         /\ expect' = IF thr # {} THEN [expect EXCEPT ![j.id] = Max2(@, "T")] ELSE expect
         /\ jobs' = (jobs \ {j}) \cup {[j EXCEPT !.stage = "run", !.run = free, !.acc = IF thr # {} THEN "T" ELSE "A"]}
    /\ UNCHANGED <<cfg, conn, batchQ, pendB, loopQ, seen, sent, valQ, worker, gUsed, orphans, sendQ, local, outs, verdictOf, finals, origin, copiesIn, qfull>>

\* what the end of a job does to sendQ, the score and the monitors
JobEnds(j, result) ==
    LET r2 == IF result = "A" /\ j.inl # "A" /\ Bug # "noCarry" THEN j.inl ELSE result IN
    IF r2 = "A"
      THEN /\ sendQ' = Append(sendQ, [id |-> j.id, src |-> j.src, remote |-> TRUE])
           /\ ScoreNop /\ UNCHANGED finals
      ELSE /\ ScoreReject(j.src, j.id, IF r2 = "R" THEN "failed" ELSE IF r2 = "I" THEN "ignored" ELSE "throttled")
           /\ Final(j.id, r2) /\ UNCHANGED sendQ

Comb(acc, r) == IF r = "I" THEN (IF acc = "T" /\ Bug # "ignoreOverThrottle" THEN "T" ELSE "I")
                ELSE IF r = "A" /\ Bug = "acceptOverrides" THEN "A" ELSE acc

AsyncReturn(j, v, vd) ==
    /\ j \in jobs /\ j.stage = "run" /\ v \in j.run
    /\ LET r == ImplMap(vd) IN
         /\ vUsed' = [vUsed EXCEPT ![v] = @ - 1]
         /\ verdictOf' = [verdictOf EXCEPT ![v][j.id] = vd]
         /\ expect' = [expect EXCEPT ![j.id] = Max2(@, SpecMap(vd))]
         /\ IF r = "R"
              THEN \* validateTopic breaks out of its loop: the job ends now, the others are left running
                   /\ jobs' = jobs \ {j} /\ gUsed' = gUsed - 1
                   /\ orphans' = orphans \cup {[v |-> u, id |-> j.id] : u \in j.run \ {v}}
                   /\ JobEnds(j, "R")
              ELSE /\ jobs' = (jobs \ {j}) \cup {[j EXCEPT !.run = @ \ {v}, !.acc = Comb(@, r)]}
                   /\ UNCHANGED <<gUsed, orphans, sendQ, finals, drec, penalised>>
    /\ UNCHANGED <<cfg, conn, batchQ, pendB, loopQ, seen, sent, valQ, worker, local, delivered, forwarded, valCalls, origin, copiesIn, qfull>>

AsyncDone(j, v, vd)    == AsyncReturn(j, v, vd)
AsyncTimeout(j, v, vd) == v \in cfg.tmo /\ AsyncReturn(j, v, vd)   \* the validator returns vd when its context ends

AsyncCombine(j) ==
    /\ j \in jobs /\ j.stage = "run" /\ j.run = {}
    /\ jobs' = jobs \ {j} /\ gUsed' = gUsed - 1
    /\ JobEnds(j, j.acc)
    /\ UNCHANGED <<cfg, conn, batchQ, pendB, loopQ, seen, sent, valQ, worker, vUsed, orphans, local, delivered, forwarded,
                   valCalls, verdictOf, expect, origin, copiesIn, qfull>>

OrphanDone(o) ==
    /\ o \in orphans
    /\ orphans' = orphans \ {o}
    /\ vUsed' = [vUsed EXCEPT ![o.v] = @ - 1]
    /\ UNCHANGED <<cfg, conn, batchQ, pendB, loopQ, seen, sent, valQ, worker, jobs, gUsed, sendQ, local, outs, mons>>

-----------------------------------------------------------------------------
\* local publish (Topic.Publish on the caller's goroutine)

\* the peer's streams close: handleDeadPeers; its non-positive score record is retained, nothing else changes here
\* (what it already sent stays in the pipeline)
Disconnect(p) ==
    /\ p \in conn /\ Cardinality(Fwd \ conn) < MaxDown
    /\ conn' = conn \ {p}
    /\ UNCHANGED <<cfg, batchQ, pendB, seen, sent, valQ, loopQ, worker, jobs, gUsed, vUsed, orphans, sendQ, local, outs, mons>>

LocalStart(c, id, mode) ==
    /\ local[c].st = "idle" /\ id \in LocalIds /\ mode \in Modes
    /\ local' = [local EXCEPT ![c].st = "mark", ![c].id = id, ![c].mode = mode]
    /\ UNCHANGED <<cfg, conn, batchQ, pendB, loopQ, seen, sent, valQ, worker, jobs, gUsed, vUsed, orphans, sendQ, outs, mons>>

LocalMarkSeen(c) ==
    /\ local[c].st = "mark"
    /\ LET id == local[c].id IN
       IF id \in seen
         THEN /\ local' = [local EXCEPT ![c].st = "ret", ![c].dup = TRUE,
                                        ![c].ret = IF Bug = "dupErrReturned" THEN "err" ELSE "nil"]
              /\ UNCHANGED <<seen, origin>>
         ELSE /\ seen' = seen \cup {id}
              /\ origin' = [origin EXCEPT ![id] = "local"]
              /\ local' = [local EXCEPT ![c].st = IF ValsOf(id) = {} THEN "fin" ELSE "inline", ![c].k = 1]
    /\ UNCHANGED <<cfg, conn, batchQ, pendB, loopQ, sent, valQ, worker, jobs, gUsed, vUsed, orphans, sendQ, outs,
                   valCalls, verdictOf, expect, finals, copiesIn, qfull>>

\* synchronous = true: every validator runs inline, in registration order
LocalInline(c, vd) ==
    /\ local[c].st = "inline"
    /\ LET x == local[c]
           r == ImplMap(vd) IN
         /\ Consulted(AllOf(x.id)[x.k], x.id, vd)
         /\ local' = [local EXCEPT ![c].res = IF r = "R" THEN "R" ELSE IF r = "I" THEN "I" ELSE @,
                                   ![c].st  = IF r = "R" \/ x.k = Len(AllOf(x.id)) THEN "fin" ELSE "inline",
                                   ![c].k   = @ + 1]
    /\ UNCHANGED <<cfg, conn, batchQ, pendB, loopQ, seen, sent, valQ, worker, jobs, gUsed, vUsed, orphans, sendQ, outs, finals, origin, copiesIn, qfull>>

\* where a message that passed (or is wrongly let through) goes: Publish hands it to the event loop, AddToBatch to the batch
\* (seeded defect "batchSharedArray": MessageBatch.take leaves the batch on the SAME backing array as the request it
\* handed out, so the k-th message added afterwards overwrites slot k of a request that is still pending)
Leaves(x) == IF x.mode = "batch"
               THEN /\ batchQ' = Append(batchQ, x.id) /\ UNCHANGED sendQ
                    /\ pendB' = IF Bug = "batchSharedArray" /\ pendB # <<>> /\ Len(batchQ) + 1 <= Len(pendB[Len(pendB)])
                                  THEN [pendB EXCEPT ![Len(pendB)][Len(batchQ) + 1] = x.id] ELSE pendB
               ELSE sendQ' = Append(sendQ, [id |-> x.id, src |-> "self", remote |-> FALSE]) /\ UNCHANGED <<batchQ, pendB>>

LocalFinish(c) ==
    /\ local[c].st = "fin"
    /\ LET x == local[c] IN
       IF x.res = "A"
         THEN /\ Leaves(x)
              /\ local' = [local EXCEPT ![c].st = "ret", ![c].ret = "nil", ![c].sq = TRUE]
              /\ UNCHANGED finals
         ELSE /\ Final(x.id, x.res)
              /\ IF Bug = "localSwallow"      \* ValidateLocal loses the error: the message goes out and the call says nil
                   THEN /\ Leaves(x)
                        /\ local' = [local EXCEPT ![c].st = "ret", ![c].ret = "nil", ![c].sq = TRUE]
                   ELSE IF Bug = "batchKeepsFailed" /\ x.mode = "batch"   \* AddToBatch returns the error but keeps the message
                   THEN /\ Leaves(x)
                        /\ local' = [local EXCEPT ![c].st = "ret", ![c].ret = "err", ![c].sq = TRUE]
                   ELSE /\ local' = [local EXCEPT ![c].st = "ret", ![c].ret = "err"]
                        /\ UNCHANGED <<sendQ, batchQ, pendB>>
    /\ UNCHANGED <<cfg, conn, loopQ, seen, sent, valQ, worker, jobs, gUsed, vUsed, orphans, outs,
                   valCalls, verdictOf, expect, origin, copiesIn, qfull>>

\* PubSub.PublishBatch: the batch is taken and handed to the event loop (a channel of one request) ...
BatchPublish ==
    /\ batchQ # <<>> /\ pendB = <<>>
    /\ pendB' = <<batchQ>> /\ batchQ' = <<>>
    /\ UNCHANGED <<cfg, conn, seen, sent, valQ, loopQ, worker, jobs, gUsed, vUsed, orphans, sendQ, local, outs, mons>>

\* ... which delivers every message of the request to the subscriptions and forwards them
LoopBatch ==
    /\ pendB # <<>> /\ loopQ = <<>>
    /\ sendQ' = sendQ \o [k \in DOMAIN pendB[1] |-> [id |-> pendB[1][k], src |-> "self", remote |-> FALSE]]
    /\ pendB' = Tail(pendB)
    /\ UNCHANGED <<cfg, conn, batchQ, seen, sent, valQ, loopQ, worker, jobs, gUsed, vUsed, orphans, local, outs, mons>>

-----------------------------------------------------------------------------
\* Tick: nothing in this module depends on the clock (the seen window is TimeCache.tla's subject and
\* validator timeouts are AsyncTimeout / the verdict of WorkerInline); kept so that extensions have it.
Tick == UNCHANGED vars

Batches == UNION {[1..n -> Ids] : n \in 1..MaxBatch}

Next ==
    \/ \E p \in Fwd, b \in Batches : LoopArrive(p, b)
    \/ LoopPush \/ LoopPublish
    \/ \E w \in Workers : WorkerTake(w) \/ WorkerSig(w) \/ WorkerMarkSeen(w) \/ WorkerLateMark(w) \/ WorkerFinish(w)
    \/ \E w \in Workers, vd \in Verdicts : WorkerInline(w, vd)
    \/ \E j \in jobs : AsyncStart(j) \/ AsyncCombine(j)
    \/ \E j \in jobs, v \in 1..NVmax, vd \in Verdicts : AsyncDone(j, v, vd)
    \/ \E o \in orphans : OrphanDone(o)
    \/ \E c \in Calls, id \in LocalIds, md \in Modes : LocalStart(c, id, md)
    \/ BatchPublish \/ LoopBatch
    \/ \E p \in Fwd : Disconnect(p)
    \/ \E c \in Calls : LocalMarkSeen(c) \/ LocalFinish(c)
    \/ \E c \in Calls, vd \in Verdicts : LocalInline(c, vd)

Spec == Init /\ [][Next]_vars

-----------------------------------------------------------------------------
\* properties

TypeOK ==
    /\ seen \subseteq Ids /\ Len(valQ) <= QCap
    /\ gUsed \in 0..cfg.gthr
    /\ \A v \in 1..NVmax : vUsed[v] \in 0..cfg.vthr
    /\ \A i \in Ids : expect[i] \in {"A", "I", "T", "R"} /\ finals[i] \subseteq {"A", "I", "T", "R"}

\* C02 ------------------------------------------------------------------------
P_C02_DeliverOnce  == \A s \in Subs, i \in Ids : delivered[s][i] <= 1
P_C02_ValidateOnce == \A v \in 1..NVmax, i \in Ids : valCalls[v][i] <= 1
\* a local publish of an id already seen returns nil and adds no delivery
P_C02_LocalDup     == \A c \in Calls : local[c].dup => local[c].ret = "nil" /\ ~local[c].sq

\* C04 ------------------------------------------------------------------------
Out(i) == forwarded[i] > 0 \/ \E s \in Subs : delivered[s][i] > 0

\* delivered / forwarded only if every applicable validator was consulted and said Accept
P_C04_OnlyIfAllAccept == \A i \in Ids : Out(i) => \A v \in ValsOf(i) : verdictOf[v][i] = "A"

\* a message is judged by the default validators and the validator of ITS OWN topic, and by nobody else
P_C04_Applicable == \A i \in Ids, v \in 1..NVmax : valCalls[v][i] > 0 => v \in ValsOf(i)

\* the outcome the node decided is the one the verdicts prescribe
P_C04_Outcome == \A i \in Ids : finals[i] \subseteq {expect[i]}

\* every forwarder of a rejected id is penalised (first and duplicate senders, before or after the
\* verdict; a peer is never charged for more copies than it sent); nobody otherwise.  Copies dropped
\* because the queue was full never entered the pipeline and ids validated by a LOCAL publish have
\* no delivery record (the library does not trace local messages to the score): no demand there.
P_C04_Penalty ==
    \A i \in Ids, p \in Fwd :
       /\ penalised[p][i] <= copiesIn[p][i]
       /\ penalised[p][i] > 0 => expect[i] = "R" /\ origin[i] = "remote"
       /\ ("R" \in finals[i] /\ origin[i] = "remote" /\ copiesIn[p][i] > 0) => penalised[p][i] >= 1
       \* a copy of an id that is already in the seen cache is a duplicate whatever the state of the queue
       /\ ("R" \in finals[i] /\ origin[i] = "remote" /\ <<p, TRUE>> \in qfull[i]) => penalised[p][i] >= 1

\* a local publish that fails validation returns an error and nothing leaves the node
P_C04_Local ==
    \A c \in Calls :
       (local[c].st = "ret" /\ ~local[c].dup /\ expect[local[c].id] # "A")
          => local[c].ret = "err" /\ ~local[c].sq /\ ~Out(local[c].id)

=============================================================================
