\* the repaired code (watcher started at adoption), one peer
SPECIFICATION Spec
CONSTANTS
  Peers = {p1}
  MinDelay = 1
  MaxDelay = 3
  TTL = 4
  Mult = 2
  Jit = 1
  MaxAtt = 2
  DevTTLInclusive = FALSE
  DevErrRefresh = FALSE
  DevNoCap = FALSE
  DevCleanEarly = FALSE
  DevJitter = FALSE
  MaxQ = 5
  MaxEnv = 4
  MaxNow = 5
  WatchAtOpen = FALSE
  ReplayAnnounce = TRUE
  DevNoCloseQueue = FALSE
  DevNoConnCheck = FALSE
  DevEarlyRespawn = FALSE
  DevNoEject = FALSE
  DevErrKeepsQueue = FALSE
  DevPendingDup = FALSE
VIEW View
INVARIANT NodeTypeOK
INVARIANT P_X02f_Alternate
INVARIANT P_X02f_OneWriter
INVARIANT P_X02f_Consistent
INVARIANT P_X02e_Gone
INVARIANT P_X02e_NoDialDead
INVARIANT P_X02c_NotBefore
INVARIANT P_X02d_Eject
INVARIANT P_X02g_Served
PROPERTY P_X02g_Settles
CHECK_DEADLOCK FALSE
