---------------------------- MODULE BackoffTrace ----------------------------
(* Trace specification for X02 level 1.  Every line is one operation performed on the REAL backoff object under
   virtual time (harness/drivers/x02, TestX02Pure): what was called (e, p, ms), when (t, ms since the bubble's epoch),
   what updateAndGet answered (ok, d in ms, rem = sub-millisecond remainder in ns) and which peers the object
   remembered afterwards (keys).  The replay is deterministic (the jitter shows in the answer), so there is exactly one
   behaviour; every failing predicate is printed as <<"VIOL", json>> and the cursor moves on:

     P_X02a_Law    the answer is not in Allowed(history, p, t) (Backoff.tla) - first attempt free, then MinDelay, then
                   multiplied with a jitter below the bound, capped, forgotten after more than TTL without a grant,
                   refused after maxAttempts grants inside the run; delays are whole milliseconds;
     P_X02b_Keys   explicit-cleanup mode: the remembered peers are exactly those the history says (a grant adds the
                   peer, cleanup keeps exactly the peers granted within TTL); loop mode (the real cleanup interval):
                   no peer granted within TTL is missing, no peer is remembered longer than TTL + interval, no peer
                   is remembered that was never granted.                                                        *)
EXTENDS Backoff, Json

CONSTANT CleanupInterval

Trace == ndJsonDeserialize("trace.ndjson")

VARIABLES l,        \* cursor
          maxatt,   \* maxAttempts of the object of the current scenario
          loopmode,
          mkeys     \* explicit-cleanup mode: the peers the object must remember exactly

tvars == <<l, maxatt, loopmode, mkeys, info, now, log, clean>>

E == Trace[l]
SeqSet(q) == {q[i] : i \in DOMAIN q}

TInit == /\ TLCSet(1, 0) /\ l = 1 /\ maxatt = 0 /\ loopmode = FALSE /\ mkeys = {}
         /\ BInit

Report(pred, kind, extra) ==
    PrintT(<<"VIOL", ToJson([pred |-> pred, kind |-> kind, scn |-> E.scn, line |-> l, e |-> E.e, p |-> E.p, t |-> E.t,
                             ok |-> E.ok, d |-> E.d, max |-> maxatt, loop |-> loopmode, extra |-> extra])>>)

LastGrant(h, p) == h[Latest(Succ(h, p))].t

KeysOK(h, t, mk, lm) ==
    LET K == SeqSet(E.keys) IN
    IF lm
      THEN /\ (LiveKeys(h, t) \ K # {}) => Report("P_X02b_Keys", "forgotten-early", ToString(LiveKeys(h, t) \ K))
           /\ (K \ EverKeys(h) # {}) => Report("P_X02b_Keys", "never-granted", ToString(K \ EverKeys(h)))
           /\ LET over == {p \in K \cap EverKeys(h) : t - LastGrant(h, p) > TTL + CleanupInterval} IN
              over # {} => Report("P_X02b_Keys", "leak", ToString(over))
      ELSE /\ (mk \ K # {}) => Report("P_X02b_Keys", "forgotten-early", ToString(mk \ K))
           /\ (K \ mk # {}) => Report("P_X02b_Keys", "leak", ToString(K \ mk))

TStep ==
    /\ l <= Len(Trace)
    /\ l' = l + 1
    /\ UNCHANGED <<info, clean>>
    /\ now' = E.t
    /\ CASE E.e = "reset" ->
              /\ maxatt' = E.max /\ loopmode' = E.loop /\ log' = <<>> /\ mkeys' = {}
              /\ KeysOK(<<>>, E.t, {}, E.loop)
         [] E.e = "get" ->
              LET res == [ok |-> E.ok, d |-> E.d]
                  al  == AllowedM(log, E.p, E.t, maxatt)
                  h1  == Append(log, [t |-> E.t, p |-> E.p, ok |-> E.ok, d |-> E.d])
                  mk1 == IF E.ok THEN mkeys \cup {E.p} ELSE mkeys IN
              /\ (res \notin al \/ E.rem # 0) =>
                    Report("P_X02a_Law",
                           IF E.rem # 0 THEN "sub-ms"
                           ELSE IF E.ok /\ Refuse \in al THEN "granted-beyond-max"
                           ELSE IF ~E.ok THEN "refused-early"
                           ELSE IF Grant(0) \in al THEN "not-forgotten"
                           ELSE IF E.d = 0 THEN "forgotten-early"
                           ELSE IF \A a \in al : E.d < a.d THEN "too-short"
                           ELSE IF \A a \in al : E.d > a.d THEN "too-long" ELSE "off-law",
                           ToString(al))
              /\ log' = h1 /\ mkeys' = mk1
              /\ KeysOK(h1, E.t, mk1, loopmode)
              /\ UNCHANGED <<maxatt, loopmode>>
         [] E.e = "cleanup" ->
              LET mk1 == LiveKeys(log, E.t) IN
              /\ mkeys' = mk1 /\ KeysOK(log, E.t, mk1, loopmode)
              /\ UNCHANGED <<maxatt, loopmode, log>>
         [] OTHER ->
              /\ KeysOK(log, E.t, mkeys, loopmode)
              /\ UNCHANGED <<maxatt, loopmode, log, mkeys>>

TraceSpec == TInit /\ [][TStep]_tvars

HW == IF TLCGet(1) < l THEN TLCSet(1, l) ELSE TRUE
Accepted == PrintT(<<"HW", TLCGet(1), Len(Trace) + 1>>)
=============================================================================
