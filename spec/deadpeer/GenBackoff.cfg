SPECIFICATION Spec
CONSTANTS
  GPeers = {"p1", "p2"}
  L = 4
  Advs = {1, 300000, 600000, 600001}
  MaxAdv = 2
  MaxAttCfg = 2
  LoopMode = FALSE
INVARIANT Emit
CHECK_DEADLOCK FALSE
