----------------------------- MODULE MCBackoff -----------------------------
(* Exhaustive model checking of Backoff for small constants (abstract time units). *)
EXTENDS Backoff
CONSTANTS MaxCalls, MaxNow
Bound == Len(log) <= MaxCalls /\ now <= MaxNow
=============================================================================
