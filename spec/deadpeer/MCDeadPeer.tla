----------------------------- MODULE MCDeadPeer -----------------------------
(* Exhaustive model checking of DeadPeer for small constants. *)
EXTENDS DeadPeer
\* the call log of the backoff object is history only
View == <<dvars, info, now>>
=============================================================================
