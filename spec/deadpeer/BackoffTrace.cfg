\* the documented constants of /repo/backoff.go, in milliseconds
SPECIFICATION TraceSpec
CONSTANTS
  Peers = {"p1", "p2", "p3"}
  MinDelay = 100
  MaxDelay = 10000
  TTL = 600000
  Mult = 2
  Jit = 100
  MaxAtt = 4
  CleanupInterval = 60000
  DevTTLInclusive = FALSE
  DevErrRefresh = FALSE
  DevNoCap = FALSE
  DevCleanEarly = FALSE
  DevJitter = FALSE
CONSTRAINT HW
POSTCONDITION Accepted
CHECK_DEADLOCK FALSE
