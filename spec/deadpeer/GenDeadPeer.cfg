SPECIFICATION Spec
CONSTANTS
  GPeers = {"p1"}
  Kinds = {"conn", "rst", "down", "adv"}
  Advs = {150, 1000}
  L = 5
  ByConn = {"r"}
  ByDown = {"n", "r"}
  MaxFail = 2
INVARIANT Emit
CHECK_DEADLOCK FALSE
