\* two peers, three grants per run, history forgotten after a gap of more than 2 units
SPECIFICATION BSpec
CONSTANTS
  Peers = {p1, p2}
  MinDelay = 1
  MaxDelay = 5
  TTL = 2
  Mult = 2
  Jit = 2
  MaxAtt = 3
  DevTTLInclusive = FALSE
  DevErrRefresh = FALSE
  DevNoCap = FALSE
  DevCleanEarly = TRUE
  DevJitter = FALSE
  MaxCalls = 5
  MaxNow = 5
CONSTRAINT Bound
INVARIANT TypeOK
INVARIANT P_X02a_Law
INVARIANT P_X02a_Bounded
INVARIANT P_X02a_FirstFree
INVARIANT P_X02a_Monotone
INVARIANT P_X02a_AtMostMaxAtt
INVARIANT P_X02b_Keys
CHECK_DEADLOCK FALSE
