------------------------------ MODULE DeadPeer ------------------------------
(* X02 - dead-peer handling and reconnect backoff of go-libp2p-pubsub.

   Mechanism: /repo/backoff.go (backoff, updateAndGet, cleanup, cleanupLoop) and its only user, the outbound side of
   the peer life cycle: peer_notify.go (watchForNewPeers, notifyNewPeer -> newPeersPend), pubsub.go (processLoop cases
   newPeers / newPeerStream / newPeerError / peerDead, handlePendingPeers, handleDeadPeers), comm.go (handleNewPeer,
   handleNewPeerWithBackoff, handlePeerDead, notifyPeerDead -> peerDeadPend, handleSendingMessages).

   (* PROPERTIES X02 *)

   X02.a  BACKOFF LAW.  What updateAndGet(p) answers is a function of p's own history of granted calls only: the first
          call, and the first call after more than TimeToLive (10 min) without a granted call, is granted with delay 0;
          the next with MinBackoffDelay (100 ms); each further one with BackoffMultiplier (2) times the previous delay
          plus a jitter of less than MaxBackoffJitterCoff (100) ms, never above MaxBackoffDelay (10 s) and never below
          the previous delay; after maxAttempts granted calls inside one run every call is refused (delay 0, error)
          until more than TimeToLive has passed since the last GRANTED call (a refused call does not extend the run).
          Other peers' calls never matter.                      [backoff.go:updateAndGet]   predicate P_X02a_Law
   X02.b  CLEANUP.  cleanup removes exactly the entries whose last granted call is more than TimeToLive old; with the
          cleanup loop running (every BackoffCleanupInterval = 1 min) no entry outlives TimeToLive + interval, and no
          entry is dropped while a call could still depend on it.   [backoff.go:cleanup, cleanupLoop]   P_X02b_Keys
   X02.c  NEVER EARLIER THAN THE BACKOFF.  When the node's outbound stream to a peer dies while the peer is still
          connected, the writer is re-opened (host.NewStream) exactly once, not before the delay the backoff law grants
          for that death has elapsed (and, under virtual time, at that instant), on a NEW queue; the delays of
          successive deaths follow X02.a with maxAttempts = MaxBackoffAttempts (4).
                                  [pubsub.go:handleDeadPeers, comm.go:handleNewPeerWithBackoff]   P_X02c_NotBefore, P_X02c_Law
   X02.d  EJECTION.  The death that finds MaxBackoffAttempts grants inside the run removes the peer (queue closed, entry
          deleted, router told) and starts no writer; nothing is opened towards that peer until identify announces it
          again (new connection / protocol update); a run is forgotten after TimeToLive.
                                  [pubsub.go:handleDeadPeers, backoff.go:updateAndGet]   P_X02d_Eject
   X02.e  GONE MEANS GONE.  A death processed when the peer is no longer connected removes the peer with exactly one
          router notification and starts nothing; a NewStream failure removes the entry; after the loop has settled no
          entry of p.peers, no writer / watcher goroutine and no router record is left for a peer without a connection.
                                  [pubsub.go:handleDeadPeers, processLoop newPeerError, comm.go:handleNewPeer]   P_X02e_Gone
   X02.f  ONE WRITER, ALTERNATING NOTIFICATIONS.  Per peer the router notifications alternate Up, Down, Up, ... starting
          with Up; at most one un-closed queue exists per peer and it is the one in p.peers; whenever the loop has settled:
          router-up <=> the peer has a queue with exactly one live outbound stream, one writer and one dead-stream watcher;
          a queue without a stream exists only while its opener waits for the backoff timer or sits in NewStream.
                                  [pubsub.go:processLoop newPeerStream, handleDeadPeers, handlePendingPeers]   P_X02f_Alternate, P_X02f_OneWriter, P_X02f_Consistent
   X02.g  SERVED (under fairness).  A connected peer that identify announced, whose NewStream does not fail AFTER that
          announcement and that has not been ejected has, once the loop has settled, exactly one queue and - unless the
          backoff timer is still running - one live stream; the pending sets are drained; a peer found in newPeersPend and
          peerDeadPend in the same loop turn ends in the state its connectedness dictates, whichever case the loop takes
          first; the loop always settles (the re-open cascade is cut by the backoff).
                                  [pubsub.go:handlePendingPeers, handleDeadPeers, peer_notify.go]   P_X02g_Served, P_X02g_Settles

   MODEL.  One action per critical section of the code: an identify notification, one peer of a handlePendingPeers /
   handleDeadPeers turn (the pending map is swapped at the start of the turn, so handling its members one by one is the
   same as far as any other goroutine can tell), the newPeerStream and newPeerError cases, the opener goroutine
   (backoff timer, NewStream), the dead-stream watcher (handlePeerDead) and the writer's exit.  A queue has at most one
   opener and hence at most one stream: a stream is identified with its queue.  The backoff object is Backoff.tla's
   implementation-shaped model (Jit = 1 in the exhaustive configurations).
   Deliberate deviations: the blacklist is not modelled (C16); topics / interest are not modelled (C05, D12); messages in
   queues are not modelled (C15); time advances only when no internal step is enabled (virtual time of testing/synctest);
   NewStream towards a peer without connection fails (the real swarm would re-dial: the trace monitor follows the observed connections).

   AS FOUND.  WatchAtOpen = TRUE is the code as it is: handleNewPeer starts the dead-stream watcher BEFORE the loop has
   adopted the stream, and peerDeadPend / newPeerStream are matched to p.peers by peer id only.  A stream that dies
   before its adoption is then reported first: handleDeadPeers tells the router Down for a peer it never told Up,
   replaces the queue, and the late adoption tells the router Up for a stream that is dead and belongs to a closed
   queue; when the re-open then fails the router keeps the peer for ever although p.peers has no entry (X02.f, X02.e
   fail: configuration MCDeadPeerAsFound.cfg MUST fail).  WatchAtOpen = FALSE is the proposed repair (the watcher is
   started by the loop when it adopts the stream).
   ReplayAnnounce = FALSE is also the code as it is: an announcement (newPeersPend) that the loop handles while a FAILED open's error is
   still on its way to the loop (newPeerError not yet received) finds the stale entry, is dropped as "already have connection", and the
   error then deletes the entry: the peer stays connected, announced and without a writer until identify speaks again (X02.g fails:
   configuration MCDeadPeerLostAnnounce.cfg MUST fail).  ReplayAnnounce = TRUE is the proposed repair (the loop replays such an
   announcement when the error arrives).                                                            *)
EXTENDS Backoff

CONSTANTS MaxQ,              \* queues that may ever be created
          MaxEnv,            \* environment steps (connect / disconnect / reset / fail / renotify)
          MaxNow,
          WatchAtOpen,       \* as found (TRUE) / repaired (FALSE)
          ReplayAnnounce,    \* as found (FALSE) / repaired (TRUE): an announcement that met an entry still being opened is replayed when the open fails
          DevNoCloseQueue,   \* handleDeadPeers forgets q.Close()
          DevNoConnCheck,    \* handleDeadPeers respawns without asking Connectedness
          DevEarlyRespawn,   \* the opener does not wait for the delay
          DevNoEject,        \* the error of updateAndGet is ignored
          DevErrKeepsQueue,  \* newPeerError does not delete the entry
          DevPendingDup      \* handlePendingPeers does not look for an existing entry

VARIABLES conn,      \* [Peers -> BOOLEAN]  host.Network().Connectedness(p) = Connected
          closing,   \* [Peers -> BOOLEAN]  the remote closed the connection: streams are dead, the swarm has not noticed yet
          peers,     \* [Peers -> 0..MaxQ]  p.peers (0 = no entry)
          qs,        \* [1..MaxQ -> queue/stream record]
          nq,        \* queues created so far
          rt,        \* [Peers -> BOOLEAN]  the router was told Up and not yet Down
          newPend, deadPend,
          failOpen,  \* [Peers -> BOOLEAN]  NewStream to p fails
          env,       \* environment steps taken
          reann,     \* peers announced while their entry had no adopted stream yet (repair only)
          wanted,    \* [Peers -> BOOLEAN]  monitor: announced by identify and neither ejected nor failed since
          viol       \* monitor: names of event-order violations seen so far

dvars == <<conn, closing, peers, qs, nq, rt, newPend, deadPend, failOpen, env, reann, wanted, viol>>
vars == <<dvars, bvars>>

\* pc of the opener goroutine: "wait" (backoff timer), "open" (in NewStream), "hand" (has a stream, blocked on newPeerStream),
\* "err" (blocked on newPeerError), "done"
NoQ == [p |-> CHOOSE p \in Peers : TRUE, pc |-> "none", due |-> 0, lawdue |-> 0, has |-> FALSE, alive |-> FALSE, watch |-> "none",
        writer |-> FALSE, adopted |-> FALSE, hello |-> FALSE, closed |-> FALSE]

Init == /\ BInit
        /\ conn = [p \in Peers |-> FALSE] /\ closing = [p \in Peers |-> FALSE]
        /\ peers = [p \in Peers |-> 0] /\ qs = [q \in 1 .. MaxQ |-> NoQ] /\ nq = 0
        /\ rt = [p \in Peers |-> FALSE] /\ newPend = {} /\ deadPend = {}
        /\ failOpen = [p \in Peers |-> FALSE] /\ env = 0
        /\ wanted = [p \in Peers |-> FALSE] /\ viol = {} /\ reann = {}

Used == 1 .. nq
StreamsOf(p) == {q \in Used : qs[q].p = p /\ qs[q].has}

-----------------------------------------------------------------------------
(* internal steps *)

\* handlePeerDead: the Read on the stream returned; reset, report
Watcher(q) ==
    /\ q \in Used /\ qs[q].watch = "armed" /\ ~qs[q].alive
    /\ qs' = [qs EXCEPT ![q].watch = "done"]
    /\ deadPend' = deadPend \cup {qs[q].p}
    /\ UNCHANGED <<conn, closing, peers, nq, rt, newPend, failOpen, env, reann, wanted, viol, bvars>>

\* handleSendingMessages writes the hello packet it was handed at adoption: on a dead stream the write fails and it returns
WriterHello(q) ==
    /\ q \in Used /\ qs[q].writer /\ qs[q].adopted /\ qs[q].hello
    /\ qs' = IF qs[q].alive THEN [qs EXCEPT ![q].hello = FALSE] ELSE [qs EXCEPT ![q].hello = FALSE, ![q].writer = FALSE]
    /\ UNCHANGED <<conn, closing, peers, nq, rt, newPend, deadPend, failOpen, env, reann, wanted, viol, bvars>>

\* handleSendingMessages returns because its queue was closed (Pop fails); it closes the stream, which the remote answers
\* by closing its side.  (An idle writer does not notice a dead stream: only closing its queue stops it.)
WriterExit(q) ==
    /\ q \in Used /\ qs[q].writer /\ qs[q].adopted /\ ~qs[q].hello /\ qs[q].closed
    /\ qs' = [qs EXCEPT ![q].writer = FALSE, ![q].alive = FALSE]
    /\ UNCHANGED <<conn, closing, peers, nq, rt, newPend, deadPend, failOpen, env, reann, wanted, viol, bvars>>

NewQueue(p, pc, due, lawdue) ==
    [p |-> p, pc |-> pc, due |-> due, lawdue |-> lawdue, has |-> FALSE, alive |-> FALSE, watch |-> "none",
     writer |-> FALSE, adopted |-> FALSE, hello |-> FALSE, closed |-> FALSE]

\* one peer of a handlePendingPeers turn
LoopPending(p) ==
    /\ p \in newPend
    /\ newPend' = newPend \ {p}
    /\ IF conn[p] /\ (peers[p] = 0 \/ DevPendingDup) /\ nq < MaxQ
         THEN /\ nq' = nq + 1
              /\ qs' = [qs EXCEPT ![nq + 1] = NewQueue(p, "open", now, now)]
              /\ peers' = [peers EXCEPT ![p] = nq + 1]
         ELSE UNCHANGED <<nq, qs, peers>>
    /\ reann' = IF ReplayAnnounce /\ conn[p] /\ peers[p] # 0 /\ ~qs[peers[p]].adopted THEN reann \cup {p} ELSE reann
    /\ UNCHANGED <<conn, closing, rt, deadPend, failOpen, env, wanted, viol, bvars>>

\* one peer of a handleDeadPeers turn
LoopDead(p) ==
    /\ p \in deadPend
    /\ deadPend' = deadPend \ {p}
    /\ IF peers[p] = 0
         THEN UNCHANGED <<nq, qs, peers, rt, wanted, viol, bvars>>
         ELSE LET q == peers[p]
                  closedQs == IF DevNoCloseQueue THEN qs ELSE [qs EXCEPT ![q].closed = TRUE]
                  v1 == IF rt[p] THEN viol ELSE viol \cup {"down-without-up"} IN
              /\ rt' = [rt EXCEPT ![p] = FALSE]
              /\ IF (conn[p] \/ DevNoConnCheck) /\ nq < MaxQ
                   THEN \* updateAndGet (no jitter in this model)
                        /\ Get(p, 0)
                        /\ LET r == log'[Len(log')] IN
                           IF r.ok \/ DevNoEject
                             THEN /\ nq' = nq + 1
                                  /\ qs' = [closedQs EXCEPT ![nq + 1] = NewQueue(p, "wait", IF DevEarlyRespawn THEN now ELSE now + r.d, now + r.d)]
                                  /\ peers' = [peers EXCEPT ![p] = nq + 1]
                                  /\ wanted' = wanted
                                  /\ viol' = v1 \cup (IF ~conn[p] THEN {"respawn-disconnected"} ELSE {})
                                                \cup (IF ~r.ok THEN {"respawn-after-refusal"} ELSE {})
                             ELSE /\ qs' = closedQs /\ peers' = [peers EXCEPT ![p] = 0] /\ nq' = nq
                                  /\ wanted' = [wanted EXCEPT ![p] = FALSE]      \* ejected
                                  /\ viol' = v1
                   ELSE /\ qs' = closedQs /\ peers' = [peers EXCEPT ![p] = 0] /\ nq' = nq
                        /\ wanted' = [wanted EXCEPT ![p] = FALSE]
                        /\ viol' = v1
                        /\ UNCHANGED bvars
    /\ UNCHANGED <<conn, closing, newPend, failOpen, env, reann>>

\* handleNewPeerWithBackoff: the timer fired
OpenerTimer(q) ==
    /\ q \in Used /\ qs[q].pc = "wait" /\ now >= qs[q].due
    /\ qs' = [qs EXCEPT ![q].pc = "open"]
    /\ UNCHANGED <<conn, closing, peers, nq, rt, newPend, deadPend, failOpen, env, reann, wanted, viol, bvars>>

\* handleNewPeer: host.NewStream returns
OpenerNewStream(q) ==
    /\ q \in Used /\ qs[q].pc = "open"
    /\ LET p == qs[q].p IN
       /\ viol' = IF now < qs[q].lawdue THEN viol \cup {"open-before-backoff"} ELSE viol
       /\ wanted' = IF failOpen[p] \/ ~conn[p] THEN [wanted EXCEPT ![p] = FALSE] ELSE wanted   \* the open failed NOW
       /\ IF failOpen[p] \/ ~conn[p]
            THEN qs' = [qs EXCEPT ![q].pc = "err"]
            ELSE qs' = [qs EXCEPT ![q].pc = "hand", ![q].has = TRUE, ![q].alive = ~closing[p], ![q].writer = TRUE,
                                  ![q].watch = IF WatchAtOpen THEN "armed" ELSE "none"]
    /\ UNCHANGED <<conn, closing, peers, nq, rt, newPend, deadPend, failOpen, env, reann, bvars>>

\* processLoop, case s := <-p.newPeerStream
LoopNewStream(q) ==
    /\ q \in Used /\ qs[q].pc = "hand"
    /\ LET p == qs[q].p IN
       IF peers[p] = 0
         THEN \* "new stream for unknown peer": Cancel, Reset
              /\ qs' = [qs EXCEPT ![q].pc = "done", ![q].alive = FALSE, ![q].writer = FALSE]
              /\ UNCHANGED <<rt, viol>>
         ELSE /\ qs' = [qs EXCEPT ![q].pc = "done", ![q].adopted = TRUE, ![q].hello = TRUE,
                                  ![q].watch = IF WatchAtOpen THEN @ ELSE "armed"]
              /\ rt' = [rt EXCEPT ![p] = TRUE]
              /\ viol' = viol \cup (IF rt[p] THEN {"up-while-up"} ELSE {})
                              \cup (IF peers[p] # q THEN {"adopted-foreign-stream"} ELSE {})
    /\ reann' = reann \ {qs[q].p}
    /\ UNCHANGED <<conn, closing, peers, nq, newPend, deadPend, failOpen, env, wanted, bvars>>

\* processLoop, case pid := <-p.newPeerError
LoopNewPeerError(q) ==
    /\ q \in Used /\ qs[q].pc = "err"
    /\ LET p == qs[q].p IN
       /\ qs' = [qs EXCEPT ![q].pc = "done"]
       /\ peers' = IF DevErrKeepsQueue THEN peers ELSE [peers EXCEPT ![p] = 0]
       /\ newPend' = IF p \in reann THEN newPend \cup {p} ELSE newPend
       /\ reann' = reann \ {p}
       /\ viol' = IF peers[p] # q /\ peers[p] # 0 THEN viol \cup {"error-deleted-foreign-queue"} ELSE viol
    /\ UNCHANGED <<conn, closing, nq, rt, deadPend, failOpen, env, wanted, bvars>>

\* the swarm notices that the remote closed the connection
ConnGone(p) ==
    /\ closing[p]
    /\ closing' = [closing EXCEPT ![p] = FALSE] /\ conn' = [conn EXCEPT ![p] = FALSE]
    /\ UNCHANGED <<peers, qs, nq, rt, newPend, deadPend, failOpen, env, reann, wanted, viol, bvars>>

Internal == \/ \E q \in 1 .. MaxQ : Watcher(q) \/ WriterHello(q) \/ WriterExit(q) \/ OpenerTimer(q) \/ OpenerNewStream(q) \/ LoopNewStream(q) \/ LoopNewPeerError(q)
            \/ \E p \in Peers : LoopPending(p) \/ LoopDead(p) \/ ConnGone(p)

Quiescent == ~ENABLED Internal

-----------------------------------------------------------------------------
(* environment *)

EnvStep == env < MaxEnv /\ env' = env + 1

\* a connection comes up and identify announces the peer
Connect(p) ==
    /\ EnvStep /\ ~conn[p]
    /\ conn' = [conn EXCEPT ![p] = TRUE] /\ newPend' = newPend \cup {p}
    /\ wanted' = [wanted EXCEPT ![p] = TRUE]
    /\ UNCHANGED <<closing, peers, qs, nq, rt, deadPend, failOpen, reann, viol, bvars>>

\* identify announces a connected peer again (second connection, protocol update)
Renotify(p) ==
    /\ EnvStep /\ conn[p] /\ ~closing[p]
    /\ newPend' = newPend \cup {p}
    /\ wanted' = [wanted EXCEPT ![p] = TRUE]
    /\ UNCHANGED <<conn, closing, peers, qs, nq, rt, deadPend, failOpen, reann, viol, bvars>>

\* the remote resets the node's outbound stream; the connection stays
ResetStream(q) ==
    /\ EnvStep /\ q \in Used /\ qs[q].has /\ qs[q].alive
    /\ qs' = [qs EXCEPT ![q].alive = FALSE]
    /\ UNCHANGED <<conn, closing, peers, nq, rt, newPend, deadPend, failOpen, reann, wanted, viol, bvars>>

KillStreams(p) == [q \in 1 .. MaxQ |-> IF q \in StreamsOf(p) THEN [qs[q] EXCEPT !.alive = FALSE] ELSE qs[q]]

\* the node closes the connection: the swarm forgets it before the streams are reset
DisconnectLocal(p) ==
    /\ EnvStep /\ conn[p] /\ ~closing[p]
    /\ conn' = [conn EXCEPT ![p] = FALSE] /\ qs' = KillStreams(p)
    /\ UNCHANGED <<closing, peers, nq, rt, newPend, deadPend, failOpen, reann, wanted, viol, bvars>>

\* the remote closes the connection: the streams die, the swarm notices later (ConnGone)
DisconnectRemote(p) ==
    /\ EnvStep /\ conn[p] /\ ~closing[p]
    /\ closing' = [closing EXCEPT ![p] = TRUE] /\ qs' = KillStreams(p)
    /\ UNCHANGED <<conn, peers, nq, rt, newPend, deadPend, failOpen, reann, wanted, viol, bvars>>

SetFail(p) ==
    /\ EnvStep
    /\ failOpen' = [failOpen EXCEPT ![p] = ~@]
    /\ UNCHANGED <<conn, closing, peers, qs, nq, rt, newPend, deadPend, reann, wanted, viol, bvars>>

\* virtual time: advances only when nothing else can run
Advance ==
    /\ Quiescent /\ now < MaxNow
    /\ Tick
    /\ UNCHANGED dvars

Env == \E p \in Peers : Connect(p) \/ Renotify(p) \/ DisconnectLocal(p) \/ DisconnectRemote(p) \/ SetFail(p)
Next == Internal \/ Env \/ (\E q \in 1 .. MaxQ : ResetStream(q)) \/ Advance \/ (Cleanup /\ UNCHANGED dvars /\ Quiescent)

Spec == Init /\ [][Next]_vars /\ WF_vars(Internal)

-----------------------------------------------------------------------------
(* PROPERTIES *)

\* X02.f  the router is told Up and Down alternately, Up only for the stream of the current queue
P_X02f_Alternate == viol \cap {"down-without-up", "up-while-up", "adopted-foreign-stream", "error-deleted-foreign-queue"} = {}

\* X02.f  every opener / writer that is not bound to a closed queue is bound to the queue in p.peers
Active(q) == q \in Used /\ ~qs[q].closed /\ (qs[q].pc \in {"wait", "open", "hand", "err"} \/ qs[q].writer)
P_X02f_OneWriter == \A q \in 1 .. MaxQ : Active(q) => peers[qs[q].p] = q

\* X02.f / X02.e  when the loop has settled: router, p.peers, streams, writers and watchers agree
Cur(p) == qs[peers[p]]
P_X02f_Consistent ==
    Quiescent =>
      /\ \A p \in Peers :
           /\ rt[p] <=> (peers[p] # 0 /\ Cur(p).adopted /\ Cur(p).alive)
           /\ (peers[p] # 0 /\ ~rt[p]) => Cur(p).pc = "wait"
      /\ \A q \in Used : /\ qs[q].writer => (peers[qs[q].p] = q /\ qs[q].alive /\ qs[q].adopted)
                         /\ qs[q].watch = "armed" => (peers[qs[q].p] = q /\ qs[q].alive)

\* X02.e  no entry for a peer without connection once the loop has settled (a respawn still waiting for its timer excepted:
\*        it was started when the connection was still reported, and fails when it fires)
P_X02e_Gone == Quiescent => \A p \in Peers : ~conn[p] => (peers[p] = 0 \/ Cur(p).pc = "wait") /\ ~rt[p]
P_X02e_NoDialDead == "respawn-disconnected" \notin viol

\* X02.c  the opener never calls NewStream before the granted delay has passed
P_X02c_NotBefore == "open-before-backoff" \notin viol
\* X02.d  a refused call starts nothing
P_X02d_Eject == "respawn-after-refusal" \notin viol

\* X02.g  a connected, announced peer that was neither ejected nor failed has its queue once the loop has settled
P_X02g_Served == Quiescent => \A p \in Peers : (conn[p] /\ ~closing[p] /\ wanted[p] /\ nq < MaxQ) => (rt[p] \/ (peers[p] # 0 /\ Cur(p).pc = "wait"))

\* the loop always settles (no livelock of respawns: the cascade is cut by the backoff)
P_X02g_Settles == []<>Quiescent

NodeTypeOK == /\ nq \in 0 .. MaxQ /\ env \in 0 .. MaxEnv
              /\ \A p \in Peers : peers[p] \in 0 .. nq
=============================================================================
