----------------------------- MODULE GenBackoff -----------------------------
(* Scenario generator for X02 level 1: every sequence of operations on the backoff object up to a bounded
   length - updateAndGet for one of the peers, an explicit cleanup, a time advance from a fixed set (chosen so
   that gaps of exactly TTL, TTL+1 and TTL-1.. arise) - for one value of maxAttempts.  Only the INPUTS are emitted;
   what the real object answers is judged by BackoffTrace.  With -simulate the same module yields long random
   histories (depth = L).                                                                                   *)
EXTENDS Naturals, Sequences, FiniteSets, TLC, Json

CONSTANTS GPeers,      \* e.g. {"p1", "p2"}
          L,           \* number of operations
          Advs,        \* time advances in ms
          MaxAdv,      \* at most this many advances in a row
          MaxAttCfg,   \* maxAttempts handed to newBackoff
          LoopMode     \* TRUE: the cleanup loop runs at the real interval and there is no explicit cleanup

VARIABLES hist, advrun

gvars == <<hist, advrun>>

GInit == hist = <<>> /\ advrun = 0

Op(a, p, ms) == [a |-> a, p |-> p, ms |-> ms]
LastA == IF hist = <<>> THEN "" ELSE hist[Len(hist)].a

GGet(p) == hist' = Append(hist, Op("get", p, 0)) /\ advrun' = 0
GCleanup == /\ ~LoopMode /\ hist # <<>> /\ LastA # "cleanup"
            /\ hist' = Append(hist, Op("cleanup", "", 0)) /\ advrun' = 0
GAdv(ms) == /\ hist # <<>> /\ advrun < MaxAdv
            /\ Len(hist) + 1 < L                      \* a scenario ends with an observation, not with a wait
            /\ hist' = Append(hist, Op("adv", "", ms)) /\ advrun' = advrun + 1

GNext == /\ Len(hist) < L
         /\ \/ \E p \in GPeers : GGet(p)
            \/ GCleanup
            \/ \E ms \in Advs : GAdv(ms)

Spec == GInit /\ [][GNext]_gvars

Emit == Len(hist) = L => PrintT(<<"SCN", ToJson([max |-> MaxAttCfg, loop |-> LoopMode, ops |-> hist])>>)
=============================================================================
