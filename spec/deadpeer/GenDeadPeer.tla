---------------------------- MODULE GenDeadPeer ----------------------------
(* Scenario generator for X02 level 2 (one real node, wire-level fake peers): every sequence of stimuli of a class
   (a subset Kinds of the alphabet, a set of peers, a set of time advances) up to length L.  Only INPUTS are emitted; the
   little state here (who is connected / held / failing, is the loop parked) only keeps pointless stimuli out.  What the
   node does is judged by DeadPeerTrace.  With -simulate the same module yields long random scenarios.

     conn{p,by}      a connection comes up (by = "r": the peer dials, "n": the node dials); identify announces the peer
     rst{p}          the peer resets the node's outbound pubsub stream; the connection stays
     down{p,by}      the connection is closed by the node ("n") or by the peer ("r")
     fail{p,on}      NewStream of the node towards p fails from now on / works again
     hold{p} / release{p}   NewStream towards p does not return / returns
     park / unpark   the node's event loop is blocked inside an eval thunk / released (several things pend at once)
     renotify{p}     identify announces a connected peer again (protocol update)
     adv{ms}         virtual time passes                                                                      *)
EXTENDS Naturals, Sequences, FiniteSets, TLC, Json

CONSTANTS GPeers, Kinds, Advs, L, ByConn, ByDown, MaxFail

VARIABLES hist, c, held, fail, parked, nfail

gvars == <<hist, c, held, fail, parked, nfail>>

GInit == /\ hist = <<>> /\ c = [p \in GPeers |-> FALSE] /\ held = [p \in GPeers |-> FALSE]
         /\ fail = [p \in GPeers |-> FALSE] /\ parked = FALSE /\ nfail = 0

Act(a, p, by, on, ms) == [a |-> a, p |-> p, by |-> by, on |-> on, ms |-> ms]
Last == IF hist = <<>> THEN Act("", "", "", FALSE, 0) ELSE hist[Len(hist)]
Rec(x) == hist' = Append(hist, x)

GConn(p, by) == /\ "conn" \in Kinds /\ ~c[p] /\ Rec(Act("conn", p, by, FALSE, 0))
                /\ c' = [c EXCEPT ![p] = TRUE] /\ UNCHANGED <<held, fail, parked, nfail>>
GRst(p) == /\ "rst" \in Kinds /\ c[p] /\ ~(Last.a = "rst" /\ Last.p = p) /\ Rec(Act("rst", p, "", FALSE, 0))
           /\ UNCHANGED <<c, held, fail, parked, nfail>>
GDown(p, by) == /\ "down" \in Kinds /\ c[p] /\ Rec(Act("down", p, by, FALSE, 0))
                /\ c' = [c EXCEPT ![p] = FALSE] /\ UNCHANGED <<held, fail, parked, nfail>>
GFail(p) == /\ "fail" \in Kinds /\ nfail < MaxFail /\ Rec(Act("fail", p, "", ~fail[p], 0))
            /\ fail' = [fail EXCEPT ![p] = ~@] /\ nfail' = nfail + 1 /\ UNCHANGED <<c, held, parked>>
GHold(p) == /\ "hold" \in Kinds /\ ~held[p] /\ Rec(Act("hold", p, "", FALSE, 0))
            /\ held' = [held EXCEPT ![p] = TRUE] /\ UNCHANGED <<c, fail, parked, nfail>>
GRelease(p) == /\ "hold" \in Kinds /\ held[p] /\ Last.a # "hold" /\ Rec(Act("release", p, "", FALSE, 0))
               /\ held' = [held EXCEPT ![p] = FALSE] /\ UNCHANGED <<c, fail, parked, nfail>>
GPark == /\ "park" \in Kinds /\ ~parked /\ hist # <<>> /\ Len(hist) + 2 < L /\ Rec(Act("park", "", "", FALSE, 0))
         /\ parked' = TRUE /\ UNCHANGED <<c, held, fail, nfail>>
GUnpark == /\ parked /\ Last.a # "park" /\ Rec(Act("unpark", "", "", FALSE, 0))
           /\ parked' = FALSE /\ UNCHANGED <<c, held, fail, nfail>>
GRenotify(p) == /\ "renotify" \in Kinds /\ c[p] /\ ~(Last.a = "renotify" /\ Last.p = p) /\ Rec(Act("renotify", p, "", FALSE, 0))
                /\ UNCHANGED <<c, held, fail, parked, nfail>>
GAdv(ms) == /\ "adv" \in Kinds /\ hist # <<>> /\ Last.a # "adv" /\ Rec(Act("adv", "", "", FALSE, ms))
            /\ UNCHANGED <<c, held, fail, parked, nfail>>

GNext == /\ Len(hist) < L
         /\ \/ \E p \in GPeers : \/ \E by \in ByConn : GConn(p, by)
                                 \/ \E by \in ByDown : GDown(p, by)
                                 \/ GRst(p) \/ GFail(p) \/ GHold(p) \/ GRelease(p) \/ GRenotify(p)
            \/ GPark \/ GUnpark
            \/ \E ms \in Advs : GAdv(ms)

Spec == GInit /\ [][GNext]_gvars

HasConn == \E i \in DOMAIN hist : hist[i].a = "conn"
Emit == (Len(hist) = L /\ HasConn) => PrintT(<<"SCN", ToJson([acts |-> hist])>>)
=============================================================================
