--------------------------- MODULE DeadPeerTrace ---------------------------
(* Trace specification for X02 level 2.  harness/drivers/x02 (TestX02Node) replays stimulus sequences on ONE real node
   (floodsub / gossipsub / randomsub) with wire-level fake peers under virtual time; bin/lib/props/x02.py flattens every
   step into lines, in the order things happened:

     act   the stimulus (a, p, by, on, ms)
     ev    what the node did, in its own order, with the virtual ms:  Up / Down (router notifications, RawTracer, inside
           the event loop),  open / opened / openfail (a host.NewStream call of the node, its result);  every event carries
           `bo`, the peer's entry of the node's backoff object at that instant, and a Down carries `after`, the same entry as
           the next event of the peer (or the end of the step) saw it: after.last = t  <=>  updateAndGet was called in the turn
           that reported the death (that is how the free choice "was the peer still connected" shows);
     snap  after the step settled: p.peers (queue identities q, closed), the router's own peer set (rt, when it has one),
           the backoff entries, live outbound streams as the fake peers see them (alive), connections (conn), the two
           pending sets (pn, pd), the node's goroutines by role (g.w writers, g.d dead-stream watchers, g.b openers waiting
           for the backoff, g.o openers inside handleNewPeer); ok = FALSE while the loop is parked (no loop snapshot).

   A per-peer monitor (idle -> [wait ->] inflight -> ready -> live -> ...) is advanced by the events; the backoff law is
   Backoff.tla's AllowedM over the grants observed so far (the jitter shows in the granted delay).  The replay leaves the
   node two free choices - whether a death caused by the REMOTE closing the connection still finds the peer connected, and
   which of several ready cases the loop takes first - and both are read off the observations, so there is exactly one
   behaviour per trace; every failing predicate is printed as <<"VIOL", json>> and the cursor moves on.

     P_X02c_Law        a respawn's delay is not the one the law grants for this death          (X02.c, X02.a in the node)
     P_X02c_NotBefore  NewStream called before death + delay ("early"); a queue identity re-used
     P_X02c_OnTime     NewStream not called at death + delay (virtual time: "late" / "missing")
     P_X02d_Eject      respawn although the run had MaxBackoffAttempts grants; NewStream towards a peer nobody announced
     P_X02e_Gone       respawn for a peer whose connection the node had closed; entry / stream / goroutine left for a peer in state idle
     P_X02f_Alternate  Up while up, Down while down, Up for a stream that was reported dead before its adoption
     P_X02f_OneWriter  a second opener; goroutine counts that do not match the monitor (writers, watchers, openers)
     P_X02f_Consistent settled snapshot disagrees with the monitor (entry, closed queue, number of live streams, router set)
     P_X02g_Served     connected peer abandoned without ejection; announced peer without opener; opener stuck; pending sets not drained
     P_X02b_Keys       node's backoff entry outlives TTL + cleanup interval / vanishes while still needed

   cond = "early-death" marks everything that follows a death reported BEFORE the adoption of the stream (the window of
   the as-found defect, see DeadPeer.tla AS FOUND) for the same peer; cond = "error-pending" marks an announcement that was made
   while the error of a failed open had not reached the (parked) loop yet and that the loop then dropped (second as-found defect).                                              *)
EXTENDS Backoff, Json

CONSTANTS CleanupInterval, Slack,
          OpenMax     \* a NewStream that is not held returns within this many ms (it may have to dial)

Trace == ndJsonDeserialize("trace.ndjson")

VARIABLES l, m, glog, parked, router

tvars == <<l, m, glog, parked, router, info, now, log, clean>>

E == Trace[l]

M0 == [st |-> "idle", due |-> 0, up |-> FALSE, stale |-> 0, race |-> FALSE, held |-> FALSE, fail |-> FALSE, can |-> FALSE, must |-> FALSE,
       conn |-> "no", lastq |-> "", retired |-> {}, stable |-> FALSE, sawopen |-> FALSE, lost |-> FALSE, since |-> 0, carry |-> FALSE, upat |-> 0]

TInit == /\ TLCSet(1, 0) /\ l = 1 /\ m = [p \in Peers |-> M0] /\ glog = <<>> /\ parked = FALSE /\ router = ""
         /\ BInit

Cond(p) == IF m[p].race THEN "early-death" ELSE "none"
Report(pred, kind, p, cond, extra) ==
    PrintT(<<"VIOL", ToJson([pred |-> pred, kind |-> kind, cond |-> cond, scn |-> E.scn, i |-> E.i, line |-> l, p |-> p, t |-> E.t,
                             st |-> m[p].st, router |-> router, extra |-> extra])>>)

LastGrant(h, p) == h[Latest(Succ(h, p))].t
Count(st) == Cardinality({p \in Peers : m[p].st = st})

-----------------------------------------------------------------------------
TReset ==
    /\ E.e = "reset"
    /\ m' = [p \in Peers |-> M0] /\ glog' = <<>> /\ parked' = FALSE /\ router' = E.router

TAct ==
    /\ E.e = "act"
    /\ parked' = CASE E.a = "park" -> TRUE [] E.a = "unpark" -> FALSE [] OTHER -> parked
    /\ m' = [p \in Peers |->
               \* once the loop runs again it receives the error of an open that failed while it was parked: the entry goes
               LET x == [m[p] EXCEPT !.sawopen = FALSE, !.st = IF E.a = "unpark" /\ @ = "failing" THEN "idle" ELSE @] IN
               IF p # E.p THEN x
               \* an announcement (made: a NEW connection came up, identify runs; renotify: identify speaks again) stays pending until the
               \* loop's next handlePendingPeers turn:
               \*   can    an announcement may still be pending: a NewStream for a peer without entry is justified;
               \*   must   it was made when the peer had no (healthy) entry: unless the connection goes, a NewStream MUST follow;
               \*   lost   ... while the error of a failed open had not reached the parked loop (as-found defect, cond "error-pending");
               \*   carry  it was made while the peer had an entry without adopted stream: a repaired node may replay it when that open
               \*          fails (one later NewStream without fresh announcement is justified); the node as found drops it
               ELSE CASE E.a = "conn" /\ E.made ->
                             [x EXCEPT !.conn = "yes", !.can = TRUE, !.must = @ \/ x.st \in {"idle", "failing"}, !.lost = @ \/ x.st = "failing",
                                       !.carry = @ \/ x.st \in {"inflight", "wait", "ready", "failing"}]
                      [] E.a = "conn" -> [x EXCEPT !.conn = "yes"]
                      [] E.a = "renotify" ->
                             [x EXCEPT !.can = TRUE, !.must = @ \/ x.st \in {"idle", "failing"}, !.lost = @ \/ x.st = "failing",
                                       !.carry = @ \/ x.st \in {"inflight", "wait", "ready", "failing"}]
                      [] E.a = "down"     -> [x EXCEPT !.conn = IF E.by = "n" THEN "no" ELSE "maybe"]
                      [] E.a = "hold"     -> [x EXCEPT !.held = TRUE]
                      [] E.a = "release"  -> [x EXCEPT !.held = FALSE]
                      [] E.a = "fail"     -> [x EXCEPT !.fail = E.on]
                      [] OTHER -> x]
    /\ UNCHANGED <<glog, router>>

LawKind(res, al) ==
    IF Refuse \in al THEN "granted-beyond-max"
    ELSE IF Grant(0) \in al THEN "not-forgotten"
    ELSE IF res.d = 0 THEN "forgotten-early"
    ELSE IF \A a \in al : res.d < a.d THEN "too-short"
    ELSE IF \A a \in al : res.d > a.d THEN "too-long" ELSE "off-law"

TEv ==
    /\ E.e = "ev"
    /\ LET p == E.p
           x == m[p]
           t == E.t IN
       CASE E.k = "open" ->
              /\ glog' = glog
              /\ m' = [m EXCEPT ![p].st = "inflight", ![p].sawopen = TRUE, ![p].stable = FALSE, ![p].since = t,
                                 ![p].carry = IF x.st = "idle" THEN FALSE ELSE @]
              /\ CASE x.st = "wait" ->
                        /\ t < x.due => Report("P_X02c_NotBefore", "early", p, Cond(p), <<t, x.due>>)
                        /\ t > x.due + Slack => Report("P_X02c_OnTime", "late", p, Cond(p), <<t, x.due>>)
                   [] x.st = "idle" ->
                        ((~x.can /\ ~x.carry) \/ x.conn = "no") => Report("P_X02d_Eject", "open-without-announcement", p, Cond(p), <<x.can, x.carry, x.conn>>)
                   [] OTHER -> Report("P_X02f_OneWriter", "second-opener", p, Cond(p), x.st)
         [] E.k = "opened" ->
              /\ glog' = glog
              /\ m' = [m EXCEPT ![p].st = "ready", ![p].stable = FALSE]
              /\ x.st # "inflight" => Report("P_X02f_OneWriter", "opened-without-open", p, Cond(p), x.st)
         [] E.k = "openfail" ->
              /\ glog' = glog
              \* the error reaches the loop at once, unless the loop is parked: then the entry stays until it runs again
              /\ m' = [m EXCEPT ![p].st = IF parked THEN "failing" ELSE "idle", ![p].stable = FALSE]
              /\ x.st # "inflight" => Report("P_X02f_OneWriter", "openfail-without-open", p, Cond(p), x.st)
         [] E.k = "Up" ->
              /\ glog' = glog
              /\ IF x.st = "ready" /\ ~x.up
                   THEN m' = [m EXCEPT ![p].st = "live", ![p].up = TRUE, ![p].stable = FALSE, ![p].carry = FALSE, ![p].upat = t]
                   ELSE IF x.stale > 0
                     THEN \* the loop adopts a stream whose death it has already handled
                          /\ m' = [m EXCEPT ![p].up = TRUE, ![p].stale = @ - 1, ![p].stable = FALSE]
                          /\ Report("P_X02f_Alternate", "up-on-dead-stream", p, "early-death", x.st)
                     ELSE /\ m' = [m EXCEPT ![p].up = TRUE, ![p].st = IF x.st = "ready" THEN "live" ELSE @, ![p].stable = FALSE]
                          /\ Report("P_X02f_Alternate", IF x.up THEN "up-while-up" ELSE "up-without-stream", p, Cond(p), x.st)
         [] E.k = "Down" ->
              LET resp == E.after.has /\ E.after.last = t
                  al   == AllowedM(glog, p, t, MaxAtt)
                  res  == Grant(E.after.d)
                  early == x.st = "ready"          \* the stream was opened but the loop has not adopted it yet
                  x1 == [x EXCEPT !.up = FALSE, !.stable = FALSE,
                                  !.stale = IF early THEN @ + 1 ELSE @,
                                  !.race = @ \/ early,
                                  !.retired = IF x.lastq # "" THEN @ \cup {x.lastq} ELSE @]
                  cnd == IF x.race \/ early THEN "early-death" ELSE "none" IN
              /\ ~x.up => Report("P_X02f_Alternate", IF early THEN "down-before-up" ELSE "down-while-down", p, cnd, x.st)
              /\ (x.up /\ x.st # "live") => Report("P_X02f_Alternate", "down-without-live-stream", p, cnd, x.st)
              /\ IF resp
                   THEN /\ x.conn = "no" => Report("P_X02e_Gone", "respawn-disconnected", p, cnd, E.after)
                        /\ (Refuse \in al) => Report("P_X02d_Eject", "respawn-beyond-max", p, cnd, E.after)
                        /\ (Refuse \notin al /\ (res \notin al \/ E.after.rem # 0)) => Report("P_X02c_Law", LawKind(res, al), p, cnd, <<E.after, al>>)
                        /\ glog' = Append(glog, [t |-> t, p |-> p, ok |-> TRUE, d |-> E.after.d])
                        /\ m' = [m EXCEPT ![p] = [x1 EXCEPT !.st = "wait", !.due = t + E.after.d]]
                   ELSE /\ (x.conn = "yes" /\ Refuse \notin al) => Report("P_X02g_Served", "abandoned", p, cnd, E.after)
                        /\ glog' = IF x.conn = "yes" THEN Append(glog, [t |-> t, p |-> p, ok |-> FALSE, d |-> 0]) ELSE glog
                        /\ m' = [m EXCEPT ![p] = [x1 EXCEPT !.st = "idle"]]
         [] OTHER -> UNCHANGED <<m, glog>>
    /\ UNCHANGED <<parked, router>>

TSnap ==
    /\ E.e = "snap"
    /\ UNCHANGED <<glog, parked, router>>
    /\ LET settled == ~parked /\ E.ok IN
       /\ m' = [p \in Peers |->
                  [m[p] EXCEPT !.conn = IF E.conn[p] > 0 THEN "yes" ELSE "no",
                               !.can = IF settled THEN FALSE ELSE @,
                               !.must = IF settled THEN FALSE ELSE @,
                               !.lost = IF settled THEN FALSE ELSE @,
                               !.lastq = IF settled THEN E.q[p] ELSE @,
                               !.stable = IF settled THEN TRUE ELSE @,
                               \* the consequences of an early death end when monitor and router agree again
                               !.race = IF settled /\ m[p].st \in {"idle", "live"} /\ (m[p].up <=> m[p].st = "live") /\ m[p].stale = 0 THEN FALSE ELSE @]]
       /\ \A p \in Peers :
            LET x == m[p] IN
            \* the node's backoff object, whatever the loop is doing
            /\ (E.bo[p].has /\ Succ(glog, p) # {} /\ E.t - LastGrant(glog, p) > TTL + CleanupInterval)
                   => Report("P_X02b_Keys", "leak", p, Cond(p), E.bo[p])
            /\ (E.bo[p].has /\ Succ(glog, p) = {}) => Report("P_X02b_Keys", "never-granted", p, Cond(p), E.bo[p])
            /\ (~E.bo[p].has /\ Succ(glog, p) # {} /\ E.t - LastGrant(glog, p) <= TTL)
                   => Report("P_X02b_Keys", "forgotten-early", p, Cond(p), E.bo[p])
            /\ settled =>
                 /\ (x.up # (x.st = "live")) => Report("P_X02f_Consistent", IF x.up THEN "router-up-without-stream" ELSE "stream-without-router-up", p, Cond(p), x.st)
                 /\ (E.hasrt /\ E.rt[p] # x.up) => Report("P_X02f_Consistent", IF E.rt[p] THEN "router-set-has-peer" ELSE "router-set-lacks-peer", p, Cond(p), x.st)
                 /\ (E.pn[p] \/ E.pd[p]) => Report("P_X02g_Served", "pending-not-drained", p, Cond(p), <<E.pn[p], E.pd[p]>>)
                 /\ CASE x.st = "idle" ->
                           /\ E.q[p] # "" => Report("P_X02e_Gone", "entry-left", p, Cond(p), E.q[p])
                           /\ E.alive[p] # 0 => Report("P_X02e_Gone", "stream-left", p, Cond(p), E.alive[p])
                           /\ (x.must /\ E.conn[p] > 0 /\ ~x.sawopen) =>
                                 Report("P_X02g_Served", "announced-not-opened", p, IF x.lost THEN "error-pending" ELSE Cond(p), "")
                      [] x.st = "live" ->
                           /\ E.q[p] = "" => Report("P_X02f_Consistent", "no-entry", p, Cond(p), "")
                           /\ E.closed[p] => Report("P_X02f_Consistent", "closed-queue", p, Cond(p), E.q[p])
                           \* the fake peer sees a stream one network latency after the node opened it: a backoff timer may fire at the
                           \* very instant a step ends
                           /\ (E.alive[p] # 1 /\ (E.t - x.upat > Slack \/ E.alive[p] > 1)) => Report("P_X02f_Consistent", "live-streams", p, Cond(p), E.alive[p])
                           /\ (E.q[p] \in x.retired) => Report("P_X02c_NotBefore", "queue-reused", p, Cond(p), E.q[p])
                           /\ (x.stable /\ x.lastq # "" /\ E.q[p] # x.lastq) => Report("P_X02f_Consistent", "queue-replaced", p, Cond(p), <<x.lastq, E.q[p]>>)
                      [] x.st = "wait" ->
                           /\ E.q[p] = "" => Report("P_X02f_Consistent", "no-entry", p, Cond(p), "")
                           /\ E.closed[p] => Report("P_X02f_Consistent", "closed-queue", p, Cond(p), E.q[p])
                           /\ E.alive[p] # 0 => Report("P_X02f_Consistent", "live-streams", p, Cond(p), E.alive[p])
                           /\ (E.q[p] \in x.retired) => Report("P_X02c_NotBefore", "queue-reused", p, Cond(p), E.q[p])
                           /\ E.t > x.due + Slack => Report("P_X02c_OnTime", "missing", p, Cond(p), <<E.t, x.due>>)
                      [] x.st = "inflight" ->
                           /\ E.q[p] = "" => Report("P_X02f_Consistent", "no-entry", p, Cond(p), "")
                           /\ (~x.held /\ E.t - x.since > OpenMax) => Report("P_X02g_Served", "open-stuck", p, Cond(p), <<x.since, E.t>>)
                      [] OTHER -> Report("P_X02g_Served", "not-adopted", p, Cond(p), x.st)
       /\ settled =>
            LET anyrace == IF \E p \in Peers : m[p].race THEN "early-death" ELSE "none"
                pp == CHOOSE p \in Peers : TRUE IN
            /\ E.g.w # Count("live") => Report("P_X02f_OneWriter", "writers", pp, anyrace, <<E.g.w, Count("live")>>)
            /\ E.g.d # Count("live") => Report("P_X02f_OneWriter", "watchers", pp, anyrace, <<E.g.d, Count("live")>>)
            /\ E.g.b # Count("wait") => Report("P_X02f_OneWriter", "backoff-waiters", pp, anyrace, <<E.g.b, Count("wait")>>)
            /\ E.g.o # Count("inflight") => Report("P_X02f_OneWriter", "openers", pp, anyrace, <<E.g.o, Count("inflight")>>)

TStep == /\ l <= Len(Trace) /\ l' = l + 1
         /\ now' = E.t /\ UNCHANGED <<info, log, clean>>
         /\ (TReset \/ TAct \/ TEv \/ TSnap)

TraceSpec == TInit /\ [][TStep]_tvars

HW == IF TLCGet(1) < l THEN TLCSet(1, l) ELSE TRUE
Accepted == PrintT(<<"HW", TLCGet(1), Len(Trace) + 1>>)
=============================================================================
