\* the code AS FOUND (announcement dropped while a failed open is still being reported): MUST fail P_X02g_Served
SPECIFICATION Spec
CONSTANTS
  Peers = {p1}
  MinDelay = 1
  MaxDelay = 3
  TTL = 4
  Mult = 2
  Jit = 1
  MaxAtt = 2
  DevTTLInclusive = FALSE
  DevErrRefresh = FALSE
  DevNoCap = FALSE
  DevCleanEarly = FALSE
  DevJitter = FALSE
  MaxQ = 5
  MaxEnv = 4
  MaxNow = 5
  WatchAtOpen = FALSE
  ReplayAnnounce = FALSE
  DevNoCloseQueue = FALSE
  DevNoConnCheck = FALSE
  DevEarlyRespawn = FALSE
  DevNoEject = FALSE
  DevErrKeepsQueue = FALSE
  DevPendingDup = FALSE
VIEW View
INVARIANT NodeTypeOK
INVARIANT P_X02f_Alternate
INVARIANT P_X02f_OneWriter
INVARIANT P_X02f_Consistent
INVARIANT P_X02e_Gone
INVARIANT P_X02e_NoDialDead
INVARIANT P_X02c_NotBefore
INVARIANT P_X02d_Eject
INVARIANT P_X02g_Served

CHECK_DEADLOCK FALSE
