------------------------------ MODULE Backoff ------------------------------
(* X02, level 1: the reconnect backoff object of /repo/backoff.go (`backoff`, `updateAndGet`,
   `cleanup`, `cleanupLoop`), as the dead-peer handler of pubsub.go uses it.

   Two levels in one module:

   * MEANING (history based): `Allowed(h, p, t)` is the set of results a call `updateAndGet(p)` at time t
     may return after the call history h (a sequence of [t, p, ok, d]); `LiveKeys/EverKeys` say which
     peers the object may still remember.  Nothing here mentions the object's own bookkeeping: the law is a
     function of the per-peer history only (properties X02.a, X02.b, see DeadPeer.tla for the full list).

   * IMPLEMENTATION-SHAPED model: the map `info` (duration, lastTried, attempts) mutated by Get / Cleanup in the
     order of the `switch` in backoff.go.  Dev* constants seed one model defect each (non-vacuity).

   Time is an integer (milliseconds on real traces, small units in the exhaustive configs).  The jitter the code
   draws (`rand.Intn(MaxBackoffJitterCoff)` ms) is a free choice: j \in 0..Jit-1.

   Deliberate deviations: the `ct` size threshold of newBackoff is ignored (the code never reads it);
   `h.duration < 0` (overflow guard) cannot happen with bounded integers and is folded into the cap.       *)
EXTENDS Integers, Sequences, FiniteSets, TLC

CONSTANTS Peers,
          MinDelay, MaxDelay, TTL, Mult, Jit, MaxAtt,
          DevTTLInclusive,   \* history forgotten already at a gap of exactly TTL (>= instead of >)
          DevErrRefresh,     \* a refused call refreshes lastTried
          DevNoCap,          \* the delay is not capped at MaxDelay
          DevCleanEarly,     \* cleanup removes entries at a gap of exactly TTL
          DevJitter          \* the jitter may reach Jit (inclusive bound)

-----------------------------------------------------------------------------
(* MEANING *)

Max2(a, b) == IF a > b THEN a ELSE b

\* indices of p's granted calls in h
Succ(h, p) == {i \in DOMAIN h : h[i].p = p /\ h[i].ok}
Latest(S) == CHOOSE i \in S : \A j \in S : j <= i
PrevS(h, p, i) == LET S == {j \in Succ(h, p) : j < i} IN IF S = {} THEN 0 ELSE Latest(S)
\* a granted call starts a new run when there is no earlier one or the gap to it exceeds TTL
IsStart(h, p, i) == i \in Succ(h, p) /\ (PrevS(h, p, i) = 0 \/ h[i].t - h[PrevS(h, p, i)].t > TTL)
\* the run (maximal chain of granted calls with gaps <= TTL) that ends at the granted call c
RunOf(h, p, c) == LET s == Latest({i \in Succ(h, p) : i <= c /\ IsStart(h, p, i)})
                  IN {i \in Succ(h, p) : s <= i /\ i <= c}

Cap(d) == IF d > MaxDelay THEN MaxDelay ELSE d

Grant(d) == [ok |-> TRUE, d |-> d]
Refuse == [ok |-> FALSE, d |-> 0]

\* X02.a: what updateAndGet(p) at time t may answer after history h (m = maxAttempts of the object)
AllowedM(h, p, t, m) ==
    LET S == Succ(h, p) IN
    IF S = {} THEN {Grant(0)}
    ELSE LET c == Latest(S) IN
         IF t - h[c].t > TTL THEN {Grant(0)}                         \* inactive for more than TTL: forgotten
         ELSE LET k == Cardinality(RunOf(h, p, c))
                  dp == h[c].d IN
              IF k >= m THEN {Refuse}                                \* m grants inside the run: refused
              ELSE IF dp < MinDelay THEN {Grant(MinDelay)}           \* second attempt
              ELSE IF dp < MaxDelay THEN {Grant(Cap(Mult * dp + j)) : j \in 0 .. (Jit - 1)}
              ELSE {Grant(dp)}                                       \* stays at the cap

Allowed(h, p, t) == AllowedM(h, p, t, MaxAtt)

\* X02.b: peers the object MUST still remember at time t / MAY remember at all
LiveKeys(h, t) == {p \in Peers : Succ(h, p) # {} /\ t - h[Latest(Succ(h, p))].t <= TTL}
EverKeys(h) == {p \in Peers : Succ(h, p) # {}}

-----------------------------------------------------------------------------
(* IMPLEMENTATION-SHAPED MODEL *)

VARIABLES info,     \* [Peers -> [has, dur, last, att]]   (b.info)
          now,
          log,      \* history of calls: [t, p, ok, d]
          clean     \* TRUE right after a cleanup (no time has passed since)

bvars == <<info, now, log, clean>>

NoEntry == [has |-> FALSE, dur |-> 0, last |-> 0, att |-> 0]

BInit == /\ info = [p \in Peers |-> NoEntry] /\ now = 0 /\ log = <<>> /\ clean = TRUE

Expired(e, t) == IF DevTTLInclusive THEN t - e.last >= TTL ELSE t - e.last > TTL

\* one call of updateAndGet: the cases of the switch, in order
Get(p, j) ==
    LET e == info[p] IN
    /\ clean' = clean
    /\ now' = now
    /\ IF ~e.has \/ Expired(e, now)
         THEN /\ info' = [info EXCEPT ![p] = [has |-> TRUE, dur |-> 0, last |-> now, att |-> 1]]
              /\ log' = Append(log, [t |-> now, p |-> p, ok |-> TRUE, d |-> 0])
       ELSE IF e.att >= MaxAtt
         THEN /\ info' = IF DevErrRefresh THEN [info EXCEPT ![p].last = now] ELSE info
              /\ log' = Append(log, [t |-> now, p |-> p, ok |-> FALSE, d |-> 0])
       ELSE LET d1 == IF e.dur < MinDelay THEN MinDelay
                      ELSE IF e.dur < MaxDelay THEN (IF DevNoCap THEN Mult * e.dur + j ELSE Cap(Mult * e.dur + j))
                      ELSE e.dur IN
            /\ info' = [info EXCEPT ![p] = [has |-> TRUE, dur |-> d1, last |-> now, att |-> e.att + 1]]
            /\ log' = Append(log, [t |-> now, p |-> p, ok |-> TRUE, d |-> d1])

Cleanup ==
    /\ info' = [p \in Peers |-> IF info[p].has /\ (Expired(info[p], now) \/ (DevCleanEarly /\ now - info[p].last >= TTL))
                                  THEN NoEntry ELSE info[p]]
    /\ clean' = TRUE
    /\ UNCHANGED <<now, log>>

Tick == /\ now' = now + 1 /\ clean' = FALSE /\ UNCHANGED <<info, log>>

JitSet == 0 .. (IF DevJitter THEN Jit ELSE Jit - 1)

BNext == \/ \E p \in Peers, j \in JitSet : Get(p, j)
         \/ Cleanup
         \/ Tick

BSpec == BInit /\ [][BNext]_bvars

Keys == {p \in Peers : info[p].has}

-----------------------------------------------------------------------------
(* PROPERTIES of the model (invariants; each is also evaluated on real traces by BackoffTrace) *)

\* X02.a  every answer is one the law allows (checked for the newest call; earlier ones were checked before)
P_X02a_Law ==
    log # <<>> =>
        LET n == Len(log) IN [ok |-> log[n].ok, d |-> log[n].d] \in Allowed(SubSeq(log, 1, n - 1), log[n].p, log[n].t)

\* consequences of the law, stated on their own (cheap to read, used by the must-fail configurations)
P_X02a_Bounded == \A i \in DOMAIN log : log[i].d >= 0 /\ log[i].d <= MaxDelay
P_X02a_FirstFree == \A i \in DOMAIN log : PrevS(log, log[i].p, i) = 0 => (log[i].ok /\ log[i].d = 0)
P_X02a_Monotone ==
    \A i \in DOMAIN log : (log[i].ok /\ PrevS(log, log[i].p, i) # 0 /\ ~IsStart(log, log[i].p, i))
                             => log[i].d >= log[PrevS(log, log[i].p, i)].d
P_X02a_AtMostMaxAtt ==
    \A p \in Peers : \A c \in Succ(log, p) : Cardinality(RunOf(log, p, c)) <= Max2(MaxAtt, 1)

\* X02.b  nothing live is forgotten, nothing is remembered that was never granted, and a cleanup leaves exactly the live entries
P_X02b_Keys == /\ LiveKeys(log, now) \subseteq Keys
               /\ Keys \subseteq EverKeys(log)
               /\ clean => Keys = LiveKeys(log, now)

TypeOK == /\ now \in Nat /\ clean \in BOOLEAN
          /\ \A p \in Peers : info[p].att \in Nat /\ info[p].dur \in Nat /\ info[p].last \in Nat
=============================================================================
