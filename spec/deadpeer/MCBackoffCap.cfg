\* one peer, long runs: the delay reaches the cap and stays there
SPECIFICATION BSpec
CONSTANTS
  Peers = {p1}
  MinDelay = 1
  MaxDelay = 6
  TTL = 3
  Mult = 2
  Jit = 2
  MaxAtt = 7
  DevTTLInclusive = FALSE
  DevErrRefresh = FALSE
  DevNoCap = FALSE
  DevCleanEarly = FALSE
  DevJitter = FALSE
  MaxCalls = 8
  MaxNow = 4
CONSTRAINT Bound
INVARIANT TypeOK
INVARIANT P_X02a_Law
INVARIANT P_X02a_Bounded
INVARIANT P_X02a_FirstFree
INVARIANT P_X02a_Monotone
INVARIANT P_X02a_AtMostMaxAtt
INVARIANT P_X02b_Keys
CHECK_DEADLOCK FALSE
