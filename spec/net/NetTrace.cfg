SPECIFICATION TraceSpec
CONSTANTS
  MaxN = 5
CONSTRAINT HW
POSTCONDITION Accepted
CHECK_DEADLOCK FALSE
