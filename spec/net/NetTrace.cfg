SPECIFICATION TraceSpec
CONSTANTS
  MaxN = 16
CONSTRAINT HW
POSTCONDITION Accepted
CHECK_DEADLOCK FALSE
