\* sim-n4-gossip - generated from bin/lib/props/c01.py (mc_jobs); must pass (run with -simulate)
SPECIFICATION Spec
CONSTANTS
  n1 = n1
  n2 = n2
  n3 = n3
  n4 = n4
  Nodes = {n1, n2, n3, n4}
  PruneBackoff = 2
  UnsubBackoff = 1
  Slack = 1
  Sweep = 2
  HistoryLen = 2
  HistoryGossip = 1
  SettleTicks = 7
  QuiesceTicks = 4
  MaxSubs = 1
  MaxRelays = 1
  MaxChurn = 2
  MaxPub = 2
  InitKinds = {"gossip"}
  FloodForwardToFloodsubPeers = TRUE
  GossipRound = TRUE
  RelayForwards = TRUE
  HelloCarriesRelays = TRUE
  StrictSettled = TRUE
  Backpressure = FALSE
  AnnounceLostAfterFull = FALSE
  D = 2
  Dlo = 1
  Dhi = 3
  Dlazy = 2
  RandomSubD = 6
INVARIANT TypeOK
INVARIANT P_C01_ExactlyOnce
INVARIANT P_C01_NoDup
INVARIANT KnownConverged
INVARIANT MeshSane
CHECK_DEADLOCK FALSE
