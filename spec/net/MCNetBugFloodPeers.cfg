\* bug-floodpeers - generated from bin/lib/props/c01.py (mc_jobs); MUST FAIL: P_C01_ExactlyOnce
SPECIFICATION Spec
CONSTANTS
  n1 = n1
  n2 = n2
  n3 = n3
  n4 = n4
  Nodes = {n1, n2}
  PruneBackoff = 2
  UnsubBackoff = 1
  Slack = 1
  Sweep = 2
  HistoryLen = 2
  HistoryGossip = 1
  SettleTicks = 7
  QuiesceTicks = 3
  MaxSubs = 1
  MaxRelays = 1
  MaxChurn = 1
  MaxPub = 1
  InitKinds = {"flood", "random", "gossip"}
  FloodForwardToFloodsubPeers = FALSE
  GossipRound = TRUE
  RelayForwards = TRUE
  HelloCarriesRelays = TRUE
  StrictSettled = TRUE
  Backpressure = FALSE
  AnnounceLostAfterFull = FALSE
  D = 2
  Dlo = 1
  Dhi = 3
  Dlazy = 2
  RandomSubD = 6
INVARIANT TypeOK
INVARIANT P_C01_ExactlyOnce
INVARIANT P_C01_NoDup
INVARIANT KnownConverged
INVARIANT MeshSane
SYMMETRY Sym2
CHECK_DEADLOCK FALSE
