\* exhaustive generation for N = 3 (bin/lib/props/c01.py gen_jobs); -simulate for N = 4, 5
SPECIFICATION Spec
CONSTANTS
  Dlo = 1
  Dlazy = 2
  RandomSubD = 6
  MaxSubs = 2
  MaxRelays = 1
  GenKinds = {"flood", "random", "gossip"}
  N = 3
  MaxChurn = 2
  Canon = TRUE
INVARIANT Emit
CHECK_DEADLOCK FALSE
